"""C10: plan entry, claim text (MANIFEST) and the parametric airfoil-section generator."""
import math

PYTH = [(1, 0, 1), (3, 4, 5), (-4, 3, 5), (0, 1, 1), (5, -12, 13), (-15, -8, 17), (20, 21, 29), (-1, 0, 1)]
IDENT = {'M': [[1, 0, 0], [0, 1, 0], [0, 0, 1]], 'H': 1, 't': [0, 0, 0], 'tden': 1}


def make_section(chord, camber_h, r_max, r_le, r_te, n_side, open_te=False, unit=None):
    """closed section = envelope of circles of radius r(t) centred on the camber curve C(t), t in [0,1].
    Returns integer points (coordinates * unit), the generating camber polyline and radii at its vertices."""
    if unit is None:
        unit = int(round(2 ** 24 / chord)) if chord < 16 else int(round(2 ** 20 / chord * 16))
        unit = max(unit, 1000)
    L = chord
    C = lambda t: (L * t, 4.0 * camber_h * t * (1.0 - t))
    dC = lambda t: (L, 4.0 * camber_h * (1.0 - 2.0 * t))
    A = r_max - max(r_le, r_te)
    R = lambda t: r_le + (r_te - r_le) * t + A * (math.sin(math.pi * t) + 0.3 * math.sin(2 * math.pi * t)) / 1.12
    dR = lambda t: (r_te - r_le) + A * math.pi * (math.cos(math.pi * t) + 0.6 * math.cos(2 * math.pi * t)) / 1.12
    up, lo = [], []
    for i in range(n_side + 1):
        t = i / n_side
        cx, cy = C(t)
        dx, dy = dC(t)
        sp = math.hypot(dx, dy)
        tx, ty = dx / sp, dy / sp
        nx, ny = -ty, tx
        rp = dR(t) / sp                      # dr/ds
        r = R(t)
        k = math.sqrt(max(0.0, 1.0 - rp * rp))
        up.append((cx + r * (-rp * tx + k * nx), cy + r * (-rp * ty + k * ny)))
        lo.append((cx + r * (-rp * tx - k * nx), cy + r * (-rp * ty - k * ny)))

    def cap(center, r, p_from, p_to, through, m):
        a0 = math.atan2(p_from[1] - center[1], p_from[0] - center[0])
        a1 = math.atan2(p_to[1] - center[1], p_to[0] - center[0])
        at = math.atan2(through[1], through[0])
        # sweep from a0 to a1 in the direction that passes through `at`
        def norm(a):
            while a < 0: a += 2 * math.pi
            while a >= 2 * math.pi: a -= 2 * math.pi
            return a
        ccw = norm(a1 - a0)
        thr = norm(at - a0)
        sweep = ccw if thr <= ccw else ccw - 2 * math.pi
        return [(center[0] + r * math.cos(a0 + sweep * j / m), center[1] + r * math.sin(a0 + sweep * j / m)) for j in range(1, m)]

    m_te = max(6, int(n_side * 0.08))
    m_le = max(8, int(n_side * 0.12))
    d1 = dC(1.0); s1 = math.hypot(*d1); t1 = (d1[0] / s1, d1[1] / s1)
    d0 = dC(0.0); s0 = math.hypot(*d0); t0 = (d0[0] / s0, d0[1] / s0)
    pts = list(up)
    if not open_te:
        pts += cap(C(1.0), R(1.0), up[-1], lo[-1], t1, m_te)
    pts += list(reversed(lo))
    pts += cap(C(0.0), R(0.0), lo[0], up[0], (-t0[0], -t0[1]), m_le)
    ipts = [[int(round(x * unit)), int(round(y * unit))] for (x, y) in pts]
    # remove consecutive duplicates after rounding
    out = [ipts[0]]
    for p in ipts[1:]:
        if p != out[-1]:
            out.append(p)
    if out[0] == out[-1]:
        out.pop()
    ncam = 200
    cam = [[int(round(C(j / ncam)[0] * unit)), int(round(C(j / ncam)[1] * unit))] for j in range(ncam + 1)]
    rad = [int(round(R(j / ncam) * unit)) for j in range(ncam + 1)]
    le_pt = (C(0.0)[0] - R(0.0) * t0[0], C(0.0)[1] - R(0.0) * t0[1])
    te_pt = (C(1.0)[0] + R(1.0) * t1[0], C(1.0)[1] + R(1.0) * t1[1])
    glen = sum(math.hypot(cam[j + 1][0] - cam[j][0], cam[j + 1][1] - cam[j][1]) for j in range(ncam))
    return {'unit': unit, 'chord': int(round(chord * unit)), 'glen': int(round(glen)), 'pts': out, 'camber': cam, 'radii': rad,
            'le_true': [int(round(le_pt[0] * unit)), int(round(le_pt[1] * unit))], 'te_true': [int(round(te_pt[0] * unit)), int(round(te_pt[1] * unit))],
            'rmax': int(round(max(R(j / 1000) for j in range(1001)) * unit)),
            'glen_mc': int(round(glen / (chord * unit) * 1e6)), 'rmax_mc': int(round(max(R(j / 1000) for j in range(1001)) / chord * 1e6))}


def motion(rnd, scale):
    c, s, h = rnd.choice(PYTH)
    return {'M': [[c, -s, 0], [s, c, 0], [0, 0, h]], 'H': h, 't': [int(rnd.randint(-30, 30) * scale) , int(rnd.randint(-30, 30) * scale), 0], 'tden': 10}



CHORDS = [0.5, 1.0, 2.5, 10.0, 50.0, 2000.0]        # the last one only in the seeded random configurations
LIVELOCK = {'m': 'airfoil', 'op': 'livelock', 'wd': 3000, 'xl': 0, 'xn': 40,
            'pts': [[-20, 0], [20, -6], [60, 0], [60, 10], [13, 10], [13, 5], [8, 5], [8, 6], [12, 6], [12, 10], [-20, 10]]}


def make_open_section(chord, camber_h, r_max, r_le, r_te, n_side, t_cut=0.8, front=False):
    """the closed section cut open at camber fraction t_cut: upper surface from the cut to the leading edge, the cap, lower back to the cut"""
    sec = make_section(chord, camber_h, r_max, r_le, r_te, n_side)
    # rebuild the point list from the generator's pieces: take the closed polygon and drop everything with x beyond the cut
    unit = sec['unit']
    xcut = t_cut * chord * unit
    pts = sec['pts']
    # the closed list starts on the upper surface at the leading edge: rotate so that it starts just after the cut on the lower side
    if front:
        # open at the leading edge: drop everything ahead of the cut; the closed list runs upper (x increasing), TE cap,
        # lower (x decreasing), LE cap - the kept run is contiguous
        inside = [i for i, p in enumerate(pts) if p[0] >= xcut]
        sec['pts'] = pts[inside[0]:inside[-1] + 1]
        return sec
    keep = [p for p in pts if p[0] <= xcut]
    # order: lower side (from the cut towards the LE), cap, upper side (LE towards the cut). In the closed list the upper run comes
    # first (x increasing), then the TE cap and lower (x decreasing), then the LE cap. Split at the first index whose x > xcut.
    first_out = next(i for i, p in enumerate(pts) if p[0] > xcut)
    last_out = max(i for i, p in enumerate(pts) if p[0] > xcut)
    open_pts = pts[last_out + 1:] + pts[:first_out]
    sec['pts'] = open_pts
    return sec


def expand_c10(cfg):
    """TLC-emitted configuration -> full analysis case (geometry is a pure function of the configuration)"""
    if cfg.get('op') == 'livelock':
        return dict(LIVELOCK)
    if cfg.get('op') != 'config':
        return cfg
    chord = CHORDS[cfg['chord']]
    camh = cfg['camber'] / 100.0 * chord
    rmax = cfg['thick'] / 100.0 * chord
    # edge radius profile: 0 = round nose / thin tail, 1 = thin nose / thick tail (maximum thickness still ahead of mid-chord)
    rle, rte = ((0.016, 0.008), (0.004, 0.03))[cfg.get('prof', 0)]
    rle *= chord
    rte *= chord
    if cfg['open'] and cfg.get('front'):
        sec = make_open_section(chord, camh, rmax, rle, rte, cfg['nside'], t_cut=0.15, front=True)
    elif cfg['open']:
        sec = make_open_section(chord, camh, rmax, rle, rte, cfg['nside'])
    else:
        sec = make_section(chord, camh, rmax, rle, rte, cfg['nside'])
    if cfg.get('mirror'):
        # the opposite hand: reflect in the chord line (the vertex order then runs the other way round)
        for key in ('pts', 'camber'):
            sec[key] = [[p[0], -p[1]] for p in sec[key]]
        sec['le_true'] = [sec['le_true'][0], -sec['le_true'][1]]
        sec['te_true'] = [sec['te_true'][0], -sec['te_true'][1]]
    import random
    rnd = random.Random(cfg['chord'] * 1000 + cfg['camber'] * 10 + cfg['nside'])
    n = len(sec['pts'])
    rec = {'m': 'airfoil', 'op': 'analyze', 'wd': 120000, 'closed': not cfg['open'], 'tolq': cfg.get('tolq', 100), 'cfg': cfg,
           # requested forward direction for DirectionFwd: along the chord, or 79 degrees off it to either side (still pointing
           # towards the leading edge, but closer to the initial heading of a cambered camber line than to the chord)
           'orient': {'kind': 'dir' if cfg['open'] else cfg['orient'], 'd': ([-1, 0], [-1, 5], [-1, -5])[cfg.get('od', 0)]}, 'le': {'kind': cfg['le']}, 'te': {'kind': cfg['te']},
           'face': {'kind': cfg['face'], 'd': [0, 1]}, 'mirror': bool(cfg.get('mirror')),
           'variants': [{'T': IDENT, 'rev': False, 'shift': 0},
                        {'T': motion(rnd, chord), 'rev': False, 'shift': 0},
                        {'T': IDENT, 'rev': True, 'shift': 0},
                        {'T': IDENT, 'rev': False, 'shift': (n // 3) if not cfg['open'] else 0},
                        {'T': IDENT, 'rev': False, 'shift': (n - 5) if not cfg['open'] else 0}]}
    if cfg.get('farpose'):
        # the moved variant is carried 5e5 chords from the origin instead of a few tens
        rec['variants'][1]['T'] = dict(rec['variants'][1]['T'], t=[int(400000 * chord * 10), int(-300000 * chord * 10), 0])
    # an edge point may sit on an arc fitted to the section within the analysis tolerance, and the section itself is a polygon
    # inscribed in the generating envelope: allowance = analysis tolerance + the largest sagitta of the two end caps + 20
    m_te = max(6, int(cfg['nside'] * 0.08)); m_le = max(8, int(cfg['nside'] * 0.12))
    sag = max(rte * (1 - math.cos(math.pi / (2 * m_te))), rle * (1 - math.cos(math.pi / (2 * m_le)))) / chord * 1e6
    rec['edge_tol_mc'] = int(rec['tolq'] + sag + 20)
    rec['le_chk'] = not (cfg['open'] and cfg.get('front', False))
    rec['te_chk'] = not (cfg['open'] and not cfg.get('front', False))
    rec.update(sec)
    return rec


def gen_c10_random(rnd, tier):
    n = 8 if tier == 'quick' else 80
    out = []
    methods = ['fit', 'trace', 'converge', 'const', 'intersect', 'ransac']
    for k in range(n):
        cfg = {'m': 'airfoil', 'op': 'config', 'chord': rnd.randint(0, 5), 'camber': rnd.choice([1, 3, 4, 6, 7]), 'thick': rnd.choice([5, 6, 7, 8]),
               'le': rnd.choice(methods), 'te': rnd.choice(methods), 'orient': rnd.choice(['tmax', 'dir']),
               'face': rnd.choice(['upper', 'detect']), 'nside': rnd.choice([120, 240, 320]), 'open': False, 'od': rnd.randint(0, 2), 'mirror': rnd.randint(0, 1)}
        out.append(expand_c10(cfg))
    return out


PLAN_ENTRY = {'stages': [
    {'name': 'stations_model',
     'mc': [{'module': 'Stations', 'cfg': {'quick': 'MC_C10_stations.cfg', 'thorough': 'MC_C10_stations.cfg'}, 'workers': 4},
            {'module': 'Stations', 'cfg': {'quick': 'MC_C10_stations_fail_quick.cfg', 'thorough': 'MC_C10_stations_fail.cfg'}, 'workers': 8},
            # negative configuration: the pinned loop (no retry guard) can livelock when a mid station's spanning ray cannot be created
            {'module': 'Stations', 'cfg': {'quick': 'MC_C10_stations_livelock.cfg', 'thorough': 'MC_C10_stations_livelock.cfg'}, 'workers': 2, 'expect_violation': True}]},
    {'name': 'analysis',
     'mc': [{'module': 'MC_C10', 'cfg': {'quick': 'MC_C10_quick.cfg', 'thorough': 'MC_C10_thorough.cfg'}, 'workers': 2}],
     'expand': 'expand_c10',
     'gens': ['gen_c10_random'],
     'trace': 'Trace_Airfoil'}],
    'assumptions': [
        'sections are generated as the exact envelope of circles along a parabolic camber with radius law r(t) = r_le + (r_te - r_le) t + A (sin(pi t) + 0.3 sin(2 pi t))/1.12 (maximum ahead of mid-chord), rounded to integer coordinates (>= 2^20 per chord)',
        'distances of centres / contacts / edge points to the section and to the generating camber are derived observations computed by the harness through engeom closest-point queries (validated by C02)',
        'tolerances (micro-chords) are calibrated: inscribedness 40 for stations over the interior of the camber, 3000 for stations manufactured by the edge heuristics; law 120; invariance of edge points 12000',
        'TLC judges inequalities on these observations and the discrete clauses (ordering, sides, partition, ends); it does not model the geometric search itself',
    ]}

CLAIM = {
    'text': 'Model checking: Stations.tla transcribes the station container (vector + reversed flag) and the refinement loop over an abstract camber coordinate; TLC shows for every interleaving that the stored order is monotone, the working end is the flag end, nothing pushed is lost, stations respect the gap, the stack is bounded and refinement terminates when symmetric spanning rays exist, and (negative configuration) that it can loop forever when they may fail - a counterexample that was reproduced on the real refine_stations (known finding). Binding: TLC enumerates the configuration space of a parametric family of sections (5 chords from 0.5 to 50, 4 camber heights incl. symmetric, 3 thicknesses, sampling densities, both CamberOrient, both FaceOrient, every pair of the six closed EdgeLocate methods, open sections with OpenEdge / OpenIntersectGap); each configuration is expanded into the exact envelope-of-circles polygon and analysed five times (as is, rigidly moved, reversed, two start-vertex rotations) in a limited child process; TLC judges: every station is inscribed (|dist(centre, section) - r| within tolerance), contacts on the section one radius from the centre and on opposite sides, stations strictly advance, edge points finite, on the section and at the ends of the camber curve, upper + lower = perimeter with ends at the edge points and upper on the requested side, centres on the generating camber and radii on the law (so max thickness is recovered), and all of it unchanged across the five variants. Further configurations: opposite-hand (mirrored) sections, a moved variant 5e5 chords from the origin, and a coarse analysis tolerance above the nose radius (termination).',
    'design_ref': 'DESIGN.md section 6 C10 and 12.3',
    'note': 'Trusted: TLC; derived distances via engeom queries; calibrated tolerances. This property is only partly inside the technique family: the discrete skeleton (container, refinement, ordering, partition) is model-checked, the geometric accuracy clauses are quantised trace invariants.',
    'technique': 'TLA+ L2 model of the station container/refinement model-checked by TLC (safety + liveness, negative model) + TLC trace validation of recorded analyses against L1 clauses',
}
