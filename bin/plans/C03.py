"""C03: plan entry, claim text (MANIFEST) and seeded generators."""

PLAN_ENTRY = {'stages': [
    {'name': 'rigid',
     'mc': [{'module': 'MC_C03', 'cfg': {'quick': 'MC_C03_quick.cfg', 'thorough': 'MC_C03_thorough.cfg'}, 'workers': 4}],
     'gens': ['gen_c03_random'],
     'trace': 'Trace_Rigid'}],
    'assumptions': [
        'TLC applies the exact rational motion (integer matrix over a common denominator, integer translation) correctly',
        'the query point handed to the transformed entity is T*q computed by nalgebra (trusted matrix product)',
        'harness projection: points/scalars to 2^-12 unit, unit vectors to 2^-13; tolerance 6 quanta (translations up to 1e3 cost a few ulps)',
        'equivariance of closest points is demanded only where the exact closest point is unique',
    ]}

CLAIM = {
    'text': 'TLC enumerates exact rigid motions (rotations by Pythagorean angles about one axis in 2D and about one or two axes in 3D, integer translations up to 1000), checks that each is a proper rotation and - on the specification itself - that the oracle operators used elsewhere (total length, exact minimum distance to a polyline, number of line crossings) are invariant under every exact lattice motion; every (motion, entity, queries) case is run through the library: the entity is moved by the library (SurfacePoint2/3 `&T * sp` and `transformed`, Plane3::transform_by, Curve2/Curve3::transformed_by, Segment2::transform_by, Mesh::transform, PointCloud::transform, point-slice transform_by, Distance2::to_3d / Distance3::to_2d) and TLC judges relations between the observations before and after: points move by T, normals/directions only rotate, scalar projections / planar, signed-plane, point-curve and point-mesh distances / lengths / directed-distance values are unchanged, closedness, count and tolerance are carried over, T^-1 after T restores the vertices, transforming by a composition equals transforming in sequence. Seeded random motions with arbitrary Pythagorean products and translations extend the set. Dirty listings (readings that jitter within the tolerance, repeated points) are moved as well, and the signed 2D profile deviations of metrology::line_profiles are measured in three frames around the corners of random star-shaped polygons (op dev2). Surface-point queries far along the normal (up to 1e5) are judged by relative invariance; vertex and face normals of a mesh are queried before and after the same object is moved.',
    'design_ref': 'DESIGN.md section 6 C03',
    'note': 'Trusted: TLC, nalgebra for T*q, harness projection. Only the rational rotation subgroup is exact; arbitrary angles are not generated. Station directions at interior-vertex arc lengths and closest points with ties are left free.',
    'technique': 'TLA+ spec (L1 semantics) + TLC: bounded model checking, TLC-generated cases replayed into engeom, TLC trace validation of recorded observations',
}

PYTH = [(1, 0, 1), (0, 1, 1), (3, 4, 5), (-4, 3, 5), (-5, -12, 13), (12, -5, 13), (-1, 0, 1), (0, -1, 1), (4, 3, 5), (-3, -4, 5),
        (5, 12, 13), (8, 15, 17), (-15, 8, 17), (7, 24, 25), (-24, -7, 25), (20, 21, 29)]


def _mm(A, B):
    return [[sum(A[i][k] * B[k][j] for k in range(3)) for j in range(3)] for i in range(3)]


def _rz(c, s, h):
    return [[c, -s, 0], [s, c, 0], [0, 0, h]]


def _rx(c, s, h):
    return [[h, 0, 0], [0, c, -s], [0, s, c]]


def _ry(c, s, h):
    return [[c, 0, s], [0, h, 0], [-s, 0, c]]


def _dirty(rnd, pts, dim):
    """the same polyline as a noisy reading with a tolerance of 2 units: after some vertices readings that jitter within the
    tolerance (v + j, v - j: each within tol of v, but 2|j| > tol apart from each other) and exact repeats"""
    out = []
    for p in pts:
        out.append(list(p))
        r = rnd.random()
        j = rnd.choice(([1, 1, 0], [1, -1, 0], [0, 1, 1], [1, 0, 1]) if dim == 3 else ([1, 1, 0], [1, -1, 0]))
        if r < 0.4:
            out.append([p[k] + j[k] for k in range(3)])
            out.append([p[k] - j[k] for k in range(3)])
        elif r < 0.6:
            out.append(list(p))
    return out


def _dev2(rnd, T, T2):
    """signed profile deviations of measured points around the corners of a star-shaped polygon (many turns above 90 degrees)"""
    import math
    for _try in range(50):
        k = rnd.randint(4, 8)
        raw = {(rnd.randint(-8, 8), rnd.randint(-8, 8)) for _k in range(k)}
        if len(raw) < 4:
            continue
        cx, cy = sum(p[0] for p in raw) / len(raw), sum(p[1] for p in raw) / len(raw)
        ang = sorted((math.atan2(p[1] - cy, p[0] - cx), p) for p in raw if (p[0] - cx, p[1] - cy) != (0, 0))
        gaps = [ang[(j + 1) % len(ang)][0] - ang[j][0] + (2 * math.pi if j + 1 == len(ang) else 0) for j in range(len(ang))]
        if len(ang) < 4 or min(gaps) < 1e-6 or max(gaps) > math.pi - 0.05:
            continue
        poly = [list(p) + [0] for _a, p in ang]
        if rnd.random() < 0.5:
            poly.reverse()
        break
    else:
        return None
    fc = rnd.random() < 0.7
    qs = []
    for _k in range(14):
        vx = rnd.choice(poly)
        qs.append([2 * vx[0] + rnd.randint(-4, 4), 2 * vx[1] + rnd.randint(-4, 4), 0])
    qs += [[rnd.randint(-20, 20), rnd.randint(-20, 20), 0] for _k in range(4)]
    return {'m': 'rigid', 'op': 'dev2', 'dim': 2, 'T': T, 'T2': T2, 'pts': poly, 'fc': fc, 'qs': qs}


def _far(rnd, dim):
    """queries p + k * n + e / 2: far along the normal (k * |n| up to 1e5), a unit or so off it"""
    return [[rnd.choice((1000, -30000, 1 << 15)), rnd.randint(-2, 2), rnd.randint(-2, 2), rnd.randint(-2, 2) if dim == 3 else 0] for _k in range(5)]


def _cross_nz(e, n):
    c = [e[1] * n[2] - e[2] * n[1], e[2] * n[0] - e[0] * n[2], e[0] * n[1] - e[1] * n[0]]
    return any(c)


def gen_c03_random(rnd, tier):
    n = 60 if tier == 'quick' else 1500
    out = []
    qs3 = [[1, 1, 1], [3, -1, 2], [-2, 5, -1], [0, 0, 2]]
    qs2 = [[1, 1, 0], [3, -1, 0], [-2, 5, 0], [2, 3, 0]]
    for _ in range(n):
        a, b, c = rnd.choice(PYTH), rnd.choice(PYTH[:12]), rnd.choice(PYTH[:6])
        kind = rnd.choice(('sp3', 'curve3', 'mesh', 'cloud', 'sp2', 'curve2'))
        if kind.endswith('2') :
            T = {'M': _rz(*a), 'H': a[2], 't': [rnd.randint(-1000, 1000), rnd.randint(-1000, 1000), 0], 'planar': True}
        else:
            M = _mm(_mm(_rz(*a), _ry(*b)), _rx(*c))
            T = {'M': M, 'H': a[2] * b[2] * c[2], 't': [rnd.randint(-1000, 1000) for _k in range(3)], 'planar': False}
        if kind == 'sp3':
            out.append({'m': 'rigid', 'op': 'sp', 'dim': 3, 'T': T, 'p': [rnd.randint(-5, 5) for _k in range(3)],
                        'n': rnd.choice([[1, 0, 0], [1, 2, 2], [-3, 0, 4], [2, -1, 2], [0, -1, 0]]), 'qs': qs3,
                        'far': _far(rnd, 3)})
            out[-1]['far'] = [f for f in out[-1]['far'] if _cross_nz(f[1:], out[-1]['n'])]
        elif kind == 'sp2':
            out.append({'m': 'rigid', 'op': 'sp', 'dim': 2, 'T': T, 'p': [rnd.randint(-5, 5), rnd.randint(-5, 5), 0],
                        'n': rnd.choice([[1, 0, 0], [3, 4, 0], [-1, 1, 0]]), 'qs': qs2,
                        'far': _far(rnd, 2)})
            out[-1]['far'] = [f for f in out[-1]['far'] if _cross_nz(f[1:], out[-1]['n'])]
        elif kind == 'curve3':
            T2 = {'M': _mm(_rz(*b), _rx(*c)), 'H': b[2] * c[2], 't': [3, -2, 5], 'planar': False}
            out.append({'m': 'rigid', 'op': 'curve', 'dim': 3, 'T': T, 'T2': T2, 'pts': [[0, 0, 0], [0, 3, 4], [2, 3, 4], [2, 0, 0]],
                        'fc': False, 'ls': [0, 1, 3, 7, 13], 'qs': qs3})
            if rnd.random() < 0.5:
                out.append(dict(out[-1], pts=_dirty(rnd, out[-1]['pts'], 3), tolU=2, tol16=32))
        elif kind == 'curve2':
            T2 = {'M': _rz(*b), 'H': b[2], 't': [3, -2, 0], 'planar': True}
            out.append({'m': 'rigid', 'op': 'curve', 'dim': 2, 'T': T, 'T2': T2, 'pts': [[0, 0, 0], [3, 4, 0], [3, 0, 0], [6, 0, 0]],
                        'fc': False, 'ls': [0, 1, 3, 7, 13], 'qs': qs2})
            if rnd.random() < 0.5:
                out.append(dict(out[-1], pts=_dirty(rnd, out[-1]['pts'], 2), tolU=2, tol16=32))
        elif kind == 'mesh':
            out.append({'m': 'rigid', 'op': 'mesh', 'dim': 3, 'T': T,
                        'vpos': [[0, 0, 0], [2, 0, 0], [0, 2, 0], [0, 0, 2]], 'faces': [[0, 2, 1], [0, 1, 3], [1, 2, 3], [0, 3, 2]],
                        'qs': [[rnd.randint(-3, 7) for _k in range(3)] for _j in range(5)]})
        else:
            out.append({'m': 'rigid', 'op': 'cloud', 'dim': 3, 'T': T, 'pts': qs3, 'ns': [[1, 0, 0], [0, 0, 1], [1, 2, 2], [-3, 0, 4]]})
    for _ in range(40 if tier == 'quick' else 600):
        a, b = rnd.choice(PYTH), rnd.choice(PYTH[:12])
        T = {'M': _rz(*a), 'H': a[2], 't': [rnd.randint(-1000, 1000), rnd.randint(-1000, 1000), 0], 'planar': True}
        T2 = {'M': _rz(*b), 'H': b[2], 't': [rnd.randint(-30, 30), rnd.randint(-30, 30), 0], 'planar': True}
        rec = _dev2(rnd, T, T2)
        if rec:
            out.append(rec)
    return out
