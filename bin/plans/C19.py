"""C19: plan entry, claim text (MANIFEST) and seeded generators."""

PLAN_ENTRY = {'stages': [
    {'name': 'frames',
     'mc': [{'module': 'MC_C19', 'cfg': {'quick': 'MC_C19_quick.cfg', 'thorough': 'MC_C19_thorough.cfg'}, 'workers': 4}],
     'gens': ['gen_c19_random', 'gen_c19_plates'],
     'trace': 'Trace_Frames'}],
    'assumptions': [
        'TLC evaluates the integer operators of Frames.tla correctly (all products stay below 2^31; observed values are range-checked before use)',
        'harness projection: unit vectors to 2^-14, positions to 2^-16, vanishing residuals to 2^-24, second moments to 2^-12 lattice units squared',
        'derived observations computed in f64 by the harness from API outputs only: second moments of the point_to_basis coordinates (weights w^0, w^1, w^2), squares of singular values, plane.signed_distance(project(q)), iso * centre',
        'the singular value decomposition is numeric: the spec states its defining relations on the recorded basis, it does not recompute it',
        'a singular value counts as separated (axis determined up to sign) when it differs from every other by more than 2/1024 + sv_max/512',
        'rank() is read with tolerance 1e-6 * scale',
    ]}

CLAIM = {
    'text': 'TLC model-checks integer transcriptions of the six try_from_basis_* constructors and of iso3_from_xyo (two cross products each, normalisation dropped) against the L1 frame predicate on every ordered pair of lattice vectors in [-2,2]^3 (orthogonal, right-handed, primary axis co-directed with the first argument, secondary axis in the half-plane of the second, failure exactly for parallel or zero pairs) and laws of the specification (motions are proper rotations, affine rank and weighted mean commute with them). Every enumerated case is executed by the real library and TLC judges the projected observations against L1: all 6 constructors + iso3_from_xyo on every lattice pair with power-of-two lengths 2^-10..2^4 and lattice origins (rotation orthonormal and right-handed, axes, origin, Err/panic exactly for parallel or zero arguments, no hang: watchdog child processes); Plane3 from every triple of points of {0,1,2}^3 (quick: 3 first points), from point+normal and from surface points for every lattice normal (contains defining points, unit normal parallel to the exact normal, signed distance and offset as relations on the recorded normal, projection on the plane / along the normal / idempotent / fixing plane points, inversion, transform_by equivariance, intersection_distance hits the plane); SvdBasis3/2 on all 4-multisets of a 12 (thorough 18) point lattice, all 3- and 4-multisets of a 9 point planar lattice and curated 5-8 point sets (generic, planar, collinear, coincident, repeated singular values), unweighted and with integer weights 1..3: centre = exact weighted mean, orthonormal basis, ordered non-negative singular values, sv^2/n = variance of the basis coordinates and vanishing mixed moments (weighted: for w or w^2 weighting, normalised or not), point_to_basis bound to the exact inputs, round trip, rank = exact affine rank, equivariance under 8 exact rigid motions (incl. Pythagorean rotations), invariance of centre / separated axes / rank under doubling all weights, Iso3/Iso2 from the basis. Seeded random larger instances: vectors up to 100 (nearly parallel pairs, exact multiples), 9-24 point sets, triples in [0,6]^3. Half of the seeded three-point planes lie 2^27..2^29 lattice units from the origin (offsets that are not powers of two).',
    'design_ref': 'DESIGN.md section 6 C19',
    'note': 'Trusted: TLC; harness projection and the derived second moments; nalgebra for applying the rigid motions. Exhaustive for the enumerated lattice domain only; general-position float inputs are not used. Vectors shorter than 2^-10 (the library treats lengths below 1e-10 as zero) are outside the domain.',
    'technique': 'TLA+ spec (L1 semantics + L2 transcription of the constructors) + TLC: bounded model checking, TLC-generated cases replayed into engeom, TLC trace validation of recorded observations',
}

# rigid motions (rows of R, divisor h, translation t); must agree with nothing but being proper rotations
MOTIONS = [
    ([[1, 0, 0], [0, 1, 0], [0, 0, 1]], 1, [0, 0, 0]),
    ([[0, -1, 0], [1, 0, 0], [0, 0, 1]], 1, [1, -2, 3]),
    ([[0, 0, 1], [1, 0, 0], [0, 1, 0]], 1, [-1, 0, 2]),
    ([[3, -4, 0], [4, 3, 0], [0, 0, 5]], 5, [2, 1, -1]),
    ([[13, 0, 0], [0, 5, -12], [0, 12, 5]], 13, [0, 3, 1]),
    ([[15, -12, 16], [20, 9, -12], [0, 20, 15]], 25, [1, 1, 1]),
    ([[-1, 0, 0], [0, -1, 0], [0, 0, 1]], 1, [0, 0, 0]),
    ([[0, 1, 0], [1, 0, 0], [0, 0, -1]], 1, [3, 0, -2]),
    ([[5, 0, 12], [0, 13, 0], [-12, 0, 5]], 13, [-2, 2, 0]),
    ([[9, 20, 12], [-20, 0, 15], [12, -15, 16]], 25, [0, -1, 2]),
]
MOTIONS2 = [
    ([[1, 0, 0], [0, 1, 0], [0, 0, 1]], 1, [0, 0, 0]),
    ([[0, -1, 0], [1, 0, 0], [0, 0, 1]], 1, [1, -2, 0]),
    ([[3, -4, 0], [4, 3, 0], [0, 0, 5]], 5, [2, 1, 0]),
    ([[-5, -12, 0], [12, -5, 0], [0, 0, 13]], 13, [-1, 3, 0]),
    ([[-1, 0, 0], [0, -1, 0], [0, 0, 1]], 1, [0, 2, 0]),
    ([[8, 15, 0], [-15, 8, 0], [0, 0, 17]], 17, [3, -3, 0]),
]


def _dot(u, v):
    return sum(a * b for a, b in zip(u, v))


def _cross(u, v):
    return [u[1] * v[2] - u[2] * v[1], u[2] * v[0] - u[0] * v[2], u[0] * v[1] - u[1] * v[0]]


def _sub(u, v):
    return [a - b for a, b in zip(u, v)]


for _R, _h, _t in MOTIONS + MOTIONS2:
    assert all(_dot(_R[j], _R[k]) == (_h * _h if j == k else 0) for j in range(3) for k in range(3)), _R
    assert _dot(_cross(_R[0], _R[1]), _R[2]) == _h ** 3, _R
for _R, _h, _t in MOTIONS2:
    assert _R[2] == [0, 0, _h] and _t[2] == 0

SCALES = (-10, -3, 0, 4, -20, 12)


def _aff_rank(pts):
    d = [_sub(p, pts[0]) for p in pts]
    nz = [v for v in d if any(v)]
    if not nz:
        return 0
    u = nz[0]
    off = [v for v in nz if any(_cross(u, v))]
    if not off:
        return 1
    n = _cross(u, off[0])
    return 3 if any(_dot(n, v) for v in nz) else 2


def _rvec(rnd, m):
    while True:
        v = [rnd.randint(-m, m) for _ in range(3)]
        if any(v):
            return v


def _motion_fields(rnd, dim=3):
    R, h, t = rnd.choice(MOTIONS if dim == 3 else MOTIONS2)
    return {'R': R, 'h': h, 't': t}


def _point_set(rnd, dim, n):
    """n lattice points in [0,5]^dim of a random class; returns list of [x,y,z]"""
    box = lambda p: all(0 <= c <= 5 for c in p)
    cls = rnd.choice(('generic', 'generic', 'planar', 'collinear', 'coincident', 'clustered') if dim == 3
                     else ('generic', 'generic', 'collinear', 'coincident', 'clustered'))
    z = (lambda: rnd.randint(0, 5)) if dim == 3 else (lambda: 0)
    if cls == 'generic':
        return [[rnd.randint(0, 5), rnd.randint(0, 5), z()] for _ in range(n)]
    if cls == 'coincident':
        p = [rnd.randint(0, 5), rnd.randint(0, 5), z()]
        return [list(p) for _ in range(n)]
    if cls == 'clustered':      # two repeated points and a few strays: repeated rows, small singular values
        a = [rnd.randint(0, 5), rnd.randint(0, 5), z()]
        b = [rnd.randint(0, 5), rnd.randint(0, 5), z()]
        return [list(rnd.choice((a, a, b, [rnd.randint(0, 5), rnd.randint(0, 5), z()]))) for _ in range(n)]
    dirs = [[1, 0, 0], [0, 1, 0], [1, 1, 0], [1, -1, 0], [2, 1, 0], [1, 2, 0], [-1, 2, 0]]
    if dim == 3:
        dirs += [[0, 0, 1], [1, 0, 1], [0, 1, 1], [1, 1, 1], [1, -1, 1], [2, 1, -1], [1, 0, -1], [1, 2, 2], [0, 1, -2]]
    for _ in range(200):
        o = [rnd.randint(0, 5), rnd.randint(0, 5), z()]
        u = rnd.choice(dirs)
        v = rnd.choice(dirs)
        if cls == 'planar' and not any(_cross(u, v)):
            continue
        cand = []
        for i in range(-5, 6):
            for j in (range(-5, 6) if cls == 'planar' else (0,)):
                p = [o[k] + i * u[k] + j * v[k] for k in range(3)]
                if box(p):
                    cand.append(p)
        if len(cand) >= 4:
            return [list(rnd.choice(cand)) for _ in range(n)]
    return [[rnd.randint(0, 5), rnd.randint(0, 5), z()] for _ in range(n)]


def gen_c19_random(rnd, tier):
    out = []
    big = tier != 'quick'
    # ---- frame constructors: longer vectors, nearly parallel pairs, exact multiples
    for _ in range(60 if big else 16):
        a = _rvec(rnd, rnd.choice((3, 12, 100)))
        bs = []
        for _b in range(14):
            k = rnd.random()
            if k < 0.3:                                    # nearly parallel: a plus a lattice step
                b = [x + d for x, d in zip(a, _rvec(rnd, 1))]
            elif k < 0.45 and max(abs(x) for x in a) <= 33:    # exactly parallel (must fail)
                m = rnd.choice((-3, -2, -1, 1, 2, 3))
                b = [m * x for x in a]
            elif k < 0.5:
                b = [0, 0, 0]
            else:
                b = _rvec(rnd, rnd.choice((2, 20, 100)))
            b = [max(-100, min(100, x)) for x in b]
            bs.append(b)
        base = {'a': a, 'sa': rnd.choice(SCALES), 'sb': rnd.choice(SCALES), 'so': rnd.choice(SCALES),
                'o': [rnd.randint(-9, 9) for _ in range(3)], 'wd': 20000}
        out.append(dict(base, m='frames', op='frame', bs=bs, uo=rnd.random() < 0.7))
        out.append(dict(base, m='frames', op='xyo', bs=[b for b in bs if any(b)]))
    # ---- planes
    for _ in range(400 if big else 60):
        R, h, t = rnd.choice(MOTIONS)
        qs = [[rnd.randint(-3, 9) for _ in range(3)] for _q in range(6)]
        dirs = [_rvec(rnd, 3) for _d in range(3)]
        kind = rnd.choice(('3pt', '3pt', 'pn', 'sp'))
        rec = {'m': 'frames', 'op': 'plane', 'kind': kind, 'sc': rnd.choice(SCALES), 'qs': qs, 'dirs': dirs, 'R': R, 'h': h, 't': t}
        if kind == '3pt':
            pts = [[rnd.randint(0, 6) for _ in range(3)] for _p in range(3)]
            if rnd.random() < 0.1:
                pts[2] = [2 * b - a for a, b in zip(pts[0], pts[1])]          # collinear on purpose
                if not all(-6 <= c <= 12 for c in pts[2]):
                    pts[2] = list(pts[0])
            rec['pts'] = pts
            rec['deg'] = not any(_cross(_sub(pts[1], pts[0]), _sub(pts[2], pts[0])))
            if rnd.random() < 0.5:
                # a small triangle far from the origin (six to eight digits between position and size)
                # (offsets above 2^26 that are not powers of two: products of two coordinates no longer fit 53 bits)
                rec['off'] = [rnd.choice(((1 << 27) + 12345, -(1 << 28) - 777, 1 << 20)), rnd.choice(((1 << 28) + 4321, -(1 << 27) + 99, 3000)),
                              rnd.choice((-(1 << 27) - 31337, (1 << 29) - 1001, 1 << 24))]
        else:
            rec['p'] = [rnd.randint(0, 6) for _ in range(3)]
            rec['nv'] = _rvec(rnd, 9)
        out.append(rec)
    # ---- principal axes of larger point sets
    for _ in range(1500 if big else 120):
        dim = rnd.choice((3, 3, 2))
        n = rnd.randint(dim + 2, 24)
        pts = _point_set(rnd, dim, n)
        k = rnd.random()
        if k < 0.35:
            wt = []
        elif k < 0.5:
            wt = [rnd.choice((1, 2, 3))] * n
        else:
            wt = [rnd.randint(1, 3) for _ in range(n)]
        rec = {'m': 'frames', 'op': 'svd', 'dim': dim, 'pts': pts, 'ar': _aff_rank(pts), 'wt': wt, 'sc': rnd.choice(SCALES),
               'qs': [[rnd.randint(-4, 4), rnd.randint(-4, 4), rnd.randint(-4, 4) if dim == 3 else 0] for _q in range(2)]}
        rec.update(_motion_fields(rnd, dim))
        out.append(rec)
    return out


def gen_c19_plates(rnd, tier):
    """exactly planar, nearly square plates (corners, centre, sometimes edge mid points) tilted by a Pythagorean angle about
    a coordinate axis: the two in-plane spreads differ by a few percent and the third is exactly zero - the order of the
    singular values and of the axes is what is judged"""
    PY = [(3, 4, 5), (4, 3, 5), (5, 12, 13), (12, 5, 13), (8, 15, 17), (15, 8, 17), (7, 24, 25), (20, 21, 29)]
    out = []
    for _ in range(1500 if tier == 'quick' else 20000):
        c, s_, h = rnd.choice(PY)
        a = rnd.randint(8, 60)
        b = a + rnd.randint(-2, 2)
        ax = rnd.choice('xyz')
        base = [(-a, -b), (a, -b), (a, b), (-a, b), (0, 0)]
        if rnd.random() < 0.5:
            base += [(a, 0), (-a, 0), (0, b), (0, -b)]
        pts = []
        for (x, y) in base:
            p = (h * x, c * y, s_ * y)
            if ax == 'y':
                p = (p[1], p[0], p[2])
            if ax == 'z':
                p = (p[2], p[1], p[0])
            pts.append([p[0], p[1], p[2]])
        out.append({'m': 'frames', 'op': 'svdorder', 'sc': rnd.choice((0, -10, 4)), 'pts': pts})
    return out
