"""C15: plan entry, claim text (MANIFEST) and seeded generators."""
from math import gcd

PLAN_ENTRY = {'stages': [
    {'name': 'spatial',
     'mc': [{'module': 'MC_C15', 'cfg': {'quick': 'MC_C15_quick.cfg', 'thorough': 'MC_C15_thorough.cfg'}, 'workers': 4},
            {'module': 'MC_C15p', 'cfg': {'quick': 'MC_C15p_quick.cfg', 'thorough': 'MC_C15p_thorough.cfg'}, 'workers': 4},
            {'module': 'MC_C15p', 'cfg': {'quick': None, 'thorough': 'MC_C15p_3d.cfg'}, 'workers': 4}],
     'gens': ['gen_c15_kd', 'gen_c15_poisson', 'gen_c15_hull', 'gen_c15_pivot', 'gen_c15_mesh'],
     'trace': 'Trace_Spatial'}],
    'assumptions': [
        'TLC evaluates the exhaustive-scan operators of Spatial.tla correctly (integer arithmetic, no overflow: coordinates < 2^11)',
        'harness projection: squared distances to 1/8 of a squared half unit (exact for lattice data), computed points to 1/1024 unit, unit normals to 2^-14',
        'mesh samplers draw from the thread RNG of the library: each run sees fresh draws; face proportions are judged with a six-sigma bound',
        'k-d tree answers on more than 32 points with tied coordinates are a known dependency defect (kiddo, F20) and are reported as KNOWN-FINDING',
    ]}

CLAIM = {
    'text': 'TLC enumerates every multiset of up to 3 points of a 3x3 (thorough 4x4) lattice and up to 2 points of a 2x2x2 (3x3x3) lattice '
            '- duplicates and axis ties included - as full k-d trees and as index-remapped partial trees over index subsets (proper ones and the complete index set in arbitrary order) in '
            'descending order, against a half-lattice query window, every k up to n+1 and five half-lattice radii, and judges every '
            'nearest_one / nearest(k) / within answer by an exhaustive integer scan (arg-min set, the k smallest distances as a multiset, '
            'open ball included and closed ball not exceeded, true distance and original index for every pair, no repeats, len). The greedy '
            'mask sweep of sample_poisson_disk is transcribed as a TLA+ state machine (one action per loop iteration, the boundary behaviour '
            'of the radius query chosen by an existential) and model-checked against the L1 statement (subset of the working indices, no two '
            'kept points within the radius, every working point within the radius of a kept one) for every multiset of up to 3 (thorough 4) '
            'lattice points, every index subset, every visiting order and three radii; each is replayed into the library. Every simple '
            'lattice polygon with up to 4 (5) corners on a 3x3 lattice plus curated non-convex polygons in both windings from every start, '
            'and every non-collinear multiset of up to 5 (6) points: hull indices counter-clockwise around all points (every point on or left of '
            'every hull edge, collinear boundary points free), farthest pair equals the exhaustive diameter, order direction and '
            'Curve2::from_points_ccw match the sign of the shoelace area; TLC also proves on this domain that the index-ascent vote agrees with '
            'the signed area for EVERY hull the L1 allows. Ball pivot on all 3 (4)-point subsets of a 3x3 lattice and curated sets x 5 radii x '
            'both directions x 4 start modes x 2 stop modes: every reported centre is one radius from both consecutive points and no input '
            'point is strictly inside, gap filling stays on the reported balls with the requested spacing. Mesh sampling (uniform, dense, '
            'Poisson) on five lattice meshes: every sample lies on a face whose normal it carries (exact integer incidence test on quantised '
            'samples), uniform face counts within six sigma of area proportion, dense and Poisson coverage of every face corner, Poisson '
            'separation. Seeded random instances extend sizes: 33-2000 points in general position (pairwise distinct coordinates) and gridded / '
            'duplicated sets of at most 32 points for the trees and the Poisson selection, random lattice point sets and star-shaped polygons '
            'for the hull functions, 6-30 random lattice points for the ball pivot, random skew tetrahedra for the samplers. Meshes assembled in two steps (sampled, appended to, sampled again) are included in the sampling clauses; column-listed tied grids are built as partial trees as well.',
    'design_ref': 'DESIGN.md section 6 C15',
    'note': 'Trusted: TLC; harness projection. Open finding F20 (dependency kiddo 5.0.3): trees over more than 32 points with tied coordinates '
            'answer wrongly; such inputs are generated on purpose (one gridded class per run) and reported as KNOWN-FINDING, as is its '
            'consequence for Mesh::sample_poisson on meshes whose dense candidates tie. Two defects of the ball pivot found here were repaired '
            '(fix: commits). nearest(k) is required to list nearest first. Uniformity of samples inside a face is not judged, only the face '
            'proportions. The ball pivot has no liveness claim except that it must take a step when all points are mutual neighbours.',
    'technique': 'TLA+ spec (L1 semantics) + TLC: bounded model checking, TLC-generated cases replayed into engeom, TLC trace validation of '
                 'recorded observations; L2 transcription of the Poisson-disk sweep with the radius-query boundary as existential quantification',
}


# ---------------------------------------------------------------- generators (inputs only)
def _general_position(rnd, n, dim, span):
    cols = [rnd.sample(range(0, span), n) for _ in range(3)]
    return [[cols[0][i], cols[1][i], cols[2][i] if dim == 3 else 0] for i in range(n)]


def _gridded(rnd, n, dim, g):
    base = [[rnd.randint(0, g), rnd.randint(0, g), rnd.randint(0, g) if dim == 3 else 0] for _ in range(n)]
    # some exact duplicates
    for _ in range(n // 5):
        base[rnd.randrange(n)] = list(base[rnd.randrange(n)])
    return base


def _queries(rnd, pts, dim, nq, hs):
    """half-lattice queries (doubled units): random in the bounding box, on data points, exactly one radius from a data point"""
    span = max(max(p) for p in pts)
    qs = []
    for _ in range(nq):
        qs.append([rnd.randint(-3, 2 * span + 3), rnd.randint(-3, 2 * span + 3), rnd.randint(-3, 2 * span + 3) if dim == 3 else 0])
    for _ in range(3):
        p = rnd.choice(pts)
        qs.append([2 * p[0], 2 * p[1], 2 * p[2]])
        h = rnd.choice(hs)
        qs.append([2 * p[0] + h, 2 * p[1], 2 * p[2]])
        qs.append([2 * p[0] + 1, 2 * p[1] - 1, 2 * p[2]])
    return qs


def _kd(rnd, pts, dim, part, nq, sc=0, cls=''):
    n = len(pts)
    sub = []
    if part:
        # a proper subset, or (one time in three) every index in arbitrary order
        m = n if rnd.random() < 0.34 else rnd.randint(max(1, n // 3), max(1, n - 1))
        sub = rnd.sample(range(n), m)
    nw = len(sub) if part else n
    span = max(max(p) for p in pts) + 1
    # radii (half units) from "a few neighbours" to "a good part of the set"
    dens = max(1, int(2 * span / max(1.0, nw ** (1.0 / dim))))
    hs = sorted(set([1, 2, dens, 2 * dens, 3 * dens + 1, span // 2 + 1]))[:6]
    ks = sorted(set([1, 2, 3, 7, min(33, nw), nw, nw + 1]))
    return {'m': 'spatial', 'op': 'kd', 'dim': dim, 'pts': pts, 'part': part, 'sub': sub, 'qs': _queries(rnd, pts, dim, nq, hs),
            'ks': ks, 'rs': hs, 'sc': sc, 'cls': cls}


def gen_c15_kd(rnd, tier):
    out = []
    quick = tier == 'quick'
    # general position, more than one kiddo bucket
    sizes = [33, 40, 64, 65, 100, 257] if quick else [33, 34, 40, 63, 64, 65, 96, 100, 128, 129, 200, 257, 500, 777, 1024, 1500, 2000]
    for n in sizes:
        for dim in (2, 3):
            for part in (False, True):
                if quick and part and n > 100:
                    continue
                nn = min(2000, n + (n // 2 if part else 0))      # the partial tree itself has about n points
                pts = _general_position(rnd, nn, dim, 2000)
                r = _kd(rnd, pts, dim, part, 6 if quick else 10, rnd.choice((0, 4, -3, -20)), 'general')
                if part:
                    r['sub'] = rnd.sample(range(nn), n)
                    r['ks'] = sorted(set([1, 2, 3, 7, 33, n, n + 1]))
                out.append(r)
    # gridded / duplicated, at most one bucket: ties everywhere, must be exact
    for _ in range(12 if quick else 150):
        dim = rnd.choice((2, 3))
        n = rnd.randint(5, 32)
        pts = _gridded(rnd, n, dim, rnd.randint(2, 6))
        out.append(_kd(rnd, pts, dim, rnd.random() < 0.4, 8, rnd.choice((0, 4, -3, -20)), 'gridded_small'))
    # clustered general position
    for _ in range(2 if quick else 12):
        dim = rnd.choice((2, 3))
        n = rnd.randint(40, 120 if quick else 600)
        cols = []
        for a in range(3):
            centres = [rnd.randint(100, 1900) for _ in range(4 + n // 20)]
            vals = set()
            while len(vals) < n:
                vals.add(rnd.choice(centres) + rnd.randint(-40, 40))
            vals = list(vals)
            rnd.shuffle(vals)
            cols.append(vals)
        pts = [[cols[0][i], cols[1][i], cols[2][i] if dim == 3 else 0] for i in range(n)]
        out.append(_kd(rnd, pts, dim, False, 6, 0, 'clustered'))
    # gridded with more than one bucket: known dependency defect F20 (reported as KNOWN-FINDING when it strikes)
    for n in ([64, 200] if quick else [33, 48, 64, 128, 200, 500]):
        dim = rnd.choice((2, 3))
        g = max(3, int(round(n ** (1.0 / dim))) + 1)
        pts = [[rnd.randint(0, g), rnd.randint(0, g), rnd.randint(0, g) if dim == 3 else 0] for _ in range(n)]
        out.append(_kd(rnd, pts, dim, False, 6, 0, 'gridded_large'))
    # gridded, listed column by column with more than one bucket per column, as a partial tree over every index in listing order and
    # over a sub-range (wrong answers here are F20; anything else - no answer at all, a panic - is not)
    for dim in (2, 3):
        rows = rnd.randint(34, 40 if quick else 70)
        pts = [[x, y, z] for x in range(3) for z in (range(2) if dim == 3 else (0,)) for y in range(rows)]
        r = _kd(rnd, pts, dim, True, 5, 0, 'gridded_columns')
        r['sub'] = list(range(len(pts))) if dim == 2 else list(range(rows // 2, len(pts) - 3))
        r['ks'] = sorted(set([1, 2, 5, 33, len(r['sub']), len(r['sub']) + 1]))
        out.append(r)
    return out


def gen_c15_poisson(rnd, tier):
    out = []
    quick = tier == 'quick'
    for _ in range(4 if quick else 40):
        dim = rnd.choice((2, 3))
        n = rnd.randint(33, 150 if quick else 500)
        pts = _general_position(rnd, n, dim, 1000)
        m = rnd.randint(33, n)
        order = rnd.sample(range(n), m)
        span = 1000
        base = max(2, int(2 * span / max(1.0, m ** (1.0 / dim))))
        out.append({'m': 'spatial', 'op': 'poisson', 'dim': dim, 'pts': pts, 'order': order,
                    'rs': [base, 2 * base + 1, 4 * base], 'sc': rnd.choice((0, 4, -3, -20)), 'cls': 'general'})
    for _ in range(20 if quick else 300):
        dim = rnd.choice((2, 3))
        n = rnd.randint(4, 32)
        pts = _gridded(rnd, n, dim, rnd.randint(2, 5))
        m = rnd.randint(1, n)
        out.append({'m': 'spatial', 'op': 'poisson', 'dim': dim, 'pts': pts, 'order': rnd.sample(range(n), m),
                    'rs': [1, 2, 3, 4, 6], 'sc': rnd.choice((0, 4, -3, -20)), 'cls': 'gridded_small'})
    # gridded with more than one bucket: consequence of F20 (KNOWN-FINDING when it strikes)
    for n in ([64] if quick else [40, 64, 128, 200]):
        dim = rnd.choice((2, 3))
        g = max(3, int(round(n ** (1.0 / dim))) + 1)
        pts = [[rnd.randint(0, g), rnd.randint(0, g), rnd.randint(0, g) if dim == 3 else 0] for _ in range(n)]
        out.append({'m': 'spatial', 'op': 'poisson', 'dim': dim, 'pts': pts, 'order': rnd.sample(range(n), n),
                    'rs': [2, 3, 5], 'sc': 0, 'cls': 'gridded_large'})
    return out


def _cross(a, b, c):
    return (b[0] - a[0]) * (c[1] - a[1]) - (b[1] - a[1]) * (c[0] - a[0])


def _onseg(a, b, c):
    return _cross(a, b, c) == 0 and min(a[0], b[0]) <= c[0] <= max(a[0], b[0]) and min(a[1], b[1]) <= c[1] <= max(a[1], b[1])


def _segmeet(a, b, c, d):
    s = lambda x: (x > 0) - (x < 0)
    if s(_cross(a, b, c)) * s(_cross(a, b, d)) < 0 and s(_cross(c, d, a)) * s(_cross(c, d, b)) < 0:
        return True
    return _onseg(a, b, c) or _onseg(a, b, d) or _onseg(c, d, a) or _onseg(c, d, b)


def _simple(v):
    n = len(v)
    if n < 3 or len(set(map(tuple, v))) != n:
        return False
    for s in range(n):
        for t in range(s + 1, n):
            a, b, c, d = v[s], v[(s + 1) % n], v[t], v[(t + 1) % n]
            if t == s + 1:
                if _onseg(a, b, d) or _onseg(c, d, a):
                    return False
            elif s == 0 and t == n - 1:
                if _onseg(a, b, c) or _onseg(c, d, b):
                    return False
            elif _segmeet(a, b, c, d):
                return False
    return sum(v[k][0] * v[(k + 1) % n][1] - v[k][1] * v[(k + 1) % n][0] for k in range(n)) != 0


def _star_polygon(rnd, n, g):
    """lattice polygon star-shaped about the centre of the grid: one vertex per direction, sorted by exact angle"""
    import functools
    c = g // 2
    seen = {}
    for _ in range(4 * n):
        x, y = rnd.randint(0, g), rnd.randint(0, g)
        dx, dy = x - c, y - c
        if dx == 0 and dy == 0:
            continue
        k = gcd(abs(dx), abs(dy))
        seen.setdefault((dx // k, dy // k), (x, y))
        if len(seen) >= n:
            break
    half = lambda d: 0 if (d[1] > 0 or (d[1] == 0 and d[0] > 0)) else 1

    def cmp(d1, d2):
        if half(d1) != half(d2):
            return half(d1) - half(d2)
        cr = d1[0] * d2[1] - d1[1] * d2[0]
        return -1 if cr > 0 else (1 if cr < 0 else 0)
    dirs = sorted(seen.keys(), key=functools.cmp_to_key(cmp))
    return [[seen[d][0], seen[d][1], 0] for d in dirs]


def gen_c15_hull(rnd, tier):
    out = []
    quick = tier == 'quick'
    for _ in range(30 if quick else 400):
        n = rnd.randint(5, 40 if quick else 120)
        g = rnd.randint(3, 40)
        pts = [[rnd.randint(0, g), rnd.randint(0, g), 0] for _ in range(n)]
        if all(_cross(pts[0], pts[1], p) == 0 for p in pts):
            continue
        out.append({'m': 'spatial', 'op': 'hull', 'pts': pts, 'simple': False, 'fc': True, 'sc': rnd.choice((0, 4, -3, -20))})
    for _ in range(30 if quick else 400):
        v = _star_polygon(rnd, rnd.randint(4, 24 if quick else 60), rnd.randint(6, 40))
        if not _simple(v):
            continue
        if rnd.random() < 0.5:
            v = v[::-1]
        k = rnd.randrange(len(v))
        v = v[k:] + v[:k]
        out.append({'m': 'spatial', 'op': 'hull', 'pts': v, 'simple': True, 'fc': True, 'sc': rnd.choice((0, 4, -3, -20))})
    # kites: seen from one end of the diameter the distances to the other hull vertices dip before they reach the far end
    # (no single peak), in all eight orientations, every start vertex and both windings, with and without interior points
    kite = [(0, 0), (40, -15), (42, 0), (40, 20)]
    for k in range(8):
        def tr(p):
            x, y = p
            if k & 1: x = -x
            if k & 2: y = -y
            if k & 4: x, y = y, x
            return [x + 50, y + 50, 0]
        base = [tr(p) for p in kite]
        for sh in range(4):
            v = base[sh:] + base[:sh]
            if (k + sh) % 2:
                v = v[::-1]
            extra = [[50 + (1 if not (k & 4) else 0) * (-1 if k & 1 else 1) * 20, 50 + (1 if k & 4 else 0) * (-1 if k & 2 else 1) * 20, 0]] if sh % 2 else []
            out.append({'m': 'spatial', 'op': 'hull', 'pts': v + extra, 'simple': not extra, 'fc': True, 'sc': rnd.choice((0, -3, 4))})
    return out


def gen_c15_pivot(rnd, tier):
    out = []
    quick = tier == 'quick'
    for _ in range(150 if quick else 3000):
        n = rnd.randint(6, 30)
        g = rnd.randint(4, 12)
        pts = list({(rnd.randint(0, g), rnd.randint(0, g)) for _ in range(n)})
        if len(pts) < 4:
            continue
        rnd.shuffle(pts)
        pts = [[x, y, 0] for (x, y) in pts]
        kind = rnd.choice(('convex', 'convex', 'index', 'indexdir'))
        rh = rnd.randint(2, 8)
        start = {'kind': kind, 'i': rnd.randrange(len(pts)), 'v': [0, 0]}
        if kind == 'indexdir':
            # the caller vouches for the start position: only positions whose ball (centre exactly on the half lattice)
            # has every other point strictly outside are in the domain
            ok = []
            for i, p in enumerate(pts):
                for v in ((1, 0), (-1, 0), (0, 1), (0, -1)):
                    c2 = (2 * p[0] + rh * v[0], 2 * p[1] + rh * v[1])
                    if all((2 * q[0] - c2[0]) ** 2 + (2 * q[1] - c2[1]) ** 2 > rh * rh for j, q in enumerate(pts) if j != i):
                        ok.append((i, v))
            if not ok:
                continue
            i, v = rnd.choice(ok)
            k = rnd.randint(1, 3)
            start = {'kind': kind, 'i': i, 'v': [k * v[0], k * v[1]]}
        end = {'kind': 'repeat', 'i': 0} if rnd.random() < 0.7 else {'kind': 'index', 'i': rnd.randrange(len(pts))}
        out.append({'m': 'spatial', 'op': 'pivot', 'pts': pts, 'start': start, 'end': end, 'dir': rnd.choice((-1, 1)),
                    'rh': rh, 'gh': rnd.choice((1, 2)), 'sc': rnd.choice((0, 4, -3, -20))})
    # more than one bucket of lattice points: consequence of F20 (KNOWN-FINDING when it strikes)
    for g in ([7] if quick else [6, 7, 8, 9]):
        pts = [[x, y, 0] for x in range(g + 1) for y in range(g + 1) if rnd.random() < 0.8]
        rnd.shuffle(pts)
        out.append({'m': 'spatial', 'op': 'pivot', 'pts': pts, 'start': {'kind': 'convex', 'i': 0, 'v': [0, 0]}, 'end': {'kind': 'repeat', 'i': 0},
                    'dir': rnd.choice((-1, 1)), 'rh': rnd.choice((3, 4, 5)), 'gh': 1, 'sc': 0, 'cls': 'gridded_large'})
    return out


def gen_c15_mesh(rnd, tier):
    out = []
    quick = tier == 'quick'
    for _ in range(2 if quick else 20):
        while True:
            v = [[rnd.randint(0, 7), rnd.randint(0, 7), rnd.randint(0, 7)] for _ in range(4)]
            e = [[v[b][c] - v[a][c] for c in range(3)] for a in range(4) for b in range(a + 1, 4)]
            det = sum(e[0][i] * (e[1][(i + 1) % 3] * e[2][(i + 2) % 3] - e[1][(i + 2) % 3] * e[2][(i + 1) % 3]) for i in range(3))
            if abs(det) >= 20 and all(all(x != 0 for x in d) for d in e):
                break
        faces = [[0, 2, 1], [0, 1, 3], [1, 2, 3], [0, 3, 2]] if det > 0 else [[0, 1, 2], [0, 3, 1], [1, 3, 2], [0, 2, 3]]
        base = {'m': 'spatial', 'op': 'msample', 'name': 'random_tet', 'vpos': v, 'faces': faces, 'rep': 1, 'sc': rnd.choice((0, 4, -3, -20))}
        out.append(dict(base, kind='uniform', n=800, h=0))
        out.append(dict(base, kind='dense', n=0, h=rnd.choice((1, 2, 3))))
        out.append(dict(base, kind='poisson', n=0, h=rnd.choice((2, 3, 4))))
        # the same tetrahedron assembled in two steps: two faces are built and sampled, then the other two are appended to the same
        # object (vertices listed again for the second part) and the whole is sampled
        v2 = v + v
        f2 = faces[:2] + [[i + 4 for i in f] for f in faces[2:]]
        two = dict(base, name='random_tet_two_step', vpos=v2, faces=f2, split=[4, 2])
        out.append(dict(two, kind='uniform', n=800, h=0))
        out.append(dict(two, kind='dense', n=0, h=rnd.choice((1, 2, 3))))
    return out
