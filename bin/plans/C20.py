"""C20: plan entry, claim text (MANIFEST) and seeded generators."""

PLAN_ENTRY = {'stages': [
    {'name': 'flatten',
     'mc': [{'module': 'MC_C20', 'cfg': {'quick': 'MC_C20_quick.cfg', 'thorough': 'MC_C20_thorough.cfg'}, 'workers': 4}],
     'gens': ['gen_c20_random'],
     'trace': 'Trace_Flatten'}],
    'assumptions': [
        'TLC evaluates disk classification (MeshTopo) and the integer relations on quantised uv coordinates correctly',
        'harness projection: uv and 3D coordinates to 2^-12 unit; squared lengths compared with 5e-4 relative tolerance (covers the 1e-8 regularisation of the solver)',
        'the linear algebra itself (sparse LU) is not modelled: the spec states the defining relations of the result',
    ]}

CLAIM = {
    'text': 'TLC enumerates planar lattice disks (triangle, quads with both diagonals, 3x1 strip, L-shape, 2x2 grid with 3 or all 16 diagonal choices, hexagonal fan with an interior vertex) under vertex renumberings and face rotations, each in exact 3D poses, curved disks (pyramid fans) in two poses, and non-disk inputs (closed tetrahedron, two components, annulus, three faces on one edge, vertex-only contact); it model-checks that the disk classification of the specification (edge-manifold, consistently wound, one patch, one boundary loop by the L2 boundary walk, Euler characteristic 1) agrees with the labels. Every case runs calc_edges + boundary_first_flatten in a limited child process, in two poses, and TLC judges: disks are accepted with one finite uv per vertex, every edge keeps its exact squared length and every triangle positive orientation (planar disks), the two poses give the same pairwise squared uv distances (all disks, curved included), the listed non-disk classes are rejected; for planar disks carrying their lattice (x,y) as UV map, uv_to_3d of 7 rational barycentric probes per face equals the exact posed point with the face normal and uv_with_tol maps it back to the same uv at depth 0. Seeded random jittered-connectivity grids extend sizes. The disks are also flattened in poses 2^20 and 2^24 lattice units from the origin (either side), and non-manifold inputs with a single boundary loop (a disk with a tetrahedral pocket on an interior edge) must be rejected; edge probes of the UV round trip are off the midpoints.',
    'design_ref': 'DESIGN.md section 6 C20',
    'note': 'Trusted: TLC; harness projection. Two defects found here (UV lookup snapping interior points to an edge; on-surface points rejected by the angle filter) were repaired by fix: commits.',
    'technique': 'TLA+ spec (L1 relations, MeshTopo disk classification with the L2 boundary walk) + TLC: bounded model checking, TLC-generated cases replayed into engeom, TLC trace validation of recorded observations',
}

PYTH = [(1, 0, 1), (3, 4, 5), (-4, 3, 5), (0, 1, 1), (5, 12, 13)]


def _mm(A, B):
    return [[sum(A[i][k] * B[k][j] for k in range(3)) for j in range(3)] for i in range(3)]


def _pose(rnd):
    a, b = rnd.choice(PYTH), rnd.choice(PYTH[:4])
    M = _mm([[a[0], -a[1], 0], [a[1], a[0], 0], [0, 0, a[2]]], [[b[2], 0, 0], [0, b[0], -b[1]], [0, b[1], b[0]]])
    return {'M': M, 'H': a[2] * b[2], 't': [rnd.randint(-20, 20) for _k in range(3)]}


def gen_c20_random(rnd, tier):
    n = 6 if tier == 'quick' else 80
    out = []
    for _ in range(n):
        w, h = rnd.randint(2, 5 if tier == 'quick' else 9), rnd.randint(2, 4 if tier == 'quick' else 8)
        curved = rnd.random() < 0.3
        vpos = [[x, y, (rnd.randint(0, 2) if curved else 0)] for y in range(h + 1) for x in range(w + 1)]
        vid = lambda x, y: y * (w + 1) + x
        faces = []
        for y in range(h):
            for x in range(w):
                a, b, c, d = vid(x, y), vid(x + 1, y), vid(x + 1, y + 1), vid(x, y + 1)
                fs = [[a, b, c], [a, c, d]] if rnd.random() < 0.5 else [[a, b, d], [b, c, d]]
                for f in fs:
                    k = rnd.randint(0, 2)
                    faces.append(f[k:] + f[:k])
        rnd.shuffle(faces)
        # random renumbering of the vertices
        perm = list(range(len(vpos)))
        rnd.shuffle(perm)
        nv = [None] * len(vpos)
        for old, new in enumerate(perm):
            nv[new] = vpos[old]
        faces = [[perm[i] for i in f] for f in faces]
        out.append({'m': 'flatten', 'op': 'flatten', 'wd': 8000, 'mesh': {'name': 'rgrid', 'planar': not curved, 'vpos': nv, 'faces': faces},
                    'T': _pose(rnd), 'T2': _pose(rnd), 'disk': True, 'sc': rnd.choice((0, 0, -17, -9, 10))})
    return out
