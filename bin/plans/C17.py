"""C17: plan entry, claim text (MANIFEST) and seeded generators."""
PLAN_ENTRY = {'stages': [
        # growth beyond the listed properties (never a verdict): stats::{mean, variance, st_dev, median}, utility::{unflatten, flatten}
        {'name': 'stats_utility', 'extra': True,
         'mc': [{'module': 'MC_Stats', 'cfg': {'quick': 'MC_Stats.cfg', 'thorough': 'MC_Stats.cfg'}, 'workers': 2}],
         'gens': [], 'trace': 'Trace_Stats'},
        {'name': 'fans', 'stateful': True,
         'mc': [
             # domain constructors + every single derived operation on every small root ("fans"); laws of the L1 operators
             {'module': 'MC_C17', 'cfg': {'quick': 'MC_C17_quick.cfg', 'thorough': 'MC_C17_thorough.cfg'}, 'workers': 4},
             # L2: Series1::between (binary search + boundary insertion) refines L1, inductive invariant, termination
             {'module': 'MC_C17a', 'cfg': {'quick': 'MC_C17a_quick.cfg', 'thorough': 'MC_C17a_thorough.cfg'}, 'workers': 4}],
         'gens': ['gen_c17_random'],
         'trace': 'Trace_Series'},
        {'name': 'histories', 'stateful': True,
         'mc': [
             # history machine: all histories of depth 2 (thorough), sampled histories of depth 4 (both tiers)
             {'module': 'MC_C17h', 'cfg': {'quick': None, 'thorough': 'MC_C17h_thorough.cfg'}, 'workers': 4},
             {'module': 'MC_C17h', 'cfg': {'quick': 'MC_C17h_sim.cfg', 'thorough': 'MC_C17h_sim.cfg'}, 'workers': 4,
              'simulate': {'quick': 'num=200', 'thorough': 'num=1500'}, 'extra_depth': 12}],
         'trace': 'Trace_Series'}],
    'assumptions': [
        'TLC evaluates the L1 operators of Series.tla correctly (exact integer arithmetic in units of 1/240 and 1/5040)',
        'harness projection is faithful: abscissae quantised to 1/61440, ordinates to 1/20160, areas to 1/10080, '
        'NaN/inf as classes, orderings and end-point identities as exact three-way float comparisons',
        'the quarter lattice with one-ulp nudges and power-of-two scales stands for the continuum; '
        'operations whose exact result leaves the 1/240 x 1/5040 lattice are not judged (reported as notes)']}

CLAIM = {
    'text': 'TLC enumerates (a) every linear / linear_space request over four bounds in both orders and n in {0,1,2,3,5} '
            '(thorough also 4,7,9), every try_from / push / try_new / new input over a small alphabet including NaN, +-inf, '
            'descending and mismatched lengths, and (b) for every root series of up to 3 (thorough: 4) abscissae on the half '
            'lattice (gaps 0, 1/2, 3/2: repeated values included) and every ordinate vector over {-1,2}, every single derived '
            'operation: between / in_interval over every ordered and reversed pair of bounds from half a unit outside the domain, '
            'split_at_x at every such point, resampled_n, resampled_x, scaled_by incl. negative and zero factors, shift_by, abs, '
            'remove_nan. On the specification itself TLC checks that each operator preserves sorted-finite-same-length, that '
            'slices take only parent values, that exact areas of split pieces add up and that resampling keeps both ends on the '
            'graph; a transcription of Series1::between (binary search with the landing index among equal abscissae as an '
            'existential, boundary insertion, copy loop, validating constructor) is model-checked to refine L1 with '
            'sorted/same-length as inductive invariant and bounded termination; a history machine (set of possible current '
            'series) explores all chains of 2 operations on one root (thorough) and samples chains of 4 on nine roots (both '
            'tiers, TLC simulation) with the invariant checked in every reachable state. Every case is replayed into the real '
            'library; TLC judges each observation: structure by exact float comparisons, result knots against the L1 candidate '
            'set, then interpolate at all knots / mid points / one ulp outside both ends / probe points +-1 ulp, index_of, '
            'index_of_x_after, area_under (and additivity of split areas), y_crossings at quarter-lattice levels (required '
            'isolated solutions, optional plateau ends and vertical steps, sorted, unique, finite), bounds_at_y0, '
            'plateau_at_maxima. Seeded random series of 4-40 knots (integer ordinates up to 8, gaps dividing 84 quarter units so '
            'that every lattice cut is exactly representable, three scales) with up to 101 resampling points extend sizes.',
    'design_ref': 'DESIGN.md section 6 C17',
    'note': 'Trusted: TLC, harness projection (quantisation, three-way comparisons). Exhaustive only over the bounded lattice '
            'instance; histories deeper than 2 are sampled; results outside the 1/240 x 1/5040 lattice are skipped, not judged. '
            'Left free by L1 (never rejected): which of several equal abscissae a search returns, slices reaching beyond the '
            'parent domain (clamped or NaN-padded), reversed bounds (failure, empty or the ordered slice), n < 2, plateau ends '
            'and vertical steps in crossings, queries on empty series. plateau_at_maxima, dydx, savitzky_golay, best_fit_line, '
            'local/global extrema and index_clusters_in_tol are not driven. Six defects found here were repaired (fixes/*.diff).',
    'technique': 'TLA+ spec (L1 semantics) + TLC: bounded model checking, TLC-generated cases replayed into engeom, TLC trace '
                 'validation of recorded observations; L2 algorithm transcription with search nondeterminism as existential '
                 'quantification; history machine with simulation for deep chains',
}

GAPS = (0, 1, 2, 3, 4, 6, 12)        # quarter units; all non-zero gaps divide 84 -> every lattice abscissa has an exact ordinate


def _root(rnd, nmin, nmax, span_max=64):
    n = rnd.randint(nmin, nmax)
    x = rnd.randint(-40, 0)
    xs = [x]
    while len(xs) < n:
        g = rnd.choice(GAPS) if rnd.random() < 0.85 else 0
        if xs[-1] + g - xs[0] > span_max:
            g = 0
        xs.append(xs[-1] + g)
    ys = []
    y = rnd.randint(-8, 8)
    for _ in range(n):
        r = rnd.random()
        if r < 0.3:
            pass                       # flat run
        elif r < 0.4:
            y = 0
        else:
            y = rnd.randint(-8, 8)
        ys.append(y)
    if rnd.random() < 0.08:
        for _ in range(rnd.randint(1, 3)):
            ys[rnd.randrange(n)] = 99   # NaN ordinate
    return xs, ys


def _probes(rnd, xs, k):
    lo, hi = xs[0], xs[-1]
    ts = [[rnd.randint(lo - 2, hi + 2), rnd.choice((-1, 0, 0, 1))] for _ in range(k)]
    ts += [[lo, -1], [lo, 0], [hi, 0], [hi, 1]]
    for _ in range(3):
        ts.append([rnd.choice(xs), rnd.choice((-1, 1))])
    return ts


def _levels(rnd, ys, k):
    fin = [y for y in ys if y != 99] or [0]
    lv = [rnd.randint(-34, 34) for _ in range(k)]
    lv += [4 * rnd.choice(fin), 4 * rnd.choice(fin) + rnd.choice((-1, 1, 2)), 0]
    return lv


def _plateaus(rnd, xs, k):
    return [[rnd.choice(xs) if rnd.random() < 0.6 else rnd.randint(xs[0] - 1, xs[-1] + 1), rnd.choice((1, 2, 5, 9))] for _ in range(k)]


def _divisors(v, cap):
    return [d for d in range(1, cap + 1) if v % d == 0]


def gen_c17_random(rnd, tier):
    """larger series; fans of single operations on the root plus short lattice-preserving chains"""
    nroots = 60 if tier == 'quick' else 1200
    out = []
    for _ in range(nroots):
        xs, ys = _root(rnd, 4, 40)
        lo, hi = xs[0], xs[-1]
        sc = rnd.choice((0, 0, -3, 4, -20, 12))
        q = lambda: {'ts': _probes(rnd, xs, 6), 'lv': _levels(rnd, ys, 2), 'pl': _plateaus(rnd, xs, 2)}
        out.append({'op': 'reset'})
        out.append(dict({'m': 'series', 'op': 'root', 'xs': xs, 'ys': ys, 'sc': sc}, ts=_probes(rnd, xs, 14), lv=_levels(rnd, ys, 4), pl=_plateaus(rnd, xs, 6)))
        ops = []
        for _ in range(3):
            a, b = rnd.randint(lo - 2, hi + 2), rnd.randint(lo - 2, hi + 2)
            if rnd.random() < 0.85 and a > b:
                a, b = b, a
            ops.append({'op': 'between', 'a4': a, 'b4': b})
        ops.append({'op': 'interval', 'a4': rnd.randint(lo, hi), 'b4': rnd.randint(lo, hi)})
        for _ in range(2):
            ops.append({'op': 'split', 'x4': rnd.randint(lo - 1, hi + 1), 'keep': rnd.choice((1, 2))})
        span = (hi - lo) * 60
        if span > 0:
            divs = _divisors(span, 100)
            for _ in range(3):
                ops.append({'op': 'resample_n', 'n': rnd.choice(divs) + 1})
            ops.append({'op': 'resample_x', 's4': rnd.choice([d for d in _divisors(hi - lo, 64)] + [hi - lo + 3])})
        else:
            ops.append({'op': 'resample_n', 'n': rnd.randint(1, 5)})
        ops.append({'op': 'scale', 'sx2': rnd.choice((-4, -2, -1, 1, 2, 4)), 'sy': rnd.choice((-2, -1, 1, 3))})
        ops.append({'op': 'shift', 'dx4': rnd.randint(-20, 20), 'dy': rnd.randint(-3, 3)})
        ops.append({'op': 'abs'})
        ops.append({'op': 'remove_nan'})
        for f in ops:
            out.append(dict(dict({'m': 'series', 'on': 'root'}, **f), **q()))
        # a chain that stays on the lattice: slice -> mirror/scale -> split -> shift -> abs
        a = rnd.randint(lo, hi)
        b = rnd.randint(a, hi)
        sx2 = rnd.choice((-2, -4, 2))
        chain = [{'op': 'between', 'a4': a, 'b4': b},
                 {'op': 'scale', 'sx2': sx2, 'sy': rnd.choice((-1, 2))}]
        na, nb = sorted((a * sx2 // 2, b * sx2 // 2))
        chain.append({'op': 'split', 'x4': rnd.randint(na, nb), 'keep': rnd.choice((1, 2))})
        chain.append({'op': 'shift', 'dx4': rnd.randint(-8, 8), 'dy': rnd.randint(-2, 2)})
        chain.append({'op': 'abs'})
        first = True
        for f in chain:
            rec = dict({'m': 'series', 'on': 'root' if first else 'cur'}, **f)
            rec['ts'] = [[rnd.randint(min(na, lo) - 10, max(nb, hi) + 10), rnd.choice((-1, 0, 1))] for _ in range(8)]
            rec['lv'] = _levels(rnd, ys, 2)
            out.append(rec)
            first = False
    # domain constructors with larger counts and all three scales
    for _ in range(100 if tier == 'quick' else 2000):
        out.append({'op': 'reset'})
        a, b = rnd.randint(-60, 60), rnd.randint(-60, 60)
        d = abs(a - b) * 60
        n = (rnd.choice(_divisors(d, 120)) + 1) if d else rnd.randint(0, 6)
        out.append({'m': 'series', 'op': 'dom_linear', 'kind': rnd.choice(('linear', 'space')), 'a4': a, 'b4': b,
                    'n': n if rnd.random() < 0.9 else rnd.randint(0, 2), 'sc': rnd.choice((0, -3, 4, -20, 12))})
    return out
