"""C14: plan entry, claim text (MANIFEST) and seeded generators."""


def _cfg(q, t):
    return {'quick': q, 'thorough': t}


PLAN_ENTRY = {'stages': [
    # growth beyond the listed properties (never a verdict): MeshCollisionSet as a state machine
    {'name': 'collision_set', 'extra': True,
     'mc': [{'module': 'MC_Collide', 'cfg': {'quick': 'MC_Collide.cfg', 'thorough': 'MC_Collide.cfg'}, 'workers': 4}],
     'gens': ['gen_collide'], 'trace': 'Trace_Collide'},
    # depth-1 behaviours over every criterion / mode / start (exhaustive), deep random histories (simulation),
    # L2 model of the library's algorithm (no cases, model checking only), seeded random larger scenes
    {'name': 'select', 'stateful': True,
     'mc': [{'module': 'MC_C14alg', 'cfg': _cfg('MC_C14alg_quick.cfg', 'MC_C14alg_quick.cfg'), 'workers': 4},
            {'module': 'MC_C14alg', 'cfg': _cfg(None, 'MC_C14alg_fan3.cfg'), 'workers': 4},
            {'module': 'MC_C14alg', 'cfg': _cfg(None, 'MC_C14alg_strip3.cfg'), 'workers': 4},
            {'module': 'MC_C14alg', 'cfg': _cfg(None, 'MC_C14alg_pervertex.cfg'), 'workers': 4},
            # negative model: the pinned per-vertex memo of a face-dependent verdict (defect D17) must be refuted by TLC
            {'module': 'MC_C14alg', 'cfg': _cfg(None, 'MC_C14alg_d17.cfg'), 'workers': 2, 'expect_violation': True},
            {'module': 'MC_C14', 'cfg': _cfg('MC_C14_quick.cfg', 'MC_C14_thorough.cfg'), 'workers': 4},
            {'module': 'MC_C14', 'cfg': _cfg('MC_C14_sim.cfg', 'MC_C14_sim.cfg'), 'workers': 4,
             'simulate': _cfg('num=300', 'num=3000'), 'extra_depth': 12}],
     'gens': ['gen_c14_lattice', 'gen_c14_general', 'gen_c14_cfi'],
     'trace': 'Trace_Selection'},
    # every two-step history over the small criterion set (thorough only)
    {'name': 'select2', 'stateful': True,
     'mc': [{'module': 'MC_C14', 'cfg': _cfg(None, 'MC_C14_depth2.cfg'), 'workers': 4}],
     'trace': 'Trace_Selection'}],
    'assumptions': [
        'TLC evaluates the L1 operators of Selection.tla correctly (integer cross/dot products, squared comparisons)',
        'harness projection: collect() logged as a sorted index list, vertices quantised to 1/1024 lattice unit '
        '(all inputs are integers times a power-of-two scale, so the quantised values are exact)',
        'hash iteration orders of the real code are sampled (3 repetitions with fresh RandomState + 2 permutations of the '
        'face list per step); the L2 model covers all orders',
        'the per-face answer used where the exact verdict is free / unavailable is the library\'s own answer on a selection '
        'holding (Keep, Remove) or lacking (Add) exactly that face']}

CLAIM = {
    'text': 'L1 (Selection.tla): Add/Remove/Keep are union/difference/intersection with the set of faces satisfying the '
            'criterion; whether a face satisfies facing(d, angle) or near_mesh(reference rectangle, all/any vertex, distance, '
            'optional planar and angle tolerance) is computed exactly on the lattice (integer normals, squared comparisons, '
            'angles 0..180 in steps of 30/45 degrees) as T / F / free, free exactly where a quantity equals its tolerance. '
            'L2 (MC_C14alg): TLA+ transcription of facing->mutate and near_mesh->to_check/near_check/mutate_pass_list with the '
            'per-vertex memo, HashSet iteration as an existential, geometry abstracted into arbitrary truth tables (per-vertex '
            'distance/planar answer, per-(face,vertex) angle answer): TLC checks for every table, mode, start selection, '
            'vertex order of the faces and every iteration order that the final selection is the L1 set (two faces sharing an '
            'edge; thorough: three faces sharing a vertex / in a strip, and angle answers differing per vertex), that the memo '
            'only ever holds the vertex-only answer, and termination. The pinned algorithm (memo holds a face-dependent '
            'verdict) is kept as negative configuration MC_C14alg_d17.cfg and is refuted by TLC. History machine (MC_C14): '
            'four lattice meshes (two faces sharing an edge, 4-face pyramid fan, flat/ramp/wall strip, box) x start None / All / '
            'index sets (every subset for <= 4 faces) x every (mode, criterion) of the level (quick 90, thorough 774 criteria) '
            'exhaustively at depth 1, every two-step history over 30 criteria on the two-face mesh (thorough), and random '
            'histories of depth 4 in simulation mode; laws of the algebra are invariants. Every behaviour is replayed into '
            'Mesh::face_select(..).facing/near_mesh(..).collect/create_mesh: each prefix is executed 3 times (fresh hash seeds) '
            'and on 2 face-permuted copies of the mesh, each criterion also on every face alone through Keep, Remove and Add; '
            'TLC judges: per-face answers agree with the exact verdict and with each other, the selection after every step is '
            'exactly Apply(mode, previous, Sat) in every repetition and permutation, create_mesh / create_from_indices return '
            'exactly the selected triangles (coordinates and winding, as a bag), every vertex used and none added. Seeded random '
            'lattice scenes (height fields vs random rectangles, exact verdicts) and general-position scenes (up to 200 faces vs '
            'a second height field, arbitrary angles; judged against the per-face answers of the library itself) extend sizes. References with a crease (a plate with a perpendicular wall hanging from one edge) exercise the nearest-part rule of the near criterion for faces draped over the crease. Start lists may name a face more than once; a fifth of the lattice scenes carry a zero-area face, which satisfies no facing criterion.',
    'design_ref': 'DESIGN.md section 6 C14',
    'note': 'Trusted: TLC; harness projection; hash orders of the real code are sampled, the model covers all; exact verdicts '
            'only for axis-aligned rectangular references and lattice angles - for other references the predicate value itself '
            'is taken from the library on the face in isolation (independence, algebra and mesh construction are still judged). '
            'Out-of-range start indices are not generated; a zero-area face has no normal and satisfies no facing criterion; a start list may name a face more than once. An empty selection cannot be built '
            'into a Mesh (no error channel): failing there is allowed. One defect (D17, memo keyed by vertex held a '
            'face-dependent verdict) was found and repaired (fixes/17_near_mesh_memo.diff); the L2 model transcribes the repaired '
            'algorithm.',
    'technique': 'TLA+ spec (L1 semantics) + TLC: bounded model checking, TLC-generated behaviours replayed into engeom, TLC '
                 'trace validation of recorded observations; L2 algorithm transcription with hash order as existential '
                 'quantification',
}

DEGS = (0, 30, 45, 60, 90, 120, 135, 150, 180)
DEGS_FACING = DEGS + (225, 360)        # beyond 180 degrees: any orientation
NOREF = {'kind': 'none', 'ax': 3, 'h': 0, 'lo': [0, 0], 'hi': [0, 0], 'up': True, 'cells': False}


def _facing(d, deg, ex):
    return {'kind': 'facing', 'ex': ex, 'd': list(d), 'deg': deg, 'ref': NOREF, 'allv': False, 'dt2': 0,
            'hpt': False, 'pt2': 0, 'had': False, 'adeg': 0}


def _near(ref, allv, dt2, pt2, adeg, ex):
    return {'kind': 'near', 'ex': ex, 'd': [0, 0, 0], 'deg': 0, 'ref': ref, 'allv': allv, 'dt2': dt2,
            'hpt': pt2 is not None, 'pt2': pt2 or 0, 'had': adeg is not None, 'adeg': adeg or 0}


def _grid_mesh(rnd, w, h, xy, z):
    """height field over a (w x h)-cell grid; xy(i, j) -> (x, y), z() -> height; faces shuffled, rotated"""
    vpos = []
    for j in range(h + 1):
        for i in range(w + 1):
            x, y = xy(i, j)
            vpos.append([x, y, z()])
    vid = lambda i, j: j * (w + 1) + i
    faces = []
    for j in range(h):
        for i in range(w):
            a, b, c, d = vid(i, j), vid(i + 1, j), vid(i + 1, j + 1), vid(i, j + 1)
            fs = [[a, b, c], [a, c, d]] if rnd.random() < 0.5 else [[a, b, d], [b, c, d]]
            for f in fs:
                k = rnd.randint(0, 2)
                faces.append(f[k:] + f[:k])
    rnd.shuffle(faces)
    return vpos, faces


def _proper(vpos, faces):
    """no zero-area face (the statement says nothing about faces without a normal)"""
    for f in faces:
        a, b, c = (vpos[k] for k in f)
        u = [b[k] - a[k] for k in range(3)]
        v = [c[k] - a[k] for k in range(3)]
        n = (u[1] * v[2] - u[2] * v[1], u[2] * v[0] - u[0] * v[2], u[0] * v[1] - u[1] * v[0])
        if n == (0, 0, 0):
            return False
    return True


def _start(rnd, nf):
    k = rnd.random()
    if k < 0.25:
        return {'kind': 'none', 'idx': []}
    if k < 0.5:
        return {'kind': 'all', 'idx': []}
    idx = [f for f in range(nf) if rnd.random() < rnd.choice((0.2, 0.5, 0.8))]
    if idx and rnd.random() < 0.4:
        # a list that names some faces more than once (concatenated overlapping lists): still that set of faces
        idx += [rnd.choice(idx) for _k in range(rnd.randint(1, max(1, nf - len(idx) + 1)))]
    rnd.shuffle(idx)
    return {'kind': 'idx', 'idx': idx}


def _perms(rnd, nf):
    out = []
    for _ in range(2):
        p = list(range(nf))
        rnd.shuffle(p)
        out.append(p)
    return out


def _root(rnd, name, vpos, faces, sc):
    return {'m': 'sel', 'op': 'mesh', 'name': name, 'sc': sc, 'vpos': vpos, 'faces': faces,
            'start': _start(rnd, len(faces)), 'reps': 3, 'perms': _perms(rnd, len(faces))}


def _step(rnd, crit):
    return {'m': 'sel', 'op': 'step', 'mode': rnd.choice(('add', 'remove', 'keep')), 'crit': crit}


def _lattice_scene(rnd):
    """exact domain: coordinates 0..6, heights 0..3 (all products of the judge stay far below 2^31)"""
    while True:
        w, h = rnd.randint(1, 3), rnd.randint(1, 3)
        sx, sy = rnd.choice((1, 2)), rnd.choice((1, 2))
        ax = rnd.randint(0, 2)          # which coordinate is the height
        vpos, faces = _grid_mesh(rnd, w, h, lambda i, j: (i * sx, j * sy), lambda: rnd.randint(0, 3))
        vpos = [[p[(k - ax) % 3] for k in range(3)] for p in vpos]
        if _proper(vpos, faces):
            return vpos, faces


def _lattice_crit(rnd):
    if rnd.random() < 0.35:
        while True:
            d = [rnd.randint(-2, 2) for _ in range(3)]
            if any(d):
                return _facing(d, rnd.choice(DEGS_FACING), True)
    lo = [rnd.randint(-1, 4), rnd.randint(-1, 4)]
    hi = [lo[0] + rnd.randint(1, 4), lo[1] + rnd.randint(1, 4)]
    ref = {'kind': 'patch', 'ax': rnd.randint(1, 3), 'h': rnd.randint(-1, 4), 'lo': lo, 'hi': hi,
           'up': rnd.random() < 0.5, 'cells': rnd.random() < 0.5, 'sliver': rnd.choice((0, 0, 2, 3))}
    if rnd.random() < 0.4:
        # a reference with a crease: a wall hanging from one edge of the plate (faces of the mesh may be draped over it)
        ref.update({'sliver': 0, 'wall': rnd.randint(1, 4), 'wup': rnd.random() < 0.5})
    return _near(ref, rnd.random() < 0.5, rnd.randint(0, 12),
                 rnd.randint(0, 8) if rnd.random() < 0.5 else None,
                 rnd.choice(DEGS) if rnd.random() < 0.6 else None, True)


def gen_c14_lattice(rnd, tier):
    """random lattice height fields against random axis-aligned rectangles: exact verdicts, histories of 1..5 steps"""
    n = 150 if tier == 'quick' else 3000
    out = []
    for _ in range(n):
        vpos, faces = _lattice_scene(rnd)
        if rnd.random() < 0.2:
            # one zero-area face (three collinear vertices of its own): it has no normal, so it faces nothing
            k = len(vpos)
            p0 = [rnd.randint(0, 4), rnd.randint(0, 4), rnd.randint(0, 3)]
            d = rnd.choice(([1, 0, 0], [0, 1, 0], [1, 1, 0], [0, 1, 1]))
            vpos = vpos + [p0, [p0[a] + d[a] for a in range(3)], [p0[a] + 2 * d[a] for a in range(3)]]
            faces = faces + [[k, k + 1, k + 2]]
        out.append({'op': 'reset'})
        out.append(_root(rnd, 'lattice', vpos, faces, rnd.choice((0, -10, -3, 4, 7, -20, 12))))
        prev = None
        for _s in range(rnd.randint(1, 5)):
            crit = _lattice_crit(rnd)
            if prev is not None and prev['kind'] == 'near' and rnd.random() < 0.4:
                # the same reference object and distance again, only the planar / angle tolerances differ
                crit = dict(prev)
                crit['hpt'] = rnd.random() < 0.7
                crit['pt2'] = rnd.randint(0, 8) if crit['hpt'] else 0
                if rnd.random() < 0.3:
                    crit['had'] = not prev['had']
                    crit['adeg'] = rnd.choice(DEGS) if crit['had'] else 0
            out.append(_step(rnd, crit))
            prev = crit
    return out


def _general_scene(rnd, maxcells):
    while True:
        w, h = rnd.randint(2, maxcells), rnd.randint(2, maxcells)
        vpos, faces = _grid_mesh(rnd, w, h, lambda i, j: (i * 100 + rnd.randint(-30, 30), j * 100 + rnd.randint(-30, 30)),
                                 lambda: rnd.randint(0, 300))
        if _proper(vpos, faces):
            return w, h, vpos, faces


def gen_c14_general(rnd, tier):
    """general position: jittered height fields (8..200 faces) against a second height field; arbitrary integer
    angles and tolerances; the predicate value comes from the library on each face alone (ex = false)"""
    n = 25 if tier == 'quick' else 250
    maxcells = 5 if tier == 'quick' else 10
    out = []
    for _ in range(n):
        w, h, vpos, faces = _general_scene(rnd, maxcells)
        rw, rh = rnd.randint(1, 6), rnd.randint(1, 6)
        dz = rnd.randint(-100, 200)
        while True:
            rv, rf = _grid_mesh(rnd, rw, rh,
                                lambda i, j: (i * (w * 100) // rw + rnd.randint(-20, 20) - 40, j * (h * 100) // rh + rnd.randint(-20, 20) - 40),
                                lambda: dz + rnd.randint(0, 200))
            if _proper(rv, rf):
                break
        ref = {'kind': 'mesh', 'vpos': rv, 'faces': rf}
        out.append({'op': 'reset'})
        out.append(_root(rnd, 'general', vpos, faces, rnd.choice((0, -10, 4))))
        for _s in range(rnd.randint(1, 6)):
            if rnd.random() < 0.35:
                d = [rnd.randint(-9, 9) for _ in range(3)]
                if not any(d):
                    d = [0, 0, 1]
                c = _facing(d, rnd.randint(1, 179), False)
            else:
                c = _near(ref, rnd.random() < 0.5, rnd.randint(20, 500),
                          rnd.randint(0, 200) if rnd.random() < 0.5 else None,
                          rnd.randint(5, 175) if rnd.random() < 0.7 else None, False)
            out.append(_step(rnd, c))
    return out


def gen_c14_cfi(rnd, tier):
    """Mesh::create_from_indices with explicit index lists (distinct indices in random order)"""
    n = 80 if tier == 'quick' else 800
    out = []
    for k in range(n):
        if k % 4 == 0:
            _, _, vpos, faces = _general_scene(rnd, 4 if tier == 'quick' else 8)
        else:
            vpos, faces = _lattice_scene(rnd)
        idx = [f for f in range(len(faces)) if rnd.random() < rnd.choice((0.1, 0.5, 0.9))]
        # every face selected, and meshes carrying vertices no face uses: only used vertices may appear in the result
        if k % 5 == 1:
            idx = list(range(len(faces)))
        if k % 3 != 2:
            vpos = [list(v) for v in vpos] + [[9, 9, 9], [-7, 3, 5]][: 1 + (k % 2)]
        rnd.shuffle(idx)
        out.append({'m': 'sel', 'op': 'cfi', 'sc': rnd.choice((0, -10, 4)), 'vpos': vpos, 'faces': faces, 'idx': idx})
    # two-sided sheets: every face twice, once with each winding (same vertex ids, or a separate copy of the vertices at the
    # same positions) - a selection holding both sides must come back with both
    for k in range(8 if tier == 'quick' else 80):
        vpos, faces = _lattice_scene(rnd)
        nv = len(vpos)
        if k % 2:
            back = [[f[0], f[2], f[1]] for f in faces]
            v2 = [list(v) for v in vpos]
        else:
            back = [[f[0] + nv, f[2] + nv, f[1] + nv] for f in faces]
            v2 = [list(v) for v in vpos] + [list(v) for v in vpos]
        allf = faces + back
        idx = list(range(len(allf))) if k % 4 < 2 else [f for f in range(len(allf)) if rnd.random() < 0.7]
        rnd.shuffle(idx)
        out.append({'m': 'sel', 'op': 'cfi', 'sc': rnd.choice((0, -3, 4)), 'vpos': v2, 'faces': allf, 'idx': idx})
    return out


def gen_collide(rnd, tier):
    """random histories of a MeshCollisionSet: adds, exceptions (also for ids that do not exist yet), checks with shifts of the
    moving meshes; positions that would make two boxes touch exactly are not generated"""
    out = []
    for _ in range(300 if tier == 'quick' else 6000):
        ops, kinds, xs = [], [], []
        for _k in range(rnd.randint(2, 9)):
            c = rnd.random()
            if (c < 0.4 and len(kinds) < 5) or not kinds:
                kinds.append(rnd.random() < 0.6); xs.append(rnd.choice((0, 2, 8, 10, 16)))
                ops.append({'k': 'add', 'moving': kinds[-1], 'x': xs[-1], 'a': 0, 'b': 0, 'tx': [], 'first': False})
            elif c < 0.6:
                a, b = rnd.randint(0, 4), rnd.randint(0, 4)
                ops.append({'k': 'exc', 'moving': False, 'x': 0, 'a': a, 'b': b, 'tx': [], 'first': False})
            else:
                for _try in range(20):
                    tx = [[i, rnd.choice((0, 2, -6, 6, -2))] for i in range(len(kinds)) if kinds[i] and rnd.random() < 0.8]
                    if rnd.random() < 0.2 and tx:
                        tx.append([tx[0][0], rnd.choice((0, 2, -6))])           # the same id twice: the later entry wins
                    sh = {}
                    for i, t in tx:
                        sh[i] = t
                    pos = [xs[i] + sh.get(i, 0) for i in range(len(kinds))]
                    if all(abs(pos[i] - pos[j]) != 4 for i in range(len(pos)) for j in range(i)):
                        break
                else:
                    continue
                if rnd.random() < 0.05:
                    tx.append([len(kinds) + rnd.randint(0, 2), 0])            # an id that does not exist: error
                ops.append({'k': 'check', 'moving': False, 'x': 0, 'a': 0, 'b': 0, 'tx': tx, 'first': rnd.random() < 0.4})
        out.append({'m': 'collide', 'op': 'history', 'ops': ops})
    return out
