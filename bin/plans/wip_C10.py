"""C10: plan entry, claim text (MANIFEST) and the parametric airfoil-section generator."""
import math

PYTH = [(1, 0, 1), (3, 4, 5), (-4, 3, 5), (0, 1, 1), (5, -12, 13), (-15, -8, 17), (20, 21, 29), (-1, 0, 1)]
IDENT = {'M': [[1, 0, 0], [0, 1, 0], [0, 0, 1]], 'H': 1, 't': [0, 0, 0], 'tden': 1}


def make_section(chord, camber_h, r_max, r_le, r_te, n_side, open_te=False, unit=None):
    """closed section = envelope of circles of radius r(t) centred on the camber curve C(t), t in [0,1].
    Returns integer points (coordinates * unit), the generating camber polyline and radii at its vertices."""
    if unit is None:
        unit = int(round(2 ** 24 / chord)) if chord < 16 else int(round(2 ** 20 / chord * 16))
        unit = max(unit, 1000)
    L = chord
    C = lambda t: (L * t, 4.0 * camber_h * t * (1.0 - t))
    dC = lambda t: (L, 4.0 * camber_h * (1.0 - 2.0 * t))
    A = r_max - max(r_le, r_te)
    R = lambda t: r_le + (r_te - r_le) * t + A * math.sin(math.pi * t)
    dR = lambda t: (r_te - r_le) + A * math.pi * math.cos(math.pi * t)
    up, lo = [], []
    for i in range(n_side + 1):
        t = i / n_side
        cx, cy = C(t)
        dx, dy = dC(t)
        sp = math.hypot(dx, dy)
        tx, ty = dx / sp, dy / sp
        nx, ny = -ty, tx
        rp = dR(t) / sp                      # dr/ds
        r = R(t)
        k = math.sqrt(max(0.0, 1.0 - rp * rp))
        up.append((cx + r * (-rp * tx + k * nx), cy + r * (-rp * ty + k * ny)))
        lo.append((cx + r * (-rp * tx - k * nx), cy + r * (-rp * ty - k * ny)))

    def cap(center, r, p_from, p_to, through, m):
        a0 = math.atan2(p_from[1] - center[1], p_from[0] - center[0])
        a1 = math.atan2(p_to[1] - center[1], p_to[0] - center[0])
        at = math.atan2(through[1], through[0])
        # sweep from a0 to a1 in the direction that passes through `at`
        def norm(a):
            while a < 0: a += 2 * math.pi
            while a >= 2 * math.pi: a -= 2 * math.pi
            return a
        ccw = norm(a1 - a0)
        thr = norm(at - a0)
        sweep = ccw if thr <= ccw else ccw - 2 * math.pi
        return [(center[0] + r * math.cos(a0 + sweep * j / m), center[1] + r * math.sin(a0 + sweep * j / m)) for j in range(1, m)]

    m_te = max(6, int(n_side * 0.08))
    m_le = max(8, int(n_side * 0.12))
    d1 = dC(1.0); s1 = math.hypot(*d1); t1 = (d1[0] / s1, d1[1] / s1)
    d0 = dC(0.0); s0 = math.hypot(*d0); t0 = (d0[0] / s0, d0[1] / s0)
    pts = list(up)
    if not open_te:
        pts += cap(C(1.0), R(1.0), up[-1], lo[-1], t1, m_te)
    pts += list(reversed(lo))
    pts += cap(C(0.0), R(0.0), lo[0], up[0], (-t0[0], -t0[1]), m_le)
    ipts = [[int(round(x * unit)), int(round(y * unit))] for (x, y) in pts]
    # remove consecutive duplicates after rounding
    out = [ipts[0]]
    for p in ipts[1:]:
        if p != out[-1]:
            out.append(p)
    if out[0] == out[-1]:
        out.pop()
    ncam = 200
    cam = [[int(round(C(j / ncam)[0] * unit)), int(round(C(j / ncam)[1] * unit))] for j in range(ncam + 1)]
    rad = [int(round(R(j / ncam) * unit)) for j in range(ncam + 1)]
    le_pt = (C(0.0)[0] - R(0.0) * t0[0], C(0.0)[1] - R(0.0) * t0[1])
    te_pt = (C(1.0)[0] + R(1.0) * t1[0], C(1.0)[1] + R(1.0) * t1[1])
    return {'unit': unit, 'chord': int(round(chord * unit)), 'pts': out, 'camber': cam, 'radii': rad,
            'le_true': [int(round(le_pt[0] * unit)), int(round(le_pt[1] * unit))], 'te_true': [int(round(te_pt[0] * unit)), int(round(te_pt[1] * unit))],
            'rmax': int(round(max(R(j / 1000) for j in range(1001)) * unit))}


def motion(rnd, scale):
    c, s, h = rnd.choice(PYTH)
    return {'M': [[c, -s, 0], [s, c, 0], [0, 0, h]], 'H': h, 't': [int(rnd.randint(-30, 30) * scale) , int(rnd.randint(-30, 30) * scale), 0], 'tden': 10}


def gen_c10_sections(rnd, tier):
    n = 6 if tier == 'quick' else 60
    out = []
    methods = ['fit', 'trace', 'converge', 'const', 'intersect', 'ransac']
    for k in range(n):
        chord = rnd.choice([0.5, 1.0, 2.5, 10.0, 50.0])
        camh = rnd.choice([0.0, 0.02, 0.05, 0.08]) * chord
        rmax = rnd.choice([0.05, 0.06, 0.08]) * chord
        rle = rnd.choice([0.012, 0.016, 0.02]) * chord
        rte = rnd.choice([0.006, 0.008, 0.012]) * chord
        ns = rnd.choice([120, 200, 320])
        sec = make_section(chord, camh, rmax, rle, rte, ns)
        le = methods[k % len(methods)]
        te = methods[(k // 2 + 1) % len(methods)]
        rec = {'m': 'airfoil', 'op': 'analyze', 'wd': 60000, 'closed': True, 'tolq': 100,
               'orient': {'kind': rnd.choice(['tmax', 'dir']), 'd': [-1, 0]},
               'le': {'kind': le}, 'te': {'kind': te},
               'face': rnd.choice([{'kind': 'detect', 'd': [0, 1]}, {'kind': 'upper', 'd': [0, 1]}]) if camh > 0 else {'kind': 'upper', 'd': [0, 1]},
               'variants': [{'T': IDENT, 'rev': False, 'shift': 0},
                            {'T': motion(rnd, chord), 'rev': False, 'shift': 0},
                            {'T': IDENT, 'rev': True, 'shift': 0},
                            {'T': IDENT, 'rev': False, 'shift': rnd.randint(1, len(sec['pts']) - 1)}]}
        rec.update(sec)
        out.append(rec)
    return out

PLAN_ENTRY = {'stages': []}
CLAIM = {'text': 'not yet', 'design_ref': 'DESIGN.md section 6 C10', 'note': '', 'technique': ''}
