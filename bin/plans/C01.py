"""C01: plan entry, claim text (MANIFEST) and seeded generators."""
PLAN_ENTRY = {'stages': [
        # growth beyond the listed properties (never a verdict): vertex-to-vertex navigation of stations as a state machine
        {'name': 'station_navigation', 'extra': True,
         'mc': [{'module': 'MC_StationNav', 'cfg': {'quick': 'MC_StationNav.cfg', 'thorough': 'MC_StationNav.cfg'}, 'workers': 2}],
         # unbounded: Apalache checks that IndInv of NavInd.tla is inductive for every number of vertices (and implies the step bound)
         'proofs': [{'module': 'NavInd', 'tool': 'apalache', 'runs': [['--init=Init', '--inv=IndInv', '--length=0'],
                                                                       ['--init=IndInit', '--inv=IndInv', '--length=1'],
                                                                       ['--init=IndInit', '--inv=Bounded', '--length=0']]}],
         'gens': ['gen_nav'], 'trace': 'Trace_StationNav'},
        {'name': 'stations', 'mc': [{'module': 'MC_C01', 'cfg': {'quick': 'MC_C01_quick.cfg', 'thorough': 'MC_C01_thorough.cfg'}, 'workers': 8}], 'gens': ['gen_c01_random', 'gen_c01_free'], 'trace': 'Trace_Curve'}], 'assumptions': ['TLC evaluates the L1 operators of Curve.tla correctly (exact integer arithmetic)', 'harness projection: coordinates/lengths quantised to 2^-16 lattice units, directions to 2^-14, infinitesimals realised as next_up/next_down', 'edges have integer length (axis-parallel / Pythagorean) times a power-of-two scale; irrational edge lengths are outside the exact domain']}

CLAIM = {
    'text': 'TLC enumerates every input vertex sequence of up to 3 points on a 4x4 (quick) / 5x5 (thorough) lattice with integer-length steps, including repeated points and steps merged by a one-unit tolerance, x tolerance kind x force_closed x 2D/3D (three liftings) x power-of-two scales, and for each curve every half-lattice arc length from below 0 to above L plus every vertex length +-1 ulp (as an infinitesimal), the same places by fraction, by iteration and front/back; the laws of the length/position operators are model-checked; every case is run through Curve2/Curve3 and TLC judges vertex list, closedness, cumulative lengths and every station (None exactly outside [0,L]; index+fraction reproduce l; exact rational point; edge direction or the vertex rule; normal) against the L1 operators. Seeded random 4..40-vertex lattice curves with Pythagorean edges extend the instance sizes. General lattice polylines (irrational edge lengths, a lead of up to 2^13 units before short oblique edges; op free) are judged by derived observations: exact rational point at eighths of every edge, unit direction to 2^-44 parallel to and along the edge, index + fraction reproduce point and length, unit perpendicular normal in 2D; listings with repeated joints are included. Half of the seeded records are translated by up to 2^17 lattice units (the harness takes the offset off every reported point).',
    'design_ref': 'DESIGN.md section 6 C01',
    'note': 'Trusted: TLC, harness projection (2^-16 unit quantisation, next_up/next_down for the infinitesimals). Edge lengths are integers times 2^k; irrational edge lengths are not in the exact domain. Vertices where adjacent directions cancel are exempt from the direction clause.',
    'technique': 'TLA+ spec (L1 semantics) + TLC: bounded model checking, TLC-generated cases replayed into engeom, TLC trace validation of recorded observations',
}


def gen_nav(rnd, tier):
    """open and closed lattice curves (axis-parallel unit steps of length 1..3), every half-lattice arc length"""
    out = []
    for _ in range(40 if tier == 'quick' else 600):
        n = rnd.randint(2, 7)
        pts = [[0, 0, 0]]
        d = rnd.choice(((1, 0), (0, 1)))
        for _k in range(n - 1):
            d = (d[1], d[0]) if rnd.random() < 0.5 else d
            st = rnd.randint(1, 3)
            pts.append([pts[-1][0] + d[0] * st, pts[-1][1] + d[1] * st, 0])
        L2 = 2 * sum(abs(pts[k + 1][0] - pts[k][0]) + abs(pts[k + 1][1] - pts[k][1]) for k in range(n - 1))
        out.append({'m': 'curve', 'op': 'nav', 'pts': pts, 'fc': False, 'sc': rnd.choice((0, -4, 3)), 'ls': list(range(0, L2 + 1))})
    return out
