"""C11: plan entry, claim text (MANIFEST) and seeded generators."""
from fractions import Fraction
from math import gcd

PLAN_ENTRY = {'stages': [
    {'name': 'circles',
     'mc': [{'module': 'MC_C11', 'cfg': {'quick': 'MC_C11_quick.cfg', 'thorough': 'MC_C11_thorough.cfg'}, 'workers': 4,
             'timeout': {'quick': 300, 'thorough': 1800}}],
     'gens': ['gen_c11_random', 'gen_c11_near_equal', 'gen_c11_far_segments', 'gen_c11_far_tangents', 'gen_c11_gentle_triples'], 'trace': 'Trace_Circles',
     'judge_timeout': {'quick': 600, 'thorough': 3600}}],
    'assumptions': [
        'TLC evaluates the L1 operators of Circles.tla correctly (their mutual consistency and their acceptance of the exact '
        'rational answer of every Pythagorean configuration is model-checked in MC_C11)',
        'harness projection is faithful: outputs are divided by the power-of-two scale and rounded to 1/q lattice units '
        '(q = 1024 for enumerated cases, 256..1024 for random ones); angles and lengths are logged in 2^-20 sixteenths of a turn',
        'integer circles, lattice points, Z_16 and Pythagorean angles at power-of-two scales stand for the continuous families; '
        'tolerances are one to two quanta (1e-3 lattice units), so defects below that size are not seen',
        'the 17-entry cosine table of the Z_16 lattice (checked against the unit-length and double-angle identities by TLC)']}

CLAIM = {
    'text': 'TLC enumerates every pair of integer circles with the second centre in an 11x11 (thorough 17x17) window around the first and '
            'radii 1..5 (separate, externally / internally tangent, crossing, nested, concentric, equal radii, off-origin and at scales '
            '2^-10 and 2^4), every lattice point in a 13x13 window against circles of radius 1..5 (all ratios d/r on the lattice, inside, '
            'on and outside), lattice segments, long extended segments (lines with non-unit direction) and all three-vertex polylines of a '
            '3x3 window against circles, every Z_16 arc (16 start angles x sweeps -16..16 sixteenths of a turn, three centres, all four '
            'constructors), 1000 arcs with Pythagorean start direction and sweep, every ordered triple of the 12 lattice points of a radius-5 '
            '(thorough also 13) circle and every non-collinear triple of a 3x3 window at three scales. On each configuration TLC checks '
            'laws of the specification (classification symmetric and refined by the branch structure of intersections_with; the L1 relations '
            'accept the exact rational intersection / tangent / outer-tangent points of every Pythagorean configuration and reject the '
            'swapped, duplicated or mirrored answer; root classification against the signs at the segment ends; the two formulations of the '
            'arc box agree and do not depend on the treatment of axis directions exactly at an arc end; orientation determinant = cyclic '
            'order). Every configuration is then executed by the real library and TLC judges the observation against L1: exact count, all '
            'coordinates finite, every point on both objects, tangent points on the circle with perpendicular tangent and left one first, '
            'outer tangents touching both circles with parallel radii in the documented order (None exactly when one circle is inside the '
            'other), three-point arcs start / end at the given points with the sweep sign of the orientation determinant, length = radius x '
            '|sweep|, point_at_length = point_at_fraction = the expected lattice-angle point, cached boxes equal the exact box. Seeded random '
            'instances (radii up to 16, centres up to +-20, Pythagorean directions up to hypotenuse 65, six scales) extend the sizes. A third of the seeded constructions live far from the origin; tangent points from points up to 1e8 radii away and circles / arcs through nearly-in-line triples (sine of the turn down to 2e-4) are judged by derived relative residuals (ops tanfar, arc3far).',
    'design_ref': 'DESIGN.md section 6 C11',
    'note': 'Trusted: TLC, the harness projection, the cosine table of the Z_16 lattice. Exhaustive only over the bounded lattice families; '
            'general-position real inputs are represented by Pythagorean (exactly rational) configurations and random lattice instances. '
            'Five defects found here were repaired (fixes/1..5); intersection_line_circle is reached through Circle2::intersection(&Segment2) '
            '(no hook). Zero-sweep arcs are excluded from point_at_length (0/0).',
    'technique': 'TLA+ spec (L1 semantics + L2 branch structure) + TLC: bounded model checking of the laws, TLC-generated cases replayed into '
                 'engeom, TLC trace validation of recorded observations',
}

SCALES = (0, 0, 0, -10, -3, 4, 7, 10, -20)


def _pyth(maxh):
    """all <<x, y, h>> with x^2 + y^2 = h^2, x, y > 0, primitive, h <= maxh"""
    out = []
    for m in range(2, 12):
        for n in range(1, m):
            if (m - n) % 2 == 1 and gcd(m, n) == 1:
                a, b, h = m * m - n * n, 2 * m * n, m * m + n * n
                if h <= maxh:
                    out.append((a, b, h))
                    out.append((b, a, h))
    return out


PY = _pyth(65)


def _rec(op, rnd, q, **kw):
    r = {'m': 'circles', 'op': op, 'q': q, 'sc': rnd.choice(SCALES)}
    r.update(kw)
    # "any centre": a third of the seeded constructions live far from the origin (the harness translates every centre and point
    # by `off` and translates every reported coordinate back; the offsets are not on the diagonal)
    if rnd.random() < 0.35:
        r['off'] = list(rnd.choice(((1000, -4096), (65536, -100000), (-30000, 8191))))
    return r


def _cc(rnd):
    r0, r1 = rnd.randint(1, 12), rnd.randint(1, 12)
    x0, y0 = rnd.randint(-20, 20), rnd.randint(-20, 20)
    kind = rnd.random()
    if kind < 0.35:
        # Pythagorean offset whose length is r0 + r1 or |r0 - r1| (tangent) or one off (just crossing / separate / nested)
        a, b, h = rnd.choice([(3, 4, 5), (4, 3, 5), (5, 12, 13), (12, 5, 13), (1, 0, 1), (0, 1, 1), (8, 15, 17), (15, 8, 17)])
        k = rnd.randint(1, 3)
        a, b, h = a * k, b * k, h * k
        tgt = rnd.choice((h, h, h + 1, h - 1))
        if rnd.random() < 0.5:
            r0 = rnd.randint(1, max(1, tgt - 1))
            r1 = max(1, tgt - r0)
        else:
            r1 = rnd.randint(1, 8)
            r0 = r1 + tgt
        dx, dy = a * rnd.choice((-1, 1)), b * rnd.choice((-1, 1))
    elif kind < 0.45:
        dx, dy = 0, 0
    else:
        span = r0 + r1 + 2
        dx, dy = rnd.randint(-span, span), rnd.randint(-span, span)
    r0, r1 = min(r0, 14), min(r1, 14)
    return _rec('cc', rnd, 256, c0=[x0, y0, r0], c1=[x0 + dx, y0 + dy, r1])


def _tan(rnd):
    r = rnd.randint(1, 12)
    x, y = rnd.randint(-15, 15), rnd.randint(-15, 15)
    if rnd.random() < 0.3:
        a, b, h = rnd.choice([(3, 4, 5), (4, 3, 5), (5, 12, 13), (12, 5, 13), (8, 15, 17)])
        r = rnd.choice((a, b)) if rnd.random() < 0.7 else r          # tangent length is then an integer
        dx, dy = rnd.choice([(h, 0), (0, h), (-h, 0), (0, -h), (a, b), (-a, b), (b, -a), (-b, -a)])
        r = min(r, 12)
    else:
        dx, dy = rnd.randint(-20, 20), rnd.randint(-20, 20)
    return _rec('tan', rnd, 256, c=[x, y, r], p=[x + dx, y + dy])


def _seg(rnd):
    r = rnd.randint(1, 10)
    c = [rnd.randint(-5, 5), rnd.randint(-5, 5), r]
    while True:
        a = [rnd.randint(-12, 12), rnd.randint(-12, 12)]
        if rnd.random() < 0.3:
            d = rnd.choice([(1, 0), (0, 1), (1, 1), (2, -1), (-3, 4), (4, 3), (-1, -2), (5, -2), (0, -6), (-6, 1)])
            return _rec('seg', rnd, 256, c=c, a=a, b=[a[0] + d[0], a[1] + d[1]], ext=rnd.randint(1, 3))
        b = [rnd.randint(-12, 12), rnd.randint(-12, 12)]
        if a != b:
            return _rec('seg', rnd, 256, c=c, a=a, b=b, ext=0)


def _curve(rnd):
    r = rnd.randint(1, 8)
    c = [rnd.randint(-3, 3), rnd.randint(-3, 3), r]
    n = rnd.randint(3, 8)
    pts = []
    while len(pts) < n:
        p = [rnd.randint(-8, 8), rnd.randint(-8, 8)]
        if p not in pts:
            pts.append(p)
    return _rec('curve', rnd, 256, c=c, pts=pts, fc=rnd.random() < 0.4)


VIAS = ('angles', 'point', 'partial')


def _arc16(rnd):
    r = rnd.randint(1, 16)
    x = rnd.randint(-16, 16)
    n = min(abs(x), 16)
    fr = [[j, n] for j in range(n + 1)] if n else []
    return _rec('arc16', rnd, 1024, c=[rnd.randint(-20, 20), rnd.randint(-20, 20), r], s=rnd.randint(-40, 40), x=x,
                via=rnd.choice(VIAS), fr=fr)


def _pdir(rnd):
    if rnd.random() < 0.15:
        return rnd.choice([(1, 0, 1), (0, 1, 1), (-1, 0, 1), (0, -1, 1)])
    a, b, h = rnd.choice(PY)
    return (a * rnd.choice((-1, 1)), b * rnd.choice((-1, 1)), h)


def _arcp(rnd):
    u = _pdir(rnd)
    qt = rnd.randint(0, 4)
    if qt == 4 or rnd.random() < 0.1:
        ph = (1, 0, 1)
    else:
        ph = rnd.choice(PY)
    fr = [] if (qt == 0 and ph[1] == 0) else [[0, 1], [1, 1], [1, 2], [1, 3], [2, 7]]
    return _rec('arcp', rnd, 1024, c=[rnd.randint(-20, 20), rnd.randint(-20, 20), rnd.randint(1, 16)], u=list(u), qt=qt,
                phi=list(ph), sg=rnd.choice((-1, 1)), via=rnd.choice(VIAS), fr=fr)


def _arc3(rnd):
    while True:
        p = [[rnd.randint(-10, 10), rnd.randint(-10, 10)] for _ in range(3)]
        if rnd.random() < 0.3:
            o = p[0]
            p = [o, [o[0] + rnd.randint(-2, 2), o[1] + rnd.randint(-2, 2)], [o[0] + rnd.randint(-2, 2), o[1] + rnd.randint(-2, 2)]]
        (ax, ay), (bx, by), (cx, cy) = p
        orient = (bx - ax) * (cy - ay) - (by - ay) * (cx - ax)
        if orient == 0:
            continue
        b2 = (bx - ax) ** 2 + (by - ay) ** 2
        c2 = (cx - ax) ** 2 + (cy - ay) ** 2
        ux = Fraction((cy - ay) * b2 - (by - ay) * c2, 2 * orient)
        uy = Fraction((bx - ax) * c2 - (cx - ax) * b2, 2 * orient)
        if ux * ux + uy * uy > 25 * 25:          # keep the circumradius (and the conditioning) moderate
            continue
        return _rec('arc3', rnd, 1024, p0=p[0], p1=p[1], p2=p[2], fr=[[0, 1], [1, 1], [1, 2], [1, 3]])


def gen_c11_random(rnd, tier):
    n = 250 if tier == 'quick' else 4000
    out = []
    for _ in range(n):
        out.append(_cc(rnd))
        out.append(_tan(rnd))
        out.append(_seg(rnd))
        out.append(_arc16(rnd))
        out.append(_arcp(rnd))
        out.append(_arc3(rnd))
        if _ % 2 == 0:
            out.append(_curve(rnd))
    return out


def gen_c11_near_equal(rnd, tier):
    """outer tangents of two separate circles whose radii are millions of units and differ by one to three units
    (relative difference below 1e-6, absolute difference far above any rounding): the general construction applies"""
    out = []
    for _ in range(60 if tier == 'quick' else 1000):
        r = rnd.randint(1200000, 4000000)
        e = rnd.choice((1, 2, 3, -1, -2))
        x0, y0 = rnd.randint(-1000000, 1000000), rnd.randint(-1000000, 1000000)
        k = rnd.randint(3, 5)
        a, b = rnd.choice(((1, 0), (0, 1), (3, 4), (-4, 3), (5, -12), (-1, 0), (-8, -15)))
        h = {(1, 0): 1, (0, 1): 1, (3, 4): 5, (-4, 3): 5, (5, -12): 13, (-1, 0): 1, (-8, -15): 17}[(a, b)]
        dx, dy = k * r * a // h, k * r * b // h
        out.append({'m': 'circles', 'op': 'ccnear', 'q': 1, 'sc': rnd.choice((0, 0, -10, -20)), 'c0': [x0, y0, r], 'c1': [x0 + dx, y0 + dy, r + e]})
    return out


def gen_c11_far_segments(rnd, tier):
    """segments that start 2^27 + 1 (and more) units from a small circle: squares of such coordinates are not exact in
    double precision, so an implementation that subtracts them loses everything; the crossings themselves are small numbers"""
    out = []
    trip = [(5, 3, 4), (5, 4, 3), (5, 5, 0), (5, 6, 0), (13, 5, 12), (13, 12, 5), (13, 13, 0), (10, 0, 10), (17, 8, 15), (25, 7, 24)]
    for _ in range(40 if tier == 'quick' else 400):
        R, l, h = rnd.choice(trip)
        l *= rnd.choice((1, -1))
        far = rnd.choice((2 ** 27 + 1, 2 ** 27 + 3, 3 * 2 ** 26 + 1, 2 ** 28 + 5))
        xe = rnd.choice((R + 3, h, 0, -1, h - 1, 2 * R))
        out.append({'m': 'circles', 'op': 'segfar', 'q': 1024, 'sc': rnd.choice((0, 0, -3, 2)), 'c': [0, 0, R], 'lvl': l, 'h': h, 'far': far, 'xe': xe,
                    'swap': rnd.randint(0, 1)})
    return out


def gen_c11_far_tangents(rnd, tier):
    """tangent points from a point 1e3 .. 1e8 radii away ("every distance ratio d/r"), judged by relative residuals"""
    out = []
    for _ in range(60 if tier == 'quick' else 1000):
        r = rnd.randint(1, 5)
        k = rnd.choice((10, 14, 17, 20, 24, 27))
        d = [(1 << k) + rnd.randint(-3, 3), rnd.randint(-1000, 1000)]
        if rnd.random() < 0.5:
            d = [d[1], -d[0]]
        c = [rnd.randint(-5, 5), rnd.randint(-5, 5), r]
        out.append({'m': 'circles', 'op': 'tanfar', 'q': 1024, 'sc': rnd.choice((0, -10, 3)), 'c': c, 'p': [c[0] + d[0], c[1] + d[1]]})
    return out


def gen_c11_gentle_triples(rnd, tier):
    """three points that are nearly in line: chord 2L, sagitta h, sine of the turn at the middle point about 2h/L between 1e-4 and 1e-2"""
    out = []
    for _ in range(60 if tier == 'quick' else 1000):
        L = rnd.choice((1000, 4000, 20000))
        ratio = rnd.choice((5000, 2000, 800, 300, 100))          # L / h
        h = max(1, L // ratio)
        if 2 * h * 10000 < L:                                     # keep the sine at or above 2e-4
            h = L // 5000 + 1
        p0, p1, p2 = [0, 0], [L + rnd.randint(-3, 3), h * rnd.choice((-1, 1))], [2 * L, 0]
        if rnd.random() < 0.5:
            p0, p1, p2 = [p0[1], p0[0]], [p1[1], p1[0]], [p2[1], p2[0]]
        o = [rnd.randint(-50, 50), rnd.randint(-50, 50)]
        out.append({'m': 'circles', 'op': 'arc3far', 'q': 1024, 'sc': rnd.choice((0, -10, 3)),
                    'p0': [p0[0] + o[0], p0[1] + o[1]], 'p1': [p1[0] + o[0], p1[1] + o[1]], 'p2': [p2[0] + o[0], p2[1] + o[1]]})
    return out
