"""C07: plan entry, claim text (MANIFEST) and seeded generators."""

PLAN_ENTRY = {'stages': [
    {'name': 'protocol',
     'mc': [{'module': 'AlignLM', 'cfg': {'quick': 'MC_C07_protocol.cfg', 'thorough': 'MC_C07_protocol.cfg'}, 'workers': 2},
            {'module': 'AlignLM', 'cfg': {'quick': 'MC_C07_negative.cfg', 'thorough': 'MC_C07_negative.cfg'}, 'workers': 2, 'expect_violation': True}],
     # unbounded: TLAPS proves the same invariants for any set of parameter vectors and histories of any length
     'proofs': [{'module': 'AlignLMProof', 'tool': 'tlapm'}]},
    {'name': 'align',
     'mc': [{'module': 'MC_C07', 'cfg': {'quick': 'MC_C07_quick.cfg', 'thorough': 'MC_C07_thorough.cfg'}, 'workers': 4}],
     'gens': ['gen_c07_random'],
     'trace': 'Trace_Align'}],
    'assumptions': [
        'TLC model-checks the set_params / residuals / jacobian protocol for every call order (3 abstract parameter vectors, 4 reports); TLAPS (AlignLMProof.tla, 59 obligations) proves the invariants for any parameter set and any history length',
        'derived observations: the distance of a moved point to the reference is recomputed by the harness through the library closest-point queries (validated by C02), independently of the optimiser state',
        'convergence of Levenberg-Marquardt is a numerical fact: the spec states the fixed-point relation and checks it on recorded runs; basin = rotations <= ~15 deg (2D) / ~6 deg (3D), shifts <= 3/8 unit for the enumerated cases with full sample sets; for random sample subsets: no sample displaced by more than 1/2 unit (a quarter of the smallest feature)',
        'point mode is not differentiable at exactly zero distance: displacements leaving whole faces at distance 0 are excluded from the recovery clause',
    ]}

CLAIM = {
    'text': 'Model checking and proof: the Levenberg-Marquardt problem is specified as a protocol machine (set_params / residuals / jacobian / finish in any order, cache of moved points owned by the parameters in force); TLC shows that with the refresh in set_params everything ever reported was computed from the current parameters, and (negative configuration, must fail) that without the refresh it is not; the invariant is also proved with TLAPS for unbounded parameter sets and histories (AlignLMProof.tla). Binding: cfg(engeom_verif) hooks emit every set_params / residuals / jacobian call of the real solvers; TLC validates each recorded run against the protocol (the parameters seen by residuals/jacobian are those of the last set_params) and checks every recorded residual vector against the distances re-derived from those parameters. On the result: for L-shaped and notched lattice polygons (2D) and a lattice box (3D), lattice sample points, exact displacements (small Pythagorean rotations about every axis, shifts in eighths, plus out-of-basin ones), two starting guesses and both DistMode values, the i-th reported residual equals the mode-specific distance of the i-th point moved by the returned transform, the sum of squares is not larger than at the start, avg_residual is the mean, and inside the basin transform o displacement is the identity on every sample point. Seeded 3D cases also use the box a thousand times smaller and larger (power-of-two scale of the whole problem, point and plane mode); for every seeded 3D case the basin is: no sample displaced by more than 1/2 unit.',
    'design_ref': 'DESIGN.md section 6 C07',
    'note': 'Trusted: TLC, harness derived distances via engeom closest-point queries, nalgebra. Hooks: commit 1096747 (add-only, cfg engeom_verif).',
    'technique': 'TLA+ protocol spec model-checked by TLC (incl. negative model) + trace validation of hook-recorded solver runs against it',
}

ROTS2 = [(1, 0, 1), (1, 0, 1), (63, 16, 65), (63, -16, 65), (35, 12, 37), (399, -40, 401), (399, 40, 401), (899, -60, 901), (99, 20, 101), (40, -9, 41)]
ELL = [[0, 0, 0], [6, 0, 0], [6, 2, 0], [2, 2, 0], [2, 5, 0], [0, 5, 0]]
ELLS = [[2, 0, 0], [6, 0, 0], [10, 0, 0], [12, 2, 0], [10, 4, 0], [6, 4, 0], [4, 6, 0], [4, 8, 0], [2, 10, 0], [0, 8, 0], [0, 4, 0], [0, 1, 0], [9, 0, 0], [12, 3, 0]]


def _basin3(D, samples):
    """the stated basin for seeded 3D cases: no sample (half-lattice coordinates) is displaced by more than 1/2 unit - a quarter of the
    smallest feature of the box"""
    M, H, t, td = D['M'], D['H'], D['t'], D['tden']
    for sp in samples:
        p = [c / 2.0 for c in sp]
        q = [sum(M[i][k] * p[k] for k in range(3)) / H + t[i] / td for i in range(3)]
        if sum((q[i] - p[i]) ** 2 for i in range(3)) > 0.25:
            return False
    return True


def gen_c07_random(rnd, tier):
    n = 20 if tier == 'quick' else 400
    out = []
    for _ in range(n):
        c, s, h = rnd.choice(ROTS2)
        D = {'M': [[c, -s, 0], [s, c, 0], [0, 0, h]], 'H': h, 't': [rnd.randint(-3, 3), rnd.randint(-3, 3), 0], 'tden': 8}
        k = rnd.randint(8, len(ELLS))
        samples = rnd.sample(ELLS, k) if k >= 10 else ELLS
        # stated basin for random sample subsets: no sample is displaced by more than a quarter of the smallest feature
        # (the 2-unit notch), i.e. 1/2 unit; beyond that closest-point alignment may legitimately settle in a local minimum
        def moved(p):
            x, y = p[0] / 2.0, p[1] / 2.0
            return ((c * x - s * y) / h + D['t'][0] / 8.0 - x, (s * x + c * y) / h + D['t'][1] / 8.0 - y)
        basin = all(dx * dx + dy * dy <= 0.25 for dx, dy in map(moved, samples))
        guess = rnd.randint(0, 3)
        off = rnd.choice([[0, 0, 0], [150, -90, 0], [-400, 250, 0]])
        # (guess 3: a rotation of 0.3 rad about the origin as starting guess, the points handed over turned back by it)
        out.append({'m': 'align', 'op': 'curve', 'ref': ELL, 'samples': samples, 'D': D, 'guess': guess, 'off': off, 'basin': basin})
    # many points with a form error (704 points along the outline, offset by -2..2 sixty-fourths along the outward normal): the
    # optimum has non-uniform residuals, so the i-th reported residual must really belong to the i-th point (not judged: recovery)
    for _ in range(1 if tier == 'quick' else 6):
        big = []
        k = 0
        for a, b in zip(ELL, ELL[1:] + ELL[:1]):
            ex, ey = b[0] - a[0], b[1] - a[1]
            ln = abs(ex) + abs(ey)
            ux, uy = (ex > 0) - (ex < 0), (ey > 0) - (ey < 0)
            nx, ny = uy, -ux                          # outward normal of the counter-clockwise outline
            for j in range(ln * 32):
                o = (k * 7) % 5 - 2
                big.append([64 * a[0] + 2 * j * ux + o * nx, 64 * a[1] + 2 * j * uy + o * ny, 0])
                k += 1
        c, s_, h = rnd.choice([(399, -40, 401), (899, -60, 901), (1, 0, 1)])
        D = {'M': [[c, -s_, 0], [s_, c, 0], [0, 0, h]], 'H': h, 't': [rnd.randint(-2, 2), rnd.randint(-2, 2), 0], 'tden': 8}
        out.append({'m': 'align', 'op': 'curve', 'ref': ELL, 'samples': big, 'sden': 64, 'D': D, 'guess': rnd.randint(0, 2),
                    'off': rnd.choice([[0, 0, 0], [150, -90, 0]]), 'basin': False})
    # 3D: the box cases of the enumerated instance with a large pre-rotation handed over as starting guess
    BOXV = [[0, 0, 0], [4, 0, 0], [0, 0, 2], [4, 0, 2], [0, 3, 0], [4, 3, 0], [0, 3, 2], [4, 3, 2]]
    BOXF = [[4, 7, 5], [4, 6, 7], [0, 2, 4], [2, 6, 4], [0, 1, 2], [1, 3, 2], [1, 5, 7], [1, 7, 3], [2, 3, 7], [2, 7, 6], [0, 4, 1], [1, 4, 5]]
    BOXS = [[2, 2, 0], [6, 4, 0], [4, 1, 0], [2, 2, 4], [6, 4, 4], [5, 5, 4], [0, 2, 2], [0, 4, 1], [0, 5, 3], [8, 2, 2], [8, 4, 3], [8, 1, 1],
            [2, 0, 2], [6, 0, 1], [3, 0, 3], [2, 6, 2], [6, 6, 3], [5, 6, 1]]
    for _ in range(12 if tier == 'quick' else 200):
        c, s, h = rnd.choice([(399, 40, 401), (899, -60, 901), (1, 0, 1)])
        ax = rnd.randint(1, 3)
        M = {1: [[c, -s, 0], [s, c, 0], [0, 0, h]], 2: [[h, 0, 0], [0, c, -s], [0, s, c]], 3: [[c, 0, s], [0, h, 0], [-s, 0, c]]}[ax]
        D = {'M': M, 'H': h, 't': [rnd.choice((2, -1, 1)), rnd.choice((-2, 2, 1)), rnd.choice((1, -1, 2))], 'tden': 8}
        out.append({'m': 'align', 'op': 'mesh', 'vpos': BOXV, 'faces': BOXF, 'samples': BOXS, 'off': rnd.choice([[0, 0, 0], [150, -90, 60]]), 'D': D,
                    'mode': 'plane', 'guess': 0, 'swap': rnd.randint(1, 4), 'basin': _basin3(D, BOXS)})
    # 3D: the same box a thousand times smaller or larger (point and plane mode, no pre-rotation): the result may not depend on the unit
    for _ in range(12 if tier == 'quick' else 200):
        c, s, h = rnd.choice([(399, 40, 401), (899, -60, 901), (1, 0, 1)])
        ax = rnd.randint(1, 3)
        M = {1: [[c, -s, 0], [s, c, 0], [0, 0, h]], 2: [[h, 0, 0], [0, c, -s], [0, s, c]], 3: [[c, 0, s], [0, h, 0], [-s, 0, c]]}[ax]
        D = {'M': M, 'H': h, 't': [rnd.choice((2, -1, 1)), rnd.choice((-2, 2, 1)), rnd.choice((1, -1, 2))], 'tden': 8}
        out.append({'m': 'align', 'op': 'mesh', 'vpos': BOXV, 'faces': BOXF, 'samples': BOXS, 'off': [0, 0, 0], 'D': D,
                    'mode': rnd.choice(('plane', 'point')), 'guess': 0, 'swap': 0, 'basin': _basin3(D, BOXS), 'msc': rnd.choice((-10, -10, 10))})
    return out
