"""C18: plan entry, claim text (MANIFEST) and seeded generators."""
PLAN_ENTRY = {'stages': [
        {'name': 'angles', 'mc': [{'module': 'MC_C18', 'cfg': {'quick': 'MC_C18_quick.cfg', 'thorough': 'MC_C18_thorough.cfg'}}], 'gens': ['gen_angles'], 'trace': 'Trace_Angles'}], 'assumptions': ['TLC evaluates the L1 operators of Angles.tla correctly', 'harness projection (quantisation to TAU/2^24, three-way float comparisons against the range bounds) is faithful', 'lattice angles k*TAU/16 (+-1 ulp) and coded scalar bounds stand for the continuous families; big angles only through sin/cos agreement']}

CLAIM = {
    'text': 'TLC enumerates every lattice angle k*TAU/16 (|k|<=40/64, each +-1 ulp), every pair for directed angles, all pairs of lattice vectors in [-2,2]^2, every (start, extent) angular interval on Z_16 x -18..18 against 72 test angles, the full intersects table and all scalar intervals over {-inf,-2..2,+inf}; checks the arc/interval algebra laws on the spec; every case is executed by the real library and TLC judges each observation against the L1 set semantics (results free only within ANGLE_TOL of arc ends). Random finite angles up to 1e6 are judged through sin/cos agreement. This is the right level because the property is a finite case analysis around wrap points that the lattice hits exactly.',
    'design_ref': 'DESIGN.md section 6 C18',
    'note': 'Trusted: TLC, the harness projection (quantisation, three-way comparisons with the range bounds), lattice stands for the continuum. Not a proof for all reals.',
    'technique': 'TLA+ spec (L1 semantics) + TLC: bounded model checking, TLC-generated cases replayed into engeom, TLC trace validation of recorded observations',
}
