"""C06: plan entry, claim text (MANIFEST) and seeded generators."""
import gens

PLAN_ENTRY = {'stages': [
    {'name': 'raycast',
     'mc': [{'module': 'MC_C06', 'cfg': {'quick': 'MC_C06_quick.cfg', 'thorough': 'MC_C06_thorough.cfg'}, 'workers': 4}],
     'gens': ['gen_c06_random', 'gen_c06_vertex_lines', 'gen_c06_corner_clips', 'gen_c06_shallow'],
     'trace': 'Trace_RayCast'}],
    'assumptions': [
        'TLC evaluates the per-edge line/segment solution of RayCast.tla correctly (exact integer cross products)',
        'harness projection: line parameters to 2^-14, spanning-ray points to 2^-12 lattice unit',
        'lines have lattice origin and lattice direction; nearly parallel lines are rational with slopes up to 1:12 (31-bit budget of the exact comparison); for unit (normalised) directions vertex hits are free',
    ]}

CLAIM = {
    'text': 'TLC enumerates curated lattice polylines of 4..9 edges (ring, comb, spiral, hexagon, zigzag, doubling back with a T junction, triangle with a reflex vertex, nested squares) x every lattice origin of a window around them (inside, outside, behind) x 15 lattice directions (axis-parallel in both senses, diagonal, Pythagorean, through vertices, along edges, nearly parallel to edges: 12:1, 1:10, 7:6), model-checks that the exact crossing table has distinct sorted representatives covering every hit edge, and judges every observation of polyline_intersections / Curve2::ray_intersections (count = number of distinct exact crossings, each on the named edge at the exact parameter, strictly ascending), spanning_ray (exactly when two crossings, from the smaller to the larger, direction kept), max_intersection, farthest_point_direction_distance (exact when |d| is an integer) and the surface-point normal-line intersection. Seeded random lattice polylines of 30..3000 edges on a 64x64 grid reach every bounding-volume tree shape; the judge scans all edges exactly. A third of the TLC-emitted scenes and most seeded ones lie 2^17..2^23 lattice units from the origin; zero direction components are also handed over as -0.0.',
    'design_ref': 'DESIGN.md section 6 C06',
    'note': 'Trusted: TLC; harness projection. Lines collinear with an edge contribute no crossing from that edge (as a per-edge solve with a parallel test does).',
    'technique': 'TLA+ spec (L1 semantics) + TLC: bounded model checking, TLC-generated cases replayed into engeom, TLC trace validation of recorded observations',
}

DIRS = [[1, 0, 0], [0, 1, 0], [-1, 0, 0], [0, -1, 0], [1, 1, 0], [2, -1, 0], [3, 4, 0], [-4, 3, 0], [1, 5, 0], [-5, -2, 0],
        [8, 1, 0], [-1, 7, 0], [6, 5, 0], [1, -8, 0]]      # the last four: nearly parallel to edges (bounded by the 31-bit budget of the judge)


def gen_c06_random(rnd, tier):
    out = []
    n = 3 if tier == 'quick' else 30
    for _ in range(n):
        nv = rnd.randint(30, 250 if tier == 'quick' else 3000)
        pts = [[rnd.randint(0, 60), rnd.randint(0, 60), 0]]
        kind = rnd.choice(('walk', 'comb', 'stack'))
        while len(pts) < nv:
            x, y, _ = pts[-1]
            if kind == 'comb':
                dx, dy = rnd.choice(((1, 0), (0, 3), (0, -3), (1, 0)))
            elif kind == 'stack':
                dx, dy = rnd.choice(((4, 0), (-4, 0), (0, 1)))
            else:
                dx, dy = rnd.choice(((1, 0), (0, 1), (-1, 0), (0, -1), (3, 4), (-4, 3), (2, 0), (0, -2)))
            nx, ny = x + dx, y + dy
            if 0 <= nx <= 63 and 0 <= ny <= 63 and [nx, ny, 0] != pts[-1]:
                pts.append([nx, ny, 0])
            elif rnd.random() < 0.05:
                pts.append([rnd.randint(0, 60), rnd.randint(0, 60), 0])
                if pts[-1] == pts[-2]:
                    pts.pop()
        for _r in range(6 if tier == 'quick' else 10):
            o = [rnd.randint(-3, 66), rnd.randint(-3, 66), 0]
            out.append({'m': 'ray', 'op': 'cast', 'pts': pts, 'sc': rnd.choice((0, -3, 2)), 'o': o, 'dirs': DIRS[:4] + rnd.sample(DIRS[4:], 3), 'nzd': rnd.choice((0, 1)),
                        'off': rnd.choice(([0, 0, 0], [100000, -65536, 0], [-3000, 131072, 0]))})
    return out


def gen_c06_vertex_lines(rnd, tier):
    """lines through every vertex of closed and open polylines with directions of irrational norm, origins on both sides:
    the surface-point normal line (normalised direction) must still report every proper crossing at a vertex"""
    polys = [[[0, 0, 0], [6, 0, 0], [6, 6, 0], [0, 6, 0], [0, 0, 0]],
             [[2, 0, 0], [4, 0, 0], [6, 3, 0], [4, 6, 0], [2, 6, 0], [0, 3, 0], [2, 0, 0]],
             [[0, 0, 0], [3, 4, 0], [6, 0, 0], [9, 4, 0], [12, 0, 0]],
             [[0, 0, 0], [8, 0, 0], [8, 8, 0], [4, 3, 0], [0, 8, 0], [0, 0, 0]]]
    dirs = [[2, 3, 0], [1, 2, 0], [1, 1, 0], [3, 1, 0], [-2, 3, 0], [1, -2, 0], [5, 2, 0], [-1, 7, 0]]
    ks = (-3, -1, 2, 5) if tier == 'quick' else (-7, -3, -2, -1, 1, 2, 3, 5, 11)
    out = []
    for pts in polys:
        for v in pts[:-1]:
            for k in ks:
                ds = rnd.sample(dirs, 3 if tier == 'quick' else 8)
                for d in ds:
                    out.append({'m': 'ray', 'op': 'cast', 'pts': pts, 'sc': rnd.choice((0, -3, 2)),
                                'o': [v[0] + k * d[0], v[1] + k * d[1], 0], 'dirs': [d],
                                'off': rnd.choice(([0, 0, 0], [0, 0, 0], [100000, -65536, 0], [-3000, 131072, 0], [1000, 1000, 0]))})
    return out


def gen_c06_corner_clips(rnd, tier):
    """lines that clip a corner of a curve whose own tolerance (1.5 units) is larger than the chord they cut (1.41): still two crossings"""
    out = []
    sq = [[0, 0, 0], [8, 0, 0], [8, 8, 0], [0, 8, 0], [0, 0, 0]]
    for (o, d) in (([1, 0, 0], [-1, 1, 0]), ([0, 1, 0], [1, -1, 0]), ([7, 0, 0], [1, 1, 0]), ([9, 7, 0], [-1, 1, 0]), ([1, 8, 0], [-1, -1, 0]),
                   ([-2, 3, 0], [1, -1, 0]), ([3, 3, 0], [1, 0, 0])):
        for sc in (0, -3, 5):
            out.append({'m': 'ray', 'op': 'cast', 'pts': sq, 'sc': sc, 'ctol16': 24, 'o': o, 'dirs': [d, [-d[0], -d[1], 0]]})
    return out


def gen_c06_shallow(rnd, tier):
    """a closed rectangle 2^21 x 4 and lines with slopes of 2^-20 .. 2^-18 against its long edges (angles of 1e-6 .. 4e-6 rad):
    every crossing of a long edge is a shallow one; origins are chosen so that no vertex lies on a line"""
    W = 2 ** 21
    rect = [[0, 0, 0], [W, 0, 0], [W, 4, 0], [0, 4, 0], [0, 0, 0]]
    out = []
    for _ in range(6 if tier == 'quick' else 60):
        o = [rnd.choice((-8, -3, 5, 2 ** 20 + 7, W + 9)), rnd.choice((1, 2, 3, -1, 5)), 0]
        dirs = []
        for _k in range(4):
            dx = rnd.choice((2 ** 20, 2 ** 19, 2 ** 18, 3 * 2 ** 19)) * rnd.choice((1, -1))
            dy = rnd.choice((1, -1))
            # no vertex on the line: cross((v - o), d) != 0 for the four corners
            if all((vx - o[0]) * dy - (vy - o[1]) * dx != 0 for vx, vy, _z in rect[:4]):
                dirs.append([dx, dy, 0])
        if dirs:
            out.append({'m': 'ray', 'op': 'shallow', 'pts': rect, 'o': o, 'dirs': dirs, 'qt': 4})
    return out
