"""C09: plan entry, claim text (MANIFEST) and seeded generators (least-squares fits are optimal)."""
import math

PLAN_ENTRY = {'stages': [
    {'name': 'fit',
     'mc': [{'module': 'MC_C09', 'cfg': {'quick': 'MC_C09_quick.cfg', 'thorough': 'MC_C09_thorough.cfg'}, 'workers': 4},
            {'module': 'MC_C09b', 'cfg': {'quick': 'MC_C09b_quick.cfg', 'thorough': 'MC_C09b_thorough.cfg'}, 'workers': 4},
            # negative model: the pinned loop bound (second loop from K + 1) must violate the refinement invariant
            {'module': 'MC_C09b', 'cfg': {'quick': 'MC_C09b_pinned.cfg', 'thorough': 'MC_C09b_pinned.cfg'}, 'workers': 2, 'expect_violation': True}],
     'gens': ['gen_c09_poly', 'gen_c09_circles'],
     'trace': 'Trace_Fit'}],
    'assumptions': [
        'TLC evaluates the exact integer / rational operators of Fit.tla correctly (Cramer solution, long division, bisector equations, inlier bands; no overflow on the bounded instances)',
        'harness projection: coefficients to 1e-6 (abscissa scale undone by exact powers of two), circle centre/radius to 1e-4 lattice unit; '
        'derived observations computed in f64 from the RETURNED values by plain formulas: relative moments of the residual vector against the monomial columns, '
        'weighted sum of squares, distance of the three defining points from the perimeter, gradient of the summed squared radial residuals, distance of every point from the RANSAC circle',
        'stated neighbourhoods: polynomial abscissae are integers in -3..5 (sizes 5, 6), |x| <= 6 (size 4), |x| <= 30 (sizes 2, 3) times 2^-2..2^2; circle guesses have centre within R/3 of the true centre '
        'and radius within R/3 of the true radius; RANSAC data have at least 3/5 of the points on the generating circle and at least 200 iterations (50 when 4/5 are on it)',
    ]}

CLAIM = {
    'text': 'Polynomials: TLC enumerates every set of K..K+2 distinct integer abscissae in -3..5 (all asymmetric, clustered and one-sided sets) for K = 2..6, five weight settings '
            '(none, ramps, uniform, one heavy sample) and three abscissa scales, with the monomials and dense mixed-sign coefficient vectors (all 49 integer lines for K = 2) as generating polynomials, and every '
            'small integer data set for K = 2, 3 (repeated abscissae included); on each it model-checks the laws of the L1 operators (the generating polynomial solves the normal equations, Cramer\'s '
            'solution is orthogonal to every monomial column, its sum of squares equals the closed-form minimum and is strictly below that of all 8 neighbouring coefficient vectors). An L2 '
            'state machine transcribes the power-sum accumulation loops of Polynomial::least_squares and TLC checks that the Hankel system it builds is the system of normal equations for every K = 2..6 '
            '(the pinned loop bound is kept as a negative configuration that TLC refutes). Every case is executed by the real library and TLC judges the observation: generating coefficients recovered and '
            'interpolated, coefficients equal to the exact rational solution and sum of squares equal to the exact minimum (K = 2, 3), residual moments against every monomial column zero (all K, derived observation), '
            'Series1::best_fit_line equal to the exact least-squares line, to Line1::least_squares and consistent slope/intercept accessors. Circles: every ordered triple of a 5x5 (thorough 6x6) lattice window '
            'at 3-5 power-of-two scales: Err exactly for collinear triples, otherwise the centre satisfies the three perpendicular-bisector equations, the radius is the exact circumradius and the three points lie on the perimeter; '
            'arcs of lattice points on circles of radius 5, 13, 25, 65 (minimal arcs of >= 60 degrees from every start, longer and full ones) x 27 guesses within R/3 x BestFit::All / Gaussian(3) / Gaussian(2) x 3 scales: '
            'Ok and centre/radius recovered; displaced and random noisy data: a reported circle has zero gradient of the summed squared radial residuals; RANSAC on lattice rings with up to 40% lattice outliers '
            '(three orders, tolerances, iteration counts, radius windows): the reported circle has at least as many points in its inlier band as the generating circle has by exact integer count. '
            'Seeded random generators add larger data sets (n up to 40, wider and offset abscissae, random weights up to 9), random arcs / subsets / guesses / centres, random triples with negative coordinates and random contaminated rings.',
    'design_ref': 'DESIGN.md section 6 C09',
    'note': 'Trusted: TLC; harness projection and the plain f64 formulas of the derived observations (orthogonality moments for K >= 4 and for large data, gradient, perimeter distances). '
            'Exhaustive only over the bounded lattice domain; Levenberg-Marquardt convergence is checked on recorded results only (exact recovery / stationarity), not proved. '
            'Inputs with fewer than K distinct abscissae, non-positive weights, guesses outside R/3, arcs below 60 degrees and contamination above 40% are outside the stated domain and not judged. '
            'Two defects found here were repaired (fix: commits): the moment sum of order K was never accumulated; the collinearity threshold of from_3_points was absolute.',
    'technique': 'TLA+ spec (L1 semantics, L2 transcription of the accumulation loops) + TLC: bounded model checking, TLC-generated cases replayed into engeom, TLC trace validation of recorded observations',
}

LIM = 2 ** 30


def _ok(*vals):
    return all(abs(v) < LIM for v in vals)


def _ex_level(K, xs, ws, w, ys):
    """how much of the exact rational solution TLC can evaluate within 31 bits for this INPUT:
    0 = nothing, 1 = coefficients, 2 = coefficients and minimum sum of squares. Mirrors the term structure of Fit.tla
    (Solve2/Solve3/MinSSE/QuantRat); it only inspects magnitudes of input moments, never a result of the library."""
    W = ws if w else [1] * len(xs)
    if len(set(xs)) < K:
        return 0
    s = [sum(wi * abs(x) ** j for x, wi in zip(xs, W)) for j in range(2 * K - 1)]
    r = [sum(wi * abs(x) ** j * abs(y) for x, wi, y in zip(xs, W, ys)) for j in range(K)]
    se = [sum(wi * x ** j for x, wi in zip(xs, W)) for j in range(2 * K - 1)]
    re_ = [sum(wi * x ** j * y for x, wi, y in zip(xs, W, ys)) for j in range(K)]
    if K == 2:
        worst = max(r) * max(s) * 2
        D = se[0] * se[2] - se[1] ** 2
        N = [re_[0] * se[2] - se[1] * re_[1], se[0] * re_[1] - se[1] * re_[0]]
    elif K == 3:
        worst = max(r) * max(s) ** 2 * 6
        import itertools
        M = [[se[a + b] for b in range(3)] for a in range(3)]

        def det3(m):
            return (m[0][0] * (m[1][1] * m[2][2] - m[1][2] * m[2][1]) - m[0][1] * (m[1][0] * m[2][2] - m[1][2] * m[2][0])
                    + m[0][2] * (m[1][0] * m[2][1] - m[1][1] * m[2][0]))
        D = det3(M)
        N = []
        for k in range(3):
            Mk = [row[:] for row in M]
            for a in range(3):
                Mk[a][k] = re_[a]
            N.append(det3(Mk))
        worst = max(worst, max(s) ** 3 * 6)
    else:
        return 0
    if D <= 0 or not _ok(worst, D * 10) or any(abs(n) * 10 ** 6 // D * 10 >= LIM for n in N):
        return 0
    wyy = sum(wi * y * y for wi, y in zip(W, ys))
    if _ok(D * wyy * 2, *[abs(n) * rr * K for n, rr in zip(N, r)], (D * wyy) // D * 10000):
        return 2
    return 1


def gen_c09_poly(rnd, tier):
    out = []
    nrec = 200 if tier == 'quick' else 3000
    for _ in range(nrec):
        K = rnd.randint(2, 6)
        # abscissa families by size (conditioning of the monomial basis): asymmetric, clustered, offset from zero
        if K <= 3:
            style = rnd.choice(('asym', 'cluster', 'offset', 'wide'))
        elif K == 4:
            style = rnd.choice(('asym', 'cluster', 'six'))
        else:
            style = 'asym'
        n = rnd.randint(K, K + (10 if tier == 'quick' else 34 if K <= 3 else 14))
        for _try in range(50):
            if style == 'asym':
                xs = [rnd.randint(-3, 5) for _ in range(n)]
            elif style == 'cluster':
                c1, c2 = rnd.randint(-3, 0), rnd.randint(3, 5)
                xs = [rnd.choice((c1, c1 + 1, c2, c2 - 1 if K > 3 else c2 + 1)) for _ in range(n)]
                if K >= 3:
                    xs[0] = c1 + 2
            elif style == 'offset':
                o = rnd.randint(8, 24)
                xs = [o + rnd.randint(0, 6) for _ in range(n)]
            elif style == 'wide':
                xs = [rnd.randint(-12, 30) for _ in range(n)]
            else:
                xs = [rnd.randint(-4, 6) for _ in range(n)]
            if len(set(xs)) >= K:
                break
        else:
            continue
        if rnd.random() < 0.5:
            xs.sort()
        w = rnd.random() < 0.65
        ws = [rnd.randint(1, 9 if rnd.random() < 0.3 else 3) for _ in xs]
        sx = rnd.choice((0, 0, -2, -1, 1, 2)) if style in ('asym', 'cluster', 'six') else 0
        if rnd.random() < 0.5:
            ys = [[rnd.randint(-20, 20) for _ in xs] for _ in range(3)]
            ex = min(_ex_level(K, xs, ws, w, y) for y in ys) if K <= 3 else 0
            out.append({'m': 'fit', 'op': 'poly', 'kind': 'data', 'K': K, 'xs': xs, 'w': w, 'ws': ws, 'sx': sx, 'ex': ex, 'ys': ys})
        else:
            cs = [[rnd.randint(-3, 3) for _ in range(K)] for _ in range(3)]
            ys = [[sum(c[k] * x ** k for k in range(K)) for x in xs] for c in cs]
            if any(abs(y) > 10 ** 6 for yy in ys for y in yy):
                continue
            out.append({'m': 'fit', 'op': 'poly', 'kind': 'exact', 'K': K, 'xs': xs, 'w': w, 'ws': ws, 'sx': sx, 'ex': 0, 'cs': cs, 'ys': ys})
    # lines through Series1 (strictly increasing abscissae)
    for _ in range(40 if tier == 'quick' else 600):
        n = rnd.randint(2, 12)
        xs = sorted(rnd.sample(range(-9, 10), n))
        ys = [[rnd.randint(-9, 9) for _ in xs] for _ in range(4)]
        out.append({'m': 'fit', 'op': 'line', 'xs': xs, 'sx': rnd.choice((0, -3, 2, 5)), 'ys': ys})
    return out


# ---------------------------------------------------------------- lattice rings
Q1 = {5: [(5, 0), (4, 3), (3, 4)], 13: [(13, 0), (12, 5), (5, 12)], 25: [(25, 0), (24, 7), (20, 15), (15, 20), (7, 24)],
      65: [(65, 0), (63, 16), (60, 25), (56, 33), (52, 39), (39, 52), (33, 56), (25, 60), (16, 63)]}


def ring(R):
    out = []
    pts = Q1[R]
    for _ in range(4):
        out += pts
        pts = [(-y, x) for (x, y) in pts]
    return out


def _rbounds(rnd, R):
    """radius bounds around the generating radius; one of them may equal it (both bounds are inclusive), never both at once -
    a candidate through three exact points has its radius only to the last ulp"""
    rmin = rnd.choice((-1, R - 2, R - 1, R))
    rmax = rnd.choice((-1, R + 2, R + 1)) if rmin == R else rnd.choice((-1, R + 2, R + 1, R))
    return {'rmin': rmin, 'rmax': rmax}


def gen_c09_circles(rnd, tier):
    out = []
    # exact arcs and subsets, random centres / guesses / scales / modes
    for _ in range(60 if tier == 'quick' else 1500):
        R = rnd.choice((5, 13, 25, 65))
        rg = ring(R)
        N = len(rg)
        ctr = (rnd.randint(-20, 20), rnd.randint(-20, 20))
        a = rnd.randrange(N)
        n = rnd.randint(3, N)
        idx = [(a + j) % N for j in range(n)]
        if rnd.random() < 0.3 and n > 4:
            idx = [idx[0], idx[-1]] + rnd.sample(idx[1:-1], rnd.randint(1, n - 2))      # non-contiguous subset, same extent
            rnd.shuffle(idx)
        pts = [[rg[k][0] + ctr[0], rg[k][1] + ctr[1]] for k in idx]
        g = R // 3
        gs = []
        while len(gs) < 6:
            dx, dy, dr = rnd.randint(-g, g), rnd.randint(-g, g), rnd.randint(-g, g)
            if 9 * (dx * dx + dy * dy) <= R * R:
                gs.append([ctr[0] + dx, ctr[1] + dy, R + dr])
        gs += [[x[0] + rnd.randint(-1, 1), x[1], R, 1] for x in gs[:2]]          # mean-distance radius guesses
        out.append({'m': 'fit', 'op': 'cfit', 'kind': 'exact', 'R': R, 'ctr': list(ctr), 'pts': pts, 'sc': rnd.choice((0, -10, 4, -3, 7)),
                    'sg2': rnd.choice((0, 0, 6, 4)), 'gs': gs})
    # inexact data: displaced ring points
    for _ in range(60 if tier == 'quick' else 1500):
        R = rnd.choice((5, 13, 25, 65))
        rg = ring(R)
        N = len(rg)
        a = rnd.randrange(N)
        n = rnd.randint(max(4, N // 4), N)
        ctr = (rnd.randint(-9, 9), rnd.randint(-9, 9))
        amp = rnd.choice((1, 1, 2, max(1, R // 8)))
        pts = [[rg[(a + j) % N][0] + ctr[0] + rnd.randint(-amp, amp), rg[(a + j) % N][1] + ctr[1] + rnd.randint(-amp, amp)] for j in range(n)]
        g = R // 3
        gs = [[ctr[0] + rnd.randint(-g // 2, g // 2), ctr[1] + rnd.randint(-g // 2, g // 2), R + rnd.randint(-g // 2, g // 2)] for _ in range(4)]
        gs += [[x[0], x[1], R, 1] for x in gs[:2]]
        out.append({'m': 'fit', 'op': 'cfit', 'kind': 'noisy', 'R': R, 'ctr': list(ctr), 'pts': pts, 'sc': rnd.choice((0, -10, 4, -3)), 'sg2': 0, 'gs': gs})
    # three-point circles with negative coordinates (circumradius kept small enough for 31-bit judging)
    for _ in range(12 if tier == 'quick' else 200):
        p0 = (rnd.randint(-8, 8), rnd.randint(-8, 8))
        prs = []
        while len(prs) < 60:
            p1 = (rnd.randint(-8, 8), rnd.randint(-8, 8))
            p2 = (rnd.randint(-8, 8), rnd.randint(-8, 8))
            det = (p1[0] - p0[0]) * (p2[1] - p0[1]) - (p1[1] - p0[1]) * (p2[0] - p0[0])
            if det != 0:
                la, lb, lc = math.dist(p0, p1), math.dist(p1, p2), math.dist(p0, p2)
                if la * lb * lc / (2 * abs(det)) > 100:
                    continue
            prs.append([p1[0], p1[1], p2[0], p2[1]])
        out.append({'m': 'fit', 'op': 'c3', 'p0': list(p0), 'sc': rnd.choice((0, -10, -3, 4, 10)), 'prs': prs})
    # shallow triples: three nearly collinear lattice points (sine of the turning angle 3e-4 .. 7e-4), and exactly collinear ones
    for _ in range(4 if tier == 'quick' else 40):
        p0 = (rnd.randint(-8, 8), rnd.randint(-8, 8))
        prs = []
        for _k in range(30):
            a, b = rnd.randint(1500, 3000), rnd.randint(-3, 3)
            e = rnd.choice((1, -1, 0))          # 0: exactly collinear
            if rnd.random() < 0.5:
                prs.append([p0[0] + a, p0[1] + b, p0[0] + 2 * a, p0[1] + 2 * b + e])
            else:
                prs.append([p0[0] + b, p0[1] + a, p0[0] + 2 * b + e, p0[1] + 2 * a])
        out.append({'m': 'fit', 'op': 'c3', 'p0': list(p0), 'sc': rnd.choice((0, -10, -3, 4)), 'prs': prs, 'shallow': True})
    # a rival circle with one point less than the generating one (same radius, far away), few outliers, many orders
    for _ in range(40 if tier == 'quick' else 600):
        R = rnd.choice((5, 13, 25))
        rg = ring(R)
        N = len(rg)
        ctr = (rnd.randint(-9, 9), rnd.randint(-9, 9))
        c2 = (ctr[0] + rnd.choice((-1, 1)) * (3 * R + rnd.randint(0, 5)), ctr[1] + rnd.randint(-R, R))
        pts = [[x + ctr[0], y + ctr[1]] for (x, y) in rg]
        riv = [[x + c2[0], y + c2[1]] for (x, y) in rg]
        riv.pop(rnd.randrange(N))
        outl = [[ctr[0] + rnd.randint(-2 * R, 2 * R), ctr[1] + rnd.randint(-2 * R, 2 * R)] for _ in range(rnd.randint(0, N // 4))]
        allp = pts + riv + outl
        rnd.shuffle(allp)
        out.append({'m': 'fit', 'op': 'ransac', 'R': R, 'ctr': list(ctr), 'pts': allp, 'sc': rnd.choice((0, -10, 4)), 'tolN': 1, 'tolD': rnd.choice((4, 8)),
                    'iters': rnd.choice((0, 300, 500)), 'rmin': -1, 'rmax': -1, 'rival': True})
    # contaminated rings
    for _ in range(60 if tier == 'quick' else 1200):
        R = rnd.choice((5, 13, 25))
        rg = ring(R)
        N = len(rg)
        ctr = (rnd.randint(-9, 9), rnd.randint(-9, 9))
        pts = [[x + ctr[0], y + ctr[1]] for (x, y) in rg]
        nout = rnd.randint(0, (2 * N) // 3)
        outl = [[ctr[0] + rnd.randint(-2 * R, 2 * R), ctr[1] + rnd.randint(-2 * R, 2 * R)] for _ in range(nout)]
        allp = pts + outl
        rnd.shuffle(allp)
        out.append({'m': 'fit', 'op': 'ransac', 'R': R, 'ctr': list(ctr), 'pts': allp, 'sc': rnd.choice((0, -10, 4)), 'tolN': 1, 'tolD': rnd.choice((2, 4, 8)),
                    'iters': rnd.choice((0, 0, 200, 300)), **_rbounds(rnd, R)})
    return out
