"""C16: plan entry, claim text (MANIFEST) and seeded generators."""
import gens as _g

PLAN_ENTRY = {'stages': [
    {'name': 'deviations',
     'mc': [{'module': 'MC_C16', 'cfg': {'quick': 'MC_C16_quick.cfg', 'thorough': 'MC_C16_thorough.cfg'}, 'workers': 4}],
     'gens': ['gen_c16_tolmap', 'gen_c16_dist', 'gen_c16_cdev', 'gen_c16_mdev'],
     'trace': 'Trace_Metrology'},
    {'name': 'aggregates', 'stateful': True,
     'mc': [{'module': 'MC_C16d', 'cfg': {'quick': 'MC_C16d_quick.cfg', 'thorough': 'MC_C16d_thorough.cfg'}, 'workers': 4},
            {'module': 'MC_C16p', 'cfg': {'quick': 'MC_C16p_quick.cfg', 'thorough': 'MC_C16p_thorough.cfg'}, 'workers': 4},
            # negative models (must be rejected by TLC: the invariants are not vacuous); thorough tier only
            {'module': 'MC_C16p', 'cfg': {'quick': None, 'thorough': 'MC_C16p_neg_merge_points_first.cfg'}, 'workers': 2, 'expect_violation': True},
            {'module': 'MC_C16p', 'cfg': {'quick': None, 'thorough': 'MC_C16p_neg_select_skips_colours.cfg'}, 'workers': 2, 'expect_violation': True}],
     'gens': ['gen_c16_devset', 'gen_c16_cloud'],
     'trace': 'Trace_Metrology'}],
    'assumptions': [
        'TLC evaluates the L1 operators of Metrology.tla (exact rational point-segment / point-triangle distances, side rules, table lookup) correctly',
        'harness projection is faithful: values quantised to 1/4096, squared values to 1/1024 (doubled lattice units), points to 1/4096 (2D) and 1/256 (3D), signs as three-way comparisons',
        'lattice vertices, half-lattice query points and power-of-two scales stand for the continuous families; infinitesimal offsets of x are realised as next_up/next_down',
        'the side of a curve near a vertex / of a mesh is defined by the local wedge rule and, for closed convex meshes, by inside/outside (checked against each other by TLC on the convex instances)']}

CLAIM = {
    'text': 'TLC enumerates (a) every ascending breakpoint table with repeats (<=3 entries over 4 values quick, <=4 over 6 thorough) against every half-lattice x +-1 ulp from below the start to beyond the end and checks that binary search with ANY pivot refines the L1 table semantics (None when empty or below the first breakpoint, last zone beyond the end, zone of the greatest breakpoint <= x with equal breakpoints free); (b) directed distances for lattice a, b and rational unit directions in 2D and 3D (value = (b-a).dir, reversal, centre); (c) nine curated nominal polylines (both windings, acute and reflex corners, open ends, collinear, doubling back, self-crossing) against every half-lattice point of the surrounding box and closed boxes, a 3-4-5 wedge, a tetrahedron, an open quad and an open roof against every half-lattice point around them: |deviation|^2 equals the exact rational squared distance, the reference point is a closest point on the nominal, reference + direction*value reconstructs the measured point, the sign follows the outward-normal side (wedge rule at vertices, inside/outside for convex closed meshes - TLC checks both readings agree), plane mode = normal component for a face through the reference point; line_surface_deviations must return the same per-point results and true extremes; (d) EVERY deviation-set history new(0..2 values)|default followed by 3 (thorough 4) pushes over values -2..2, with the L2 transcription of the cached max/min indices proven to refine the true extremes in every reachable state; (e) EVERY point-cloud history constructor (all presence / wrong-length combinations) followed by 2 (thorough 3) calls of append / merge / create_from_indices / transform with every presence combination, with an L2 micro-step transcription (checks before mutations, one mutation per array) proven atomic against L1 and two deliberately broken transcriptions rejected. Every case and behaviour is executed by the real library and TLC judges each observation against L1. Seeded random generators add larger tables, curves, meshes and 60-200 step histories. Tolerance tables are also built incrementally: every sequence of up to 3 (4) values offered to DiscreteDomain::push, with the accept/reject answers and the resulting table judged against the model (PushTable). At an edge shared by exactly two faces the sign of a point-mode mesh deviation is decided exactly by the cone spanned by the two normals (MeshEdgeSide), exercised on a 37-degree V groove.',
    'design_ref': 'DESIGN.md section 6 C16',
    'note': 'Trusted: TLC, the harness projection, lattice/half-lattice inputs standing for the continuum. Not covered: the Interval filter of line_surface_deviations, ConstantTolMap, Distance2/3 to_3d/to_2d, solid meshes (is_solid = true), sign for non-convex meshes when the closest point is on an edge or vertex (left free), NaN inputs. Three defects were found and repaired (fixes/1..3).',
    'technique': 'TLA+ spec (L1 semantics + L2 algorithm transcriptions) + TLC: bounded model checking, TLC-generated cases and behaviours replayed into engeom, TLC trace validation of recorded observations',
}

SCALES = (0, 0, -10, -3, 4, -20, 12)


# ---------------------------------------------------------------- stateless generators
def gen_c16_tolmap(rnd, tier):
    n = 60 if tier == 'quick' else 600
    out = []
    for _ in range(n):
        k = rnd.choice((0, 1, 2, 3, 5, 8, 12))
        lo, hi = rnd.choice(((-20, 20), (0, 6), (-3, 3)))
        bps = sorted(rnd.randint(lo, hi) for _ in range(k))
        xs = [[rnd.randint(2 * lo - 4, 2 * hi + 4), rnd.choice((-1, 0, 1))] for _ in range(30)]
        for b in bps:
            xs += [[2 * b, -1], [2 * b, 0], [2 * b, 1]]
        out.append({'m': 'metro', 'op': 'tolmap', 'bps': bps, 'xs': xs, 'sc': rnd.choice(SCALES)})
    return out


DIRS2 = [((1, 0, 0), 1), ((0, 1, 0), 1), ((3, 4, 0), 5), ((4, 3, 0), 5), ((5, 12, 0), 13), ((12, 5, 0), 13), ((8, 15, 0), 17), ((15, 8, 0), 17)]
DIRS3 = [((1, 0, 0), 1), ((0, 1, 0), 1), ((0, 0, 1), 1), ((2, 2, 1), 3), ((1, 2, 2), 3), ((2, 3, 6), 7), ((6, 2, 3), 7), ((0, 3, 4), 5),
         ((4, 0, 3), 5), ((1, 4, 8), 9), ((4, 4, 7), 9)]


def gen_c16_dist(rnd, tier):
    n = 300 if tier == 'quick' else 3000
    out = []
    for _ in range(n):
        dim = rnd.choice((2, 3))
        a = [rnd.randint(-30, 30) for _ in range(3)]
        b = [rnd.randint(-30, 30) for _ in range(3)]
        if dim == 2:
            a[2] = b[2] = 0
        if rnd.random() < 0.2:
            d, h = (0, 0, 0), 0
            if a == b:
                continue
        else:
            d, h = rnd.choice(DIRS2 if dim == 2 else DIRS3)
            d = tuple(x * rnd.choice((-1, 1)) for x in d)
        out.append({'m': 'metro', 'op': 'dist', 'dim': dim, 'a': a, 'b': b, 'dir': list(d), 'h': h, 'sc': rnd.choice(SCALES)})
    return out


def gen_c16_cdev(rnd, tier):
    """random lattice polylines (integer-length steps, may cross or touch themselves) with rows of half-lattice points"""
    n = 40 if tier == 'quick' else 400
    out = []
    for _ in range(n):
        fc = rnd.random() < 0.5
        nv = rnd.randint(3 if fc else 2, 9)
        pts = _g.lattice_curve(rnd, nv, 10, 2, closed=fc)
        sc = rnd.choice(SCALES)
        for _row in range(4):
            y2 = rnd.randint(-4, 24)
            qs = [[rnd.randint(-4, 24), y2, 0] for _ in range(10)]
            # half of the rows pass exactly through a vertex (corner cases)
            if rnd.random() < 0.5:
                v = rnd.choice(pts)
                qs += [[2 * v[0] + dx, 2 * v[1] + dy, 0] for dx in (-2, -1, 0, 1, 2) for dy in (-1, 1)]
            out.append({'m': 'metro', 'op': 'cdev', 'pts': pts, 'fc': fc, 'sc': sc, 'qs': qs})
    return out


BOXF = [[0, 2, 3], [0, 3, 1], [4, 5, 7], [4, 7, 6], [0, 1, 5], [0, 5, 4], [2, 7, 3], [2, 6, 7], [0, 4, 6], [0, 6, 2], [1, 3, 7], [1, 7, 5]]


def _cyc(v, k):
    """cyclic permutation of the axes (keeps orientation)"""
    k %= 3
    return [v[(0 - k) % 3], v[(1 - k) % 3], v[(2 - k) % 3]]


def _mesh(rnd):
    kind = rnd.choice(('box', 'box', 'wedge', 'tetra', 'field'))
    off = [rnd.randint(0, 2) for _ in range(3)]
    k = rnd.randint(0, 2)
    if kind == 'box':
        a, b, c = (rnd.randint(1, 4) for _ in range(3))
        vp = [[(j % 2) * a, ((j // 2) % 2) * b, (j // 4) * c] for j in range(8)]
        fs = BOXF
    elif kind == 'wedge':
        (x, y) = rnd.choice(((4, 3), (3, 4)))
        l = rnd.randint(1, 3)
        vp = [[0, 0, 0], [x, 0, 0], [x, y, 0], [0, 0, l], [x, 0, l], [x, y, l]]
        fs = [[0, 2, 1], [3, 4, 5], [0, 1, 4], [0, 4, 3], [1, 2, 5], [1, 5, 4], [2, 0, 3], [2, 3, 5]]
    elif kind == 'tetra':
        a, b, c = (rnd.randint(1, 4) for _ in range(3))
        vp = [[0, 0, 0], [a, 0, 0], [0, b, 0], [0, 0, c]]
        fs = [[0, 2, 1], [0, 1, 3], [0, 3, 2], [1, 2, 3]]
    else:
        # open height field on a 3x3 grid, heights 0..1, each cell split along a random diagonal
        h = [[rnd.randint(0, 1) for _ in range(3)] for _ in range(3)]
        vp = [[2 * i, 2 * j, h[i][j]] for i in range(3) for j in range(3)]
        fs = []
        for i in range(2):
            for j in range(2):
                p00, p10, p01, p11 = 3 * i + j, 3 * (i + 1) + j, 3 * i + j + 1, 3 * (i + 1) + j + 1
                if rnd.random() < 0.5:
                    fs += [[p00, p10, p11], [p00, p11, p01]]
                else:
                    fs += [[p00, p10, p01], [p10, p11, p01]]
    vp = [[a + b for a, b in zip(_cyc(v, k), off)] for v in vp]
    return vp, [list(f) for f in fs]


def gen_c16_mdev(rnd, tier):
    n = 12 if tier == 'quick' else 120
    out = []
    for _ in range(n):
        vp, fs = _mesh(rnd)
        lo = [2 * (min(v[a] for v in vp) - 1) for a in range(3)]
        hi = [2 * (max(v[a] for v in vp) + 1) for a in range(3)]
        sc = rnd.choice(SCALES)
        for _col in range(6):
            qs = [[rnd.randint(lo[a], hi[a]) for a in range(3)] for _ in range(8)]
            # points exactly over vertices / edge lines of the mesh
            v = rnd.choice(vp)
            qs += [[2 * v[0] + d[0], 2 * v[1] + d[1], 2 * v[2] + d[2]] for d in ((2, 0, 0), (0, -2, 0), (0, 0, 2), (-1, -1, 0), (1, 0, 1), (0, 0, -1))]
            out.append({'m': 'metro', 'op': 'mdev', 'vp': vp, 'fs': fs, 'sc': sc, 'qs': qs})
    return out


# ---------------------------------------------------------------- histories (behaviours start with a reset record)
def gen_c16_devset(rnd, tier):
    nb, steps = (6, 60) if tier == 'quick' else (40, 200)
    out = []
    for _ in range(nb):
        sc = rnd.choice(SCALES)
        span = rnd.choice((1, 3, 50))
        out.append({'op': 'reset'})
        if rnd.random() < 0.5:
            out.append({'m': 'metro', 'op': 'ddefault', 'sc': sc})
        else:
            out.append({'m': 'metro', 'op': 'dnew', 'sc': sc, 'vs': [rnd.randint(-span, span) for _ in range(rnd.randint(0, 10))]})
        for _s in range(steps):
            out.append({'m': 'metro', 'op': 'dpush', 'sc': sc, 'x': rnd.randint(-span, span), 'pn': rnd.random() < 0.5})
    return out


AXES = [[1, 0, 0], [0, 1, 0], [0, 0, 1], [-1, 0, 0], [0, -1, 0], [0, 0, -1]]


def gen_c16_cloud(rnd, tier):
    """random interleavings; the generator only tracks presence flags and the length so that index
    selections stay in range (the judge recomputes everything from the specification's own transition)"""
    nb, steps = (6, 60) if tier == 'quick' else (30, 200)
    out = []

    def pt():
        return [rnd.randint(-20, 20) for _ in range(3)]

    def col():
        return [rnd.randint(0, 255) for _ in range(3)]

    for _ in range(nb):
        out.append({'op': 'reset'})
        hn, hc = rnd.random() < 0.5, rnd.random() < 0.5
        via = rnd.choice(('try_new', 'try_new', 'empty', 'from_p', 'from_pn', 'from_sp'))
        np_ = rnd.randint(0, 4)
        if via == 'empty':
            out.append({'m': 'metro', 'op': 'pempty', 'hn': hn, 'hc': hc})
            n = 0
        else:
            if via == 'from_p':
                hn, hc = False, False
            elif via in ('from_pn', 'from_sp'):
                hn, hc = True, False
            # now and then a parallel array of the wrong length: the constructor must refuse (behaviour ends there)
            dn = 1 if hn and via in ('try_new', 'from_pn') and rnd.random() < 0.2 else 0
            dc = 1 if hc and via == 'try_new' and rnd.random() < 0.2 else 0
            out.append({'m': 'metro', 'op': 'pnew', 'via': via, 'p': [pt() for _ in range(np_)], 'hn': hn,
                        'n': [rnd.choice(AXES) for _ in range(np_ + dn if hn else 0)], 'hc': hc,
                        'c': [col() for _ in range(np_ + dc if hc else 0)]})
            if dn or dc:
                continue
            n = np_
        for _s in range(steps):
            u = rnd.random()
            if u < 0.35:
                a = hn if rnd.random() < 0.8 else not hn
                b = hc if rnd.random() < 0.8 else not hc
                out.append({'m': 'metro', 'op': 'pappend', 'p': pt(), 'hn': a, 'n': rnd.choice(AXES), 'hc': b, 'c': col()})
                if a == hn and b == hc:
                    n += 1
            elif u < 0.6:
                a = hn if rnd.random() < 0.8 else not hn
                b = hc if rnd.random() < 0.8 else not hc
                m = rnd.randint(0, 3)
                out.append({'m': 'metro', 'op': 'pmerge', 'p': [pt() for _ in range(m)], 'hn': a, 'n': [rnd.choice(AXES) for _ in range(m if a else 0)],
                            'hc': b, 'c': [col() for _ in range(m if b else 0)]})
                if a == hn and b == hc:
                    n += m
            elif u < 0.8:
                m = 0 if n == 0 else rnd.randint(0, min(n + 2, 12))
                idx = [rnd.randint(0, n - 1) for _ in range(m)]
                out.append({'m': 'metro', 'op': 'pselect', 'idx': idx})
                n = len(idx)
            else:
                out.append({'m': 'metro', 'op': 'ptransform', 'k': rnd.randint(0, 3), 't': [rnd.randint(-5, 5) for _ in range(3)]})
    return out
