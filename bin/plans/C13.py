"""C13: plan entry, claim text (MANIFEST) and seeded generators."""

PLAN_ENTRY = {'stages': [
    {'name': 'section',
     'mc': [{'module': 'MC_C13', 'cfg': {'quick': 'MC_C13_quick.cfg', 'thorough': 'MC_C13_thorough.cfg'}, 'workers': 4}],
     'gens': ['gen_c13_random', 'gen_c13_special'],
     'trace': 'Trace_Section'}],
    'assumptions': [
        'TLC evaluates the exact crossing points / face segments of Section.tla correctly',
        'planes have integer normals and offsets that miss every vertex by >= 1/8 (no vertex on the plane); the through-vertex class is not judged',
        'every section/split runs in a child process with 4 s / 2 GB limits; exceeding them counts as non-termination',
        'areas are summed by the harness from the triangles of the returned meshes (derived observation)',
    ]}

CLAIM = {
    'text': 'TLC enumerates watertight lattice solids (box, tetrahedron, octagonal prism, L-shaped prism, two disjoint boxes) and open meshes (quad, open tube) x planes with 5/7 integer normals x offsets below, inside (3) and above the solid that miss every vertex x exact rigid motions applied to mesh and plane together; it model-checks that no vertex is on the plane, that each crossed face has exactly two crossed edges, and that the L2 transcription of chained_indices applied to the oriented face segments of a watertight consistently wound mesh yields exactly closed chains using every segment once. Every case runs Mesh::section / Mesh::split in a limited child process and TLC judges: every curve vertex is the exact rational crossing point of a crossed edge (hence on plane and surface, also after the motion), consecutive vertices are joined across one face, every face segment is used exactly once, all curves are closed for watertight input, one loop for convex solids; split reports Negative/Positive/Pair exactly by the vertex sides, the parts lie on their own sides and their areas add up. Seeded random boxes/prisms with random planes and motions extend the set. An 80-sided prism cut with a caller\'s curve tolerance of 1.25..4 units is judged by TolLoopOK: one curve through exact crossing points in loop order, every crossing point left out within the tolerance of the vertex kept before it, closing up to the tolerance. Scenes carried 2^20 lattice units from the origin (also at scale 2^-10) are included, and the length a curve reports is judged against the polygon through its reported vertices (relative residual).',
    'design_ref': 'DESIGN.md section 6 C13',
    'note': 'Trusted: TLC, harness projection (2^-12 unit), nalgebra for un-moving split parts. Known finding F21 (parry3d hang on open meshes whose boundary meets the plane) is reported as KNOWN-FINDING by its exact structural signature.',
    'technique': 'TLA+ spec (L1 semantics, L2 chain transcription) + TLC: bounded model checking, TLC-generated cases replayed into engeom, TLC trace validation of recorded observations',
}

BOXF = [[4, 7, 5], [4, 6, 7], [0, 2, 4], [2, 6, 4], [0, 1, 2], [1, 3, 2], [1, 5, 7], [1, 7, 3], [2, 3, 7], [2, 7, 6], [0, 4, 1], [1, 4, 5]]
PYTH = [(1, 0, 1), (0, 1, 1), (3, 4, 5), (-4, 3, 5), (-1, 0, 1), (4, 3, 5)]


def _mm(A, B):
    return [[sum(A[i][k] * B[k][j] for k in range(3)) for j in range(3)] for i in range(3)]


def gen_c13_random(rnd, tier):
    n = 40 if tier == 'quick' else 800
    out = []
    for _ in range(n):
        w, h, d = rnd.randint(1, 4), rnd.randint(1, 4), rnd.randint(1, 4)
        vpos = [[0, 0, 0], [w, 0, 0], [0, 0, d], [w, 0, d], [0, h, 0], [w, h, 0], [0, h, d], [w, h, d]]
        nrm = [rnd.randint(-3, 3) for _k in range(3)]
        if nrm == [0, 0, 0]:
            nrm = [1, 2, -2]
        if rnd.random() < 0.25:
            nrm = [0, 0, 0]
            nrm[rnd.randint(0, 2)] = rnd.choice((-1, 1, -2))        # exactly along a coordinate axis, either sense
        pr = [8 * sum(a * b for a, b in zip(nrm, v)) for v in vpos]
        dn = rnd.randint(min(pr) - 4, max(pr) + 4)
        if dn % 2 == 0:
            dn += 1
        a, b = rnd.choice(PYTH), rnd.choice(PYTH[:4])
        M = _mm([[a[0], -a[1], 0], [a[1], a[0], 0], [0, 0, a[2]]], [[b[2], 0, 0], [0, b[0], -b[1]], [0, b[1], b[0]]])
        T = {'M': M, 'H': a[2] * b[2], 't': [rnd.randint(-20, 20) for _k in range(3)]}
        op = rnd.choice(('section', 'split'))
        out.append({'m': 'section', 'op': op, 'wd': 4000, 'name': 'rbox', 'vpos': vpos, 'faces': BOXF,
                    'convex': True, 'n': nrm, 'dn': dn, 'dd': 8, 'T': T, 'sc': rnd.choice((0, 0, -10, -7, 3)), 'solid': rnd.choice((0, 0, 1, 2)) if op == 'split' else rnd.choice((0, 1)),      # (a hull is re-triangulated: only the split clauses apply to it)
                    'far': rnd.choice(([0, 0, 0], [0, 0, 0], [100000, -30000, 70000], [1 << 20, 1 << 19, -(1 << 20)]))})
    return out


IDENT = {'M': [[1, 0, 0], [0, 1, 0], [0, 0, 1]], 'H': 1, 't': [0, 0, 0]}


def _box(x0, y0, w, h, d, base):
    v = [[x0, y0, 0], [x0 + w, y0, 0], [x0, y0, d], [x0 + w, y0, d], [x0, y0 + h, 0], [x0 + w, y0 + h, 0], [x0, y0 + h, d], [x0 + w, y0 + h, d]]
    return v, [[a + base, b + base, c + base] for a, b, c in BOXF]


def gen_c13_special(rnd, tier):
    """(1) a convex prism with 80 sides cut across its axis: one closed loop of 160 segments (more than any small-input code path
    handles); (2) a flat 8 x 8 x 2 box and a 1 x 1 x 2 column cut by one plane with a curve tolerance of 1.5 units: the loop
    around the column collapses to one point and may be left out, the loop around the box must come back intact"""
    import math
    out = []
    vecs = sorted({(a, b) for a in range(-5, 6) for b in range(-5, 6) if (a or b) and math.gcd(abs(a), abs(b)) == 1},
                  key=lambda v: math.atan2(v[1], v[0]))
    ring = [[0, 0]]
    for a, b in vecs[:-1]:
        ring.append([ring[-1][0] + a, ring[-1][1] + b])
    mx, my = min(p[0] for p in ring), min(p[1] for p in ring)
    ring = [[p[0] - mx, p[1] - my] for p in ring]
    n = len(ring)
    vpos = [[p[0], p[1], 0] for p in ring] + [[p[0], p[1], 2] for p in ring]
    faces = []
    for i in range(n):
        j = (i + 1) % n
        faces += [[i, j, n + j], [i, n + j, n + i]]              # sides, outward for a counter-clockwise ring
    for i in range(1, n - 1):
        faces += [[0, i + 1, i], [n, n + i, n + i + 1]]          # bottom (normal -z) and top (normal +z) fans
    for dn in ((9, 3) if tier == 'quick' else (1, 3, 9, 13, 15)):
        out.append({'m': 'section', 'op': 'section', 'wd': 8000, 'name': 'prism80', 'vpos': vpos, 'faces': faces, 'convex': True,
                    'n': [0, 0, 1], 'dn': dn, 'dd': 8, 'T': IDENT})
    # the same prism with a curve tolerance of 1.5 .. 4 units: runs of short sides merge, the loop must stay within the tolerance
    for dn, st in (((9, 40), (3, 24), (13, 56)) if tier == 'quick' else [(d, t) for d in (1, 3, 9, 13, 15) for t in (20, 24, 40, 56, 64)]):
        out.append({'m': 'section', 'op': 'section', 'wd': 8000, 'name': 'prism80_tol', 'vpos': vpos, 'faces': faces, 'convex': True,
                    'n': [0, 0, 1], 'dn': dn, 'dd': 8, 'T': IDENT, 'stol16': st, 'tolloop': 1})
    for k in range(2 if tier == 'quick' else 12):
        va, fa = _box(0, 0, 8, 8, 2, 0)
        vb, fb = _box(12 + rnd.randint(0, 3), rnd.randint(0, 5), 1, 1, 2, 8)
        out.append({'m': 'section', 'op': 'section', 'wd': 4000, 'name': 'box_and_column', 'vpos': va + vb, 'faces': fa + fb, 'convex': False,
                    'n': [0, 0, 1], 'dn': rnd.choice((9, 7)), 'dd': 8, 'T': IDENT, 'stol16': 24, 'keep': 12})
    return out
