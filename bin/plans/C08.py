"""C08: plan entry, claim text (MANIFEST) and seeded generators."""
from fractions import Fraction
from math import floor

PLAN_ENTRY = {'stages': [
    {'name': 'history', 'stateful': True,
     'mc': [{'module': 'MC_C08', 'cfg': {'quick': 'MC_C08_quick.cfg', 'thorough': 'MC_C08_thorough.cfg'}, 'workers': 4}],
     'gens': ['gen_c08_histories'],
     'trace': 'Trace_RcParams'},
    {'name': 'poses', 'stateful': True,
     'mc': [{'module': 'MC_C08b', 'cfg': {'quick': 'MC_C08b_quick.cfg', 'thorough': 'MC_C08b_thorough.cfg'}, 'workers': 4}],
     'gens': ['gen_c08_multi', 'gen_c08_float'],
     'trace': 'Trace_RcParams'}],
    'assumptions': [
        'TLC evaluates the exact rational operators of RcParams.tla correctly (integer matrices over a common denominator, rational points in lowest terms)',
        'harness projection: points and Jacobian entries to 2^-17, matrix entries / cos / sin to 2^-20; tolerance 2 quanta on exact values',
        'central finite differences (step 1e-6) are taken by the harness through the library\'s own clone / set() / transform(); '
        'an analytic entry must agree with them to 1.2e-4 absolute (entries reach a few thousand when the centre is 1e3 away)',
        'for general-position float poses the expected transform is composed by nalgebra from per-axis rotations (trusted matrix product); '
        'residual bound 2e-6 on probes within ~20 units of the centre',
        'the reference-side Jacobian is judged only for test points on the normal line of the reference point (its documented assumption); '
        'point-to-plane rows only off the plane, point-to-point rows only for distinct points',
        'after from_initial the Euler representative of the rotation is free: d.y / rd.y and Jacobian column 4 are then judged through the finite '
        'difference only, d.x, d.z, rd.x, rd.z (which do not depend on the representative) exactly',
    ]}

CLAIM = {
    'text': 'Two TLA+ machines over the exact rational pose family (rotations by quarter turns and Pythagorean angles; 3D rotations are Euler '
            'triples Rx Ry Rz or Rz Ry Rx with at most one non-quarter angle, so pitch = +-90 degrees is hit exactly with every roll / yaw '
            'combination; rotation centres up to 1000 from the origin). MC_C08 is a history machine - from_initial, then 2 (quick) or 3 '
            '(thorough) successive set() calls that are pure translations, pure rotations or mixed - carrying the fields as the code composes '
            'them (conjugation by translations to the centre in 2D, shift0 / shift1 in 3D, inverse, moved centre) next to the closed form '
            'transform(P) = crc + R (P - rc); TLC checks in every reachable state that transform equals the initial isometry after '
            'from_initial, that inverse o transform = id, that the moved centre is transform(rc), that a pure-translation step translates every '
            'probe by that vector wherever the centre is, and that the Jacobian rotation entries (generator applied to the moved point) equal '
            'the true derivative matrix applied to the unmoved point. MC_C08b sweeps the whole pose family and checks that the derivative '
            'matrices as coded (P_X R, R Rz^T P_Y Rz, R P_Z) are the true partial derivatives of Rx Ry Rz, that their generators are skew, '
            'and that the Euler extraction of to_wpr (both gimbal branches and the asin branch) followed by from_euler reproduces the rotation. '
            'Every enumerated history / pose is executed by the real library (RcParams2, RcParams3, ParamHandler, iso2/3_from_param, '
            'param_from_iso2/3, RotationMatrices::from_rotation / from_euler, point_surface_jacobian through a cfg-guarded re-export, '
            'point_plane_jacobian, point_plane_jacobian_rev, point_point_jacobian) and TLC judges every recorded step against the exact '
            'rational values: probe images, inverse images, moved centre, rotation, parameters, all three d and rd matrices, every Jacobian '
            'entry for every parameter index; each analytic row and each d matrix is additionally compared with a central finite difference '
            'taken through the library\'s own set()/transform(). The multi-body ParamHandler is judged for every choice of the static body '
            '(initial transforms reproduced, block layout, relative transforms, Jacobian columns). Seeded generators add random exact histories '
            '(Pythagorean denominators up to 29, centres and translations up to 1000, three updates), random multi-body cases and '
            'general-position float poses including pitch at distance 0, 1e-12 ... 1e-3 from +-90 degrees in both composition orders, judged '
            'through matrix round trips, the closed form composed by nalgebra and finite differences.',
    'design_ref': 'DESIGN.md section 6 C08',
    'note': 'Trusted: TLC, the harness projection, nalgebra products for the float class, finite differences with step 1e-6. Exhaustive only '
            'over the bounded rational family; arbitrary angles are sampled. The reference-side Jacobian is only judged under its on-normal '
            'assumption. The Euler angles themselves are never compared (not unique), only the matrices they produce. LM convergence is C07.',
    'technique': 'TLA+ spec (L1 semantics + L2 transcription of compute / derivative matrices / Euler extraction) + TLC: bounded model checking, '
                 'TLC-generated histories replayed into engeom, TLC trace validation of recorded observations',
}

# ---------------------------------------------------------------- exact helpers (inputs only: nothing here judges)
Q4 = [(1, 0, 1), (0, 1, 1), (-1, 0, 1), (0, -1, 1)]
P5 = [(3, 4, 5), (4, 3, 5), (-3, 4, 5), (-4, 3, 5), (3, -4, 5), (4, -3, 5), (-3, -4, 5), (-4, -3, 5)]
BIG2 = [(5, 12, 13), (-12, 5, 13), (-5, -12, 13), (12, -5, 13), (8, 15, 17), (-15, 8, 17), (15, -8, 17), (7, 24, 25), (-24, -7, 25),
        (20, 21, 29), (-21, 20, 29), (21, -20, 29)]
N3 = [(1, 2, 2, 3), (2, 3, 6, 7), (0, 3, 4, 5), (1, 0, 0, 1), (-2, 1, 2, 3), (4, -4, 7, 9), (-6, 2, 3, 7), (0, 0, -1, 1), (2, -6, 9, 11)]
N2 = [(3, 4, 5), (0, -1, 1), (-5, 12, 13), (1, 0, 1), (8, -15, 17), (-4, 3, 5)]


def _mm(A, B):
    return [[sum(A[i][k] * B[k][j] for k in range(3)) for j in range(3)] for i in range(3)]


def _rx(a):
    c, s, h = a
    return [[h, 0, 0], [0, c, -s], [0, s, c]]


def _ry(a):
    c, s, h = a
    return [[c, 0, s], [0, h, 0], [-s, 0, c]]


def _rz(a):
    c, s, h = a
    return [[c, -s, 0], [s, c, 0], [0, 0, h]]


def _euler(rnd):
    """Euler triple with at most one non-quarter angle; pitch +-90 in about a third of the draws"""
    e = [rnd.choice(Q4) for _ in range(3)]
    if rnd.random() < 0.35:
        e[1] = rnd.choice([(0, 1, 1), (0, -1, 1)])
    if rnd.random() < 0.85:
        k = rnd.randrange(3)
        if not (k == 1 and e[1][0] == 0 and rnd.random() < 0.7):
            e[k] = rnd.choice(P5)
    return [list(a) for a in e]


def _pose3(rnd):
    e = _euler(rnd)
    h = e[0][2] * e[1][2] * e[2][2]
    if rnd.random() < 0.5:
        m = _mm(_mm(_rx(e[0]), _ry(e[1])), _rz(e[2]))
    else:
        m = _mm(_mm(_rz(e[2]), _ry(e[1])), _rx(e[0]))
    return {'M': m, 'H': h}


def _floor_pt(m, h, rc, t):
    """integer point just below the moved centre (M rc)/h + t"""
    return [floor(Fraction(sum(m[i][k] * rc[k] for k in range(3)), h)) + t[i] for i in range(3)]


def _jac3(rnd, base):
    out = []
    for kind in ('pp', 'pp', 'rev', 'rev', 'pt'):
        n = list(rnd.choice(N3))
        nh = n.pop()
        sg = rnd.choice((-1, 1))
        n = [sg * v for v in n]
        far = rnd.random() < 0.15
        c = [b + (rnd.randint(-900, 900) if far else rnd.randint(-9, 9)) for b in base]
        if kind == 'pp':
            while True:
                w = [rnd.randint(-6, 6) for _ in range(3)]
                if sum(a * b for a, b in zip(n, w)) != 0:
                    break
            p = [a + b for a, b in zip(c, w)]
        elif kind == 'rev':
            m = rnd.choice((-3, -2, -1, 1, 2, 3))
            p = [a + m * b for a, b in zip(c, n)]
        else:
            # point-to-point: |T p0 - c| is strongly curved when the points are close together and far from the centre
            # (third derivative ~ |v|^3 / |p - c|^2), which a central difference with step 1e-6 cannot resolve to 1e-4;
            # far points are therefore kept well apart (the exact rational clause does not need this, the derived one does)
            m = rnd.randint(40, 120) if far else rnd.choice((1, 2, 3))
            p = [a + m * b for a, b in zip(c, n)]
        out.append({'k': kind, 'p': p, 'c': c, 'n': n, 'nh': nh})
    return out


def _jac2(rnd, base):
    out = []
    for _ in range(3):
        n = list(rnd.choice(N2))
        nh = n.pop()
        sg = rnd.choice((-1, 1))
        far = rnd.random() < 0.15
        p = [base[0] + (rnd.randint(-900, 900) if far else rnd.randint(-9, 9)), base[1] + rnd.randint(-9, 9), 0]
        c = [p[0] + rnd.randint(-5, 5), p[1] + rnd.randint(-5, 5), 0]
        out.append({'k': 'ps', 'p': p, 'c': c, 'n': [sg * n[0], sg * n[1], 0], 'nh': nh})
    return out


def gen_c08_histories(rnd, tier):
    """random exact histories: from_initial + three set() calls, centres / translations up to 1000"""
    n = 200 if tier == 'quick' else 3000
    out = []
    for _ in range(n):
        out.append({'op': 'reset'})
        if rnd.random() < 0.45:
            angs = Q4 + P5 + BIG2
            a = rnd.choice(angs)
            t = [rnd.randint(-1000, 1000), rnd.randint(-1000, 1000), 0]
            rc = [rnd.randint(-1000, 1000), rnd.randint(-1000, 1000), 0]
            pr = [[0, 0, 0], [rnd.randint(-20, 20), rnd.randint(-20, 20), 0], [rc[0] + rnd.randint(-9, 9), rc[1] + rnd.randint(-9, 9), 0],
                  [rc[0] + rnd.randint(-30, 30), rc[1] + rnd.randint(-30, 30), 0]]
            c, s, h = a
            m = [[c, -s, 0], [s, c, 0], [0, 0, h]]
            crc_t = list(t)
            out.append({'m': 'rcp', 'op': 'init2', 'a': list(a), 't': t, 'rc': rc, 'pr': pr, 'jac': _jac2(rnd, _floor_pt(m, h, rc, crc_t))})
            for _k in range(3):
                kind = rnd.choice(('trans', 'rot', 'mixed', 'mixed'))
                dt = [0, 0, 0] if kind == 'rot' else [rnd.randint(-300, 300), rnd.randint(-300, 300), 0]
                rot = kind != 'trans'
                crc_t = [x + y for x, y in zip(crc_t, dt)]
                out.append({'m': 'rcp', 'op': 'set2', 'dt': dt, 'rot': rot, 'a': list(rnd.choice(angs)), 'pr': pr,
                            'jac': _jac2(rnd, _floor_pt(m, h, rc, crc_t))})
        else:
            R = _pose3(rnd)
            t = [rnd.randint(-1000, 1000) for _k in range(3)]
            rc = [rnd.randint(-1000, 1000) for _k in range(3)]
            pr = [[0, 0, 0], [rnd.randint(-20, 20) for _k in range(3)], [v + rnd.randint(-9, 9) for v in rc], [v + rnd.randint(-30, 30) for v in rc]]
            crc_t = list(t)
            out.append({'m': 'rcp', 'op': 'init3', 'R': R, 't': t, 'rc': rc, 'pr': pr, 'jac': _jac3(rnd, _floor_pt(R['M'], R['H'], rc, crc_t))})
            for _k in range(3):
                kind = rnd.choice(('trans', 'rot', 'mixed', 'mixed'))
                dt = [0, 0, 0] if kind == 'rot' else [rnd.randint(-300, 300) for _j in range(3)]
                rot = kind != 'trans'
                crc_t = [x + y for x, y in zip(crc_t, dt)]
                out.append({'m': 'rcp', 'op': 'set3', 'dt': dt, 'rot': rot, 'e': _euler(rnd), 'pr': pr,
                            'jac': _jac3(rnd, _floor_pt(R['M'], R['H'], rc, crc_t))})
    return out


def gen_c08_multi(rnd, tier):
    """random multi-body handler cases: 2..4 bodies, any static index, up to two parameter updates"""
    n = 30 if tier == 'quick' else 300
    out = []
    for _ in range(n):
        nb = rnd.randint(2, 4)
        noinit = rnd.random() < 0.15
        bodies = []
        for _b in range(nb):
            R = {'M': [[1, 0, 0], [0, 1, 0], [0, 0, 1]], 'H': 1} if noinit else _pose3(rnd)
            t = [0, 0, 0] if noinit else [rnd.randint(-300, 300) for _k in range(3)]
            bodies.append({'R': R, 't': t, 'rc': [rnd.randint(-1000, 1000) for _k in range(3)]})
        sets = []
        for _s in range(rnd.randint(0, 2)):
            per = []
            for _b in range(nb):
                kind = rnd.choice(('trans', 'rot', 'mixed'))
                per.append({'dt': [0, 0, 0] if kind == 'rot' else [rnd.randint(-50, 50) for _k in range(3)], 'rot': kind != 'trans', 'e': _euler(rnd)})
            sets.append(per)
        out.append({'op': 'reset'})     # (stateless; the reset only keeps replay files to a single record)
        out.append({'m': 'rcp', 'op': 'multi', 'static': rnd.randrange(nb), 'noinit': noinit, 'bodies': bodies, 'sets': sets,
                    'pr': [[0, 0, 0], [1, 2, 3], [rnd.randint(-20, 20) for _k in range(3)]]})
    return out


def gen_c08_float(rnd, tier):
    """general-position float poses (angles in micro-radians, lengths in 1/1000 unit) and the near-gimbal class:
    pitch = +-(pi/2 - delta), delta from {0, 1e-12, 1e-10, 1e-9, 1e-8, ..., 1e-3} (index gd), both composition orders"""
    n = 500 if tier == 'quick' else 6000
    out = []
    PI6 = 3141592
    for k in range(n):
        big = rnd.random() < 0.5
        lim = 1000000 if big else 20000
        if rnd.random() < 0.2:
            out.append({'op': 'reset'})
            out.append({'m': 'rcp', 'op': 'float2', 'ang': rnd.randint(-PI6, PI6), 't': [rnd.randint(-20000, 20000) for _k in range(2)],
                        'rc': [rnd.randint(-lim, lim) for _k in range(2)],
                        'pr': [[rnd.randint(-10000, 10000) for _k in range(2)] for _j in range(3)],
                        'sets': [{'dt': [rnd.randint(-5000, 5000) for _k in range(2)], 'da': 0 if rnd.random() < 0.4 else rnd.randint(-PI6, PI6)} for _j in range(2)],
                        'jac': [{'p': [rnd.randint(-10000, 10000) for _k in range(2)], 'c': [rnd.randint(-3000, 3000) for _k in range(2)],
                                 'n': [rnd.randint(1, 9) * rnd.choice((-1, 1)), rnd.randint(-9, 9)]} for _j in range(2)]})
            continue
        gim = 0
        gd = 0
        if k % 2 == 0:
            gim = rnd.choice((-1, 1))
            gd = (k // 2) % 10
        jac = []
        for kind in ('pp', 'rev', 'pt'):
            nn = [rnd.randint(-9, 9) for _k in range(3)]
            if nn == [0, 0, 0]:
                nn = [1, 0, 0]
            off = rnd.randint(300, 6000) * rnd.choice((-1, 1))
            if kind == 'pt':
                off = abs(off)
            jac.append({'k': kind, 'p': [rnd.randint(-10000, 10000) for _k in range(3)], 'n': nn, 'off': off})
        sets = []
        for _j in range(2):
            pure = rnd.random() < 0.4
            sets.append({'dt': [rnd.randint(-5000, 5000) for _k in range(3)], 'da': [0, 0, 0] if pure else [rnd.randint(-PI6, PI6) for _k in range(3)]})
        out.append({'op': 'reset'})
        out.append({'m': 'rcp', 'op': 'float3', 'ord': rnd.choice(('xyz', 'zyx')), 'ang': [rnd.randint(-PI6, PI6) for _k in range(3)],
                    'gim': gim, 'gd': gd, 't': [rnd.randint(-20000, 20000) for _k in range(3)], 'rc': [rnd.randint(-lim, lim) for _k in range(3)],
                    'pr': [[rnd.randint(-10000, 10000) for _k in range(3)] for _j in range(3)], 'sets': sets, 'jac': jac})
    return out
