"""C02: plan entry, claim text (MANIFEST) and seeded generators."""
import gens

PLAN_ENTRY = {'stages': [
    {'name': 'closest',
     'mc': [{'module': 'MC_C02', 'cfg': {'quick': 'MC_C02_quick.cfg', 'thorough': 'MC_C02_thorough.cfg'}, 'workers': 4}],
     'gens': ['gen_c02_random', 'gen_c02_closed_seams'],
     'trace': 'Trace_Closest'}],
    'assumptions': [
        'TLC evaluates the exact rational distance operators of Closest.tla correctly (continued-fraction comparison, no overflow)',
        'harness projection: points to 2^-11 of a half lattice unit, fractions/barycentrics to 2^-12, squared distances to 1/64',
        'the solid flag is not exercised (it has no effect without pseudo-normals); angle filter judged only where the nearest faces share one normal and the offset is longer than ~0.4 units, with a +-20% band around cos^2',
    ]}

CLAIM = {
    'text': 'TLC enumerates curated 2D/3D lattice polylines (open, closed, self-crossing, doubling back, nested U shapes) and small lattice meshes (tetrahedron, box, quad, folded sheet, fan) against every point of a half-lattice window around them (on the entity, equidistant from several elements, outside, inside), model-checks that the exact minimum-distance operator is a lower bound that is attained and that no vertex or edge is nearer, and TLC then judges every observation of at_closest_to_point / dist_to_point / surf_closest_to / point_closest_to / project_with_max_dist / project_with_tol / indices_in_tol: the named edge or face belongs to the exact arg-min set, index+fraction (face id + barycentric location) reproduce the point, the distance is the exact minimum, the normal is that of a nearest face, capped queries return a result exactly when the exact distance is below the cap (free at equality), the angle filter (with and without a rigid transform argument) accepts/rejects by the exact normal, indices_in_tol equals the filter. Seeded random 20-300-edge polylines and height-field meshes (up to ~400 faces) reach deeper bounding-volume trees; the judge scans all elements exactly.',
    'design_ref': 'DESIGN.md section 6 C02',
    'note': 'Trusted: TLC; harness projection. General-position float inputs are not used (lattice and half-lattice only); BVH pruning is exercised through the random larger instances.',
    'technique': 'TLA+ spec (L1 semantics) + TLC: bounded model checking, TLC-generated cases replayed into engeom, TLC trace validation of recorded observations',
}


def gen_c02_random(rnd, tier):
    out = []
    ncurves = 3 if tier == 'quick' else 40
    for _ in range(ncurves):
        dim = rnd.choice((2, 3))
        nv = rnd.randint(20, 120 if tier == 'quick' else 300)
        pts = None
        for _t in range(20):
            try:
                pts = gens.lattice_curve(rnd, nv, 14, dim)
                break
            except RuntimeError:
                continue
        if pts is None:
            continue
        # keep edges short (<= 5) so that exact rationals stay small: lattice_curve uses moves up to 13 -> filter
        if any(gens._ilen(a, b) > 5 for a, b in zip(pts, pts[1:])):
            pts = [p for p in pts]
            ok = [pts[0]]
            for p in pts[1:]:
                if gens._ilen(ok[-1], p) in (1, 2, 3, 4, 5):
                    ok.append(p)
            pts = ok
            if len(pts) < 5:
                continue
        qs = []
        for _q in range(40 if tier == 'quick' else 120):
            q = [rnd.randint(-4, 32), rnd.randint(-4, 32), rnd.randint(-4, 32)]
            if dim == 2:
                q[2] = 0
            else:
                # points live in a coordinate plane lifted to 3D; keep the query near it
                pass
            qs.append(q)
        fc = dim == 2 and rnd.random() < 0.4 and pts[0] != pts[-1]
        if fc:
            # closed: queries on the seam vertex and in the wedge outside it
            qs += [[2 * pts[0][0], 2 * pts[0][1], 0], [2 * pts[0][0] - 1, 2 * pts[0][1] - 1, 0], [2 * pts[0][0] + 1, 2 * pts[0][1] - 2, 0]]
        out.append({'m': 'closest', 'op': 'curve', 'dim': dim, 'pts': pts, 'fc': fc, 'sc': rnd.choice((0, -3, 4)), 'tolU': 0, 'tf': rnd.choice((0, 0, 1, 2)), 'qs': qs})
    nmesh = 1 if tier == 'quick' else 12
    for _ in range(nmesh):
        w = rnd.randint(4, 6 if tier == 'quick' else 14)
        h = rnd.randint(4, 6 if tier == 'quick' else 14)
        vpos = [[x, y, rnd.randint(0, 2)] for y in range(h + 1) for x in range(w + 1)]
        vid = lambda x, y: y * (w + 1) + x
        faces = []
        for y in range(h):
            for x in range(w):
                a, b, c, d = vid(x, y), vid(x + 1, y), vid(x + 1, y + 1), vid(x, y + 1)
                if rnd.random() < 0.5:
                    faces += [[a, b, c], [a, c, d]]
                else:
                    faces += [[a, b, d], [b, c, d]]
        qs = [[rnd.randint(-3, 2 * w + 3), rnd.randint(-3, 2 * h + 3), rnd.randint(-4, 9)] for _q in range(25 if tier == 'quick' else 80)]
        out.append({'m': 'closest', 'op': 'mesh', 'name': 'heightfield', 'vpos': vpos, 'faces': faces, 'sc': rnd.choice((0, 0, -21, 12)), 'tf': rnd.randint(0, 2),
                    'caps': [2, 4, 6, 12], 'angles': [30, 45, 60], 'qs': qs})
    return out


def gen_c02_closed_seams(rnd, tier):
    """closed rectilinear staircase polygons of 6..40 vertices, every choice of seam vertex, queries on the seam vertex and
    around it: which of the two edges meeting at the seam the search tree reports depends on the size and layout of the curve"""
    out = []
    for _ in range(6 if tier == 'quick' else 60):
        k = rnd.randint(1, 9)
        # staircase up and to the right, then back along the axes: 2k+2 .. vertices, all edges of length 1..3
        pts = [[0, 0, 0]]
        for _j in range(k):
            pts.append([pts[-1][0] + rnd.randint(1, 3), pts[-1][1], 0])
            pts.append([pts[-1][0], pts[-1][1] + rnd.randint(1, 3), 0])
        top = pts[-1]
        # walk back in steps of at most 3 so that edge lengths stay in the supported set
        x = top[0]
        while x > 0:
            x = max(0, x - 3); pts.append([x, top[1], 0])
        y = top[1]
        while y > 3:
            y = y - 3; pts.append([0, y, 0])
        n = len(pts)
        for sh in range(0, n, max(1, n // 5)):
            p2 = pts[sh:] + pts[:sh]
            v = p2[0]
            qs = [[2 * v[0] + dx, 2 * v[1] + dy, 0] for dx in (-2, -1, 0, 1, 2) for dy in (-2, -1, 0, 1, 2)]
            out.append({'m': 'closest', 'op': 'curve', 'dim': 2, 'pts': p2, 'fc': True, 'sc': rnd.choice((0, -3, 4)), 'tolU': 0, 'tf': 0, 'qs': qs})
    return out
