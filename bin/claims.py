"""Claim texts live in bin/plans/Cxx.py (CLAIM); this module only carries the shared bits."""
import plan
HOOK_COMMITS = ['1096747', 'da6e0a6']
NOT_CLAIMED = {}
CLAIMS = plan.CLAIMS
