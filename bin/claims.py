"""Claim texts live in bin/plans/Cxx.py (CLAIM); this module only carries the shared bits."""
import plan
HOOK_COMMITS = []
NOT_CLAIMED = {}
CLAIMS = plan.CLAIMS
