"""Per-property claim texts for MANIFEST.json."""
HOOK_COMMITS = []
NOT_CLAIMED = {}
TECH = 'TLA+ spec (L1 semantics) + TLC: bounded model checking, TLC-generated cases replayed into engeom, TLC trace validation of recorded observations'
CLAIMS = {
    'C01': {
        'text': 'TLC enumerates every input vertex sequence of up to 3 points on a 4x4 (quick) / 5x5 (thorough) lattice with integer-length steps, including repeated points and steps merged by a one-unit tolerance, x tolerance kind x force_closed x 2D/3D (three liftings) x power-of-two scales, and for each curve every half-lattice arc length from below 0 to above L plus every vertex length +-1 ulp (as an infinitesimal), the same places by fraction, by iteration and front/back; the laws of the length/position operators are model-checked; every case is run through Curve2/Curve3 and TLC judges vertex list, closedness, cumulative lengths and every station (None exactly outside [0,L]; index+fraction reproduce l; exact rational point; edge direction or the vertex rule; normal) against the L1 operators. Seeded random 4..40-vertex lattice curves with Pythagorean edges extend the instance sizes.',
        'design_ref': 'DESIGN.md section 6 C01',
        'note': 'Trusted: TLC, harness projection (2^-16 unit quantisation, next_up/next_down for the infinitesimals). Edge lengths are integers times 2^k; irrational edge lengths are not in the exact domain. Vertices where adjacent directions cancel are exempt from the direction clause.',
        'technique': TECH,
    },
    'C04': {
        'text': 'A TLA+ history machine (root curve, then between / by-control / split_open / split_closed / trim_front / trim_back / reversed, each applied to the previous result) carries the abstract current curve as a stretch (start, travel, sense) of the root; TLC checks its conservation laws (pieces meet and add up, reversal is an involution, ends stay in range) in every reachable state, enumerates every depth-1 behaviour over all half-lattice parameters (including on vertices, on the seam, same edge, zero travel, reversed on open, out of range by half a unit) for a curated root set (closed square/rectangle/3-4-5 triangle, open L, collinear run, doubling back, self-crossing, seam in mid-edge) and samples depth-5 histories in simulation mode; every behaviour is replayed into Curve2 and TLC judges each step: None exactly for ill-posed requests, otherwise end points, length, closedness and the traced path (vertex list modulo straight-through vertices) against the exact rational stretch; split pieces meet and sum.',
        'design_ref': 'DESIGN.md section 6 C04',
        'note': 'Trusted: TLC, harness projection (1/640 unit quantisation), derived curves closed only by self-touching of an open root are excluded from histories, tolerance tiny so only zero travel exercises the tolerance guard. airfoil helper consumers are not driven here.',
        'technique': TECH,
    },
    'C05': {
        'text': 'TLC enumerates resampling by count (2..6/9), by spacing and by maximum spacing (spacings below, dividing, equal to and above the length) of curated open and closed lattice curves in 2D and 3D at power-of-two scales from 2^-10 to 2^7 (so total lengths from 1e-3 to 1e3), checks the spacing arithmetic laws, and enumerates simplification (tolerances 0, 1/4, 1, 2 units; open and force-closed; collinear runs, doubling back, rings) and gap filling of every 3-point sequence on a 3x3/4x4 lattice plus curated ones; every case runs through the library and TLC judges: each result vertex is the exact rational point at the prescribed arc length (count; centred equal margins; even spacing not above the maximum with a minimal count), success for every length, kept subsequence with both ends and closedness, every discarded vertex within tolerance of the simplified polyline (exact rational point-segment distance), originals kept in order with no gap above the maximum and inserts on their segment. Seeded random (length, count/spacing) pairs up to 64 samples probe rounding of the last position.',
        'design_ref': 'DESIGN.md section 6 C05',
        'note': 'Trusted: TLC, harness projection (2^-14 unit). Coincident consecutive samples on self-touching curves may merge; a single-sample result may be an error. The camber/series consumers are not driven here. Four defects found by this check were repaired (fix: commits, see known_findings.json).',
        'technique': TECH,
    },
    'C12': {
        'text': 'TLC enumerates every ordered list of up to 3 oriented faces over 5 vertices (and up to 4 faces over 4 vertices, which contains the closed tetrahedron) with no edge in more than two faces - vertex-only contacts, flipped faces, several components included - and on each: (MC) the transcription of the boundary walk satisfies the L1 partition of the boundary edges, and the L2 state machine of the patch flood fill, with the seed face drawn by an existential (= every hash iteration order), always terminates within its work bound in the L1 equivalence classes; every face list is then run in a memory- and time-limited child process through calc_edges/get_patches six times (fresh hash seeds) and TLC judges edge table, edge lengths, loops (each boundary edge exactly once as closed walks), patches (exact equivalence classes) and equality of all repetitions as sets. A second instance enumerates index-pair lists (<=3 pairs on 5 labels: exactly-once, contiguity, maximality in the simple case), all voxel subsets of a 3x2x2 block (26-connectivity classes, four hash orders) and box/cylinder sizes (manifold, consistently wound, outward normals). Seeded random triangulated grids with holes, missing and flipped triangles extend sizes.',
        'design_ref': 'DESIGN.md section 6 C12',
        'note': 'Trusted: TLC; hash orders of the real code are sampled (6 repetitions), the model covers all; non-termination is observed as exceeding a 3 s / 2 GB limit on inputs of <= 40 faces. Three defects found here were repaired (fix: commits); the L2 models transcribe the repaired algorithms.',
        'technique': TECH + '; L2 algorithm transcriptions with hash order as existential quantification',
    },
    'C18': {
        'text': 'TLC enumerates every lattice angle k*TAU/16 (|k|<=40/64, each +-1 ulp), every pair for directed angles, all pairs of lattice vectors in [-2,2]^2, every (start, extent) angular interval on Z_16 x -18..18 against 72 test angles, the full intersects table and all scalar intervals over {-inf,-2..2,+inf}; checks the arc/interval algebra laws on the spec; every case is executed by the real library and TLC judges each observation against the L1 set semantics (results free only within ANGLE_TOL of arc ends). Random finite angles up to 1e6 are judged through sin/cos agreement. This is the right level because the property is a finite case analysis around wrap points that the lattice hits exactly.',
        'design_ref': 'DESIGN.md section 6 C18',
        'note': 'Trusted: TLC, the harness projection (quantisation, three-way comparisons with the range bounds), lattice stands for the continuum. Not a proof for all reals.',
        'technique': TECH,
    },
}
