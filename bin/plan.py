"""Which specification modules, bounded instances, generators and judges decide each property."""

def cfgs(q, t):
    return {'quick': q, 'thorough': t}

PLAN = {
    'C18': {
        'stages': [
            {'name': 'angles',
             'mc': [{'module': 'MC_C18', 'cfg': cfgs('MC_C18_quick.cfg', 'MC_C18_thorough.cfg')}],
             'gens': ['gen_angles'],
             'trace': 'Trace_Angles'},
        ],
        'assumptions': [
            'TLC evaluates the L1 operators of Angles.tla correctly',
            'harness projection (quantisation to TAU/2^24, three-way float comparisons against the range bounds) is faithful',
            'lattice angles k*TAU/16 (+-1 ulp) and coded scalar bounds stand for the continuous families; big angles only through sin/cos agreement',
        ],
    },
}
