"""Which specification modules, bounded instances, generators and judges decide each property."""

def cfgs(q, t):
    return {'quick': q, 'thorough': t}

PLAN = {
    'C01': {
        'stages': [
            {'name': 'stations',
             'mc': [{'module': 'MC_C01', 'cfg': cfgs('MC_C01_quick.cfg', 'MC_C01_thorough.cfg'), 'workers': 8}],
             'gens': ['gen_c01_random'],
             'trace': 'Trace_Curve'},
        ],
        'assumptions': [
            'TLC evaluates the L1 operators of Curve.tla correctly (exact integer arithmetic)',
            'harness projection: coordinates/lengths quantised to 2^-16 lattice units, directions to 2^-14, infinitesimals realised as next_up/next_down',
            'edges have integer length (axis-parallel / Pythagorean) times a power-of-two scale; irrational edge lengths are outside the exact domain',
        ],
    },
    'C04': {
        'stages': [
            {'name': 'portions', 'stateful': True,
             'mc': [{'module': 'MC_C04', 'cfg': cfgs('MC_C04_quick.cfg', 'MC_C04_thorough.cfg'), 'workers': 8},
                    {'module': 'MC_C04', 'cfg': cfgs('MC_C04_sim.cfg', 'MC_C04_sim.cfg'), 'workers': 4,
                     'simulate': {'quick': 'num=600', 'thorough': 'num=20000'}, 'extra_depth': 12}],
             'trace': 'Trace_Curve'},
        ],
        'assumptions': [
            'TLC evaluates the derived-curve operators of Curve.tla correctly (exact rational arithmetic)',
            'harness projection: vertices/lengths of results quantised to 1/640 lattice unit (all exact values are multiples of 1/10)',
            'tolerance is tiny (2^-20 unit): the |l1-l0| < tol guard is exercised only at zero travel',
        ],
    },
    'C05': {
        'stages': [
            {'name': 'resample',
             'mc': [{'module': 'MC_C05', 'cfg': cfgs('MC_C05_quick.cfg', 'MC_C05_thorough.cfg'), 'workers': 8}],
             'gens': ['gen_c05_random'],
             'trace': 'Trace_Curve'},
        ],
        'assumptions': [
            'TLC evaluates the resampling / simplification / gap-filling operators of Curve.tla correctly (exact rational arithmetic)',
            'harness projection: vertices quantised to 2^-14 lattice unit',
        ],
    },
    'C12': {
        'stages': [
            {'name': 'topo',
             'mc': [{'module': 'MC_C12', 'cfg': cfgs('MC_C12_thorough.cfg', 'MC_C12_thorough.cfg'), 'workers': 8},
                    {'module': 'MC_C12', 'cfg': cfgs('MC_C12_tetra.cfg', 'MC_C12_tetra.cfg'), 'workers': 8},
                    {'module': 'MC_C12b', 'cfg': cfgs('MC_C12b_quick.cfg', 'MC_C12b_thorough.cfg'), 'workers': 8}],
             'gens': ['gen_c12_random'],
             'trace': 'Trace_Topo'},
        ],
        'assumptions': [
            'TLC evaluates the L1/L2 operators of MeshTopo.tla correctly',
            'hash iteration order of the real code is sampled by repetition (fresh RandomState per map), the model covers all orders',
            'each mesh case runs in a child process with a wall-clock and memory limit; exceeding it is reported as non-termination',
        ],
    },
    'C18': {
        'stages': [
            {'name': 'angles',
             'mc': [{'module': 'MC_C18', 'cfg': cfgs('MC_C18_quick.cfg', 'MC_C18_thorough.cfg')}],
             'gens': ['gen_angles'],
             'trace': 'Trace_Angles'},
        ],
        'assumptions': [
            'TLC evaluates the L1 operators of Angles.tla correctly',
            'harness projection (quantisation to TAU/2^24, three-way float comparisons against the range bounds) is faithful',
            'lattice angles k*TAU/16 (+-1 ulp) and coded scalar bounds stand for the continuous families; big angles only through sin/cos agreement',
        ],
    },
}
