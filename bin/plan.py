"""Which specification modules, bounded instances, generators and judges decide each property.
One file per property under bin/plans/ (PLAN_ENTRY, CLAIM, optional generator functions)."""
import os, glob, importlib.util

def cfgs(q, t):
    return {'quick': q, 'thorough': t}

PLAN = {}
CLAIMS = {}
MODULES = []
_here = os.path.join(os.path.dirname(os.path.abspath(__file__)), 'plans')
for _f in sorted(glob.glob(os.path.join(_here, 'C*.py'))):
    _pid = os.path.basename(_f)[:-3]
    _spec = importlib.util.spec_from_file_location('plans_' + _pid, _f)
    _m = importlib.util.module_from_spec(_spec)
    _spec.loader.exec_module(_m)
    PLAN[_pid] = _m.PLAN_ENTRY
    CLAIMS[_pid] = _m.CLAIM
    MODULES.append(_m)

def find_gen(name):
    import gens
    if hasattr(gens, name):
        return getattr(gens, name)
    for m in MODULES:
        if hasattr(m, name):
            return getattr(m, name)
    raise KeyError(name)
