"""Seeded random case generators (larger / general-position instances than TLC enumerates).
They only produce *inputs* in the same record format as the TLC-emitted cases."""


def gen_angles(rnd, tier):
    n = 400 if tier == 'quick' else 5000
    out = []
    for _ in range(n):
        # a = rm * 2^re : arbitrary finite angles up to ~1e6 in magnitude, plus tiny ones
        kind = rnd.random()
        if kind < 0.7:
            rm = rnd.randint(-2_000_000_000, 2_000_000_000)
            re = -rnd.randint(11, 40)
        elif kind < 0.85:
            rm = rnd.randint(-1000, 1000)
            re = -rnd.randint(60, 1000)
        else:
            rm = rnd.randint(-1_000_000, 1_000_000)
            re = 0
        out.append({'m': 'angles', 'op': 'norm', 'rm': rm, 're': re})
    return out


# ---------------------------------------------------------------- lattice curves
MOVES2 = [(d, 0) for d in range(1, 5)] + [(0, d) for d in range(1, 5)] + [(3, 4), (4, 3), (6, 8), (8, 6), (5, 12), (12, 5)]


def _ilen(a, b):
    d2 = sum((x - y) ** 2 for x, y in zip(a, b))
    r = int(round(d2 ** 0.5))
    return r if r * r == d2 else -1


def lattice_curve(rnd, n, grid, dim=2, closed=False):
    """random walk of n vertices with integer-length steps inside 0..grid; no immediate repeats"""
    for _attempt in range(200):
        p = [rnd.randint(0, grid), rnd.randint(0, grid), 0]
        pts = [tuple(p)]
        ok = True
        while len(pts) < n:
            for _t in range(50):
                dx, dy = rnd.choice(MOVES2)
                dx *= rnd.choice((-1, 1)); dy *= rnd.choice((-1, 1))
                q = (pts[-1][0] + dx, pts[-1][1] + dy, 0)
                if 0 <= q[0] <= grid and 0 <= q[1] <= grid:
                    pts.append(q)
                    break
            else:
                ok = False
                break
        if not ok:
            continue
        if closed:
            if pts[0] == pts[-1] or _ilen(pts[0], pts[-1]) <= 0:
                continue
        if dim == 3:
            lift = rnd.randint(0, 2)
            pts = [(x, y, 0) if lift == 0 else ((0, x, y) if lift == 1 else (y, 0, x)) for (x, y, _) in pts]
        return [list(p) for p in pts]
    raise RuntimeError('no curve')


def with_repeats(rnd, pts, prob=0.3):
    """the same polyline listed with consecutive exact repeats (segments that share their joints: a,b,b,c,c,d)"""
    out = []
    for q in pts:
        out.append(list(q))
        while rnd.random() < prob:
            out.append(list(q))
    return out


def far_offset(rnd, dim):
    """geometry far from the origin: half of the records are translated by up to 2^17 lattice units (exact in f64)"""
    if rnd.random() < 0.5:
        return [0, 0, 0]
    pick = lambda: rnd.choice((0, 1000, -4096, 65536, -100000, 131072))
    return [pick(), pick(), pick() if dim == 3 else 0]


def cum(pts):
    c = [0]
    for a, b in zip(pts, pts[1:]):
        c.append(c[-1] + _ilen(a, b))
    return c


def gen_c01_random(rnd, tier):
    n = 60 if tier == 'quick' else 600
    out = []
    for _ in range(n):
        dim = rnd.choice((2, 2, 3))
        fc = dim == 2 and rnd.random() < 0.4
        nv = rnd.randint(4, 40)
        pts = lattice_curve(rnd, nv, 16, dim, closed=fc)
        built = pts + [pts[0]] if fc else pts
        c = cum(built)
        if rnd.random() < 0.3:
            pts = with_repeats(rnd, pts)            # the listing repeats some joints; the curve is the same
        tot = 2 * c[-1]
        ls = [[rnd.randint(-1, tot + 1), 0] for _ in range(30)] + [[-1, 0], [0, 0], [tot, 0], [tot + 1, 0]]
        for k in c:
            ls += [[2 * k, -1], [2 * k, 0], [2 * k, 1]]
        fs = [rnd.randint(-1, tot + 1) for _ in range(20)] + [0, tot]
        out.append({'m': 'curve', 'op': 'stations', 'dim': dim, 'tolU': 0, 'fc': fc, 'sc': rnd.choice((0, -10, 4, -3, 7, -20, 12)),
                    'pts': pts, 'ls': ls, 'fs': fs, 'nz': rnd.choice((0, 0, 1)),        # nz: zero lengths handed over as -0.0
                    'off': far_offset(rnd, dim)})
        if dim == 2 and rnd.random() < 0.3:
            # the same curve obtained as a DERIVED object: built from the opposite listing and reversed()
            rec = dict(out[-1])
            rec['from'] = ([pts[0]] + pts[:0:-1]) if fc else pts[::-1]
            out.append(rec)
    # curves that are closed only within their tolerance (one lattice unit): rectangles whose last vertex stops one unit short of
    # the first one - the closing vertex is a vertex of its own and the seam has two distinct stored end points
    for _ in range(8 if tier == 'quick' else 80):
        w, h = rnd.randint(2, 9), rnd.randint(3, 9)
        pts = [[0, 0, 0], [w, 0, 0], [w, h, 0], [0, h, 0], [0, 1, 0]]
        if rnd.random() < 0.5:
            pts = [[p[1], p[0], 0] for p in pts]
        c = cum(pts)
        tot = 2 * c[-1]
        ls = [[rnd.randint(-1, tot + 1), 0] for _ in range(10)] + [[-1, 0], [0, 0], [tot, 0], [tot + 1, 0]]
        for k in c:
            ls += [[2 * k, -1], [2 * k, 0], [2 * k, 1]]
        out.append({'m': 'curve', 'op': 'stations', 'dim': 2, 'tolU': 1, 'fc': False, 'sc': rnd.choice((0, -3, 4)),
                    'pts': pts, 'ls': ls, 'fs': [0, tot, tot // 2]})
    return out


def gen_c05_random(rnd, tier):
    """many (total length, count / spacing) pairs: rounding of the last sample position is pair-specific"""
    n = 6000 if tier == 'quick' else 40000
    out = []
    for _ in range(n):
        dim = rnd.choice((2, 3))
        fc = dim == 2 and rnd.random() < 0.3
        nv = rnd.randint(2, 6)
        pts = lattice_curve(rnd, nv, 14, dim, closed=fc)
        built = pts + [pts[0]] if fc else pts
        L2 = 2 * cum(built)[-1]
        if rnd.random() < 0.25:
            pts = with_repeats(rnd, pts)            # the listing repeats some joints; the curve is the same
        mode = rnd.choice(('count', 'count', 'spacing', 'maxspacing', 'spacing_div', 'spacing_div'))
        if mode == 'spacing_div':
            k = rnd.randint(3, 64)             # spacing = length / k as a float: divides the length only up to rounding (k <= 64 keeps the judge's exact rationals within 31 bits)
        elif mode == 'count':
            k = rnd.randint(3 if fc else 2, 64)
        elif mode == 'spacing':
            k = rnd.randint(1, max(1, L2 - 1))
            if L2 // k > 70:
                k = max(1, L2 // rnd.randint(2, 60))
        else:
            k = rnd.randint(max(1, L2 // 60), 2 * L2)
            if fc and k >= L2:
                k = max(1, L2 // 2)
        if mode == 'spacing' and dim == 3 and k >= L2:
            continue
        out.append({'m': 'curve', 'op': 'resample', 'dim': dim, 'pts': pts, 'fc': fc, 'sc': rnd.choice((0, -10, 4, -3, 7, -20, 12)),
                    'tolU': 0, 'mode': mode, 'n': k, 'off': far_offset(rnd, dim)})
    return out


def gen_c12_random(rnd, tier):
    """larger meshes: triangulated grids (disks), with holes, flipped faces, vertex-only contacts, several components"""
    n = 40 if tier == 'quick' else 600
    out = []
    for _ in range(n):
        w, h = rnd.randint(1, 5), rnd.randint(1, 4)
        vpos = [[x, y, (x * y) % 3] for y in range(h + 1) for x in range(w + 1)]
        vid = lambda x, y: y * (w + 1) + x
        faces = []
        for y in range(h):
            for x in range(w):
                if rnd.random() < 0.15:
                    continue            # hole
                a, b, c, d = vid(x, y), vid(x + 1, y), vid(x + 1, y + 1), vid(x, y + 1)
                if rnd.random() < 0.5:
                    fs = [[a, b, c], [a, c, d]]
                else:
                    fs = [[a, b, d], [b, c, d]]
                for f in fs:
                    if rnd.random() < 0.1:
                        continue        # missing triangle (creates vertex-only contacts)
                    if rnd.random() < 0.15:
                        f = [f[0], f[2], f[1]]   # flipped
                    k = rnd.randint(0, 2)
                    faces.append(f[k:] + f[:k])
        if not faces:
            continue
        rnd.shuffle(faces)
        rec = {'m': 'topo', 'op': 'mesh', 'wd': 3000, 'reps': 4, 'nv': len(vpos), 'vpos': vpos, 'faces': faces,
               'sc': rnd.choice((0, 0, -22, -10, 12))}
        if rnd.random() < 0.15:
            rec['vpad'] = rnd.choice((65530, 66000, 70001))      # vertex indices beyond 16 bits
            rec['wd'] = 6000
        out.append(rec)
        # the same kind of mesh assembled in two steps: part one is queried, then a shifted copy of another grid is appended
        if rnd.random() < 0.4:
            used = sorted({i for f in faces for i in f})
            ren = {o: k for k, o in enumerate(used)}
            va = [vpos[o] for o in used]
            fa = [[ren[i] for i in f] for f in faces]
            dx = rnd.choice((0, w + 2))          # overlapping position (vertex-only coincidences do not join) or disjoint
            vb = [[p[0] + dx, p[1], p[2] + 1] for p in va]
            fb = [[i + len(va) for i in f] for f in fa[: max(1, len(fa) // 2)]]
            out.append({'m': 'topo', 'op': 'mesh', 'wd': 3000, 'reps': 3, 'nv': 2 * len(va), 'vpos': va + vb, 'faces': fa + fb,
                        'split': [len(va), len(fa)], 'sc': rnd.choice((0, -3))})
    return out


def gen_c05_long_shallow(rnd, tier):
    """simplification of long shallow polylines: chord lengths 2^20..2^33 times the deviations (x = X * 2^kx, y / z a few units),
    tolerances below, at and above the kink heights"""
    out = []
    for _ in range(150 if tier == 'quick' else 3000):
        n = rnd.randint(3, 8)
        X = [0]
        for _k in range(n - 1):
            X.append(X[-1] + rnd.randint(1, 9))
        dim = rnd.choice((2, 3))
        ys = [rnd.choice((0, 0, 0, 1, -1, 2, -3)) for _k in range(n)]
        zs = [rnd.choice((0, 0, 1, -2)) if dim == 3 else 0 for _k in range(n)]
        if rnd.random() < 0.5:
            ys[0] = ys[-1] = 0; zs[0] = zs[-1] = 0
        out.append({'m': 'curve', 'op': 'simplify_long', 'dim': dim, 'pts': [[X[k], ys[k], zs[k]] for k in range(n)],
                    'kx': rnd.randint(20, 30), 'e4': rnd.choice((1, 2, 3, 4, 5, 8, 13)), 'sc': rnd.choice((0, -10, -20, 7)), 'tolU': 0})
    return out


def gen_c01_free(rnd, tier):
    """general lattice polylines (irrational edge lengths, any edge-length ratios): a long lead (up to 2^13 units) followed by
    short oblique edges, and plain random walks; stations inside every edge at eighths of the edge and at the vertices"""
    out = []
    for _ in range(60 if tier == 'quick' else 1200):
        dim = rnd.choice((2, 3))
        n = rnd.randint(3, 9)
        lead = rnd.choice((0, 0, 1 << 8, 1 << 12, 1 << 13, 8000))        # (coordinates * 2^16 must stay within TLC's 31 bits)
        pts = [[0, 0, 0]]
        if lead:
            pts.append([lead, rnd.randint(-3, 3), 0 if dim == 2 else rnd.randint(-3, 3)])
        while len(pts) < n:
            st = [rnd.randint(-4, 4), rnd.randint(-4, 4), 0 if dim == 2 else rnd.randint(-4, 4)]
            if st == [0, 0, 0]:
                continue
            prev = [pts[-1][k] - pts[-2][k] for k in range(3)] if len(pts) > 1 else None
            if prev is not None:
                cr = [prev[1] * st[2] - prev[2] * st[1], prev[2] * st[0] - prev[0] * st[2], prev[0] * st[1] - prev[1] * st[0]]
                if cr == [0, 0, 0] and sum(a * b for a, b in zip(prev, st)) < 0:
                    continue            # exact reversal: the vertex direction is undefined there
            pts.append([pts[-1][k] + st[k] for k in range(3)])
        if any(pts[a] == pts[a + 1] for a in range(len(pts) - 1)):
            continue
        fc = dim == 2 and lead == 0 and rnd.random() < 0.3 and pts[0] != pts[-1]
        if fc:
            # the closing edge must not reverse either neighbour exactly
            cl = [pts[0][k] - pts[-1][k] for k in range(3)]
            bad = False
            for other in ([pts[-1][k] - pts[-2][k] for k in range(3)], [pts[1][k] - pts[0][k] for k in range(3)]):
                if other[0] * cl[1] - other[1] * cl[0] == 0 and other[0] * cl[0] + other[1] * cl[1] < 0:
                    bad = True
            if bad:
                fc = False
        ne = len(pts) - 1 + (1 if fc else 0)
        req = [[e, k] for e in range(ne) for k in (0, 1, 3, 4, 7, 8)]
        out.append({'m': 'curve', 'op': 'free', 'dim': dim, 'tolU': 0, 'fc': fc, 'sc': rnd.choice((0, -10, 4, -20, 12)), 'pts': pts, 'req': req,
                    'off': far_offset(rnd, dim)})
    return out
