"""Seeded random case generators (larger / general-position instances than TLC enumerates).
They only produce *inputs* in the same record format as the TLC-emitted cases."""


def gen_angles(rnd, tier):
    n = 400 if tier == 'quick' else 5000
    out = []
    for _ in range(n):
        # a = rm * 2^re : arbitrary finite angles up to ~1e6 in magnitude, plus tiny ones
        kind = rnd.random()
        if kind < 0.7:
            rm = rnd.randint(-2_000_000_000, 2_000_000_000)
            re = -rnd.randint(11, 40)
        elif kind < 0.85:
            rm = rnd.randint(-1000, 1000)
            re = -rnd.randint(60, 1000)
        else:
            rm = rnd.randint(-1_000_000, 1_000_000)
            re = 0
        out.append({'m': 'angles', 'op': 'norm', 'rm': rm, 're': re})
    return out
