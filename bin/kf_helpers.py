"""Structural predicates over *input* records, usable in the `when` expressions of known_findings.json."""


def _side(v, n, dn, dd):
    return dd * sum(a * b for a, b in zip(n, v)) - dn


def plane_meets_boundary(r):
    """C13 / F21: the section plane crosses an edge that belongs to exactly one face (the boundary of an open mesh)."""
    cnt = {}
    for f in r['faces']:
        for a, b in ((f[0], f[1]), (f[1], f[2]), (f[2], f[0])):
            k = (min(a, b), max(a, b))
            cnt[k] = cnt.get(k, 0) + 1
    for (a, b), c in cnt.items():
        if c == 1:
            sa = _side(r['vpos'][a], r['n'], r['dn'], r['dd'])
            sb = _side(r['vpos'][b], r['n'], r['dn'], r['dd'])
            if sa * sb < 0:
                return True
    return False
