#!/usr/bin/env python3
"""Regenerates /verif/MANIFEST.json from bin/plan.py (claimed properties) and bin/claims.py (texts)."""
import json, os, sys
ROOT = os.path.dirname(os.path.dirname(os.path.abspath(__file__)))
sys.path.insert(0, os.path.join(ROOT, 'bin'))
import plan, claims

props = [json.loads(l) for l in open(os.path.join(ROOT, 'properties.jsonl'))]
checks = []
na = []
for p in props:
    pid = p['id']
    if pid in plan.PLAN and pid in claims.CLAIMS:
        c = claims.CLAIMS[pid]
        checks.append({
            'property_id': pid,
            'quick_cmd': 'bin/check %s --tier quick' % pid,
            'thorough_cmd': 'bin/check %s --tier thorough' % pid,
            'evidence_file': '/verif/evidence/%s.json' % pid,
            'replay_cmd_template': 'bin/check %s --replay {path}' % pid,
            'engine': 'tlc+engeom-verif',
            'level_claimed': {'category': 'model_checking', 'text': c['text'], 'design_ref': c['design_ref']},
            'level_note': c['note'],
            'technique': c['technique'],
        })
    else:
        na.append({'property_id': pid, 'reason': claims.NOT_CLAIMED.get(pid, 'specification module and trace binding for this property are not built yet; not claimed rather than checked with a different technique')})
man = {
    'version': 1,
    'setup_cmd': 'cd /verif/harness && CARGO_NET_OFFLINE=true cargo build --release --offline',
    'hooks': {
        'guard': 'cfg(engeom_verif)',
        'enable': 'rustflags = ["--cfg","engeom_verif"] in /verif/harness/.cargo/config.toml (the harness has a path dependency on /repo and rebuilds it from the working tree on every check)',
        'baseline_off_cmd': 'cd /repo && cargo test --workspace --no-fail-fast --offline',
        'source_commits': claims.HOOK_COMMITS,
        'add_only': True,
    },
    'engines': [
        {'name': 'spec', 'path': '/verif/spec', 'serves_properties': [c['property_id'] for c in checks],
         'kind_free_text': 'TLA+ specification (L1 declarative semantics, L2 algorithm transcriptions), bounded MC_* instances model-checked by TLC, Trace_* judges validating recorded observations'},
        {'name': 'harness', 'path': '/verif/harness', 'serves_properties': [c['property_id'] for c in checks],
         'kind_free_text': 'Rust executor: replays TLC-generated and seeded random cases into the real engeom library and records quantised observations (no oracle logic)'},
        {'name': 'runner', 'path': '/verif/bin/check', 'serves_properties': [c['property_id'] for c in checks],
         'kind_free_text': 'python3 orchestration: build, TLC runs, exec, judge, known findings, replay files, evidence'},
    ],
    'checks': checks,
    'not_applicable': na,
    'notes': 'All verdicts come from TLC evaluating the L1 operators of /verif/spec on observations recorded from the real code; see DESIGN.md.',
}
json.dump(man, open(os.path.join(ROOT, 'MANIFEST.json'), 'w'), indent=1)
print('claimed:', [c['property_id'] for c in checks])
