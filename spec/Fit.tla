-------------------------------- MODULE Fit --------------------------------
(* C09: least-squares fits are optimal.                                       *)
(* L1 semantics on the exact discrete domain:                                 *)
(*  - polynomial least squares over integer abscissae / ordinates / weights:  *)
(*    normal equations (residual orthogonal to every monomial column in the   *)
(*    weighted inner product), their exact rational solution for sizes 2, 3   *)
(*    (Cramer), the exact minimum of the weighted sum of squares;             *)
(*  - circles through lattice points: collinearity, perpendicular-bisector    *)
(*    equations of the centre, exact circumcentre and squared radius, rings   *)
(*    of lattice points on circles of radius 5, 13, 25, 65, arcs and their    *)
(*    extent, the neighbourhood of admissible guesses, exact inlier bands.    *)
(* L2: transcription of the power-sum accumulation of                         *)
(*    Polynomial::least_squares (one action per inner-loop iteration), used   *)
(*    by MC_C09b to check that the Hankel system it builds IS the system of   *)
(*    normal equations.                                                       *)
(* Rationals are pairs <<num, den>>, den > 0.  All intermediate values stay   *)
(* below 2^31 on the bounded instances (TLC aborts on overflow).              *)
EXTENDS Integers, Sequences, FiniteSets

AbsF(x) == IF x < 0 THEN -x ELSE x
SgnF(x) == IF x < 0 THEN -1 ELSE IF x > 0 THEN 1 ELSE 0
MaxF(a, b) == IF a > b THEN a ELSE b

RECURSIVE Pow(_, _)
Pow(x, k) == IF k = 0 THEN 1 ELSE x * Pow(x, k - 1)

SumSeq(s) == LET RECURSIVE S(_)
                 S(k) == IF k = 0 THEN 0 ELSE s[k] + S(k - 1)
             IN S(Len(s))
MaxAbsSeq(s) == LET RECURSIVE M(_)
                    M(k) == IF k = 0 THEN 0 ELSE MaxF(AbsF(s[k]), M(k - 1))
                IN M(Len(s))
SeqSetF(s) == {s[k] : k \in 1..Len(s)}

\* floor(|n| * 10^m / d) with the sign of n, digit by digit (never forms n * 10^m); d > 0
RECURSIVE LongDiv(_, _, _, _)
LongDiv(acc, rem, d, m) == IF m = 0 THEN acc
                           ELSE LET t == rem * 10 IN LongDiv(acc * 10 + (t \div d), t % d, d, m - 1)
QuantRat(n, d, m) == LET a == AbsF(n) IN SgnF(n) * LongDiv(a \div d, a % d, d, m)

-----------------------------------------------------------------------------
(* Polynomial least squares.  c = <<c0, .., c_{K-1}>> (lowest power first),   *)
(* xs, ys, ws sequences of equal length; w = FALSE means "no weights given". *)
PolyVal(c, x) == SumSeq([k \in 1..Len(c) |-> c[k] * Pow(x, k - 1)])
Wt(ws, w, i) == IF w THEN ws[i] ELSE 1
Moment(xs, ws, w, j) == SumSeq([i \in 1..Len(xs) |-> Wt(ws, w, i) * Pow(xs[i], j)])
RhsMoment(xs, ws, w, ys, j) == SumSeq([i \in 1..Len(xs) |-> Wt(ws, w, i) * Pow(xs[i], j) * ys[i]])
WSumYY(xs, ws, w, ys) == SumSeq([i \in 1..Len(xs) |-> Wt(ws, w, i) * ys[i] * ys[i]])

\* the fit is determined iff there are at least K distinct abscissae (and all weights are positive)
WellPosed(K, xs, ws, w) == /\ Cardinality(SeqSetF(xs)) >= K
                           /\ w => \A i \in 1..Len(ws) : ws[i] > 0

\* residual of the coefficient vector num/den against monomial column j, times den
OrthDefect(num, den, xs, ws, w, ys, j) ==
    SumSeq([i \in 1..Len(xs) |-> Wt(ws, w, i) * Pow(xs[i], j) * (den * ys[i] - PolyVal(num, xs[i]))])
\* L1: num/den is THE least-squares polynomial iff every defect vanishes
SolvesNormalEq(num, den, xs, ws, w, ys) ==
    \A j \in 0..(Len(num) - 1) : OrthDefect(num, den, xs, ws, w, ys, j) = 0

\* exact solution for K = 2, 3 by Cramer's rule: <<numerators, common denominator>>, denominator > 0
Solve2(xs, ws, w, ys) ==
    LET s0 == Moment(xs, ws, w, 0) s1 == Moment(xs, ws, w, 1) s2 == Moment(xs, ws, w, 2)
        r0 == RhsMoment(xs, ws, w, ys, 0) r1 == RhsMoment(xs, ws, w, ys, 1)
    IN << <<r0 * s2 - s1 * r1, s0 * r1 - s1 * r0>>, s0 * s2 - s1 * s1 >>
D3(a, b, c, d, e, f, g, h, k) == a * (e * k - f * h) - b * (d * k - f * g) + c * (d * h - e * g)
Solve3(xs, ws, w, ys) ==
    LET s0 == Moment(xs, ws, w, 0) s1 == Moment(xs, ws, w, 1) s2 == Moment(xs, ws, w, 2)
        s3 == Moment(xs, ws, w, 3) s4 == Moment(xs, ws, w, 4)
        r0 == RhsMoment(xs, ws, w, ys, 0) r1 == RhsMoment(xs, ws, w, ys, 1) r2 == RhsMoment(xs, ws, w, ys, 2)
    IN << << D3(r0, s1, s2, r1, s2, s3, r2, s3, s4),
             D3(s0, r0, s2, s1, r1, s3, s2, r2, s4),
             D3(s0, s1, r0, s1, s2, r1, s2, s3, r2) >>,
          D3(s0, s1, s2, s1, s2, s3, s2, s3, s4) >>
Solve(K, xs, ws, w, ys) == IF K = 2 THEN Solve2(xs, ws, w, ys) ELSE Solve3(xs, ws, w, ys)

\* exact minimum of the weighted sum of squares, as a rational: (den * sum w y^2 - sum_k num_k rhs_k) / den
MinSSE(K, xs, ws, w, ys) ==
    LET sol == Solve(K, xs, ws, w, ys) IN
    << sol[2] * WSumYY(xs, ws, w, ys) - SumSeq([k \in 1..K |-> sol[1][k] * RhsMoment(xs, ws, w, ys, k - 1)]), sol[2] >>

\* den^2 times the weighted sum of squares of the coefficient vector num/den (for the optimality law)
ScaledSSE(num, den, xs, ws, w, ys) ==
    SumSeq([i \in 1..Len(xs) |-> Wt(ws, w, i) * (den * ys[i] - PolyVal(num, xs[i])) * (den * ys[i] - PolyVal(num, xs[i]))])

-----------------------------------------------------------------------------
(* L2: the accumulation loops of Polynomial::least_squares.                   *)
(*   for i: for k in 0..K-1 { rhs[k] += w x^k y; sums[k] += w x^k }           *)
(*          for k in From..2K { sums[k] += w x^k }                            *)
(* The repaired code has From = K; the pinned code had From = K + 1, which    *)
(* leaves sums[K] at zero.  State: [i, k, ph, sums, rhs].                     *)
L2Init(K) == [i |-> 1, k |-> 0, ph |-> "first", sums |-> [j \in 0..(2 * K) |-> 0], rhs |-> [j \in 0..(K - 1) |-> 0]]
L2Done(st) == st.ph = "done"
L2Next(st, K, From, xs, ws, w, ys) ==
    LET i == st.i wxk == Wt(ws, w, i) * Pow(xs[i], st.k) IN
    IF st.ph = "first" THEN
        LET s1 == [st EXCEPT !.rhs[st.k] = @ + wxk * ys[i], !.sums[st.k] = @ + wxk] IN
        IF st.k + 1 < K THEN [s1 EXCEPT !.k = st.k + 1] ELSE [s1 EXCEPT !.k = From, !.ph = "second"]
    ELSE \* "second"
        LET s1 == IF st.k <= 2 * K THEN [st EXCEPT !.sums[st.k] = @ + wxk] ELSE st IN
        IF st.k + 1 <= 2 * K THEN [s1 EXCEPT !.k = st.k + 1]
        ELSE IF i < Len(xs) THEN [s1 EXCEPT !.i = i + 1, !.k = 0, !.ph = "first"]
        ELSE [s1 EXCEPT !.ph = "done"]
\* the matrix the code inverts and its right-hand side
L2Matrix(st, K) == [r \in 0..(K - 1) |-> [c \in 0..(K - 1) |-> st.sums[r + c]]]
\* refinement: the system handed to the solver is the system of normal equations
L2Refines(st, K, xs, ws, w, ys) ==
    /\ \A r \in 0..(K - 1) : \A c \in 0..(K - 1) : L2Matrix(st, K)[r][c] = Moment(xs, ws, w, r + c)
    /\ \A r \in 0..(K - 1) : st.rhs[r] = RhsMoment(xs, ws, w, ys, r)

-----------------------------------------------------------------------------
(* Circles through lattice points.  Points are <<x, y>>.                      *)
PSub(a, b) == <<a[1] - b[1], a[2] - b[2]>>
PAdd(a, b) == <<a[1] + b[1], a[2] + b[2]>>
PDot(a, b) == a[1] * b[1] + a[2] * b[2]
PCross(a, b) == a[1] * b[2] - a[2] * b[1]
N2(a) == PDot(a, a)

\* twice the signed area; zero iff the three points lie on one line (coincident points included)
Area2(p0, p1, p2) == PCross(PSub(p1, p0), PSub(p2, p0))
Collinear(p0, p1, p2) == Area2(p0, p1, p2) = 0

\* a centre c (given as cq = c * q, quantised) is equidistant from a and b iff 2 c.(b-a) = |b|^2 - |a|^2;
\* this is the defect of that equation times q
BisectorDefect(cq, a, b, q) == 2 * PDot(cq, PSub(b, a)) - q * (N2(b) - N2(a))

\* exact circumcentre <<nx, ny, d>> = (nx/d, ny/d), d = 2 * Area2 (non-zero), by solving the two bisector equations
Circumcentre(p0, p1, p2) ==
    LET a == PSub(p1, p0) b == PSub(p2, p0)
        ka == N2(p1) - N2(p0) kb == N2(p2) - N2(p0)
        d == 2 * PCross(a, b) IN
    << ka * b[2] - kb * a[2], a[1] * kb - b[1] * ka, d >>
\* exact squared radius as a rational <<n, d^2>>
CircumR2(p0, p1, p2) ==
    LET cc == Circumcentre(p0, p1, p2) d == cc[3]
        ex == cc[1] - d * p0[1] ey == cc[2] - d * p0[2] IN
    << ex * ex + ey * ey, d * d >>

\* lattice points on the circle of radius R about the origin, counter-clockwise from (R, 0)
FirstQuadrant(R) ==
    CASE R = 5  -> << <<5, 0>>, <<4, 3>>, <<3, 4>> >>
      [] R = 13 -> << <<13, 0>>, <<12, 5>>, <<5, 12>> >>
      [] R = 25 -> << <<25, 0>>, <<24, 7>>, <<20, 15>>, <<15, 20>>, <<7, 24>> >>
      [] R = 65 -> << <<65, 0>>, <<63, 16>>, <<60, 25>>, <<56, 33>>, <<52, 39>>, <<39, 52>>, <<33, 56>>, <<25, 60>>, <<16, 63>> >>
RECURSIVE RotQ(_, _)
RotQ(p, t) == IF t = 0 THEN p ELSE RotQ(<<-p[2], p[1]>>, t - 1)
RingSize(R) == 4 * Len(FirstQuadrant(R))
RingTable == [R \in {5, 13, 25, 65} |-> LET q == FirstQuadrant(R) n == Len(q) IN
                                        [j \in 1..(4 * n) |-> RotQ(q[((j - 1) % n) + 1], (j - 1) \div n)]]
Ring(R) == RingTable[R]
\* the arc of n consecutive ring points starting at ring index a, moved to centre ctr
ArcPts(R, ctr, a, n) == LET rg == Ring(R) m == RingSize(R) IN
                        [j \in 1..n |-> PAdd(rg[((a + j - 2) % m) + 1], ctr)]

OnCircle(p, ctr, R) == N2(PSub(p, ctr)) = R * R
\* two points of the circle at least 60 degrees apart (as seen from the centre): cos <= 1/2
Apart60(u, v, ctr, R) == 2 * PDot(PSub(u, ctr), PSub(v, ctr)) <= R * R
\* exact samples on an arc of sufficient extent: all on the circle, three distinct ones, extent >= 60 degrees
ExactArc(pts, ctr, R) ==
    /\ \A j \in 1..Len(pts) : OnCircle(pts[j], ctr, R)
    /\ Cardinality(SeqSetF(pts)) >= 3
    /\ \E j, k \in 1..Len(pts) : Apart60(pts[j], pts[k], ctr, R)
\* the stated neighbourhood of guesses: centre within R/3 of the true centre, radius within R/3 of the true one
GuessNear(g, ctr, R) == /\ 9 * N2(PSub(<<g[1], g[2]>>, ctr)) <= R * R
                        /\ 3 * AbsF(g[3] - R) <= R
                        /\ g[3] > 0

\* inlier band of the circle (ctr, R) with tolerance tn/td: (R - t)^2 < |p - ctr|^2 < (R + t)^2
InBand(p, ctr, R, tn, td) ==
    LET d2 == N2(PSub(p, ctr)) * td * td IN
    /\ (R * td - tn) * (R * td - tn) < d2 \/ R * td < tn
    /\ d2 < (R * td + tn) * (R * td + tn)
Support(pts, ctr, R, tn, td) == Cardinality({j \in 1..Len(pts) : InBand(pts[j], ctr, R, tn, td)})
OnCount(pts, ctr, R) == Cardinality({j \in 1..Len(pts) : OnCircle(pts[j], ctr, R)})
\* contaminated data on which the sampling search has a fair chance: at least 3/5 of the points lie on the generating circle
FairContamination(pts, ctr, R) == OnCount(pts, ctr, R) >= 3 /\ 5 * OnCount(pts, ctr, R) >= 3 * Len(pts)
=============================================================================
