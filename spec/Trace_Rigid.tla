----------------------------- MODULE Trace_Rigid -----------------------------
(* Judge for C03: each record holds the same measurements taken before (…0)   *)
(* and after (…1) an exact rigid motion T applied through the library's own    *)
(* transform methods; the clauses are relations between the two observations.  *)
EXTENDS Rigid, JudgeBase
VARIABLE i

TP == 6     \* tolerance in point quanta (1/4096 unit); large translations cost a few ulps of 1e3
TN == 6
TS == 6
Dbl(p) == <<2 * p[1], 2 * p[2], 2 * p[3]>>
DblSeq(s) == [k \in 1..Len(s) |-> Dbl(s[k])]

JSp(r) ==
    LET o == r.out T == r.T IN
    /\ Clause(i, "C03.sp.finite", o.finite)
    /\ Clause(i, "C03.sp.point_moves", PointMoved(T, o.e0.p, o.e1.p, TP) /\ PointMoved(T, o.e0.p, o.e1b.p, TP))
    /\ Clause(i, "C03.sp.normal_only_rotates", DirRotated(T, o.e0.n, o.e1.n, TN) /\ DirRotated(T, o.e0.n, o.e1b.n, TN))
    /\ Clause(i, "C03.sp.shape", Len(o.m0) = Len(r.qs) /\ Len(o.m1) = Len(r.qs))
    /\ (Len(o.m0) = Len(r.qs) /\ Len(o.m1) = Len(r.qs)) =>
        /\ ClauseAll(i, "C03.sp.scalars_invariant", 1..Len(r.qs), LAMBDA j :
              ScalarSame(o.m0[j].proj, o.m1[j].proj, TS) /\ ScalarSame(o.m0[j].planar, o.m1[j].planar, TS))
        /\ ClauseAll(i, "C03.sp.points_equivariant", 1..Len(r.qs), LAMBDA j :
              PointMoved(T, o.m0[j].pp, o.m1[j].pp, TP) /\ PointMoved(T, o.m0[j].at, o.m1[j].at, TP))
        \* queries far along the normal and barely off it: the scalars agree between the frames to 2^-26 RELATIVE
        /\ ("far" \in DOMAIN r) => /\ Clause(i, "C03.sp.far_shape", Len(o.far) = Len(r.far))
                                   /\ Len(o.far) = Len(r.far) => ClauseAll(i, "C03.sp.scalars_invariant_far", 1..Len(r.far), LAMBDA j :
                                            AbsC(o.far[j].planar) <= 16 /\ AbsC(o.far[j].proj) <= 16)
        /\ r.dim = 3 =>
            /\ Clause(i, "C03.plane.normal_rotates", DirRotated(T, o.pl0.n, o.pl1.n, TN))
            /\ ClauseAll(i, "C03.plane.distances_invariant", 1..Len(r.qs), LAMBDA j :
                  ScalarSame(o.m0[j].sd, o.m1[j].sd, TS) /\ ScalarSame(o.m0[j].pd, o.m1[j].pd, TS))
            /\ ClauseAll(i, "C03.plane.projection_equivariant", 1..Len(r.qs), LAMBDA j : PointMoved(T, o.m0[j].plp, o.m1[j].plp, TP))

\* exact foot points of q on the nearest edges of lattice polyline v
Foot(q, a, b) == LET t == SegT(q, a, b) IN <<VAdd(VScale(t[2], a), VScale(t[1], VSub(b, a))), t[2]>>
UniqueFoot(q, v) == LET m == CurveMinD2(q, v)
                        A == {k \in 1..(Len(v) - 1) : REq(SegD2(q, v[k], v[k + 1]), m)} IN
    \A k1, k2 \in A : RPtEq(Foot(q, v[k1], v[k1 + 1]), Foot(q, v[k2], v[k2 + 1]))

\* dirty inputs: with a tolerance of tolU lattice units the vertices of the curve are the model's Survivors of the listing
RTol(r) == IF "tolU" \in DOMAIN r THEN r.tolU ELSE 0
JCurve(r) ==
    LET o == r.out T == r.T IN
    /\ Clause(i, "C03.curve.finite", o.finite)
    /\ Clause(i, "C03.curve.vertices_move", SeqMoved(T, o.e0.verts, o.e1.verts, TP))
    /\ Clause(i, "C03.curve.attributes_preserved", o.e0.closed = o.e1.closed /\ o.e0.n = o.e1.n /\ o.e0.tolq = o.e1.tolq)
    /\ Clause(i, "C03.curve.length_invariant", ScalarSame(o.e0.len, o.e1.len, TS))
    /\ Clause(i, "C03.curve.inverse_restores", SeqNear(o.e0.verts, o.back.verts, TP) /\ o.back.closed = o.e0.closed)
    /\ Clause(i, "C03.curve.composition", SeqNear(o.seq.verts, o.comp.verts, TP) /\ SeqMoved(r.T2, o.e1.verts, o.seq.verts, TP))
    /\ Clause(i, "C03.curve.shape", Len(o.s0) = Len(r.ls) /\ Len(o.s1) = Len(r.ls) /\ Len(o.c0) = Len(r.qs) /\ Len(o.c1) = Len(r.qs))
    /\ (Len(o.s0) = Len(r.ls) /\ Len(o.s1) = Len(r.ls) /\ Len(o.c0) = Len(r.qs) /\ Len(o.c1) = Len(r.qs)) =>
        /\ ClauseAll(i, "C03.curve.stations_equivariant", 1..Len(r.ls), LAMBDA j :
              /\ o.s0[j].some = o.s1[j].some
              /\ o.s0[j].some => PointMoved(T, o.s0[j].p, o.s1[j].p, TP)
              \* (at an interior vertex length the moved curve's rounded lengths decide between edge and vertex rule: free)
              /\ (o.s0[j].some /\ (r.ls[j] = 0 \/ \A k \in 1..Len(Built(r.pts, RTol(r), r.fc, r.dim)) : 2 * Cum(Built(r.pts, RTol(r), r.fc, r.dim))[k] # r.ls[j]))
                    => DirRotated(T, o.s0[j].d, o.s1[j].d, TN))
        /\ ClauseAll(i, "C03.curve.distance_invariant", 1..Len(r.qs), LAMBDA j : ScalarSame(o.c0[j].dist, o.c1[j].dist, TS))
        /\ ClauseAll(i, "C03.curve.closest_equivariant", 1..Len(r.qs), LAMBDA j :
              UniqueFoot(r.qs[j], Built(r.pts, RTol(r), r.fc, r.dim)) => PointMoved(T, o.c0[j].p, o.c1[j].p, TP))

JSeg(r) ==
    LET o == r.out T == r.T IN
    /\ Clause(i, "C03.segment.ends_move", PointMoved(T, o.a0, o.a1, TP) /\ PointMoved(T, o.b0, o.b1, TP))
    /\ Clause(i, "C03.segment.shape", Len(o.m0) = Len(r.qs) /\ Len(o.m1) = Len(r.qs))
    /\ (Len(o.m0) = Len(r.qs) /\ Len(o.m1) = Len(r.qs)) =>
        ClauseAll(i, "C03.segment.projection", 1..Len(r.qs), LAMBDA j :
              ScalarSame(o.m0[j].par, o.m1[j].par, TS) /\ PointMoved(T, o.m0[j].pp, o.m1[j].pp, TP) /\ o.m0[j].on = o.m1[j].on)

JMesh(r) ==
    LET o == r.out T == r.T vp == DblSeq(r.vpos) IN
    /\ Clause(i, "C03.mesh.finite", o.finite)
    /\ Clause(i, "C03.mesh.vertices_move", SeqMoved(T, o.v0, o.v1, TP) /\ o.f0 = o.f1)
    /\ Clause(i, "C03.mesh.normals_only_rotate", SeqRotated(T, o.vn0, o.vn1, TN) /\ SeqRotated(T, o.fn0, o.fn1, TN)
                                                /\ Len(o.vn0) = Len(o.v0) /\ Len(o.fn0) = Len(o.f0))
    /\ Clause(i, "C03.mesh.shape", Len(o.c0) = Len(r.qs) /\ Len(o.c1) = Len(r.qs))
    /\ (Len(o.c0) = Len(r.qs) /\ Len(o.c1) = Len(r.qs)) =>
        /\ ClauseAll(i, "C03.mesh.distance_invariant", 1..Len(r.qs), LAMBDA j : ScalarSame(o.c0[j].dist, o.c1[j].dist, TS))
        /\ ClauseAll(i, "C03.mesh.closest_equivariant", 1..Len(r.qs), LAMBDA j :
              Cardinality(ArgMinFaces(r.qs[j], vp, r.faces)) = 1 =>
                  PointMoved(T, o.c0[j].p, o.c1[j].p, TP) /\ DirRotated(T, o.c0[j].n, o.c1[j].n, TN))

\* the optional `transform` argument (u1/p1/i1: query given in the other frame plus T) and a mesh moved by hand
\* (u2/p2/i2) must agree with the plain query (u0/p0/i0); deviations are invariant
JMeshOpt(r) ==
    LET o == r.out T == r.T vp == DblSeq(r.vpos) n == Len(r.qs) IN
    /\ Clause(i, "C03.meshopt.finite", o.finite)
    /\ Clause(i, "C03.meshopt.shape", Len(o.rows) = n)
    /\ Len(o.rows) = n =>
        /\ Clause(i, "C03.meshopt.indices_in_tol_same", o.i0 = o.i1 /\ o.i0 = o.i2)
        /\ ClauseAll(i, "C03.meshopt.accepted_alike", 1..n, LAMBDA j : LET w == o.rows[j] IN
              w.u0.some = w.u1.some /\ w.u0.some = w.u2.some /\ w.p0.some = w.p1.some /\ w.p0.some = w.p2.some /\ w.u0.some = w.p0.some)
        /\ ClauseAll(i, "C03.meshopt.uv_and_depth_invariant", 1..n, LAMBDA j : LET w == o.rows[j] IN
              (Cardinality(ArgMinFaces(r.qs[j], vp, r.faces)) = 1 /\ w.u0.some /\ w.u1.some /\ w.u2.some) =>
                  /\ \A a \in 1..2 : ScalarSame(w.u0.uv[a], w.u1.uv[a], TP) /\ ScalarSame(w.u0.uv[a], w.u2.uv[a], TP)
                  /\ ScalarSame(w.u0.depth, w.u1.depth, TS) /\ ScalarSame(w.u0.depth, w.u2.depth, TS))
        /\ ClauseAll(i, "C03.meshopt.projection_equivariant", 1..n, LAMBDA j : LET w == o.rows[j] IN
              (Cardinality(ArgMinFaces(r.qs[j], vp, r.faces)) = 1 /\ w.p0.some /\ w.p1.some /\ w.p2.some) =>
                  /\ w.p0.id = w.p1.id /\ w.p0.id = w.p2.id
                  /\ \A a \in 1..3 : AbsC(w.p0.p[a] - w.p1.p[a]) <= TP
                  /\ PointMoved(T, w.p0.p, w.p2.p, TP))
        /\ ClauseAll(i, "C03.meshopt.deviation_invariant", 1..n, LAMBDA j : LET w == o.rows[j] IN
              \* (cases marked devall have a unique closest point for every query, also where two faces share it)
              (Cardinality(ArgMinFaces(r.qs[j], vp, r.faces)) = 1 \/ ("devall" \in DOMAIN r /\ r.devall)) =>
                  /\ ScalarSame(w.d0.pt, w.d2.pt, TS) /\ ("devall" \in DOMAIN r \/ ScalarSame(w.d0.pl, w.d2.pl, TS))
                  /\ PointMoved(T, w.d0.a, w.d2.a, TP) /\ PointMoved(T, w.d0.b, w.d2.b, TP))

\* a counter-clockwise outline built from moved points is the moved outline; the generic point transform moves points
JCcw(r) ==
    LET o == r.out T == r.T IN
    /\ Clause(i, "C03.ccw.finite", o.finite)
    /\ Clause(i, "C03.ccw.same_outcome", o.e0.ok = o.e1.ok /\ o.e0.closed = o.e1.closed)
    /\ Clause(i, "C03.ccw.vertices_move", SeqMoved(T, o.e0.verts, o.e1.verts, TP))
    /\ Clause(i, "C03.points.transform_points", SeqMoved(T, o.in, o.g0, TP))

JCloud(r) ==
    LET o == r.out T == r.T IN
    /\ Clause(i, "C03.cloud.points_move", SeqMoved(T, o.p0, o.p1, TP) /\ SeqNear(o.p1, o.pm, 1))
    /\ Clause(i, "C03.cloud.normals_only_rotate", SeqRotated(T, o.n0, o.n1, TN))

JDist(r) ==
    LET o == r.out T == r.T IN
    /\ Clause(i, "C03.distance.to_3d", ScalarSame(o.v2, o.v3, TS) /\ PointMoved(T, o.a2, o.a3, TP) /\ PointMoved(T, o.b2, o.b3, TP) /\ DirRotated(T, o.n2, o.n3, TN))
    /\ Clause(i, "C03.distance.to_2d", ScalarSame(o.v2, o.vb, TS) /\ PointMoved(T, o.a2, o.ab, TP) /\ PointMoved(T, o.b2, o.bb, TP) /\ DirRotated(T, o.n2, o.nb, TN))
    /\ Clause(i, "C03.distance.reversal_keeps_value", ScalarSame(o.v2, o.vr, TS))

\* signed 2D profile deviations (metrology::line_profiles) in three frames: as given (f0), moved by T (f1), moved by T2 after T (f2).
\* The measured points are on the half lattice.  Where the exact closest point is unique, is not an end vertex of an open curve
\* (straight ahead of an end the side is undefined) and the point is off the curve, the signed value is the same in every frame,
\* the reference point moves and its normal rotates.  Dirty inputs: tolerance-merged vertices are the model's Survivors.
JDev2(r) ==
    LET o == r.out b == Built(r.pts, 0, r.fc, 2) v == DblSeq(b) closed == IsClosedV(b, 0, 2)
        Fair(q) == /\ UniqueFoot(q, v) /\ CurveMinD2(q, v)[1] > 0
                   /\ (~closed => (~REq(CurveMinD2(q, v), <<D2(q, v[1]), 1>>) /\ ~REq(CurveMinD2(q, v), <<D2(q, v[Len(v)]), 1>>))) IN
    /\ Clause(i, "C03.dev2.finite", o.finite)
    /\ Clause(i, "C03.dev2.shape", Len(o.f0) = Len(r.qs) /\ Len(o.f1) = Len(r.qs) /\ Len(o.f2) = Len(r.qs))
    /\ (Len(o.f0) = Len(r.qs) /\ Len(o.f1) = Len(r.qs) /\ Len(o.f2) = Len(r.qs)) =>
        /\ ClauseAll(i, "C03.dev2.signed_deviation_invariant", 1..Len(r.qs), LAMBDA j :
              Fair(r.qs[j]) => ScalarSame(o.f0[j].v, o.f1[j].v, TS) /\ ScalarSame(o.f1[j].v, o.f2[j].v, TS))
        /\ ClauseAll(i, "C03.dev2.reference_point_equivariant", 1..Len(r.qs), LAMBDA j :
              Fair(r.qs[j]) => /\ PointMoved(r.T, o.f0[j].p, o.f1[j].p, TP) /\ PointMoved(r.T2, o.f1[j].p, o.f2[j].p, TP)
                               /\ DirRotated(r.T, o.f0[j].n, o.f1[j].n, TN) /\ DirRotated(r.T2, o.f1[j].n, o.f2[j].n, TN))

Judge(r) ==
    /\ Sane(i, r)
    /\ Ran(r) =>
        CASE r.op = "sp" -> JSp(r) [] r.op = "curve" -> JCurve(r) [] r.op = "seg" -> JSeg(r) [] r.op = "mesh" -> JMesh(r) [] r.op = "meshopt" -> JMeshOpt(r) [] r.op = "ccw" -> JCcw(r) [] r.op = "dev2" -> JDev2(r)
          [] r.op = "cloud" -> JCloud(r) [] r.op = "dist" -> JDist(r) [] r.op = "reset" -> TRUE [] OTHER -> Clause(i, "unknown-op", FALSE)
Init == i = 1
Next == i <= Len(Rec) /\ Judge(Rec[i]) /\ i' = i + 1
Spec == Init /\ [][Next]_i
Post == TLCGet("stats").diameter - 1 = Len(Rec)
=============================================================================
