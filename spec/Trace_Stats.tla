---------------------------- MODULE Trace_Stats ----------------------------
(* Judge for the statistics / flatten extension (an `extra` stage: rejections are EXTRA-SPEC-NOTE, never a verdict).           *)
(* Observations are quantised to 1/256 after the harness has taken scale and offset off again.                                 *)
EXTENDS Stats, JudgeBase
VARIABLE i
QS == 256
JStats(r) ==
    LET o == r.out v == r.vals n == Len(v) IN
    IF ~Defined(v) THEN Clause(i, "X.stats.empty_is_an_error", ~o.mean.some /\ ~o.var.some /\ ~o.sd.some /\ ~o.median.some)
    ELSE
    /\ Clause(i, "X.stats.defined", o.mean.some /\ o.var.some /\ o.sd.some /\ o.median.some /\ o.finite)
    /\ (o.mean.some /\ o.var.some /\ o.sd.some /\ o.median.some) =>
        /\ Clause(i, "X.stats.mean", AbsV(o.mean.q * n - QS * Sum(v)) <= n)
        /\ Clause(i, "X.stats.variance", AbsV(o.var.q * VarR(v)[2] - QS * VarR(v)[1]) <= VarR(v)[2])
        /\ Clause(i, "X.stats.median", AbsV(2 * o.median.q - QS * Median2(v)) <= 2)
        \* st_dev^2 = variance: (sd.q / QS)^2 within the quantisation of sd
        /\ Clause(i, "X.stats.st_dev", AbsV(o.sd.q * o.sd.q * VarR(v)[2] - QS * QS * VarR(v)[1]) <= (2 * o.sd.q + 1) * VarR(v)[2])
JUnflatten(r) ==
    LET o == r.out v == r.vals IN
    IF ~UnflattenDefined(v, r.d) THEN Clause(i, "X.unflatten.rejects_wrong_count", ~o.ok)
    ELSE /\ Clause(i, "X.unflatten.accepts", o.ok)
         /\ o.ok => /\ Clause(i, "X.unflatten.points", o.points = Unflatten(v, r.d))
                    /\ Clause(i, "X.unflatten.round_trip", o.flat = v)
Judge(r) ==
    /\ Sane(i, r)
    /\ Ran(r) => CASE r.op = "stats" -> JStats(r) [] r.op = "unflatten" -> JUnflatten(r) [] r.op = "reset" -> TRUE [] OTHER -> Clause(i, "unknown-op", FALSE)
Init == i = 1
Next == i <= Len(Rec) /\ Judge(Rec[i]) /\ i' = i + 1
Spec == Init /\ [][Next]_i
Post == TLCGet("stats").diameter - 1 = Len(Rec)
=============================================================================
