------------------------------ MODULE Collide ------------------------------
(* Growth beyond the listed properties: geom3::MeshCollisionSet as a state     *)
(* machine.  State: the meshes added so far (kind stationary / moving, ids are *)
(* handed out in order of insertion) and a set of unordered exception pairs.   *)
(* check_all(transforms, stop_at_first) reports                                *)
(*   - for stop_at_first = FALSE every pair <<a, b>> with a moving, b # a,     *)
(*     b stationary or (b moving and a < b), not excepted, whose meshes        *)
(*     intersect after the transforms - each once, in any order (hash order);  *)
(*   - for stop_at_first = TRUE at most one such pair per moving mesh a, and   *)
(*     one exactly when the full answer has a pair starting with a;            *)
(*   - an error when a transform names an id that does not exist.              *)
(* Geometry is kept trivial and exact: mesh i is the lattice box               *)
(* [x, x + W] x [i, i + W] x [i, i + W]; two boxes intersect iff their x       *)
(* ranges overlap (distances of exactly W - touching faces - are never         *)
(* generated).  A behaviour is a sequence of operations; the abstract state is *)
(* folded over it by the judge and explored exhaustively by TLC (laws below).  *)
EXTENDS Integers, Sequences, FiniteSets

W == 4
AbsI(x) == IF x < 0 THEN -x ELSE x
Empty == [kinds |-> <<>>, xs |-> <<>>, excs |-> {}]
N(S) == Len(S.kinds)
Ids(S) == 0..(N(S) - 1)
Moving(S, a) == S.kinds[a + 1]
Pair(a, b) == IF a <= b THEN <<a, b>> ELSE <<b, a>>

\* ---- operations on the abstract state
AddMesh(S, moving, x) == [S EXCEPT !.kinds = Append(@, moving), !.xs = Append(@, x)]
AddExc(S, a, b) == [S EXCEPT !.excs = @ \cup {Pair(a, b)}]
Apply(S, op) == CASE op.k = "add" -> AddMesh(S, op.moving, op.x)
                  [] op.k = "exc" -> AddExc(S, op.a, op.b)
                  [] OTHER -> S

\* ---- check_all: tx = sequence of <<id, shift along x>> (later entries win, as in the library's lookup table)
RECURSIVE ShiftOf(_, _, _)
ShiftOf(tx, a, k) == IF k = 0 THEN 0 ELSE IF tx[k][1] = a THEN tx[k][2] ELSE ShiftOf(tx, a, k - 1)
PosOf(S, tx, a) == S.xs[a + 1] + ShiftOf(tx, a, Len(tx))
Hit(S, tx, a, b) == AbsI(PosOf(S, tx, a) - PosOf(S, tx, b)) < W
Touch(S, tx) == \E a, b \in Ids(S) : a # b /\ AbsI(PosOf(S, tx, a) - PosOf(S, tx, b)) = W
BadId(S, tx) == \E k \in 1..Len(tx) : tx[k][1] >= N(S)
Full(S, tx) == {p \in Ids(S) \X Ids(S) :
                   /\ Moving(S, p[1]) /\ p[1] # p[2]
                   /\ (~Moving(S, p[2]) \/ p[1] < p[2])
                   /\ Pair(p[1], p[2]) \notin S.excs
                   /\ Hit(S, tx, p[1], p[2])}
\* observation o = [ok, pairs]
CheckOK(S, op, o) ==
    IF BadId(S, op.tx) THEN ~o.ok
    ELSE /\ o.ok
         /\ LET got == {<<o.pairs[k][1], o.pairs[k][2]>> : k \in 1..Len(o.pairs)} full == Full(S, op.tx) IN
            /\ Cardinality(got) = Len(o.pairs)                                   \* nothing reported twice
            /\ IF op.first
               THEN /\ got \subseteq full
                    /\ \A a \in Ids(S) : Cardinality({p \in got : p[1] = a}) <= 1
                    /\ \A a \in Ids(S) : (\E p \in full : p[1] = a) => (\E p \in got : p[1] = a)
               ELSE got = full

=============================================================================
