CONSTANTS
  NPerm = 3
  NPose = 2
  AllDiagonals = FALSE
SPECIFICATION Spec
INVARIANT Emit Laws
CHECK_DEADLOCK FALSE
