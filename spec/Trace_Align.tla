----------------------------- MODULE Trace_Align -----------------------------
(* Judge for C07: the final alignment result and the recorded protocol events  *)
(* (set_params / residuals / jacobian from the cfg(engeom_verif) hooks).       *)
EXTENDS Rigid, JudgeBase
VARIABLE i

TolR == 96          \* residuals: 2^-20 units
RECURSIVE SumSeq(_, _)
SumSeq(s, k) == IF k = 0 THEN 0 ELSE s[k] + SumSeq(s, k - 1)

\* parameters in force at event k: those of the last "set" before it (none yet: whatever the first res/jac reports)
RECURSIVE LastSet(_, _)
LastSet(ev, k) == IF k = 0 THEN <<>> ELSE IF ev[k].ev = "set" THEN ev[k].x ELSE LastSet(ev, k - 1)
ProtocolOK(ev) == \A k \in 1..Len(ev) :
    /\ ev[k].ev \in {"set", "res", "jac"}
    /\ ev[k].ev \in {"res", "jac"} => LET x == LastSet(ev, k - 1) IN x = <<>> \/ x = ev[k].x
EventsHonest(ev) == \A k \in 1..Len(ev) : ev[k].ev = "res" =>
    /\ Len(ev[k].r) = Len(ev[k].d)
    /\ \A j \in 1..Len(ev[k].r) : AbsV(ev[k].r[j] - ev[k].d[j]) <= TolR

JAlign(r) ==
    LET o == r.out n == Len(r.samples) IN
    /\ Clause(i, "C07.finite", o.finite)
    /\ Clause(i, "C07.hook_events_present", o.hook_ok /\ o.nevents >= 2)
    /\ Clause(i, "C07.protocol.cache_follows_params", ProtocolOK(o.events))
    /\ Clause(i, "C07.protocol.every_residual_vector_honest", EventsHonest(o.events))
    /\ r.basin => Clause(i, "C07.succeeds_in_basin", o.ok)
    /\ o.ok =>
        /\ Clause(i, "C07.shape", Len(o.rep) = n /\ Len(o.der) = n /\ Len(o.moved) = n)
        /\ (Len(o.rep) = n /\ Len(o.der) = n /\ Len(o.moved) = n) =>
            /\ ClauseAll(i, "C07.residuals_describe_returned_transform", 1..n, LAMBDA j : AbsV(o.rep[j] - o.der[j]) <= TolR)
            /\ Clause(i, "C07.ssq_not_larger_than_at_start", o.ssq1 <= o.ssq0 + 4)
            /\ Clause(i, "C07.avg_residual", AbsV(n * o.avg - SumSeq(o.rep, n)) <= 2 * n)
            /\ r.basin => ClauseAll(i, "C07.recovers_displacement", 1..n, LAMBDA j :
                   \A a \in 1..3 : AbsV(o.moved[j][a] - 2048 * r.samples[j][a] - 4096 * r.off[a]) <= 12)

Judge(r) ==
    /\ Sane(i, r)
    /\ Ran(r) => CASE r.op \in {"curve", "mesh"} -> JAlign(r) [] r.op = "reset" -> TRUE [] OTHER -> Clause(i, "unknown-op", FALSE)
Init == i = 1
Next == i <= Len(Rec) /\ Judge(Rec[i]) /\ i' = i + 1
Spec == Init /\ [][Next]_i
Post == TLCGet("stats").diameter - 1 = Len(Rec)
=============================================================================
