CONSTANTS
  Starts <- StartsQuick
  Gaps <- GapsQuick
  MaxLen = 3
  YS <- YSQuick
  NS <- NSQuick
  Spacings <- SpacingsQuick
  Levels <- LevelsQuick
SPECIFICATION Spec
INVARIANT Emit Laws
CHECK_DEADLOCK FALSE
