CONSTANTS
  Vals <- ValsQuick
  MaxNew = 2
  Pushes = 4
  Scale = 3
SPECIFICATION Spec
INVARIANT Emit AlgCorrect AlgIndicesValid ZoneLaw
CHECK_DEADLOCK FALSE
