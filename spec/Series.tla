------------------------------- MODULE Series -------------------------------
(* L1 semantics for C17: discrete domains and piecewise-linear series        *)
(* (engeom DiscreteDomain / Series1) on an exact discrete domain.            *)
(*                                                                           *)
(* Abscissae are integers in units of 1/240, ordinates integers in units of  *)
(* 1/5040 (NAN is a sentinel ordinate).  A series is a record                *)
(* [xs |-> <<..>>, ys |-> <<..>>].  State-changing operations are exact:      *)
(* when a result is not representable in these units the operator reports   *)
(* unrep (no verdict, never a violation).  Queries carry an infinitesimal    *)
(* <<X, e>>, e in {-1,0,1} (one ulp below / at / above X).                   *)
(* Every operation yields a record                                           *)
(*   [fail  |-> a failure (panic / Err) is an acceptable outcome,            *)
(*    free  |-> any structurally valid object is acceptable,                 *)
(*    unrep |-> outside the exact domain,                                    *)
(*    cands |-> the set of acceptable results otherwise]                     *)
(* so that everything the property statement leaves open (which of several   *)
(* equal abscissae a search lands on, what a slice does beyond the parent's  *)
(* domain, whether an ill-posed request fails or is repaired) stays open.    *)
EXTENDS Integers, Sequences, FiniteSets

DX  == 240          \* abscissa units per 1.0
DY  == 5040         \* ordinate units per 1.0
X4  == 60           \* abscissa units per quarter (inputs live on the quarter lattice)
L4  == 1260         \* ordinate units per quarter (levels)
QXU == 256          \* observation quanta per abscissa unit (61440 per 1.0)
QYU == 4            \* observation quanta per ordinate unit (20160 per 1.0)
NAN == 100000000
XB  == 8 * DX       \* bounds of the exact domain used by the bounded instances
YB  == 8 * DY

AbsS(x) == IF x < 0 THEN -x ELSE x
MinS(a, b) == IF a < b THEN a ELSE b
MaxS(a, b) == IF a > b THEN a ELSE b
RECURSIVE Gcd(_, _)
Gcd(a, b) == IF b = 0 THEN a ELSE Gcd(b, a % b)

Mk(xs, ys) == [xs |-> xs, ys |-> ys]
Empty == Mk(<<>>, <<>>)
N(s) == Len(s.xs)
XMin(s) == s.xs[1]
XMax(s) == s.xs[Len(s.xs)]
Rev(q) == [k \in 1..Len(q) |-> q[Len(q) + 1 - k]]

\* ------------------------------------------------------------------ the invariant of the property
Sorted(s)  == \A k \in 1..(Len(s.xs) - 1) : s.xs[k] <= s.xs[k + 1]
Finite(s)  == \A k \in 1..Len(s.xs) : s.xs[k] # NAN /\ AbsS(s.xs[k]) <= 64 * DX
SameLen(s) == Len(s.xs) = Len(s.ys)
Valid(s)   == Sorted(s) /\ Finite(s) /\ SameLen(s)
\* inside the window of the bounded instances (keeps every product below 2^31)
InDom(s) == /\ Valid(s)
            /\ \A k \in 1..Len(s.xs) : AbsS(s.xs[k]) <= XB
            /\ \A k \in 1..Len(s.ys) : s.ys[k] = NAN \/ AbsS(s.ys[k]) <= YB
AnyNan(s) == \E k \in 1..Len(s.ys) : s.ys[k] = NAN

Res(fail, free, unrep, cands) == [fail |-> fail, free |-> free, unrep |-> unrep, cands |-> cands]
Exactly(c)   == Res(FALSE, FALSE, FALSE, {c})
OneOf(cs)    == Res(FALSE, FALSE, FALSE, cs)
FreeRes      == Res(TRUE, TRUE, FALSE, {})
Unrep        == Res(FALSE, FALSE, TRUE, {})
FailOr(cs)   == Res(TRUE, FALSE, FALSE, cs)

\* ------------------------------------------------------------------ the interpolant (exact)
KnotIdx(s, X) == {k \in 1..N(s) : s.xs[k] = X}
\* segment strictly containing X (only used when X is inside the domain and not a knot)
SegOf(s, X) == CHOOSE k \in 1..(N(s) - 1) : s.xs[k] < X /\ X < s.xs[k + 1]
BlendRep(y0, y1, X, X0, X1) == y0 = NAN \/ y1 = NAN \/ ((y1 - y0) * (X - X0)) % (X1 - X0) = 0
BlendVal(y0, y1, X, X0, X1) == IF y0 = NAN \/ y1 = NAN THEN NAN ELSE y0 + ((y1 - y0) * (X - X0)) \div (X1 - X0)
\* allowed exact values of f(X), X inside [xmin, xmax]: any stored value at a knot, else the blend
FVals(s, X) ==
    IF KnotIdx(s, X) # {} THEN {s.ys[k] : k \in KnotIdx(s, X)}
    ELSE LET k == SegOf(s, X) IN {BlendVal(s.ys[k], s.ys[k + 1], X, s.xs[k], s.xs[k + 1])}
FRep(s, X) ==
    KnotIdx(s, X) # {} \/ LET k == SegOf(s, X) IN BlendRep(s.ys[k], s.ys[k + 1], X, s.xs[k], s.xs[k + 1])

\* ------------------------------------------------------------------ pointwise maps
ScaleL1(s, sx2, sy) ==      \* x -> x * sx2/2, y -> y * sy
    IF \E k \in 1..N(s) : (s.xs[k] * sx2) % 2 # 0 THEN Unrep
    ELSE LET xs == [k \in 1..N(s) |-> (s.xs[k] * sx2) \div 2]
             ys == [k \in 1..Len(s.ys) |-> IF s.ys[k] = NAN THEN NAN ELSE s.ys[k] * sy] IN
         IF sx2 > 0 THEN Exactly(Mk(xs, ys))
         ELSE IF sx2 < 0 THEN Exactly(Mk(Rev(xs), Rev(ys)))
         ELSE OneOf({Mk(xs, ys), Mk(xs, Rev(ys))})      \* all abscissae 0: either order
ShiftL1(s, dx, dy) ==
    Exactly(Mk([k \in 1..N(s) |-> s.xs[k] + dx], [k \in 1..Len(s.ys) |-> IF s.ys[k] = NAN THEN NAN ELSE s.ys[k] + dy]))
AbsL1(s) == Exactly(Mk(s.xs, [k \in 1..Len(s.ys) |-> IF s.ys[k] = NAN THEN NAN ELSE AbsS(s.ys[k])]))
RECURSIVE KeepIdx(_, _)
KeepIdx(s, k) == IF k > N(s) THEN <<>> ELSE (IF s.ys[k] = NAN THEN <<>> ELSE <<k>>) \o KeepIdx(s, k + 1)
RemoveNanL1(s) == LET ix == KeepIdx(s, 1) IN
    Exactly(Mk([j \in 1..Len(ix) |-> s.xs[ix[j]]], [j \in 1..Len(ix) |-> s.ys[ix[j]]]))

\* ------------------------------------------------------------------ slices
CntLt(s, X)  == Cardinality({k \in 1..N(s) : s.xs[k] < X})
CntLeq(s, X) == Cardinality({k \in 1..N(s) : s.xs[k] <= X})
Sub(s, a, b) == Mk(SubSeq(s.xs, a, b), SubSeq(s.ys, a, b))
Cat(p, q) == Mk(p.xs \o q.xs, p.ys \o q.ys)
Pt(X, Y) == Mk(<<X>>, <<Y>>)
SliceRep(s, A, B) == FRep(s, A) /\ FRep(s, B)
\* slices of s over [A, B], xmin <= A <= B <= xmax.  Among equal abscissae at A any suffix of the
\* group may be kept, at B any prefix (the function on the interval is the same)
SliceCands(s, A, B) ==
    LET iA == CntLt(s, A) jA == CntLeq(s, A) iB == CntLt(s, B) jB == CntLeq(s, B) IN
    IF A = B THEN
        IF jA > iA THEN {Sub(s, a, b) : a \in (iA + 1)..jA, b \in (iA + 1)..jA} \ {Empty}
        ELSE {Pt(A, v) : v \in FVals(s, A)}
    ELSE
        LET heads == IF jA > iA THEN {Empty} ELSE {Pt(A, v) : v \in FVals(s, A)}
            tails == IF jB > iB THEN {Empty} ELSE {Pt(B, v) : v \in FVals(s, B)}
            starts == IF jA > iA THEN (iA + 1)..jA ELSE {jA + 1}
            stops == IF jB > iB THEN (iB + 1)..jB ELSE {iB} IN
        {Cat(Cat(h, Sub(s, a, b)), t) : h \in heads, t \in tails, a \in starts, b \in stops}
\* between(A, B) for arbitrary requests
BetweenL1(s, A, B) ==
    IF N(s) = 0 THEN FreeRes
    ELSE LET lo == XMin(s) hi == XMax(s) IN
    IF A > B THEN   \* reversed request: a failure, nothing, or the slice over the ordered bounds
        IF B < lo \/ A > hi THEN FreeRes
        ELSE IF ~SliceRep(s, B, A) THEN Unrep ELSE FailOr(SliceCands(s, B, A) \cup {Empty})
    ELSE LET A1 == MaxS(A, lo) B1 == MinS(B, hi) IN
    IF A1 > B1 THEN FreeRes                    \* no overlap with the domain
    ELSE IF ~SliceRep(s, A1, B1) THEN Unrep
    ELSE LET pre == IF A < lo THEN {Empty, Pt(A, NAN)} ELSE {Empty}
             post == IF B > hi THEN {Empty, Pt(B, NAN)} ELSE {Empty} IN
         Res(A < lo \/ B > hi, FALSE, FALSE,
             {Cat(Cat(p, c), q) : p \in pre, c \in SliceCands(s, A1, B1), q \in post})
\* split_at_x: [a |-> result record or "none", b |-> ...]
NoPiece == [none |-> TRUE]
SplitL1(s, X) ==
    IF N(s) = 0 THEN [free |-> TRUE, unrep |-> FALSE, a |-> {}, b |-> {}]
    ELSE IF X > XMax(s) THEN [free |-> FALSE, unrep |-> FALSE, a |-> {s}, b |-> {NoPiece}]
    ELSE IF X < XMin(s) THEN [free |-> FALSE, unrep |-> FALSE, a |-> {NoPiece}, b |-> {s}]
    ELSE IF ~FRep(s, X) THEN [free |-> FALSE, unrep |-> TRUE, a |-> {}, b |-> {}]
    ELSE [free |-> FALSE, unrep |-> FALSE, a |-> SliceCands(s, XMin(s), X), b |-> SliceCands(s, X, XMax(s))]

\* ------------------------------------------------------------------ resampling
RECURSIVE SeqProd(_)
SeqProd(sets) == IF sets = <<>> THEN {<<>>} ELSE {<<h>> \o t : h \in Head(sets), t \in SeqProd(Tail(sets))}
ResampleRep(s, n) ==
    LET span == XMax(s) - XMin(s) IN
    /\ span % (n - 1) = 0
    /\ \A k \in 0..(n - 1) : FRep(s, XMin(s) + k * (span \div (n - 1)))
ResampleCands(s, n) ==      \* n >= 2, representable
    LET span == XMax(s) - XMin(s)
        xs == [k \in 1..n |-> XMin(s) + (k - 1) * (span \div (n - 1))] IN
    {Mk(xs, ys) : ys \in SeqProd([k \in 1..n |-> FVals(s, xs[k])])}
EndPts(s) == {Pt(XMin(s), v) : v \in FVals(s, XMin(s))} \cup {Pt(XMax(s), v) : v \in FVals(s, XMax(s))}
ResampleNL1(s, n) ==
    IF N(s) = 0 THEN FreeRes
    ELSE IF n = 0 THEN FailOr({Empty})
    ELSE IF n = 1 THEN FailOr(EndPts(s))
    ELSE IF ~ResampleRep(s, n) THEN Unrep
    ELSE OneOf(ResampleCands(s, n))
\* spacing S > 0 (abscissa units): evenly spaced, both ends kept, gap at most S, no more points than
\* the documented ceil(span/S + 1) (one more tolerated when span/S is a whole number)
ResampleXL1(s, S) ==
    IF N(s) = 0 \/ S <= 0 THEN FreeRes
    ELSE LET span == XMax(s) - XMin(s) IN
    IF span = 0 THEN OneOf(EndPts(s) \cup ResampleCands(s, 2))
    ELSE LET c == (span + S - 1) \div S
             n1 == c + 1 IN
         IF ~ResampleRep(s, n1) THEN Unrep
         ELSE OneOf(ResampleCands(s, n1) \cup
                    (IF span % S = 0 /\ ResampleRep(s, n1 + 1) THEN ResampleCands(s, n1 + 1) ELSE {}))

\* ------------------------------------------------------------------ exactness of the floating point image
\* A flag record [xex, yex] says whether the abscissae / ordinates of the library's series are exactly the
\* abstract numbers (inputs on the quarter lattice, integer ordinates, and exact maps of them) or may differ
\* from them by rounding (interpolated ordinates, abscissae built from a step that is not a binary fraction).
ExactFlags == [xex |-> TRUE, yex |-> TRUE]
Dyadic(X) == X % 15 = 0                      \* multiples of 1/16
AllKnots(b, xs) == \A k \in 1..Len(xs) : KnotIdx(b, xs[k]) # {}
SliceFlags(fb, b, bounds) ==                 \* bounds: the cut abscissae that lie inside the domain
    [xex |-> fb.xex, yex |-> fb.yex /\ \A X \in bounds : KnotIdx(b, X) # {}]
ResampleFlags(fb, b, c) ==                   \* c: the resampled series
    LET step == IF N(c) >= 2 THEN c.xs[2] - c.xs[1] ELSE 0
        xex == fb.xex /\ Dyadic(step) /\ Dyadic(XMin(b)) IN
    [xex |-> xex, yex |-> fb.yex /\ xex /\ AllKnots(b, c.xs)]
\* a cut abscissa that nominally coincides with an inexact interior abscissa is decided by rounding
TiedCut(fb, b, X) == ~fb.xex /\ \E k \in 2..(N(b) - 1) : b.xs[k] = X

\* ------------------------------------------------------------------ queries with infinitesimals
QLess(q, K)    == q[1] < K \/ (q[1] = K /\ q[2] < 0)
QGreater(q, K) == q[1] > K \/ (q[1] = K /\ q[2] > 0)
QKnot(s, q)    == q[2] = 0 /\ KnotIdx(s, q[1]) # {}
Outside(s, q)  == N(s) = 0 \/ QLess(q, XMin(s)) \/ QGreater(q, XMax(s))
\* the segment k with xs[k] < q < xs[k+1] in the infinitesimal order (q inside, not a knot)
QSeg(s, q) == CHOOSE k \in 1..(N(s) - 1) : QGreater(q, s.xs[k]) /\ QLess(q, s.xs[k + 1])
\* blend in observation quanta, rounded down (error < 1 quantum)
BlendQ(y0, y1, X, X0, X1) ==
    LET g == Gcd(X - X0, X1 - X0)
        num == (X - X0) \div g
        den == (X1 - X0) \div g IN
    QYU * y0 + (QYU * (y1 - y0) * num) \div den
\* observation o = <<quantised value, class>>; class 0 finite, 1 NaN, 2/3 infinite
ValMatch(Y, o, tol) == IF Y = NAN THEN o[2] = 1 ELSE o[2] = 0 /\ AbsS(o[1] - QYU * Y) <= tol
InterpOK(s, q, o, tol) ==
    IF N(s) = 0 THEN TRUE
    ELSE IF Outside(s, q) THEN o[2] = 1
    ELSE IF QKnot(s, q) THEN \E k \in KnotIdx(s, q[1]) : ValMatch(s.ys[k], o, tol)
    ELSE LET k == QSeg(s, q) y0 == s.ys[k] y1 == s.ys[k + 1] IN
         IF y0 = NAN \/ y1 = NAN THEN o[2] = 1
         ELSE o[2] = 0 /\ AbsS(o[1] - BlendQ(y0, y1, q[1], s.xs[k], s.xs[k + 1])) <= tol + 1
\* index_of: None (-1) outside; an index holding the value itself if present, else the lower neighbour.
\* xex: the abscissae are exact binary numbers; otherwise (resampled with a step that is not) a probe that
\* nominally coincides with an interior abscissa is decided by rounding and is not judged
TieFree(xs, q, xex) == ~xex /\ \E k \in 2..(Len(xs) - 1) : xs[k] = q[1]
IndexOfOK(xs, q, idx, xex) ==
    LET s == Mk(xs, xs) IN
    IF TieFree(xs, q, xex) THEN TRUE
    ELSE IF Outside(s, q) THEN idx = -1
    ELSE /\ idx \in 0..(Len(xs) - 1)
         /\ IF QKnot(s, q) THEN xs[idx + 1] = q[1]
            ELSE idx + 2 <= Len(xs) /\ QGreater(q, xs[idx + 1]) /\ QLess(q, xs[idx + 2])
\* index_of_x_after: first index whose abscissa is >= x (any of several equal ones), len if none
IndexAfterOK(xs, q, ia, xex) ==
    LET s == Mk(xs, xs) n == Len(xs) IN
    IF TieFree(xs, q, xex) THEN TRUE
    ELSE
    /\ ia \in 0..n
    /\ ia < n => ~QGreater(q, xs[ia + 1])
    /\ IF QKnot(s, q) THEN ia < n /\ xs[ia + 1] = q[1]
       ELSE ia > 0 => QGreater(q, xs[ia])

\* area under the graph in area quanta (10080 per unit), each trapezoid rounded down
RECURSIVE AreaFrom(_, _)
AreaFrom(s, k) == IF k >= N(s) THEN 0
                  ELSE ((s.xs[k + 1] - s.xs[k]) * (s.ys[k] + s.ys[k + 1])) \div DX + AreaFrom(s, k + 1)
AreaQ(s) == AreaFrom(s, 1)

\* ------------------------------------------------------------------ level crossings
\* proper segment: distinct abscissae, finite distinct ordinates, level inside the closed ordinate range
Proper(s, k, C) == /\ s.xs[k] < s.xs[k + 1] /\ s.ys[k] # NAN /\ s.ys[k + 1] # NAN /\ s.ys[k] # s.ys[k + 1]
                   /\ MinS(s.ys[k], s.ys[k + 1]) <= C /\ C <= MaxS(s.ys[k], s.ys[k + 1])
\* crossing abscissa of a proper segment in abscissa quanta (rounded down) with an identity tag
CrossT(s, k, C) ==
    LET up == s.ys[k + 1] > s.ys[k]
        a == IF up THEN C - s.ys[k] ELSE s.ys[k] - C
        b == IF up THEN s.ys[k + 1] - s.ys[k] ELSE s.ys[k] - s.ys[k + 1]
        g == Gcd(a, b)
        a1 == a \div g
        b1 == b \div g
        t == a1 * (s.xs[k + 1] - s.xs[k])
        qd == t \div b1
        r == t % b1 IN
    IF a = 0 THEN [t |-> <<"k", s.xs[k]>>, q |-> QXU * s.xs[k]]
    ELSE IF a = b THEN [t |-> <<"k", s.xs[k + 1]>>, q |-> QXU * s.xs[k + 1]]
    ELSE [t |-> <<"i", k>>, q |-> QXU * (s.xs[k] + qd) + (QXU * r) \div b1]
\* the isolated solutions of f(x) = C on proper segments must be reported
CrossRequired(s, C) == {CrossT(s, k, C) : k \in {k \in 1..(N(s) - 1) : Proper(s, k, C)}}
\* may be reported: any knot storing the level (ends of a plateau at the level, single points), and the
\* abscissa of a vertical step that spans the level
CrossOptional(s, C) ==
    {[t |-> <<"k", s.xs[k]>>, q |-> QXU * s.xs[k]] : k \in {k \in 1..N(s) : s.ys[k] = C}} \cup
    {[t |-> <<"k", s.xs[k]>>, q |-> QXU * s.xs[k]] :
        k \in {k \in 1..(N(s) - 1) : /\ s.xs[k] = s.xs[k + 1] /\ s.ys[k] # NAN /\ s.ys[k + 1] # NAN
                                      /\ MinS(s.ys[k], s.ys[k + 1]) <= C /\ C <= MaxS(s.ys[k], s.ys[k + 1])}}
\* When ordinates were computed by the library (interpolated end points, resampled values) a nominal tie
\* "stored ordinate = level" is decided by rounding: only crossings strictly inside a segment and knots where
\* the graph passes through the level with a change of side remain required (they are found within an ulp of
\* the knot on one of the two segments); every other knot on the level is optional.
CrossRequiredLoose(s, C) ==
    {CrossT(s, k, C) : k \in {k \in 1..(N(s) - 1) : Proper(s, k, C) /\ s.ys[k] # C /\ s.ys[k + 1] # C}} \cup
    {[t |-> <<"k", s.xs[k]>>, q |-> QXU * s.xs[k]] :
        k \in {k \in 2..(N(s) - 1) : /\ s.ys[k] = C /\ s.xs[k - 1] < s.xs[k] /\ s.xs[k] < s.xs[k + 1]
                                      /\ s.ys[k - 1] # NAN /\ s.ys[k + 1] # NAN
                                      /\ ((s.ys[k - 1] < C /\ s.ys[k + 1] > C) \/ (s.ys[k - 1] > C /\ s.ys[k + 1] < C))}}
CrossReq(s, C, exact) == IF exact THEN CrossRequired(s, C) ELSE CrossRequiredLoose(s, C)
\* ox: sequence of <<quantum, class>>; asc: exact three-way comparisons of consecutive reported values;
\* exact: the ordinates of s are exact binary numbers (inputs and exact maps of inputs)
\* a nominally flat segment on the level whose ordinates carry rounding noise is really a very shallow slope:
\* the library may then find a crossing anywhere inside it
FlatSegs(s, C) == {k \in 1..(N(s) - 1) : s.xs[k] < s.xs[k + 1] /\ s.ys[k] = C /\ s.ys[k + 1] = C}
InFlat(s, C, q, tol) == \E k \in FlatSegs(s, C) : QXU * s.xs[k] - tol <= q /\ q <= QXU * s.xs[k + 1] + tol
CrossOK(s, C, ox, asc, tol, exact) ==
    LET R == CrossReq(s, C, exact) T == CrossRequired(s, C) \cup CrossOptional(s, C) IN
    /\ \A j \in 1..Len(ox) : ox[j][2] = 0
    /\ \A j \in 1..Len(asc) : asc[j] = -1
    /\ \A j \in 1..Len(ox) : (\E t \in T : AbsS(ox[j][1] - t.q) <= tol) \/ (~exact /\ InFlat(s, C, ox[j][1], tol))
    /\ \A t \in R : \E j \in 1..Len(ox) : AbsS(ox[j][1] - t.q) <= tol
    /\ Len(ox) <= Cardinality({t.t : t \in T}) + (IF exact THEN 0 ELSE Cardinality(FlatSegs(s, C)))

\* plateau_at_maxima(x, tol): the interval around x on which the interpolant stays above f(x) - tol, bounded by
\* the nearest level crossings or the ends of the domain.  Prescribed only where that reading is unambiguous:
\* strictly ascending abscissae, no NaN, f(x) exactly representable, no stored ordinate on the level.
StrictXs(s) == \A k \in 1..(N(s) - 1) : s.xs[k] < s.xs[k + 1]
PlateauOK(s, X, tolY, o, tol) ==
    IF Outside(s, <<X, 0>>) THEN ~o.some
    ELSE IF N(s) < 2 \/ ~StrictXs(s) \/ AnyNan(s) \/ ~FRep(s, X) \/ tolY <= 0 THEN TRUE
    ELSE LET v == CHOOSE y \in FVals(s, X) : TRUE
             C == v - tolY
             flat == \E k \in 1..N(s) : s.ys[k] = C        \* a stored ordinate on the level: plateau or rounding tie
             T == {t.q : t \in CrossRequired(s, C)} \cup (IF s.ys[1] > C THEN {QXU * XMin(s)} ELSE {})
                                                     \cup (IF s.ys[N(s)] > C THEN {QXU * XMax(s)} ELSE {})
             xq == QXU * X
             \* x itself is a bound only when it is an end of the domain; the interval then extends inwards
             left == IF X = XMax(s) THEN {t \in T : t < xq} ELSE {t \in T : t <= xq}
             right == IF X = XMin(s) THEN {t \in T : t > xq} ELSE {t \in T : t >= xq} IN
         IF flat THEN TRUE
         ELSE /\ o.some /\ left # {} /\ right # {}
              /\ o.lo[2] = 0 /\ AbsS(o.lo[1] - (CHOOSE t \in left : \A u \in left : u <= t)) <= tol
              /\ o.hi[2] = 0 /\ AbsS(o.hi[1] - (CHOOSE t \in right : \A u \in right : u >= t)) <= tol

\* ------------------------------------------------------------------ discrete domains
BadCode(c) == c > 9000
DomInputOK(vals) == /\ \A k \in 1..Len(vals) : ~BadCode(vals[k])
                    /\ \A k \in 1..(Len(vals) - 1) : vals[k] <= vals[k + 1]
\* push history: accepted iff finite and not below the last accepted value
RECURSIVE PushRun(_, _, _)
PushRun(cur, vals, k) ==
    IF k > Len(vals) THEN [vals |-> cur, oks |-> <<>>]
    ELSE LET v == vals[k]
             ok == ~BadCode(v) /\ (cur = <<>> \/ v >= cur[Len(cur)])
             rest == PushRun(IF ok THEN Append(cur, v) ELSE cur, vals, k + 1) IN
         [vals |-> rest.vals, oks |-> <<ok>> \o rest.oks]
\* linear spacing: value k (1-based) of n between lo and hi, in abscissa quanta, rounded down
LinQ(lo, hi, n, k) == QXU * lo + (QXU * (k - 1) * (hi - lo)) \div (n - 1)
=============================================================================
