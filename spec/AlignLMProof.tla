---------------------------- MODULE AlignLMProof ----------------------------
(* Unbounded safety proof (TLAPS) of the protocol machine of AlignLM.tla: for  *)
(* ANY set of parameter vectors and histories of ANY length, when set_params   *)
(* refreshes the cache, everything ever reported was computed from the cache   *)
(* of the parameters in force.  TLC checks the same invariants for 3 parameter *)
(* vectors and histories of length <= 4 (MC_C07_protocol.cfg) and refutes them *)
(* for the variant without the refresh (MC_C07_negative.cfg).                  *)
EXTENDS AlignLM, TLAPS

ASSUME RefreshOn == Refresh = TRUE

Calls == {"res", "jac", "result"}
RecT == [call : Calls, at : ParamIds, from : ParamIds]
TypeOK == /\ phase \in {"new", "run", "done"}
          /\ params \in ParamIds
          /\ cacheOf \in ParamIds
          /\ reported \in Seq(RecT)
Inv == TypeOK /\ CacheCoherent /\ Honest

LEMMA InitInv == Init => Inv
  BY DEF Init, Inv, TypeOK, CacheCoherent, Honest, RecT, Calls

LEMMA NextInv == Inv /\ [Next]_vars => Inv'
<1> SUFFICES ASSUME Inv, [Next]_vars PROVE Inv'
  OBVIOUS
<1>1. ASSUME NEW x \in ParamIds, SetParams(x) PROVE Inv'
  BY <1>1, RefreshOn DEF SetParams, Inv, TypeOK, CacheCoherent, Honest
<1>2. ASSUME Residuals PROVE Inv'
  <2> DEFINE e == [call |-> "res", at |-> params, from |-> cacheOf]
  <2>1. e \in RecT /\ e.from = e.at
    BY DEF Inv, TypeOK, CacheCoherent, RecT, Calls
  <2>2. reported' = Append(reported, e) /\ params' = params /\ cacheOf' = cacheOf /\ phase' = "run"
    BY <1>2 DEF Residuals
  <2>3. reported' \in Seq(RecT)
    BY <2>1, <2>2 DEF Inv, TypeOK
  <2>4. \A k \in 1..Len(reported') : reported'[k].from = reported'[k].at
    BY <2>1, <2>2 DEF Inv, TypeOK, Honest
  <2> QED BY <2>2, <2>3, <2>4 DEF Inv, TypeOK, CacheCoherent, Honest
<1>3. ASSUME Jacobian PROVE Inv'
  <2> DEFINE e == [call |-> "jac", at |-> params, from |-> cacheOf]
  <2>1. e \in RecT /\ e.from = e.at
    BY DEF Inv, TypeOK, CacheCoherent, RecT, Calls
  <2>2. reported' = Append(reported, e) /\ params' = params /\ cacheOf' = cacheOf /\ phase' = "run"
    BY <1>3 DEF Jacobian
  <2>3. reported' \in Seq(RecT)
    BY <2>1, <2>2 DEF Inv, TypeOK
  <2>4. \A k \in 1..Len(reported') : reported'[k].from = reported'[k].at
    BY <2>1, <2>2 DEF Inv, TypeOK, Honest
  <2> QED BY <2>2, <2>3, <2>4 DEF Inv, TypeOK, CacheCoherent, Honest
<1>4. ASSUME Finish PROVE Inv'
  <2> DEFINE e == [call |-> "result", at |-> params, from |-> cacheOf]
  <2>1. e \in RecT /\ e.from = e.at
    BY DEF Inv, TypeOK, CacheCoherent, RecT, Calls
  <2>2. reported' = Append(reported, e) /\ params' = params /\ cacheOf' = cacheOf /\ phase' = "done"
    BY <1>4 DEF Finish
  <2>3. reported' \in Seq(RecT)
    BY <2>1, <2>2 DEF Inv, TypeOK
  <2>4. \A k \in 1..Len(reported') : reported'[k].from = reported'[k].at
    BY <2>1, <2>2 DEF Inv, TypeOK, Honest
  <2> QED BY <2>2, <2>3, <2>4 DEF Inv, TypeOK, CacheCoherent, Honest
<1>5. ASSUME UNCHANGED vars PROVE Inv'
  BY <1>5 DEF vars, Inv, TypeOK, CacheCoherent, Honest
<1> QED BY <1>1, <1>2, <1>3, <1>4, <1>5 DEF Next

THEOREM Safety == Spec => []Inv
  BY InitInv, NextInv, PTL DEF Spec

COROLLARY Spec => [](Honest /\ CacheCoherent)
  BY Safety, PTL DEF Inv
=============================================================================
