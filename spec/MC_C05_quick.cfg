CONSTANTS
  G = 2
  MaxN = 6
  NScales = 3
SPECIFICATION Spec
INVARIANT Emit Laws
CHECK_DEADLOCK FALSE
