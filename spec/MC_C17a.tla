------------------------------- MODULE MC_C17a ------------------------------
(* L2 for C17: transcription of Series1::between (binary search for the      *)
(* first bound, insertion of the interpolated boundary points, copy loop,    *)
(* validating constructor) as a state machine, one action per search / loop  *)
(* iteration / insertion.  Rust's binary search may land on any of several   *)
(* equal abscissae: that choice is an existential.  TLC checks over every    *)
(* root series and every pair of bounds of the bounded instance that         *)
(*   - the output under construction stays sorted with as many ordinates as  *)
(*     abscissae after every step (inductive invariant),                     *)
(*   - a completed run yields a member of the L1 set BetweenL1 (refinement), *)
(*   - the algorithm fails only where L1 allows a failure,                   *)
(*   - the loop index never passes the end (termination bound).              *)
(* Variant "fixed" is the repaired algorithm (bounds ordered first);         *)
(* variant "orig" is the algorithm as found: TLC refutes it (reversed bounds *)
(* give a collapsed one-point slice), see MC_C17a_orig.cfg.                  *)
EXTENDS Series, TLC
CONSTANTS Starts, Gaps, MaxLen, YS, Variant

VARIABLES sr, A, B, ca, cb, pc, ix, oxs, oys
vars == <<sr, A, B, ca, cb, pc, ix, oxs, oys>>

RECURSIVE XsFrom(_, _)
XsFrom(k, last) == IF k = 0 THEN {<<>>} ELSE UNION {{<<last + g>> \o t : t \in XsFrom(k - 1, last + g)} : g \in Gaps}
RootXs == UNION {{<<x>> \o t : t \in XsFrom(n - 1, x)} : x \in Starts, n \in 1..MaxLen}
RECURSIVE YsOf(_)
YsOf(n) == IF n = 0 THEN {<<>>} ELSE {<<y>> \o t : y \in YS, t \in YsOf(n - 1)}
Roots == UNION {{Mk([k \in 1..Len(xs) |-> xs[k] * X4], [k \in 1..Len(ys) |-> ys[k] * DY]) : ys \in YsOf(Len(xs))} : xs \in RootXs}
Pos(r) == {p * X4 : p \in ((XMin(r) \div X4) - 2)..((XMax(r) \div X4) + 2)}

\* Series1::interpolate as the code computes it: NaN outside, any matching knot, else the blend
Inside(r, x) == XMin(r) <= x /\ x <= XMax(r)
InterpL2(r, x) == IF ~Inside(r, x) THEN {NAN} ELSE FVals(r, x)
Exact(r, x) == IF Inside(r, x) THEN FRep(r, x) ELSE TRUE     \* (no disjunction: TLC would explore both sides in Init)

Init == /\ sr \in Roots
        /\ A \in Pos(sr) /\ B \in Pos(sr)
        /\ (Exact(sr, A) /\ Exact(sr, B)) = TRUE      \* "= TRUE": evaluated as a value (TLC explores both sides of a disjunction in Init)
        /\ ca = A /\ cb = B /\ pc = "start" /\ ix = 0 /\ oxs = <<>> /\ oys = <<>>

Order == /\ pc = "start" /\ pc' = "search"
         /\ IF Variant = "fixed" /\ B < A THEN ca' = B /\ cb' = A ELSE UNCHANGED <<ca, cb>>
         /\ UNCHANGED <<sr, A, B, ix, oxs, oys>>
\* binary_search_by: Ok(any index holding ca) or Err(number of abscissae below ca)
Search == /\ pc = "search" /\ pc' = "loop"
          /\ IF KnotIdx(sr, ca) # {}
             THEN \E k \in KnotIdx(sr, ca) : ix' = k /\ UNCHANGED <<oxs, oys>>
             ELSE LET nx == CntLt(sr, ca) IN
                  IF nx = 0 THEN ix' = 1 /\ UNCHANGED <<oxs, oys>>
                  ELSE \E v \in InterpL2(sr, ca) : oxs' = <<ca>> /\ oys' = <<v>> /\ ix' = nx + 1
          /\ UNCHANGED <<sr, A, B, ca, cb>>
Loop == /\ pc = "loop"
        /\ IF ix <= N(sr) /\ sr.xs[ix] <= cb
           THEN oxs' = Append(oxs, sr.xs[ix]) /\ oys' = Append(oys, sr.ys[ix]) /\ ix' = ix + 1 /\ pc' = "loop"
           ELSE pc' = "tail" /\ UNCHANGED <<ix, oxs, oys>>
        /\ UNCHANGED <<sr, A, B, ca, cb>>
Closing ==
        /\ pc = "tail"
        /\ IF oxs = <<>> THEN pc' = "panic" /\ UNCHANGED <<oxs, oys>>       \* xs[xs.len() - 1] on an empty vector
           ELSE IF oxs[Len(oxs)] < cb
                THEN \E v \in InterpL2(sr, cb) : oxs' = Append(oxs, cb) /\ oys' = Append(oys, v) /\ pc' = "check"
                ELSE pc' = "check" /\ UNCHANGED <<oxs, oys>>
        /\ UNCHANGED <<sr, A, B, ca, cb, ix>>
\* DiscreteDomain::try_from(xs).unwrap()
Check == /\ pc = "check" /\ pc' = (IF Sorted(Mk(oxs, oys)) THEN "done" ELSE "panic")
         /\ UNCHANGED <<sr, A, B, ca, cb, ix, oxs, oys>>
Next == Order \/ Search \/ Loop \/ Closing \/ Check
Spec == Init /\ [][Next]_vars /\ WF_vars(Next)

Out == Mk(oxs, oys)
\* inductive invariant of the construction
StepInv == /\ Len(oxs) = Len(oys) /\ Sorted(Out) /\ Finite(Out)
           /\ ix <= N(sr) + 1
           /\ Len(oxs) <= N(sr) + 2
Refines == pc = "done" => LET L == BetweenL1(sr, A, B) IN /\ Valid(Out) /\ (L.free \/ Out \in L.cands)
FailsOnlyWhereAllowed == pc = "panic" => BetweenL1(sr, A, B).fail
Terminates == <>(pc \in {"done", "panic"})

StartsQ == {-4}
GapsQ == {0, 2, 6}
YSQ == {-1, 2}
StartsT == {-4, 2}
GapsT == {0, 2, 6}
YST == {-1, 0, 2}
=============================================================================
