CONSTANTS
  MaxDepth = 1
  RootSet = "curated"
  Sim = FALSE
  AllControl = TRUE
SPECIFICATION Spec
INVARIANT Emit Laws
CHECK_DEADLOCK FALSE
