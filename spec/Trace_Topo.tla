----------------------------- MODULE Trace_Topo -----------------------------
(* Judge for C12: observations of calc_edges / get_patches (several           *)
(* repetitions = several hash orders), chained_indices, clusters_from_sparse  *)
(* and the primitive generators against the L1 operators of MeshTopo.         *)
EXTENDS MeshTopo, JudgeBase

VARIABLE i

Inc(s) == [j \in 1..Len(s) |-> s[j] + 1]                  \* 0-based ids of the library -> 1-based
IncAll(ss) == [a \in 1..Len(ss) |-> Inc(ss[a])]
D2v(p, q) == (p[1]-q[1])*(p[1]-q[1]) + (p[2]-q[2])*(p[2]-q[2]) + (p[3]-q[3])*(p[3]-q[3])

JMesh(r) ==
    LET o == r.out fs == r.faces IN
    /\ Clause(i, "C12.edges.ok", o.edges_ok)
    /\ Clause(i, "C12.finite", o.finite)
    /\ o.edges_ok =>
        /\ Clause(i, "C12.edge_table", EdgeTableOK(fs, o.table.edges, IncAll(o.table.face_edges)))
        /\ Clause(i, "C12.edge_lengths", /\ Len(o.table.elen) = Len(o.table.edges)
               /\ \A j \in 1..Len(o.table.edges) :
                     LET d2 == D2v(r.vpos[o.table.edges[j][1] + 1], r.vpos[o.table.edges[j][2] + 1]) q == o.table.elen[j] IN
                     AbsV(q * q - 1048576 * d2) <= 3 * q + 3)
        /\ Clause(i, "C12.loops.count_reps", Len(o.loops) = r.reps)
        /\ Clause(i, "C12.loops.partition_boundary", \A k \in 1..Len(o.loops) : LoopsOK(fs, o.loops[k]))
        /\ Clause(i, "C12.loops.order_independent", \A k \in 1..Len(o.loops) : LoopsAsSets(o.loops[k]) = LoopsAsSets(o.loops[1]))
    /\ Clause(i, "C12.patches.partition", \A k \in 1..Len(o.patches) : PatchesOK(fs, IncAll(o.patches[k])))
    /\ Clause(i, "C12.patches.count_reps", Len(o.patches) = r.reps)

JChain(r) ==
    /\ Clause(i, "C12.chain.exactly_once_contiguous", ChainsOK(r.pairs, r.out.chains))
    /\ Simple(r.pairs) => Clause(i, "C12.chain.maximal", ChainsMaximal(r.out.chains))

JVoxels(r) ==
    LET S == {r.cells[j] : j \in 1..Len(r.cells)} IN
    Clause(i, "C12.voxels.partition", \A k \in 1..Len(r.out.clusters) : ClustersOK(S, r.out.clusters[k]))

JPrim(r) ==
    LET o == r.out fs == [k \in 1..Len(o.faces) |-> <<o.faces[k][1], o.faces[k][2], o.faces[k][3]>>] IN
    /\ Clause(i, "C12.prim.finite", o.finite)
    /\ Clause(i, "C12.prim.manifold", Manifold(fs) /\ \A k \in 1..Len(fs) : ProperFace(fs[k]))
    /\ Clause(i, "C12.prim.consistent_winding", Consistent(fs))
    /\ Clause(i, "C12.prim.outward_normals", \A k \in 1..Len(o.outward) : o.outward[k] > 0)
    /\ r.kind = "box" => Clause(i, "C12.prim.box_watertight", Watertight(fs) /\ Len(fs) = 12)
    /\ r.kind = "cyl" => Clause(i, "C12.prim.cylinder_faces", Len(fs) = 2 * r.c /\ Cardinality(BoundaryUE(fs)) = 2 * r.c)

Judge(r) ==
    /\ Sane(i, r)
    /\ Ran(r) =>
        CASE r.op = "mesh"   -> JMesh(r)
          [] r.op = "chain"  -> JChain(r)
          [] r.op = "voxels" -> JVoxels(r)
          [] r.op = "prim"   -> JPrim(r)
          [] r.op = "reset"  -> TRUE
          [] OTHER           -> Clause(i, "unknown-op", FALSE)

Init == i = 1
Next == i <= Len(Rec) /\ Judge(Rec[i]) /\ i' = i + 1
Spec == Init /\ [][Next]_i
Post == TLCGet("stats").diameter - 1 = Len(Rec)
=============================================================================
