------------------------------- MODULE MC_C01 -------------------------------
(* Bounded instance for C01: enumerates every input vertex sequence of up to *)
(* MaxV lattice points on 0..G x 0..G whose steps have integer length        *)
(* (including repeated points and steps that the tolerance merges), every     *)
(* construction flag and scale, and emits one case per curve carrying the     *)
(* query lists; also checks the laws of the Curve module on every instance.   *)
EXTENDS Curve, TLC, Json
CONSTANTS G, MaxV, NScales, Dims

VARIABLES pts, phase, flags
vars == <<pts, phase, flags>>

Grid == {<<x, y, 0>> : x \in 0..G, y \in 0..G}
ScaleExp == <<0, -10, 4, -3>>
Lift(p, dim, lift) == IF dim = 2 \/ lift = 0 THEN p ELSE IF lift = 1 THEN <<0, p[1], p[2]>> ELSE <<p[2], 0, p[1]>>
LiftSeq(s, dim, lift) == [k \in 1..Len(s) |-> Lift(s[k], dim, lift)]

NoFlags == [tolU |-> 0, fc |-> FALSE, sc |-> 0, dim |-> 2, lift |-> 0]

Init == /\ pts \in {<<p>> : p \in Grid} /\ phase = "build" /\ flags = NoFlags

Extend == /\ phase = "build" /\ Len(pts) < MaxV
          /\ \E p \in Grid : /\ (p = pts[Len(pts)] \/ ELen(pts[Len(pts)], p) > 0)
                             /\ pts' = Append(pts, p)
          /\ UNCHANGED <<phase, flags>>

WellPosed(f) ==
    LET s == Survivors(pts, f.tolU) b == Built(pts, f.tolU, f.fc, f.dim) IN
    /\ Unambiguous(pts, f.tolU)
    /\ (Within(s[1], s[Len(s)], f.tolU) => s[1] = s[Len(s)] \/ Len(s) = 1)
    /\ b # <<>> => IntegerEdges(b)

Finish == /\ phase = "build" /\ Len(pts) >= 2
          /\ \E tu \in {0, 1}, fc \in BOOLEAN, si \in 1..NScales, dim \in Dims, lift \in 0..2 :
                LET f == [tolU |-> tu, fc |-> fc, sc |-> ScaleExp[si], dim |-> dim, lift |-> lift] IN
                /\ (dim = 2 => lift = 0) /\ (dim = 3 => ~fc)
                /\ WellPosed(f)
                /\ flags' = f
          /\ phase' = "done" /\ UNCHANGED pts

Next == Extend \/ Finish
Spec == Init /\ [][Next]_vars

\* ---- the case emitted for a finished instance
BuiltNow == Built(pts, flags.tolU, flags.fc, flags.dim)
RECURSIVE VertexQs(_, _)
VertexQs(c, k) == IF k > Len(c) THEN <<>> ELSE <<<<2 * c[k], -1>>, <<2 * c[k], 1>>>> \o VertexQs(c, k + 1)
Queries(v) == LET tot == 2 * TotalLen(v) IN
    [j \in 1..(tot + 3) |-> <<j - 2, 0>>] \o VertexQs(Cum(v), 1)
Fractions(v) == LET tot == 2 * TotalLen(v) IN [j \in 1..(tot + 3) |-> j - 2]

Case == LET v == BuiltNow IN
    [m |-> "curve", op |-> "stations", dim |-> flags.dim, tolU |-> flags.tolU, fc |-> flags.fc, sc |-> flags.sc,
     pts |-> LiftSeq(pts, flags.dim, flags.lift),
     ls |-> IF v = <<>> THEN <<>> ELSE Queries(v),
     fs |-> IF v = <<>> THEN <<>> ELSE Fractions(v)]

Emit == phase = "done" => PrintT(<<"CASE", ToJson(Case)>>)

Laws == phase = "done" /\ BuiltNow # <<>> =>
    LET v == BuiltNow IN
    /\ LawCum(v)
    /\ \A l2 \in -1..(2 * TotalLen(v) + 1), e \in {-1, 0, 1} : LawPosTotal(v, l2, e)
    \* an exact vertex hit and its two infinitesimal neighbours name the same point
    /\ \A k \in 1..Len(v) : PointAt(v, 2 * Cum(v)[k])[1] = VScale(PointAt(v, 2 * Cum(v)[k])[2], v[k])
=============================================================================
