CONSTANTS
  Topo = "fan3"
  Memo = "vertex"
  AokPerVertex = FALSE
  Rotate = TRUE
SPECIFICATION Spec
INVARIANT Refines MemoSound PassesExact FacingExact Bounded
CHECK_DEADLOCK FALSE
