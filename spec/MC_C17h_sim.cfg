CONSTANTS
  MaxDepth = 4
  RootSet = "curated"
  Sim = TRUE
  Levels <- LevelsThorough
SPECIFICATION Spec
INVARIANT Emit SortedFiniteSameLength FunctionPreserved ResampledOnGraph
CHECK_DEADLOCK FALSE
