CONSTANTS
  Starts <- StartsThorough
  Gaps <- GapsThorough
  MaxLen = 4
  YS <- YSThorough
  NS <- NSThorough
  Spacings <- SpacingsThorough
  Levels <- LevelsThorough
SPECIFICATION Spec
INVARIANT Emit Laws
CHECK_DEADLOCK FALSE
