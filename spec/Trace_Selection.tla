--------------------------- MODULE Trace_Selection ---------------------------
(* Judge for C14.  A behaviour is a "mesh" record (mesh, start selection)     *)
(* followed by "step" records (mode, criterion), each applied by the real     *)
(* library to the selection left by the previous step.  The abstract          *)
(* selection `sel` advances by Apply of module Selection; the set of faces    *)
(* satisfying the step's criterion is the exact lattice verdict where the     *)
(* specification can compute it, and the library's own answer on that face    *)
(* alone (a selection holding / lacking exactly that face) where the verdict  *)
(* is "free" or the scene is not on the exact domain - the property says      *)
(* precisely that this per-face answer is well defined.                       *)
EXTENDS Selection, JudgeBase

VARIABLES i, root, sel, skip

QM == 1024          \* quantum of logged vertex coordinates (harness: QM)

ClauseB(name, cond) == IF cond THEN TRUE ELSE (PrintT(<<"REJECT", i, name>>) /\ FALSE)

Inc(s) == {s[j] + 1 : j \in 1..Len(s)}                     \* 0-based ids of the library -> set of 1-based ids
IsSetList(s, nf) == /\ \A j \in 1..Len(s) : s[j] \in 0..(nf - 1)
                    /\ Cardinality(Inc(s)) = Len(s)        \* collect() is a set: no index twice

\* ---------------------------------------------------------------- the mesh built from a selection
JMesh(vpos, faces, want, o) ==
    IF want = {} THEN
        \* an empty selection has no representation as a Mesh (no error channel): failing is allowed, but a mesh
        \* that is returned must be empty
        IF ~o.ok THEN TRUE ELSE ClauseB("C14.mesh.triangles", Len(o.faces) = 0 /\ Len(o.verts) = 0)
    ELSE
        /\ ClauseB("C14.mesh.built", o.ok)
        /\ ClauseB("C14.mesh.index_range", MeshIndexOK(o) /\ \A k \in 1..Len(o.verts) : Len(o.verts[k]) = 3)
        /\ ClauseB("C14.mesh.triangles", MeshTriangles(vpos, faces, want, QM, o))
        /\ ClauseB("C14.mesh.vertices", MeshVertices(faces, want, o))

\* ---------------------------------------------------------------- selections observed after a prefix of the chain
JSelections(nf, reps, want, o, tag) ==
    /\ ClauseB("C14.shape", /\ o.nf = nf /\ Len(o.sels) = reps /\ reps >= 1
                            /\ \A k \in 1..Len(o.sels) : IsSetList(o.sels[k], nf)
                            /\ \A k \in 1..Len(o.perm_sels) : IsSetList(o.perm_sels[k], nf))
    /\ ClauseB(tag, Inc(o.sels[1]) = want)
    /\ ClauseB("C14.step.run_independent", \A k \in 1..Len(o.sels) : Inc(o.sels[k]) = Inc(o.sels[1]))
    /\ ClauseB("C14.step.face_order_independent", \A k \in 1..Len(o.perm_sels) : Inc(o.perm_sels[k]) = Inc(o.sels[1]))

JRoot(r) ==
    LET o == r.out nf == Len(r.faces) want == StartSel(r.start, nf) IN
    /\ ClauseB("C14.finite", o.finite)
    /\ JSelections(nf, r.reps, want, o, "C14.start.selection")
    /\ JMesh(r.vpos, r.faces, want, o.mesh)

AlgebraTag(mode) == CASE mode = "add" -> "C14.add.union" [] mode = "remove" -> "C14.remove.difference"
                      [] OTHER -> "C14.keep.intersection"
Exact(c) == "ex" \in DOMAIN c /\ c.ex
\* faces satisfying the step's criterion: exact verdict, else the library's answer on the face alone
SatOf(r) == LET nf == Len(root.faces) c == r.crit IN
            {f \in 1..nf : IF Exact(c) /\ Verdict(root.vpos, root.faces, f, c) # "free"
                           THEN Verdict(root.vpos, root.faces, f, c) = "T" ELSE r.out.iso[f]}
IsoShape(r) == LET nf == Len(root.faces) o == r.out IN Len(o.iso) = nf /\ Len(o.iso_rem) = nf /\ Len(o.iso_add) = nf
NextSel(r) == Apply(r.mode, sel, SatOf(r))

JStep(r) ==
    LET o == r.out nf == Len(root.faces) c == r.crit IN
    /\ ClauseB("C14.finite", o.finite)
    /\ ClauseB("C14.shape", IsoShape(r))
    \* the per-face answer is the same whichever of the three operations evaluates it
    /\ ClauseB("C14.predicate.well_defined", o.iso = o.iso_rem /\ o.iso = o.iso_add)
    /\ Exact(c) => ClauseB("C14." \o c.kind \o ".predicate",
                           \A f \in 1..nf : Agrees(Verdict(root.vpos, root.faces, f, c), o.iso[f]))
    /\ JSelections(nf, root.reps, NextSel(r), o, AlgebraTag(r.mode))
    /\ JMesh(root.vpos, root.faces, NextSel(r), o.mesh)

\* ---------------------------------------------------------------- stateless: Mesh::create_from_indices
JCfi(r) ==
    LET o == r.out want == {r.idx[j] + 1 : j \in 1..Len(r.idx)} IN
    /\ Sane(i, r)
    /\ Ran(r) => /\ ClauseB("C14.finite", o.finite)
                 /\ JMesh(r.vpos, r.faces, want, o.mesh)

NoRoot == [has |-> FALSE, vpos |-> <<>>, faces |-> <<>>, reps |-> 0]
Init == i = 1 /\ root = NoRoot /\ sel = {} /\ skip = FALSE
Next ==
    /\ i <= Len(Rec)
    /\ i' = i + 1
    /\ LET r == Rec[i] IN
       IF r.op = "reset" THEN root' = NoRoot /\ sel' = {} /\ skip' = FALSE
       ELSE IF r.op = "cfi" THEN (IF JCfi(r) THEN TRUE ELSE TRUE) /\ UNCHANGED <<root, sel, skip>>
       ELSE IF skip THEN UNCHANGED <<root, sel, skip>>
       ELSE IF ~Ran(r) THEN Sane(i, r) /\ skip' = TRUE /\ UNCHANGED <<root, sel>>
       ELSE IF r.op = "mesh" THEN
            LET ok == JRoot(r) IN
            /\ skip' = ~ok /\ root' = [has |-> TRUE, vpos |-> r.vpos, faces |-> r.faces, reps |-> r.reps]
            /\ sel' = StartSel(r.start, Len(r.faces))
       ELSE IF r.op = "step" /\ root.has THEN
            LET ok == JStep(r) IN
            /\ skip' = ~ok /\ UNCHANGED root
            /\ sel' = IF IsoShape(r) THEN NextSel(r) ELSE sel
       ELSE Clause(i, "unknown-op", FALSE) /\ UNCHANGED <<root, sel, skip>>
Spec == Init /\ [][Next]_<<i, root, sel, skip>>
Post == TLCGet("stats").diameter - 1 = Len(Rec)
=============================================================================
