---------------------------- MODULE Trace_Series ----------------------------
(* Judge for C17: every observation recorded from DiscreteDomain / Series1   *)
(* must be allowed by the L1 semantics of module Series.  Stateful: a root   *)
(* series, then operations applied to the root ("on":"root") or to the       *)
(* previous result; the abstract current series advances by the              *)
(* specification's own transition (the candidate of the allowed set that     *)
(* matches what was observed), never by copying the log.                     *)
EXTENDS Series, JudgeBase

VARIABLES i, root, cur, skip, dead, rfl, cfl      \* rfl / cfl: exactness flags of root / current series

TX == 3      \* tolerance in abscissa quanta (1/61440)
TY == 3      \* tolerance in ordinate quanta (1/20160)

ClauseB(name, cond) == IF cond THEN TRUE ELSE (PrintT(<<"REJECT", i, name>>) /\ FALSE)
Note(name) == PrintT(<<"NOTE", name, 1>>)

XOf(c) == c * X4
YOf(c) == IF c = 99 THEN NAN ELSE c * DY
SeriesOf(xs, ys) == Mk([k \in 1..Len(xs) |-> XOf(xs[k])], [k \in 1..Len(ys) |-> YOf(ys[k])])
QOf(t) == <<XOf(t[1]), t[2]>>
Ts(r) == IF "ts" \in DOMAIN r THEN r.ts ELSE <<>>
Lv(r) == IF "lv" \in DOMAIN r THEN r.lv ELSE <<>>

\* ------------------------------------------------------------------ structure (first sentence of C17)
ShapeOK(o) == /\ Len(o.xs) = o.n /\ Len(o.ys) = o.ylen /\ Len(o.asc) = MaxV(o.n - 1, 0)
StructOK(tag, o) ==
    /\ ClauseB("C17." \o tag \o ".shape", ShapeOK(o))
    /\ ClauseB("C17." \o tag \o ".finite_abscissae", o.fin /\ \A k \in 1..Len(o.xs) : o.xs[k][2] = 0)
    /\ ClauseB("C17." \o tag \o ".ascending", \A k \in 1..Len(o.asc) : o.asc[k] \in {-1, 0})
    /\ ClauseB("C17." \o tag \o ".same_length", o.ylen = o.n)
\* does the observed series coincide with the abstract series c ?
Match(c, o) ==
    /\ N(c) = o.n /\ Len(o.xs) = o.n /\ Len(o.ys) = o.n
    /\ \A k \in 1..N(c) : /\ o.xs[k][2] = 0 /\ AbsV(o.xs[k][1] - QXU * c.xs[k]) <= TX
                          /\ ValMatch(c.ys[k], o.ys[k], TY)
Matching(cands, o) == {c \in cands : Match(c, o)}

\* ------------------------------------------------------------------ queries on a series known to be c
Has(o, f) == f \in DOMAIN o
NoP(o, f) == Has(o, f) /\ ~o[f].p
MidOK(c, k, v) ==
    IF c.xs[k] = c.xs[k + 1] THEN \E j \in KnotIdx(c, c.xs[k]) : ValMatch(c.ys[j], v, TY)
    ELSE IF c.ys[k] = NAN \/ c.ys[k + 1] = NAN THEN v[2] = 1
    ELSE v[2] = 0 /\ AbsV(v[1] - 2 * (c.ys[k] + c.ys[k + 1])) <= TY
B0OK(c, b, exact) ==
    LET n == Len(b.iv)
        R == CrossReq(c, 0, exact)
        T == CrossRequired(c, 0) \cup CrossOptional(c, 0)
        lo == QXU * XMin(c)
        hi == QXU * XMax(c) IN
    /\ Len(b.ord) = n /\ Len(b.link) = MaxV(n - 1, 0)
    /\ \A j \in 1..n : b.iv[j][1][2] = 0 /\ b.iv[j][2][2] = 0
    /\ \A j \in 1..n : b.ord[j] = -1
    /\ \A j \in 1..(n - 1) : b.link[j] = 0
    /\ XMin(c) < XMax(c) =>
         /\ n >= 1
         /\ AbsV(b.iv[1][1][1] - lo) <= TX /\ AbsV(b.iv[n][2][1] - hi) <= TX
         /\ \A j \in 1..(n - 1) : (\E t \in T : AbsV(b.iv[j][2][1] - t.q) <= TX + 1)
                                     \/ (~exact /\ InFlat(c, 0, b.iv[j][2][1], TX + 1))
         /\ \A t \in R : (t.q > lo + 2 * TX /\ t.q < hi - 2 * TX) =>
                \E j \in 1..(n - 1) : AbsV(b.iv[j][2][1] - t.q) <= TX + 1
         /\ n - 1 <= Cardinality({t.t : t \in T}) + (IF exact THEN 0 ELSE Cardinality(FlatSegs(c, 0)))
\* every query clause is evaluated (no short circuit between clauses); always TRUE at action level
QueriesOK(tag, c, o, r, fl) ==
    IF N(c) = 0 THEN TRUE
    ELSE IF ~(Has(o, "queried") /\ o.queried) THEN Clause(i, "C17." \o tag \o ".queries_ran", FALSE)
    ELSE LET pshape == Has(o, "at") /\ Len(o.at) = Len(Ts(r)) /\ \A j \in 1..Len(o.at) : ~o.at[j].p
             cshape == Has(o, "cross") /\ Len(o.cross) = Len(Lv(r)) IN
    /\ Clause(i, "C17.interpolate.at_knots",
               NoP(o, "knots") /\ Len(o.knots.v) = N(c)
               /\ \A k \in 1..N(c) : \E j \in KnotIdx(c, c.xs[k]) : ValMatch(c.ys[j], o.knots.v[k], TY))
    /\ Clause(i, "C17.interpolate.linear_blend",
               NoP(o, "mids") /\ Len(o.mids.v) = N(c) - 1 /\ \A k \in 1..(N(c) - 1) : MidOK(c, k, o.mids.v[k]))
    /\ Clause(i, "C17.interpolate.nan_outside",
               NoP(o, "below") /\ NoP(o, "above") /\ o.below.v[2] = 1 /\ o.above.v[2] = 1)
    /\ Clause(i, "C17.interpolate.fs_agrees_with_f", NoP(o, "fs") /\ o.fs.agree)
    /\ Clause(i, "C17.x_min_max", /\ o.xmin[2] = 0 /\ AbsV(o.xmin[1] - QXU * XMin(c)) <= TX
                                  /\ o.xmax[2] = 0 /\ AbsV(o.xmax[1] - QXU * XMax(c)) <= TX)
    /\ Clause(i, "C17.probes.no_panic", pshape)
    /\ pshape =>
        /\ Clause(i, "C17.interpolate.probe", \A j \in 1..Len(o.at) : InterpOK(c, QOf(Ts(r)[j]), o.at[j].v, TY))
        /\ Clause(i, "C17.index_of", \A j \in 1..Len(o.at) : IndexOfOK(c.xs, QOf(Ts(r)[j]), o.at[j].io, fl.xex))
        /\ Clause(i, "C17.index_of_x_after", \A j \in 1..Len(o.at) : IndexAfterOK(c.xs, QOf(Ts(r)[j]), o.at[j].ia, fl.xex))
    /\ Clause(i, "C17.area", AnyNan(c) \/ (NoP(o, "area") /\ o.area.v[2] = 0 /\ AbsV(o.area.v[1] - AreaQ(c)) <= N(c) + 2))
    /\ Clause(i, "C17.crossings.shape", cshape)
    /\ cshape =>
        /\ Clause(i, "C17.crossings.no_panic", \A j \in 1..Len(o.cross) : ~o.cross[j].p)
        /\ Clause(i, "C17.crossings", \A j \in 1..Len(o.cross) :
                   o.cross[j].p \/ CrossOK(c, Lv(r)[j] * L4, o.cross[j].xs, o.cross[j].asc, TX + 1, fl.yex))
    /\ LET pl == IF "pl" \in DOMAIN r THEN r.pl ELSE <<>>
           plshape == Has(o, "plateau") /\ Len(o.plateau) = Len(pl) IN
       /\ Clause(i, "C17.plateau_at_maxima.shape", plshape)
       /\ plshape => Clause(i, "C17.plateau_at_maxima", \A j \in 1..Len(pl) :
               IF o.plateau[j].p THEN AnyNan(c)
               ELSE PlateauOK(c, XOf(pl[j][1]), pl[j][2] * L4, o.plateau[j], TX + 1))
    /\ Clause(i, "C17.bounds_at_y0.no_panic", AnyNan(c) \/ NoP(o, "b0"))
    /\ Clause(i, "C17.bounds_at_y0", AnyNan(c) \/ ~NoP(o, "b0") \/ B0OK(c, o.b0, fl.yex))

\* ------------------------------------------------------------------ operations of a history
SeriesOps == {"scale", "shift", "abs", "remove_nan", "between", "interval", "resample_n", "resample_x"}
OpL1(r, b) ==
    CASE r.op = "scale"      -> ScaleL1(b, r.sx2, r.sy)
      [] r.op = "shift"      -> ShiftL1(b, XOf(r.dx4), r.dy * DY)
      [] r.op = "abs"        -> AbsL1(b)
      [] r.op = "remove_nan" -> RemoveNanL1(b)
      [] r.op = "between"    -> BetweenL1(b, XOf(r.a4), XOf(r.b4))
      [] r.op = "interval"   -> BetweenL1(b, MinV(XOf(r.a4), XOf(r.b4)), MaxV(XOf(r.a4), XOf(r.b4)))
      [] r.op = "resample_n" -> ResampleNL1(b, r.n)
      [] r.op = "resample_x" -> ResampleXL1(b, XOf(r.s4))
\* the same, but a cut that nominally coincides with an abscissa the library holds only approximately is not judged
InDomX(b, X) == N(b) > 0 /\ XMin(b) <= X /\ X <= XMax(b)
CutsOf(r) == CASE r.op \in {"between", "interval"} -> {XOf(r.a4), XOf(r.b4)} [] r.op = "split" -> {XOf(r.x4)} [] OTHER -> {}
Tied(r, b, fb) == \E X \in CutsOf(r) : TiedCut(fb, b, X)
OpL1J(r, b, fb) == IF Tied(r, b, fb) THEN FreeRes ELSE OpL1(r, b)
SplitL1J(r, b, fb) == IF Tied(r, b, fb) THEN [free |-> TRUE, unrep |-> FALSE, a |-> {}, b |-> {}] ELSE SplitL1(b, XOf(r.x4))
\* exactness flags of the result nx of r on b
FlagsAfter(r, b, fb, nx) ==
    CASE r.op \in {"between", "interval", "split"} -> SliceFlags(fb, b, {X \in CutsOf(r) : InDomX(b, X)})
      [] r.op \in {"resample_n", "resample_x"} -> ResampleFlags(fb, b, nx)
      [] OTHER -> fb
\* exact end conditions recorded by the harness as three-way comparisons (0 = equal)
EndsOK(r, b, o) ==
    CASE r.op \in {"between", "interval"} ->
            LET A == MinV(XOf(r.a4), XOf(r.b4)) B == MaxV(XOf(r.a4), XOf(r.b4)) IN
            (N(b) > 0 /\ XOf(r.a4) <= XOf(r.b4) /\ A >= XMin(b) /\ B <= XMax(b)) => (o.ends[1] = 0 /\ o.ends[2] = 0)
      [] r.op \in {"resample_n", "resample_x"} ->
            (N(b) > 0 /\ o.s.n >= 2) => (o.ends[1] = 0 /\ o.ends[2] = 0)
      [] OTHER -> TRUE

\* pure: the abstract series after the step ("stuck" when nothing matches / nothing is prescribed)
Stuck == [stuck |-> TRUE]
Same == [same |-> TRUE]      \* the library object was left unchanged (allowed failure, no piece)
NextOfOp(r, b, fb) ==
    LET L == OpL1J(r, b, fb) IN
    IF ~Ran(r) THEN Same
    ELSE IF L.free \/ L.unrep \/ ~("s" \in DOMAIN r.out) THEN Stuck
    ELSE LET ms == Matching(L.cands, r.out.s) IN IF ms = {} THEN Stuck ELSE CHOOSE c \in ms : TRUE
JudgeOp(r, b, fb) ==
    LET L == OpL1J(r, b, fb) o == r.out IN
    IF o.timeout THEN ClauseB("timeout", FALSE)
    ELSE IF o.panic THEN ClauseB("C17." \o r.op \o ".unexpected_failure", L.fail \/ L.unrep)
    ELSE
    /\ ClauseB("C17." \o r.op \o ".result_present", "s" \in DOMAIN o)
    /\ StructOK(r.op, o.s)
    /\ IF L.unrep THEN Note("unrepresentable")
       ELSE IF L.free THEN Note("free")
       ELSE /\ ClauseB("C17." \o r.op \o ".ends_exact", EndsOK(r, b, o))
            /\ ClauseB("C17." \o r.op \o ".result", Matching(L.cands, o.s) # {})

\* split_at_x
PieceMatch(cands, p) ==
    IF ~p.some THEN NoPiece \in cands
    ELSE {c \in cands \ {NoPiece} : Match(c, p)} # {}
PieceOf(cands, p) == IF ~p.some THEN NoPiece ELSE CHOOSE c \in cands \ {NoPiece} : Match(c, p)
NextOfSplit(r, b, fb) ==
    LET L == SplitL1J(r, b, fb) o == r.out IN
    IF ~Ran(r) THEN Same
    ELSE IF L.free \/ L.unrep \/ ~("a" \in DOMAIN o) THEN Stuck
    ELSE LET cs == IF r.keep = 1 THEN L.a ELSE L.b
             p == IF r.keep = 1 THEN o.a ELSE o.b IN
         IF ~PieceMatch(cs, p) THEN Stuck
         ELSE LET c == PieceOf(cs, p) IN IF c = NoPiece THEN Same ELSE c
PieceStruct(tag, p) == IF p.some THEN StructOK(tag, p) ELSE TRUE
JudgeSplit(r, b, fb) ==
    LET L == SplitL1J(r, b, fb) o == r.out X == XOf(r.x4) IN
    IF o.timeout THEN ClauseB("timeout", FALSE)
    ELSE IF o.panic THEN ClauseB("C17.split.unexpected_failure", L.free \/ L.unrep)
    ELSE
    /\ ClauseB("C17.split.result_present", "a" \in DOMAIN o /\ "b" \in DOMAIN o)
    /\ PieceStruct("split.a", o.a) /\ PieceStruct("split.b", o.b)
    /\ IF L.unrep THEN Note("unrepresentable")
       ELSE IF L.free THEN Note("free")
       ELSE /\ ClauseB("C17.split.piece_a", PieceMatch(L.a, o.a))
            /\ ClauseB("C17.split.piece_b", PieceMatch(L.b, o.b))
            /\ (o.a.some /\ o.b.some) =>
                 /\ ClauseB("C17.split.ends_exact", o.cut = <<0, 0>> /\ o.outer = <<0, 0>>)
                 /\ ClauseB("C17.split.areas_add_up",
                        AnyNan(b) \/ (/\ NoP(o.a, "area") /\ NoP(o.b, "area") /\ o.whole[2] = 0
                                      /\ o.a.area.v[2] = 0 /\ o.b.area.v[2] = 0
                                      /\ AbsV(o.a.area.v[1] + o.b.area.v[1] - o.whole[1]) <= 3))

SplitQueries(r, b, fb) ==
    LET L == SplitL1J(r, b, fb) o == r.out fl == FlagsAfter(r, b, fb, b) IN
    /\ (o.a.some /\ PieceMatch(L.a, o.a)) => QueriesOK("split.a", PieceOf(L.a, o.a), o.a, r, fl)
    /\ (o.b.some /\ PieceMatch(L.b, o.b)) => QueriesOK("split.b", PieceOf(L.b, o.b), o.b, r, fl)

\* root: Series1::try_new from coded vectors
RootGood(r) == Len(r.xs) = Len(r.ys) /\ DomInputOK(r.xs)
JudgeRoot(r) ==
    LET o == r.out IN
    IF ~Ran(r) THEN Sane(i, r) /\ FALSE
    ELSE
    /\ ClauseB("C17.try_new.accepts_exactly_valid_input", o.ok = RootGood(r))
    /\ o.ok =>
         /\ StructOK("try_new", o.s)
         /\ ClauseB("C17.try_new.result", Match(SeriesOf(r.xs, r.ys), o.s))

\* ------------------------------------------------------------------ stateless: discrete domains
DomShape(d) == Len(d.xs) = d.n /\ d.len = d.n /\ Len(d.asc) = MaxV(d.n - 1, 0)
DomValid(tag, d) ==
    /\ Clause(i, "C17." \o tag \o ".shape", DomShape(d))
    /\ Clause(i, "C17." \o tag \o ".finite", d.fin /\ \A k \in 1..Len(d.xs) : d.xs[k][2] = 0)
    /\ Clause(i, "C17." \o tag \o ".ascending", \A k \in 1..Len(d.asc) : d.asc[k] \in {-1, 0})
DomEquals(d, vals) == /\ d.n = Len(vals) /\ Len(d.xs) = Len(vals)
                      /\ \A k \in 1..Len(vals) : d.xs[k][2] = 0 /\ AbsV(d.xs[k][1] - QXU * XOf(vals[k])) <= 1
JLinear(r) ==
    LET o == r.out
        lo == MinV(XOf(r.a4), XOf(r.b4))
        hi == MaxV(XOf(r.a4), XOf(r.b4))
        tag == r.kind IN
    IF o.timeout THEN Clause(i, "timeout", FALSE)
    ELSE IF o.panic THEN Clause(i, "C17." \o tag \o ".unexpected_failure", r.n <= 1)
    ELSE LET d == o.dom IN
    /\ DomValid(tag, d)
    /\ Clause(i, "C17." \o tag \o ".count", d.n = r.n)
    /\ (DomShape(d) /\ d.n = r.n /\ d.fin /\ r.n >= 2) =>
         /\ Clause(i, "C17." \o tag \o ".starts_at_lower_bound", o.ends[1] = 0)
         /\ Clause(i, "C17." \o tag \o ".evenly_spaced_to_upper_bound",
                   \A k \in 1..r.n : AbsV(d.xs[k][1] - LinQ(lo, hi, r.n, k)) <= 2)
    /\ (DomShape(d) /\ d.n = 1 /\ r.n = 1 /\ d.fin) =>
         Clause(i, "C17." \o tag \o ".single_value_in_range", QXU * lo - 1 <= d.xs[1][1] /\ d.xs[1][1] <= QXU * hi + 1)
JDomTry(r) ==
    LET o == r.out good == DomInputOK(r.vals) IN
    /\ Sane(i, r)
    /\ Ran(r) =>
       /\ Clause(i, "C17.try_from.accepts_exactly_valid_input", o.ok = good)
       /\ (o.ok /\ good) =>
          LET xs == [k \in 1..Len(r.vals) |-> XOf(r.vals[k])] IN
          /\ DomValid("try_from", o.dom)
          /\ Clause(i, "C17.try_from.values", DomEquals(o.dom, r.vals))
          /\ Clause(i, "C17.domain.index_of", Len(o.idx) = Len(Ts(r)) /\
                       \A j \in 1..Len(o.idx) : IndexOfOK(xs, QOf(Ts(r)[j]), o.idx[j], TRUE))
          /\ Clause(i, "C17.domain.bounds",
                    IF Len(xs) = 0 THEN ~o.bounds.some /\ o.empty
                    ELSE /\ o.bounds.some /\ ~o.empty
                         /\ o.bounds.lo[2] = 0 /\ AbsV(o.bounds.lo[1] - QXU * xs[1]) <= 1
                         /\ o.bounds.hi[2] = 0 /\ AbsV(o.bounds.hi[1] - QXU * xs[Len(xs)]) <= 1)
JDomPush(r) ==
    LET o == r.out run == PushRun(r.init, r.vals, 1) IN
    /\ Sane(i, r)
    /\ Ran(r) =>
       /\ Clause(i, "C17.push.initial_domain", o.ok)
       /\ o.ok =>
          /\ DomValid("push", o.dom)
          /\ Clause(i, "C17.push.accepts_exactly_finite_non_descending", o.oks = run.oks)
          /\ Clause(i, "C17.push.values", DomEquals(o.dom, run.vals))
JSerTry(r) ==
    LET o == r.out IN
    /\ Sane(i, r)
    /\ Ran(r) => /\ Clause(i, "C17.try_new.accepts_exactly_valid_input", o.ok = RootGood(r))
                 /\ (o.ok /\ RootGood(r)) => Clause(i, "C17.try_new.result", Match(SeriesOf(r.xs, r.ys), o.s))
JSerNew(r) ==
    LET o == r.out IN
    IF o.timeout THEN Clause(i, "timeout", FALSE)
    ELSE IF r.ny # Len(r.xs) THEN Clause(i, "C17.new.length_mismatch_must_fail", o.panic)
    ELSE /\ Sane(i, r) /\ Ran(r) => Clause(i, "C17.new.same_length", o.n = Len(r.xs) /\ o.ylen = r.ny)

Stateless(r) == r.op \in {"dom_linear", "dom_try", "dom_push", "ser_try", "ser_new"}
JudgeStateless(r) ==
    CASE r.op = "dom_linear" -> JLinear(r)
      [] r.op = "dom_try"    -> JDomTry(r)
      [] r.op = "dom_push"   -> JDomPush(r)
      [] r.op = "ser_try"    -> JSerTry(r)
      [] r.op = "ser_new"    -> JSerNew(r)

\* ------------------------------------------------------------------ the trace machine
OnRoot(r) == "on" \in DOMAIN r /\ r.on = "root"
Init == i = 1 /\ root = Empty /\ cur = Empty /\ skip = FALSE /\ dead = TRUE /\ rfl = ExactFlags /\ cfl = ExactFlags
Next ==
    /\ i <= Len(Rec)
    /\ i' = i + 1
    /\ LET r == Rec[i] IN
       IF r.op = "reset" THEN root' = Empty /\ cur' = Empty /\ skip' = FALSE /\ dead' = TRUE /\ rfl' = ExactFlags /\ cfl' = ExactFlags
       ELSE IF Stateless(r) THEN JudgeStateless(r) /\ UNCHANGED <<root, cur, skip, dead, rfl, cfl>>
       ELSE IF r.op = "root" THEN
            LET ok == JudgeRoot(r) s == SeriesOf(r.xs, r.ys) IN
            /\ dead' = ~(ok /\ RootGood(r)) /\ skip' = FALSE /\ rfl' = ExactFlags /\ cfl' = ExactFlags
            /\ root' = (IF RootGood(r) THEN s ELSE Empty) /\ cur' = (IF RootGood(r) THEN s ELSE Empty)
            /\ (RootGood(r) /\ Ran(r) /\ r.out.ok /\ Match(s, r.out.s)) => QueriesOK("try_new", s, r.out.s, r, ExactFlags)
       ELSE IF dead \/ (skip /\ ~OnRoot(r)) THEN UNCHANGED <<root, cur, skip, dead, rfl, cfl>>
       ELSE IF r.op \in SeriesOps THEN
            LET b == IF OnRoot(r) THEN root ELSE cur
                fb == IF OnRoot(r) THEN rfl ELSE cfl
                ok == JudgeOp(r, b, fb)
                nx == NextOfOp(r, b, fb)
                moved == nx # Stuck /\ nx # Same IN
            /\ skip' = (~ok \/ nx = Stuck) /\ cur' = (IF moved THEN nx ELSE cur) /\ UNCHANGED <<root, dead, rfl>>
            /\ cfl' = (IF moved THEN FlagsAfter(r, b, fb, nx) ELSE cfl)
            /\ moved => QueriesOK(r.op, nx, r.out.s, r, FlagsAfter(r, b, fb, nx))
       ELSE IF r.op = "split" THEN
            LET b == IF OnRoot(r) THEN root ELSE cur
                fb == IF OnRoot(r) THEN rfl ELSE cfl
                ok == JudgeSplit(r, b, fb)
                nx == NextOfSplit(r, b, fb)
                moved == nx # Stuck /\ nx # Same IN
            /\ skip' = (~ok \/ nx = Stuck) /\ cur' = (IF moved THEN nx ELSE cur) /\ UNCHANGED <<root, dead, rfl>>
            /\ cfl' = (IF moved THEN FlagsAfter(r, b, fb, nx) ELSE cfl)
            /\ (Ran(r) /\ nx # Stuck) => SplitQueries(r, b, fb)
       ELSE Clause(i, "unknown-op", FALSE) /\ UNCHANGED <<root, cur, skip, dead, rfl, cfl>>
Spec == Init /\ [][Next]_<<i, root, cur, skip, dead, rfl, cfl>>
Post == TLCGet("stats").diameter - 1 = Len(Rec)
=============================================================================
