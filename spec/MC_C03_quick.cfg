CONSTANTS
  NAngles = 6
  NTrans = 3
  TwoAxis = FALSE
SPECIFICATION Spec
INVARIANT Emit Proper OracleInvariant
CHECK_DEADLOCK FALSE
