------------------------------- MODULE MC_C16 -------------------------------
(* Bounded instance for the stateless clauses of C16: tolerance maps,         *)
(* directed distances, deviations from curves and from meshes.  TLC checks    *)
(* the laws of the specification (binary search with any pivot refines the    *)
(* L1 table semantics, the local side rule agrees with inside/outside on      *)
(* convex polygons, convexity classification of the meshes) on every case     *)
(* and emits the cases that are replayed into the real library.               *)
EXTENDS Metrology, TLC, Json
CONSTANTS BpVals, MaxBp,      \* breakpoint values / table size
          Margin,             \* query margin around curves and meshes (lattice units)
          Scales, MeshSet, Full

VARIABLE case
vars == <<case>>

\* ------------------------------------------------------------ tolerance maps
Asc(s) == \A k \in 1..(Len(s) - 1) : s[k] <= s[k + 1]
Tables == UNION {{s \in [1..n -> BpVals] : Asc(s)} : n \in 0..MaxBp}
BLo == MinSet(BpVals)
BHi == MaxSet(BpVals)
XSeq == LET lo == 2 * BLo - 2 cnt == 2 * (BHi - BLo) + 5 IN
        [j \in 1..(3 * cnt) |-> <<lo + ((j - 1) \div 3), ((j - 1) % 3) - 1>>]
\* ... and tables built incrementally: every sequence of values offered to push (ascending or not), one scale each
PushSeqs == UNION {[1..n -> BpVals] : n \in 1..MaxBp}
PushScale(p) == CHOOSE s \in Scales : \A s2 \in Scales : (s2 + Len(p) + p[1]) % 7 >= (s + Len(p) + p[1]) % 7
TolCases == {[m |-> "metro", op |-> "tolmap", bps |-> t, xs |-> XSeq, sc |-> s] : t \in Tables, s \in Scales} \cup
            {[m |-> "metro", op |-> "tolmap", bps |-> <<>>, pushes |-> p, xs |-> XSeq, sc |-> PushScale(p)] : p \in PushSeqs}

\* ------------------------------------------------------------ directed distances
Dirs2 == {<<<<0, 0, 0>>, 0>>, <<<<1, 0, 0>>, 1>>, <<<<0, -1, 0>>, 1>>, <<<<3, 4, 0>>, 5>>, <<<<-4, 3, 0>>, 5>>,
          <<<<4, -3, 0>>, 5>>, <<<<-5, -12, 0>>, 13>>, <<<<8, 15, 0>>, 17>>}
Dirs3 == {<<<<0, 0, 0>>, 0>>, <<<<0, 0, -1>>, 1>>, <<<<2, 2, 1>>, 3>>, <<<<-1, 2, -2>>, 3>>, <<<<2, 3, 6>>, 7>>, <<<<0, 3, -4>>, 5>>}
G2 == {<<x, y, 0>> : x \in -2..2, y \in -2..2}
G3 == {<<x, y, z>> : x \in -1..1, y \in -1..1, z \in -1..1}
DistCases ==
    {[m |-> "metro", op |-> "dist", dim |-> 2, a |-> a, b |-> b, dir |-> d[1], h |-> d[2], sc |-> s] :
        a \in {<<0, 0, 0>>, <<1, -2, 0>>}, b \in G2, d \in Dirs2, s \in Scales} \cup
    {[m |-> "metro", op |-> "dist", dim |-> 3, a |-> a, b |-> b, dir |-> d[1], h |-> d[2], sc |-> s] :
        a \in {<<0, 0, 0>>, <<1, 0, -1>>}, b \in G3, d \in Dirs3, s \in Scales}
DistInDomain(c) == c.h > 0 \/ c.a # c.b

\* ------------------------------------------------------------ curves
P(x, y) == <<x, y, 0>>
Curves == {
    [pts |-> <<P(0,0), P(2,0), P(2,2), P(0,2)>>, fc |-> TRUE],                      \* square, normals outward
    [pts |-> <<P(0,0), P(0,2), P(2,2), P(2,0)>>, fc |-> TRUE],                      \* square the other way round
    [pts |-> <<P(0,0), P(4,0), P(4,3)>>, fc |-> TRUE],                              \* 3-4-5 triangle: acute corners
    [pts |-> <<P(0,0), P(3,0), P(3,1), P(1,1), P(1,3), P(0,3)>>, fc |-> TRUE],      \* L shape: reflex corner
    [pts |-> <<P(0,0), P(2,0), P(2,3)>>, fc |-> FALSE],                             \* open, right angle
    [pts |-> <<P(0,0), P(1,0), P(3,0)>>, fc |-> FALSE],                             \* collinear run
    [pts |-> <<P(0,0), P(3,0), P(1,0)>>, fc |-> FALSE],                             \* doubling back
    [pts |-> <<P(0,0), P(3,4), P(3,0)>>, fc |-> FALSE],                             \* open, acute corner
    [pts |-> <<P(0,1), P(3,1), P(3,3), P(1,3), P(1,0)>>, fc |-> FALSE] }            \* crossing itself
Coord(c, a) == {c.pts[k][a] : k \in 1..Len(c.pts)}
Row(c, y2) == LET lo == 2 * (MinSet(Coord(c, 1)) - Margin) hi == 2 * (MaxSet(Coord(c, 1)) + Margin) IN
              [j \in 1..(hi - lo + 1) |-> <<lo + j - 1, y2, 0>>]
CurveCases == UNION {{[m |-> "metro", op |-> "cdev", pts |-> c.pts, fc |-> c.fc, sc |-> s, qs |-> Row(c, y2)] :
                         s \in Scales,
                         y2 \in (2 * (MinSet(Coord(c, 2)) - Margin))..(2 * (MaxSet(Coord(c, 2)) + Margin))} : c \in Curves}

\* ------------------------------------------------------------ meshes
BoxV(a, b, c) == [k \in 1..8 |-> <<((k - 1) % 2) * a, (((k - 1) \div 2) % 2) * b, ((k - 1) \div 4) * c>>]
BoxF == << <<0,2,3>>, <<0,3,1>>, <<4,5,7>>, <<4,7,6>>, <<0,1,5>>, <<0,5,4>>,
           <<2,7,3>>, <<2,6,7>>, <<0,4,6>>, <<0,6,2>>, <<1,3,7>>, <<1,7,5>> >>
WedgeV(l) == << <<0,0,0>>, <<4,0,0>>, <<4,3,0>>, <<0,0,l>>, <<4,0,l>>, <<4,3,l>> >>
WedgeF == << <<0,2,1>>, <<3,4,5>>, <<0,1,4>>, <<0,4,3>>, <<1,2,5>>, <<1,5,4>>, <<2,0,3>>, <<2,3,5>> >>
TetraV == << <<0,0,0>>, <<2,0,0>>, <<0,2,0>>, <<0,0,2>> >>
TetraF == << <<0,2,1>>, <<0,1,3>>, <<0,3,2>>, <<1,2,3>> >>
QuadV == << <<0,0,0>>, <<2,0,0>>, <<2,2,0>>, <<0,2,0>> >>
QuadF == << <<0,1,2>>, <<0,2,3>> >>
RoofV == << <<0,0,0>>, <<0,2,0>>, <<1,0,1>>, <<1,2,1>>, <<2,0,0>>, <<2,2,0>> >>
RoofF == << <<0,2,3>>, <<0,3,1>>, <<2,4,5>>, <<2,5,3>> >>
\* the roof upside down and sharp: a V groove with an opening of 37 degrees (normals 143 degrees apart), material below
GrooveV == << <<0,0,5>>, <<0,2,5>>, <<1,0,2>>, <<1,2,2>>, <<2,0,5>>, <<2,2,5>> >>
Meshes ==
    CASE MeshSet = "quick" -> {[vp |-> BoxV(1,1,1), fs |-> BoxF, cv |-> TRUE], [vp |-> WedgeV(1), fs |-> WedgeF, cv |-> TRUE],
                               [vp |-> QuadV, fs |-> QuadF, cv |-> FALSE], [vp |-> RoofV, fs |-> RoofF, cv |-> FALSE],
                               [vp |-> GrooveV, fs |-> RoofF, cv |-> FALSE]}
      [] OTHER -> {[vp |-> BoxV(1,1,1), fs |-> BoxF, cv |-> TRUE], [vp |-> BoxV(2,1,3), fs |-> BoxF, cv |-> TRUE],
                   [vp |-> WedgeV(2), fs |-> WedgeF, cv |-> TRUE], [vp |-> TetraV, fs |-> TetraF, cv |-> TRUE],
                   [vp |-> QuadV, fs |-> QuadF, cv |-> FALSE], [vp |-> RoofV, fs |-> RoofF, cv |-> FALSE],
                   [vp |-> GrooveV, fs |-> RoofF, cv |-> FALSE]}
MC3(me, a) == {me.vp[k][a] : k \in 1..Len(me.vp)}
Lo2(me, a) == 2 * (MinSet(MC3(me, a)) - Margin)
Hi2(me, a) == 2 * (MaxSet(MC3(me, a)) + Margin)
Column(me, x2, y2) == LET lo == Lo2(me, 3) hi == Hi2(me, 3) IN [j \in 1..(hi - lo + 1) |-> <<x2, y2, lo + j - 1>>]
MeshCases == UNION {{[m |-> "metro", op |-> "mdev", vp |-> me.vp, fs |-> me.fs, sc |-> s, qs |-> Column(me, x2, y2)] :
                        s \in (IF Full THEN Scales ELSE {0}),
                        x2 \in Lo2(me, 1)..Hi2(me, 1), y2 \in Lo2(me, 2)..Hi2(me, 2)} : me \in Meshes}

Cases == TolCases \cup {c \in DistCases : DistInDomain(c)} \cup CurveCases \cup MeshCases

ScalesQuick == {0}
ScalesThorough == {-10, 0, 4}
BpQuick == -1..2
BpThorough == -2..3

Init == case \in Cases
Next == UNCHANGED case
Spec == Init /\ [][Next]_vars

Emit == PrintT(<<"CASE", ToJson(case)>>)

\* ------------------------------------------------------------ laws of the specification itself
\* closed polygon with left turns only (normals outward): the local side rule must be inside/outside
LeftTurnsOnly(v) == \A k \in 1..(Len(v) - 1) :
    Cross2(Edge(v, k), Edge(v, IF k = Len(v) - 1 THEN 1 ELSE k + 1)) > 0
GlobalSide(v, q) ==
    IF \E k \in 1..(Len(v) - 1) : SideOfEdge(Edge(v, k), VSub(q, v[k])) > 0 THEN {1}
    ELSE IF \A k \in 1..(Len(v) - 1) : SideOfEdge(Edge(v, k), VSub(q, v[k])) < 0 THEN {-1}
    ELSE {-1, 0, 1}
Laws ==
    /\ case.op = "tolmap" => \A j \in 1..Len(case.xs) :
            /\ LawTolAlg(case.bps, case.xs[j])
            /\ TolAllowed(case.bps, case.xs[j]) # {}
    /\ case.op = "cdev" =>
            LET b == Built(case.pts, 0, case.fc, 2) v == Double(b) closed == IsClosedV(b, 0, 2) IN
            \A j \in 1..Len(case.qs) :
                /\ CurveSides(v, closed, case.qs[j]) # {}
                /\ MinEdges(v, case.qs[j]) # {}
                /\ (closed /\ LeftTurnsOnly(v)) => CurveSides(v, closed, case.qs[j]) = GlobalSide(v, case.qs[j])
    /\ case.op = "mdev" =>
            LET vp == Double(case.vp) IN
            /\ ClosedConvex(vp, case.fs) = (\E me \in Meshes : me.vp = case.vp /\ me.fs = case.fs /\ me.cv)
            /\ \A j \in 1..Len(case.qs) : MeshSides(case.qs[j], vp, case.fs, ClosedConvex(vp, case.fs)) # {}
=============================================================================
