CONSTANTS
  BpVals <- BpThorough
  MaxBp = 4
  Margin = 2
  Scales <- ScalesThorough
  MeshSet = "all"
  Full = TRUE
SPECIFICATION Spec
INVARIANT Emit Laws
CHECK_DEADLOCK FALSE
