CONSTANTS
  MaxDepth = 2
  RootSet = "tiny"
  Sim = FALSE
  Levels <- LevelsThorough
SPECIFICATION Spec
INVARIANT Emit SortedFiniteSameLength FunctionPreserved ResampledOnGraph
CHECK_DEADLOCK FALSE
