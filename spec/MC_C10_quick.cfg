CONSTANTS
  Chords = {1, 3}
  Cambers = {2, 8}
  AllPairs = FALSE
SPECIFICATION Spec
INVARIANT Emit
CHECK_DEADLOCK FALSE
