------------------------------ MODULE Section ------------------------------
(* C13: plane sections and splits of lattice meshes, exact.  The plane is     *)
(* n . p = dn/dd with integer normal n and an offset chosen so that no vertex *)
(* lies on it (dd * (n . v) - dn is never 0).  Optional exact rigid motion T   *)
(* (module Rigid) applied to mesh and plane together.                          *)
EXTENDS Rigid, MeshTopo

Side(v, n, dn, dd) == dd * VDot(n, v) - dn                    \* sign = side of the plane
VPosOf(vp, k) == vp[k + 1]
EdgeCrossed(vp, e, n, dn, dd) == Side(VPosOf(vp, e[1]), n, dn, dd) * Side(VPosOf(vp, e[2]), n, dn, dd) < 0
CrossedEdges(vp, fs, n, dn, dd) == {e \in AllUE(fs) : EdgeCrossed(vp, e, n, dn, dd)}
\* exact crossing point of edge e = <<a, b>> as <<numerator vector, denominator>>
CrossPoint(vp, e, n, dn, dd) ==
    LET u == VPosOf(vp, e[1]) v == VPosOf(vp, e[2]) su == Side(u, n, dn, dd) sv == Side(v, n, dn, dd) IN
    <<VAdd(VScale(su - sv, u), VScale(su, VSub(v, u))), su - sv>>
\* one segment per crossed face: the pair of its crossed edges
FaceSeg(vp, f, n, dn, dd) == {e \in FaceUE(f) : EdgeCrossed(vp, e, n, dn, dd)}
CrossedFaces(vp, fs, n, dn, dd) == {k \in 1..Len(fs) : FaceSeg(vp, fs[k], n, dn, dd) # {}}
AllSegs(vp, fs, n, dn, dd) == {FaceSeg(vp, fs[k], n, dn, dd) : k \in CrossedFaces(vp, fs, n, dn, dd)}

\* quantised vertex w (QX per unit), possibly observed after motion T, is the crossing point of edge e
MatchesCross(T, w, rp, tol) ==
    \* T.H * den * (w - QX t) = QX * M num
    LET mv == MApply(T.M, rp[1]) den == rp[2] IN
    \A a \in 1..3 : AbsC(T.H * den * (w[a] - QX * T.t[a]) - QX * mv[a]) <= T.H * AbsC(den) * tol
EdgeOfVertex(T, vp, fs, n, dn, dd, w) ==
    LET C == {e \in CrossedEdges(vp, fs, n, dn, dd) : MatchesCross(T, w, CrossPoint(vp, e, n, dn, dd), 4)} IN
    IF C = {} THEN <<-1, -1>> ELSE CHOOSE e \in C : TRUE

\* curves: sequence of vertex sequences.  Every vertex is a crossing point, consecutive vertices are joined
\* across one face, every face segment is used exactly once over all curves.
CurveEdges(T, vp, fs, n, dn, dd, c) == [j \in 1..Len(c) |-> EdgeOfVertex(T, vp, fs, n, dn, dd, c[j])]
SectionOK(T, vp, fs, n, dn, dd, curves) ==
    LET ce == [a \in 1..Len(curves) |-> CurveEdges(T, vp, fs, n, dn, dd, curves[a])]
        slots == {<<a, j>> : a \in 1..Len(curves), j \in 1..(3 * Len(fs))}
        used == {s \in slots : s[2] <= Len(curves[s[1]]) - 1}
        SegAt(s) == {ce[s[1]][s[2]], ce[s[1]][s[2] + 1]} IN
    /\ \A a \in 1..Len(curves) : Len(curves[a]) >= 2 /\ \A j \in 1..Len(curves[a]) : ce[a][j] # <<-1, -1>>   \* on plane and surface
    /\ \A s \in used : SegAt(s) \in AllSegs(vp, fs, n, dn, dd)                                           \* joined across one face
    /\ \A s, t \in used : s # t => SegAt(s) # SegAt(t)                                                   \* each crossing segment once
    /\ Cardinality(used) = Cardinality(AllSegs(vp, fs, n, dn, dd))                                       \* none missing
\* (evaluation helpers for large meshes: the crossed-edge set and the segment set are computed once and handed down)
EdgeOfVertexIn(C, T, vp, n, dn, dd, w) ==
    LET M == {e \in C : MatchesCross(T, w, CrossPoint(vp, e, n, dn, dd), 4)} IN
    IF M = {} THEN <<-1, -1>> ELSE CHOOSE e \in M : TRUE
SectionOKFast(T, vp, fs, n, dn, dd, curves, keep) ==
    LET C == CrossedEdges(vp, fs, n, dn, dd)
        CF == CrossedFaces(vp, fs, n, dn, dd)
        AS == {FaceSeg(vp, fs[k], n, dn, dd) : k \in CF}
        ce == [a \in 1..Len(curves) |-> [j \in 1..Len(curves[a]) |-> EdgeOfVertexIn(C, T, vp, n, dn, dd, curves[a][j])]]
        segs == [a \in 1..Len(curves) |-> [j \in 1..(Len(curves[a]) - 1) |-> {ce[a][j], ce[a][j + 1]}]]
        allsegs == UNION {{segs[a][j] : j \in 1..(Len(curves[a]) - 1)} : a \in 1..Len(curves)}
        nsegs == LET RECURSIVE Sum(_) Sum(a) == IF a = 0 THEN 0 ELSE Sum(a - 1) + (Len(curves[a]) - 1) IN Sum(Len(curves)) IN
    /\ \A a \in 1..Len(curves) : Len(curves[a]) >= 2 /\ \A j \in 1..Len(curves[a]) : ce[a][j] # <<-1, -1>>
    /\ allsegs \subseteq AS                                             \* joined across one face
    /\ Cardinality(allsegs) = nsegs                                     \* each crossing segment once
    /\ \A k \in CF : k <= keep => FaceSeg(vp, fs[k], n, dn, dd) \in allsegs     \* none missing (among the faces that must be kept)
\* the same when the caller's curve tolerance is larger than a whole loop: such a loop collapses to a single point and may be
\* left out (faces with index above `keep` - 1-based - belong to parts that small); everything else is as before
SectionOKSkip(T, vp, fs, n, dn, dd, curves, keep) ==
    LET ce == [a \in 1..Len(curves) |-> CurveEdges(T, vp, fs, n, dn, dd, curves[a])]
        slots == {<<a, j>> : a \in 1..Len(curves), j \in 1..(3 * Len(fs))}
        used == {s \in slots : s[2] <= Len(curves[s[1]]) - 1}
        SegAt(s) == {ce[s[1]][s[2]], ce[s[1]][s[2] + 1]} IN
    /\ \A a \in 1..Len(curves) : Len(curves[a]) >= 2 /\ \A j \in 1..Len(curves[a]) : ce[a][j] # <<-1, -1>>
    /\ \A s \in used : SegAt(s) \in AllSegs(vp, fs, n, dn, dd)
    /\ \A s, t \in used : s # t => SegAt(s) # SegAt(t)
    /\ \A k \in CrossedFaces(vp, fs, n, dn, dd) : k <= keep => \E s \in used : SegAt(s) = FaceSeg(vp, fs[k], n, dn, dd)
\* ---- a caller's curve tolerance on a single-loop section (t16 = tolerance in sixteenths of a unit).  The library hands the ordered
\* crossing points to the curve constructor, which leaves out a point that is within the tolerance of the last point it kept.
\* What a user relies on: the curve still visits exact crossing points, in the order of the loop, once round; every crossing point
\* that was left out is within the tolerance of the vertex kept before it (so the curve stays that close to the true section),
\* and the loop closes up to the tolerance.
RECURSIVE SecRCmp(_, _, _, _)
SecRCmp(a, b, c, d) ==          \* compare a/b with c/d (non-negative, b, d > 0) without forming products
    LET qa == a \div b qc == c \div d ra == a % b rc == c % d IN
    IF qa < qc THEN -1 ELSE IF qa > qc THEN 1 ELSE IF ra = 0 /\ rc = 0 THEN 0 ELSE IF ra = 0 THEN -1 ELSE IF rc = 0 THEN 1
    ELSE SecRCmp(d, rc, b, ra)
CrossD2(p, q) == LET v == VSub(VScale(q[2], p[1]), VScale(p[2], q[1])) IN <<VDot(v, v), (p[2] * q[2]) * (p[2] * q[2])>>
CrossWithin(p, q, t16) == LET d == CrossD2(p, q) IN SecRCmp(d[1], d[2], t16 * t16, 256) <= 0
SegNbrs(AS, e) == UNION {sg \ {e} : sg \in {t \in AS : e \in t}}
RECURSIVE WalkLoop(_, _, _, _)
WalkLoop(AS, prev, cur, acc) ==
    LET nx == SegNbrs(AS, cur) \ {prev} IN
    IF nx = {} THEN acc
    ELSE LET n1 == CHOOSE f \in nx : TRUE IN IF n1 = acc[1] THEN acc ELSE WalkLoop(AS, cur, n1, Append(acc, n1))
\* (TLC applies [k \in S |-> e] lazily, re-evaluating e at every application: tables that are read many times are made explicit tuples)
RECURSIVE StrictFrom(_, _, _, _)
StrictFrom(f, k, n, acc) == IF k > n THEN acc ELSE StrictFrom(f, k + 1, n, Append(acc, f[k]))
Strict(f, n) == StrictFrom(f, 1, n, <<>>)
TolLoopBody(L, pts, ce, m, t16) ==          \* L: the loop as a sequence of crossed edges starting at ce[1], pts: their crossing points
    LET N == Len(L)
        closedExact == ce[m] = ce[1]
        pos == Strict([j \in 1..m |-> IF j = m /\ closedExact THEN N + 1
                                      ELSE LET e == ce[j] IN IF \E k \in 1..N : L[k] = e THEN CHOOSE k \in 1..N : L[k] = e ELSE 0], m)
        PtAt(k) == pts[((k - 1) % N) + 1] IN
    /\ \A j \in 1..(m - 1) : pos[j] > 0 /\ pos[j] < pos[j + 1]              \* in loop order, once round
    /\ \A j \in 1..(m - 1) : \A k \in (pos[j] + 1)..(pos[j + 1] - 1) : CrossWithin(PtAt(pos[j]), PtAt(k), t16)
    /\ ~closedExact => \A k \in (pos[m] + 1)..(N + 1) : CrossWithin(PtAt(pos[m]), PtAt(k), t16)
TolLoopOK(T, vp, fs, n, dn, dd, curves, t16) ==
    LET C == CrossedEdges(vp, fs, n, dn, dd)
        AS == {FaceSeg(vp, fs[k], n, dn, dd) : k \in CrossedFaces(vp, fs, n, dn, dd)} IN
    /\ Len(curves) = 1
    /\ LET c == curves[1] m == Len(c)
            ce == Strict([j \in 1..m |-> EdgeOfVertexIn(C, T, vp, n, dn, dd, c[j])], m) IN
        /\ m >= 2 /\ \A j \in 1..m : ce[j] # <<-1, -1>>
        /\ \E second \in SegNbrs(AS, ce[1]) :
              LET L == WalkLoop(AS, ce[1], second, <<ce[1], second>>) IN
              /\ Len(L) = Cardinality(C)                                              \* (the section is one loop)
              /\ TolLoopBody(L, Strict([k \in 1..Len(L) |-> CrossPoint(vp, L[k], n, dn, dd)], Len(L)), ce, m, t16)

ClosedCurve(T, vp, fs, n, dn, dd, c) == LET ce == CurveEdges(T, vp, fs, n, dn, dd, c) IN ce[1] = ce[Len(c)]
AllClosed(T, vp, fs, n, dn, dd, curves) == \A a \in 1..Len(curves) : ClosedCurve(T, vp, fs, n, dn, dd, curves[a])

\* split: which result is demanded
SplitKind(vp, n, dn, dd) ==
    IF \A k \in 1..Len(vp) : Side(vp[k], n, dn, dd) < 0 THEN "negative"
    ELSE IF \A k \in 1..Len(vp) : Side(vp[k], n, dn, dd) > 0 THEN "positive" ELSE "pair"
\* quantised vertex w lies on the closed side sgn of the plane (linear, scaled by dd * QX)
OnSide(w, n, dn, dd, sgn, tol) == sgn * (dd * VDot(n, w) - QX * dn) >= -(tol * dd * VNorm1(n))
=============================================================================
