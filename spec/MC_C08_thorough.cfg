CONSTANTS
  MaxSets = 3
  NA2 = 12
  NRc2 = 3
  NSet2 = 6
  NR3 = 6
  NRc3 = 3
  NSet3 = 6
  Dims = {2, 3}
SPECIFICATION Spec
INVARIANT Emit Laws JacobianLaw Jacobian2Law
CHECK_DEADLOCK FALSE
