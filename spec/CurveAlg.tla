------------------------------ MODULE CurveAlg ------------------------------
(* C04, L2: transcription of Curve2::between_lengths (the loop with `wrap`,   *)
(* `last_index`, `working.index + 1`, the `<=` / `>` tests and the final      *)
(* append of the end point) on lattice curves with half-lattice arc lengths.  *)
(* A station is [idx (0-based edge index), la (arc length in half units)].    *)
EXTENDS Curve

\* at_vertex(i) for 0-based vertex i of a curve with n vertices
AtVertex(v, i) == LET n == Len(v) c == Cum(v) IN
    IF i = n - 1 THEN [idx |-> i - 1, la |-> 2 * c[n], vtx |-> TRUE] ELSE [idx |-> i, la |-> 2 * c[i + 1], vtx |-> TRUE]
\* at_length(l2): binary search Ok(i) -> at_vertex(i); Err(next) -> edge next-1
AtLength(v, l2) == LET n == Len(v) c == Cum(v) IN
    IF l2 < 0 \/ l2 > 2 * c[n] THEN [idx |-> -1, la |-> -1, vtx |-> FALSE]
    ELSE IF \E k \in 1..n : 2 * c[k] = l2 THEN AtVertex(v, (CHOOSE k \in 1..n : 2 * c[k] = l2) - 1)
    ELSE [idx |-> (CHOOSE k \in 1..(n - 1) : 2 * c[k] < l2 /\ l2 < 2 * c[k + 1]) - 1, la |-> l2, vtx |-> FALSE]

\* the loop: returns the list of root positions (half units) pushed
RECURSIVE Loop(_, _, _, _, _, _, _)
Loop(v, working, endSt, wrap, lastIndex, pts, fuel) ==
    LET p2 == Append(pts, working.la)
        nextIndex == working.idx + 1 IN
    IF fuel = 0 THEN <<-999>>                                     \* runaway guard: never reached if the loop terminates
    ELSE IF nextIndex > lastIndex THEN
        IF ~wrap THEN p2
        ELSE Loop(v, AtVertex(v, 0), endSt, FALSE, lastIndex, p2, fuel - 1)
    ELSE IF working.la <= endSt.la /\ nextIndex > endSt.idx THEN p2
    ELSE Loop(v, AtVertex(v, nextIndex), endSt, wrap, lastIndex, p2, fuel - 1)

\* positions whose points coincide with their predecessor are dropped by from_points (exact duplicates, tolerance tiny)
RECURSIVE DedupPos(_, _, _, _)
DedupPos(v, rc, ps, k) ==
    IF k > Len(ps) THEN <<>>
    ELSE IF k > 1 /\ RPtEq(RootPoint(v, rc, ps[k]), RootPoint(v, rc, ps[k - 1])) THEN DedupPos(v, rc, ps, k + 1)
    ELSE <<ps[k]>> \o DedupPos(v, rc, ps, k + 1)

\* result: <<>> for None, otherwise the vertex list (quantised exact points)
BetweenAlg(v, closed, l0, l1) ==
    LET st == AtLength(v, l0) en == AtLength(v, l1) n == Len(v) IN
    IF st.idx < 0 \/ en.idx < 0 THEN <<>>
    ELSE LET wrap == en.la < st.la
             lastIndex == IF closed THEN n - 2 ELSE n - 1 IN
         IF l1 = l0 \/ (~closed /\ wrap) THEN <<>>
         ELSE LET raw == Loop(v, st, en, wrap, lastIndex, <<>>, 4 * n)
                  withEnd == IF RPtEq(RootPoint(v, closed, en.la), RootPoint(v, closed, raw[Len(raw)])) THEN raw ELSE Append(raw, en.la)
                  ps == DedupPos(v, closed, withEnd, 1) IN
              IF Len(ps) < 2 THEN <<>> ELSE [k \in 1..Len(ps) |-> ExpQ(RootPoint(v, closed, ps[k]))]

\* L2 refines L1: None exactly when the request is ill posed, otherwise the same traced path with the right ends
AlgRefinesL1(v, closed, l0, l1) ==
    LET d == DBetween(v, closed, WholeRoot(v), l0, l1) r == BetweenAlg(v, closed, l0, l1) IN
    IF d = NoCurve THEN r = <<>>
    ELSE /\ r # <<>> /\ r # <<<<-999>>>>
         /\ SamePath(r, DVerts(v, closed, d))
         /\ PNear(r[1], ExpQ(DPoint(v, closed, d, 0)), 0) /\ PNear(r[Len(r)], ExpQ(DPoint(v, closed, d, d.T)), 0)
=============================================================================
