---------------------------- MODULE Trace_Section ----------------------------
(* Judge for C13.                                                              *)
EXTENDS Section, JudgeBase
VARIABLE i

\* small meshes: the plain L1 operator; records with `keep` (faces whose segments must be present, 1-based count) or more than
\* 60 faces: the equivalent formulation that computes the crossed-edge set once
SecOK(r, T, vp, fs, o) ==
    IF "keep" \in DOMAIN r THEN SectionOKFast(T, vp, fs, r.n, r.dn, r.dd, o.curves, r.keep)
    ELSE IF Len(fs) > 60 THEN SectionOKFast(T, vp, fs, r.n, r.dn, r.dd, o.curves, Len(fs))
    ELSE SectionOK(T, vp, fs, r.n, r.dn, r.dd, o.curves)
JSection(r) ==
    LET o == r.out T == r.T vp == r.vpos fs == r.faces IN
    /\ Clause(i, "C13.section.ok", o.ok)
    /\ (o.ok /\ "tolloop" \in DOMAIN r) =>
       /\ Clause(i, "C13.section.finite", o.finite)
       /\ Clause(i, "C13.section.tolerance_keeps_loop_within_tolerance", TolLoopOK(T, vp, fs, r.n, r.dn, r.dd, o.curves, r.stol16))
    /\ (o.ok /\ ~("tolloop" \in DOMAIN r)) =>
       /\ Clause(i, "C13.section.finite", o.finite)
       /\ Clause(i, "C13.section.on_plane_and_surface_each_segment_once",
                 SecOK(r, T, vp, fs, o))
       \* the length a curve reports is the length of the polygon through its vertices (to 2^-24 relative), hence - the vertices
       \* being the exact crossing points, each segment once - the analytic perimeter of the cross-section
       /\ Clause(i, "C13.section.length_is_perimeter", Len(o.lenres) = Len(o.curves) /\ \A a \in 1..Len(o.lenres) : AbsC(o.lenres[a]) <= 64)
       /\ SecOK(r, T, vp, fs, o) =>
            /\ (Watertight(fs) => Clause(i, "C13.section.closed_for_watertight", AllClosed(T, vp, fs, r.n, r.dn, r.dd, o.curves)))
            /\ (r.convex => Clause(i, "C13.section.one_loop_for_convex",
                     Len(o.curves) = (IF CrossedEdges(vp, fs, r.n, r.dn, r.dd) = {} THEN 0 ELSE 1)))

JSplit(r) ==
    LET o == r.out vp == r.vpos kind == SplitKind(vp, r.n, r.dn, r.dd) IN
    /\ Clause(i, "C13.split.finite", o.finite)
    /\ Clause(i, "C13.split.kind", o.kind = kind)
    /\ (o.kind = "pair" /\ kind = "pair") =>
        /\ Clause(i, "C13.split.parts_on_own_sides",
               \/ ((\A k \in 1..Len(o.a) : OnSide(o.a[k], r.n, r.dn, r.dd, -1, 8)) /\ (\A k \in 1..Len(o.b) : OnSide(o.b[k], r.n, r.dn, r.dd, 1, 8)))
               \/ ((\A k \in 1..Len(o.a) : OnSide(o.a[k], r.n, r.dn, r.dd, 1, 8)) /\ (\A k \in 1..Len(o.b) : OnSide(o.b[k], r.n, r.dn, r.dd, -1, 8))))
        /\ Clause(i, "C13.split.parts_nonempty", Len(o.a) >= 3 /\ Len(o.b) >= 3)
        /\ Clause(i, "C13.split.areas_add_up", AbsV(o.area_a + o.area_b - o.area) <= 8 + o.area \div 100000)

Judge(r) ==
    /\ Sane(i, r)
    /\ Ran(r) => CASE r.op = "section" -> JSection(r) [] r.op = "split" -> JSplit(r) [] r.op = "reset" -> TRUE [] OTHER -> Clause(i, "unknown-op", FALSE)
Init == i = 1
Next == i <= Len(Rec) /\ Judge(Rec[i]) /\ i' = i + 1
Spec == Init /\ [][Next]_i
Post == TLCGet("stats").diameter - 1 = Len(Rec)
=============================================================================
