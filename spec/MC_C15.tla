------------------------------- MODULE MC_C15 -------------------------------
(* Bounded instance for C15 (stateless part).  Enumerates                     *)
(*  - every multiset of up to N2 points of a G2 x G2 lattice (N3 points of a  *)
(*    G3^3 lattice) - duplicates and axis ties included - as a full tree and  *)
(*    as index-remapped partial trees, against a half-lattice query window,   *)
(*    every k up to n+1 and radii on the half lattice;                        *)
(*  - every simple lattice polygon with up to NH corners on a GH x GH lattice *)
(*    (both windings, every start) and point multisets for the hull queries;  *)
(*  - small point sets x radii x directions x start/stop modes for the ball   *)
(*    pivot; lattice meshes x sampling modes.                                 *)
(* Checks on every case the laws of the L1 operators (the exhaustive answers  *)
(* are accepted, one-element corruptions of them are rejected) and, for the   *)
(* polygons, that the index-ascent vote (L2) agrees with the signed area for  *)
(* EVERY hull that L1 allows.  Emits the cases for the real library.          *)
EXTENDS Spatial, TLC, Json, SequencesExt
CONSTANTS G2, N2, G3, N3, QStep2, QStep3, SubAll, NH, GH, NP, Reps

VARIABLE case

Rev(s) == [t \in 1..Len(s) |-> s[Len(s) + 1 - t]]
NonDec(s) == \A t \in 1..(Len(s) - 1) : s[t] <= s[t + 1]
MS(codes, n) == {s \in [1..n -> codes] : NonDec(s)}
SumSeq(s) == FoldSeq(LAMBDA a, b : a + b, 0, s)
Desc(S) == SetToSortSeq(S, LAMBDA a, b : a > b)
Ord3(q) == (q[1] + 8) * 1024 + (q[2] + 8) * 32 + (q[3] + 8)
QSeq(W) == SetToSortSeq(W, LAMBDA a, b : Ord3(a) < Ord3(b))
ScaleOf(k) == <<0, 4, -3>>[(k % 3) + 1]

\* ---------------------------------------------------------------- k-d tree cases
Pt2(c, g) == <<c % g, c \div g, 0>>
Pt3(c) == <<c % G3, (c \div G3) % G3, c \div (G3 * G3)>>
Win2 == {q \in {<<x, y, 0>> : x \in -1..(2 * G2 - 1), y \in -1..(2 * G2 - 1)} : (q[1] + 3 * q[2] + 9) % QStep2 = 0}
Win3 == {q \in {<<x, y, z>> : x \in -1..(2 * G3 - 1), y \in -1..(2 * G3 - 1), z \in -1..(2 * G3 - 1)} :
            (q[1] + 3 * q[2] + 5 * q[3] + 18) % QStep3 = 0}
\* partial trees: index subsets, listed in descending order so that the remapping is not monotone
Subs(n) == IF n < 2 THEN {} ELSE IF SubAll THEN {Desc(S) : S \in (SUBSET (0..(n - 1))) \ {{}, 0..(n - 1)}}
           ELSE {Desc(1..(n - 1)), Desc(0..(n - 2))}
KSeq(n) == [t \in 1..(n + 1) |-> t]
RSeq == <<1, 2, 3, 4, 5>>
KdCase(dim, pts, part, sub, qs, sc) ==
    [m |-> "spatial", op |-> "kd", dim |-> dim, pts |-> pts, part |-> part, sub |-> sub, qs |-> qs,
     ks |-> KSeq(Len(pts)), rs |-> RSeq, sc |-> sc]
Kd2 == UNION {
    LET S == MS(0..(G2 * G2 - 1), n) IN
    {KdCase(2, Rev([t \in 1..n |-> Pt2(s[t], G2)]), FALSE, <<>>, QSeq(Win2), ScaleOf(SumSeq(s))) : s \in S} \cup
    {KdCase(2, Rev([t \in 1..n |-> Pt2(sb[1][t], G2)]), TRUE, sb[2], QSeq(Win2), 0) : sb \in S \X Subs(n)}
    : n \in 1..N2}
Kd3 == UNION {
    LET S == MS(0..(G3 * G3 * G3 - 1), n) IN
    {KdCase(3, Rev([t \in 1..n |-> Pt3(s[t])]), FALSE, <<>>, QSeq(Win3), ScaleOf(SumSeq(s))) : s \in S} \cup
    {KdCase(3, Rev([t \in 1..n |-> Pt3(sb[1][t])]), TRUE, sb[2], QSeq(Win3), 0) : sb \in S \X Subs(n)}
    : n \in 1..N3}

\* ---------------------------------------------------------------- hull cases
HCodes == 0..(GH * GH - 1)
Inj(n) == {s \in [1..n -> HCodes] : \A a, b \in 1..n : a < b => s[a] # s[b]}
Polys == UNION {{p \in {[t \in 1..n |-> Pt2(s[t], GH)] : s \in Inj(n)} : SimplePolygon(p)} : n \in 3..NH}
\* curated larger polygons (L, U, arrow, comb, staircase), each in both windings and from every start
Big == { << <<0,0,0>>, <<3,0,0>>, <<3,1,0>>, <<1,1,0>>, <<1,3,0>>, <<0,3,0>> >>,
         << <<0,0,0>>, <<3,0,0>>, <<3,3,0>>, <<2,3,0>>, <<2,1,0>>, <<1,1,0>>, <<1,3,0>>, <<0,3,0>> >>,
         << <<0,0,0>>, <<2,1,0>>, <<4,0,0>>, <<2,4,0>> >>,
         << <<0,0,0>>, <<5,0,0>>, <<5,3,0>>, <<4,3,0>>, <<4,1,0>>, <<3,1,0>>, <<3,3,0>>, <<2,3,0>>, <<2,1,0>>, <<1,1,0>>, <<1,3,0>>, <<0,3,0>> >>,
         << <<0,0,0>>, <<1,0,0>>, <<2,0,0>>, <<2,1,0>>, <<2,2,0>>, <<1,2,0>>, <<0,2,0>>, <<0,1,0>> >>,
         << <<0,0,0>>, <<4,0,0>>, <<4,1,0>>, <<3,1,0>>, <<3,2,0>>, <<2,2,0>>, <<2,3,0>>, <<1,3,0>>, <<1,4,0>>, <<0,4,0>> >> }
Rot(s, k) == [t \in 1..Len(s) |-> s[((t + k - 1) % Len(s)) + 1]]
BigAll == UNION {{Rot(b, k) : k \in 0..(Len(b) - 1)} \cup {Rot(Rev(b), k) : k \in 0..(Len(b) - 1)} : b \in Big}
HullCase(pts, simple) == [m |-> "spatial", op |-> "hull", pts |-> pts, simple |-> simple, fc |-> TRUE,
                          sc |-> ScaleOf(Len(pts) + pts[1][1] + pts[2][2])]
Hulls == {HullCase(p, TRUE) : p \in Polys \cup BigAll} \cup
         UNION {{HullCase(p, FALSE) : p \in {q \in {Rev([t \in 1..n |-> Pt2(s[t], GH)]) : s \in MS(HCodes, n)} : NonCollinear(q)}}
                : n \in 3..(NH + 1)}

\* ---------------------------------------------------------------- ball pivot cases
PSets == UNION {{[t \in 1..n |-> Pt2(s[t], 3)] : s \in {x \in MS(0..8, n) : \A t \in 1..(n - 1) : x[t] < x[t + 1]}} : n \in 3..NP} \cup
    { << <<0,0,0>>, <<1,0,0>>, <<2,0,0>>, <<3,0,0>>, <<3,1,0>>, <<2,1,0>>, <<1,1,0>>, <<1,2,0>>, <<1,3,0>>, <<0,3,0>>, <<0,2,0>>, <<0,1,0>> >>,
      << <<0,0,0>>, <<2,0,0>>, <<2,0,0>>, <<2,2,0>>, <<0,2,0>> >>,
      << <<0,0,0>>, <<4,0,0>>, <<4,3,0>>, <<2,5,0>>, <<0,3,0>>, <<2,2,0>> >>,
      << <<0,0,0>>, <<1,0,0>>, <<0,1,0>>, <<6,6,0>>, <<5,6,0>>, <<6,5,0>> >>,
      << <<0,0,0>>, <<1,2,0>>, <<3,3,0>>, <<5,2,0>>, <<6,0,0>>, <<3,1,0>>, <<3,0,0>> >> }
Starts(n) == {[kind |-> "convex", i |-> 0, v |-> <<0, 0>>], [kind |-> "index", i |-> 0, v |-> <<0, 0>>],
              [kind |-> "index", i |-> n - 1, v |-> <<0, 0>>], [kind |-> "indexdir", i |-> 0, v |-> <<-1, -2>>]}
Ends == {[kind |-> "repeat", i |-> 0], [kind |-> "index", i |-> 1]}
Pivots == UNION {{[m |-> "spatial", op |-> "pivot", pts |-> p, start |-> st, end |-> en, dir |-> d, rh |-> rh, gh |-> 1,
                   sc |-> ScaleOf(rh + Len(p))]
                  : st \in Starts(Len(p)), en \in Ends, d \in {-1, 1}, rh \in {2, 3, 4, 5, 7}} : p \in PSets}

\* ---------------------------------------------------------------- mesh sampling cases
BoxV == << <<0,0,0>>, <<1,0,0>>, <<0,0,4>>, <<1,0,4>>, <<0,2,0>>, <<1,2,0>>, <<0,2,4>>, <<1,2,4>> >>
BoxF == << <<4,7,5>>, <<4,6,7>>, <<0,2,4>>, <<2,6,4>>, <<0,1,2>>, <<1,3,2>>, <<1,5,7>>, <<1,7,3>>, <<2,3,7>>, <<2,7,6>>, <<0,4,1>>, <<1,4,5>> >>
Meshes == {
    [name |-> "box124", vpos |-> BoxV, faces |-> BoxF],
    [name |-> "skewtet", vpos |-> << <<0,0,0>>, <<5,1,2>>, <<1,6,3>>, <<2,3,7>> >>, faces |-> << <<0,2,1>>, <<0,1,3>>, <<1,2,3>>, <<0,3,2>> >>],
    [name |-> "quad", vpos |-> << <<0,0,0>>, <<2,0,0>>, <<2,2,0>>, <<0,2,0>> >>, faces |-> << <<0,1,2>>, <<0,2,3>> >>],
    [name |-> "sliver", vpos |-> << <<0,0,0>>, <<6,0,1>>, <<6,1,1>>, <<0,3,2>>, <<1,1,5>> >>, faces |-> << <<0,1,2>>, <<0,2,3>>, <<0,3,4>> >>],
    [name |-> "pyramid", vpos |-> << <<1,1,3>>, <<0,0,0>>, <<2,0,0>>, <<2,2,0>>, <<0,2,0>> >>, faces |-> << <<0,1,2>>, <<0,2,3>>, <<0,3,4>>, <<0,4,1>> >>] }
MSample(ms, kind, n, h, rep) == [m |-> "spatial", op |-> "msample", name |-> ms.name, vpos |-> ms.vpos, faces |-> ms.faces,
                                 kind |-> kind, n |-> n, h |-> h, rep |-> rep, sc |-> ScaleOf(h + rep)]
\* a mesh holding an exactly degenerate (zero-area) face in the middle of its face list: it must never be hit and must not
\* shift the area table of the faces after it
Degenerate == [name |-> "zeroface", vpos |-> << <<0,0,0>>, <<4,0,0>>, <<0,4,0>>, <<0,0,4>>, <<2,0,0>> >>,
               faces |-> << <<0,2,1>>, <<0,1,4>>, <<0,1,3>>, <<1,2,3>>, <<0,3,2>> >>]
Samples == {MSample(ms, "uniform", 600, 0, rep) : ms \in Meshes \cup {Degenerate}, rep \in 1..Reps} \cup
           {MSample(ms, "dense", 0, h, 1) : ms \in Meshes, h \in {1, 2, 3, 5}} \cup
           {MSample(ms, "poisson", 0, h, rep) : ms \in Meshes, h \in {1, 2, 3}, rep \in 1..Reps}

Cases == Kd2 \cup Kd3 \cup Hulls \cup Pivots \cup Samples

\* the cases are dealt out to NCh chunk states so that TLC's workers evaluate the laws in parallel
NCh == 16
CaseSeq == SetToSeq(Cases)
Init == case \in {[op |-> "chunk", j |-> j] : j \in 0..(NCh - 1)}
Next == /\ case.op = "chunk"
        /\ \E t \in {x \in 1..Len(CaseSeq) : x % NCh = case.j} : case' = CaseSeq[t]
Spec == Init /\ [][Next]_case
Emit == case.op # "chunk" => PrintT(<<"CASE", ToJson(case)>>)

\* ---------------------------------------------------------------- laws of the specification itself
\* exhaustive answers: working indices sorted by (distance, index)
Brute(d, W) == SetToSortSeq(W, LAMBDA a, b : d[a] < d[b] \/ (d[a] = d[b] /\ a < b))
AsRes(d, ids) == [t \in 1..Len(ids) |-> <<ids[t] - 1, QD2 * d[ids[t]]>>]
KdLaws ==
    LET W == Working(Len(case.pts), case.part, case.sub) IN
    \A x \in 1..Len(case.qs) : (x % 5 = 1) =>
        LET d == DistVec(case.pts, case.qs[x]) b == Brute(d, W) n == Len(b) IN
        /\ NearestOneOK(d, W, AsRes(d, SubSeq(b, 1, 1)))
        /\ \A k \in 1..(n + 1) :
              LET kk == IF k < n THEN k ELSE n r == AsRes(d, SubSeq(b, 1, kk)) IN
              /\ NearestKOK(d, W, k, r) /\ Ascending(r)
              \* replacing the last entry by a strictly farther point, or by a wrong distance, is rejected
              /\ (kk < n /\ d[b[n]] > d[b[kk]]) => ~NearestKOK(d, W, k, [r EXCEPT ![kk] = <<b[n] - 1, QD2 * d[b[n]]>>])
              /\ ~NearestKOK(d, W, k, [r EXCEPT ![1] = <<r[1][1], r[1][2] + 3>>])
              /\ (kk >= 2) => ~NearestKOK(d, W, k, [r EXCEPT ![2] = r[1]])
        /\ \A h \in 1..5 :
              LET open == SelectSeq(b, LAMBDA j : d[j] < h * h) closed == SelectSeq(b, LAMBDA j : d[j] <= h * h) IN
              /\ WithinOK(d, W, h, AsRes(d, open)) /\ WithinOK(d, W, h, AsRes(d, Rev(closed)))
              /\ (Len(open) >= 1) => ~WithinOK(d, W, h, AsRes(d, Tail(open)))                       \* one inside point missing
              /\ (Len(closed) < n) => ~WithinOK(d, W, h, AsRes(d, Append(closed, b[Len(closed) + 1])))  \* one outside point listed
        \* a partial tree never names a point outside its index list
        /\ case.part => \A j \in (1..Len(case.pts)) \ W : ~NearestOneOK(d, W, <<<<j - 1, QD2 * d[j]>>>>)

\* every hull L1 allows for a simple polygon makes the index-ascent vote agree with the signed area
IdxSeqs(n) == UNION {{s \in [1..m -> 0..(n - 1)] : \A a, b \in 1..m : a < b => s[a] # s[b]} : m \in 3..n}
HullLaws ==
    LET p == case.pts n == Len(p) IN
    /\ MaxPairD2(p) > 0
    /\ (case.simple /\ n <= 5) =>
          /\ \E hl \in IdxSeqs(n) : HullOK(p, hl)
          /\ \A hl \in IdxSeqs(n) : HullOK(p, hl) => VoteDir(hl) = OrderDir(p)
    /\ case.simple => Area2(Rev(p)) = -Area2(p)

Laws == CASE case.op = "kd" -> KdLaws
          [] case.op = "hull" -> HullLaws
          [] OTHER -> TRUE
=============================================================================
