------------------------------- MODULE Curve -------------------------------
(* L1 semantics of polyline curves (engeom Curve2 / Curve3) on the exact      *)
(* discrete domain: lattice vertices <<x,y,z>> (z = 0 in 2D), edges of        *)
(* integer length (axis-parallel or Pythagorean), arc lengths on the          *)
(* half-lattice as l2 = 2*l with an infinitesimal e in {-1,0,1}.              *)
(* Serves C01 (stations), C04 (portions), C05 (resampling) and, through       *)
(* PointAt/OnCurve, C02, C03 and C06.                                         *)
EXTENDS Integers, Sequences, FiniteSets

AbsC(x) == IF x < 0 THEN -x ELSE x
Min2(a, b) == IF a < b THEN a ELSE b
Max2(a, b) == IF a > b THEN a ELSE b
MaxOf2(a, b) == Max2(a, b)

\* ---------------------------------------------------------------- vectors
VSub(a, b) == <<a[1] - b[1], a[2] - b[2], a[3] - b[3]>>
VAdd(a, b) == <<a[1] + b[1], a[2] + b[2], a[3] + b[3]>>
VScale(k, a) == <<k * a[1], k * a[2], k * a[3]>>
VDot(a, b) == a[1] * b[1] + a[2] * b[2] + a[3] * b[3]
VCross(a, b) == <<a[2] * b[3] - a[3] * b[2], a[3] * b[1] - a[1] * b[3], a[1] * b[2] - a[2] * b[1]>>
VZero == <<0, 0, 0>>
VNorm1(a) == AbsC(a[1]) + AbsC(a[2]) + AbsC(a[3])
D2(a, b) == VDot(VSub(a, b), VSub(a, b))

\* integer square root table for the squared lengths that can occur (hypotenuses up to 30)
ISqrt(n) == IF \E r \in 0..45 : r * r = n THEN CHOOSE r \in 0..45 : r * r = n ELSE -1
\* integer length of the step a -> b, or -1 if it is not an integer
ELen(a, b) == ISqrt(D2(a, b))

\* ---------------------------------------------------------------- construction
\* tolerance in lattice units: 0 stands for "tiny" (only exact duplicates merge)
Within(a, b, tolU) == D2(a, b) <= tolU * tolU

\* de-duplication: a point within tol of the last kept one is dropped
RECURSIVE SurvFrom(_, _, _, _)
SurvFrom(pts, k, acc, tolU) ==
    IF k > Len(pts) THEN acc
    ELSE IF Within(pts[k], acc[Len(acc)], tolU) THEN SurvFrom(pts, k + 1, acc, tolU)
    ELSE SurvFrom(pts, k + 1, Append(acc, pts[k]), tolU)
Survivors(pts, tolU) == SurvFrom(pts, 2, <<pts[1]>>, tolU)

\* the property leaves chains a,b,c with |ab|,|bc| <= tol < |ac| open; inputs are generated
\* only where every reading agrees: each kept point is also farther than tol from its input predecessor
RECURSIVE UnambFrom(_, _, _, _)
UnambFrom(pts, k, last, tolU) ==
    IF k > Len(pts) THEN TRUE
    ELSE IF Within(pts[k], last, tolU) THEN UnambFrom(pts, k + 1, last, tolU)
    ELSE ~Within(pts[k], pts[k - 1], tolU) /\ UnambFrom(pts, k + 1, pts[k], tolU)
Unambiguous(pts, tolU) == UnambFrom(pts, 2, pts[1], tolU)

\* vertex list of the constructed curve, or <<>> when construction must fail
Built(pts, tolU, fc, dim) ==
    LET s == Survivors(pts, tolU) IN
    IF Len(s) < 2 THEN <<>>
    ELSE IF dim = 2 /\ fc /\ ~Within(s[1], s[Len(s)], tolU) THEN Append(s, s[1])
    ELSE s
IsClosedV(v, tolU, dim) == dim = 2 /\ Within(v[1], v[Len(v)], tolU)

IntegerEdges(v) == \A k \in 1..(Len(v) - 1) : ELen(v[k], v[k + 1]) > 0

\* ---------------------------------------------------------------- lengths
RECURSIVE CumTo(_, _)
CumTo(v, k) == IF k = 1 THEN 0 ELSE CumTo(v, k - 1) + ELen(v[k - 1], v[k])
Cum(v) == [k \in 1..Len(v) |-> CumTo(v, k)]
TotalLen(v) == CumTo(v, Len(v))
Edge(v, k) == VSub(v[k + 1], v[k])

\* ---------------------------------------------------------------- stations
\* where does arc length (l2/2 shifted by the infinitesimal e) sit on the curve v?
PosClass(v, l2, e) ==
    LET c == Cum(v) n == Len(v) tot == 2 * c[n] IN
    IF l2 < 0 \/ (l2 = 0 /\ e < 0) \/ l2 > tot \/ (l2 = tot /\ e > 0) THEN [kind |-> "none", k |-> 0]
    ELSE IF e = 0 /\ \E k \in 1..n : 2 * c[k] = l2
         THEN [kind |-> "vertex", k |-> CHOOSE k \in 1..n : 2 * c[k] = l2]
    ELSE [kind |-> "edge",
          k |-> CHOOSE k \in 1..(n - 1) :
                   IF e > 0 THEN 2 * c[k] <= l2 /\ l2 < 2 * c[k + 1]
                   ELSE IF e < 0 THEN 2 * c[k] < l2 /\ l2 <= 2 * c[k + 1]
                   ELSE 2 * c[k] < l2 /\ l2 < 2 * c[k + 1]]

\* an integer vector the station's direction must be parallel to (positively);
\* VZero means the two adjacent directions cancel (documented as unsupported): no demand
DirVec(v, pos, closed, dim) ==
    LET n == Len(v)
        LenE(k) == ELen(v[k], v[k + 1])
        Sum(a, b) == VAdd(VScale(LenE(b), Edge(v, a)), VScale(LenE(a), Edge(v, b))) IN
    IF pos.kind = "edge" THEN Edge(v, pos.k)
    ELSE IF dim = 3 THEN (IF pos.k = n THEN Edge(v, n - 1) ELSE Edge(v, pos.k))
    ELSE IF closed /\ (pos.k = 1 \/ pos.k = n) THEN Sum(1, n - 1)
    ELSE IF pos.k = 1 THEN Edge(v, 1)
    ELSE IF pos.k = n THEN Edge(v, n - 1)
    ELSE Sum(pos.k - 1, pos.k)

\* an edge index on which arc length l2/2 lies (any, for computing the point)
EdgeOf(v, l2) == LET c == Cum(v) IN CHOOSE k \in 1..(Len(v) - 1) : 2 * c[k] <= l2 /\ l2 <= 2 * c[k + 1]

\* the exact point at arc length l2/2 as <<numerator vector, denominator>>
PointAt(v, l2) ==
    LET k == EdgeOf(v, l2) c == Cum(v) len == c[k + 1] - c[k] IN
    <<VAdd(VScale(2 * len, v[k]), VScale(l2 - 2 * c[k], Edge(v, k))), 2 * len>>

\* quanta used by the harness for projected observations
QP == 65536     \* points, lengths (per lattice unit)
QF == 65536     \* fractions
QD == 16384     \* unit directions

\* a quantised point qp matches the rational point <<num, den>>
PointMatches(qp, rp, t) == \A a \in 1..3 : AbsC(qp[a] * rp[2] - QP * rp[1][a]) <= rp[2] * t

\* quantised unit vector qd is parallel to integer vector w, same sense, and of unit length
DirMatches(qd, w) ==
    LET cr == VCross(qd, w) m == VNorm1(w) IN
    /\ AbsC(cr[1]) <= 3 * m /\ AbsC(cr[2]) <= 3 * m /\ AbsC(cr[3]) <= 3 * m
    /\ VDot(qd, w) > 0
    /\ AbsC(VDot(qd, qd) - QD * QD) <= 4 * QD

\* Is the observed station o (fields some, idx, fq, p, d, la) allowed for the query (l2, e)?
StationAllowed(v, closed, dim, l2, e, o) ==
    LET pos == PosClass(v, l2, e) n == Len(v) c == Cum(v) IN
    IF pos.kind = "none" THEN ~o.some
    ELSE /\ o.some
         /\ o.idx >= 0 /\ o.idx <= n - 2
         /\ o.fq >= 0 /\ o.fq <= QF
         \* index and fraction reproduce the arc length ...
         /\ LET k == o.idx + 1 len == c[k + 1] - c[k] IN
            AbsC(2 * (c[k] * QF + o.fq * len) - l2 * QF) <= 4 * len
         \* ... the point is the point of the curve at that arc length ...
         /\ PointMatches(o.p, PointAt(v, l2), 2)
         \* ... the reported length-along is l ...
         /\ AbsC(2 * o.la - l2 * QP) <= 4
         \* ... and the direction is that of the edge (or the vertex rule)
         /\ LET w == DirVec(v, pos, closed, dim) IN w = VZero \/ (o.dfin /\ DirMatches(o.d, w))
         \* 2D: normal is the direction turned clockwise by a right angle
         /\ (dim = 2 /\ o.dfin) => AbsC(o.n[1] - o.d[2]) <= 2 /\ AbsC(o.n[2] + o.d[1]) <= 2

\* through at_fraction the harness cannot control the last ulp of l, except at the two ends
StationAllowedByFraction(v, closed, dim, l2, o) ==
    LET tot == 2 * TotalLen(v) IN
    IF l2 = 0 \/ l2 = tot THEN StationAllowed(v, closed, dim, l2, 0, o)
    ELSE IF l2 < 0 \/ l2 > tot THEN ~o.some
    ELSE \E e \in {-1, 0, 1} : StationAllowed(v, closed, dim, l2, e, o)

\* ---------------------------------------------------------------- laws (checked in MC_C01)
LawCum(v) == LET c == Cum(v) IN c[1] = 0 /\ \A k \in 1..(Len(v) - 1) : c[k] < c[k + 1]
LawPosTotal(v, l2, e) == LET p == PosClass(v, l2, e) IN
    p.kind = "none" <=> (l2 < 0 \/ l2 > 2 * TotalLen(v) \/ (l2 = 0 /\ e < 0) \/ (l2 = 2 * TotalLen(v) /\ e > 0))

\* ================================================================= C04: portions
(* A derived curve is the stretch of a root curve v (closed iff rc) travelled *)
(* from root half-position a for T half-units in sense dir (+1 / -1).  Every  *)
(* curve in a history of between / split / trim / reversed applied to earlier *)
(* results is of this form, with all quantities on the half-lattice.          *)
RootLen2(v) == 2 * TotalLen(v)
WrapPos(v, rc, p2) == IF rc THEN p2 % RootLen2(v) ELSE p2
RootPoint(v, rc, p2) == PointAt(v, WrapPos(v, rc, p2))
RPtEq(p, q) == VScale(q[2], p[1]) = VScale(p[2], q[1])
DPos(d, l2) == d.a + d.dir * l2
DPoint(v, rc, d, l2) == RootPoint(v, rc, DPos(d, l2))
DClosed(v, rc, d) == RPtEq(DPoint(v, rc, d, 0), DPoint(v, rc, d, d.T))
WholeRoot(v) == [a |-> 0, T |-> RootLen2(v), dir |-> 1]

\* a request (l0, l1) on derived curve d: the resulting derived curve, or NoCurve
NoCurve == [a |-> 0, T |-> 0, dir |-> 0]
DBetween(v, rc, d, l0, l1) ==
    IF l0 < 0 \/ l1 < 0 \/ l0 > d.T \/ l1 > d.T THEN NoCurve
    ELSE IF l1 > l0 THEN [a |-> DPos(d, l0), T |-> l1 - l0, dir |-> d.dir]
    ELSE IF l1 < l0 /\ DClosed(v, rc, d) /\ d.T - l0 + l1 > 0 THEN [a |-> DPos(d, l0), T |-> d.T - l0 + l1, dir |-> d.dir]
    ELSE NoCurve
DReversed(d) == [a |-> DPos(d, d.T), T |-> d.T, dir |-> -d.dir]

\* by control: which piece (if any) must be returned; "free" when the control sits on a boundary
DByControl(v, rc, d, a, b, c) ==
    LET lo == Min2(a, b) hi == Max2(a, b) IN
    IF c > d.T \/ c < 0 THEN [verdict |-> "none", piece |-> NoCurve]
    ELSE IF c = lo \/ c = hi THEN [verdict |-> "free", piece |-> NoCurve]
    ELSE IF lo < c /\ c < hi THEN [verdict |-> "piece", piece |-> DBetween(v, rc, d, lo, hi)]
    ELSE [verdict |-> "piece", piece |-> DBetween(v, rc, d, hi, lo)]

\* quantum for vertices of derived curves: all exact coordinates are multiples of 1/10
QC == 640
ExpQ(rp) == [a \in 1..3 |-> (rp[1][a] * QC) \div rp[2]]
ExactQ(rp) == \A a \in 1..3 : (rp[1][a] * QC) % rp[2] = 0

\* root vertices strictly inside the travel of d, as <<travel offset, vertex index>>
DInterior(v, rc, d) ==
    LET c == Cum(v) n == IF rc THEN Len(v) - 1 ELSE Len(v)
        Off(k) == LET raw == d.dir * (2 * c[k] - d.a) IN IF rc THEN raw % RootLen2(v) ELSE raw IN
    {<<Off(k), k>> : k \in {j \in 1..n : Off(j) > 0 /\ Off(j) < d.T}}

SortPairs(S) == \* ascending by first component (offsets are distinct)
    LET RECURSIVE Srt(_)
        Srt(T) == IF T = {} THEN <<>> ELSE
                  LET m == CHOOSE x \in T : \A y \in T : x[1] <= y[1] IN <<m>> \o Srt(T \ {m})
    IN Srt(S)

\* exact vertex list (quantised) that traces derived curve d
DVerts(v, rc, d) ==
    LET mid == SortPairs(DInterior(v, rc, d)) IN
    <<ExpQ(DPoint(v, rc, d, 0))>> \o [j \in 1..Len(mid) |-> VScale(QC, v[mid[j][2]])] \o <<ExpQ(DPoint(v, rc, d, d.T))>>

\* remove vertices that do not change the traced path: repeats and straight-through points
PNear(p, q, t) == \A a \in 1..3 : AbsC(p[a] - q[a]) <= t
Straight(p, q, r) ==  \* q lies between p and r on a straight line (with quantisation slack)
    LET e1 == VSub(q, p) e2 == VSub(r, q) cr == VCross(e1, e2) t == 3 * (VNorm1(e1) + VNorm1(e2)) IN
    /\ AbsC(cr[1]) <= t /\ AbsC(cr[2]) <= t /\ AbsC(cr[3]) <= t /\ VDot(e1, e2) > 0
RECURSIVE CornersFrom(_, _, _)
CornersFrom(w, k, acc) ==
    IF k > Len(w) THEN acc
    ELSE IF PNear(w[k], acc[Len(acc)], 2) /\ k < Len(w) THEN CornersFrom(w, k + 1, acc)
    ELSE IF k < Len(w) /\ Straight(acc[Len(acc)], w[k], w[k + 1]) THEN CornersFrom(w, k + 1, acc)
    ELSE CornersFrom(w, k + 1, Append(acc, w[k]))
Corners(w) == IF Len(w) = 0 THEN <<>> ELSE CornersFrom(w, 2, <<w[1]>>)
SamePath(w1, w2) == LET c1 == Corners(w1) c2 == Corners(w2) IN
    Len(c1) = Len(c2) /\ \A k \in 1..Len(c1) : PNear(c1[k], c2[k], 3)

\* does the observed piece o (fields verts, len, closed) realise derived curve d?
PieceEndpoints(v, rc, d, o) == /\ Len(o.verts) >= 2
                               /\ PNear(o.verts[1], ExpQ(DPoint(v, rc, d, 0)), 3)
                               /\ PNear(o.verts[Len(o.verts)], ExpQ(DPoint(v, rc, d, d.T)), 3)
PieceLength(d, o) == AbsC(2 * o.len - d.T * QC) <= 8
PiecePath(v, rc, d, o) == SamePath(o.verts, DVerts(v, rc, d))

\* ================================================================= C05: resampling, simplifying, gap filling
\* the exact point at rational arc position pn/pd (in half-units), as <<numerator vector, denominator>>
PointAtR(v, pn, pd) ==
    LET c == Cum(v)
        k == CHOOSE k \in 1..(Len(v) - 1) : 2 * c[k] * pd <= pn /\ pn <= 2 * c[k + 1] * pd
        len == c[k + 1] - c[k] IN
    <<VAdd(VScale(2 * len * pd, v[k]), VScale(pn - 2 * c[k] * pd, Edge(v, k))), 2 * len * pd>>
QR == 16384
PointMatchesR(q, rp, t) == \A a \in 1..3 : AbsC(q[a] * rp[2] - QR * rp[1][a]) <= rp[2] * t
CeilDiv(a, b) == (a + b - 1) \div b

\* consecutive samples that fall on the same point of a self-touching curve merge into one vertex
RECURSIVE DedupRFrom(_, _, _)
DedupRFrom(e, k, acc) == IF k > Len(e) THEN acc
                         ELSE IF RPtEq(e[k], acc[Len(acc)]) THEN DedupRFrom(e, k + 1, acc)
                         ELSE DedupRFrom(e, k + 1, Append(acc, e[k]))
DedupR(e) == DedupRFrom(e, 2, <<e[1]>>)
SamplesMatch(w, e) == LET dd == DedupR(e) IN
    Len(w) = Len(dd) /\ \A k \in 1..Len(dd) : PointMatchesR(w[k], dd[k], 2)

\* by count: n vertices at k*L/(n-1)
CountSamples(v, n) == LET L2 == 2 * TotalLen(v) IN [k \in 1..n |-> PointAtR(v, (k - 1) * L2, n - 1)]
ResampleCountOK(v, n, w) == SamplesMatch(w, CountSamples(v, n))

\* by spacing s2 (half-units): m1 intervals, equal margins (L2 - m1*s2)/2 in [0, s2)
SpacingIntervals(v, s2) ==
    LET L2 == 2 * TotalLen(v) IN
    IF L2 % s2 = 0 THEN {L2 \div s2, (L2 \div s2) - 1} ELSE {L2 \div s2}
SpacingSamples(v, s2, m1) == LET L2 == 2 * TotalLen(v) IN
    [k \in 1..(m1 + 1) |-> PointAtR(v, (L2 - m1 * s2) + 2 * (k - 1) * s2, 2)]
\* closing = TRUE: the first sample is repeated at the end (closed source)
ResampleSpacingOK(v, s2, w, closing) ==
    \E m1 \in SpacingIntervals(v, s2) :
        /\ m1 >= 0
        /\ LET e == SpacingSamples(v, s2, m1) IN SamplesMatch(w, IF closing THEN Append(e, e[1]) ELSE e)
\* by a spacing that divides the length into k parts up to rounding (the harness passes length / k as a float): k or k - 1
\* intervals - whichever way the rounding of length / spacing goes - evenly spaced and centred
SpacingDivSamples(v, k, m1) == LET L2 == 2 * TotalLen(v) IN
    [j \in 1..(m1 + 1) |-> PointAtR(v, (k - m1) * L2 + 2 * (j - 1) * L2, 2 * k)]
ResampleSpacingDivOK(v, k, w, closing) ==
    \E m1 \in {k, k - 1} :
        /\ m1 >= 1
        /\ LET e == SpacingDivSamples(v, k, m1) IN SamplesMatch(w, IF closing THEN Append(e, e[1]) ELSE e)
SpacingDivMayFail(v, k, closing) ==
    \E m1 \in {k, k - 1} : m1 >= 1 /\
        LET e == SpacingDivSamples(v, k, m1) IN Len(DedupR(IF closing THEN Append(e, e[1]) ELSE e)) < 2
\* may the construction legitimately fail (fewer than two distinct samples)?
SpacingMayFail(v, s2, closing) ==
    \E m1 \in SpacingIntervals(v, s2) : m1 >= 0 /\
        LET e == SpacingSamples(v, s2, m1) IN Len(DedupR(IF closing THEN Append(e, e[1]) ELSE e)) < 2

\* by maximum spacing s2: ends kept, even spacing not above s2, no more points than needed (+1)
ResampleMaxSpacingOK(v, s2, w) ==
    LET L2 == 2 * TotalLen(v) nmin == MaxOf2(2, CeilDiv(L2, s2) + 1) IN
    \E n \in {nmin, nmin + 1} : SamplesMatch(w, CountSamples(v, n))
CountMayFail(v, n) == Len(DedupR(CountSamples(v, n))) < 2
MaxSpacingMayFail(v, s2) == LET L2 == 2 * TotalLen(v) nmin == MaxOf2(2, CeilDiv(L2, s2) + 1) IN CountMayFail(v, nmin)

\* squared distance from lattice point p to segment a-b as a rational <<num, den>>
SegD2(p, a, b) ==
    LET e == VSub(b, a) w == VSub(p, a) dd == VDot(e, e) dt == VDot(w, e) IN
    IF dd = 0 \/ dt <= 0 THEN <<VDot(w, w), 1>>
    ELSE IF dt >= dd THEN <<D2(p, b), 1>>
    ELSE <<VDot(w, w) * dd - dt * dt, dd>>
\* p is within e4/4 of polyline w
WithinOfPolyline(p, w, e4) == \E k \in 1..(Len(w) - 1) :
    LET r == SegD2(p, w[k], w[k + 1]) IN 16 * r[1] <= e4 * e4 * r[2]

\* simplification: idx = strictly increasing indices (1-based) of the kept vertices of v
SimplifyOK(v, e4, idx) ==
    LET w == [j \in 1..Len(idx) |-> v[idx[j]]] IN
    /\ Len(idx) >= 2 /\ idx[1] = 1 /\ idx[Len(idx)] = Len(v)
    /\ \A j \in 1..(Len(idx) - 1) : idx[j] < idx[j + 1]
    /\ \A k \in 1..Len(v) : (\E j \in 1..Len(idx) : idx[j] = k) \/ WithinOfPolyline(v[k], w, e4)

\* gap filling on a list of lattice points pts with maximum gap m2 (half-units); w quantised (QR) output,
\* orig = positions in w (1-based, increasing) claimed to hold the original points
FillGapsOK(pts, m2, w, orig) ==
    /\ Len(orig) = Len(pts) /\ orig[1] = 1 /\ orig[Len(orig)] = Len(w)
    /\ \A j \in 1..(Len(orig) - 1) : orig[j] < orig[j + 1]
    /\ \A j \in 1..Len(pts) : w[orig[j]] = VScale(QR, pts[j])
    \* no consecutive pair farther apart than the maximum (squared, quantised; 4 d^2 <= m2^2)
    /\ \A k \in 1..(Len(w) - 1) :
          LET dv == VSub(w[k + 1], w[k]) IN
          \* compare in units of QR/64 to stay inside 31 bits
          LET s == <<dv[1] \div 64, dv[2] \div 64, dv[3] \div 64>> IN
          4 * VDot(s, s) <= m2 * m2 * (QR \div 64) * (QR \div 64) + 4 * m2 * (QR \div 64) * 8
    \* inserted points lie on the segment between the surrounding originals
    /\ \A j \in 1..(Len(orig) - 1) : \A k \in (orig[j] + 1)..(orig[j + 1] - 1) :
          LET a == pts[j] b == pts[j + 1] e == VSub(b, a)
              q == VSub(w[k], VScale(QR, a)) cr == VCross(q, e) t == 3 * VNorm1(e) IN
          /\ AbsC(cr[1]) <= t /\ AbsC(cr[2]) <= t /\ AbsC(cr[3]) <= t
          /\ VDot(q, e) >= 0 /\ VDot(q, e) <= QR * VDot(e, e)
          \* and advance monotonically
          /\ (k > orig[j] + 1 => VDot(VSub(w[k], w[k - 1]), e) > 0)
=============================================================================
