------------------------------- MODULE Stats -------------------------------
(* Growth beyond the listed properties: the small numeric utilities            *)
(*   stats::{compute_mean, compute_variance, compute_st_dev, compute_median}   *)
(*   utility::{unflatten_points, flatten_points}                               *)
(* over exact integers.  L1: the results as exact rationals <<num, den>>.      *)
EXTENDS Integers, Sequences, FiniteSets

RECURSIVE SumTo(_, _)
SumTo(v, k) == IF k = 0 THEN 0 ELSE SumTo(v, k - 1) + v[k]
Sum(v) == SumTo(v, Len(v))
RECURSIVE SumSqTo(_, _)
SumSqTo(v, k) == IF k = 0 THEN 0 ELSE SumSqTo(v, k - 1) + v[k] * v[k]
SumSq(v) == SumSqTo(v, Len(v))
MinOf(v) == CHOOSE m \in {v[k] : k \in 1..Len(v)} : \A k \in 1..Len(v) : m <= v[k]
MaxOf(v) == CHOOSE m \in {v[k] : k \in 1..Len(v)} : \A k \in 1..Len(v) : m >= v[k]

\* an empty slice has no mean, variance or median (an error, not a number)
Defined(v) == Len(v) > 0
MeanR(v) == <<Sum(v), Len(v)>>
\* population variance: (n sum x^2 - (sum x)^2) / n^2
VarR(v) == <<Len(v) * SumSq(v) - Sum(v) * Sum(v), Len(v) * Len(v)>>
\* twice the median: the middle value of the sorted list, or the sum of the two middle ones
CountLe(v, x) == Cardinality({k \in 1..Len(v) : v[k] <= x})
CountLt(v, x) == Cardinality({k \in 1..Len(v) : v[k] < x})
\* the value at sorted position p (1-based): the unique x with CountLt(x) < p <= CountLe(x)
Sorted(v, p) == CHOOSE x \in {v[k] : k \in 1..Len(v)} : CountLt(v, x) < p /\ p <= CountLe(v, x)
Median2(v) == LET n == Len(v) IN IF n % 2 = 1 THEN 2 * Sorted(v, (n + 1) \div 2) ELSE Sorted(v, n \div 2) + Sorted(v, n \div 2 + 1)

\* laws of the L1 itself (model-checked on the bounded instance)
Shift(v, c) == [k \in 1..Len(v) |-> v[k] + c]
Laws(v, c) == Defined(v) =>
    /\ VarR(v)[1] >= 0                                                   \* a variance is not negative ...
    /\ (VarR(v)[1] = 0 <=> MinOf(v) = MaxOf(v))                          \* ... and vanishes exactly for constant data
    /\ Len(v) * MinOf(v) <= Sum(v) /\ Sum(v) <= Len(v) * MaxOf(v)        \* the mean lies between the extremes
    /\ 2 * MinOf(v) <= Median2(v) /\ Median2(v) <= 2 * MaxOf(v)          \* so does the median
    /\ VarR(Shift(v, c)) = VarR(v)                                       \* a shift moves mean and median, not the variance
    /\ Sum(Shift(v, c)) = Sum(v) + Len(v) * c
    /\ Median2(Shift(v, c)) = Median2(v) + 2 * c

\* flat list of numbers <-> list of D-tuples: defined exactly when D divides the length; round trip is the identity
UnflattenDefined(v, D) == Len(v) % D = 0
Unflatten(v, D) == [i \in 1..(Len(v) \div D) |-> [j \in 1..D |-> v[(i - 1) * D + j]]]
RECURSIVE FlattenFrom(_, _)
FlattenFrom(ps, k) == IF k > Len(ps) THEN <<>> ELSE ps[k] \o FlattenFrom(ps, k + 1)
Flatten(ps) == FlattenFrom(ps, 1)
=============================================================================
