------------------------------- MODULE MC_C17 -------------------------------
(* Bounded instance for C17, part 1: construction of discrete domains and    *)
(* "fans": a root series followed by every single derived operation applied  *)
(* to that root (slices over every ordered and reversed pair of bounds,      *)
(* splits, resampling by count and spacing, scaling incl. negative and zero, *)
(* shifting, abs, NaN removal).  TLC checks on every case that the L1        *)
(* operators themselves keep the invariant of the property (sorted, finite,  *)
(* same length), that slices evaluate like their parent, that the exact      *)
(* areas of split pieces add up and that resampling keeps both ends; each    *)
(* case is emitted for replay into the real library.                         *)
EXTENDS Series, TLC, Json, SequencesExt
CONSTANTS Starts,      \* first abscissa of a root (quarter units)
          Gaps,        \* gaps between consecutive abscissae (quarter units, 0 = repeated value)
          MaxLen,      \* longest root
          YS,          \* ordinates of roots
          NS,          \* counts for linear / linear_space / resampled_n
          Spacings,    \* spacings for resampled_x (quarter units)
          Levels       \* levels for crossings (quarter units)

VARIABLE case
vars == <<case>>

\* ------------------------------------------------------------------ roots
RECURSIVE XsFrom(_, _)
XsFrom(k, last) == IF k = 0 THEN {<<>>} ELSE UNION {{<<last + g>> \o t : t \in XsFrom(k - 1, last + g)} : g \in Gaps}
RootXs == UNION {{<<a>> \o t : t \in XsFrom(n - 1, a)} : a \in Starts, n \in 1..MaxLen}
RECURSIVE YsOf(_)
YsOf(n) == IF n = 0 THEN {<<>>} ELSE {<<y>> \o t : y \in YS, t \in YsOf(n - 1)}
\* a few roots with NaN ordinates (NaN removal, NaN propagation)
NanRoots == {[xs |-> <<0, 2, 4>>, ys |-> <<1, 99, 2>>], [xs |-> <<0, 4>>, ys |-> <<99, 99>>],
             [xs |-> <<-2, 0, 0, 6>>, ys |-> <<0, 99, 1, 99>>], [xs |-> <<2>>, ys |-> <<99>>]}
Roots == UNION {{[xs |-> xs, ys |-> ys] : ys \in YsOf(Len(xs))} : xs \in RootXs} \cup NanRoots
AsSeries(R) == Mk([k \in 1..Len(R.xs) |-> R.xs[k] * X4], [k \in 1..Len(R.ys) |-> IF R.ys[k] = 99 THEN NAN ELSE R.ys[k] * DY])

\* positions (quarter units) used as bounds / cut points / probes for a root
Lo4(R) == R.xs[1]
Hi4(R) == R.xs[Len(R.xs)]
Even(S) == {p \in S : p % 2 = 0}
Pos(R) == Even((Lo4(R) - 2)..(Hi4(R) + 2)) \cup {Lo4(R) + 1, Hi4(R) - 1}
ProbeSet(R) == {<<p, 0>> : p \in Pos(R)} \cup {<<R.xs[k], e>> : k \in 1..Len(R.xs), e \in {-1, 1}}
ProbeSeq(R) == SetToSortSeq(ProbeSet(R), LAMBDA a, b : a[1] < b[1] \/ (a[1] = b[1] /\ a[2] < b[2]))
LevelSeq == SetToSortSeq(Levels, LAMBDA a, b : a < b)
\* plateau_at_maxima requests <<x, tol>> (quarter units): at every abscissa of the root and between them
PlateauSeq(R) == SetToSortSeq({<<R.xs[k], t>> : k \in 1..Len(R.xs), t \in {1, 6}} \cup {<<Lo4(R) + 1, 2>>, <<Hi4(R) + 1, 2>>},
                              LAMBDA a, b : a[1] < b[1] \/ (a[1] = b[1] /\ a[2] < b[2]))

RootRec(R) == [m |-> "series", op |-> "root", xs |-> R.xs, ys |-> R.ys, sc |-> 0, ts |-> ProbeSeq(R), lv |-> LevelSeq, pl |-> PlateauSeq(R)]
OpRec(R, f) == f @@ [m |-> "series", on |-> "root", ts |-> ProbeSeq(R), lv |-> LevelSeq,
                     pl |-> IF f.op \in {"scale", "shift", "abs", "remove_nan"} THEN PlateauSeq(R) ELSE <<<<Lo4(R) + 1, 2>>, <<Hi4(R), 1>>>>]
Sorted3(S, key(_)) == SetToSortSeq(S, LAMBDA a, b : key(a) < key(b))

MapOps(R) ==
    {[op |-> "scale", sx2 |-> sx, sy |-> IF sx < 0 THEN -1 ELSE 2] : sx \in {-4, -2, -1, 0, 1, 4}} \cup
    {[op |-> "shift", dx4 |-> 2, dy |-> -1], [op |-> "shift", dx4 |-> -6, dy |-> 1], [op |-> "abs"], [op |-> "remove_nan"]}
BetweenOps(R, A) ==
    {[op |-> "between", a4 |-> A, b4 |-> B] : B \in Pos(R)} \cup
    {[op |-> "interval", a4 |-> A, b4 |-> B] : B \in {Lo4(R), Hi4(R) - 1}}
SplitOps(R) == {[op |-> "split", x4 |-> X, keep |-> 1] : X \in Pos(R)}
ResampleOps(R) == {[op |-> "resample_n", n |-> n] : n \in NS} \cup {[op |-> "resample_x", s4 |-> s] : s \in Spacings}

OpKey(f) == CASE f.op = "scale" -> 100 + f.sx2 [] f.op = "shift" -> 200 + f.dx4 [] f.op = "abs" -> 300 [] f.op = "remove_nan" -> 301
              [] f.op = "between" -> 1000 + f.b4 [] f.op = "interval" -> 2000 + f.b4
              [] f.op = "split" -> 3000 + f.x4 [] f.op = "resample_n" -> 4000 + f.n [] f.op = "resample_x" -> 5000 + f.s4
Fan(R, ops) == LET sq == Sorted3(ops, OpKey) IN [kind |-> "beh", recs |-> <<RootRec(R)>> \o [k \in 1..Len(sq) |-> OpRec(R, sq[k])]]
Fans(R) == {Fan(R, MapOps(R)), Fan(R, SplitOps(R)), Fan(R, ResampleOps(R))} \cup {Fan(R, BetweenOps(R, A)) : A \in Pos(R)}

\* ------------------------------------------------------------------ domain construction (stateless)
Bad == {9001, 9002, 9003}
DomVals == {-4, 0, 2, 6}
RECURSIVE CodeSeqs(_, _)
CodeSeqs(S, n) == IF n = 0 THEN {<<>>} ELSE {<<v>> \o t : v \in S, t \in CodeSeqs(S, n - 1)}
DomProbes(v) == SetToSortSeq({<<p, e>> : p \in {-5, -4, -2, 0, 1, 2, 6, 7}, e \in {-1, 0, 1}},
                             LAMBDA a, b : a[1] < b[1] \/ (a[1] = b[1] /\ a[2] < b[2]))
DomCases ==
    {[m |-> "series", op |-> "dom_linear", kind |-> k, a4 |-> a, b4 |-> b, n |-> n, sc |-> 0] :
        k \in {"linear", "space"}, a \in {-6, 0, 4, 20}, b \in {-6, 0, 4, 20}, n \in NS \cup {0, 1, 2}} \cup
    {[m |-> "series", op |-> "dom_try", vals |-> v, ts |-> DomProbes(v), sc |-> 0] :
        v \in UNION {CodeSeqs(DomVals, n) : n \in 0..3}} \cup
    {[m |-> "series", op |-> "dom_try", vals |-> v, ts |-> <<>>, sc |-> 0] :
        v \in UNION {{<<a, b, c>> : a \in {0, 9001}, b \in {2} \cup Bad, c \in {6, 9002}}, {<<b>> : b \in Bad}}} \cup
    {[m |-> "series", op |-> "dom_push", init |-> i0, vals |-> v, sc |-> 0] :
        i0 \in {<<>>, <<0, 2>>}, v \in CodeSeqs({-4, 2, 6, 9001, 9003}, 3)} \cup
    {[m |-> "series", op |-> "ser_try", xs |-> x, ys |-> y, sc |-> 0] :
        x \in {<<>>, <<0>>, <<0, 2>>, <<2, 0>>, <<0, 0>>, <<0, 9001>>, <<9002, 0>>, <<0, 2, 9003>>},
        y \in {<<>>, <<1>>, <<1, 99>>, <<1, 2, 0>>}} \cup
    {[m |-> "series", op |-> "ser_new", xs |-> x, ny |-> n, sc |-> 0] : x \in {<<>>, <<0>>, <<0, 2, 2>>}, n \in 0..4}

Cases == {[kind |-> "one", rec |-> c] : c \in DomCases} \cup UNION {Fans(R) : R \in Roots}

Init == case \in Cases
Next == UNCHANGED case
Spec == Init /\ [][Next]_vars
Emit == PrintT(<<"CASE", IF case.kind = "beh" THEN ToJson(case.recs) ELSE ToJson(case.rec)>>)

\* ------------------------------------------------------------------ laws of the specification itself
Area2(s) == LET RECURSIVE A(_)
                A(k) == IF k >= N(s) THEN 0 ELSE (s.xs[k + 1] - s.xs[k]) * ((s.ys[k] + s.ys[k + 1]) \div L4) + A(k + 1)
            IN A(1)
AllQuarter(s) == \A k \in 1..N(s) : s.ys[k] # NAN /\ s.ys[k] % L4 = 0
L1Of(s, f) ==
    CASE f.op = "scale" -> ScaleL1(s, f.sx2, f.sy)
      [] f.op = "shift" -> ShiftL1(s, f.dx4 * X4, f.dy * DY)
      [] f.op = "abs" -> AbsL1(s)
      [] f.op = "remove_nan" -> RemoveNanL1(s)
      [] f.op = "between" -> BetweenL1(s, f.a4 * X4, f.b4 * X4)
      [] f.op = "interval" -> BetweenL1(s, MinS(f.a4, f.b4) * X4, MaxS(f.a4, f.b4) * X4)
      [] f.op = "resample_n" -> ResampleNL1(s, f.n)
      [] f.op = "resample_x" -> ResampleXL1(s, f.s4 * X4)
\* a slice takes, wherever it is defined and not NaN-padded, only values the parent takes
SliceLikeParent(s, c) ==
    \A p \in (XMin(s) \div X4)..(XMax(s) \div X4) :
        LET X == p * X4 IN
        (N(c) > 0 /\ XMin(c) <= X /\ X <= XMax(c) /\ FRep(c, X) /\ FRep(s, X)) => FVals(c, X) \subseteq FVals(s, X)
OpLaw(s, f) ==
    IF f.op = "split" THEN
        LET L == SplitL1(s, f.x4 * X4) IN
        (~L.free /\ ~L.unrep) =>
            /\ \A a \in L.a \ {NoPiece} : Valid(a) /\ SliceLikeParent(s, a)
            /\ \A b \in L.b \ {NoPiece} : Valid(b) /\ SliceLikeParent(s, b)
            /\ \A a \in L.a \ {NoPiece}, b \in L.b \ {NoPiece} :
                  /\ XMax(a) = f.x4 * X4 /\ XMin(b) = f.x4 * X4 /\ XMin(a) = XMin(s) /\ XMax(b) = XMax(s)
                  /\ (AllQuarter(s) /\ AllQuarter(a) /\ AllQuarter(b)) => Area2(a) + Area2(b) = Area2(s)
    ELSE
        LET L == L1Of(s, f) IN
        (~L.free /\ ~L.unrep) =>
            /\ \A c \in L.cands : Valid(c)                       \* the inductive step of the property's invariant
            /\ f.op \in {"between", "interval"} => \A c \in L.cands : SliceLikeParent(s, c)
            /\ (f.op = "between" /\ f.a4 <= f.b4 /\ f.a4 * X4 >= XMin(s) /\ f.b4 * X4 <= XMax(s)) =>
                  \A c \in L.cands : XMin(c) = f.a4 * X4 /\ XMax(c) = f.b4 * X4
            /\ (f.op \in {"resample_n", "resample_x"} /\ ~L.fail) =>
                  \A c \in L.cands : /\ XMin(c) = XMin(s) /\ XMax(c) = XMax(s)
                                     /\ \A k \in 1..N(c) : c.ys[k] \in FVals(s, c.xs[k])
            /\ ~L.fail => L.cands # {}
Laws == case.kind = "beh" =>
            LET s == AsSeries([xs |-> case.recs[1].xs, ys |-> case.recs[1].ys]) IN
            /\ Valid(s) /\ InDom(s)
            /\ \A k \in 2..Len(case.recs) : OpLaw(s, case.recs[k])

\* cfg-independent constant sets
StartsQuick == {-2}
GapsQuick == {0, 2, 6}
YSQuick == {-1, 2}
NSQuick == {0, 1, 2, 3, 5}
SpacingsQuick == {1, 3, 6, 40}
LevelsQuick == {-4, 0, 2, 8}
StartsThorough == {-2}
GapsThorough == {0, 2, 6}
YSThorough == {-1, 2}
NSThorough == {0, 1, 2, 3, 4, 5, 7, 9}
SpacingsThorough == {1, 2, 3, 6, 10, 40}
LevelsThorough == {-8, -4, -3, 0, 2, 4, 8}
=============================================================================
