CONSTANT MaxN = 6
SPECIFICATION Spec
INVARIANT InRange Bounded Inverse
PROPERTY Terminates
CHECK_DEADLOCK FALSE
