CONSTANTS
  NRot = 4
  NShift = 2
SPECIFICATION Spec
INVARIANT Emit Proper
CHECK_DEADLOCK FALSE
