------------------------------- MODULE MC_C08b -------------------------------
(* Pose sweep for C08.  Enumerates the exact rational pose family - every Euler *)
(* triple with at most one non-quarter (3-4-5) angle, so pitch = +-90 degrees    *)
(* exactly is hit with every roll / yaw combination, in both composition orders *)
(* Rx Ry Rz (RotationMatrices) and Rz Ry Rx (the parameter vector) - and checks  *)
(* on the specification itself that                                             *)
(*   * every pose is a proper rotation,                                          *)
(*   * the derivative matrices as the code composes them (P_X R, R Rz^T P_Y Rz,  *)
(*     R P_Z) are the true partial derivatives of Rx Ry Rz (L2 meets L1), their  *)
(*     generators d R^-1 are skew, and the two representative-independent ones   *)
(*     are P_X and R P_Z R^T,                                                    *)
(*   * the Euler extraction of to_wpr (both gimbal branches and the asin branch) *)
(*     followed by from_euler reproduces the rotation as a matrix.               *)
(* Emits, per pose: the stateless round-trip / derivative-matrix cases, a        *)
(* from_initial + set behaviour carrying Jacobian inputs, and the multi-body     *)
(* ParamHandler cases.                                                           *)
EXTENDS RcParams, TLC, Json
CONSTANTS Pyth,        \* "two" or "all": which 3-4-5 angles enter the family
          NMulti

VARIABLE case

Q0 == <<1, 0, 1>>
Q1 == <<0, 1, 1>>
Q2 == <<-1, 0, 1>>
Q3 == <<0, -1, 1>>
PSet == IF Pyth = "two" THEN { <<3,4,5>>, <<-4,-3,5>> } ELSE KPyth5
AllA == KQuarter \cup PSet
NonQ(e) == Cardinality({k \in 1..3 : e[k] \notin KQuarter})
Family == {e \in AllA \X AllA \X AllA : NonQ(e) <= 1}

Ang2All == KQuarter \cup KPyth5 \cup { <<5,12,13>>, <<-12,5,13>>, <<-5,-12,13>>, <<12,-5,13>>, <<8,15,17>>, <<-15,8,17>>, <<-8,-15,17>>, <<15,-8,17>>,
                                      <<7,24,25>>, <<-24,7,25>>, <<20,21,29>>, <<-21,-20,29>> }
Pr2 == << <<0,0,0>>, <<1,2,0>>, <<-7,5,0>>, <<40,-9,0>> >>
Pr3 == << <<0,0,0>>, <<1,2,3>>, <<-7,5,2>>, <<3,-4,12>> >>
Tr3 == <<3, -2, 5>>
Rc3 == <<40, -35, 20>>
R0 == [M |-> EulerM(<<Q0, Q0, <<4,3,5>> >>), H |-> 5]

\* Jacobian inputs near the moved centre of state s
Base(s) == <<s.crc.n[1] \div s.crc.d, s.crc.n[2] \div s.crc.d, s.crc.n[3] \div s.crc.d>>
JacIn(s) == LET b == Base(s) IN
    << [k |-> "pp", p |-> VAdd(b, <<3,-2,5>>), c |-> VAdd(b, <<5,-2,2>>), n |-> <<1,2,2>>, nh |-> 3],
       [k |-> "rev", p |-> VAdd(b, <<1,-2,-7>>), c |-> VAdd(b, <<3,1,-1>>), n |-> <<2,3,6>>, nh |-> 7],
       [k |-> "pt", p |-> VAdd(b, <<1,7,6>>), c |-> VAdd(b, <<1,4,2>>), n |-> <<0,3,4>>, nh |-> 5] >>
ProbesRc == << <<0,0,0>>, <<1,2,3>>, VAdd(Rc3, <<1,0,0>>), VAdd(Rc3, <<3,-4,2>>) >>
Beh(e) == LET T0 == Aff(R0.M, R0.H, Tr3, 1)
              s0 == L1Init(T0, Rc3)
              s1 == L1Set(s0, <<2,-1,4>>, TRUE, EulerM(e), EulerH(e), e) IN
    << [m |-> "rcp", op |-> "init3", R |-> R0, t |-> Tr3, rc |-> Rc3, pr |-> ProbesRc, jac |-> JacIn(s0)],
       [m |-> "rcp", op |-> "set3", dt |-> <<2,-1,4>>, rot |-> TRUE, e |-> e, pr |-> ProbesRc, jac |-> JacIn(s1)] >>
\* the same behaviour started from the pose itself (from_rotation on every family member, both orders)
BehInit(M, H) == LET T0 == Aff(M, H, Tr3, 1) s0 == L1Init(T0, Rc3) IN
    << [m |-> "rcp", op |-> "init3", R |-> [M |-> M, H |-> H], t |-> Tr3, rc |-> Rc3, pr |-> ProbesRc, jac |-> JacIn(s0)] >>

\* multi-body handler: three bodies, every choice of the static one
BodyR == << [M |-> EulerM(<<Q0, Q0, <<3,4,5>> >>), H |-> 5], [M |-> EulerM(<< <<-4,3,5>>, Q1, Q0>>), H |-> 5], [M |-> Ident, H |-> 1],
            [M |-> EulerM(<<Q3, <<4,-3,5>>, Q2>>), H |-> 5] >>
BodyT == << <<1,2,3>>, <<0,0,0>>, <<-3,0,2>>, <<250,-125,60>> >>
BodyRc == << <<10,0,0>>, <<0,5,0>>, <<1000,-995,500>>, <<-4,3,7>> >>
SetA == << [dt |-> <<1,1,1>>, rot |-> FALSE, e |-> <<Q0,Q0,Q0>>], [dt |-> <<0,-2,0>>, rot |-> FALSE, e |-> <<Q0,Q0,Q0>>], [dt |-> <<2,0,0>>, rot |-> TRUE, e |-> <<Q0, Q1, <<3,4,5>> >>] >>
SetB == << [dt |-> <<0,0,0>>, rot |-> TRUE, e |-> << <<4,3,5>>, Q0, Q3>>], [dt |-> <<5,0,-1>>, rot |-> TRUE, e |-> <<Q2, <<-3,4,5>>, Q0>>], [dt |-> <<0,0,9>>, rot |-> FALSE, e |-> <<Q0,Q0,Q0>>] >>
Rot3Seq(s, k) == [j \in 1..3 |-> s[((j + k - 1) % 3) + 1]]
MultiCase(v) == LET sh == v % 4 stat == v % 3 IN
    [m |-> "rcp", op |-> "multi", static |-> stat, noinit |-> (v = NMulti),
     bodies |-> [j \in 1..3 |-> IF v = NMulti THEN [R |-> [M |-> Ident, H |-> 1], t |-> KZero, rc |-> BodyRc[((j + sh) % 4) + 1]]
                               ELSE [R |-> BodyR[((j + sh) % 4) + 1], t |-> BodyT[((j + v) % 4) + 1], rc |-> BodyRc[((j + sh + 1) % 4) + 1]]],
     sets |-> << Rot3Seq(SetA, v), Rot3Seq(SetB, v + 1) >>, pr |-> Pr3]

Cases ==
    \* (every case is a sequence of records: TLC cannot hold records and sequences in one set)
    {<<[m |-> "rcp", op |-> "rt2", a |-> a, t |-> t, pr |-> Pr2]>> : a \in Ang2All, t \in { <<3,-2,0>>, <<-1000,999,0>> }} \cup
    {<<[m |-> "rcp", op |-> "rote", e |-> e]>> : e \in Family} \cup
    {<<[m |-> "rcp", op |-> "rt3", R |-> [M |-> EulerM(e), H |-> EulerH(e)], t |-> Tr3, e |-> e, pr |-> Pr3]>> : e \in Family} \cup
    {<<[m |-> "rcp", op |-> "rt3", R |-> [M |-> ZyxM(e), H |-> EulerH(e)], t |-> <<-250,125,60>>, e |-> e, pr |-> Pr3]>> : e \in Family} \cup
    {Beh(e) : e \in Family} \cup
    {BehInit(EulerM(e), EulerH(e)) : e \in Family} \cup {BehInit(ZyxM(e), EulerH(e)) : e \in Family} \cup
    {<<MultiCase(v)>> : v \in 0..NMulti}

Init == case \in Cases
Next == UNCHANGED case
Spec == Init /\ [][Next]_case
Emit == PrintT(<<"CASE", ToJson(case)>>)

\* ---------------------------------------------------------------- laws on the specification
IsRote == Len(case) = 1 /\ case[1].op = "rote"
PoseLaws == IsRote =>
    LET e == case[1].e R == EulerM(e) H == EulerH(e) Z == ZyxM(e) IN
    /\ \A k \in 1..3 : KIsAngle(e[k])
    /\ IsRotation(R, H) /\ IsRotation(Z, H)
    \* the two orders are inverse to each other under negation of the angles
    /\ KTr(R) = ZyxM(<< <<e[1][1], -e[1][2], e[1][3]>>, <<e[2][1], -e[2][2], e[2][3]>>, <<e[3][1], -e[3][2], e[3][3]>> >>)
DerivativeLaws == IsRote =>
    LET e == case[1].e R == EulerM(e) H == EulerH(e) IN
    \A k \in 1..3 :
        /\ MRatEq(CodedD(e, k).M, CodedD(e, k).H, EulerD(e, k), H)        \* coded composition = true partial derivative
        /\ IsSkew(EulerRD(e, k))                                           \* generators are skew
        /\ k = 1 => MRatEq(EulerRD(e, 1), H * H, GenX, 1)
        /\ k = 3 => EulerRD(e, 3) = GenZ(R)
ExtractionLaws == IsRote =>
    LET e == case[1].e H == EulerH(e) a == WprRoundTrip(EulerM(e), H) b == WprRoundTrip(ZyxM(e), H) IN
    /\ a.ok /\ MRatEq(a.M, a.H, EulerM(e), H)
    /\ b.ok /\ MRatEq(b.M, b.H, ZyxM(e), H)
=============================================================================
