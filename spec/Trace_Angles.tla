---------------------------- MODULE Trace_Angles ----------------------------
(* Judge for C18: every observation recorded from the real library must be  *)
(* allowed by the L1 semantics of module Angles.                             *)
EXTENDS Angles, JudgeBase

VARIABLE i

Tq == 4      \* tolerance on quantised angles / sines (units of 2^-20)

InClosed(lo, hi) == lo \in {0, 1} /\ hi \in {-1, 0}

JNorm(r) ==
    LET o == r.out IN
    /\ Clause(i, "norm.finite", o.finite)
    /\ Clause(i, "norm.signed.range", InClosed(o.slo, o.shi))
    /\ Clause(i, "norm.unsigned.range", InClosed(o.ulo, o.uhi))
    /\ Clause(i, "norm.signed.direction", Near(o.ss, o.is, Tq) /\ Near(o.sc, o.ic, Tq))
    /\ Clause(i, "norm.unsigned.direction", Near(o.us, o.is, Tq) /\ Near(o.uc, o.ic, Tq))
    /\ ("k" \in DOMAIN r /\ AbsV(r.k) <= 100) =>
          /\ Clause(i, "norm.signed.lattice", CycDist(o.sq, r.k * U) <= Tq)
          /\ Clause(i, "norm.unsigned.lattice", CycDist(o.uq, r.k * U) <= Tq)
          /\ Clause(i, "norm.signed.qrange", -HT - Tq <= o.sq /\ o.sq <= HT + Tq)
          /\ Clause(i, "norm.unsigned.qrange", -Tq <= o.uq /\ o.uq <= FT + Tq)

JDirPair(r) ==
    LET o == r.out
        d == (r.k1 - r.k0) * U IN
    /\ Clause(i, "dir.finite", o.finite)
    \* the result is a rounded difference of two normalised angles: the upper end of [0, 2pi] is judged on the
    \* quantised value (one ulp above 2pi is rounding, not a different direction), the lower end exactly
    /\ Clause(i, "dir.ccw.range", o.ccw_lo \in {0, 1} /\ o.ccw <= FT + Tq)
    /\ Clause(i, "dir.cw.range", o.cw_lo \in {0, 1} /\ o.cw <= FT + Tq)
    /\ Clause(i, "dir.ccw.rotates", CycDist(o.ccw, d) <= Tq)
    /\ Clause(i, "dir.cw.rotates", CycDist(-o.cw, d) <= Tq)
    /\ Clause(i, "dir.sum", \/ Near(o.ccw + o.cw, FT, 2 * Tq)
                            \/ (o.ccw_lo = 0 /\ o.cw_lo = 0))

JVec(r) ==
    LET o == r.out
        cr == r.v1[1] * r.v2[2] - r.v1[2] * r.v2[1]
        dt == r.v1[1] * r.v2[1] + r.v1[2] * r.v2[2]
        \* sin/cos of the returned angle must be proportional to (cross, dot): cross*cos - dot*sin = 0
        Prop(s, c) == /\ AbsV(cr * c - dt * s) <= 16 * Tq
                      /\ (cr # 0 => SgnV(s) = SgnV(cr) \/ AbsV(s) <= Tq)
                      /\ (dt # 0 => SgnV(c) = SgnV(dt) \/ AbsV(c) <= Tq)
    IN
    /\ Clause(i, "vec.finite", o.finite)
    /\ Clause(i, "vec.signed.range", InClosed(o.slo, o.shi))
    /\ Clause(i, "vec.signed.value", Prop(o.s_sin, o.s_cos))
    /\ Clause(i, "vec.signed.sign", cr # 0 => SgnV(o.sq) = SgnV(cr))
    /\ Clause(i, "vec.ccw.range", InClosed(o.ccw_lo, o.ccw_hi))
    /\ Clause(i, "vec.cw.range", InClosed(o.cw_lo, o.cw_hi))
    /\ Clause(i, "vec.ccw.value", Prop(o.ccw_sin, o.ccw_cos))
    /\ Clause(i, "vec.cw.value", Prop(-o.cw_sin, o.cw_cos))
    /\ Clause(i, "vec.ccw.matches_signed", CycDist(o.ccw, o.sq) <= Tq)
    /\ Clause(i, "vec.cw.matches_signed", CycDist(-o.cw, o.sq) <= Tq)
    /\ Clause(i, "vec.sum", \/ Near(o.ccw + o.cw, FT, 2 * Tq) \/ (o.ccw_lo = 0 /\ o.cw_lo = 0))

JAInt(r) ==
    LET o == r.out IN
    /\ Clause(i, "aint.shape", Len(o.c) = Len(r.ts))
    /\ Len(o.c) = Len(r.ts) =>
         Clause(i, "aint.contains",
                \A j \in 1..Len(r.ts) : Agrees(ContainsVerdict(r.s, r.x, r.ts[j][1]), o.c[j]))
    /\ Clause(i, "aint.start", CycDist(o.start, Lo(r.s, r.x) * U) <= Tq /\ -Tq <= o.start /\ o.start <= FT + Tq)
    /\ Clause(i, "aint.extent", Near(o.angle, Ext(r.x) * U, Tq))

JAInt2(r) ==
    LET o == r.out IN
    /\ Clause(i, "aint2.shape", Len(o.c) = Len(r.others) /\ Len(o.r) = Len(r.others))
    /\ (Len(o.c) = Len(r.others) /\ Len(o.r) = Len(r.others)) =>
         /\ Clause(i, "aint2.intersects",
                \A j \in 1..Len(r.others) :
                   Agrees(IntersectsVerdict(r.s, r.x, r.others[j][1], r.others[j][2]), o.c[j]))
         /\ Clause(i, "aint2.intersects.reversed",
                \A j \in 1..Len(r.others) :
                   Agrees(IntersectsVerdict(r.s, r.x, r.others[j][1], r.others[j][2]), o.r[j]))

JSInt(r) ==
    LET o == r.out a == r.a b == r.b IN
    /\ Clause(i, "sint.finite", o.finite)
    /\ Clause(i, "sint.ordered", o.min = IvMin(a, b) /\ o.max = IvMax(a, b) /\ o.try_ok)
    \* the fallible constructor orders its bounds exactly like the infallible one
    /\ Clause(i, "sint.try_new_ordered", o.try_ok => (o.tmin = IvMin(a, b) /\ o.tmax = IvMax(a, b)))
    /\ Clause(i, "sint.shape", Len(o.contains) = Len(r.xs) /\ Len(o.clamp) = Len(r.xs) /\ Len(o.overlaps) = Len(r.others)
                               /\ Len(o.contains_iv) = Len(r.others) /\ Len(o.inter) = Len(r.others))
    /\ (Len(o.contains) = Len(r.xs) /\ Len(o.clamp) = Len(r.xs)) =>
         /\ Clause(i, "sint.contains", \A j \in 1..Len(r.xs) : o.contains[j] = IvContains(a, b, r.xs[j]))
         /\ Clause(i, "sint.clamp", \A j \in 1..Len(r.xs) : o.clamp[j] = IvClamp(a, b, r.xs[j]))
    /\ (Len(o.overlaps) = Len(r.others) /\ Len(o.contains_iv) = Len(r.others) /\ Len(o.inter) = Len(r.others)) =>
         /\ Clause(i, "sint.overlaps", \A j \in 1..Len(r.others) :
                 o.overlaps[j] = IvOverlaps(a, b, r.others[j][1], r.others[j][2]))
         /\ Clause(i, "sint.contains_interval", \A j \in 1..Len(r.others) :
                 o.contains_iv[j] = (IvSet(r.others[j][1], r.others[j][2]) \subseteq IvSet(a, b)))
         /\ Clause(i, "sint.intersection", \A j \in 1..Len(r.others) :
                 LET c == r.others[j][1] d == r.others[j][2] x == o.inter[j] IN
                 IF IvOverlaps(a, b, c, d)
                 THEN x.some /\ x.min = IvMax(IvMin(a,b), IvMin(c,d)) /\ x.max = IvMin(IvMax(a,b), IvMax(c,d))
                 ELSE ~x.some)

JSIntNan(r) == Clause(i, "sint.nan_rejected", ~r.out.try_ok)

Judge(r) ==
    /\ Sane(i, r)
    /\ Ran(r) =>
        CASE r.op = "norm"     -> JNorm(r)
          [] r.op = "dirpair"  -> JDirPair(r)
          [] r.op = "vec"      -> JVec(r)
          [] r.op = "aint"     -> JAInt(r)
          [] r.op = "aint2"    -> JAInt2(r)
          [] r.op = "sint"     -> JSInt(r)
          [] r.op = "sint_nan" -> JSIntNan(r)
          [] r.op = "reset"    -> TRUE
          [] OTHER             -> Clause(i, "unknown-op", FALSE)

Init == i = 1
Next == i <= Len(Rec) /\ Judge(Rec[i]) /\ i' = i + 1
Spec == Init /\ [][Next]_i
Post == TLCGet("stats").diameter - 1 = Len(Rec)
=============================================================================
