------------------------------- MODULE MC_C18 -------------------------------
(* Bounded instance for C18: checks the laws of the Angles module and        *)
(* enumerates the cases that are replayed into the real library.             *)
EXTENDS Angles, TLC, Json, SequencesExt
CONSTANTS KMax,      \* |k| bound for normalisation cases
          KPair,     \* |k| bound for directed-angle pairs
          SNeg, SHi, \* start range -SNeg..SHi for interval cases
          XS,        \* extents for the intersects table
          S2         \* starts for the "self" interval of the intersects table

VARIABLE case
vars == <<case>>

E3 == {-1, 0, 1}
Vecs == {v \in (-2..2) \X (-2..2) : v # <<0, 0>>}
Tests == [k : -4..19, e : E3]
TestSeq == [j \in 1..72 |-> <<((j - 1) \div 3) - 4, ((j - 1) % 3) - 1>>]
XAll == -18..18
OtherSeq(xs) == LET xsq == SetToSortSeq(xs, LAMBDA a, b : a < b) c == Cardinality(xs)
                IN [j \in 1..(N * c) |-> <<(j - 1) \div c, xsq[((j - 1) % c) + 1]>>]
CodeSeq == [j \in 1..7 |-> j - 4]
PairSeq == [j \in 1..49 |-> <<((j - 1) \div 7) - 3, ((j - 1) % 7) - 3>>]

Cases ==
    {[m |-> "angles", op |-> "norm", k |-> k, e |-> e] : k \in -KMax..KMax, e \in E3} \cup
    {[m |-> "angles", op |-> "dirpair", k0 |-> a, e0 |-> b, k1 |-> c, e1 |-> d] :
        a \in -KPair..KPair, b \in E3, c \in -KPair..KPair, d \in E3} \cup
    {[m |-> "angles", op |-> "vec", v1 |-> v, v2 |-> w] : v \in Vecs, w \in Vecs} \cup
    \* the same pairs with lengths of a micrometre and a kilometre: angles do not depend on the lengths
    {[m |-> "angles", op |-> "vec", v1 |-> v, v2 |-> w, sc1 |-> -20, sc2 |-> -20] : v \in Vecs, w \in Vecs} \cup
    {[m |-> "angles", op |-> "vec", v1 |-> v, v2 |-> w, sc1 |-> -24, sc2 |-> 10] : v \in Vecs, w \in Vecs} \cup
    {[m |-> "angles", op |-> "aint", s |-> s, x |-> x, ts |-> TestSeq] : s \in (-SNeg)..SHi, x \in XAll} \cup
    {[m |-> "angles", op |-> "aint2", s |-> s, x |-> x, others |-> OtherSeq(XS)] : s \in S2, x \in XS} \cup
    {[m |-> "angles", op |-> "sint", a |-> a, b |-> b, xs |-> CodeSeq, others |-> PairSeq] : a \in Codes, b \in Codes} \cup
    {[m |-> "angles", op |-> "sint_nan", which |-> w] : w \in 0..2}

XSQuick == {-17, -16, -9, -4, -1, 0, 1, 3, 8, 15, 16, 17}
S2Quick == {-3, 0, 5, 13, 16}
XSThorough == -18..18
S2Thorough == -8..23

Init == case \in Cases
Next == UNCHANGED case
Spec == Init /\ [][Next]_vars

Emit == PrintT(<<"CASE", ToJson(case)>>)

\* laws of the specification itself, evaluated on every enumerated case
Laws ==
    /\ case.op = "aint" => /\ LawBackwards(case.s, case.x) /\ LawContainsStart(case.s, case.x)
                           /\ \A t \in 0..(N-1) : ContainsVerdict(case.s, case.x, t) = ContainsVerdict(case.s, case.x, t + N)
    /\ case.op = "aint2" => \A j \in 1..Len(case.others) :
                               LawSymmetric(case.s, case.x, case.others[j][1], case.others[j][2])
    /\ case.op = "sint" => \A j \in 1..49 : /\ LawInterComm(case.a, case.b, PairSeq[j][1], PairSeq[j][2])
                                            /\ LawInterInside(case.a, case.b, PairSeq[j][1], PairSeq[j][2])
=============================================================================
