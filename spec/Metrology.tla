------------------------------ MODULE Metrology ------------------------------
(* C16: deviations equal signed distance; aggregates track their contents.    *)
(*                                                                            *)
(* L1 (declarative, sets of allowed results) for                              *)
(*   - ToleranceMap::get on a breakpoint table           (TolAllowed)         *)
(*   - Distance::{value, reversed, center}               (Dist.. operators)   *)
(*   - point_curve2_deviation / line_surface_deviations  (CurveDevOK)         *)
(*   - Mesh::measure_point_deviation, both modes         (MeshDev..OK)        *)
(*   - SurfaceDeviationSet                               (Dev.. operators)    *)
(*   - PointCloud                                        (Cloud.. operators)  *)
(* L2 (algorithm transcriptions, checked against L1 by the MC_C16 modules)           *)
(*   - binary search for the breakpoint interval with an arbitrary pivot      *)
(*   - SurfaceDeviationSet::new / push with cached extreme indices            *)
(*   - PointCloud::{try_new, append, merge, create_from_indices}: the         *)
(*     micro-steps "check, check, mutate, mutate, mutate" live in MC_C16p.    *)
(*                                                                            *)
(* Geometry is exact: curve / mesh vertices are lattice points, query points  *)
(* lie on the half lattice; everything is handled in DOUBLED coordinates so   *)
(* that all of it is integral.  Squared distances are exact rationals.        *)
EXTENDS Closest

SgnC(x) == IF x < 0 THEN -1 ELSE IF x > 0 THEN 1 ELSE 0
SideSet(s) == IF s = 0 THEN {-1, 1} ELSE {s}
MaxSet(S) == CHOOSE x \in S : \A y \in S : y <= x
MinSet(S) == CHOOSE x \in S : \A y \in S : x <= y
RECURSIVE GcdP(_, _)
GcdP(a, b) == IF b = 0 THEN a ELSE GcdP(b, a % b)
Gcd(a, b) == GcdP(AbsC(a), AbsC(b))
Double(v) == [k \in 1..Len(v) |-> VScale(2, v[k])]

\* ============================================================ tolerance map
\* A query value is x = x2/2 + e*eps (e in {-1,0,1}, eps infinitesimal); breakpoints are integers.
XLt(x, b) == x[1] < 2 * b \/ (x[1] = 2 * b /\ x[2] < 0)       \* x < b
XGt(x, b) == x[1] > 2 * b \/ (x[1] = 2 * b /\ x[2] > 0)       \* x > b
XEq(x, b) == x[1] = 2 * b /\ x[2] = 0

\* Allowed answers of get(x): 0 = None, k = the zone of breakpoint k (1-based).
\*   empty table: None.   x below the first breakpoint: there is no breakpoint "not above x" and the
\*   statement says the first zone is never used below the start (weakest reading: no zone of a
\*   breakpoint above x may be returned, i.e. None).   x beyond the end: the last zone.
\*   otherwise the zone of the greatest breakpoint <= x; equal breakpoints leave the choice free.
TolAllowed(bps, x) ==
    LET n == Len(bps) IN
    IF n = 0 THEN {0}
    ELSE IF XLt(x, bps[1]) THEN {0}
    ELSE IF XGt(x, bps[n]) THEN {n}
    ELSE LET below == {k \in 1..n : ~XLt(x, bps[k])}
             g == MaxSet({bps[k] : k \in below}) IN
         {k \in below : bps[k] = g}

\* L2: DiscreteDomain::index_of (slice binary search: any probe order, any of several equal elements)
\* followed by DiscreteDomainTolMap::get.  Results as above.
RECURSIVE BinSearch(_, _, _, _)
BinSearch(bps, x, lo, hi) ==          \* half-open 1-based range; <<"ok", k>> or <<"err", insert position>>
    IF lo >= hi THEN {<<"err", lo>>}
    ELSE UNION {IF XEq(x, bps[mid]) THEN {<<"ok", mid>>}
                ELSE IF XGt(x, bps[mid]) THEN BinSearch(bps, x, mid + 1, hi)
                ELSE BinSearch(bps, x, lo, mid) : mid \in lo..(hi - 1)}
IndexOfAlg(bps, x) ==                 \* 0 = None
    LET n == Len(bps) IN
    IF n = 0 THEN {0}
    ELSE {IF r[1] = "ok" THEN r[2]
          ELSE IF ~XLt(x, bps[1]) /\ ~XGt(x, bps[n]) THEN r[2] - 1 ELSE 0 : r \in BinSearch(bps, x, 1, n + 1)}
TolGetAlg(bps, x) ==
    LET n == Len(bps) IN
    IF n = 0 THEN {0}
    ELSE {IF k # 0 THEN k ELSE IF XGt(x, bps[n]) THEN n ELSE 0 : k \in IndexOfAlg(bps, x)}
LawTolAlg(bps, x) == TolGetAlg(bps, x) \subseteq TolAllowed(bps, x) /\ TolGetAlg(bps, x) # {}

\* ============================================================ directed distance
QV == 4096        \* values (per lattice unit)
Q2 == 1024        \* squared values
QPD == 4096       \* points
\* dir = integer vector of integer length h (h = 0: no direction given, the library takes b - a)
DistValueOK(a, b, dir, h, o) ==
    IF h > 0 THEN AbsC(o.val * h - QV * VDot(VSub(b, a), dir)) <= 2 * h
    ELSE /\ o.val >= 0
         /\ AbsC(o.v2 - Q2 * D2(a, b)) <= 2 + (Q2 * D2(a, b)) \div 100000
DistDirOK(a, b, dir, h, o) == DirMatches(o.dir, IF h > 0 THEN dir ELSE VSub(b, a))
DistReversedOK(a, b, o) ==
    /\ AbsC(o.rval - o.val) <= 1
    /\ \A k \in 1..3 : o.ra[k] = QPD * b[k] /\ o.rb[k] = QPD * a[k]
    /\ \A k \in 1..3 : AbsC(o.rdir[k] + o.dir[k]) <= 1
DistCenterOK(a, b, o) ==
    /\ \A k \in 1..3 : AbsC(2 * o.cpt[k] - QPD * (a[k] + b[k])) <= 2
    /\ \A k \in 1..3 : AbsC(o.cn[k] - o.dir[k]) <= 1

\* ============================================================ deviation from a curve (2D, doubled units)
Cross2(a, b) == a[1] * b[2] - a[2] * b[1]
\* the curve normal is its direction turned clockwise: n = (e_y, -e_x);  sign of w . n
SideOfEdge(e, w) == SgnC(w[1] * e[2] - w[2] * e[1])

\* The closest point is vertex j.  The points that are closest to a vertex (and to no edge interior)
\* fill the wedge between the normals of the two edges on the outside of the turn, so the side is
\* decided by the turn: left turn -> the wedge is on the normal side.  Straight: side of the line.
\* Doubling back / zero offset: free.  End of an open curve: side of the end edge's line.
VertexSides(v, closed, j, q) ==
    LET n == Len(v) w == VSub(q, v[j])
        hasIn == j > 1 \/ closed
        hasOut == j < n \/ closed
        ein == IF j > 1 THEN Edge(v, j - 1) ELSE Edge(v, n - 1)
        eout == IF j < n THEN Edge(v, j) ELSE Edge(v, 1) IN
    IF hasIn /\ hasOut THEN
        LET cr == Cross2(ein, eout) IN
        IF cr > 0 THEN {1} ELSE IF cr < 0 THEN {-1}
        ELSE IF VDot(ein, eout) > 0 THEN SideSet(SideOfEdge(eout, w)) ELSE {-1, 1}
    ELSE SideSet(SideOfEdge(IF hasOut THEN eout ELSE ein, w))

EdgeSides(v, closed, q, k) ==
    LET e == Edge(v, k) w == VSub(q, v[k]) dd == VDot(e, e) dt == VDot(w, e) IN
    IF dt <= 0 THEN VertexSides(v, closed, k, q)
    ELSE IF dt >= dd THEN VertexSides(v, closed, k + 1, q)
    ELSE SideSet(SideOfEdge(e, w))
MinEdges(v, q) == LET m == CurveMinD2(q, v) IN {k \in 1..(Len(v) - 1) : REq(SegD2(q, v[k], v[k + 1]), m)}
\* allowed signs of the deviation (every closest feature counts; on the curve everything is allowed)
CurveSides(v, closed, q) ==
    IF CurveMinD2(q, v)[1] = 0 THEN {-1, 0, 1}
    ELSE UNION {EdgeSides(v, closed, q, k) : k \in MinEdges(v, q)}

\* observation of one deviation: sp (reference point, QPD per doubled unit), v2 (value^2 * Q2, doubled units),
\* sg (sign of the value), act (reconstructed point sp + n * value, QPD)
SqMatches(v2, m) == AbsC(v2 * m[2] - Q2 * m[1]) <= 2 * m[2] + (Q2 * m[1]) \div 2000
DevMagnitudeOK(v, q, o) == SqMatches(o.v2, CurveMinD2(q, v))
DevSignOK(v, closed, q, o) == o.sg \in CurveSides(v, closed, q)
DevReferenceOK(v, q, o) ==
    \E k \in MinEdges(v, q) :
        LET e == Edge(v, k) w == VSub(q, v[k]) dd == VDot(e, e) dt == VDot(w, e)
            t == IF dt <= 0 THEN 0 ELSE IF dt >= dd THEN dd ELSE dt IN
        \A a \in 1..2 : AbsC(o.sp[a] * dd - QPD * (v[k][a] * dd + t * e[a])) <= 3 * dd
DevReconstructsOK(q, o) == \A a \in 1..2 : AbsC(o.act[a] - QPD * q[a]) <= 3
\* an element of the set returned for a list of measured points is the deviation of one of them (order left free)
DevItemOK(v, closed, qs, o) ==
    \E j \in 1..Len(qs) : /\ DevReconstructsOK(qs[j], o) /\ DevMagnitudeOK(v, qs[j], o)
                           /\ DevSignOK(v, closed, qs[j], o) /\ DevReferenceOK(v, qs[j], o)

\* ============================================================ deviation from a mesh (doubled units)
QM == 256         \* mesh reference points (per doubled unit)
Prim(n) == LET g == Gcd(Gcd(n[1], n[2]), n[3]) IN IF g = 0 THEN n ELSE <<n[1] \div g, n[2] \div g, n[3] \div g>>
FaceN(t) == Prim(TriNormal(t[1], t[2], t[3]))
Faces(vp, fs) == [k \in 1..Len(fs) |-> FaceTri(vp, fs[k])]
\* exact squared distance to a triangle / to the mesh as in module Closest, but with the primitive normal
\* (keeps every numerator and denominator small enough for the 31-bit products of SqMatches)
TriD2P(q, t) ==
    LET n == FaceN(t) IN
    IF n # VZero /\ InsidePrism(q, t[1], t[2], t[3])
    THEN LET h == VDot(n, VSub(q, t[1])) IN <<h * h, VDot(n, n)>>
    ELSE RMin(SegD2(q, t[1], t[2]), RMin(SegD2(q, t[2], t[3]), SegD2(q, t[3], t[1])))
RECURSIVE MinTriD2P(_, _, _, _, _)
MinTriD2P(q, vp, fs, k, cur) ==
    IF k > Len(fs) THEN cur ELSE MinTriD2P(q, vp, fs, k + 1, RMin(TriD2P(q, FaceTri(vp, fs[k])), cur))
MeshMinD2P(q, vp, fs) == MinTriD2P(q, vp, fs, 2, TriD2P(q, FaceTri(vp, fs[1])))

\* quantised point aq lies on triangle t (within a couple of quanta)
OnFaceQ(aq, t) ==
    LET n == FaceN(t)
        In(P, R) == LET e == VSub(R, P) IN
                    VDot(VCross(e, VSub(aq, VScale(QM, P))), n) >= -(4 * VNorm1(e) * VNorm1(n)) IN
    /\ AbsC(VDot(n, VSub(aq, VScale(QM, t[1])))) <= 3 * VNorm1(n)
    /\ In(t[1], t[2]) /\ In(t[2], t[3]) /\ In(t[3], t[1])

\* closed, consistently wound, convex: every directed edge has its reverse and no vertex is in front of a face
DirEdges(f) == {<<f[1], f[2]>>, <<f[2], f[3]>>, <<f[3], f[1]>>}
ClosedConvex(vp, fs) ==
    LET ts == Faces(vp, fs)
        de == UNION {DirEdges(fs[k]) : k \in 1..Len(fs)} IN
    /\ \A e \in de : <<e[2], e[1]>> \in de
    /\ \A k \in 1..Len(fs) : \A j \in 1..Len(vp) : VDot(FaceN(ts[k]), VSub(vp[j], ts[k][1])) <= 0

\* the closest point lies strictly inside an edge a-b shared by exactly two faces (normals N1, N2), and nothing else is as near:
\* with w a positive multiple of the offset (perpendicular to the edge), the point is outside when w lies in the cone spanned by
\* N1 and N2 and inside when it lies in the cone spanned by -N1 and -N2 - whichever of the two faces the search reports, however
\* sharp the ridge or the groove (at a sharp groove an inside point is IN FRONT of one of the two faces).
MeshEdgeSide(q, a, b, N1, N2) ==
    LET d == VSub(b, a) dd == VDot(d, d) qa == VSub(q, a) w == VSub(VScale(dd, qa), VScale(VDot(qa, d), d))
        s == SgnC(VDot(VCross(N1, N2), d)) c1 == SgnC(VDot(VCross(N1, w), d)) c2 == SgnC(VDot(VCross(w, N2), d)) IN
    IF s = 0 THEN SideSet(SgnC(VDot(w, N1)))
    ELSE IF c1 # -s /\ c2 # -s /\ (c1 # 0 \/ c2 # 0) THEN {1}
    ELSE IF c1 # s /\ c2 # s /\ (c1 # 0 \/ c2 # 0) THEN {-1}
    ELSE {-1, 1}
MeshEdgeSides(q, vp, fs, m) ==
    LET ts == Faces(vp, fs)
        near == {k \in 1..Len(fs) : REq(TriD2P(q, ts[k]), m)} IN
    IF Cardinality(near) # 2 THEN {-1, 1}
    ELSE LET k1 == CHOOSE k \in near : TRUE k2 == CHOOSE k \in near : k # k1
             common == {ts[k1][j] : j \in 1..3} \cap {ts[k2][j] : j \in 1..3} IN
         IF Cardinality(common) # 2 THEN {-1, 1}
         ELSE LET a == CHOOSE x \in common : TRUE b == CHOOSE x \in common : x # a
                  d == VSub(b, a) dd == VDot(d, d) t == VDot(VSub(q, a), d)
                  w == VSub(VScale(dd, VSub(q, a)), VScale(t, d)) IN
              IF t > 0 /\ t < dd /\ REq(<<VDot(w, w), dd * dd>>, m)
                 /\ Cardinality({k \in 1..Len(fs) : {a, b} \subseteq {ts[k][j] : j \in 1..3}}) = 2
              THEN MeshEdgeSide(q, a, b, FaceN(ts[k1]), FaceN(ts[k2]))
              ELSE {-1, 1}

\* allowed signs in point mode.  Convex closed mesh: outside is the outward-normal side.
\* Otherwise queries whose closest point is the foot of the perpendicular on a closest face, or lies strictly inside an edge
\* shared by two faces, are decided.
MeshSides(q, vp, fs, convex) ==
    LET ts == Faces(vp, fs) m == MeshMinD2P(q, vp, fs) IN
    IF m[1] = 0 THEN {-1, 0, 1}
    ELSE IF convex THEN
        IF \E k \in 1..Len(fs) : VDot(FaceN(ts[k]), VSub(q, ts[k][1])) > 0 THEN {1} ELSE {-1}
    ELSE LET F == {k \in 1..Len(fs) : /\ InsidePrism(q, ts[k][1], ts[k][2], ts[k][3])
                                       /\ REq(TriD2P(q, ts[k]), m)} IN
         IF F = {} THEN MeshEdgeSides(q, vp, fs, m)
         ELSE UNION {SideSet(SgnC(VDot(FaceN(ts[k]), VSub(q, ts[k][1])))) : k \in F}

\* observation o: a (QM), da2 (|b-a|^2 * Q2), v2 (value^2 * Q2), sg, dir (QD), rec (a + dir*value, QM)
MeshRefOnSurface(vp, fs, o) == \E k \in 1..Len(fs) : OnFaceQ(o.a, FaceTri(vp, fs[k]))
MeshRefClosest(q, vp, fs, o) == SqMatches(o.da2, MeshMinD2P(q, vp, fs))
MeshPointMagnitudeOK(q, vp, fs, o) == SqMatches(o.v2, MeshMinD2P(q, vp, fs))
MeshPointSignOK(q, vp, fs, convex, o) == o.sg \in MeshSides(q, vp, fs, convex)
MeshReconstructsOK(q, o) == \A a \in 1..3 : AbsC(o.rec[a] - QM * q[a]) <= 3
\* plane mode: direction = unit normal of a face the reference point lies on, value = that normal's component of b - a
MeshPlaneOK(q, vp, fs, o) ==
    \E k \in 1..Len(fs) :
        LET t == FaceTri(vp, fs[k]) n == FaceN(t) h == VDot(n, VSub(q, t[1])) nn == VDot(n, n) IN
        /\ OnFaceQ(o.a, t)
        /\ DirMatches(o.dir, n)
        /\ AbsC(o.v2 * nn - Q2 * h * h) <= 2 * nn + (Q2 * h * h) \div 2000
        /\ (h = 0 \/ o.v2 = 0 \/ o.sg = SgnC(h))

\* ============================================================ deviation set
\* L1: the set holds a sequence of values; extremes are true extremes (which of several equal ones is free)
DevMax(vals) == MaxSet({vals[k] : k \in 1..Len(vals)})
DevMin(vals) == MinSet({vals[k] : k \in 1..Len(vals)})
DevZone(vals) == IF Len(vals) = 0 THEN 0 ELSE 2 * Max2(AbsC(DevMax(vals)), AbsC(DevMin(vals)))
DevArgs(vals, x) == {k \in 1..Len(vals) : vals[k] = x}

\* L2: SurfaceDeviationSet::{new, push} with cached indices (0 = None, otherwise 1-based)
RECURSIVE LastMaxFrom(_, _, _)
LastMaxFrom(vs, k, best) == IF k > Len(vs) THEN best
                            ELSE LastMaxFrom(vs, k + 1, IF vs[k] >= vs[best] THEN k ELSE best)      \* Iterator::max_by keeps the last of equals
RECURSIVE FirstMinFrom(_, _, _)
FirstMinFrom(vs, k, best) == IF k > Len(vs) THEN best
                             ELSE FirstMinFrom(vs, k + 1, IF vs[k] < vs[best] THEN k ELSE best)     \* Iterator::min_by keeps the first
AlgDefault == [vals |-> <<>>, maxi |-> 0, mini |-> 0]
AlgNew(vs) == IF Len(vs) = 0 THEN AlgDefault
              ELSE [vals |-> vs, maxi |-> LastMaxFrom(vs, 2, 1), mini |-> FirstMinFrom(vs, 2, 1)]
AlgPush(s, x) ==
    [vals |-> Append(s.vals, x),
     maxi |-> IF s.maxi = 0 \/ x > s.vals[s.maxi] THEN Len(s.vals) + 1 ELSE s.maxi,
     mini |-> IF s.mini = 0 \/ x < s.vals[s.mini] THEN Len(s.vals) + 1 ELSE s.mini]
\* refinement: what the cached indices report is allowed by L1
AlgRefines(s) ==
    IF Len(s.vals) = 0 THEN s.maxi = 0 /\ s.mini = 0
    ELSE /\ s.maxi \in DevArgs(s.vals, DevMax(s.vals))
         /\ s.mini \in DevArgs(s.vals, DevMin(s.vals))

\* ============================================================ point cloud
\* abstract cloud: points, optional normals, optional colours (absent = flag FALSE and empty sequence)
NoCloud == [p |-> <<>>, hn |-> FALSE, n |-> <<>>, hc |-> FALSE, c |-> <<>>, live |-> FALSE]
MkCloud(p, hn, n, hc, c) == [p |-> p, hn |-> hn, n |-> n, hc |-> hc, c |-> c, live |-> TRUE]
CloudWellFormed(c) == /\ (c.hn => Len(c.n) = Len(c.p)) /\ (~c.hn => c.n = <<>>)
                      /\ (c.hc => Len(c.c) = Len(c.p)) /\ (~c.hc => c.c = <<>>)
\* quarter turns about z followed by a translation (exact on the lattice)
Rot(k, v) == IF k % 4 = 0 THEN v ELSE IF k % 4 = 1 THEN <<-v[2], v[1], v[3]>>
             ELSE IF k % 4 = 2 THEN <<-v[1], -v[2], v[3]>> ELSE <<v[2], -v[1], v[3]>>
Pick(s, idx) == [j \in 1..Len(idx) |-> s[idx[j] + 1]]

\* L1 transition: <<accepted, next cloud>>; a rejected operation leaves the cloud as it was
CloudStep(c, r) ==
    CASE r.op = "pnew" ->
            IF (r.hn => Len(r.n) = Len(r.p)) /\ (r.hc => Len(r.c) = Len(r.p))
            THEN <<TRUE, MkCloud(r.p, r.hn, IF r.hn THEN r.n ELSE <<>>, r.hc, IF r.hc THEN r.c ELSE <<>>)>>
            ELSE <<FALSE, c>>
      [] r.op = "pempty" -> <<TRUE, MkCloud(<<>>, r.hn, <<>>, r.hc, <<>>)>>
      [] r.op = "pappend" ->
            IF c.hn = r.hn /\ c.hc = r.hc
            THEN <<TRUE, MkCloud(Append(c.p, r.p), c.hn, IF c.hn THEN Append(c.n, r.n) ELSE <<>>,
                                 c.hc, IF c.hc THEN Append(c.c, r.c) ELSE <<>>)>>
            ELSE <<FALSE, c>>
      [] r.op = "pmerge" ->
            IF c.hn = r.hn /\ c.hc = r.hc
            THEN <<TRUE, MkCloud(c.p \o r.p, c.hn, IF c.hn THEN c.n \o r.n ELSE <<>>, c.hc, IF c.hc THEN c.c \o r.c ELSE <<>>)>>
            ELSE <<FALSE, c>>
      [] r.op = "pselect" ->
            <<TRUE, MkCloud(Pick(c.p, r.idx), c.hn, IF c.hn THEN Pick(c.n, r.idx) ELSE <<>>,
                            c.hc, IF c.hc THEN Pick(c.c, r.idx) ELSE <<>>)>>
      [] r.op = "ptransform" ->
            <<TRUE, MkCloud([j \in 1..Len(c.p) |-> VAdd(Rot(r.k, c.p[j]), r.t)], c.hn,
                            [j \in 1..Len(c.n) |-> Rot(r.k, c.n[j])], c.hc, c.c)>>
\* inputs the library documents as the caller's duty
CloudInDomain(c, r) ==
    CASE r.op = "pselect" -> c.live /\ \A j \in 1..Len(r.idx) : r.idx[j] >= 0 /\ r.idx[j] < Len(c.p)
      [] r.op \in {"pappend", "pmerge", "ptransform"} -> c.live
      [] OTHER -> TRUE
=============================================================================
