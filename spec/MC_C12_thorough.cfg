CONSTANTS
  NV = 5
  MaxF = 3
SPECIFICATION Spec
INVARIANT Emit PatchAlgCorrect Bounded LoopAlgCorrect
CHECK_DEADLOCK FALSE
