CONSTANTS
  G = 3
  MaxN = 9
  NScales = 5
SPECIFICATION Spec
INVARIANT Emit Laws
CHECK_DEADLOCK FALSE
