CONSTANTS
  Chords = {0, 1, 2, 3, 4}
  Cambers = {0, 2, 5, 8}
  AllPairs = TRUE
SPECIFICATION Spec
INVARIANT Emit
CHECK_DEADLOCK FALSE
