CONSTANTS
  MaxLen = 4
  Vals <- ValSet
SPECIFICATION Spec
INVARIANT Emit LawsHold RoundTrip
CHECK_DEADLOCK FALSE
