CONSTANTS
  ParamIds = {0, 1, 2}
  Refresh = FALSE
SPECIFICATION Spec
INVARIANT Honest
CONSTRAINT Bound
CHECK_DEADLOCK FALSE
