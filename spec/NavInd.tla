------------------------------- MODULE NavInd -------------------------------
(* Unbounded proof obligation for the station-navigation model (StationNav.tla): *)
(* for EVERY number of vertices n >= 2 a walk with next() from any position      *)
(* reaches None after at most n steps.  IndInv is inductive (checked by Apalache *)
(* with --init=IndInit --inv=IndInv --length=1 and Init => IndInv at length 0)   *)
(* and implies Bounded.  The operators are copied from StationNav.tla.           *)
EXTENDS Integers

VARIABLES
    \* @type: Int;
    n,
    \* @type: Int;
    p,
    \* @type: Int;
    steps

Last == 2 * (n - 1)
IsVertex(q) == q % 2 = 0
NextOf(q) == IF q = Last THEN -1 ELSE IF IsVertex(q) THEN q + 2 ELSE q + 1
\* remaining steps until None
Remaining(q) == IF q = -1 THEN 0 ELSE IF IsVertex(q) THEN (Last - q) \div 2 + 1 ELSE (Last - q + 1) \div 2 + 1

Init == n \in Nat /\ n >= 2 /\ p \in Int /\ p >= 0 /\ p <= Last /\ steps = 0
Next == p # -1 /\ p' = NextOf(p) /\ steps' = steps + 1 /\ UNCHANGED n
IndInv == /\ n >= 2 /\ steps >= 0
          /\ (p = -1 \/ (p >= 0 /\ p <= Last))
          /\ steps + Remaining(p) <= n
IndInit == n \in Int /\ p \in Int /\ steps \in Int /\ IndInv
Bounded == steps <= n
=============================================================================
