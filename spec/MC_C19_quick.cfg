CONSTANTS
  ASet = "small"
  P1Set = "few"
  Lat3 = "12"
  AllW = FALSE
  Full2D = FALSE
SPECIFICATION Spec
INVARIANT Emit Laws
CHECK_DEADLOCK FALSE
