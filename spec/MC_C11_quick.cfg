CONSTANTS
  WCC = 5
  WCCS = 3
  WTan = 6
  WSeg = 6
  WLine = 3
  WCurve = 2
  RMax = 5
  Scales <- ScalesQuick
  PRad <- PRadQuick
SPECIFICATION Spec
INVARIANT Emit Laws
CHECK_DEADLOCK FALSE
