------------------------------- MODULE MC_C02 -------------------------------
(* Bounded instance for C02: curated lattice polylines (2D, 3D) and small      *)
(* lattice meshes x every query point of a half-lattice window around them      *)
(* (on the entity, equidistant from several elements, far outside, inside).     *)
(* Checks the laws of the exact distance operators and emits the cases.         *)
EXTENDS Closest, TLC, Json, SequencesExt
CONSTANTS Margin, Step, MaxCurveV

VARIABLE case
P(x, y) == <<x, y, 0>>
P3(x, y, z) == <<x, y, z>>
Curves2 == { <<P(0,0), P(2,0)>>, <<P(0,0), P(2,0), P(2,3)>>, <<P(0,0), P(3,4), P(3,0)>>,
             <<P(0,0), P(1,0), P(3,0), P(3,2)>>, <<P(0,1), P(3,1), P(3,3), P(1,3), P(1,0)>>,
             <<P(0,0), P(2,0), P(2,2), P(0,2)>>, <<P(0,0), P(4,0), P(4,1), P(0,1), P(0,2), P(4,2)>>,
             <<P(1,1), P(3,1), P(1,1), P(1,3)>> }
Closed2 == { <<P(0,0), P(2,0), P(2,2), P(0,2)>>, <<P(0,0), P(4,0), P(4,3)>>,
             \* more than four edges: the search tree visits the last edge before the first one at the seam
             <<P(0,0), P(2,0), P(2,1), P(4,1), P(4,3), P(1,3), P(1,2), P(0,2)>> }
Curves3 == { <<P3(0,0,0), P3(2,0,0), P3(2,0,3)>>, <<P3(0,0,0), P3(0,3,4), P3(2,3,4), P3(2,0,0)>>,
             <<P3(1,1,0), P3(1,1,2), P3(1,3,2), P3(3,3,2)>> }

Dbl(p) == <<2 * p[1], 2 * p[2], 2 * p[3]>>
DblSeq(s) == [k \in 1..Len(s) |-> Dbl(s[k])]
Lo(s, a) == CHOOSE m \in {s[k][a] : k \in 1..Len(s)} : \A k \in 1..Len(s) : m <= s[k][a]
Hi(s, a) == CHOOSE m \in {s[k][a] : k \in 1..Len(s)} : \A k \in 1..Len(s) : m >= s[k][a]
\* query window in doubled coordinates; planar: z fixed to 0
Window(s, planar) ==
    {<<x, y, z>> : x \in (2 * Lo(s, 1) - Margin)..(2 * Hi(s, 1) + Margin),
                   y \in (2 * Lo(s, 2) - Margin)..(2 * Hi(s, 2) + Margin),
                   z \in IF planar THEN {0} ELSE (2 * Lo(s, 3) - Margin)..(2 * Hi(s, 3) + Margin)}
Thin(W) == {q \in W : (q[1] + 3 * q[2] + 5 * q[3]) % Step = 0}
Ord(q) == (q[1] + 20) * 10000 + (q[2] + 20) * 100 + (q[3] + 20)
QSeq(W) == SetToSortSeq(W, LAMBDA a, b : Ord(a) < Ord(b))

\* small lattice meshes (vertex positions, faces 0-based)
BoxV == <<P3(0,0,0), P3(2,0,0), P3(0,0,2), P3(2,0,2), P3(0,2,0), P3(2,2,0), P3(0,2,2), P3(2,2,2)>>
BoxF == << <<4,7,5>>, <<4,6,7>>, <<0,2,4>>, <<2,6,4>>, <<0,1,2>>, <<1,3,2>>, <<1,5,7>>, <<1,7,3>>, <<2,3,7>>, <<2,7,6>>, <<0,4,1>>, <<1,4,5>> >>
Meshes == {
    [name |-> "tetra", vpos |-> <<P3(0,0,0), P3(2,0,0), P3(0,2,0), P3(0,0,2)>>, faces |-> << <<0,2,1>>, <<0,1,3>>, <<1,2,3>>, <<0,3,2>> >>],
    [name |-> "box", vpos |-> BoxV, faces |-> BoxF],
    [name |-> "quad", vpos |-> <<P3(0,0,0), P3(2,0,0), P3(2,2,0), P3(0,2,0)>>, faces |-> << <<0,1,2>>, <<0,2,3>> >>],
    [name |-> "fold", vpos |-> <<P3(0,0,0), P3(2,0,0), P3(2,2,0), P3(0,2,0), P3(2,0,2), P3(2,2,2)>>, faces |-> << <<0,1,2>>, <<0,2,3>>, <<1,4,5>>, <<1,5,2>> >>],
    [name |-> "fan", vpos |-> <<P3(1,1,1), P3(0,0,0), P3(2,0,0), P3(2,2,0), P3(0,2,0)>>, faces |-> << <<0,1,2>>, <<0,2,3>>, <<0,3,4>>, <<0,4,1>> >>] }

Cases ==
    {[m |-> "closest", op |-> "curve", dim |-> 2, pts |-> c, fc |-> FALSE, sc |-> sc, tolU |-> 0, qs |-> QSeq(Thin(Window(c, TRUE)))]
        : c \in {x \in Curves2 : Len(x) <= MaxCurveV}, sc \in {0, 4}} \cup
    {[m |-> "closest", op |-> "curve", dim |-> 2, pts |-> c, fc |-> TRUE, sc |-> 0, tolU |-> 0, qs |-> QSeq(Thin(Window(c, TRUE)))]
        : c \in Closed2} \cup
    {[m |-> "closest", op |-> "curve", dim |-> 3, pts |-> c, fc |-> FALSE, sc |-> 0, tolU |-> 0, qs |-> QSeq(Thin(Window(c, FALSE)))]
        : c \in Curves3} \cup
    \* the same queries against curves DERIVED by transformed_by (1: translation, 2: quarter turn + translation)
    {[m |-> "closest", op |-> "curve", dim |-> 3, pts |-> c, fc |-> FALSE, sc |-> 0, tolU |-> 0, tf |-> tf, qs |-> QSeq(Thin(Window(c, FALSE)))]
        : c \in Curves3, tf \in 1..2} \cup
    {[m |-> "closest", op |-> "curve", dim |-> 2, pts |-> c, fc |-> FALSE, sc |-> 0, tolU |-> 0, tf |-> tf, qs |-> QSeq(Thin(Window(c, TRUE)))]
        : c \in {x \in Curves2 : Len(x) <= MaxCurveV}, tf \in 1..2} \cup
    {[m |-> "closest", op |-> "mesh", name |-> ms.name, vpos |-> ms.vpos, faces |-> ms.faces, sc |-> (IF tf = 1 THEN -11 ELSE 0), tf |-> tf,
      caps |-> <<2, 4, 5, 8>>, angles |-> <<30, 45, 60>>, qs |-> QSeq(Thin(Window(ms.vpos, FALSE)))]
        : ms \in Meshes, tf \in 0..2} \cup
    \* the same meshes at a part size of a micrometre (2^-21): answers may not depend on absolute thresholds
    {[m |-> "closest", op |-> "mesh", name |-> ms.name, vpos |-> ms.vpos, faces |-> ms.faces, sc |-> -21, tf |-> 0,
      caps |-> <<2, 4, 5, 8>>, angles |-> <<30, 45, 60>>, qs |-> QSeq(Thin(Window(ms.vpos, FALSE)))]
        : ms \in Meshes}

Init == case \in Cases
Next == UNCHANGED case
Spec == Init /\ [][Next]_case
Emit == PrintT(<<"CASE", ToJson(case)>>)

\* laws of the exact distance operators, on every query of every case
Laws ==
    IF case.op = "curve" THEN
        LET v == DblSeq(Built(case.pts, 0, case.fc, case.dim)) IN
        \A j \in 1..Len(case.qs) : LET q == case.qs[j] m == CurveMinD2(q, v) IN
            /\ m[2] > 0 /\ m[1] >= 0
            /\ \A k \in 1..(Len(v) - 1) : RLe(m, SegD2(q, v[k], v[k + 1]))            \* it is a lower bound ...
            /\ \E k \in 1..(Len(v) - 1) : REq(m, SegD2(q, v[k], v[k + 1]))            \* ... that is attained
            /\ \A k \in 1..Len(v) : RLe(m, <<D2(q, v[k]), 1>>)                        \* no vertex is nearer
    ELSE
        LET vp == DblSeq(case.vpos) IN
        \A j \in 1..Len(case.qs) : LET q == case.qs[j] m == MeshMinD2(q, vp, case.faces) IN
            /\ m[2] > 0 /\ m[1] >= 0
            /\ \A k \in 1..Len(vp) : RLe(m, <<D2(q, vp[k]), 1>>)                      \* no vertex is nearer
            /\ \A k \in 1..Len(case.faces) :                                         \* no edge is nearer
                  LET t == FaceTri(vp, case.faces[k]) IN
                  RLe(m, SegD2(q, t[1], t[2])) /\ RLe(m, SegD2(q, t[2], t[3])) /\ RLe(m, SegD2(q, t[3], t[1]))
=============================================================================
