CONSTANTS
  G = 4
  MaxV = 3
  NScales = 4
  Dims = {2, 3}
SPECIFICATION Spec
INVARIANT Emit Laws
CHECK_DEADLOCK FALSE
