CONSTANTS
  NPlanes = 5
  NMotions = 2
SPECIFICATION Spec
INVARIANT Emit Laws
CHECK_DEADLOCK FALSE
