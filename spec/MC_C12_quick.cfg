CONSTANTS
  NV = 5
  MaxF = 2
SPECIFICATION Spec
INVARIANT Emit PatchAlgCorrect Bounded LoopAlgCorrect
CHECK_DEADLOCK FALSE
