CONSTANTS
  MaxCoord = 9
  Gap = 2
  MayFail = FALSE
  Guarded = TRUE
SPECIFICATION Spec
INVARIANT Monotone WorkingEndIsLatest NothingLost WithinGap StackBounded
PROPERTY Terminates
CHECK_DEADLOCK FALSE
