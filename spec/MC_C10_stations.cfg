CONSTANTS
  MaxCoord = 9
  Gap = 2
  MayFail = FALSE
SPECIFICATION Spec
INVARIANT Monotone WorkingEndIsLatest NothingLost WithinGap StackBounded
PROPERTY Terminates
CHECK_DEADLOCK FALSE
