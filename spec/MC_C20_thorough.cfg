CONSTANTS
  NPerm = 5
  NPose = 3
  AllDiagonals = TRUE
SPECIFICATION Spec
INVARIANT Emit Laws
CHECK_DEADLOCK FALSE
