CONSTANTS
  MaxDepth = 5
  RootSet = "curated"
  Sim = TRUE
  AllControl = TRUE
SPECIFICATION Spec
INVARIANT Emit Laws
CHECK_DEADLOCK FALSE
