---------------------------- MODULE JudgeBase ----------------------------
(* Shared skeleton of every trace judge: the recorded observations (one    *)
(* JSON object per line, written by the Rust harness after executing the   *)
(* real library) are consumed one per step.  A clause that does not hold   *)
(* prints a REJECT line (a TLC POSTCONDITION has no access to state) and   *)
(* the step still advances so that the rest of the trace is examined.      *)
EXTENDS Integers, Sequences, TLC, Json, IOUtils

Rec == ndJsonDeserialize(IOEnv.TRACE)

Clause(i, name, cond) == IF cond THEN TRUE ELSE PrintT(<<"REJECT", i, name>>)

\* universally quantified clause: also prints the first witness that fails (DETAIL line, for diagnosis / replay)
ClauseAll(i, name, S, P(_)) ==
    IF \A x \in S : P(x) THEN TRUE
    ELSE PrintT(<<"REJECT", i, name>>) /\ PrintT(<<"DETAIL", i, name, CHOOSE x \in S : ~P(x)>>)

\* every harness record carries these three flags
Sane(i, r) == /\ Clause(i, "panic", ~r.out.panic)
              /\ Clause(i, "timeout", ~r.out.timeout)
Ran(r) == ~r.out.panic /\ ~r.out.timeout /\ ~r.out.skipped

AbsV(x) == IF x < 0 THEN -x ELSE x
SgnV(x) == IF x < 0 THEN -1 ELSE IF x > 0 THEN 1 ELSE 0
Near(a, b, t) == AbsV(a - b) <= t
MinV(a, b) == IF a < b THEN a ELSE b
MaxV(a, b) == IF a > b THEN a ELSE b
=============================================================================
