CONSTANTS
  NL = 5
  MaxP = 3
  NBX = 3
  NBY = 2
  NBZ = 2
  MaxSteps = 9
SPECIFICATION Spec
INVARIANT Emit Laws ChainAlgCorrect
CHECK_DEADLOCK FALSE
