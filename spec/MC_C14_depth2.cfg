CONSTANTS
  MaxDepth = 2
  Sim = FALSE
  Level = 0
  MeshNames = {"fold2"}
SPECIFICATION Spec
INVARIANT Emit Laws
CHECK_DEADLOCK FALSE
