CONSTANTS
  MaxPts = 2
  Depth = 3
  Broken = "none"
SPECIFICATION Spec
INVARIANT Emit Atomic ChecksBeforeMutation ParallelArrays NoPanic InDomain
CHECK_DEADLOCK FALSE
