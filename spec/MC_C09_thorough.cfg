CONSTANTS
  Thorough = TRUE
SPECIFICATION Spec
INVARIANT Emit Laws
CHECK_DEADLOCK FALSE
