CONSTANTS
  MaxPts = 2
  Depth = 2
  Broken = "select_skips_colours"
SPECIFICATION Spec
INVARIANT Atomic ChecksBeforeMutation ParallelArrays NoPanic InDomain
CHECK_DEADLOCK FALSE
