CONSTANTS
  MaxCoord = 9
  Gap = 2
  MayFail = TRUE
SPECIFICATION Spec
INVARIANT Monotone WorkingEndIsLatest NothingLost StackBounded
CHECK_DEADLOCK FALSE
