CONSTANTS
  G = 3
  MaxV = 3
  NScales = 2
  Dims = {2, 3}
SPECIFICATION Spec
INVARIANT Emit Laws
CHECK_DEADLOCK FALSE
