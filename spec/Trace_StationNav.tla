-------------------------- MODULE Trace_StationNav --------------------------
(* Judge for the station-navigation extension (an `extra` stage).             *)
EXTENDS StationNav, JudgeBase
VARIABLE i
JNav(r) ==
    LET o == r.out IN
    /\ Clause(i, "X.nav.built", o.built)
    /\ o.built =>
        /\ Clause(i, "X.nav.shape", Len(o.rows) = Len(r.ls))
        /\ Len(o.rows) = Len(r.ls) =>
            LET rows == {k \in 1..Len(o.rows) : o.rows[k].some} IN
            /\ ClauseAll(i, "X.nav.at_index", rows, LAMBDA k : o.rows[k].ati = AtIndex(o.n, o.rows[k].at))
            /\ ClauseAll(i, "X.nav.at_next_index", rows, LAMBDA k : o.rows[k].atn = AtNextIndex(o.n, o.rows[k].at))
            /\ ClauseAll(i, "X.nav.previous", rows, LAMBDA k : o.rows[k].prev = Previous(o.n, o.rows[k].at))
            /\ ClauseAll(i, "X.nav.next", rows, LAMBDA k : o.rows[k].next = NextOf(o.n, o.rows[k].at))
            /\ ClauseAll(i, "X.nav.walk_forward_ends", rows, LAMBDA k : o.rows[k].fwd = Fwd(o.n, o.rows[k].at))
            /\ ClauseAll(i, "X.nav.walk_backward_ends", rows, LAMBDA k : o.rows[k].bwd = Bwd(o.n, o.rows[k].at))
Judge(r) ==
    /\ Sane(i, r)
    /\ Ran(r) => CASE r.op = "nav" -> JNav(r) [] r.op = "reset" -> TRUE [] OTHER -> Clause(i, "unknown-op", FALSE)
Init == i = 1
Next == i <= Len(Rec) /\ Judge(Rec[i]) /\ i' = i + 1
Spec == Init /\ [][Next]_i
Post == TLCGet("stats").diameter - 1 = Len(Rec)
=============================================================================
