------------------------------- MODULE MC_C19 -------------------------------
(* Bounded instance for C19.  TLC                                            *)
(*  - checks that the L2 transcriptions of the six frame constructors and of *)
(*    iso3_from_xyo refine the L1 frame predicate on every lattice pair and  *)
(*    fail exactly on parallel / zero pairs,                                 *)
(*  - checks laws of the specification itself (motions are proper rotations, *)
(*    affine rank and weighted mean commute with them, the exact normal of a *)
(*    triple annihilates its edges),                                         *)
(*  - emits every enumerated case for replay into the real library.          *)
EXTENDS Frames, TLC, Json
CONSTANTS ASet,        \* primary vectors of the frame cases ("small" / "all")
          P1Set,       \* first points of plane triples ("few" / "all")
          Lat3,        \* 3D lattice for point sets ("12" / "18")
          AllW,        \* TRUE: every weight pattern for every set; FALSE: unweighted + one hashed pattern
          Full2D       \* TRUE: all multisets of 3 and 4 planar points; FALSE: 3-multisets + 4-subsets

VARIABLE case
vars == <<case>>

-----------------------------------------------------------------------------
\* lattices as sequences (fixed order: replay files and hashes are stable)
V5 == [j \in 1..125 |-> <<((j - 1) \div 25) - 2, (((j - 1) \div 5) % 5) - 2, ((j - 1) % 5) - 2>>]
V5nz == SelectSeq(V5, LAMBDA v : v # Zero3)
H(a) == (a[1] + 2) + 5 * (a[2] + 2) + 25 * (a[3] + 2)
Scales == <<-10, -3, 0, 4>>
Sc(k) == Scales[(k % 4) + 1]

ASmall == ((-1..1) \X (-1..1) \X (-1..1)) \cup {<<2, 1, 0>>, <<-2, 0, 1>>, <<1, -2, 2>>, <<2, 2, -1>>}
AAll == {V5[j] : j \in 1..125}
As == IF ASet = "small" THEN ASmall ELSE AAll

FrameCases ==
    \* the secondary vectors are split into three chunks: the watchdog child returns its answer through a pipe (< 64 kB)
    {[m |-> "frames", op |-> "frame", a |-> a, bs |-> SubSeq(V5, 42 * (ch - 1) + 1, IF ch = 3 THEN 125 ELSE 42 * ch),
      sa |-> Sc(H(a) + ch), sb |-> Sc((H(a) \div 4) + ch), so |-> Sc(H(a) \div 16),
      o |-> <<a[2] + 1, a[3] - 2, a[1] + 3>>, uo |-> ((H(a) + ch) % 3 # 0), wd |-> 20000] : a \in As, ch \in 1..3} \cup
    {[m |-> "frames", op |-> "xyo", a |-> a, bs |-> V5nz, sa |-> Sc(H(a) + 1), sb |-> Sc((H(a) \div 4) + 2), so |-> Sc((H(a) \div 16) + 1),
      o |-> <<a[3] - 1, a[1] + 2, a[2]>>, wd |-> 20000] : a \in As \ {Zero3}}

-----------------------------------------------------------------------------
\* rigid motions: rows of R, divisor h, translation t
Motions == <<
    [R |-> <<<<1, 0, 0>>, <<0, 1, 0>>, <<0, 0, 1>>>>, h |-> 1, t |-> <<0, 0, 0>>],
    [R |-> <<<<0, -1, 0>>, <<1, 0, 0>>, <<0, 0, 1>>>>, h |-> 1, t |-> <<1, -2, 3>>],
    [R |-> <<<<0, 0, 1>>, <<1, 0, 0>>, <<0, 1, 0>>>>, h |-> 1, t |-> <<-1, 0, 2>>],
    [R |-> <<<<3, -4, 0>>, <<4, 3, 0>>, <<0, 0, 5>>>>, h |-> 5, t |-> <<2, 1, -1>>],
    [R |-> <<<<13, 0, 0>>, <<0, 5, -12>>, <<0, 12, 5>>>>, h |-> 13, t |-> <<0, 3, 1>>],
    [R |-> <<<<15, -12, 16>>, <<20, 9, -12>>, <<0, 20, 15>>>>, h |-> 25, t |-> <<1, 1, 1>>],
    [R |-> <<<<-1, 0, 0>>, <<0, -1, 0>>, <<0, 0, 1>>>>, h |-> 1, t |-> <<0, 0, 0>>],
    [R |-> <<<<0, 1, 0>>, <<1, 0, 0>>, <<0, 0, -1>>>>, h |-> 1, t |-> <<3, 0, -2>>] >>
\* planar motions (rotation about z, translation in the plane) for the 2D decomposition
Motions2 == <<
    [R |-> <<<<1, 0, 0>>, <<0, 1, 0>>, <<0, 0, 1>>>>, h |-> 1, t |-> <<0, 0, 0>>],
    [R |-> <<<<0, -1, 0>>, <<1, 0, 0>>, <<0, 0, 1>>>>, h |-> 1, t |-> <<1, -2, 0>>],
    [R |-> <<<<3, -4, 0>>, <<4, 3, 0>>, <<0, 0, 5>>>>, h |-> 5, t |-> <<2, 1, 0>>],
    [R |-> <<<<-5, -12, 0>>, <<12, -5, 0>>, <<0, 0, 13>>>>, h |-> 13, t |-> <<-1, 3, 0>>],
    [R |-> <<<<-1, 0, 0>>, <<0, -1, 0>>, <<0, 0, 1>>>>, h |-> 1, t |-> <<0, 2, 0>>] >>
Mo(k) == Motions[(k % Len(Motions)) + 1]
Mo2(k) == Motions2[(k % Len(Motions2)) + 1]

-----------------------------------------------------------------------------
\* planes
P27 == [j \in 1..27 |-> <<(j - 1) \div 9, ((j - 1) \div 3) % 3, (j - 1) % 3>>]
P1s == IF P1Set = "few" THEN {1, 14, 22} ELSE 1..27
PlaneQs == <<<<0, 0, 0>>, <<1, 2, 0>>, <<2, 1, 2>>, <<-1, 0, 3>>, <<3, 3, 1>>>>
PlaneDirs == <<<<0, 0, 1>>, <<1, 1, 0>>, <<-1, 2, -2>>>>
PlaneCases ==
    {[m |-> "frames", op |-> "plane", kind |-> "3pt", pts |-> <<P27[i], P27[j], P27[k]>>, deg |-> Collinear(P27[i], P27[j], P27[k]),
      sc |-> Sc(i + j + 2 * k),
      qs |-> PlaneQs, dirs |-> PlaneDirs, R |-> Mo(i + 3 * j + k).R, h |-> Mo(i + 3 * j + k).h, t |-> Mo(i + 3 * j + k).t] :
        i \in P1s, j \in 1..27, k \in 1..27} \cup
    {[m |-> "frames", op |-> "plane", kind |-> kd, p |-> P27[(j % 27) + 1], nv |-> V5nz[j], sc |-> Sc(j),
      qs |-> PlaneQs, dirs |-> PlaneDirs, R |-> Mo(j).R, h |-> Mo(j).h, t |-> Mo(j).t] :
        kd \in {"pn", "sp"}, j \in 1..Len(V5nz)}
\* only ordered pairs j <= k in the quick tier (the orientation of the normal is free anyway)
PlaneCasesSel == IF P1Set = "few" THEN {c \in PlaneCases : c.kind # "3pt" \/ H(c.pts[2]) <= H(c.pts[3])} ELSE PlaneCases

-----------------------------------------------------------------------------
\* point sets for the principal-axis decomposition
L12 == [j \in 1..12 |-> <<<<0, 1, 3>>[((j - 1) \div 4) + 1], <<0, 2>>[(((j - 1) \div 2) % 2) + 1], <<0, 1>>[((j - 1) % 2) + 1]>>]
L18 == [j \in 1..18 |-> <<<<0, 1, 3>>[((j - 1) \div 6) + 1], <<0, 2, 3>>[(((j - 1) \div 2) % 3) + 1], <<0, 1>>[((j - 1) % 2) + 1]>>]
L3 == IF Lat3 = "12" THEN L12 ELSE L18
L9 == [j \in 1..9 |-> <<<<0, 1, 3>>[((j - 1) \div 3) + 1], <<0, 1, 2>>[((j - 1) % 3) + 1], 0>>]

Idx4(n) == {q \in (1..n) \X (1..n) \X (1..n) \X (1..n) : q[1] <= q[2] /\ q[2] <= q[3] /\ q[3] <= q[4]}
Idx3(n) == {q \in (1..n) \X (1..n) \X (1..n) : q[1] <= q[2] /\ q[2] <= q[3]}
Strict(q) == \A k \in 1..(Len(q) - 1) : q[k] < q[k + 1]
HQ(q) == LET RECURSIVE go(_)
             go(k) == IF k = 0 THEN 0 ELSE (7 * go(k - 1) + q[k]) % 1000
         IN go(Len(q))
Pick(L, q) == [k \in 1..Len(q) |-> L[q[k]]]

\* weight patterns for n points: 1 = unweighted, 2 = all ones, 3 = all twos, 4 / 5 = mixed
WPat(p, n) == CASE p = 1 -> <<>>
                [] p = 2 -> [k \in 1..n |-> 1]
                [] p = 3 -> [k \in 1..n |-> 2]
                [] p = 4 -> [k \in 1..n |-> ((k * 2) % 3) + 1]
                [] p = 5 -> [k \in 1..n |-> <<3, 1, 1, 2, 2, 3, 1, 3>>[((k - 1) % 8) + 1]]
Pats(hq) == IF AllW THEN 1..5 ELSE {1, 2 + (hq % 4)}
SvdQs == <<<<1, -1, 2>>, <<0, 3, -2>>>>
SvdQs2 == <<<<1, -1, 0>>, <<0, 3, 0>>>>

Curated3 == {
    <<<<0, 0, 0>>, <<4, 0, 0>>, <<0, 2, 0>>, <<0, 0, 1>>, <<4, 2, 1>>>>,                                   \* generic, 5 points
    <<<<0, 0, 0>>, <<1, 0, 0>>, <<2, 0, 0>>, <<3, 0, 0>>, <<4, 0, 0>>>>,                                   \* collinear on an axis
    <<<<0, 1, 2>>, <<1, 2, 4>>, <<2, 3, 6>>, <<4, 5, 10>>, <<3, 4, 8>>, <<1, 2, 4>>>>,                     \* collinear, skew, repeated point
    <<<<0, 0, 1>>, <<4, 0, 1>>, <<0, 3, 1>>, <<4, 3, 1>>, <<2, 1, 1>>, <<1, 2, 1>>>>,                      \* planar z = 1
    <<<<0, 0, 0>>, <<2, 0, 2>>, <<0, 3, 0>>, <<2, 3, 2>>, <<1, 1, 1>>, <<4, 1, 4>>, <<3, 2, 3>>>>,         \* planar x = z
    <<<<2, 2, 2>>, <<2, 2, 2>>, <<2, 2, 2>>, <<2, 2, 2>>, <<2, 2, 2>>>>,                                   \* coincident
    <<<<0, 0, 0>>, <<4, 0, 0>>, <<4, 4, 0>>, <<0, 4, 0>>, <<0, 0, 4>>, <<4, 0, 4>>, <<4, 4, 4>>, <<0, 4, 4>>>>,   \* cube: triple singular value
    <<<<0, 0, 0>>, <<4, 0, 0>>, <<4, 2, 0>>, <<0, 2, 0>>, <<0, 0, 2>>, <<4, 0, 2>>, <<4, 2, 2>>, <<0, 2, 2>>>>,   \* box: double singular value
    <<<<0, 0, 0>>, <<4, 1, 0>>, <<1, 3, 2>>, <<3, 0, 4>>, <<2, 4, 1>>, <<0, 2, 3>>, <<4, 4, 4>>>>,                \* generic, 7 points
    <<<<1, 0, 0>>, <<0, 1, 0>>, <<0, 0, 1>>, <<1, 1, 1>>>> }                                                \* regular tetrahedron: triple value

SvdRec(dim, pts, pat, hq) ==
    LET mo == IF dim = 3 THEN Mo(hq) ELSE Mo2(hq) IN
    [m |-> "frames", op |-> "svd", dim |-> dim, pts |-> pts, ar |-> AffRank(pts), wt |-> WPat(pat, Len(pts)), sc |-> Sc(hq \div 8),
     R |-> mo.R, h |-> mo.h, t |-> mo.t, qs |-> IF dim = 3 THEN SvdQs ELSE SvdQs2]

SvdCases ==
    {SvdRec(3, Pick(L3, q[1]), q[2], HQ(q[1])) : q \in {x \in Idx4(Len(L3)) \X (1..5) : x[2] \in Pats(HQ(x[1]))}} \cup
    {SvdRec(3, c[1], c[2], Len(c[1]) + c[2] + c[1][2][1]) : c \in Curated3 \X (1..5)} \cup
    {SvdRec(2, Pick(L9, q[1]), q[2], HQ(q[1])) : q \in {x \in Idx3(9) \X (1..5) : x[2] \in Pats(HQ(x[1]))}} \cup
    {SvdRec(2, Pick(L9, q[1]), q[2], HQ(q[1])) : q \in {x \in Idx4(9) \X (1..5) : x[2] \in Pats(HQ(x[1])) /\ (Full2D \/ Strict(x[1]))}}

Cases == FrameCases \cup PlaneCasesSel \cup SvdCases

Init == case \in Cases
Next == UNCHANGED case
Spec == Init /\ [][Next]_vars

Emit == PrintT(<<"CASE", ToJson(case)>>)

-----------------------------------------------------------------------------
\* laws of the specification, evaluated on every enumerated case
Moved(R, h, t, P) == [k \in 1..Len(P) |-> Add(MatVec(R, P[k]), Scale(h, t))]       \* h * (image of P[k])
Ones(n) == [k \in 1..n |-> 1]
Laws ==
    /\ case.op = "frame" => \A j \in 1..Len(case.bs) : \A k \in 1..6 : L2RefinesL1(Ctors[k], case.a, case.bs[j])
    /\ case.op = "xyo" => \A j \in 1..Len(case.bs) : L2XyoRefinesL1(case.a, case.bs[j])
    /\ case.op \in {"plane", "svd"} => IsRotation(case.R, case.h)
    /\ (case.op = "plane" /\ case.kind = "3pt") =>
          LET N == TripleNormal(case.pts[1], case.pts[2], case.pts[3]) IN
          /\ Dot(N, Sub(case.pts[2], case.pts[1])) = 0 /\ Dot(N, Sub(case.pts[3], case.pts[1])) = 0
          /\ Collinear(case.pts[1], case.pts[2], case.pts[3]) <=> AffRank(case.pts) <= 1
    /\ case.op = "svd" =>
          LET P == case.pts
              w == IF case.wt = <<>> THEN Ones(Len(P)) ELSE case.wt
              MP == Moved(case.R, case.h, case.t, P) IN
          /\ AffRank(MP) = AffRank(P)                                            \* rank is invariant under the motion
          /\ WSum(MP, w) = Add(MatVec(case.R, WSum(P, w)), Scale(case.h * SumSeq(w), case.t))   \* the mean is equivariant
          /\ \A i \in 1..Len(P) : Dot(Dev(MP, w, i), Dev(MP, w, i)) = case.h * case.h * Dot(Dev(P, w, i), Dev(P, w, i))
          /\ (case.dim = 2 => /\ \A i \in 1..Len(P) : P[i][3] = 0
                              /\ case.R[3] = <<0, 0, case.h>> /\ case.t[3] = 0)
          /\ \A i \in 1..Len(w) : w[i] > 0
=============================================================================
