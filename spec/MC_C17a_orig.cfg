CONSTANTS
  Starts <- StartsQ
  Gaps <- GapsQ
  MaxLen = 3
  YS <- YSQ
  Variant = "orig"
SPECIFICATION Spec
INVARIANT StepInv Refines FailsOnlyWhereAllowed
PROPERTY Terminates
CHECK_DEADLOCK FALSE
