CONSTANTS
  GP = 3
  NPts = 3
  Dim3 = FALSE
SPECIFICATION Spec
INVARIANT Emit SweepCorrect SweepInv L1Sharp
PROPERTY Terminates
CHECK_DEADLOCK FALSE
