---------------------------- MODULE Trace_Spatial ----------------------------
(* Judge for C15: observations of the k-d tree wrappers, sample_poisson_disk,  *)
(* Mesh::sample_*, convex_hull_2d / farthest_pair_indices /                    *)
(* point_order_direction / Curve2::from_points_ccw and the 2D ball pivot        *)
(* against the L1 operators of module Spatial.                                  *)
EXTENDS Spatial, JudgeBase

VARIABLE i

\* ---------------------------------------------------------------- k-d trees
WellFormedPairs(res) == \A t \in 1..Len(res) : Len(res[t]) = 2 /\ res[t][1] >= 0
KdShape(r, oq) == /\ Len(oq.nk) = Len(r.ks) /\ Len(oq.w) = Len(r.rs) /\ WellFormedPairs(oq.n1)
                  /\ \A a \in 1..Len(oq.nk) : WellFormedPairs(oq.nk[a])
                  /\ \A a \in 1..Len(oq.w) : WellFormedPairs(oq.w[a])
JKd(r) ==
    LET o == r.out n == Len(r.pts) W == Working(n, r.part, r.sub)
        ok == Len(o.q) = Len(r.qs) /\ \A x \in 1..Len(o.q) : KdShape(r, o.q[x])
        D(x) == DistVec(r.pts, r.qs[x]) IN
    /\ PrintT(<<"NOTE", IF r.part THEN "kd.partial_tree_queries" ELSE "kd.full_tree_queries", Len(r.qs) * (1 + Len(r.ks) + Len(r.rs))>>)
    /\ Clause(i, "C15.kd.finite", o.finite)
    /\ Clause(i, "C15.kd.len", o.len = Cardinality(W))
    /\ Clause(i, "C15.kd.shape", ok)
    /\ ok =>
        /\ ClauseAll(i, "C15.kd.nearest_one.brute_force", 1..Len(r.qs), LAMBDA x : NearestOneOK(D(x), W, o.q[x].n1))
        /\ ClauseAll(i, "C15.kd.nearest_k.brute_force", 1..Len(r.qs),
                     LAMBDA x : LET d == D(x) IN \A a \in 1..Len(r.ks) : NearestKOK(d, W, r.ks[a], o.q[x].nk[a]))
        /\ ClauseAll(i, "C15.kd.nearest_k.ascending", 1..Len(r.qs),
                     LAMBDA x : \A a \in 1..Len(r.ks) : Ascending(o.q[x].nk[a]))
        /\ ClauseAll(i, "C15.kd.within.brute_force", 1..Len(r.qs),
                     LAMBDA x : LET d == D(x) IN \A a \in 1..Len(r.rs) : WithinOK(d, W, r.rs[a], o.q[x].w[a]))

\* ---------------------------------------------------------------- Poisson-disk selection
JPoisson(r) ==
    LET o == r.out ok == Len(o.res) = Len(r.rs) /\ \A a \in 1..Len(o.res) : \A t \in 1..Len(o.res[a]) : o.res[a][t] >= 0 /\ o.res[a][t] < Len(r.pts) IN
    /\ PrintT(<<"NOTE", "poisson.selections", Len(r.rs)>>)
    /\ Clause(i, "C15.poisson.shape", ok)
    /\ ok => ClauseAll(i, "C15.poisson.separated_and_covering", 1..Len(r.rs), LAMBDA a : PoissonOK(r.pts, r.order, r.rs[a], o.res[a]))

\* ---------------------------------------------------------------- hulls
Unq(v) == [t \in 1..Len(v) |-> <<v[t][1], v[t][2], 0>>]
JHull(r) ==
    LET o == r.out P == r.pts IN
    /\ PrintT(<<"NOTE", IF r.simple THEN "hull.simple_polygons" ELSE "hull.point_sets", 1>>)
    /\ Clause(i, "C15.hull.finite", o.finite)
    /\ Clause(i, "C15.hull.ccw_around_all_points", HullOK(P, o.hull))
    /\ Clause(i, "C15.hull.farthest_pair_is_diameter", o.far.some /\ FarthestOK(P, o.far.pi, o.far.pj))
    /\ r.simple =>
        /\ Clause(i, "C15.hull.order_direction_matches_signed_area", o.dir = OrderDir(P))
        /\ Clause(i, "C15.hull.from_points_ccw", /\ o.ccw.ok /\ Len(o.ccw.v) >= 3
               /\ LET v == o.ccw.v
                      w == IF v[1] = v[Len(v)] THEN SubSeq(v, 1, Len(v) - 1) ELSE v
                      Q == [t \in 1..Len(P) |-> <<QC * P[t][1], QC * P[t][2]>>]
                      QR == [t \in 1..Len(P) |-> Q[Len(P) + 1 - t]] IN
                  /\ (w = Q \/ w = QR)
                  /\ Area2(Unq([t \in 1..Len(w) |-> <<w[t][1] \div QC, w[t][2] \div QC>>])) > 0)

\* ---------------------------------------------------------------- ball pivot
Wf2(v) == \A t \in 1..Len(v) : Len(v[t]) = 2
JPivot(r) ==
    LET o == r.out P == r.pts R == (QC \div 2) * r.rh tol == 3 * R + 4 IN
    /\ PrintT(<<"NOTE", IF o.ok THEN "pivot.ball_steps_judged" ELSE "pivot.returned_err", IF o.ok THEN Len(o.ctr) ELSE 1>>)
    /\ Clause(i, "C15.pivot.finite", o.finite)
    /\ o.ok =>
        /\ Clause(i, "C15.pivot.shape", PivotShapeOK(P, o.idx, o.ctr) /\ Wf2(o.ctr))
        /\ (PivotShapeOK(P, o.idx, o.ctr) /\ Wf2(o.ctr)) =>
            /\ ClauseAll(i, "C15.pivot.ball_touches_both_and_is_empty", 1..Len(o.ctr),
                         LAMBDA t : /\ P[o.idx[t] + 1] # P[o.idx[t + 1] + 1]
                                    /\ BallOK(P, o.ctr[t], P[o.idx[t] + 1], P[o.idx[t + 1] + 1], r.rh))
            /\ (r.start.kind # "convex") => Clause(i, "C15.pivot.starts_on_index", o.idx[1] = r.start.i)
            /\ (r.gh > 0) =>
                /\ Clause(i, "C15.pivot.fill.same_outcome", o.fok /\ Wf2(o.fill) /\ Len(o.fill) >= 1)
                /\ (o.fok /\ Wf2(o.fill) /\ Len(o.fill) >= 1) =>
                    /\ Clause(i, "C15.pivot.fill.ends", o.fill[1] = QPt(P[o.idx[1] + 1]) /\ o.fill[Len(o.fill)] = QPt(P[o.idx[Len(o.idx)] + 1]))
                    /\ ClauseAll(i, "C15.pivot.fill.on_ball", 1..Len(o.fill),
                                 LAMBDA t : \/ \E j \in 1..Len(P) : o.fill[t] = QPt(P[j])
                                            \/ \E c \in 1..Len(o.ctr) : SAbs(PD2(o.fill[t], o.ctr[c]) - R * R) <= 2 * tol)
                    /\ ClauseAll(i, "C15.pivot.fill.spacing", 1..(Len(o.fill) - 1),
                                 LAMBDA t : LET G == (QC \div 2) * r.gh IN PD2(o.fill[t], o.fill[t + 1]) <= G * G + 4 * G + 4)
    \* all points can reach each other and the start is on the hull: the ball must get somewhere
    /\ (r.start.kind = "convex" /\ r.end.kind = "repeat" /\ NonCollinear(P) /\ r.rh * r.rh > MaxPairD2(P)) =>
          Clause(i, "C15.pivot.progress", o.ok /\ Len(o.idx) >= 2)

\* ---------------------------------------------------------------- mesh sampling
FaceVerts(fs) == UNION {{<<k, fs[k][1] + 1>>, <<k, fs[k][2] + 1>>, <<k, fs[k][3] + 1>>} : k \in 1..Len(fs)}
JSample(r) ==
    LET o == r.out ns == Len(o.p) fs == r.faces vp == r.vpos
        ok == Len(o.n) = ns /\ \A t \in 1..ns : Len(o.p[t]) = 3 /\ Len(o.n[t]) = 3
        fo == [t \in 1..ns |-> FacesOf(vp, fs, o.p[t], o.n[t])] IN
    /\ PrintT(<<"NOTE", "mesh.samples_judged", ns>>)
    /\ Clause(i, "C15.mesh.finite", o.finite)
    /\ Clause(i, "C15.mesh.shape", ok)
    /\ ok =>
        /\ ClauseAll(i, "C15.mesh.on_surface_with_face_normal", 1..ns, LAMBDA t : fo[t] # {})
        /\ (r.kind = "uniform") =>
            /\ Clause(i, "C15.mesh.uniform.count", ns = r.n)
            /\ LET wt == SumW(vp, fs, 1, 0) IN
               ClauseAll(i, "C15.mesh.uniform.area_proportional", 1..Len(fs),
                         LAMBDA k : CountPlausible(ns, FaceWeight(vp, fs[k]), wt,
                                                   Cardinality({t \in 1..ns : fo[t] = {k}}), Cardinality({t \in 1..ns : k \in fo[t]})))
        /\ (r.kind = "dense") =>
            ClauseAll(i, "C15.mesh.dense.covers_every_face", FaceVerts(fs),
                      LAMBDA kv : \E t \in 1..ns : kv[1] \in fo[t] /\ NearVertex(o.p[t], vp[kv[2]], 2 * r.h))
        /\ (r.kind = "poisson") =>
            /\ ClauseAll(i, "C15.mesh.poisson.separation", 1..ns,
                         LAMBDA a : \A b \in (a + 1)..ns : Separated(o.p[a], o.p[b], r.h))
            /\ ClauseAll(i, "C15.mesh.poisson.coverage", FaceVerts(fs),
                         LAMBDA kv : \E t \in 1..ns : NearVertex(o.p[t], vp[kv[2]], 2 * r.h))

Judge(r) ==
    /\ Sane(i, r)
    /\ Ran(r) =>
        CASE r.op = "kd"      -> JKd(r)
          [] r.op = "poisson" -> JPoisson(r)
          [] r.op = "hull"    -> JHull(r)
          [] r.op = "pivot"   -> JPivot(r)
          [] r.op = "msample" -> JSample(r)
          [] r.op = "reset"   -> TRUE
          [] OTHER            -> Clause(i, "unknown-op", FALSE)

Init == i = 1
Next == i <= Len(Rec) /\ Judge(Rec[i]) /\ i' = i + 1
Spec == Init /\ [][Next]_i
Post == TLCGet("stats").diameter - 1 = Len(Rec)
=============================================================================
