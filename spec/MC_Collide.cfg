CONSTANTS
  MaxMesh = 3
  MaxExc = 2
SPECIFICATION Spec
INVARIANT Laws ExcMonotone
CHECK_DEADLOCK FALSE
