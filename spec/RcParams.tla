------------------------------ MODULE RcParams ------------------------------
(* C08: rotation-centred alignment parameters, parameter <-> isometry round    *)
(* trips, Euler-angle derivative matrices and Jacobian rows, on the exact       *)
(* rational pose family.                                                         *)
(*                                                                               *)
(* Exact domain.  An angle is a Pythagorean triple <<c, s, h>> (cos = c/h,       *)
(* sin = s/h; quarter turns have h = 1).  A rotation is an integer matrix M     *)
(* over a common denominator H (module Rigid).  2D objects are the z = 0, about- *)
(* z special case of the same operators, so one set of definitions serves both  *)
(* RcParams2 and RcParams3.  Points are integer 3-vectors, rational points are   *)
(* [n |-> numerators, d |-> denominator > 0], rational scalars <<n, d>>.        *)
(*                                                                               *)
(* L1 (what the property demands) is the closed form                            *)
(*     transform(P) = crc + R (P - rc)          crc = moved rotation centre     *)
(* with  crc = initial(rc), R = initial rotation      after from_initial,       *)
(*       crc' = crc + dt, R' = R or R(e)              after set(x + (dt, .)),   *)
(* and the true partial derivatives of R = Rx Ry Rz.  L2 transcribes what the   *)
(* code does (conjugation by translations to the centre, shift0 / shift1,       *)
(* P_X R, R Rz^T P_Y Rz, R P_Z, the two gimbal branches of the Euler extraction) *)
(* and module MC_C08 / MC_C08b check that L2 meets L1.  Only L1 judges the code. *)
EXTENDS Rigid

\* ------------------------------------------------------------------ rationals
RECURSIVE KGcd(_, _)
KGcd(a, b) == IF b = 0 THEN a ELSE KGcd(b, a % b)          \* a, b >= 0
KGcdA(a, b) == KGcd(AbsC(a), AbsC(b))
\* rational point in lowest terms
KPt(n, d) == LET g == KGcdA(KGcdA(KGcdA(d, n[1]), n[2]), n[3]) IN [n |-> <<n[1] \div g, n[2] \div g, n[3] \div g>>, d |-> d \div g]
KInt(p) == KPt(p, 1)
KPtEq(a, b) == VScale(b.d, a.n) = VScale(a.d, b.n)
KPtAddInt(a, v) == KPt(VAdd(a.n, VScale(a.d, v)), a.d)
KZero == <<0, 0, 0>>

\* ------------------------------------------------------------------ angles and rotations
KQuarter == { <<1, 0, 1>>, <<0, 1, 1>>, <<-1, 0, 1>>, <<0, -1, 1>> }
KPyth5 == { <<3, 4, 5>>, <<4, 3, 5>>, <<-3, 4, 5>>, <<-4, 3, 5>>, <<3, -4, 5>>, <<4, -3, 5>>, <<-3, -4, 5>>, <<-4, -3, 5>> }
KIsAngle(a) == a[3] > 0 /\ a[1] * a[1] + a[2] * a[2] = a[3] * a[3]
KRx(a) == Rx(a[1], a[2], a[3])
KRy(a) == Ry(a[1], a[2], a[3])
KRz(a) == RzH(a[1], a[2], a[3])
\* d/dtheta of the three axis rotations (over the same denominator h)
KDRx(a) == << <<0, 0, 0>>, <<0, -a[2], -a[1]>>, <<0, a[1], -a[2]>> >>
KDRy(a) == << <<-a[2], 0, a[1]>>, <<0, 0, 0>>, <<-a[1], 0, -a[2]>> >>
KDRz(a) == << <<-a[2], -a[1], 0>>, <<a[1], -a[2], 0>>, <<0, 0, 0>> >>
\* generators (skew matrices of the unit axes)
KPX == << <<0, 0, 0>>, <<0, 0, -1>>, <<0, 1, 0>> >>
KPY == << <<0, 0, 1>>, <<0, 0, 0>>, <<-1, 0, 0>> >>
KPZ == << <<0, -1, 0>>, <<1, 0, 0>>, <<0, 0, 0>> >>
MScale(k, M) == LET m == M IN <<VScale(k, m[1]), VScale(k, m[2]), VScale(k, m[3])>>
\* matrix product / transpose / application with each argument evaluated once (TLC re-evaluates an unnamed
\* argument expression at every use, which makes nested products of Rigid!MMul exponentially slow)
KMul(A, B) == LET a == A b == B
                  c1 == <<b[1][1], b[2][1], b[3][1]>> c2 == <<b[1][2], b[2][2], b[3][2]>> c3 == <<b[1][3], b[2][3], b[3][3]>> IN
    << <<VDot(a[1], c1), VDot(a[1], c2), VDot(a[1], c3)>>,
       <<VDot(a[2], c1), VDot(a[2], c2), VDot(a[2], c3)>>,
       <<VDot(a[3], c1), VDot(a[3], c2), VDot(a[3], c3)>> >>
KTr(M) == LET m == M IN << <<m[1][1], m[2][1], m[3][1]>>, <<m[1][2], m[2][2], m[3][2]>>, <<m[1][3], m[2][3], m[3][3]>> >>
KApp(M, w) == LET m == M v == w IN <<VDot(m[1], v), VDot(m[2], v), VDot(m[3], v)>>
\* equality of the rational matrices A/ha and B/hb
MRatEq(A, ha, B, hb) == MScale(hb, A) = MScale(ha, B)

\* Euler triple e = <<ax, ay, az>>; the composition order of RotationMatrices::from_euler is Rx Ry Rz
EulerH(e) == e[1][3] * e[2][3] * e[3][3]
EulerM(e) == KMul(KMul(KRx(e[1]), KRy(e[2])), KRz(e[3]))
\* the other order (nalgebra's from_euler_angles(roll, pitch, yaw) = Rz Ry Rx), used for the parameter vector of iso3_from_param
ZyxM(e) == KMul(KMul(KRz(e[3]), KRy(e[2])), KRx(e[1]))
\* L1: the true partial derivatives of R(rx, ry, rz) = Rx Ry Rz (all over EulerH(e)) ...
EulerD(e, k) == IF k = 1 THEN KMul(KMul(KDRx(e[1]), KRy(e[2])), KRz(e[3]))
                ELSE IF k = 2 THEN KMul(KMul(KRx(e[1]), KDRy(e[2])), KRz(e[3]))
                ELSE KMul(KMul(KRx(e[1]), KRy(e[2])), KDRz(e[3]))
\* ... and the generator of the motion of an already rotated point: dR/dr_k R^-1, over EulerH(e)^2
EulerRD(e, k) == KMul(EulerD(e, k), KTr(EulerM(e)))
\* L2: the derivative matrices as the code composes them
CodedD(e, k) == LET R == EulerM(e) H == EulerH(e) IN
    IF k = 1 THEN [M |-> KMul(KPX, R), H |-> H]
    ELSE IF k = 2 THEN [M |-> KMul(KMul(KMul(R, KTr(KRz(e[3]))), KPY), KRz(e[3])), H |-> H * e[3][3] * e[3][3]]
    ELSE [M |-> KMul(R, KPZ), H |-> H]
\* generators that do not depend on the Euler representative of R = M/H:  rd.x = P_X,  rd.z = R P_Z R^T (over H^2)
GenX == KPX
GenZ(M) == KMul(KMul(M, KPZ), KTr(M))
IsSkew(G) == KTr(G) = MScale(-1, G)

\* L2: Euler extraction of rotations.rs `to_wpr` followed by from_euler, on an exact rotation M/H whose pitch
\* cosine is rational.  Result: the re-composed rotation [M, H]; "none" when the cosine is irrational.
ISqrtK(n) == CHOOSE k \in 0..n : k * k <= n /\ (k + 1) * (k + 1) > n
WprRoundTrip(M, H) ==
    IF M[1][3] = H THEN             \* sin_y = 1: ry = 90, rx = atan2(m10, m11), rz = 0
        [ok |-> TRUE, M |-> KMul(KRx(<<M[2][2], M[2][1], H>>), KRy(<<0, 1, 1>>)), H |-> H]
    ELSE IF M[1][3] = -H THEN       \* sin_y = -1: ry = -90, rx = -atan2(m10, m11), rz = 0
        [ok |-> TRUE, M |-> KMul(KRx(<<M[2][2], -M[2][1], H>>), KRy(<<0, -1, 1>>)), H |-> H]
    ELSE LET c2 == M[1][1] * M[1][1] + M[1][2] * M[1][2]     \* (H cos ry)^2, cos ry > 0 on the asin branch
             cy == ISqrtK(c2) IN
         IF cy * cy # c2 THEN [ok |-> FALSE, M |-> Ident, H |-> 1]
         ELSE [ok |-> TRUE,
               M |-> KMul(KMul(KRx(<<M[3][3], -M[2][3], cy>>), KRy(<<cy, M[1][3], H>>)), KRz(<<M[1][1], -M[1][2], cy>>)),
               H |-> cy * H * cy]

\* ------------------------------------------------------------------ exact affine maps  A(P) = (A.M P)/A.H + A.t/A.D
Aff(M, H, t, D) == LET p == KPt(t, D) IN [M |-> M, H |-> H, t |-> p.n, D |-> p.d]
ATrans(v) == Aff(Ident, 1, v, 1)
ATransK(p) == Aff(Ident, 1, p.n, p.d)            \* translation by a rational point
ARot(M, H) == Aff(M, H, KZero, 1)
AId == ATrans(KZero)
ACompose(A, B) == Aff(KMul(A.M, B.M), A.H * B.H,
                      VAdd(VScale(A.D, KApp(A.M, B.t)), VScale(A.H * B.D, A.t)), A.H * B.D * A.D)
AInverse(A) == Aff(KTr(A.M), A.H, VScale(-1, KApp(KTr(A.M), A.t)), A.H * A.D)
AApply(A, P) == KPt(VAdd(VScale(A.D, KApp(A.M, P)), VScale(A.H, A.t)), A.H * A.D)
AApplyK(A, p) == KPt(VAdd(VScale(A.D, KApp(A.M, p.n)), VScale(A.H * p.d, A.t)), A.H * A.D * p.d)
Basis4 == { <<0,0,0>>, <<1,0,0>>, <<0,1,0>>, <<0,0,1>> }
AEq(A, B) == \A P \in Basis4 : KPtEq(AApply(A, P), AApply(B, P))

\* ------------------------------------------------------------------ L1: the rotation-centred object
\* state: rc (integer point), crc (rational point: the moved centre), M/H (current rotation),
\*        e (Euler triple behind M/H when it is known, <<>> after from_initial: the representative is free)
L1Init(T0, rc) == [rc |-> rc, crc |-> AApply(T0, rc), M |-> T0.M, H |-> T0.H, e |-> <<>>]
L1Set(st, dt, rot, M, H, e) == [rc |-> st.rc, crc |-> KPtAddInt(st.crc, dt),
                                M |-> IF rot THEN M ELSE st.M, H |-> IF rot THEN H ELSE st.H, e |-> IF rot THEN e ELSE st.e]
L1Img(st, P) == KPt(VAdd(VScale(st.H, st.crc.n), VScale(st.crc.d, KApp(st.M, VSub(P, st.rc)))), st.H * st.crc.d)
L1Pre(st, Q) == KPt(VAdd(VScale(st.H * st.crc.d, st.rc), KApp(KTr(st.M), VSub(VScale(st.crc.d, Q), st.crc.n))), st.H * st.crc.d)
L1Aff(st) == Aff(st.M, st.H, VSub(VScale(st.H, st.crc.n), VScale(st.crc.d, KApp(st.M, st.rc))), st.H * st.crc.d)

\* ------------------------------------------------------------------ L2: the fields as the code computes them
\* 2D (rc_params2.rs): parameters x = (translation t/D, rotation M/H)
Iso2FromParam(x) == ACompose(Aff(Ident, 1, x.t, x.D), ARot(x.M, x.H))
ParamFromIso(T) == [t |-> T.t, D |-> T.D, M |-> T.M, H |-> T.H]
AsIsoAboutCenter(rc, T) == ACompose(ATrans(VScale(-1, rc)), ACompose(T, ATrans(rc)))     \* back * t * fwd
AsIsoAboutOrigin(rc, T) == ACompose(ATrans(rc), ACompose(T, ATrans(VScale(-1, rc))))     \* fwd * t * back
Compute2(rc, x) == LET tr == AsIsoAboutOrigin(rc, Iso2FromParam(x)) IN
    [rc |-> rc, x |-> x, rotation |-> ARot(x.M, x.H), transform |-> tr, inverse |-> AInverse(tr), crc |-> AApply(tr, rc)]
FromInitial2(T0, rc) == Compute2(rc, ParamFromIso(AsIsoAboutCenter(rc, T0)))
\* 3D (align3.rs): x = (t, Euler angles as the rotation M/H), shift0 = -rc, shift1 = +initial(rc)
Compute3(rc, s0, s1, x) == LET tr == ACompose(s1, ACompose(ACompose(Aff(Ident, 1, x.t, x.D), ARot(x.M, x.H)), s0)) IN
    [rc |-> rc, shift0 |-> s0, shift1 |-> s1, x |-> x, rotation |-> ARot(x.M, x.H), transform |-> tr, inverse |-> AInverse(tr), crc |-> AApply(tr, rc)]
FromInitial3(T0, rc) == Compute3(rc, ATrans(VScale(-1, rc)), ATransK(AApply(T0, rc)), [t |-> KZero, D |-> 1, M |-> T0.M, H |-> T0.H])
L2Set(dim, f, dt, rot, M, H) ==
    LET x == [t |-> VAdd(f.x.t, VScale(f.x.D, dt)), D |-> f.x.D, M |-> IF rot THEN M ELSE f.x.M, H |-> IF rot THEN H ELSE f.x.H] IN
    IF dim = 2 THEN Compute2(f.rc, x) ELSE Compute3(f.rc, f.shift0, f.shift1, x)
\* the laws every state of the object must satisfy (L2 meets L1)
FieldsMeetL1(f, st, probes) ==
    /\ AEq(f.transform, L1Aff(st))
    /\ AEq(ACompose(f.inverse, f.transform), AId) /\ AEq(ACompose(f.transform, f.inverse), AId)
    /\ KPtEq(f.crc, st.crc) /\ KPtEq(f.crc, AApply(f.transform, f.rc))
    /\ f.rotation.M = st.M /\ f.rotation.H = st.H
    /\ \A P \in probes : KPtEq(AApply(f.transform, P), L1Img(st, P)) /\ KPtEq(AApplyK(f.inverse, L1Img(st, P)), KInt(P))
                          /\ KPtEq(AApply(f.inverse, P), L1Pre(st, P))

\* ------------------------------------------------------------------ L1: Jacobian rows (rational scalars <<n, d>>)
\* (q - crc) * crc.d
KOff(st, q) == VSub(VScale(st.crc.d, q), st.crc.n)
\* n . (G (q - crc)) / (nh * gd)   with generator G over denominator gd
KRotEntry(st, G, gd, nv, nh, sg, q) == <<sg * VDot(nv, KApp(G, KOff(st, q))), nh * gd * st.crc.d>>
KTransEntry(nv, nh, sg, k) == <<sg * nv[k], nh>>
\* 2D point-to-surface:  r(x) = n . (T(x) p0 - c),  p = T(x) p0:   [n.x, n.y, n . Pz (p - crc)]
Jac2Row(st, p, nv, nh) == <<KTransEntry(nv, nh, 1, 1), KTransEntry(nv, nh, 1, 2), KRotEntry(st, KPZ, 1, nv, nh, 1, p)>>
\* 3D rows; kind "pp": r = |n.(T p0 - c)|, "rev": the plane (c, n) moves instead, p - c parallel to n, "pt": r = |T p0 - c|
\* sg = sign of n.(p - c) (pp), its negative (rev), 1 (pt, with n the unit vector from c to p); moving point q = p (pp, pt) or c (rev)
JacSign(kind, p, c, nv) == LET s == VDot(nv, VSub(p, c)) IN
    IF kind = "pt" THEN 1 ELSE IF kind = "pp" THEN (IF s > 0 THEN 1 ELSE -1) ELSE (IF s > 0 THEN -1 ELSE 1)
JacMoving(kind, p, c) == IF kind = "rev" THEN c ELSE p
\* the input of a row is well posed: off the plane (pp), on the normal line and off the plane (rev), distinct with n the unit direction (pt)
JacPosed(kind, p, c, nv) == LET w == VSub(p, c) IN
    /\ VDot(nv, w) # 0
    /\ kind \in {"rev", "pt"} => VCross(nv, w) = KZero
    /\ kind = "pt" => VDot(nv, w) > 0
=============================================================================
