CONSTANTS
  ParamIds = {0, 1, 2}
  Refresh = TRUE
SPECIFICATION Spec
INVARIANT Honest CacheCoherent
CONSTRAINT Bound
CHECK_DEADLOCK FALSE
