------------------------------- MODULE MC_C12 -------------------------------
(* Bounded instance for C12.  Enumerates every ordered list of up to MaxF     *)
(* oriented faces over NV vertices with no edge in more than two faces        *)
(* (vertex-only contacts, flipped faces, several components, closed           *)
(* tetrahedra included), checks that the deterministic boundary walk          *)
(* satisfies L1 (LoopsOK) and runs the patch flood fill as an L2 state        *)
(* machine with the seed face chosen by \E (every hash order): termination    *)
(* state must satisfy PatchesOK whatever the choices.  Emits each face list   *)
(* once as a case for the real library.                                       *)
EXTENDS MeshTopo, TLC, Json
CONSTANTS NV, MaxF

VARIABLES faces, remaining, queue, patch, patches, pc
vars == <<faces, remaining, queue, patch, patches, pc>>

Vs == 0..(NV - 1)
\* oriented faces up to rotation: smallest vertex first
OFaces == {f \in Vs \X Vs \X Vs : f[1] < f[2] /\ f[1] < f[3] /\ f[2] # f[3]}
VSet(f) == {f[1], f[2], f[3]}
VPos == << <<0,0,0>>, <<2,0,0>>, <<0,3,0>>, <<0,0,1>>, <<2,3,1>>, <<1,1,4>> >>

Init == /\ faces = <<>> /\ remaining = {} /\ queue = <<>> /\ patch = <<>> /\ patches = <<>> /\ pc = "build"

AddFace == /\ pc = "build" /\ Len(faces) < MaxF
           /\ \E f \in OFaces : /\ \A k \in 1..Len(faces) : VSet(faces[k]) # VSet(f)
                                /\ Manifold(Append(faces, f))
                                /\ faces' = Append(faces, f)
           /\ UNCHANGED <<remaining, queue, patch, patches, pc>>
Start == /\ pc = "build" /\ Len(faces) >= 1 /\ pc' = "seed" /\ remaining' = 1..Len(faces)
         /\ UNCHANGED <<faces, queue, patch, patches>>

\* --- L2: compute_patch_indices (undirected edge table; seed = any remaining face)
FaceKeys(k) == << UE(faces[k][1], faces[k][2]), UE(faces[k][2], faces[k][3]), UE(faces[k][3], faces[k][1]) >>
Seed == /\ pc = "seed" /\ remaining # {}
        /\ \E f \in remaining : /\ remaining' = remaining \ {f} /\ patch' = <<f>> /\ queue' = FaceKeys(f)
        /\ pc' = "flood" /\ UNCHANGED <<faces, patches>>
\* faces listed for an edge, in face order; those still remaining are taken one after the other
RECURSIVE Take(_, _, _, _)
Take(cands, rem, p, q) ==
    IF cands = <<>> THEN <<rem, p, q>>
    ELSE LET f == Head(cands) IN
         IF f \in rem THEN Take(Tail(cands), rem \ {f}, Append(p, f), q \o FaceKeys(f))
         ELSE Take(Tail(cands), rem, p, q)
FacesOf(e) == SelectSeq([k \in 1..Len(faces) |-> k], LAMBDA k : e \in FaceUE(faces[k]))
Flood == /\ pc = "flood" /\ queue # <<>>
         /\ LET e == queue[Len(queue)]
                r == Take(FacesOf(e), remaining, patch, SubSeq(queue, 1, Len(queue) - 1)) IN
            /\ remaining' = r[1] /\ patch' = r[2] /\ queue' = r[3]
         /\ UNCHANGED <<faces, patches, pc>>
Close == /\ pc = "flood" /\ queue = <<>>
         /\ patches' = Append(patches, patch) /\ patch' = <<>>
         /\ pc' = IF remaining = {} THEN "done" ELSE "seed"
         /\ UNCHANGED <<faces, remaining, queue>>

Next == AddFace \/ Start \/ Seed \/ Flood \/ Close
Spec == Init /\ [][Next]_vars /\ WF_vars(Seed \/ Flood \/ Close)

\* the patch flood fill, whatever seeds the hash order yields, ends in the L1 answer
PatchAlgCorrect == pc = "done" => PatchesOK(faces, patches)
\* the work queue never exceeds three entries per face taken: termination bound
Bounded == Len(queue) <= 3 * Len(faces) /\ Len(patch) <= Len(faces)
\* the boundary walk satisfies L1 for every face list
LoopAlgCorrect == pc = "seed" /\ patches = <<>> /\ remaining = 1..Len(faces) => LoopsOK(faces, BoundaryLoopsAlg(faces))
Terminates == <>(pc \in {"build", "done"})

Case == [m |-> "topo", op |-> "mesh", wd |-> 3000, reps |-> 6, nv |-> NV,
         vpos |-> SubSeq(VPos, 1, NV), faces |-> faces]
Emit == (pc = "seed" /\ patches = <<>> /\ remaining = 1..Len(faces)) => PrintT(<<"CASE", ToJson(Case)>>)
=============================================================================
