CONSTANTS
  Starts <- StartsQ
  Gaps <- GapsQ
  MaxLen = 3
  YS <- YSQ
  Variant = "fixed"
SPECIFICATION Spec
INVARIANT StepInv Refines FailsOnlyWhereAllowed
PROPERTY Terminates
CHECK_DEADLOCK FALSE
