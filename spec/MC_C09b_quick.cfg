CONSTANTS
  SkipOffset = 0
  XHi = 2
  NMax = 3
SPECIFICATION Spec
INVARIANT Refines InBounds PartialSums
CHECK_DEADLOCK FALSE
