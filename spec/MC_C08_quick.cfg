CONSTANTS
  MaxSets = 2
  NA2 = 5
  NRc2 = 3
  NSet2 = 7
  NR3 = 5
  NRc3 = 2
  NSet3 = 7
  Dims = {2, 3}
SPECIFICATION Spec
INVARIANT Emit Laws JacobianLaw Jacobian2Law
CHECK_DEADLOCK FALSE
