CONSTANTS
  MaxCoord = 5
  Gap = 2
  MayFail = TRUE
  Guarded = TRUE
SPECIFICATION Spec
INVARIANT Monotone WorkingEndIsLatest NothingLost StackBounded
PROPERTY Terminates
CHECK_DEADLOCK FALSE
