------------------------------ MODULE Closest ------------------------------
(* C02: closest-point queries on polylines and triangle meshes, exact.        *)
(* All coordinates are integers (the harness doubles lattice coordinates so   *)
(* that half-lattice query points are integral).  Distances are compared as   *)
(* exact rationals without cross-multiplication (continued-fraction compare), *)
(* so only single numerators/denominators have to fit in 31 bits.             *)
EXTENDS Curve

\* ---- exact comparison of non-negative rationals a/b and c/d (b, d > 0): -1, 0, 1
RECURSIVE RCmp(_, _, _, _)
RCmp(a, b, c, d) ==
    LET qa == a \div b qc == c \div d ra == a % b rc == c % d IN
    IF qa < qc THEN -1 ELSE IF qa > qc THEN 1
    ELSE IF ra = 0 /\ rc = 0 THEN 0
    ELSE IF ra = 0 THEN -1
    ELSE IF rc = 0 THEN 1
    ELSE RCmp(d, rc, b, ra)          \* ra/b ? rc/d  <=>  d/rc ? b/ra
RLe(x, y) == RCmp(x[1], x[2], y[1], y[2]) <= 0
RLt(x, y) == RCmp(x[1], x[2], y[1], y[2]) < 0
REq(x, y) == RCmp(x[1], x[2], y[1], y[2]) = 0
RMin(x, y) == IF RLe(x, y) THEN x ELSE y

\* ---- polylines: v = sequence of integer points, q integer point
RECURSIVE MinSegD2(_, _, _, _)
MinSegD2(q, v, k, cur) == IF k >= Len(v) THEN cur ELSE MinSegD2(q, v, k + 1, RMin(SegD2(q, v[k], v[k + 1]), cur))
CurveMinD2(q, v) == MinSegD2(q, v, 2, SegD2(q, v[1], v[2]))
\* parameter of the closest point on segment a-b as rational in [0,1]
SegT(q, a, b) == LET e == VSub(b, a) dd == VDot(e, e) dt == VDot(VSub(q, a), e) IN
    IF dt <= 0 THEN <<0, 1>> ELSE IF dt >= dd THEN <<1, 1>> ELSE <<dt, dd>>

QPc == 2048      \* points (per doubled-lattice unit)
QFc == 4096      \* fractions / barycentric coordinates
\* observation o: idx (0-based edge), fq, p (QPc), dq2 = round(64 * squared distance), dres = |reported dist - |q-p|| * 2^20
CurveClosestOK(q, v, o) ==
    LET k == o.idx + 1 IN
    /\ k >= 1 /\ k <= Len(v) - 1
    /\ REq(SegD2(q, v[k], v[k + 1]), CurveMinD2(q, v))                 \* the named edge attains the global minimum
    /\ LET t == SegT(q, v[k], v[k + 1]) e == Edge(v, k) IN
       /\ AbsC(o.fq * t[2] - QFc * t[1]) <= 3 * t[2]                    \* fraction is the foot point's parameter
       /\ \A a \in 1..3 : AbsC(o.p[a] * QFc - QPc * (v[k][a] * QFc + o.fq * e[a])) <= 3 * QFc + QPc * AbsC(e[a])   \* index+fraction reproduce the point
    /\ LET m == CurveMinD2(q, v) IN AbsC(o.dq2 * m[2] - 64 * m[1]) <= 2 * m[2] + (64 * m[1]) \div 1000   \* reported distance is the minimum
    /\ AbsC(o.dres) <= 64                                                  \* distance = |query - reported point|

\* ---- triangles: exact squared distance from q to triangle (a, b, c)
TriNormal(a, b, c) == VCross(VSub(b, a), VSub(c, a))
InsidePrism(q, a, b, c) ==
    LET n == TriNormal(a, b, c) IN
    /\ VDot(VCross(VSub(b, a), VSub(q, a)), n) >= 0
    /\ VDot(VCross(VSub(c, b), VSub(q, b)), n) >= 0
    /\ VDot(VCross(VSub(a, c), VSub(q, c)), n) >= 0
TriD2(q, a, b, c) ==
    LET n == TriNormal(a, b, c) IN
    IF n # VZero /\ InsidePrism(q, a, b, c)
    THEN LET h == VDot(n, VSub(q, a)) IN <<h * h, VDot(n, n)>>
    ELSE RMin(SegD2(q, a, b), RMin(SegD2(q, b, c), SegD2(q, c, a)))
FaceTri(vp, f) == <<vp[f[1] + 1], vp[f[2] + 1], vp[f[3] + 1]>>
RECURSIVE MinTriD2(_, _, _, _, _)
MinTriD2(q, vp, fs, k, cur) ==
    IF k > Len(fs) THEN cur
    ELSE LET t == FaceTri(vp, fs[k]) IN MinTriD2(q, vp, fs, k + 1, RMin(TriD2(q, t[1], t[2], t[3]), cur))
MeshMinD2(q, vp, fs) == LET t == FaceTri(vp, fs[1]) IN MinTriD2(q, vp, fs, 2, TriD2(q, t[1], t[2], t[3]))

D2Matches(dq2, m) == AbsC(dq2 * m[2] - 64 * m[1]) <= 2 * m[2] + (64 * m[1]) \div 1000
ArgMinFaces(q, vp, fs) == LET m == MeshMinD2(q, vp, fs) IN
    {k \in 1..Len(fs) : LET t == FaceTri(vp, fs[k]) IN REq(TriD2(q, t[1], t[2], t[3]), m)}
FaceNormal(vp, fs, k) == LET t == FaceTri(vp, fs[k]) IN TriNormal(t[1], t[2], t[3])

\* project (face id, barycentric location, point): o = [some, fid, bc, p, dq2]
ProjectionOK(q, vp, fs, o) ==
    LET k == o.fid + 1 IN
    /\ o.some /\ k >= 1 /\ k <= Len(fs)
    /\ k \in ArgMinFaces(q, vp, fs)                                       \* the named face attains the global minimum
    /\ LET t == FaceTri(vp, fs[k]) IN
       /\ \A a \in 1..3 : o.bc[a] >= -2 /\ o.bc[a] <= QFc + 2             \* location is on the face ...
       /\ AbsC(o.bc[1] + o.bc[2] + o.bc[3] - QFc) <= 4
       /\ \A a \in 1..3 :                                                 \* ... and reproduces the point
            \* (each quantised coordinate is off by up to half a quantum, which the vertex coordinates amplify)
            AbsC(o.p[a] * QFc - QPc * (o.bc[1] * t[1][a] + o.bc[2] * t[2][a] + o.bc[3] * t[3][a]))
                <= 2 * QFc + QPc * (AbsC(t[1][a]) + AbsC(t[2][a]) + AbsC(t[3][a]))
    /\ D2Matches(o.dq2, MeshMinD2(q, vp, fs))                             \* at the minimum distance
\* closest surface point: at the minimum distance, carrying the normal of a face that attains it
SurfClosestOK(q, vp, fs, o) ==
    /\ o.nfin /\ D2Matches(o.dq2, MeshMinD2(q, vp, fs))
    /\ \E k \in ArgMinFaces(q, vp, fs) : DirMatches(o.n, FaceNormal(vp, fs, k))

\* distance cap r given as rational rr = <<r^2 num, den>> in doubled units: verdict "T"/"F"/"free"
CapVerdict(m, rr) == LET c == RCmp(m[1], m[2], rr[1], rr[2]) IN IF c < 0 THEN "T" ELSE IF c > 0 THEN "F" ELSE "free"
=============================================================================
