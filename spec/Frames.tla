------------------------------- MODULE Frames -------------------------------
(* L1 semantics for C19: principal-axis decomposition (SvdBasis2/3), the     *)
(* two-vector frame constructors (Iso3::try_from_basis_*, iso3_from_xyo,     *)
(* Iso3/Iso2 from an SvdBasis) and Plane3.                                   *)
(*                                                                           *)
(* Inputs are exact: lattice vectors / points (integers), power-of-two       *)
(* scales, integer weights, rigid motions given as an integer matrix R with  *)
(* divisor h (R R^T = h^2 I, det R = h^3) and an integer translation.        *)
(* Observations are integers: unit-vector components in units of 1/QB,       *)
(* positions in 1/QC lattice units, residuals that must vanish in 1/QF,      *)
(* second moments in 1/QG, singular values in 1/QS.                          *)
(*                                                                           *)
(* Everything the statement leaves open is left open here: the sign of every *)
(* principal axis, the axes inside a (numerically) repeated singular value,  *)
(* the orientation of the normal of a plane through three points, how the    *)
(* weights enter the weighted second moments (w or w^2, normalised or not),  *)
(* Err versus panic as the way of failing.                                   *)
(* Section L2 transcribes the cross-product sequences of the six             *)
(* constructors in exact integer arithmetic (normalisation is a positive     *)
(* scaling and is dropped); MC_C19 checks that they refine the L1 predicate. *)
EXTENDS Integers, Sequences, FiniteSets

QB == 16384          \* components of unit vectors, signed distances, basis coordinates
QC == 65536          \* positions (centre, projected points, translations)
QF == 16777216       \* residuals that must vanish
QG == 4096           \* second moments (lattice units squared)
QS == 1024           \* singular values, standard deviations

AbsF(x) == IF x < 0 THEN -x ELSE x
SgnF(x) == IF x < 0 THEN -1 ELSE IF x > 0 THEN 1 ELSE 0
NearF(a, b, t) == AbsF(a - b) <= t
InR(x, b) == -b <= x /\ x <= b

Zero3 == <<0, 0, 0>>
Dot(u, v) == u[1] * v[1] + u[2] * v[2] + u[3] * v[3]
Cross(u, v) == <<u[2] * v[3] - u[3] * v[2], u[3] * v[1] - u[1] * v[3], u[1] * v[2] - u[2] * v[1]>>
Sub(u, v) == <<u[1] - v[1], u[2] - v[2], u[3] - v[3]>>
Add(u, v) == <<u[1] + v[1], u[2] + v[2], u[3] + v[3]>>
Scale(k, v) == <<k * v[1], k * v[2], k * v[3]>>
Neg(v) == <<-v[1], -v[2], -v[3]>>
Max2(a, b) == IF a > b THEN a ELSE b
MaxAbs(v) == Max2(AbsF(v[1]), Max2(AbsF(v[2]), AbsF(v[3])))
MatVec(R, v) == <<Dot(R[1], v), Dot(R[2], v), Dot(R[3], v)>>        \* R given by rows
Transpose(M) == <<<<M[1][1], M[2][1], M[3][1]>>, <<M[1][2], M[2][2], M[3][2]>>, <<M[1][3], M[2][3], M[3][3]>>>>
IsVec(v) == Len(v) = 3
IsMat(m, rows, cols) == Len(m) = rows /\ \A k \in 1..rows : Len(m[k]) = cols
VecInR(v, b) == \A x \in 1..Len(v) : InR(v[x], b)
MatInR(m, b) == \A k \in 1..Len(m) : VecInR(m[k], b)
NearVec(u, v, t) == \A x \in 1..3 : NearF(u[x], v[x], t)
NearVecUpToSign(u, v, t) == NearVec(u, v, t) \/ NearVec(u, Neg(v), t)

RECURSIVE SumSeq(_)
SumSeq(s) == IF s = <<>> THEN 0 ELSE s[1] + SumSeq(Tail(s))

-----------------------------------------------------------------------------
(* Rigid motions x -> (R x) / h + t                                          *)
IsRotation(R, h) ==
    /\ h > 0
    /\ \A j, k \in 1..3 : Dot(R[j], R[k]) = IF j = k THEN h * h ELSE 0
    /\ Dot(Cross(R[1], R[2]), R[3]) = h * h * h

-----------------------------------------------------------------------------
(* Frame constructors.  A constructor is named by its primary and secondary  *)
(* axis; the third axis completes a right-handed frame.                      *)
Ctors == <<"xy", "xz", "yz", "yx", "zx", "zy">>
Prim(c)  == CASE c = "xy" -> 1 [] c = "xz" -> 1 [] c = "yz" -> 2 [] c = "yx" -> 2 [] c = "zx" -> 3 [] c = "zy" -> 3
Sec(c)   == CASE c = "xy" -> 2 [] c = "xz" -> 3 [] c = "yz" -> 3 [] c = "yx" -> 1 [] c = "zx" -> 1 [] c = "zy" -> 2
Third(c) == 6 - Prim(c) - Sec(c)
\* e_prim x e_sec = Sigma * e_third in a right-handed frame
Sigma(c) == IF <<Prim(c), Sec(c)>> \in {<<1, 2>>, <<2, 3>>, <<3, 1>>} THEN 1 ELSE -1

\* the statement: the constructor fails exactly for parallel or zero arguments
MustFail(a, b) == Cross(a, b) = Zero3

\* L1 on exact frames: F = <<f1, f2, f3>>, each a POSITIVE multiple of the unit axis (integers)
RightHandedExact(F) == LET c == Cross(F[1], F[2]) IN Cross(c, F[3]) = Zero3 /\ Dot(c, F[3]) > 0
ExactFrameOK(c, a, b, F) ==
    LET p == F[Prim(c)] s == F[Sec(c)] t == F[Third(c)] IN
    /\ Dot(p, s) = 0 /\ Dot(p, t) = 0 /\ Dot(s, t) = 0           \* orthogonal
    /\ p # Zero3 /\ s # Zero3 /\ t # Zero3
    /\ RightHandedExact(F)                                         \* proper rotation
    /\ Cross(p, a) = Zero3 /\ Dot(p, a) > 0                        \* primary axis is the direction of a
    /\ Dot(t, a) = 0 /\ Dot(t, b) = 0                              \* secondary axis lies in the plane of a and b ...
    /\ Dot(s, b) > 0                                               \* ... on the side of b

\* L1 on observations: R = <<c1, c2, c3>> the images of the unit axes, components in 1/QB
TolG == 2 * QB          \* dot products of two quantised unit vectors (relative 1.2e-4)
OrthoOK(R) == \A j, k \in 1..3 : NearF(Dot(R[j], R[k]), IF j = k THEN QB * QB ELSE 0, TolG)
RightOK(R) == NearVec(Cross(R[1], R[2]), Scale(QB, R[3]), TolG)
TolL(a) == 2 * MaxAbs(a) + 2     \* a linear form with integer coefficients a applied to a quantised unit vector
PrimaryParallel(c, a, R)   == MaxAbs(Cross(R[Prim(c)], a)) <= TolL(a)
PrimaryCodirected(c, a, R) == Dot(R[Prim(c)], a) > 0
SecondaryInPlane(c, a, b, R) == /\ AbsF(Dot(R[Third(c)], a)) <= TolL(a)
                                /\ AbsF(Dot(R[Third(c)], b)) <= TolL(b)
\* with an orthonormal right-handed frame whose primary axis is a/|a|:  s.b = Sigma * t.(a x b) / |a|
SecondaryHalfPlane(c, a, b, R) == /\ Sigma(c) * Dot(R[Third(c)], Cross(a, b)) > 0
                                  /\ Dot(R[Sec(c)], b) >= -TolL(b)

-----------------------------------------------------------------------------
(* L2: the constructors as written (two cross products each), unnormalised.  *)
(* A step fails when its vector is zero (try_normalize).                     *)
L2Frame(c, a, b) ==
    CASE c = "xy" -> LET e0 == a e2 == Cross(e0, b) e1 == Cross(e2, e0) IN <<e0, e1, e2>>
      [] c = "xz" -> LET e0 == a e1 == Cross(b, e0) e2 == Cross(e0, e1) IN <<e0, e1, e2>>
      [] c = "yz" -> LET e1 == a e0 == Cross(e1, b) e2 == Cross(e0, e1) IN <<e0, e1, e2>>
      [] c = "yx" -> LET e1 == a e2 == Cross(b, e1) e0 == Cross(e1, e2) IN <<e0, e1, e2>>
      [] c = "zx" -> LET e2 == a e1 == Cross(e2, b) e0 == Cross(e1, e2) IN <<e0, e1, e2>>
      [] c = "zy" -> LET e2 == a e0 == Cross(b, e2) e1 == Cross(e2, e0) IN <<e0, e1, e2>>
L2Fails(c, a, b) == LET F == L2Frame(c, a, b) IN F[1] = Zero3 \/ F[2] = Zero3 \/ F[3] = Zero3
\* iso3_from_xyo: Gram-Schmidt by projection, unnormalised: y0 = (x.x) y - (x.y) x
L2Xyo(a, b) == LET y0 == Sub(Scale(Dot(a, a), b), Scale(Dot(a, b), a)) IN <<a, y0, Cross(a, y0)>>

L2RefinesL1(c, a, b) ==
    /\ L2Fails(c, a, b) <=> MustFail(a, b)
    /\ ~MustFail(a, b) => ExactFrameOK(c, a, b, L2Frame(c, a, b))
L2XyoRefinesL1(a, b) == ~MustFail(a, b) => ExactFrameOK("xy", a, b, L2Xyo(a, b))

-----------------------------------------------------------------------------
(* Planes.  N is an exact (integer) normal direction, p0 a lattice point on  *)
(* the plane; observations: unit normal nq (1/QB), d and signed distances    *)
(* (1/QB lattice units), projections (1/QC), residuals (1/QF).               *)
TripleNormal(p1, p2, p3) == Cross(Sub(p2, p1), Sub(p3, p1))
Collinear(p1, p2, p3) == TripleNormal(p1, p2, p3) = Zero3
UnitOK(nq) == NearF(Dot(nq, nq), QB * QB, TolG)
NormalParallel(nq, N) == MaxAbs(Cross(nq, N)) <= TolL(N)
\* signed distance of lattice point q as a relation on the recorded normal: sd = n.(q - p0)
SignedDistOK(nq, p0, q, sd) == NearF(sd, Dot(nq, Sub(q, p0)), TolL(Sub(q, p0)))
\* projection pr (1/QC) of lattice point q: q - pr is parallel to N
ProjParallel(q, pr, N) == MaxAbs(Cross(Sub(Scale(QC, q), pr), N)) <= TolL(N)

-----------------------------------------------------------------------------
(* Principal axes.  P: sequence of lattice points, w: positive integer       *)
(* weights.  All exact quantities are kept as integers by scaling with the   *)
(* total weight W.                                                           *)
WSum(P, w) == LET RECURSIVE go(_)
                  go(k) == IF k = 0 THEN Zero3 ELSE Add(go(k - 1), Scale(w[k], P[k]))
              IN go(Len(P))
\* W * (p_i - centre)
Dev(P, w, i) == Sub(Scale(SumSeq(w), P[i]), WSum(P, w))

\* dimension of the affine hull
AffRank(P) ==
    LET D == {Sub(P[i], P[1]) : i \in 1..Len(P)} IN
    IF D \subseteq {Zero3} THEN 0
    ELSE IF \A u \in D, v \in D : Cross(u, v) = Zero3 THEN 1
    ELSE IF \A u \in D, v \in D, x \in D : Dot(Cross(u, v), x) = 0 THEN 2
    ELSE 3

\* centre c (1/QC): W c = sum w p
CenterOK(P, w, c) == LET W == SumSeq(w) S == WSum(P, w) IN
    \A x \in 1..3 : NearF(c[x] * W, QC * S[x], (W \div 2) + 2)

\* basis coordinate k of point i (1/QB): tb = b_k . (p_i - c), as a relation on the recorded basis
ToBasisOK(P, w, i, bk, tbik) == LET d == Dev(P, w, i) IN
    NearF(Dot(bk, d), tbik * SumSeq(w), TolL(d) + SumSeq(w))

\* singular value k is separated from all others (its axis is then determined up to sign)
Gap(sv) == 2 + (sv[1] \div 512)
Isolated(sv, k) == \A j \in 1..Len(sv) : j = k \/ AbsF(sv[j] - sv[k]) > Gap(sv)

\* image of a unit vector (1/QB) under the rotation R/h, times h
RotVecH(R, v) == MatVec(R, v)
\* image of a position (1/QC) under x -> R x / h + t, times h
MoveH(R, h, t, c) == Add(MatVec(R, c), Scale(h * QC, t))

\* second-moment matrix G (1/QG) of the basis coordinates for one weighting; variant (a, lam):
\* a = exponent of the weight (1: w, 2: w^2), lam = 1: sv^2 = sum g d^2, lam = 2: sv^2 / n = sum g d^2 / sum g
TolM == 4
OffDiagZero(G, D) == \A j \in 1..D, k \in 1..D : j = k \/ AbsF(G[j][k]) <= TolM
DiagIsSv2(G, sv2, D, n, sg, lam) ==
    \A k \in 1..D : IF lam = 1 THEN NearF(sv2[k], G[k][k], TolM)
                    ELSE NearF(sv2[k], (n * G[k][k]) \div sg, TolM + 2)
\* sum of w^a
RECURSIVE PowSum(_, _)
PowSum(w, a) == IF w = <<>> THEN 0 ELSE (IF a = 1 THEN w[1] ELSE w[1] * w[1]) + PowSum(Tail(w), a)
=============================================================================
