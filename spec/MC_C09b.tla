------------------------------- MODULE MC_C09b -------------------------------
(* L2 for C09: the accumulation loops of Polynomial::least_squares as a state   *)
(* machine (one action per inner-loop iteration, Fit!L2Next).  TLC checks that  *)
(* on termination the Hankel matrix and right-hand side handed to the solver    *)
(* are exactly the normal equations of L1 (L2Refines), for every size K = 2..6, *)
(* every abscissa sequence of the bounded domain, weighted and unweighted.      *)
(* SkipOffset = 0 is the repaired loop (second loop starts at k = K);           *)
(* SkipOffset = 1 is the pinned code (starts at K + 1): MC_C09b_pinned.cfg      *)
(* makes TLC exhibit the violated refinement (moment K never accumulated).      *)
EXTENDS Fit, TLC
CONSTANTS SkipOffset, XHi, NMax

VARIABLES inp, st

XLo == -1
Inputs == UNION {{[K |-> K, xs |-> xs, ys |-> [i \in 1..n |-> ((i * 3) % 5) - 2], w |-> w, ws |-> [i \in 1..n |-> (i % 3) + 1]]
                    : xs \in {s \in [1..n -> XLo..XHi] : \A i \in 1..(n - 1) : s[i] <= s[i + 1]}, K \in 2..6, w \in BOOLEAN}
                 : n \in 2..NMax}

Init == inp \in Inputs /\ st = L2Init(inp.K)
Next == /\ ~L2Done(st)
        /\ st' = L2Next(st, inp.K, inp.K + SkipOffset, inp.xs, inp.ws, inp.w, inp.ys)
        /\ UNCHANGED inp
Spec == Init /\ [][Next]_<<inp, st>>

\* on termination the system built by the loops is the system of normal equations
Refines == L2Done(st) => L2Refines(st, inp.K, inp.xs, inp.ws, inp.w, inp.ys)
\* the loops stay inside the arrays and visit every sample
InBounds == /\ st.i \in 1..Len(inp.xs)
            /\ st.ph = "first" => st.k \in 0..(inp.K - 1)
            /\ st.ph = "second" => st.k \in inp.K..(2 * inp.K)
\* partial sums: before sample i is processed, the low moments hold the contribution of samples 1..i-1
Prefix(s, n) == [j \in 1..n |-> s[j]]
PartialSums == (st.ph = "first" /\ st.k = 0) =>
                  \A j \in 0..(inp.K - 1) : st.sums[j] = Moment(Prefix(inp.xs, st.i - 1), Prefix(inp.ws, st.i - 1), inp.w, j)
=============================================================================
