------------------------------- MODULE MC_C14 -------------------------------
(* History machine for C14: a mesh with a start selection (None / All / an    *)
(* index set), then up to MaxDepth steps (Add | Remove | Keep) x criterion,   *)
(* each applied to the selection left by the previous step.  The abstract     *)
(* selection advances by the L1 operators of module Selection; because a      *)
(* verdict may be "free" (exact equality with a tolerance) the machine        *)
(* carries the tightest bounds lo <= selection <= hi.  TLC enumerates every   *)
(* behaviour (MaxDepth = 1 or 2) or samples deeper histories in simulation    *)
(* mode, checks the laws of the algebra in every state and prints each        *)
(* finished behaviour as a CASE for the real library.                         *)
EXTENDS Selection, TLC, Json, SequencesExt
CONSTANTS MaxDepth, Sim, MeshNames, Level

VARIABLES mesh, start, hist, lo, hi, phase
vars == <<mesh, start, hist, lo, hi, phase>>

\* ---------------------------------------------------------------- meshes (lattice vertices, 0-based faces)
\* fold2: a flat face and a face tilted by 54.7 deg sharing an edge (shared vertices listed first)
Fold2 == [name |-> "fold2",
          vpos |-> << <<0,0,0>>, <<2,0,0>>, <<0,2,0>>, <<2,2,2>> >>,
          faces |-> << <<1,2,0>>, <<1,3,2>> >>]
\* fan4: four faces of a pyramid, all sharing the apex, four different normals (63.4 deg from +z)
Fan4 == [name |-> "fan4",
         vpos |-> << <<0,0,0>>, <<2,0,0>>, <<2,2,0>>, <<0,2,0>>, <<1,1,2>> >>,
         faces |-> << <<4,0,1>>, <<1,2,4>>, <<2,3,4>>, <<4,3,0>> >>]
\* strip6: flat (normal +z), ramp (63.4 deg), wall (normal -x) - two triangles each, width 2 in y
Strip6 == [name |-> "strip6",
           vpos |-> << <<0,0,0>>, <<2,0,0>>, <<3,0,2>>, <<3,0,4>>, <<0,2,0>>, <<2,2,0>>, <<3,2,2>>, <<3,2,4>> >>,
           faces |-> << <<0,1,5>>, <<5,4,0>>, <<1,2,6>>, <<1,6,5>>, <<2,3,7>>, <<6,2,7>> >>]
\* box12: the 2x2x2 box, outward normals
Box12 == [name |-> "box12",
          vpos |-> << <<0,0,0>>, <<2,0,0>>, <<2,2,0>>, <<0,2,0>>, <<0,0,2>>, <<2,0,2>>, <<2,2,2>>, <<0,2,2>> >>,
          faces |-> << <<0,2,1>>, <<0,3,2>>, <<4,5,6>>, <<4,6,7>>, <<0,1,5>>, <<0,5,4>>,
                       <<2,3,7>>, <<2,7,6>>, <<1,2,6>>, <<1,6,5>>, <<3,0,4>>, <<3,4,7>> >>]
AllMeshes == {Fold2, Fan4, Strip6, Box12}
Meshes == {m \in AllMeshes : m.name \in MeshNames}
NF == Len(mesh.faces)

\* two permutations of the face list for the order-dependence runs: reversed, rotated by one
Perms(n) == << [j \in 1..n |-> n - j], [j \in 1..n |-> j % n] >>

\* ---------------------------------------------------------------- start selections
SortedSeq(S) == SetToSortSeq(S, LAMBDA a, b : a < b)
IdxStarts(n) == IF n <= 4 THEN {SortedSeq(S) : S \in SUBSET (0..(n - 1))}
                ELSE {<<>>, <<0>>, <<1, 2>>, <<n - 1, 0, 3>>, SortedSeq({k \in 0..(n - 1) : k % 2 = 0}),
                      SortedSeq(1..(n - 1))}
Starts(n) == {[kind |-> "none", idx |-> <<>>], [kind |-> "all", idx |-> <<>>]} \cup
             {[kind |-> "idx", idx |-> s] : s \in IdxStarts(n)}
ScOf(st) == << 0, -3, 4 >>[(Len(st.idx) % 3) + 1]          \* power-of-two scale of the whole scene

\* ---------------------------------------------------------------- criteria (uniform record shape)
NoRef == [kind |-> "none", ax |-> 3, h |-> 0, lo |-> <<0, 0>>, hi |-> <<0, 0>>, up |-> TRUE, cells |-> FALSE]
Patch(ax, h, l, u, up, cells) == [kind |-> "patch", ax |-> ax, h |-> h, lo |-> l, hi |-> u, up |-> up, cells |-> cells]
FacingC(d, deg) == [kind |-> "facing", ex |-> TRUE, d |-> d, deg |-> deg, ref |-> NoRef, allv |-> FALSE, dt2 |-> 0,
                    hpt |-> FALSE, pt2 |-> 0, had |-> FALSE, adeg |-> 0]
NearC(rf, allv, dt2, pt, ad) == [kind |-> "near", ex |-> TRUE, d |-> <<0, 0, 0>>, deg |-> 0, ref |-> rf, allv |-> allv,
                                 dt2 |-> dt2, hpt |-> pt >= 0, pt2 |-> IF pt >= 0 THEN pt ELSE 0,
                                 had |-> ad >= 0, adeg |-> IF ad >= 0 THEN ad ELSE 0]

Refs == { Patch(3, 0, <<-1, -1>>, <<3, 3>>, TRUE, FALSE),      \* under the flat parts, normal +z
          Patch(3, 0, <<0, 0>>, <<1, 1>>, FALSE, TRUE),        \* small, normal -z: the planar tolerance matters
          Patch(1, 4, <<-1, -1>>, <<3, 5>>, FALSE, TRUE) }     \* plane x = 4 facing -x, one unit off strip wall
RefsMore == { Patch(2, -1, <<0, 0>>, <<4, 2>>, TRUE, FALSE),   \* plane y = -1, normal +y (in-plane axes z, x)
              Patch(3, 3, <<1, 1>>, <<2, 2>>, TRUE, FALSE) }   \* small patch above
Dirs == {<<0,0,1>>, <<0,0,-1>>, <<-1,0,1>>, <<1,0,0>>, <<-2,0,1>>, <<1,1,1>>}

Crits ==
    IF Level = 0 THEN       \* smallest: every branch of the criteria once or twice (used with MaxDepth = 2 / simulation)
        {FacingC(d, g) : d \in {<<0,0,1>>, <<-2,0,1>>, <<1,0,0>>}, g \in {60, 90}} \cup
        {NearC(rf, a, t, p, g) : rf \in Refs, a \in BOOLEAN, t \in {4}, p \in {-1, 2}, g \in {-1, 60}}
    ELSE IF Level = 1 THEN
        {FacingC(d, g) : d \in Dirs, g \in {45, 60, 90}} \cup
        {NearC(rf, a, t, p, g) : rf \in Refs, a \in BOOLEAN, t \in {1, 6}, p \in {-1, 2}, g \in {-1, 45, 90}}
    ELSE
        {FacingC(d, g) : d \in Dirs, g \in Degs} \cup
        {NearC(rf, a, t, p, g) : rf \in Refs \cup RefsMore, a \in BOOLEAN, t \in {1, 4, 9}, p \in {-1, 0, 2, 5},
                                  g \in {-1, 0, 45, 60, 90, 135}}
Modes == {"add", "remove", "keep"}

\* in simulation mode every nondeterministic draw is a single random element (one successor per step)
Pick(S) == IF Sim THEN {RandomElement(S)} ELSE S

Root(m, st) == [m |-> "sel", op |-> "mesh", name |-> m.name, sc |-> ScOf(st), vpos |-> m.vpos, faces |-> m.faces,
                start |-> st, reps |-> 3, perms |-> Perms(Len(m.faces))]

Init == /\ mesh \in Meshes
        /\ start \in Starts(Len(mesh.faces))
        /\ hist = <<Root(mesh, start)>>
        /\ lo = StartSel(start, Len(mesh.faces)) /\ hi = lo
        /\ phase = "run"

TSet(c)  == {f \in 1..NF : Verdict(mesh.vpos, mesh.faces, f, c) = "T"}
FrSet(c) == {f \in 1..NF : Verdict(mesh.vpos, mesh.faces, f, c) = "free"}

Step == /\ phase = "run" /\ Len(hist) <= MaxDepth
        /\ \E md \in Pick(Modes), c \in Pick(Crits) :
             LET t == TSet(c) fr == FrSet(c) IN
             /\ hist' = Append(hist, [m |-> "sel", op |-> "step", mode |-> md, crit |-> c])
             /\ lo' = CASE md = "add" -> lo \cup t      [] md = "remove" -> lo \ (t \cup fr) [] OTHER -> lo \cap t
             /\ hi' = CASE md = "add" -> hi \cup t \cup fr [] md = "remove" -> hi \ t        [] OTHER -> hi \cap (t \cup fr)
        /\ UNCHANGED <<mesh, start, phase>>
Stop == /\ phase = "run" /\ Len(hist) >= 2 /\ (Sim => Len(hist) > MaxDepth)
        /\ phase' = "done" /\ UNCHANGED <<mesh, start, hist, lo, hi>>
Next == Step \/ Stop
Spec == Init /\ [][Next]_vars

Emit == phase = "done" => PrintT(<<"CASE", ToJson(hist)>>)

\* laws of the L1 algebra and of the bounds, in every reachable state
Laws ==
    /\ lo \subseteq hi /\ hi \subseteq 1..NF
    /\ LawMonotone(lo, hi) /\ LawPartition(hi, lo) /\ LawIdempotent(lo, hi) /\ LawAbsorb(hi, lo)
    \* a determined criterion keeps determined selections determined; applying any step twice changes nothing more
    /\ Len(hist) >= 2 =>
         LET c == hist[Len(hist)].crit md == hist[Len(hist)].mode t == TSet(c) IN
         /\ Determined(mesh.vpos, mesh.faces, c) => /\ SatSet(mesh.vpos, mesh.faces, c) = t
                                                    /\ (md = "add" => t \subseteq lo)
                                                    /\ (md = "remove" => hi \cap t = {})
                                                    /\ (md = "keep" => hi \subseteq t)
         \* the verdict of a face does not depend on the order of its vertices' faces: rotating a face keeps it
         /\ \A f \in 1..NF :
              LET rf == [mesh.faces EXCEPT ![f] = <<mesh.faces[f][2], mesh.faces[f][3], mesh.faces[f][1]>>] IN
              Verdict(mesh.vpos, rf, f, c) = Verdict(mesh.vpos, mesh.faces, f, c)
=============================================================================
