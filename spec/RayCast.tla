------------------------------ MODULE RayCast ------------------------------
(* C06: intersections of an infinite line (origin o, direction d, both        *)
(* lattice) with a lattice polyline, by exact per-edge solution.              *)
EXTENDS Closest

Cross2(a, b) == a[1] * b[2] - a[2] * b[1]
\* per edge k: does the line cross it, and at which line parameter <<num, det>> (det may be negative)
EdgeDet(v, k, d) == Cross2(Edge(v, k), d)                    \* e.x d.y - e.y d.x
EdgeT0(v, k, o, d) == LET w == VSub(v[k], o) e == Edge(v, k) IN <<w[2] * e[1] - w[1] * e[2], EdgeDet(v, k, d)>>
EdgeT1(v, k, o, d) == LET w == VSub(v[k], o) IN <<w[2] * d[1] - w[1] * d[2], EdgeDet(v, k, d)>>
\* 0 <= n/dt <= 1 for a signed fraction
In01(x) == IF x[2] > 0 THEN x[1] >= 0 /\ x[1] <= x[2] ELSE x[1] <= 0 /\ x[1] >= x[2]
Hits(v, k, o, d) == EdgeDet(v, k, d) # 0 /\ In01(EdgeT1(v, k, o, d))
HitEdges(v, o, d) == {k \in 1..(Len(v) - 1) : Hits(v, k, o, d)}
\* equality / order of signed fractions n1/d1, n2/d2 by cross multiplication (all values small)
FEq(x, y) == x[1] * y[2] = y[1] * x[2]
FLt(x, y) == IF (x[2] > 0) = (y[2] > 0) THEN x[1] * y[2] < y[1] * x[2] ELSE x[1] * y[2] > y[1] * x[2]
\* the distinct exact parameters, represented by one hit edge each
Reps(v, o, d) == LET H == HitEdges(v, o, d) IN
    {k \in H : \A j \in H : FEq(EdgeT0(v, j, o, d), EdgeT0(v, k, o, d)) => k <= j}
NumCross(v, o, d) == Cardinality(Reps(v, o, d))

\* the same with the hit set handed over (the judge computes it once per line: the polylines have up to thousands of edges)
RepsIn(H, v, o, d) == {k \in H : \A j \in H : FEq(EdgeT0(v, j, o, d), EdgeT0(v, k, o, d)) => k <= j}

QT == 16384
\* quantised parameter tq (scaled by `mul`, e.g. the integer norm of d for unit-direction queries) equals fraction x
TMatches(tq, x, mul) == AbsC(tq * x[2] - QT * mul * x[1]) <= 2 * AbsC(x[2])

\* the reported list ints = <<<<tq, edge idx (0-based)>>, ...>>
IntersectionsOK(v, o, d, ints, mul) ==
    /\ Len(ints) = NumCross(v, o, d)                                          \* none missed, no duplicates
    /\ \A j \in 1..Len(ints) :
          LET k == ints[j][2] + 1 IN
          /\ k \in HitEdges(v, o, d)                                          \* on the named edge
          /\ TMatches(ints[j][1], EdgeT0(v, k, o, d), mul)                   \* at the exact parameter
    /\ \A j \in 1..(Len(ints) - 1) :                                         \* strictly ascending exact values
          FLt(EdgeT0(v, ints[j][2] + 1, o, d), EdgeT0(v, ints[j + 1][2] + 1, o, d))

\* Vertices lying exactly on the line, and whether the line properly crosses the curve there (the two
\* neighbours strictly on opposite sides). A proper crossing survives any small perturbation of the
\* line, a touch, an end of an open polyline or an edge along the line does not.
Sgn(x) == IF x > 0 THEN 1 ELSE IF x < 0 THEN -1 ELSE 0
SideOf(v, k, o, d) == Sgn(Cross2(VSub(v[k], o), d))
OnLine(v, o, d) == {k \in 1..Len(v) : SideOf(v, k, o, d) = 0}
ClosedPoly(v) == Len(v) > 2 /\ v[1] = v[Len(v)]
PrevV(v, k) == IF k > 1 THEN k - 1 ELSE IF ClosedPoly(v) THEN Len(v) - 1 ELSE 0
NextV(v, k) == IF k < Len(v) THEN k + 1 ELSE IF ClosedPoly(v) THEN 2 ELSE 0
ProperAt(v, k, o, d) == PrevV(v, k) # 0 /\ NextV(v, k) # 0 /\ SideOf(v, PrevV(v, k), o, d) * SideOf(v, NextV(v, k), o, d) < 0
RobustCount(v, o, d) == \A k \in OnLine(v, o, d) : ProperAt(v, k, o, d)

\* variants of the clauses below with precomputed hit set H and representatives R
IntersectionsOKh(H, R, v, o, d, ints, mul) ==
    /\ Len(ints) = Cardinality(R)
    /\ \A j \in 1..Len(ints) : LET k == ints[j][2] + 1 IN k \in H /\ TMatches(ints[j][1], EdgeT0(v, k, o, d), mul)
    /\ \A j \in 1..(Len(ints) - 1) : FLt(EdgeT0(v, ints[j][2] + 1, o, d), EdgeT0(v, ints[j + 1][2] + 1, o, d))
MinRepIn(R, v, o, d) == CHOOSE k \in R : \A j \in R : j = k \/ FLt(EdgeT0(v, k, o, d), EdgeT0(v, j, o, d))
MaxRepIn(R, v, o, d) == CHOOSE k \in R : \A j \in R : j = k \/ FLt(EdgeT0(v, j, o, d), EdgeT0(v, k, o, d))

\* ---- nearly parallel lines (slopes of 2^-20 against edges millions of units long): cross-multiplying two parameters
\* would leave TLC's 32-bit integers, so equality / order of the signed fractions uses the continued-fraction comparison
SgnR(x) == Sgn(x[1]) * Sgn(x[2])
CmpS(x, y) == LET sx == SgnR(x) sy == SgnR(y) IN
    IF sx < sy THEN -1 ELSE IF sx > sy THEN 1 ELSE IF sx = 0 THEN 0
    ELSE LET c == RCmp(AbsC(x[1]), AbsC(x[2]), AbsC(y[1]), AbsC(y[2])) IN IF sx > 0 THEN c ELSE -c
RepsBig(H, v, o, d) == {k \in H : \A j \in H : CmpS(EdgeT0(v, j, o, d), EdgeT0(v, k, o, d)) = 0 => k <= j}
\* reported list (parameter quantum qt per |d|): one entry per distinct exact crossing, on a hit edge, near the exact
\* parameter, strictly ascending
IntersectionsBigOK(v, o, d, ints, qt) ==
    LET H == HitEdges(v, o, d) R == RepsBig(H, v, o, d) IN
    /\ Len(ints) = Cardinality(R)
    /\ \A j \in 1..Len(ints) : LET k == ints[j][2] + 1 x == EdgeT0(v, k, o, d) IN
          k \in H /\ AbsC(ints[j][1] * x[2] - qt * x[1]) <= 2 * AbsC(x[2])
    /\ \A j \in 1..(Len(ints) - 1) : CmpS(EdgeT0(v, ints[j][2] + 1, o, d), EdgeT0(v, ints[j + 1][2] + 1, o, d)) < 0

MinRep(v, o, d) == CHOOSE k \in Reps(v, o, d) : \A j \in Reps(v, o, d) : j = k \/ FLt(EdgeT0(v, k, o, d), EdgeT0(v, j, o, d))
MaxRep(v, o, d) == CHOOSE k \in Reps(v, o, d) : \A j \in Reps(v, o, d) : j = k \/ FLt(EdgeT0(v, j, o, d), EdgeT0(v, k, o, d))

QS == 4096    \* points / vectors of the spanning ray, per lattice unit
\* spanning ray sp = [some, o, d]: exactly when there are two crossings; from the smaller to the larger
SpanningOKh(R, v, o, d, sp) ==
    IF Cardinality(R) # 2 THEN ~sp.some
    ELSE /\ sp.some
         /\ LET t1 == EdgeT0(v, MinRepIn(R, v, o, d), o, d) t2 == EdgeT0(v, MaxRepIn(R, v, o, d), o, d) IN
            \A a \in 1..2 :
               /\ AbsC(sp.o[a] * t1[2] - QS * (o[a] * t1[2] + t1[1] * d[a])) <= 3 * AbsC(t1[2])
               \* direction = d (T2 - T1) with T2 - T1 = N / D0; evaluated by floor division (QS * N / D0 first, error below one quantum,
               \* then times d[a]) so that no product leaves 31 bits on polylines of hundreds of edges crossed by oblique lines
               /\ LET N == t2[1] * t1[2] - t1[1] * t2[2] D0 == t1[2] * t2[2]
                      sg == Sgn(N) * Sgn(D0) An == AbsC(N) Ad == AbsC(D0)
                      E1 == QS * (An \div Ad) + (QS * (An % Ad)) \div Ad IN
                  AbsC(sp.d[a] - sg * d[a] * E1) <= 4 + AbsC(d[a])
MaxIntersectionOKh(R, v, o, d, mx) ==
    IF R = {} THEN ~mx.some
    ELSE mx.some /\ TMatches(mx.tq, EdgeT0(v, MaxRepIn(R, v, o, d), o, d), 1)
SpanningOK(v, o, d, sp) ==
    IF NumCross(v, o, d) # 2 THEN ~sp.some
    ELSE /\ sp.some
         /\ LET t1 == EdgeT0(v, MinRep(v, o, d), o, d) t2 == EdgeT0(v, MaxRep(v, o, d), o, d) IN
            \A a \in 1..2 :
               /\ AbsC(sp.o[a] * t1[2] - QS * (o[a] * t1[2] + t1[1] * d[a])) <= 3 * AbsC(t1[2])
               /\ AbsC(sp.d[a] * t1[2] * t2[2] - QS * d[a] * (t2[1] * t1[2] - t1[1] * t2[2])) <= 3 * AbsC(t1[2] * t2[2])
MaxIntersectionOK(v, o, d, mx) ==
    IF NumCross(v, o, d) = 0 THEN ~mx.some
    ELSE mx.some /\ TMatches(mx.tq, EdgeT0(v, MaxRep(v, o, d), o, d), 1)
\* farthest projected vertex along the unit direction; only judged when |d| is an integer
FarthestOK(v, o, d, fq) ==
    LET nd == ISqrt(d[1] * d[1] + d[2] * d[2])
        M == CHOOSE m \in {VDot(d, VSub(v[k], o)) : k \in 1..Len(v)} : \A k \in 1..Len(v) : VDot(d, VSub(v[k], o)) <= m IN
    nd <= 0 \/ AbsC(fq * nd - QT * M) <= 2 * nd
=============================================================================
