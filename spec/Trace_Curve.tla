----------------------------- MODULE Trace_Curve -----------------------------
(* Judge for the curve family (C01 stations; portions and resampling are     *)
(* added by the C04 / C05 operators of module Curve).                         *)
EXTENDS Curve, JudgeBase

VARIABLES i, rv, rc, d, skip, tolv

QV(v) == [k \in 1..Len(v) |-> VScale(QP, v[k])]

JStations(r) ==
    LET o == r.out
        v == Built(r.pts, r.tolU, r.fc, r.dim) IN
    IF v = <<>> THEN Clause(i, "C01.construct.must_fail", ~o.ok)
    ELSE
    /\ Clause(i, "C01.construct.ok", o.ok)
    /\ o.ok =>
       LET closed == IsClosedV(v, r.tolU, r.dim)
           c == Cum(v)
           shape == /\ Len(o.verts) = Len(v) /\ Len(o.lens) = Len(v) /\ Len(o.it) = Len(v)
                    /\ Len(o.q) = Len(r.ls) /\ Len(o.qf) = Len(r.fs) IN
       /\ Clause(i, "C01.finite", o.finite)
       /\ Clause(i, "C01.shape", shape /\ o.n = Len(v))
       /\ shape =>
          /\ Clause(i, "C01.vertices", o.verts = QV(v))
          /\ Clause(i, "C01.closed", o.closed = closed)
          /\ Clause(i, "C01.lengths", /\ o.lens[1] = 0
                                      /\ \A k \in 1..Len(v) : Near(o.lens[k], QP * c[k], 2)
                                      /\ Near(o.len, QP * c[Len(v)], 2))
          /\ Clause(i, "C01.at_length", \A j \in 1..Len(r.ls) :
                  StationAllowed(v, closed, r.dim, r.ls[j][1], r.ls[j][2], o.q[j]))
          /\ Clause(i, "C01.at_fraction", \A j \in 1..Len(r.fs) :
                  StationAllowedByFraction(v, closed, r.dim, r.fs[j], o.qf[j]))
          /\ Clause(i, "C01.iter", \A k \in 1..Len(v) : StationAllowed(v, closed, r.dim, 2 * c[k], 0, o.it[k]))
          /\ Clause(i, "C01.front_back", /\ StationAllowed(v, closed, r.dim, 0, 0, o.front)
                                         /\ StationAllowed(v, closed, r.dim, 2 * c[Len(v)], 0, o.back))


\* general lattice polylines (irrational edge lengths): a station requested k/8 of the way along edge e (by arc length taken
\* from the curve's own table) is the exact rational point (8 - k)/8 v[e] + k/8 v[e+1]; its direction is a unit vector
\* (|d|^2 - 1 within 2^-44) parallel to and along the edge (sine below 2^-34) inside an edge; index and fraction reproduce
\* the point (2^-24 unit) and the length along (2^-34 of the total); in 2D the normal is a unit vector perpendicular to it.
FreeRowOK(v, dim, e, k, row) ==
    /\ row.some
    /\ \A a \in 1..3 : AbsC(row.p[a] - (QP \div 8) * ((8 - k) * v[e][a] + k * v[e + 1][a])) <= 2
    /\ AbsC(row.u) <= 64
    /\ (k > 0 /\ k < 8) => (row.par <= 64 /\ row.fwd)
    /\ row.res <= 64 /\ row.lares <= 64
    /\ dim = 2 => (AbsC(row.nu) <= 64 /\ ((k > 0 /\ k < 8) => AbsC(row.nd) <= 64))
JFree(r) ==
    LET o == r.out v == Built(r.pts, r.tolU, r.fc, r.dim) IN
    /\ Clause(i, "C01.construct.ok", o.ok)
    /\ o.ok =>
        /\ Clause(i, "C01.shape", o.n = Len(v) /\ Len(o.rows) = Len(r.req))
        /\ (o.n = Len(v) /\ Len(o.rows) = Len(r.req)) =>
            /\ Clause(i, "C01.finite", o.finite)
            /\ ClauseAll(i, "C01.free.station", 1..Len(r.req), LAMBDA j : FreeRowOK(v, r.dim, r.req[j][1] + 1, r.req[j][2], o.rows[j]))

\* ------------------------------------------------------------------ C04
ClauseB(name, cond) == IF cond THEN TRUE ELSE (PrintT(<<"REJECT", i, name>>) /\ FALSE)
Dec(e) == IF e[2] = 1 THEN d.T - e[1] ELSE e[1]       \* decode a half-length parameter

PieceOK(tag, nd, o) ==
    /\ ClauseB("C04." \o tag \o ".some", o.some)
    /\ ClauseB("C04." \o tag \o ".endpoints", PieceEndpoints(rv, rc, nd, o))
    /\ ClauseB("C04." \o tag \o ".length", PieceLength(nd, o))
    /\ ClauseB("C04." \o tag \o ".path", PiecePath(rv, rc, nd, o))
    /\ ClauseB("C04." \o tag \o ".closed_flag", o.closed = DClosed(rv, rc, nd))
\* with a tolerance of tolv lattice units (tolerance variant): a request shorter than the tolerance yields nothing,
\* exactly the tolerance is free, clearly longer yields a piece whose ends are within the tolerance of the exact
\* ones and whose length is within (vertex count) tolerances of the exact travel (vertices closer than the
\* tolerance to their predecessor may legitimately merge, so the path itself is not compared)
TolResultOK(tag, nd, o) ==
    LET t2 == 2 * tolv IN
    IF nd = NoCurve \/ nd.T < t2 THEN ClauseB("C04.tol." \o tag \o ".must_be_none", ~o.some)
    ELSE IF nd.T <= 2 * t2 THEN TRUE      \* between one and two tolerances (incl. vertices exactly one tolerance from both ends): free
    ELSE /\ ClauseB("C04.tol." \o tag \o ".some", o.some)
         /\ ClauseB("C04.tol." \o tag \o ".endpoints", /\ Len(o.verts) >= 2
                 /\ PNear(o.verts[1], ExpQ(DPoint(rv, rc, nd, 0)), tolv * QC + 3)
                 /\ PNear(o.verts[Len(o.verts)], ExpQ(DPoint(rv, rc, nd, nd.T)), tolv * QC + 3))
         /\ ClauseB("C04.tol." \o tag \o ".length", AbsC(2 * o.len - nd.T * QC) <= 2 * (Len(o.verts) + 1) * tolv * QC + 8)
ResultOK(tag, nd, o) == IF tolv > 0 THEN TolResultOK(tag, nd, o)
                        ELSE IF nd = NoCurve THEN ClauseB("C04." \o tag \o ".must_be_none", ~o.some) ELSE PieceOK(tag, nd, o)

\* expected next abstract curve for a (non-root) history record
NextD(r) ==
    CASE r.op = "between"    -> DBetween(rv, rc, d, Dec(r.l0), Dec(r.l1))
      [] r.op = "bycontrol"  -> DByControl(rv, rc, d, Dec(r.a), Dec(r.b), Dec(r.c)).piece
      [] r.op = "trim_front" -> DBetween(rv, rc, d, Dec(r.x), d.T)
      [] r.op = "trim_back"  -> DBetween(rv, rc, d, 0, d.T - Dec(r.x))
      [] r.op = "reversed"   -> DReversed(d)
      [] r.op = "split_open" ->
            LET pa == DBetween(rv, rc, d, 0, Dec(r.l)) pb == DBetween(rv, rc, d, Dec(r.l), d.T) IN
            IF ~DClosed(rv, rc, d) /\ pa # NoCurve /\ pb # NoCurve THEN (IF r.keep = 1 THEN pa ELSE pb) ELSE NoCurve
      [] r.op = "split_closed" ->
            LET pa == DBetween(rv, rc, d, Dec(r.l0), Dec(r.l1)) pb == DBetween(rv, rc, d, Dec(r.l1), Dec(r.l0)) IN
            IF DClosed(rv, rc, d) /\ pa # NoCurve /\ pb # NoCurve THEN (IF r.keep = 1 THEN pa ELSE pb) ELSE NoCurve

HistOps == {"between", "bycontrol", "trim_front", "trim_back", "reversed", "split_open", "split_closed"}

JHist(r) ==
    LET o == r.out.r nd == NextD(r) IN
    /\ ClauseB("C04.finite", r.out.finite)
    /\ CASE r.op \in {"between", "trim_front", "trim_back", "reversed"} -> ResultOK(r.op, nd, o)
         [] r.op = "bycontrol" ->
              LET v == DByControl(rv, rc, d, Dec(r.a), Dec(r.b), Dec(r.c)).verdict IN
              IF v = "free" THEN TRUE ELSE ResultOK(r.op, nd, o)
         [] r.op = "split_open" /\ tolv > 0 -> TRUE
         [] r.op = "split_closed" /\ tolv > 0 -> TRUE
         [] r.op = "split_open" ->
              LET pa == DBetween(rv, rc, d, 0, Dec(r.l)) pb == DBetween(rv, rc, d, Dec(r.l), d.T) IN
              IF nd = NoCurve THEN ClauseB("C04.split_open.must_fail", ~o.some)
              ELSE /\ ClauseB("C04.split_open.some", o.some)
                   /\ PieceOK("split_open.a", pa, o.a) /\ PieceOK("split_open.b", pb, o.b)
                   /\ ClauseB("C04.split_open.sum", AbsV(o.a.len + o.b.len - (d.T * QC) \div 2) <= 8)
         [] r.op = "split_closed" ->
              LET pa == DBetween(rv, rc, d, Dec(r.l0), Dec(r.l1)) pb == DBetween(rv, rc, d, Dec(r.l1), Dec(r.l0)) IN
              IF nd = NoCurve THEN ClauseB("C04.split_closed.must_fail", ~o.some)
              ELSE /\ ClauseB("C04.split_closed.some", o.some)
                   /\ PieceOK("split_closed.a", pa, o.a) /\ PieceOK("split_closed.b", pb, o.b)
                   /\ ClauseB("C04.split_closed.sum", AbsV(o.a.len + o.b.len - (d.T * QC) \div 2) <= 8)

JRoot(r) ==
    LET v == Built(r.pts, r.tolU, r.fc, 2) IN
    /\ ClauseB("C04.root.ok", r.out.ok)
    /\ ClauseB("C04.root.piece", /\ PieceEndpoints(v, IsClosedV(v, r.tolU, 2), WholeRoot(v), r.out.piece)
                                 /\ PieceLength(WholeRoot(v), r.out.piece)
                                 /\ r.out.piece.closed = IsClosedV(v, r.tolU, 2))


\* ------------------------------------------------------------------ C05
QVR(v) == [k \in 1..Len(v) |-> VScale(QR, v[k])]

JResample(r) ==
    LET o == r.out v == Built(r.pts, 0, r.fc, r.dim) closed == IsClosedV(v, 0, r.dim) IN
    IF r.mode = "count" THEN
        /\ Clause(i, "C05.resample.count.ok", o.ok \/ CountMayFail(v, r.n))
        /\ o.ok => /\ Clause(i, "C05.resample.finite", o.finite)
                   /\ Clause(i, "C05.resample.count.vertices", ResampleCountOK(v, r.n, o.verts))
                   /\ Clause(i, "C05.resample.closedness", o.closed = o.src_closed)
    ELSE IF r.mode = "spacing_div" THEN
        \* (on a curve that doubles back on itself all samples of one of the two admissible layouts may coincide)
        /\ Clause(i, "C05.resample.spacing.ok", o.ok \/ SpacingDivMayFail(v, r.n, FALSE) \/ (closed /\ SpacingDivMayFail(v, r.n, TRUE)))
        /\ o.ok => /\ Clause(i, "C05.resample.finite", o.finite)
                   /\ Clause(i, "C05.resample.spacing.vertices",
                             ResampleSpacingDivOK(v, r.n, o.verts, FALSE) \/ (closed /\ ResampleSpacingDivOK(v, r.n, o.verts, TRUE)))
    ELSE IF r.mode = "spacing" THEN
        \* a closed source may get its first sample repeated as closing vertex
        IF ~o.ok THEN Clause(i, "C05.resample.spacing.ok", SpacingMayFail(v, r.n, FALSE) \/ (closed /\ SpacingMayFail(v, r.n, TRUE)))
        ELSE /\ Clause(i, "C05.resample.finite", o.finite)
             /\ Clause(i, "C05.resample.spacing.vertices",
                       ResampleSpacingOK(v, r.n, o.verts, FALSE) \/ (closed /\ ResampleSpacingOK(v, r.n, o.verts, TRUE)))
    ELSE
        /\ Clause(i, "C05.resample.maxspacing.ok", o.ok \/ MaxSpacingMayFail(v, r.n))
        /\ o.ok => /\ Clause(i, "C05.resample.finite", o.finite)
                   /\ Clause(i, "C05.resample.maxspacing.vertices", ResampleMaxSpacingOK(v, r.n, o.verts))
                   /\ Clause(i, "C05.resample.closedness", o.closed = o.src_closed)

\* indices (1-based) in v of the vertices of w: ends forced, interior matched greedily; <<>> if w is not a subsequence
RECURSIVE MatchFrom(_, _, _, _, _)
MatchFrom(v, w, j, k, acc) ==
    IF j > Len(w) - 1 THEN acc
    ELSE IF k > Len(v) - 1 THEN <<>>
    ELSE IF w[j] = v[k] THEN MatchFrom(v, w, j + 1, k + 1, Append(acc, k))
    ELSE MatchFrom(v, w, j, k + 1, acc)
MatchIdx(v, w) ==
    IF Len(w) < 2 \/ Len(v) < 2 \/ w[1] # v[1] \/ w[Len(w)] # v[Len(v)] THEN <<>>
    ELSE LET mid == MatchFrom(v, w, 2, 2, <<1>>) IN IF mid = <<>> THEN <<>> ELSE Append(mid, Len(v))

Unq(w) == [k \in 1..Len(w) |-> <<w[k][1] \div QR, w[k][2] \div QR, w[k][3] \div QR>>]
JSimplify(r) ==
    LET o == r.out
        exact == \A k \in 1..Len(o.src) : \A a \in 1..3 : o.src[k][a] % QR = 0
        idx == MatchIdx(o.src, o.verts) IN
    /\ Clause(i, "C05.simplify.finite", o.finite /\ exact)
    /\ Clause(i, "C05.simplify.subsequence_with_ends", idx # <<>>)
    /\ Clause(i, "C05.simplify.closedness", o.closed = o.src_closed)
    /\ (idx # <<>> /\ exact) => Clause(i, "C05.simplify.within_tolerance", SimplifyOK(Unq(o.src), r.e4, idx))

\* long shallow polylines: vertex k is (X_k * K, y_k, z_k) with K = 2^kx >= 2^20, X strictly increasing small integers and y, z a
\* few units.  For a discarded vertex p between consecutive kept vertices a, b the squared distance to the segment is
\*   K^2 C2 / (K^2 dX^2 + dy^2 + dz^2)   with  C2 = (pz dX - pX dz)^2 + (pX dy - py dX)^2   (p, d relative to a),
\* which lies between C2 / (dX^2 + 1) and C2 / dX^2 - so "16 C2 <= e4^2 (dX^2 + 1)" is implied by "within e4/4 of the segment".
LongWithin(a, b, p, e4) ==
    LET dX == b[1] - a[1] dy == b[2] - a[2] dz == b[3] - a[3] pX == p[1] - a[1] py == p[2] - a[2] pz == p[3] - a[3]
        C2 == (pz * dX - pX * dz) * (pz * dX - pX * dz) + (pX * dy - py * dX) * (pX * dy - py * dX) IN
    16 * C2 <= e4 * e4 * (dX * dX + 1)
JSimplifyLong(r) ==
    LET o == r.out kp == o.keep n == Len(r.pts)
        shape == /\ Len(kp) >= 2 /\ Len(kp) = o.n /\ kp[1] = 1 /\ kp[Len(kp)] = n
                 /\ \A j \in 1..(Len(kp) - 1) : kp[j] < kp[j + 1] IN
    /\ Clause(i, "C05.simplify.finite", o.n_src = n /\ o.verbatim)
    /\ Clause(i, "C05.simplify.subsequence_with_ends", shape)
    /\ Clause(i, "C05.simplify.closedness", ~o.closed)
    /\ shape => ClauseAll(i, "C05.simplify.within_tolerance", 1..(Len(kp) - 1), LAMBDA j :
            \A k \in (kp[j] + 1)..(kp[j + 1] - 1) : LongWithin(r.pts[kp[j]], r.pts[kp[j + 1]], r.pts[k], r.e4))

JFill(r) ==
    LET o == r.out
        RECURSIVE Greedy(_, _, _)
        Greedy(j, k, acc) == IF j > Len(r.pts) THEN acc ELSE IF k > Len(o.verts) THEN <<>>
                             ELSE IF o.verts[k] = VScale(QR, r.pts[j]) THEN Greedy(j + 1, k + 1, Append(acc, k))
                             ELSE Greedy(j, k + 1, acc)
        orig == Greedy(1, 1, <<>>) IN
    /\ Clause(i, "C05.fill.finite", o.finite)
    /\ Clause(i, "C05.fill.originals_kept_in_order", orig # <<>>)
    /\ orig # <<>> => Clause(i, "C05.fill.gaps_and_inserts", FillGapsOK(r.pts, r.m2, o.verts, orig))

\* Curve3::resample has no error channel: when fewer than two distinct samples exist it can only panic
ResamplePanicAllowed(r) ==
    /\ r.op = "resample" /\ r.dim = 3 /\ r.out.panic
    /\ LET v == Built(r.pts, 0, r.fc, r.dim) IN
       CASE r.mode = "count" -> CountMayFail(v, r.n)
         [] r.mode = "spacing" -> SpacingMayFail(v, r.n, FALSE)
         [] OTHER -> MaxSpacingMayFail(v, r.n)

Judge(r) ==
    /\ IF ResamplePanicAllowed(r) THEN TRUE ELSE Sane(i, r)
    /\ Ran(r) =>
        CASE r.op = "stations" -> JStations(r)
          [] r.op = "resample" -> JResample(r)
          [] r.op = "free" -> JFree(r) [] r.op = "simplify" -> JSimplify(r) [] r.op = "simplify_long" -> JSimplifyLong(r)
          [] r.op = "fill_gaps" -> JFill(r)
          [] r.op = "reset"    -> TRUE
          [] OTHER             -> Clause(i, "unknown-op", FALSE)

Stateless(r) == r.op \in {"stations", "free", "resample", "simplify", "simplify_long", "fill_gaps"}

Init == i = 1 /\ rv = <<>> /\ rc = FALSE /\ d = NoCurve /\ skip = FALSE /\ tolv = 0
Next ==
    /\ i <= Len(Rec)
    /\ i' = i + 1
    /\ LET r == Rec[i] IN
       IF r.op = "reset" THEN rv' = <<>> /\ rc' = FALSE /\ d' = NoCurve /\ skip' = FALSE /\ tolv' = 0
       ELSE IF Stateless(r) THEN Judge(r) /\ UNCHANGED <<rv, rc, d, skip, tolv>>
       ELSE IF skip THEN UNCHANGED <<rv, rc, d, skip, tolv>>
       ELSE IF ~Ran(r) THEN Sane(i, r) /\ skip' = TRUE /\ UNCHANGED <<rv, rc, d, tolv>>
       ELSE IF r.op = "root" THEN
            LET ok == JRoot(r) v == Built(r.pts, r.tolU, r.fc, 2) IN
            /\ skip' = ~ok /\ rv' = v /\ rc' = IsClosedV(v, r.tolU, 2) /\ d' = WholeRoot(v) /\ tolv' = r.tolU
       ELSE IF r.op \in HistOps THEN
            LET ok == JHist(r) nd == NextD(r) IN
            /\ skip' = ~ok /\ d' = (IF nd = NoCurve THEN d ELSE nd) /\ UNCHANGED <<rv, rc, tolv>>
       ELSE Clause(i, "unknown-op", FALSE) /\ UNCHANGED <<rv, rc, d, skip, tolv>>
Spec == Init /\ [][Next]_<<i, rv, rc, d, skip, tolv>>
Post == TLCGet("stats").diameter - 1 = Len(Rec)
=============================================================================
