----------------------------- MODULE Trace_Curve -----------------------------
(* Judge for the curve family (C01 stations; portions and resampling are     *)
(* added by the C04 / C05 operators of module Curve).                         *)
EXTENDS Curve, JudgeBase

VARIABLE i

QV(v) == [k \in 1..Len(v) |-> VScale(QP, v[k])]

JStations(r) ==
    LET o == r.out
        v == Built(r.pts, r.tolU, r.fc, r.dim) IN
    IF v = <<>> THEN Clause(i, "C01.construct.must_fail", ~o.ok)
    ELSE
    /\ Clause(i, "C01.construct.ok", o.ok)
    /\ o.ok =>
       LET closed == IsClosedV(v, r.tolU, r.dim)
           c == Cum(v)
           shape == /\ Len(o.verts) = Len(v) /\ Len(o.lens) = Len(v) /\ Len(o.it) = Len(v)
                    /\ Len(o.q) = Len(r.ls) /\ Len(o.qf) = Len(r.fs) IN
       /\ Clause(i, "C01.finite", o.finite)
       /\ Clause(i, "C01.shape", shape /\ o.n = Len(v))
       /\ shape =>
          /\ Clause(i, "C01.vertices", o.verts = QV(v))
          /\ Clause(i, "C01.closed", o.closed = closed)
          /\ Clause(i, "C01.lengths", /\ o.lens[1] = 0
                                      /\ \A k \in 1..Len(v) : Near(o.lens[k], QP * c[k], 2)
                                      /\ Near(o.len, QP * c[Len(v)], 2))
          /\ Clause(i, "C01.at_length", \A j \in 1..Len(r.ls) :
                  StationAllowed(v, closed, r.dim, r.ls[j][1], r.ls[j][2], o.q[j]))
          /\ Clause(i, "C01.at_fraction", \A j \in 1..Len(r.fs) :
                  StationAllowedByFraction(v, closed, r.dim, r.fs[j], o.qf[j]))
          /\ Clause(i, "C01.iter", \A k \in 1..Len(v) : StationAllowed(v, closed, r.dim, 2 * c[k], 0, o.it[k]))
          /\ Clause(i, "C01.front_back", /\ StationAllowed(v, closed, r.dim, 0, 0, o.front)
                                         /\ StationAllowed(v, closed, r.dim, 2 * c[Len(v)], 0, o.back))

Judge(r) ==
    /\ Sane(i, r)
    /\ Ran(r) =>
        CASE r.op = "stations" -> JStations(r)
          [] r.op = "reset"    -> TRUE
          [] OTHER             -> Clause(i, "unknown-op", FALSE)

Init == i = 1
Next == i <= Len(Rec) /\ Judge(Rec[i]) /\ i' = i + 1
Spec == Init /\ [][Next]_i
Post == TLCGet("stats").diameter - 1 = Len(Rec)
=============================================================================
