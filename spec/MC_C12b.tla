------------------------------ MODULE MC_C12b ------------------------------
(* C12, second instance: index-pair lists, voxel sets and primitive sizes.   *)
EXTENDS MeshTopo, TLC, Json, SequencesExt
CONSTANTS NL, MaxP, NBX, NBY, NBZ, MaxSteps
VARIABLE case
Labels == 0..(NL - 1)
PairSet == {p \in Labels \X Labels : p[1] # p[2]}
PairLists == UNION {[1..n -> PairSet] : n \in 1..MaxP}
Cells == {<<x, y, z>> : x \in 0..(NBX - 1), y \in 0..(NBY - 1), z \in 0..(NBZ - 1)}
Ord(c) == c[1] * 100 + c[2] * 10 + c[3]
Cases ==
    {[m |-> "topo", op |-> "chain", pairs |-> ps] : ps \in PairLists} \cup
    {[m |-> "topo", op |-> "voxels", reps |-> 4, cells |-> SetToSortSeq(S, LAMBDA a, b : Ord(a) < Ord(b))] : S \in (SUBSET Cells) \ {{}}} \cup
    {[m |-> "topo", op |-> "prim", kind |-> "box", a |-> a, b |-> b, c |-> c] : a \in 1..3, b \in 1..3, c \in 1..3} \cup
    {[m |-> "topo", op |-> "prim", kind |-> "cyl", a |-> a, b |-> b, c |-> c] : a \in 1..2, b \in 1..3, c \in 3..MaxSteps}
Init == case \in Cases
Next == UNCHANGED case
Spec == Init /\ [][Next]_case
Emit == PrintT(<<"CASE", ToJson(case)>>)
\* laws: the classes partition their universe
\* the transcription of chained_indices uses every pair exactly once in contiguous chains, and yields the maximal
\* paths whenever no label starts or ends more than one pair
ChainAlgCorrect == case.op = "chain" =>
    LET ch == ChainAlg(case.pairs) IN ChainsOK(case.pairs, ch) /\ (Simple(case.pairs) => ChainsMaximal(ch))
Laws == case.op = "voxels" =>
    LET S == {case.cells[j] : j \in 1..Len(case.cells)} IN
    /\ UNION VoxelClasses(S) = S
    /\ \A A, B \in VoxelClasses(S) : A = B \/ A \cap B = {}
=============================================================================
