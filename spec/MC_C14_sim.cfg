CONSTANTS
  MaxDepth = 4
  Sim = TRUE
  Level = 2
  MeshNames = {"fold2", "fan4", "strip6", "box12"}
SPECIFICATION Spec
INVARIANT Emit Laws
CHECK_DEADLOCK FALSE
