------------------------------- MODULE MC_C13 -------------------------------
(* Bounded instance for C13: watertight lattice solids (box, tetrahedron,     *)
(* octagonal prism, L-shaped prism, two boxes), open meshes (quad, tube)      *)
(* x planes with integer normal and an offset that misses every vertex by at   *)
(* least 1/8 x exact rigid motions of mesh and plane together.  Laws checked   *)
(* on the specification: for watertight, consistently wound input the face     *)
(* segments form closed cycles, and the transcription of chained_indices       *)
(* (MeshTopo!ChainAlg) applied to them returns exactly closed chains that      *)
(* satisfy the L1 of the section (SectionOK on exact crossing points).         *)
EXTENDS Section, TLC, Json, SequencesExt
CONSTANTS NPlanes, NMotions

VARIABLE case
V3(x, y, z) == <<x, y, z>>
BoxV == <<V3(0,0,0), V3(2,0,0), V3(0,0,2), V3(2,0,2), V3(0,2,0), V3(2,2,0), V3(0,2,2), V3(2,2,2)>>
BoxF == << <<4,7,5>>, <<4,6,7>>, <<0,2,4>>, <<2,6,4>>, <<0,1,2>>, <<1,3,2>>, <<1,5,7>>, <<1,7,3>>, <<2,3,7>>, <<2,7,6>>, <<0,4,1>>, <<1,4,5>> >>
ShiftV(vs, t) == [k \in 1..Len(vs) |-> VAdd(vs[k], t)]
ShiftF(fs, o) == [k \in 1..Len(fs) |-> <<fs[k][1] + o, fs[k][2] + o, fs[k][3] + o>>]
\* prism over a counter-clockwise lattice polygon (fan-triangulable from its first vertex), z from z0 to z1
PrismV(poly, z0, z1) == [k \in 1..(2 * Len(poly)) |-> IF k <= Len(poly) THEN V3(poly[k][1], poly[k][2], z0)
                                                        ELSE V3(poly[k - Len(poly)][1], poly[k - Len(poly)][2], z1)]
PrismSides(m) == LET q(i) == LET j == (i + 1) % m IN << <<i, j, m + j>>, <<i, m + j, m + i>> >> IN
    LET RECURSIVE S(_) S(i) == IF i = m THEN <<>> ELSE q(i) \o S(i + 1) IN S(0)
PrismCaps(m) == LET RECURSIVE C(_) C(i) == IF i > m - 2 THEN <<>> ELSE << <<0, i + 1, i>>, <<m, m + i, m + i + 1>> >> \o C(i + 1) IN C(1)
Oct == << <<2,1>>, <<1,2>>, <<-1,2>>, <<-2,1>>, <<-2,-1>>, <<-1,-2>>, <<1,-2>>, <<2,-1>> >>
Ell == << <<0,0>>, <<4,0>>, <<4,2>>, <<2,2>>, <<2,4>>, <<0,4>> >>
Meshes == {
    [name |-> "box", vpos |-> BoxV, faces |-> BoxF, convex |-> TRUE],
    [name |-> "tetra", vpos |-> <<V3(0,0,0), V3(3,0,0), V3(0,3,0), V3(0,0,3)>>, faces |-> << <<0,2,1>>, <<0,1,3>>, <<1,2,3>>, <<0,3,2>> >>, convex |-> TRUE],
    [name |-> "octprism", vpos |-> PrismV(Oct, 0, 3), faces |-> PrismSides(8) \o PrismCaps(8), convex |-> TRUE],
    [name |-> "lprism", vpos |-> PrismV(Ell, 0, 2), faces |-> PrismSides(6) \o PrismCaps(6), convex |-> FALSE],
    [name |-> "twoboxes", vpos |-> BoxV \o ShiftV(BoxV, V3(3, 1, 0)), faces |-> BoxF \o ShiftF(BoxF, 8), convex |-> FALSE] }
\* a flat box: a plane 1/8 from its top or bottom crosses the side diagonals 1/2 away from the corners, so a curve
\* tolerance of 3/16 separates "distance of the plane to the nearest vertices" from "spacing of the crossing points"
FlatBox == [name |-> "flatbox", vpos |-> [k \in 1..8 |-> V3(2 * BoxV[k][1], 2 * BoxV[k][2], BoxV[k][3] \div 2)], faces |-> BoxF, convex |-> TRUE]
OpenMeshes == {
    [name |-> "quad", vpos |-> <<V3(0,0,0), V3(2,0,0), V3(2,2,0), V3(0,2,0)>>, faces |-> << <<0,1,2>>, <<0,2,3>> >>, convex |-> FALSE],
    [name |-> "tube", vpos |-> PrismV(Oct, 0, 3), faces |-> PrismSides(8), convex |-> FALSE] }

Normals == << V3(0,0,1), V3(1,0,0), V3(1,1,0), V3(1,2,3), V3(2,-1,2), V3(0,3,4), V3(1,1,1) >>
DD == 8
\* offsets (numerators over DD): odd numbers, so that DD*(n.v) - dn is never zero
Proj(vs, n) == {DD * VDot(n, vs[k]) : k \in 1..Len(vs)}
MinOf(S) == CHOOSE m \in S : \A x \in S : m <= x
MaxOf(S) == CHOOSE m \in S : \A x \in S : m >= x
Offsets(vs, n) == LET lo == MinOf(Proj(vs, n)) hi == MaxOf(Proj(vs, n)) mid == ((lo + hi) \div 2) IN
    {lo + 3, IF mid % 2 = 0 THEN mid + 1 ELSE mid, hi - 5, hi + 5, lo - 3}

Pyth == << <<1,0,1>>, <<3,4,5>>, <<-4,3,5>>, <<0,1,1>> >>
Motions == << [M |-> Ident, H |-> 1, t |-> V3(0,0,0)],
              [M |-> RzH(3,4,5), H |-> 5, t |-> V3(3,-2,5)],
              [M |-> MMul(Rx(-4,3,5), RzH(0,1,1)), H |-> 5, t |-> V3(-10,20,7)],
              [M |-> MMul(RzH(4,3,5), Ry(3,4,5)), H |-> 25, t |-> V3(1,1,1)] >>

Mk(op, ms, n, dn, T) == [m |-> "section", op |-> op, wd |-> 4000, name |-> ms.name, vpos |-> ms.vpos, faces |-> ms.faces,
                         convex |-> ms.convex, n |-> n, dn |-> dn, dd |-> DD, T |-> T]
Cases ==
    UNION {{Mk(op, ms, Normals[j], dn, Motions[t]) : dn \in Offsets(ms.vpos, Normals[j]), op \in {"section", "split"}}
           : ms \in Meshes, j \in 1..NPlanes, t \in 1..NMotions} \cup
    UNION {{Mk("section", ms, Normals[j], dn, Motions[1]) : dn \in Offsets(ms.vpos, Normals[j])} : ms \in OpenMeshes, j \in {1, 2, 4}} \cup
    \* an explicit curve tolerance larger than the plane's distance to the nearest vertices (1/8) must not move the section
    {[Mk("section", FlatBox, Normals[1], dn, Motions[t]) EXCEPT !.name = "flatbox_tol"] @@ [stol16 |-> 3]
        : dn \in {MinOf(Proj(FlatBox.vpos, Normals[1])) + 1, MaxOf(Proj(FlatBox.vpos, Normals[1])) - 1}, t \in 1..2}

\* the same scenes scaled by 2^-10: the plane passes within 4e-4 of vertices and the crossing points around such a vertex
\* are about 5e-4 apart - still far above the default curve tolerance of 1e-6, so nothing may be merged or dropped
SmallCases ==
    UNION {{Mk(op, ms, Normals[j], dn, Motions[t]) @@ [sc |-> -10] : dn \in Offsets(ms.vpos, Normals[j]), op \in {"section", "split"}}
           : ms \in {m \in Meshes : m.name \in {"box", "tetra"}}, j \in {1, 4, 7}, t \in 1..2}

\* watertight meshes built with the solid flag (1) and convex hulls of convex meshes (2): a split may not add or lose surface
SolidCases ==
    UNION {{Mk("split", ms, Normals[j], dn, Motions[t]) @@ [solid |-> k] : dn \in Offsets(ms.vpos, Normals[j]), k \in {1, 2}}
           : ms \in {m \in Meshes : m.name \in {"box", "tetra"}}, j \in {1, 4}, t \in 1..2} \cup
    UNION {{Mk(op, ms, Normals[j], dn, Motions[1]) @@ [solid |-> 1] : dn \in Offsets(ms.vpos, Normals[j]), op \in {"section", "split"}}
           : ms \in {m \in Meshes : m.name \in {"lprism", "twoboxes"}}, j \in {2, 4}}

\* planes whose normal is exactly a NEGATIVE coordinate axis (sides swap with respect to the positive axis), and sections whose
\* curves are moved afterwards instead of moving mesh and plane first (side = 1)
NegAxis == << V3(0,0,-1), V3(-1,0,0), V3(0,-1,0) >>
MoreCases ==
    UNION {{Mk(op, ms, NegAxis[j], dn, Motions[t]) : dn \in Offsets(ms.vpos, NegAxis[j]), op \in {"section", "split"}}
           : ms \in {m \in Meshes : m.name \in {"box", "tetra", "lprism"}}, j \in 1..3, t \in {1, 3}} \cup
    UNION {{Mk("section", ms, Normals[j], dn, Motions[t]) @@ [side |-> 1] : dn \in Offsets(ms.vpos, Normals[j])}
           : ms \in {m \in Meshes : m.name \in {"box", "tetra"}}, j \in {1, 4, 5}, t \in 2..4}

\* scenes far from the origin: after the motion everything is carried a further 2^20 lattice units away (at scale 2^-10: parts of
\* a few thousandths at coordinates of a thousand); with the default curve tolerance nothing may be merged, dropped or mis-measured
FarCases ==
    UNION {{Mk(op, ms, Normals[j], dn, Motions[t]) @@ [sc |-> k, far |-> V3(1048576, -524288, 262144)]
               : dn \in Offsets(ms.vpos, Normals[j]), op \in {"section", "split"}, k \in {0, -10}}
           : ms \in {m \in Meshes : m.name \in {"box", "tetra"}}, j \in {1, 4, 6}, t \in 1..2}
Init == case \in Cases \cup SmallCases \cup SolidCases \cup MoreCases \cup FarCases
Next == UNCHANGED case
Spec == Init /\ [][Next]_case
Emit == PrintT(<<"CASE", ToJson(case)>>)

\* ---- laws
fs == case.faces
vp == case.vpos
\* no vertex on the plane
Misses == \A k \in 1..Len(vp) : Side(vp[k], case.n, case.dn, case.dd) # 0
\* a crossed face has exactly two crossed edges
TwoPerFace == \A k \in CrossedFaces(vp, fs, case.n, case.dn, case.dd) : Cardinality(FaceSeg(vp, fs[k], case.n, case.dn, case.dd)) = 2
\* oriented segment of a crossed face: from the edge traversed from the negative to the positive side to the other one
Pos(v) == Side(VPosOf(vp, v), case.n, case.dn, case.dd) > 0
OrientedSeg(f) == LET des == FaceDE(f)
                      up == CHOOSE j \in 1..3 : ~Pos(des[j][1]) /\ Pos(des[j][2])
                      dn == CHOOSE j \in 1..3 : Pos(des[j][1]) /\ ~Pos(des[j][2]) IN
                  << UE(des[up][1], des[up][2]), UE(des[dn][1], des[dn][2]) >>
EdgeIds == SetToSeq(CrossedEdges(vp, fs, case.n, case.dn, case.dd))
IdOf(e) == CHOOSE j \in 1..Len(EdgeIds) : EdgeIds[j] = e
SegPairs == LET cf == SetToSortSeq(CrossedFaces(vp, fs, case.n, case.dn, case.dd), LAMBDA a, b : a < b) IN
            [j \in 1..Len(cf) |-> LET s == OrientedSeg(fs[cf[j]]) IN <<IdOf(s[1]), IdOf(s[2])>>]
\* for watertight consistently wound input: chaining the face segments gives closed chains only, all segments used once
ChainGivesLoops ==
    (Manifold(fs) /\ Watertight(fs) /\ Consistent(fs) /\ Len(SegPairs) > 0) =>
        LET ch == ChainAlg(SegPairs) IN
        /\ ChainsOK(SegPairs, ch)
        /\ \A a \in 1..Len(ch) : ch[a][1] = ch[a][Len(ch[a])]
Laws == Misses /\ TwoPerFace /\ ChainGivesLoops
=============================================================================
