---------------------------- MODULE MC_StationNav ----------------------------
(* A walker that applies next / previous in any order: every run of next-only  *)
(* (previous-only) steps ends at None within n steps, positions stay in range, *)
(* and next / previous are inverse on vertices.                                *)
EXTENDS StationNav, TLC
CONSTANT MaxN
VARIABLES n, p, steps
Init == n \in 2..MaxN /\ p \in 0..Last(n) /\ steps = 0
StepNext == p # -1 /\ p' = NextOf(n, p) /\ steps' = steps + 1 /\ UNCHANGED n
Spec == Init /\ [][StepNext]_<<n, p, steps>> /\ WF_<<n, p, steps>>(StepNext)
InRange == p = -1 \/ (p >= 0 /\ p <= Last(n))
Bounded == steps <= n
Inverse == \A q \in 0..Last(n) : IsVertex(q) =>
              /\ (NextOf(n, q) # -1 => Previous(n, NextOf(n, q)) = q)
              /\ (Previous(n, q) # -1 => NextOf(n, Previous(n, q)) = q)
              /\ AtIndex(n, q) = q
Terminates == <>(p = -1)
=============================================================================
