CONSTANTS
  Margin = 3
  Step = 3
  MaxCurveV = 6
SPECIFICATION Spec
INVARIANT Emit Laws
CHECK_DEADLOCK FALSE
