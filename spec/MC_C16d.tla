------------------------------- MODULE MC_C16d -------------------------------
(* History machine for SurfaceDeviationSet (C16).  A behaviour is             *)
(*   default | new(vector of 0..MaxNew values),  then Pushes pushes.          *)
(* The L2 state (values + cached max/min indices, transcribing new/push of    *)
(* surface_deviation.rs) is advanced action by action; the invariant          *)
(* AlgCorrect says that after EVERY prefix of EVERY history what the cached   *)
(* indices report is allowed by the declarative L1 extremes (true maximum /   *)
(* minimum, which of several equal ones being free).  Complete behaviours     *)
(* are emitted and replayed into the real library.                            *)
EXTENDS Metrology, TLC, Json
CONSTANTS Vals, MaxNew, Pushes, Scale

VARIABLES s, hist, phase
vars == <<s, hist, phase>>

ValsQuick == -2..2
Rec(op) == [m |-> "metro", op |-> op, sc |-> Scale]
Init == /\ phase = "run"
        /\ \/ s = AlgDefault /\ hist = <<Rec("ddefault")>>
           \/ \E n \in 0..MaxNew : \E vs \in [1..n -> Vals] :
                 s = AlgNew(vs) /\ hist = <<Rec("dnew") @@ [vs |-> vs]>>
Push == /\ phase = "run" /\ Len(hist) <= Pushes
        /\ \E x \in Vals : /\ s' = AlgPush(s, x)
                           /\ hist' = Append(hist, Rec("dpush") @@ [x |-> x, pn |-> (Len(hist) % 2 = 0)])
        /\ UNCHANGED phase
Stop == /\ phase = "run" /\ Len(hist) = Pushes + 1 /\ phase' = "done" /\ UNCHANGED <<s, hist>>
Next == Push \/ Stop
Spec == Init /\ [][Next]_vars

Emit == phase = "done" => PrintT(<<"CASE", ToJson(hist)>>)
\* L2 refines L1 in every reachable state
AlgCorrect == AlgRefines(s)
\* the cached indices are always positions of held values
AlgIndicesValid == s.maxi \in 0..Len(s.vals) /\ s.mini \in 0..Len(s.vals)
\* zone is symmetric: never smaller than either extreme's magnitude, zero only when everything is zero
ZoneLaw == LET z == DevZone(s.vals) IN
           /\ z >= 0
           /\ \A k \in 1..Len(s.vals) : 2 * AbsC(s.vals[k]) <= z
           /\ (Len(s.vals) > 0 => \E k \in 1..Len(s.vals) : 2 * AbsC(s.vals[k]) = z)
=============================================================================
