CONSTANTS
  WCC = 8
  WCCS = 5
  WTan = 9
  WSeg = 8
  WLine = 5
  WCurve = 3
  RMax = 5
  Scales <- ScalesThorough
  PRad <- PRadThorough
SPECIFICATION Spec
INVARIANT Emit Laws
CHECK_DEADLOCK FALSE
