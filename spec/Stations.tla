------------------------------ MODULE Stations ------------------------------
(* C10, L2: the station container of the airfoil analysis (OrientedCircles:   *)
(* a vector of inscribed circles with a `reversed` flag that selects the      *)
(* working end) and the refinement loop refine_stations, over an abstract     *)
(* integer camber coordinate.  A station is its camber coordinate; the        *)
(* interpolation error between two stations exceeds the tolerance exactly     *)
(* when they are more than Gap apart; creating the symmetric spanning ray     *)
(* between two stations may fail (then the station is silently dropped - the  *)
(* code has no else branch there), which is modelled as an explicit action.   *)
EXTENDS Integers, Sequences, FiniteSets
CONSTANTS MaxCoord,     \* camber coordinates 0..MaxCoord
          Gap,          \* stations farther apart than this need a mid station
          MayFail,      \* TRUE: the symmetric spanning ray may fail to exist
          Guarded       \* TRUE: the retry guard of the repaired code (accept `next` when the same (next,last) pair comes up again)

VARIABLES circles,      \* stored order (Vec)
          reversed,     \* flag: working end is the front (TRUE) or the back (FALSE)
          stack,        \* refine stack (top = last element)
          dropped,      \* stations dropped because no spanning ray existed
          pushed,       \* every station ever handed to push, in order
          guard,        \* the (next, last) pair for which a mid station was most recently requested, or <<>>
          fails,        \* the (next, last) pairs whose symmetric spanning ray cannot be created (a fixed property of the section)
          pc
vars == <<circles, reversed, stack, dropped, pushed, guard, fails, pc>>
Pairs == {p \in (0..MaxCoord) \X (0..MaxCoord) : p[1] > p[2]}

Last == IF circles = <<>> THEN -1 ELSE IF reversed THEN circles[1] ELSE circles[Len(circles)]
PushTo(c) == IF reversed THEN <<c>> \o circles ELSE Append(circles, c)

\* the analysis walks away from the seed: new stations lie beyond the working end
Init == /\ fails \in (IF MayFail THEN {S \in SUBSET Pairs : Cardinality(S) <= 2} ELSE {{}})
        /\ reversed \in BOOLEAN /\ circles = <<>> /\ stack = <<>> /\ dropped = {} /\ pushed = <<>> /\ guard = <<>> /\ pc = "idle"

\* the caller found a new inscribed circle beyond the working end and asks for refinement
Offer == /\ pc = "idle"
         /\ \E c \in 0..MaxCoord : (circles = <<>> \/ c > Last) /\ stack' = <<c>>
         /\ guard' = <<>>                       \* the guard is local to one call of refine_stations
         /\ pc' = "refine" /\ UNCHANGED <<circles, reversed, dropped, pushed, fails>>

\* one iteration of `while let Some(next) = stack.pop()`
Refine ==
    /\ pc = "refine" /\ stack # <<>>
    /\ LET next == stack[Len(stack)] rest == SubSeq(stack, 1, Len(stack) - 1) IN
       IF circles = <<>> THEN
            /\ circles' = PushTo(next) /\ pushed' = Append(pushed, next) /\ stack' = rest /\ UNCHANGED <<dropped, guard>>
       ELSE IF <<next, Last>> \notin fails THEN
               \* the symmetric spanning ray exists
               IF next - Last > Gap /\ ~(Guarded /\ guard = <<next, Last>>)
               THEN \* out of tolerance: put next back, then the mid station on top of it
                    /\ stack' = rest \o <<next, (next + Last) \div 2>> /\ guard' = <<next, Last>> /\ UNCHANGED <<circles, dropped, pushed>>
               ELSE /\ circles' = PushTo(next) /\ pushed' = Append(pushed, next) /\ stack' = rest /\ UNCHANGED <<dropped, guard>>
       ELSE    \* no spanning ray: the station is dropped without a trace
               /\ stack' = rest /\ dropped' = dropped \cup {next} /\ UNCHANGED <<circles, pushed, guard>>
    /\ UNCHANGED <<reversed, pc, fails>>
Finish == /\ pc = "refine" /\ stack = <<>> /\ pc' = "idle" /\ UNCHANGED <<circles, reversed, stack, dropped, pushed, guard, fails>>

Next == Offer \/ Refine \/ Finish
Spec == Init /\ [][Next]_vars /\ WF_vars(Refine \/ Finish)

\* ---- invariants
\* seen from the working end backwards the camber coordinate decreases: stored order is monotone
FromWorkingEnd == IF reversed THEN circles ELSE [k \in 1..Len(circles) |-> circles[Len(circles) + 1 - k]]
Monotone == \A k \in 1..(Len(circles) - 1) : FromWorkingEnd[k] > FromWorkingEnd[k + 1]
\* the working end is the end selected by the flag: it holds the station pushed last
WorkingEndIsLatest == pushed # <<>> => Last = pushed[Len(pushed)]
\* nothing that was pushed is ever lost or duplicated
NothingLost == {circles[k] : k \in 1..Len(circles)} = {pushed[k] : k \in 1..Len(pushed)} /\ Len(circles) = Len(pushed)
\* consecutive stored stations respect the tolerance unless a station was dropped
WithinGap == (dropped = {} /\ ~MayFail) => \A k \in 1..(Len(circles) - 1) : FromWorkingEnd[k] - FromWorkingEnd[k + 1] <= Gap
\* the refine stack stays small: every mid station halves the distance
StackBounded == Len(stack) <= MaxCoord + 2
\* termination of the refinement
Terminates == [](pc = "refine" => <>(pc = "idle"))
=============================================================================
