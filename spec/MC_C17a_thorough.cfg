CONSTANTS
  Starts <- StartsT
  Gaps <- GapsT
  MaxLen = 3
  YS <- YST
  Variant = "fixed"
SPECIFICATION Spec
INVARIANT StepInv Refines FailsOnlyWhereAllowed
PROPERTY Terminates
CHECK_DEADLOCK FALSE
