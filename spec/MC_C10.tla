------------------------------- MODULE MC_C10 -------------------------------
(* Configuration space of the C10 cases: chord x camber height x thickness x    *)
(* edge radii x sampling density x CamberOrient x EdgeLocate (leading) x         *)
(* EdgeLocate (trailing) x FaceOrient, closed and open sections.  The geometry   *)
(* of each section (envelope of circles along a parabolic camber with a known    *)
(* radius law) is a pure function of the configuration and is expanded by        *)
(* bin/plans/C10.py::expand_c10; each case analyses four variants of the same    *)
(* section (as is, rigidly moved, reversed vertex order, rotated start vertex).  *)
EXTENDS Integers, Sequences, FiniteSets, TLC, Json
CONSTANTS Chords, Cambers, AllPairs
VARIABLE case
Closed == {"fit", "trace", "converge", "const", "intersect", "ransac"}
OpenM == {"open", "opengap"}
Pairs == IF AllPairs THEN Closed \X Closed
         ELSE {p \in Closed \X Closed : p[1] = p[2]} \cup {<<"fit", "trace">>, <<"intersect", "const">>, <<"ransac", "converge">>, <<"trace", "intersect">>, <<"const", "fit">>, <<"converge", "ransac">>}
Cases ==
    {[m |-> "airfoil", op |-> "config", chord |-> c, camber |-> h, thick |-> 6 + ((c + h) % 3), le |-> p[1], te |-> p[2],
      orient |-> IF (c + h) % 2 = 0 THEN "tmax" ELSE "dir", face |-> IF h = 0 \/ (c % 2 = 0) THEN "upper" ELSE "detect",
      nside |-> 160 + 40 * ((c + 2 * h) % 4), open |-> FALSE] : c \in Chords, h \in Cambers, p \in Pairs} \cup
    {[m |-> "airfoil", op |-> "config", chord |-> c, camber |-> h, thick |-> 6, le |-> l, te |-> t,
      orient |-> "tmax", face |-> "upper", nside |-> 200, open |-> TRUE] : c \in Chords, h \in Cambers, l \in {"fit", "intersect", "trace"}, t \in OpenM} \cup
    \* thin nose / thick tail: station spacing is far from uniform, the orientation must still follow the arc length
    {[m |-> "airfoil", op |-> "config", chord |-> c, camber |-> h, thick |-> 6, le |-> p[1], te |-> p[2],
      orient |-> "tmax", face |-> "upper", nside |-> 240, open |-> FALSE, prof |-> 1] : c \in Chords, h \in Cambers, p \in {<<"intersect", "intersect">>, <<"fit", "const">>}} \cup
    \* symmetric sections (straight camber) with the tangent-convergence method at either end
    {[m |-> "airfoil", op |-> "config", chord |-> c, camber |-> 0, thick |-> 7, le |-> p[1], te |-> p[2],
      orient |-> "dir", face |-> "upper", nside |-> 200, open |-> FALSE] : c \in Chords, p \in {<<"converge", "intersect">>, <<"intersect", "converge">>}} \cup
    \* sections open at the leading edge
    {[m |-> "airfoil", op |-> "config", chord |-> c, camber |-> h, thick |-> 6, le |-> l, te |-> t,
      orient |-> "dir", face |-> "upper", nside |-> 200, open |-> TRUE, front |-> TRUE] : c \in Chords, h \in Cambers, t \in {"fit", "intersect"}, l \in OpenM} \cup
    \* DirectionFwd with a requested direction 79 degrees off the chord (to either side) on the most cambered sections
    {[m |-> "airfoil", op |-> "config", chord |-> c, camber |-> 8, thick |-> 6, le |-> "intersect", te |-> "fit",
      orient |-> "dir", face |-> "upper", nside |-> 200, open |-> FALSE, od |-> k] : c \in Chords, k \in {1, 2}} \cup
    \* sections of the opposite hand (mirror images: the camber line bows to the right of its leading-to-trailing chord, the polygon
    \* is wound the other way); a detected upper side is then the mirrored one
    {[m |-> "airfoil", op |-> "config", chord |-> c, camber |-> h, thick |-> 6, le |-> "intersect", te |-> "fit",
      orient |-> IF f = "detect" THEN "tmax" ELSE "dir", face |-> f, nside |-> 200, open |-> FALSE, mirror |-> 1] : c \in Chords, h \in Cambers \ {0}, f \in {"detect", "upper"}} \cup
    \* a coarse analysis tolerance (2e-3 chord, above the nose radius of the thin-nose profile): the search must still terminate
    {[m |-> "airfoil", op |-> "config", chord |-> c, camber |-> h, thick |-> 6, le |-> "intersect", te |-> "intersect",
      orient |-> "tmax", face |-> "upper", nside |-> 200, open |-> FALSE, prof |-> 1, tolq |-> 2000] : c \in Chords, h \in Cambers} \cup
    \* the moved variant 5e5 chords from the origin (fit-radius and intersect edges: their convergence tests must not depend on the place)
    {[m |-> "airfoil", op |-> "config", chord |-> c, camber |-> h, thick |-> 6, le |-> p[1], te |-> p[2],
      orient |-> "tmax", face |-> "upper", nside |-> 200, open |-> FALSE, farpose |-> 1] : c \in Chords, h \in Cambers, p \in {<<"fit", "intersect">>, <<"intersect", "fit">>}} \cup
    {[m |-> "airfoil", op |-> "livelock"]}
Init == case \in Cases
Next == UNCHANGED case
Spec == Init /\ [][Next]_case
Emit == PrintT(<<"CASE", ToJson(case)>>)
=============================================================================
