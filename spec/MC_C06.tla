------------------------------- MODULE MC_C06 -------------------------------
(* Bounded instance for C06: curated lattice polylines (5..16 edges: combs,   *)
(* spirals, rings, doubling back) x every lattice origin of a window around    *)
(* them x a set of lattice directions (axis-parallel, diagonal, Pythagorean,   *)
(* through vertices, along edges).  Laws: sortedness / dedup of the exact      *)
(* crossing table, the spanning-ray rule.                                      *)
EXTENDS RayCast, TLC, Json, SequencesExt
CONSTANTS Margin, Step
VARIABLE case
P(x, y) == <<x, y, 0>>
Lines == {
  <<P(0,0), P(4,0), P(4,3), P(0,3), P(0,0)>>,
  <<P(0,0), P(1,0), P(1,2), P(2,2), P(2,0), P(3,0), P(3,2), P(4,2), P(4,0), P(5,0)>>,
  <<P(0,0), P(5,0), P(5,4), P(1,4), P(1,1), P(4,1), P(4,3), P(2,3), P(2,2)>>,
  <<P(2,0), P(4,1), P(4,3), P(2,4), P(0,3), P(0,1), P(2,0)>>,
  <<P(0,2), P(1,0), P(2,2), P(3,0), P(4,2), P(5,0), P(6,2)>>,
  <<P(0,0), P(4,0), P(2,0), P(2,3), P(2,1), P(5,1)>>,
  <<P(0,0), P(3,4), P(6,0), P(3,1), P(0,0)>>,
  <<P(1,1), P(3,1), P(3,3), P(1,3), P(1,1), P(0,0), P(4,0), P(4,4), P(0,4), P(0,0)>> }
Dirs == << <<1,0,0>>, <<0,1,0>>, <<-1,0,0>>, <<0,-2,0>>, <<1,1,0>>, <<1,-1,0>>, <<2,1,0>>, <<-1,2,0>>, <<3,4,0>>, <<-4,3,0>>, <<1,3,0>>, <<-3,-1,0>>,
          \* nearly parallel to axis-parallel and diagonal edges
          <<12,1,0>>, <<-1,10,0>>, <<7,6,0>> >>
Lo(s, a) == CHOOSE m \in {s[k][a] : k \in 1..Len(s)} : \A k \in 1..Len(s) : m <= s[k][a]
Hi(s, a) == CHOOSE m \in {s[k][a] : k \in 1..Len(s)} : \A k \in 1..Len(s) : m >= s[k][a]
Origins(s) == {<<x, y, 0>> : x \in (Lo(s, 1) - Margin)..(Hi(s, 1) + Margin), y \in (Lo(s, 2) - Margin)..(Hi(s, 2) + Margin)}
Thin(W) == {q \in W : (q[1] + 2 * q[2]) % Step = 0}
\* third variant (sc = -2): the same scene 2^23 lattice units from the origin (seven digits between position and feature size)
FarOff(sc) == IF sc = -2 THEN <<8388608, -4194304, 0>> ELSE <<0, 0, 0>>
Cases == UNION {{[m |-> "ray", op |-> "cast", pts |-> l, sc |-> sc, o |-> o, dirs |-> Dirs, nzd |-> (IF sc = 0 THEN 0 ELSE 1), off |-> FarOff(sc)] : o \in Thin(Origins(l)), sc \in {0, 3, -2}} : l \in Lines}
Init == case \in Cases
Next == UNCHANGED case
Spec == Init /\ [][Next]_case
Emit == PrintT(<<"CASE", ToJson(case)>>)
Laws == \A j \in 1..Len(case.dirs) :
    LET v == case.pts o == case.o d == case.dirs[j] R == Reps(v, o, d) IN
    /\ \A a, b \in R : a # b => ~FEq(EdgeT0(v, a, o, d), EdgeT0(v, b, o, d))                 \* representatives are distinct values
    /\ \A k \in HitEdges(v, o, d) : \E a \in R : FEq(EdgeT0(v, k, o, d), EdgeT0(v, a, o, d))   \* and cover every hit
    /\ R # {} => /\ \A a \in R : a = MinRep(v, o, d) \/ FLt(EdgeT0(v, MinRep(v, o, d), o, d), EdgeT0(v, a, o, d))
                 /\ \A a \in R : a = MaxRep(v, o, d) \/ FLt(EdgeT0(v, a, o, d), EdgeT0(v, MaxRep(v, o, d), o, d))
=============================================================================
