CONSTANTS
  NV = 4
  MaxF = 4
SPECIFICATION Spec
INVARIANT Emit PatchAlgCorrect Bounded LoopAlgCorrect
CHECK_DEADLOCK FALSE
