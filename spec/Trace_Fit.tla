----------------------------- MODULE Trace_Fit -----------------------------
(* Judge for C09: every observation recorded from the real library           *)
(* (Polynomial::least_squares, Line1, Series1::best_fit_line,                *)
(* Circle2::{from_3_points, fitting_circle, ransac}) must be allowed by the  *)
(* L1 semantics of module Fit.  Quanta (harness/src/fit.rs):                 *)
(*   coefficients 1e-6, relative orthogonality defect 1e-9, sums of squares  *)
(*   and polynomial values 1e-3, circle centre/radius 1e-4 lattice unit,     *)
(*   radial residual of a defining point 1e-6, gradient 1e-9, perimeter      *)
(*   distance 1e-4.                                                          *)
EXTENDS Fit, JudgeBase

VARIABLE i

QCm == 6             \* coefficients: 10^6
QC == 1000000
QS == 1000
QP == 10000
QT == 10000
TolC == 100          \* 1e-4 on a coefficient
TolO == 1000         \* 1e-6 relative orthogonality defect
TolF == 20           \* 2e-3 lattice unit on a fitted centre / radius
TolG == 10000        \* 1e-5 (per point and lattice unit) on the gradient of the summed squared radial residuals
TolR == 100          \* 1e-4 lattice unit: a defining point's distance from the perimeter

\* ---------------------------------------------------------------- polynomial least squares
FitShape(r, ft) == Len(ft.c) = r.K /\ Len(ft.orth) = r.K /\ Len(ft.f) = Len(r.xs)
JPoly(r) ==
    LET o == r.out n == Len(r.ys) IN
    /\ Clause(i, "C09.poly.shape", Len(o.fits) = n /\ Len(r.ws) = Len(r.xs) /\ \A j \in 1..n : Len(r.ys[j]) = Len(r.xs))
    /\ (Len(o.fits) = n /\ Len(r.ws) = Len(r.xs) /\ \A j \in 1..n : Len(r.ys[j]) = Len(r.xs)) =>
       /\ Clause(i, "C09.poly.fit_shape", \A j \in 1..n : FitShape(r, o.fits[j]))
       /\ (\A j \in 1..n : FitShape(r, o.fits[j])) =>
          /\ ClauseAll(i, "C09.poly.finite", 1..n, LAMBDA j : o.fits[j].finite)
          \* the residual vector is orthogonal to every monomial column (derived observation, any size)
          /\ ClauseAll(i, "C09.poly.orthogonal", 1..n, LAMBDA j : \A k \in 1..r.K : AbsV(o.fits[j].orth[k]) <= TolO)
          \* samples of an exact polynomial: the fit is that polynomial ...
          /\ (r.kind = "exact" /\ Len(r.cs) = n) =>
               /\ ClauseAll(i, "C09.poly.exact.recovers", 1..n,
                            LAMBDA j : \A k \in 1..r.K : Near(o.fits[j].c[k], r.cs[j][k] * QC, TolC))
               \* ... also as a function (Func1::f at the sample abscissae)
               /\ ClauseAll(i, "C09.poly.exact.interpolates", 1..n,
                            LAMBDA j : \A s \in 1..Len(r.xs) : Near(o.fits[j].f[s], r.ys[j][s] * QS, 20 + AbsV(r.ys[j][s])))
          \* arbitrary data, sizes 2 and 3: the coefficients are the exact solution of the normal equations
          /\ (r.ex >= 1 /\ r.K \in {2, 3} /\ WellPosed(r.K, r.xs, r.ws, r.w)) =>
               ClauseAll(i, "C09.poly.normal_equations", 1..n,
                         LAMBDA j : LET sol == Solve(r.K, r.xs, r.ws, r.w, r.ys[j]) IN
                                    sol[2] > 0 /\ \A k \in 1..r.K : Near(o.fits[j].c[k], QuantRat(sol[1][k], sol[2], QCm), TolC))
          \* ... and no coefficient vector has a smaller weighted sum of squares: the fit attains the exact minimum
          /\ (r.ex >= 2 /\ r.K \in {2, 3} /\ WellPosed(r.K, r.xs, r.ws, r.w)) =>
               ClauseAll(i, "C09.poly.minimal_sse", 1..n,
                         LAMBDA j : LET ms == MinSSE(r.K, r.xs, r.ws, r.w, r.ys[j]) IN
                                    ms[2] > 0 /\ Near(o.fits[j].sse, QuantRat(ms[1], ms[2], 3), 3))

\* ---------------------------------------------------------------- Series1::best_fit_line = degree-1 fit
JLine(r) ==
    LET o == r.out n == Len(r.ys) IN
    /\ Clause(i, "C09.line.shape", Len(o.res) = n /\ \A j \in 1..n : Len(r.ys[j]) = Len(r.xs))
    /\ (Len(o.res) = n /\ \A j \in 1..n : Len(r.ys[j]) = Len(r.xs)) =>
       /\ ClauseAll(i, "C09.line.finite", 1..n, LAMBDA j : o.res[j].finite)
       \* the series line is the least-squares line (exact solution of the 2x2 normal equations)
       /\ WellPosed(2, r.xs, <<>>, FALSE) =>
            /\ ClauseAll(i, "C09.line.series_optimal", 1..n,
                  LAMBDA j : LET sol == Solve2(r.xs, <<>>, FALSE, r.ys[j]) IN
                             /\ sol[2] > 0
                             /\ Near(o.res[j].s_c0, QuantRat(sol[1][1], sol[2], QCm), TolC)
                             /\ Near(o.res[j].s_c1, QuantRat(sol[1][2], sol[2], QCm), TolC))
            \* slope and intercept accessors of the returned line are the least-squares slope and intercept
            /\ ClauseAll(i, "C09.line.slope_intercept", 1..n,
                  LAMBDA j : LET sol == Solve2(r.xs, <<>>, FALSE, r.ys[j]) IN
                             /\ sol[2] > 0
                             /\ Near(o.res[j].s_b, QuantRat(sol[1][1], sol[2], QCm), TolC)
                             /\ Near(o.res[j].s_m, QuantRat(sol[1][2], sol[2], QCm), TolC)
                             /\ Near(o.res[j].p_b, QuantRat(sol[1][1], sol[2], QCm), TolC)
                             /\ Near(o.res[j].p_m, QuantRat(sol[1][2], sol[2], QCm), TolC))
       \* it agrees with the degree-1 polynomial fit
       /\ ClauseAll(i, "C09.line.agrees_with_degree1_fit", 1..n,
             LAMBDA j : Near(o.res[j].s_c0, o.res[j].p_c0, TolC) /\ Near(o.res[j].s_c1, o.res[j].p_c1, TolC))

\* ---------------------------------------------------------------- three-point circle
C3Ok(r, j) ==
    LET p0 == r.p0 p1 == <<r.prs[j][1], r.prs[j][2]>> p2 == <<r.prs[j][3], r.prs[j][4]>> IN
    IF Collinear(p0, p1, p2) THEN "collinear" ELSE "proper"
C3Centre(r, j) ==
    LET p0 == r.p0 p1 == <<r.prs[j][1], r.prs[j][2]>> p2 == <<r.prs[j][3], r.prs[j][4]>> x == r.out.res[j]
        cq == <<x.cx, x.cy>>
        tb(a, b) == 2 * (AbsV(b[1] - a[1]) + AbsV(b[2] - a[2])) + 4 IN
    /\ AbsV(BisectorDefect(cq, p0, p1, QP)) <= tb(p0, p1)
    /\ AbsV(BisectorDefect(cq, p0, p2, QP)) <= tb(p0, p2)
    /\ AbsV(BisectorDefect(cq, p1, p2, QP)) <= tb(p1, p2)
C3Radius(r, j) ==
    LET p0 == r.p0 p1 == <<r.prs[j][1], r.prs[j][2]>> p2 == <<r.prs[j][3], r.prs[j][4]>> x == r.out.res[j]
        r2 == CircumR2(p0, p1, p2)
        rc == x.r \div 100 IN                      \* radius in units of 1/100
    x.r > 0 /\ x.r < 4000000 /\ AbsV(rc * rc - QuantRat(r2[1], r2[2], 4)) <= 4 * rc + 8
Shallow(r) == "shallow" \in DOMAIN r /\ r.shallow
JThree(r) ==
    LET o == r.out n == Len(r.prs)
        proper == {j \in 1..n : C3Ok(r, j) = "proper"} IN
    /\ Clause(i, "C09.c3.shape", Len(o.res) = n /\ \A j \in 1..n : Len(o.res[j].on) = 3)
    /\ (Len(o.res) = n /\ \A j \in 1..n : Len(o.res[j].on) = 3) =>
       /\ ClauseAll(i, "C09.c3.rejects_collinear", (1..n) \ proper, LAMBDA j : ~o.res[j].ok)
       /\ ClauseAll(i, "C09.c3.accepts_noncollinear", proper, LAMBDA j : o.res[j].ok)
       \* shallow triples (turning angle below a milliradian, circumradius of millions of units): acceptance and incidence only
       /\ ~Shallow(r) =>
           /\ ClauseAll(i, "C09.c3.finite", proper, LAMBDA j : o.res[j].finite)
           /\ ClauseAll(i, "C09.c3.equidistant_centre", {j \in proper : o.res[j].ok /\ o.res[j].finite}, LAMBDA j : C3Centre(r, j))
           /\ ClauseAll(i, "C09.c3.radius", {j \in proper : o.res[j].ok /\ o.res[j].finite}, LAMBDA j : C3Radius(r, j))
       /\ ClauseAll(i, "C09.c3.through_points", {j \in proper : o.res[j].ok /\ (Shallow(r) \/ o.res[j].finite)},
                    LAMBDA j : \A k \in 1..3 : AbsV(o.res[j].on[k]) <= TolR)

\* ---------------------------------------------------------------- Levenberg-Marquardt circle fit
JCircleFit(r) ==
    LET o == r.out n == Len(r.gs)
        exact == ExactArc(r.pts, r.ctr, r.R)
        \* a guess with a fourth component takes the mean distance of the points from the guessed centre as its radius
        \* (the usual centroid + mean distance start): within R/3 of R whenever the centre is within R/3
        near == {j \in 1..n : exact /\ ((Len(r.gs[j]) = 3 /\ GuessNear(r.gs[j], r.ctr, r.R))
                                      \/ (Len(r.gs[j]) = 4 /\ GuessNear(<<r.gs[j][1], r.gs[j][2], r.R>>, r.ctr, r.R)))} IN
    /\ Clause(i, "C09.cfit.shape", Len(o.res) = n /\ \A j \in 1..n : Len(o.res[j].g) = 3)
    /\ (Len(o.res) = n /\ \A j \in 1..n : Len(o.res[j].g) = 3) =>
       /\ ClauseAll(i, "C09.cfit.finite", 1..n, LAMBDA j : o.res[j].finite)
       \* exact samples on an arc of at least 60 degrees, guess within R/3: centre and radius are recovered
       /\ ClauseAll(i, "C09.cfit.converges", near, LAMBDA j : o.res[j].ok)
       /\ ClauseAll(i, "C09.cfit.recovers", {j \in near : o.res[j].ok},
                    LAMBDA j : /\ Near(o.res[j].cx, r.ctr[1] * QP, TolF) /\ Near(o.res[j].cy, r.ctr[2] * QP, TolF)
                               /\ Near(o.res[j].r, r.R * QP, TolF))
       \* a fit started from its own result succeeds and returns the same circle (all points weighted)
       /\ r.sg2 = 0 =>
            \* (not where the data are nearly straight and the "circle" has run off to a radius of many times the generating one:
            \*  the optimum is flat there and any nearby answer is as good)
            ClauseAll(i, "C09.cfit.refit_from_result", {j \in 1..n : o.res[j].ok /\ o.res[j].finite /\ o.res[j].r < 20 * r.R * QP},
                      LAMBDA j : o.res[j].refit_ok /\ o.res[j].refit_same)
       \* otherwise (any data, all points weighted): a reported circle is a stationary point of sum (|p-c|-r)^2
       /\ r.sg2 = 0 =>
            ClauseAll(i, "C09.cfit.stationary", {j \in 1..n : o.res[j].ok /\ o.res[j].finite},
                      LAMBDA j : \A k \in 1..3 : AbsV(o.res[j].g[k]) <= TolG)

\* ---------------------------------------------------------------- seeded RANSAC
\* points that may be inliers of the reported circle: |distance to the perimeter| < tol, one quantum of slack
SupportUpper(dq, tn, td) == Cardinality({j \in 1..Len(dq) : AbsV(dq[j]) * td <= tn * QT + td})
JRansac(r) ==
    LET o == r.out
        on == OnCount(r.pts, r.ctr, r.R)
        \* a rival structure (another circle with one point less than the generating one) halves the share of the generating
        \* circle: still a fair search with the default or at least 300 iterations (each iteration hits it with probability 1/8)
        rivalFair == "rival" \in DOMAIN r /\ r.rival /\ on >= 3 /\ 5 * on >= 2 * Len(r.pts) /\ (r.iters = 0 \/ r.iters >= 300)
        fair == /\ (FairContamination(r.pts, r.ctr, r.R) \/ rivalFair)
                /\ r.tolN > 0 /\ r.tolD > 0 /\ r.tolN < r.R * r.tolD
                /\ (rivalFair \/ r.iters = 0 \/ r.iters >= 200 \/ (r.iters >= 50 /\ 5 * on >= 4 * Len(r.pts)))
                \* (both bounds are documented as inclusive; exactly representable radii only, which lattice radii times 2^k are)
                /\ (r.rmin < 0 \/ r.rmin <= r.R) /\ (r.rmax < 0 \/ r.rmax >= r.R) IN
    /\ fair => Clause(i, "C09.ransac.finds_a_circle", o.ok)
    /\ (fair /\ o.ok) =>
         /\ Clause(i, "C09.ransac.shape", Len(o.dq) = Len(r.pts))
         /\ Clause(i, "C09.ransac.finite", o.finite)
         /\ Len(o.dq) = Len(r.pts) =>
              Clause(i, "C09.ransac.support_at_least_generating",
                     SupportUpper(o.dq, r.tolN, r.tolD) >= Support(r.pts, r.ctr, r.R, r.tolN, r.tolD))

Judge(r) ==
    /\ Sane(i, r)
    /\ Ran(r) =>
        CASE r.op = "poly"   -> JPoly(r)
          [] r.op = "line"   -> JLine(r)
          [] r.op = "c3"     -> JThree(r)
          [] r.op = "cfit"   -> JCircleFit(r)
          [] r.op = "ransac" -> JRansac(r)
          [] r.op = "reset"  -> TRUE
          [] OTHER           -> Clause(i, "unknown-op", FALSE)

Init == i = 1
Next == i <= Len(Rec) /\ Judge(Rec[i]) /\ i' = i + 1
Spec == Init /\ [][Next]_i
Post == TLCGet("stats").diameter - 1 = Len(Rec)
=============================================================================
