------------------------------ MODULE Spatial ------------------------------
(* C15: spatial search, sampling and hulls against exhaustive computation.    *)
(* L1 semantics on the exact discrete domain: lattice points <<x,y,z>> (z = 0 *)
(* in 2D), query points and radii on the half lattice (all distances are      *)
(* compared as exact integers in "doubled" units: point p stands at 2p, a     *)
(* radius h means h/2 lattice units).  Every operator is a predicate on an    *)
(* observed result: what the property statement leaves open (ties between     *)
(* equidistant points, inclusion at exactly the radius, order of a radius     *)
(* query, collinear hull points, which of two equal diameters) is accepted.   *)
EXTENDS Integers, Sequences, FiniteSets

SAbs(x) == IF x < 0 THEN -x ELSE x
SSgn(x) == IF x < 0 THEN -1 ELSE IF x > 0 THEN 1 ELSE 0
SDbl(p) == <<2 * p[1], 2 * p[2], 2 * p[3]>>
SSub(a, b) == <<a[1] - b[1], a[2] - b[2], a[3] - b[3]>>
SDot(a, b) == a[1] * b[1] + a[2] * b[2] + a[3] * b[3]
SCross(a, b) == <<a[2] * b[3] - a[3] * b[2], a[3] * b[1] - a[1] * b[3], a[1] * b[2] - a[2] * b[1]>>
SN1(a) == SAbs(a[1]) + SAbs(a[2]) + SAbs(a[3])
SD2(a, b) == SDot(SSub(a, b), SSub(a, b))
SeqSetS(s) == {s[t] : t \in 1..Len(s)}
NoRepeat(s) == Cardinality(SeqSetS(s)) = Len(s)

\* ---------------------------------------------------------------- k-d tree queries
\* pts: lattice points; q: query in doubled units; a result is a sequence of <<index (0-based), dq>> with
\* dq = round(QD2 * squared doubled distance) as reported by the library
QD2 == 8
DistMatches(dq, d2) == SAbs(dq - QD2 * d2) <= 1
\* the set of (1-based) indices a tree answers about: everything, or the sub-list of a partial tree
Working(n, part, sub) == IF part THEN {sub[t] + 1 : t \in 1..Len(sub)} ELSE 1..n
\* squared doubled distances from q to every point
DistVec(pts, q) == [j \in 1..Len(pts) |-> SD2(q, SDbl(pts[j]))]
Ids(res) == [t \in 1..Len(res) |-> res[t][1] + 1]

\* every reported pair names a point of the working set together with its true distance
PairsHonest(d, W, res) == \A t \in 1..Len(res) : res[t][1] + 1 \in W /\ DistMatches(res[t][2], d[res[t][1] + 1])

\* nearest_one: a point of the working set that no other point of it beats
NearestOneOK(d, W, res) ==
    /\ Len(res) = 1 /\ PairsHonest(d, W, res)
    /\ \A j \in W : d[j] >= d[res[1][1] + 1]

RECURSIVE SeqMaxD(_, _, _, _)
SeqMaxD(d, ids, t, cur) == IF t > Len(ids) THEN cur ELSE SeqMaxD(d, ids, t + 1, IF d[ids[t]] > cur THEN d[ids[t]] ELSE cur)
\* nearest(k): min(k, |W|) distinct points, none of the points left out is strictly nearer than one returned
NearestKOK(d, W, k, res) ==
    /\ Len(res) = (IF k < Cardinality(W) THEN k ELSE Cardinality(W))
    /\ PairsHonest(d, W, res)
    /\ NoRepeat(Ids(res))
    /\ LET ids == Ids(res) S == SeqSetS(ids) m == SeqMaxD(d, ids, 1, 0) IN \A j \in W : j \in S \/ d[j] >= m
\* ... listed nearest first (by the reported distances)
Ascending(res) == \A t \in 1..(Len(res) - 1) : res[t][2] <= res[t + 1][2]

\* within(h/2): everything strictly inside, nothing strictly outside, the sphere itself is free; any order
WithinOK(d, W, h, res) ==
    /\ PairsHonest(d, W, res)
    /\ NoRepeat(Ids(res))
    /\ \A t \in 1..Len(res) : d[res[t][1] + 1] <= h * h
    /\ LET S == SeqSetS(Ids(res)) IN \A j \in W : d[j] < h * h => j \in S

\* ---------------------------------------------------------------- Poisson-disk selection
\* order: the working indices (0-based, distinct) in visiting order; res: kept indices (0-based)
PoissonOK(pts, order, h, res) ==
    LET K == {res[t] + 1 : t \in 1..Len(res)} O == {order[t] + 1 : t \in 1..Len(order)} IN
    /\ NoRepeat(res) /\ K \subseteq O                                                   \* a subset of the working indices
    /\ \A a \in K : \A b \in K : a = b \/ SD2(SDbl(pts[a]), SDbl(pts[b])) >= h * h       \* no two kept points within the radius
    /\ \A w \in O : \E k \in K : SD2(SDbl(pts[w]), SDbl(pts[k])) <= h * h                \* every working point within the radius of a kept one

\* L2 (one iteration of the sweep in poisson_disk.rs): position m of the order is visited; masked = positions
\* already ruled out; the radius query returns the open ball plus any subset B of the positions exactly at the radius
SweepHits(pts, order, h, m) == {t \in 1..Len(order) : SD2(SDbl(pts[order[t] + 1]), SDbl(pts[order[m] + 1])) < h * h}
SweepEdge(pts, order, h, m) == {t \in 1..Len(order) : SD2(SDbl(pts[order[t] + 1]), SDbl(pts[order[m] + 1])) = h * h}

\* ---------------------------------------------------------------- planar hulls
Cross2(a, b, c) == (b[1] - a[1]) * (c[2] - a[2]) - (b[2] - a[2]) * (c[1] - a[1])
NonCollinear(pts) == \E a, b, c \in 1..Len(pts) : Cross2(pts[a], pts[b], pts[c]) # 0
\* drop entries that repeat the coordinates of their cyclic predecessor
RECURSIVE Collapse(_, _, _)
Collapse(h, t, acc) ==
    IF t > Len(h) THEN (IF Len(acc) > 1 /\ acc[Len(acc)] = acc[1] THEN SubSeq(acc, 1, Len(acc) - 1) ELSE acc)
    ELSE IF acc # <<>> /\ acc[Len(acc)] = h[t] THEN Collapse(h, t + 1, acc) ELSE Collapse(h, t + 1, Append(acc, h[t]))
\* hull: 0-based indices.  Counter-clockwise around all points: every point is on or to the left of every hull edge,
\* no hull position is visited twice.  Points on the boundary that are not corners may be listed or not.
HullOK(pts, hull) ==
    /\ \A t \in 1..Len(hull) : hull[t] >= 0 /\ hull[t] < Len(pts)
    /\ NoRepeat(hull)
    /\ (\A t \in 1..Len(hull) : hull[t] >= 0 /\ hull[t] < Len(pts)) =>
        LET H == Collapse([t \in 1..Len(hull) |-> pts[hull[t] + 1]], 1, <<>>) m == Len(H) IN
        /\ m >= 3 /\ NoRepeat(H)
        /\ \A t \in 1..m : \A j \in 1..Len(pts) : Cross2(H[t], H[(t % m) + 1], pts[j]) >= 0
MaxPairD2(pts) == LET S == {SD2(pts[a], pts[b]) : a \in 1..Len(pts), b \in 1..Len(pts)} IN CHOOSE x \in S : \A y \in S : y <= x
\* farthest pair of the hull polygon: two input points at the diameter of the point set
FarthestOK(pts, pi, pj) ==
    /\ \E a \in 1..Len(pts) : pts[a][1] = pi[1] /\ pts[a][2] = pi[2]
    /\ \E b \in 1..Len(pts) : pts[b][1] = pj[1] /\ pts[b][2] = pj[2]
    /\ (pi[1] - pj[1]) * (pi[1] - pj[1]) + (pi[2] - pj[2]) * (pi[2] - pj[2]) = MaxPairD2(pts)
\* twice the signed area of the closed polygon through pts (shoelace)
RECURSIVE Shoelace(_, _, _)
Shoelace(v, t, acc) ==
    IF t > Len(v) THEN acc
    ELSE LET a == v[t] b == v[(t % Len(v)) + 1] IN Shoelace(v, t + 1, acc + a[1] * b[2] - a[2] * b[1])
Area2(v) == Shoelace(v, 1, 0)
\* simple polygon: edges meet only at shared end points
OnSeg(a, b, c) == /\ Cross2(a, b, c) = 0
                  /\ (IF a[1] < b[1] THEN a[1] ELSE b[1]) <= c[1] /\ c[1] <= (IF a[1] > b[1] THEN a[1] ELSE b[1])
                  /\ (IF a[2] < b[2] THEN a[2] ELSE b[2]) <= c[2] /\ c[2] <= (IF a[2] > b[2] THEN a[2] ELSE b[2])
SegMeet(a, b, c, d) ==
    \/ (SSgn(Cross2(a, b, c)) * SSgn(Cross2(a, b, d)) < 0 /\ SSgn(Cross2(c, d, a)) * SSgn(Cross2(c, d, b)) < 0)
    \/ OnSeg(a, b, c) \/ OnSeg(a, b, d) \/ OnSeg(c, d, a) \/ OnSeg(c, d, b)
SimplePolygon(v) ==
    LET n == Len(v) E(t) == <<v[t], v[(t % n) + 1]>> IN
    /\ n >= 3 /\ NoRepeat(v) /\ Area2(v) # 0
    /\ \A s \in 1..n : \A t \in (s + 1)..n :
          IF t = s + 1 THEN ~OnSeg(E(s)[1], E(s)[2], E(t)[2]) /\ ~OnSeg(E(t)[1], E(t)[2], E(s)[1])
          ELSE IF s = 1 /\ t = n THEN ~OnSeg(E(s)[1], E(s)[2], E(t)[1]) /\ ~OnSeg(E(t)[1], E(t)[2], E(s)[2])
          ELSE ~SegMeet(E(s)[1], E(s)[2], E(t)[1], E(t)[2])
\* order direction of a simple polygon: +1 counter-clockwise, -1 clockwise
OrderDir(v) == SSgn(Area2(v))
\* L2: the index-ascent vote of point_order_direction / Curve2::from_points_ccw on a given hull
RECURSIVE VoteSum(_, _, _)
VoteSum(hull, t, acc) ==
    IF t > Len(hull) THEN acc ELSE VoteSum(hull, t + 1, acc + SSgn(hull[(t % Len(hull)) + 1] - hull[t]))
VoteDir(hull) == IF VoteSum(hull, 1, 0) > 0 THEN 1 ELSE -1

\* ---------------------------------------------------------------- ball pivoting
QC == 1024              \* computed coordinates, per lattice unit
PD2(a, b) == (a[1] - b[1]) * (a[1] - b[1]) + (a[2] - b[2]) * (a[2] - b[2])
QPt(p) == <<QC * p[1], QC * p[2]>>
\* c (quantised) is the centre of a ball of radius rh/2 resting on a and b with no input point strictly inside
BallOK(pts, c, a, b, rh) ==
    LET R == (QC \div 2) * rh tol == 3 * R + 4 IN
    /\ SAbs(PD2(c, QPt(a)) - R * R) <= tol
    /\ SAbs(PD2(c, QPt(b)) - R * R) <= tol
    /\ \A j \in 1..Len(pts) : PD2(c, QPt(pts[j])) >= R * R - tol
PivotShapeOK(pts, idx, ctr) ==
    /\ Len(idx) >= 1 /\ Len(ctr) = Len(idx) - 1
    /\ \A t \in 1..Len(idx) : idx[t] >= 0 /\ idx[t] < Len(pts)
PivotOK(pts, idx, ctr, rh) ==
    \A t \in 1..Len(ctr) : /\ pts[idx[t] + 1] # pts[idx[t + 1] + 1]
                           /\ BallOK(pts, ctr[t], pts[idx[t] + 1], pts[idx[t + 1] + 1], rh)

\* ---------------------------------------------------------------- mesh sampling
QN == 16384             \* unit normals
FaceTriS(vp, f) == <<vp[f[1] + 1], vp[f[2] + 1], vp[f[3] + 1]>>
TriN(t) == SCross(SSub(t[2], t[1]), SSub(t[3], t[1]))
QPt3(p) == <<QC * p[1], QC * p[2], QC * p[3]>>
\* quantised unit vector nq has the direction and sense of the integer vector n
NormalMatches(nq, n) ==
    LET cr == SCross(nq, n) m == SN1(n) IN
    /\ SAbs(cr[1]) <= 3 * m /\ SAbs(cr[2]) <= 3 * m /\ SAbs(cr[3]) <= 3 * m
    /\ SDot(nq, n) > 0
    /\ SAbs(SDot(nq, nq) - QN * QN) <= 4 * QN
\* quantised point p lies on triangle t = <<a, b, c>> (in its plane and inside its three edges)
OnTriangle(p, t) ==
    LET n == TriN(t) m == SN1(n)
        In(a, b) == SDot(n, SCross(SSub(b, a), SSub(p, QPt3(a)))) >= -(2 * m * SN1(SSub(b, a))) IN
    /\ n # <<0, 0, 0>>
    /\ SAbs(SDot(n, SSub(p, QPt3(t[1])))) <= 2 * m
    /\ In(t[1], t[2]) /\ In(t[2], t[3]) /\ In(t[3], t[1])
\* faces (1-based positions in fs) on which the sample lies while carrying that face's normal
FacesOf(vp, fs, p, nq) == {k \in 1..Len(fs) : LET t == FaceTriS(vp, fs[k]) IN OnTriangle(p, t) /\ NormalMatches(nq, TriN(t))}

\* integer square root (floor), for areas: |n| = sqrt(n.n)
RECURSIVE IsqrtB(_, _, _)
IsqrtB(x, lo, hi) == IF lo >= hi THEN lo ELSE LET mid == (lo + hi + 1) \div 2 IN IF mid * mid <= x THEN IsqrtB(x, mid, hi) ELSE IsqrtB(x, lo, mid - 1)
Isqrt(x) == IsqrtB(x, 0, 46340)
\* face weights proportional to area: floor(64 * |normal|)
FaceWeight(vp, f) == Isqrt(4096 * SDot(TriN(FaceTriS(vp, f)), TriN(FaceTriS(vp, f))))
RECURSIVE SumW(_, _, _, _)
SumW(vp, fs, k, acc) == IF k > Len(fs) THEN acc ELSE SumW(vp, fs, k + 1, acc + FaceWeight(vp, fs[k]))
\* a face hit `lo` times for certain and `hi` times counting samples it shares with a neighbour is consistent with
\* n independent draws in proportion to area when lo and hi are within six standard deviations of the expectation
CountPlausible(n, w, wtot, lo, hi) ==
    LET e == (n * w) \div wtot
        var == (e * (wtot - w)) \div wtot
        slack == 3 + n \div 32
        Dev(x) == IF x > slack THEN (x - slack) * (x - slack) ELSE 0 IN
    /\ Dev(lo - e) <= 36 * (var + 1)
    /\ Dev(e - hi) <= 36 * (var + 1)

\* squared distance between quantised points stays within 31 bits for |coordinates| < 16 units
QD2v(a, b) == SD2(a, b)
\* two quantised samples are at least h/2 apart / a quantised sample is within g/2 of lattice point v
Separated(a, b, h) == LET R == (QC \div 2) * h IN QD2v(a, b) >= R * R - 4 * R - 4
NearVertex(p, v, g) == LET R == (QC \div 2) * g IN QD2v(p, QPt3(v)) <= R * R + 4 * R + 4
=============================================================================
