------------------------------- MODULE Airfoil -------------------------------
(* C10, L1: clauses on the recorded result of the airfoil analysis.  All        *)
(* lengths are in micro-chords (1e-6 of the chord).  A station row is           *)
(*  <<cx, cy, r, dist(centre,section)-r, dist(contact+,section),               *)
(*    dist(contact-,section), |contact+ - c|-r, |contact- - c|-r, side+, side-, *)
(*    camber coordinate, distance to the generating camber, r - law(r),          *)
(*    arc length of the closest generating-camber point>>                        *)
(* (distances and the generating law are derived observations of the harness).  *)
EXTENDS Integers, Sequences, FiniteSets

AbsF(x) == IF x < 0 THEN -x ELSE x
\* tolerances (micro-chords); the analysis tolerance used by the cases is 100
TInscribed == 40          \* stations over the interior of the camber: |dist - r|
TInscribedEdge == 3000    \* stations manufactured by the edge methods (first / last): gross bound
TContact == 400           \* contact points lie on the section
TContactRadius == 20      \* ... one radius from the centre
TLaw == 120               \* centre on the generating camber / radius on the law
TPartition == 20
TInvR == 40               \* max-thickness radius across variants
TInvLen == 3000           \* camber length across variants (edge methods move the ends a little)
TInvTmax == 400           \* centre of the largest inscribed circle across variants (measured: 0)

Interior(s, glen) == s[14] > glen \div 100 /\ s[14] < glen - glen \div 100     \* projects strictly inside the generating camber

StationsInscribed(st, glen) == \A k \in 1..Len(st) :
    AbsF(st[k][4]) <= (IF Interior(st[k], glen) THEN TInscribed ELSE TInscribedEdge)
ContactsOnSection(st) == \A k \in 1..Len(st) :
    /\ st[k][5] <= TContact /\ st[k][6] <= TContact
    /\ AbsF(st[k][7]) <= TContactRadius /\ AbsF(st[k][8]) <= TContactRadius
\* contacts on opposite sides of the camber direction (interior stations, not the first / last two)
ContactsOppositeSides(st, glen) == \A k \in 3..(Len(st) - 2) :
    Interior(st[k], glen) => st[k][9] * st[k][10] = -1
\* stations advance strictly from leading to trailing edge
Monotone(st) == \A k \in 1..(Len(st) - 1) : st[k][11] < st[k + 1][11]
\* ... and in the sense of the generating camber: the first station lies ahead of the last one, and over the interior of the
\* camber the coordinate of the closest generating point never goes back by more than the refinement noise
TrueSense(st, glen) ==
    /\ st[1][14] < st[Len(st)][14]
    /\ \A k \in 1..(Len(st) - 1) : (Interior(st[k], glen) /\ Interior(st[k + 1], glen)) => st[k][14] <= st[k + 1][14] + TLaw
\* Edge-location methods fall into two classes: constructions that are exact up to the discretisation of the section
\* (fit, intersect, trace, open, opengap) and documented heuristics / randomised searches (converge, ransac, const).
\* Measured on the thorough instance: exact class <= 12 (invariance) and <= 230 (truth); heuristic class <= 1340 and <= 1340
\* - except ConstRadiusEdge at the leading edge (31 000 / 19 600), which is recorded as known finding C10-K2.
ExactClass == {"fit", "intersect", "trace", "open", "opengap"}
ClassTol(kind, tight, mid) == IF kind \in ExactClass THEN tight ELSE mid
TEdgeTruthTight == 1000   \* a located edge point against the true end of the generating envelope
TEdgeTruthMid == 5000
TInvEdgeTight == 600      \* a located edge point across the five variants of one section
TInvEdgeMid == 4000
\* centres on the generating camber and radii on the law; beyond the camber ends (inside the end caps) an inscribed
\* circle is internally tangent to the cap: centre offset and radius defect cancel
FollowsLaw(st, glen) == \A k \in 1..Len(st) :
    IF Interior(st[k], glen) THEN st[k][12] <= TLaw /\ AbsF(st[k][13]) <= TLaw
    ELSE AbsF(st[k][12] + st[k][13]) <= TInscribedEdge
=============================================================================
