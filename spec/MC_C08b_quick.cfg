CONSTANTS
  Pyth = "two"
  NMulti = 6
SPECIFICATION Spec
INVARIANT Emit PoseLaws DerivativeLaws ExtractionLaws
CHECK_DEADLOCK FALSE
