SPECIFICATION Spec
INVARIANT Refines
CHECK_DEADLOCK FALSE
