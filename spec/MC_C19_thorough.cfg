CONSTANTS
  ASet = "all"
  P1Set = "all"
  Lat3 = "18"
  AllW = TRUE
  Full2D = TRUE
SPECIFICATION Spec
INVARIANT Emit Laws
CHECK_DEADLOCK FALSE
