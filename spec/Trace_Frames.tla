---------------------------- MODULE Trace_Frames ----------------------------
(* Judge for C19: every observation recorded from the real library must be  *)
(* allowed by the L1 semantics of module Frames.                             *)
EXTENDS Frames, JudgeBase

VARIABLE i

TolF == 64                 \* residuals in 1/QF (4e-6 lattice units)
\* branch counters of the L1 operators (summed by the runner into the evidence file)
Note(name, k) == PrintT(<<"NOTE", name, k>>)
B20 == 1048576
B22 == 4194304
B26 == 67108864

\* ------------------------------------------------------------------ frame constructors
JFrame(r) ==
    LET o == r.out
        nb == Len(r.bs)
        shape == /\ Len(o.res) = nb
                 /\ \A j \in 1..nb : /\ Len(o.res[j]) = 6
                                     /\ \A k \in 1..6 : IsMat(o.res[j][k].r, 3, 3) /\ IsVec(o.res[j][k].t)
        Pairs == (1..nb) \X (1..6)
        X(p) == o.res[p[1]][p[2]]
        Bv(p) == r.bs[p[1]]
        Cn(p) == Ctors[p[2]]
        Live == {p \in Pairs : ~MustFail(r.a, Bv(p))}
        Good == {p \in Live : X(p).ok /\ ~X(p).panic /\ X(p).finite /\ MatInR(X(p).r, QB + 2)}
    IN
    /\ Clause(i, "C19.frame.shape", shape)
    /\ shape =>
       /\ Note("frame.pairs_must_fail", Cardinality(Pairs \ Live)) /\ Note("frame.pairs_judged_as_frames", Cardinality(Good))
       /\ ClauseAll(i, "C19.frame.must_fail", Pairs \ Live, LAMBDA p : X(p).panic \/ ~X(p).ok)
       /\ ClauseAll(i, "C19.frame.must_succeed", Live, LAMBDA p : X(p).ok /\ ~X(p).panic)
       /\ ClauseAll(i, "C19.frame.finite", Live, LAMBDA p : ~X(p).ok \/ X(p).panic \/ (X(p).finite /\ MatInR(X(p).r, QB + 2)))
       /\ ClauseAll(i, "C19.frame.orthonormal", Good, LAMBDA p : OrthoOK(X(p).r))
       /\ ClauseAll(i, "C19.frame.right_handed", Good, LAMBDA p : RightOK(X(p).r))
       /\ ClauseAll(i, "C19.frame.primary_parallel", Good, LAMBDA p : PrimaryParallel(Cn(p), r.a, X(p).r))
       /\ ClauseAll(i, "C19.frame.primary_codirected", Good, LAMBDA p : PrimaryCodirected(Cn(p), r.a, X(p).r))
       /\ ClauseAll(i, "C19.frame.secondary_in_plane", Good, LAMBDA p : SecondaryInPlane(Cn(p), r.a, Bv(p), X(p).r))
       /\ ClauseAll(i, "C19.frame.secondary_halfplane", Good, LAMBDA p : SecondaryHalfPlane(Cn(p), r.a, Bv(p), X(p).r))
       /\ ClauseAll(i, "C19.frame.origin", Good, LAMBDA p : NearVec(X(p).t, IF r.uo THEN Scale(QC, r.o) ELSE Zero3, 2))

\* iso3_from_xyo maps world to local coordinates: its inverse is the frame
JXyo(r) ==
    LET o == r.out
        nb == Len(r.bs)
        shape == /\ Len(o.res) = nb
                 /\ \A j \in 1..nb : IsMat(o.res[j].r, 3, 3) /\ IsVec(o.res[j].io) /\ IsVec(o.res[j].ix) /\ IsVec(o.res[j].iy)
        X(j) == o.res[j]
        F(j) == Transpose(o.res[j].r)
        Live == {j \in 1..nb : ~MustFail(r.a, r.bs[j])}
        Good == {j \in Live : ~X(j).panic /\ X(j).finite /\ MatInR(X(j).r, QB + 2) /\ VecInR(X(j).ix, QB + 2) /\ VecInR(X(j).iy, QB + 2)}
    IN
    /\ Clause(i, "C19.xyo.shape", shape)
    /\ shape =>
       /\ Note("xyo.pairs_must_fail", nb - Cardinality(Live)) /\ Note("xyo.pairs_judged_as_frames", Cardinality(Good))
       \* the signature has no error value: failing means panicking
       /\ ClauseAll(i, "C19.xyo.must_fail", (1..nb) \ Live, LAMBDA j : X(j).panic)
       /\ ClauseAll(i, "C19.xyo.must_succeed", Live, LAMBDA j : ~X(j).panic)
       /\ ClauseAll(i, "C19.xyo.finite", Live, LAMBDA j : X(j).panic \/ j \in Good)
       /\ ClauseAll(i, "C19.xyo.orthonormal", Good, LAMBDA j : OrthoOK(X(j).r))
       /\ ClauseAll(i, "C19.xyo.right_handed", Good, LAMBDA j : RightOK(X(j).r))
       /\ ClauseAll(i, "C19.xyo.primary_parallel", Good, LAMBDA j : PrimaryParallel("xy", r.a, F(j)))
       /\ ClauseAll(i, "C19.xyo.primary_codirected", Good, LAMBDA j : PrimaryCodirected("xy", r.a, F(j)))
       /\ ClauseAll(i, "C19.xyo.secondary_in_plane", Good, LAMBDA j : SecondaryInPlane("xy", r.a, r.bs[j], F(j)))
       /\ ClauseAll(i, "C19.xyo.secondary_halfplane", Good, LAMBDA j : SecondaryHalfPlane("xy", r.a, r.bs[j], F(j)))
       /\ ClauseAll(i, "C19.xyo.origin", Good, LAMBDA j : VecInR(X(j).io, TolF))
       /\ ClauseAll(i, "C19.xyo.x_axis", Good, LAMBDA j : NearVec(X(j).ix, <<QB, 0, 0>>, 2))
       /\ ClauseAll(i, "C19.xyo.y_in_upper_xy", Good, LAMBDA j : AbsF(X(j).iy[3]) <= 2 /\ X(j).iy[2] >= -2)

\* ------------------------------------------------------------------ planes
JPlane(r) ==
    LET o == r.out
        three == r.kind = "3pt"
        def == IF three THEN r.pts ELSE <<r.p>>
        N == IF three THEN TripleNormal(r.pts[1], r.pts[2], r.pts[3]) ELSE r.nv
        nd == Len(def)
        nq == Len(r.qs)
        nr == Len(r.dirs)
        shape == /\ IsVec(o.n) /\ IsVec(o.inn) /\ Len(o.sdp) = nd /\ IsMat(o.prp, nd, 3)
                 /\ Len(o.sd) = nq /\ Len(o.dist) = nq /\ IsMat(o.proj, nq, 3) /\ Len(o.sdproj) = nq /\ IsMat(o.pp, nq, 3)
                 /\ Len(o.isd) = nq /\ Len(o.tsd) = nq /\ IsMat(o.ixs, nq, nr) /\ IsMat(o.ixr, nq, nr)
        range == /\ o.finite /\ VecInR(o.n, QB + 2) /\ VecInR(o.inn, QB + 2) /\ InR(o.d, B22) /\ InR(o.id, B22)
                 /\ VecInR(o.sd, B22) /\ VecInR(o.dist, B22) /\ VecInR(o.isd, B22) /\ VecInR(o.tsd, B22) /\ MatInR(o.proj, B22)
    IN
    IF o.cpanic THEN Clause(i, "C19.plane.construct_panic", N = Zero3)          \* failing is allowed only when no plane is defined
    ELSE
    /\ Clause(i, "C19.plane.domain", three => (r.deg <=> N = Zero3))            \* the generator's class tag is exact
    /\ Clause(i, "C19.plane.shape", shape)
    /\ shape =>
       IF N = Zero3
       THEN \* collinear / coincident triple: no plane is defined; whatever is returned must not be garbage
            /\ Note("plane.degenerate_triples", 1)
            /\ Clause(i, "C19.plane.degenerate_garbage", range /\ UnitOK(o.n) /\ VecInR(o.sdp, TolF))
       ELSE
       /\ Note("plane.proper_" \o r.kind, 1)
       /\ Clause(i, "C19.plane.finite", range)
       /\ range =>
          /\ Clause(i, "C19.plane.unit_normal", UnitOK(o.n))
          /\ Clause(i, "C19.plane.normal_direction", NormalParallel(o.n, N) /\ (~three => Dot(o.n, N) > 0))
          /\ Clause(i, "C19.plane.contains_defining_points", VecInR(o.sdp, TolF))
          /\ Clause(i, "C19.plane.offset", NearF(o.d, Dot(o.n, def[1]), TolL(def[1])))
          /\ ClauseAll(i, "C19.plane.signed_distance", 1..nq, LAMBDA j : SignedDistOK(o.n, def[1], r.qs[j], o.sd[j]))
          /\ ClauseAll(i, "C19.plane.distance_abs", 1..nq, LAMBDA j : NearF(o.dist[j], AbsF(o.sd[j]), 1))
          /\ ClauseAll(i, "C19.plane.project.on_plane", 1..nq, LAMBDA j : InR(o.sdproj[j], TolF))
          /\ ClauseAll(i, "C19.plane.project.idempotent", 1..nq, LAMBDA j : VecInR(o.pp[j], TolF))
          /\ ClauseAll(i, "C19.plane.project.along_normal", 1..nq, LAMBDA j : ProjParallel(r.qs[j], o.proj[j], N))
          /\ ClauseAll(i, "C19.plane.project.fixes_plane_points", 1..nd, LAMBDA k : VecInR(o.prp[k], TolF))
          /\ Clause(i, "C19.plane.inverted", /\ NearVec(o.inn, Neg(o.n), 1) /\ NearF(o.id, -o.d, 1)
                                             /\ \A j \in 1..nq : NearF(o.isd[j], -o.sd[j], 1))
          /\ ClauseAll(i, "C19.plane.transform_equivariant", 1..nq, LAMBDA j : NearF(o.tsd[j], o.sd[j], 4))
          /\ ClauseAll(i, "C19.plane.intersection_on_plane", (1..nq) \X (1..nr),
                       LAMBDA p : ~o.ixs[p[1]][p[2]] \/ InR(o.ixr[p[1]][p[2]], TolF))

\* ------------------------------------------------------------------ principal axes
ShapeS(x, D) == IsVec(x.c) /\ IsMat(x.basis, D, 3) /\ Len(x.sv) = D
RangeS(x) == x.finite /\ VecInR(x.c, B20) /\ MatInR(x.basis, QB + 2) /\ VecInR(x.sv, B20 \div 2)

JSvd(r) ==
    LET o == r.out
        D == r.dim
        P == r.pts
        n == Len(P)
        weighted == r.wt # <<>>
        w == IF weighted THEN r.wt ELSE [k \in 1..n |-> 1]
        b == o.b
        B == b.basis
        m == o.m
        d == o.d
        iso == b.iso
        shape == /\ ShapeS(b, D) /\ ShapeS(m, D) /\ (weighted => ShapeS(d, D))
                 /\ Len(b.sv2) = D /\ Len(b.var) = D /\ Len(b.sd) = D /\ IsMat(b.tb, n, D) /\ IsMat(b.rt, n, 3)
                 /\ IsMat(b.rt2, Len(r.qs), 3) /\ IsMat(b.vtb, Len(r.qs), D) /\ IsMat(b.g0, D, D) /\ (weighted => IsMat(b.g1, D, D) /\ IsMat(b.g2, D, D))
                 /\ IsVec(b.lg) /\ IsVec(b.sm)
        range == /\ RangeS(b) /\ RangeS(m) /\ (weighted => RangeS(d))
                 /\ VecInR(b.sv2, B26) /\ VecInR(b.var, B26) /\ VecInR(b.sd, B20 \div 2) /\ MatInR(b.tb, B20 \div 2) /\ MatInR(b.vtb, B20)
                 /\ MatInR(b.g0, B26) /\ (weighted => MatInR(b.g1, B26) /\ MatInR(b.g2, B26))
        isoShape == IsMat(iso.r, 3, 3) /\ IsVec(iso.c0) /\ IsMat(iso.ip, n, 3)
        isoRange == iso.finite /\ MatInR(iso.r, QB + 2) /\ MatInR(iso.ip, B22)
        Iso == {k \in 1..D : Isolated(b.sv, k)}
    IN
    /\ Clause(i, "C19.svd.domain", n <= 24 /\ n >= D + 1 /\ r.ar = AffRank(P))    \* the generator's class tag is exact
    /\ Clause(i, "C19.svd.shape", shape)
    /\ (shape /\ n <= 24) =>
       /\ Clause(i, "C19.svd.finite", range)
       /\ range =>
          /\ Note("svd.dim" \o ToString(D) \o ".affine_rank" \o ToString(r.ar) \o (IF weighted THEN ".weighted" ELSE ".unweighted"), 1)
          /\ Note("svd.axes_separated", Cardinality(Iso)) /\ Note("svd.axes_in_repeated_value", D - Cardinality(Iso))
          /\ Clause(i, "C19.svd.n", b.n = n /\ m.n = n)
          /\ Clause(i, "C19.svd.center", CenterOK(P, w, b.c))
          /\ Clause(i, "C19.svd.orthonormal", \A j \in 1..D, k \in 1..D : NearF(Dot(B[j], B[k]), IF j = k THEN QB * QB ELSE 0, TolG))
          /\ Clause(i, "C19.svd.sv_order", \A k \in 1..D : b.sv[k] >= 0 /\ (k < D => b.sv[k] + 1 >= b.sv[k + 1]))
          /\ Clause(i, "C19.svd.sv_squares", \A k \in 1..D : NearF((b.sv[k] \div 16) * (b.sv[k] \div 16), b.sv2[k], 3 * (b.sv[k] \div 16) + 8))
          /\ ClauseAll(i, "C19.svd.to_basis", (1..n) \X (1..D), LAMBDA p : ToBasisOK(P, w, p[1], B[p[2]], b.tb[p[1]][p[2]]))
          /\ Clause(i, "C19.svd.round_trip", MatInR(b.rt, TolF) /\ MatInR(b.rt2, TolF))
          /\ ClauseAll(i, "C19.svd.vec_to_basis", (1..Len(r.qs)) \X (1..D), LAMBDA p :
                 NearF(b.vtb[p[1]][p[2]], Dot(B[p[2]], r.qs[p[1]]), TolL(r.qs[p[1]])))
          /\ Clause(i, "C19.svd.variances_api", \A k \in 1..D : NearF(b.var[k] * n, b.sv2[k], n + 2))
          /\ Clause(i, "C19.svd.stdevs_api", \A k \in 1..D : NearF((b.sd[k] \div 16) * (b.sd[k] \div 16), b.var[k], 3 * (b.sd[k] \div 16) + 8))
          /\ IF ~weighted
             THEN /\ Clause(i, "C19.svd.principal_axes", OffDiagZero(b.g0, D))
                  /\ Clause(i, "C19.svd.variance", DiagIsSv2(b.g0, b.sv2, D, n, n, 1))
             ELSE Clause(i, "C19.svd.weighted_axes",
                         \E a \in {1, 2}, lam \in {1, 2} :
                            LET G == IF a = 1 THEN b.g1 ELSE b.g2 IN
                            OffDiagZero(G, D) /\ DiagIsSv2(G, b.sv2, D, n, PowSum(w, a), lam))
          /\ Clause(i, "C19.svd.rank", b.rank = AffRank(P))
          \* ... also with a tolerance of 1e-9 units: on exactly rank-deficient lattice data the vanishing singular values are
          \* rounding noise (1e-15), not 1e-8
          /\ Clause(i, "C19.svd.rank_fine", b.rank9 = AffRank(P))
          /\ Clause(i, "C19.svd.extremes", b.lg = B[1] /\ b.sm = B[D])
          \* conversion to an isometry (world -> basis coordinates)
          /\ Clause(i, "C19.svd.iso.defined", ~iso.na)
          /\ ~iso.na =>
             /\ Clause(i, "C19.svd.iso.shape", isoShape)
             /\ isoShape =>
                /\ Clause(i, "C19.svd.iso.finite", isoRange)
                /\ isoRange =>
                   /\ Clause(i, "C19.svd.iso.rotation", OrthoOK(iso.r) /\ RightOK(iso.r))
                   /\ Clause(i, "C19.svd.iso.center_to_origin", VecInR(iso.c0, TolF))
                   /\ ClauseAll(i, "C19.svd.iso.coords", 1..n, LAMBDA p :
                          /\ NearF(iso.ip[p][1], b.tb[p][1], 4)
                          /\ (D = 3 => NearF(iso.ip[p][2], b.tb[p][2], 4))
                          /\ NearF(AbsF(iso.ip[p][D]), AbsF(b.tb[p][D]), 4)
                          /\ (D = 2 => iso.ip[p][3] = 0))
          \* the same points after a rigid motion
          /\ Clause(i, "C19.svd.equivariant.center", NearVec(Scale(r.h, m.c), MoveH(r.R, r.h, r.t, b.c), 2 * r.h + 4))
          /\ Clause(i, "C19.svd.equivariant.sv", \A k \in 1..D : NearF(m.sv[k], b.sv[k], 2 + (b.sv[k] \div 16384)))
          /\ Clause(i, "C19.svd.equivariant.rank", m.rank = b.rank)
          /\ ClauseAll(i, "C19.svd.equivariant.axes", Iso, LAMBDA k :
                 NearVecUpToSign(Scale(r.h, m.basis[k]), RotVecH(r.R, B[k]), 2 * r.h + 6))
          \* the same points with all weights doubled
          /\ weighted =>
             /\ Clause(i, "C19.svd.weight_scaling.center", NearVec(d.c, b.c, 2))
             /\ Clause(i, "C19.svd.weight_scaling.rank", d.rank = b.rank)
             /\ ClauseAll(i, "C19.svd.weight_scaling.axes", Iso, LAMBDA k : NearVecUpToSign(d.basis[k], B[k], 4))

\* tilted near-square plates with coordinates of a few hundred units (beyond the exact clauses): the singular values come
\* back in non-increasing order and the first axis is the direction of largest spread
JSvdOrder(r) ==
    /\ Clause(i, "C19.svd.finite", r.out.finite)
    /\ Clause(i, "C19.svd.ordered", r.out.ordered)
    /\ Clause(i, "C19.svd.largest_spread_first", r.out.largest_first)

Judge(r) ==
    /\ Sane(i, r)
    /\ Ran(r) =>
        CASE r.op = "frame" -> JFrame(r)
          [] r.op = "xyo"   -> JXyo(r)
          [] r.op = "plane" -> JPlane(r)
          [] r.op = "svd"   -> JSvd(r)
          [] r.op = "svdorder" -> JSvdOrder(r)
          [] r.op = "reset" -> TRUE
          [] OTHER          -> Clause(i, "unknown-op", FALSE)

Init == i = 1
Next == i <= Len(Rec) /\ Judge(Rec[i]) /\ i' = i + 1
Spec == Init /\ [][Next]_i
Post == TLCGet("stats").diameter - 1 = Len(Rec)
=============================================================================
