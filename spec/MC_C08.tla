------------------------------- MODULE MC_C08 -------------------------------
(* History machine for C08: from_initial, then MaxSets successive set() calls   *)
(* (pure translations, pure rotations, mixed) on a rotation-centred parameter   *)
(* object, in 2D (RcParams2) and 3D (RcParams3).  The machine carries            *)
(*   f  : the fields as the code computes them (L2: conjugation by the centre,  *)
(*        shift0 / shift1, inverse, moved centre), exact rational affine maps,  *)
(*   st : the L1 closed form (moved centre + rotation),                          *)
(* and TLC checks in every reachable state that L2 meets L1: transform equals   *)
(* the initial isometry after from_initial, transform o inverse = id, the moved *)
(* centre is transform(rc), a pure translation step translates every probe by   *)
(* that vector wherever the centre is, and the Jacobian rotation entries (moved *)
(* point times generator) equal the true derivative dR/dr_k applied to the      *)
(* original point.  Every maximal history is emitted as a behaviour for the      *)
(* real library.                                                                 *)
EXTENDS RcParams, TLC, Json
CONSTANTS MaxSets, NA2, NRc2, NSet2, NR3, NRc3, NSet3, Dims

VARIABLES dim, t0, f, st, pf, last, hist, phase
vars == <<dim, t0, f, st, pf, last, hist, phase>>

Q0 == <<1, 0, 1>>
Q1 == <<0, 1, 1>>
Q2 == <<-1, 0, 1>>
Q3 == <<0, -1, 1>>
\* ---------------------------------------------------------------- 2D alphabet
\* (denominators 1 and 5 only: the L2 algebra composes up to four maps and must stay inside 31 bits with centres at 1000;
\*  larger Pythagorean angles are exercised by MC_C08b and by the seeded generators, where only the L1 closed form is needed)
Ang2 == << <<3,4,5>>, <<-4,3,5>>, <<0,1,1>>, <<4,-3,5>>, <<-1,0,1>>, <<1,0,1>>, <<-3,-4,5>>, <<4,3,5>>, <<-3,4,5>>, <<0,-1,1>>,
           <<3,-4,5>>, <<-4,-3,5>> >>
Rc2 == << <<10,20,0>>, <<1000,-995,0>>, <<0,0,0>>, <<-640,1000,0>> >>
Tr2 == <<3, -2, 0>>
Set2 == << [dt |-> <<1,2,0>>, rot |-> FALSE, a |-> Q0], [dt |-> <<0,0,0>>, rot |-> TRUE, a |-> <<4,3,5>>],
           [dt |-> <<-250,125,0>>, rot |-> TRUE, a |-> <<-3,4,5>>], [dt |-> <<0,0,0>>, rot |-> TRUE, a |-> Q3],
           [dt |-> <<-250,125,0>>, rot |-> FALSE, a |-> Q0], [dt |-> <<0,0,0>>, rot |-> TRUE, a |-> <<-4,-3,5>>],
           [dt |-> <<7,0,0>>, rot |-> TRUE, a |-> Q0] >>
\* ---------------------------------------------------------------- 3D alphabet
P34 == <<3, 4, 5>>
N43 == <<-4, 3, 5>>
M34 == <<3, -4, 5>>
Rot3 == << [M |-> EulerM(<<P34, Q1, Q3>>), H |-> 5],          \* pitch +90 exactly (gimbal branch of to_wpr)
           [M |-> ZyxM(<<Q1, Q3, N43>>), H |-> 5],            \* pitch -90 in the Rz Ry Rx order
           [M |-> EulerM(<<Q0, N43, Q1>>), H |-> 5],          \* cos(pitch) < 0: the extraction must pick another representative
           [M |-> Ident, H |-> 1],
           [M |-> EulerM(<<Q2, Q3, M34>>), H |-> 5],          \* pitch -90 exactly
           [M |-> EulerM(<<M34, Q0, Q2>>), H |-> 5] >>
Rc3 == << <<10,20,-5>>, <<1000,-995,500>>, <<0,0,0>> >>
Tr3 == <<3, -2, 5>>
NoE == <<Q0, Q0, Q0>>
Set3 == << [dt |-> <<1,2,-3>>, rot |-> FALSE, e |-> NoE], [dt |-> <<0,0,0>>, rot |-> TRUE, e |-> <<P34, Q1, Q0>>],
           [dt |-> <<-250,125,60>>, rot |-> TRUE, e |-> <<Q1, N43, Q3>>], [dt |-> <<0,0,0>>, rot |-> TRUE, e |-> <<Q3, Q3, M34>>],
           [dt |-> <<0,0,0>>, rot |-> TRUE, e |-> <<M34, Q2, Q1>>], [dt |-> <<-250,125,60>>, rot |-> FALSE, e |-> NoE],
           [dt |-> <<0,7,0>>, rot |-> TRUE, e |-> <<Q0, Q0, Q0>>] >>

\* ---------------------------------------------------------------- probes and Jacobian inputs
Probes(rc, d) == IF d = 2 THEN << <<0,0,0>>, <<1,2,0>>, <<-7,5,0>>, VAdd(rc, <<1,0,0>>), VAdd(rc, <<3,-4,0>>) >>
                 ELSE << <<0,0,0>>, <<1,2,3>>, <<-7,5,2>>, VAdd(rc, <<1,0,0>>), VAdd(rc, <<3,-4,2>>) >>
ProbeSet(rc, d) == {Probes(rc, d)[k] : k \in 1..5}
Base(s) == <<s.crc.n[1] \div s.crc.d, s.crc.n[2] \div s.crc.d, s.crc.n[3] \div s.crc.d>>
JacIn(s, d) == LET b == Base(s) IN
    IF d = 2 THEN << [k |-> "ps", p |-> VAdd(b, <<3,-2,0>>), c |-> VAdd(b, <<1,1,0>>), n |-> <<3,4,0>>, nh |-> 5],
                     [k |-> "ps", p |-> VAdd(b, <<-40,9,0>>), c |-> VAdd(b, <<-41,7,0>>), n |-> <<0,-1,0>>, nh |-> 1] >>
    ELSE << [k |-> "pp", p |-> VAdd(b, <<3,-2,5>>), c |-> VAdd(b, <<5,-2,2>>), n |-> <<1,2,2>>, nh |-> 3],
            [k |-> "pp", p |-> VAdd(b, <<-6,1,1>>), c |-> VAdd(b, <<-6,4,1>>), n |-> <<0,3,4>>, nh |-> 5],
            [k |-> "rev", p |-> VAdd(b, <<-2,5,6>>), c |-> VAdd(b, <<-4,1,2>>), n |-> <<1,2,2>>, nh |-> 3],
            [k |-> "rev", p |-> VAdd(b, <<1,-2,-7>>), c |-> VAdd(b, <<3,1,-1>>), n |-> <<2,3,6>>, nh |-> 7],
            [k |-> "pt", p |-> VAdd(b, <<3,4,3>>), c |-> VAdd(b, <<1,1,-3>>), n |-> <<2,3,6>>, nh |-> 7] >>

InitRec(d, k, rc, s) ==
    IF d = 2 THEN [m |-> "rcp", op |-> "init2", a |-> Ang2[k], t |-> Tr2, rc |-> rc, pr |-> Probes(rc, 2), jac |-> JacIn(s, 2)]
    ELSE [m |-> "rcp", op |-> "init3", R |-> Rot3[k], t |-> Tr3, rc |-> rc, pr |-> Probes(rc, 3), jac |-> JacIn(s, 3)]
Pose(d, k) == IF d = 2 THEN Aff(KRz(Ang2[k]), Ang2[k][3], Tr2, 1) ELSE Aff(Rot3[k].M, Rot3[k].H, Tr3, 1)

Init == \E d \in Dims : \E k \in 1..(IF d = 2 THEN NA2 ELSE NR3), j \in 1..(IF d = 2 THEN NRc2 ELSE NRc3) :
    LET rc == IF d = 2 THEN Rc2[j] ELSE Rc3[j]
        T0 == Pose(d, k)
        s == L1Init(T0, rc) IN
    /\ dim = d /\ t0 = T0 /\ st = s
    /\ f = (IF d = 2 THEN FromInitial2(T0, rc) ELSE FromInitial3(T0, rc))
    /\ pf = f.transform /\ last = [pure |-> FALSE, dt |-> KZero]
    /\ hist = <<InitRec(d, k, rc, s)>> /\ phase = "run"

DoSet == \E k \in 1..(IF dim = 2 THEN NSet2 ELSE NSet3) :
    LET c == IF dim = 2 THEN Set2[k] ELSE Set3[k]
        M == IF dim = 2 THEN KRz(c.a) ELSE EulerM(c.e)
        H == IF dim = 2 THEN c.a[3] ELSE EulerH(c.e)
        s == L1Set(st, c.dt, c.rot, M, H, IF dim = 2 THEN <<>> ELSE c.e)
        rec == IF dim = 2 THEN [m |-> "rcp", op |-> "set2", dt |-> c.dt, rot |-> c.rot, a |-> c.a, pr |-> Probes(st.rc, 2), jac |-> JacIn(s, 2)]
               ELSE [m |-> "rcp", op |-> "set3", dt |-> c.dt, rot |-> c.rot, e |-> c.e, pr |-> Probes(st.rc, 3), jac |-> JacIn(s, 3)] IN
    /\ phase = "run" /\ Len(hist) <= MaxSets
    /\ st' = s /\ f' = L2Set(dim, f, c.dt, c.rot, M, H) /\ pf' = f.transform
    /\ last' = [pure |-> ~c.rot, dt |-> c.dt]
    /\ hist' = Append(hist, rec) /\ UNCHANGED <<dim, t0, phase>>
Stop == phase = "run" /\ Len(hist) = MaxSets + 1 /\ phase' = "done" /\ UNCHANGED <<dim, t0, f, st, pf, last, hist>>
Next == DoSet \/ Stop
Spec == Init /\ [][Next]_vars

Emit == phase = "done" => PrintT(<<"CASE", ToJson(hist)>>)

\* ---------------------------------------------------------------- laws (L2 meets L1), checked in every reachable state
PS == ProbeSet(st.rc, dim)
Laws ==
    /\ IsRotation(st.M, st.H)
    /\ FieldsMeetL1(f, st, PS)
    \* from_initial reproduces exactly the initial isometry
    /\ Len(hist) = 1 => AEq(f.transform, t0) /\ KPtEq(f.crc, AApply(t0, st.rc))
    \* a pure-translation parameter change translates every probe by that vector, wherever the centre is
    /\ last.pure => \A P \in PS : KPtEq(AApply(f.transform, P), KPtAddInt(AApply(pf, P), last.dt))
\* Jacobian rotation entries: generator applied to the moved point = true derivative matrix applied to the original point
JacobianLaw == (dim = 3 /\ st.e # <<>>) =>
    \A j \in 1..Len(JacIn(st, 3)) : \A k \in 1..3 :
        LET J == JacIn(st, 3)[j]
            q == JacMoving(J.k, J.p, J.c)
            q0 == AApply(f.inverse, q)                                   \* the unmoved point (rational)
            lhs == KApp(EulerRD(st.e, k), KOff(st, q))                 \* over H^2 * crc.d
            rhs == KApp(EulerD(st.e, k), VSub(q0.n, VScale(q0.d, st.rc)))   \* over H * q0.d
        IN /\ JacPosed(J.k, J.p, J.c, J.n)
           /\ VScale(st.H * q0.d, lhs) = VScale(st.H * st.H * st.crc.d, rhs)
Jacobian2Law == dim = 2 =>
    \A j \in 1..Len(JacIn(st, 2)) :
        LET J == JacIn(st, 2)[j]
            q0 == AApply(f.inverse, J.p)
            lhs == KApp(KPZ, KOff(st, J.p))                             \* over crc.d
            rhs == KApp(KMul(KPZ, st.M), VSub(q0.n, VScale(q0.d, st.rc)))   \* dR/dtheta = Pz R, over H * q0.d
        IN VScale(st.H * q0.d, lhs) = VScale(st.crc.d, rhs)
=============================================================================
