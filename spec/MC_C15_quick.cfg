CONSTANTS
  G2 = 3
  N2 = 3
  G3 = 2
  N3 = 2
  QStep2 = 2
  QStep3 = 3
  SubAll = FALSE
  NH = 4
  GH = 3
  NP = 3
  Reps = 1
SPECIFICATION Spec
INVARIANT Emit Laws
CHECK_DEADLOCK FALSE
