CONSTANTS
  MaxDepth = 1
  RootSet = "small"
  Sim = FALSE
  AllControl = FALSE
SPECIFICATION Spec
INVARIANT Emit Laws
CHECK_DEADLOCK FALSE
