---------------------------- MODULE Trace_Closest ----------------------------
(* Judge for C02 (closest point / distance queries on curves and meshes).     *)
EXTENDS Closest, JudgeBase

VARIABLE i

Dbl(p) == <<2 * p[1], 2 * p[2], 2 * p[3]>>
DblSeq(s) == [k \in 1..Len(s) |-> Dbl(s[k])]

JCurve(r) ==
    LET o == r.out v == DblSeq(Built(r.pts, r.tolU, r.fc, r.dim)) IN
    /\ Clause(i, "C02.curve.finite", o.finite)
    /\ Clause(i, "C02.curve.shape", Len(o.q) = Len(r.qs))
    /\ Len(o.q) = Len(r.qs) =>
         /\ ClauseAll(i, "C02.curve.global_optimum", 1..Len(r.qs), LAMBDA j : CurveClosestOK(r.qs[j], v, o.q[j]))
         \* the station carries the direction of the edge it names - also when the closest point is an end of that edge
         \* (the closest-point search reports the edge it found; the vertex rules of at_length belong to C01)
         /\ ClauseAll(i, "C02.curve.edge_direction", 1..Len(r.qs), LAMBDA j :
               LET k == o.q[j].idx + 1 IN
               (k >= 1 /\ k <= Len(v) - 1) => (o.q[j].dfin /\ DirMatches(o.q[j].d, Edge(v, k))))

\* angle verdict for project_with_tol: offset (quantised) against the exact face normal; free when the nearest
\* faces have different normals, when the offset is too short to have a direction, or near the threshold
Cos2(a) == IF a = 30 THEN <<3, 4>> ELSE IF a = 45 THEN <<1, 2>> ELSE <<1, 4>>
SameDir(n1, n2) == VCross(n1, n2) = VZero /\ VDot(n1, n2) > 0
AngleVerdict(q, vp, fs, oq, a) ==
    LET am == ArgMinFaces(q, vp, fs)
        n == FaceNormal(vp, fs, CHOOSE k \in am : TRUE)
        os == <<(QPc * q[1] - oq.sp.p[1]) \div 128, (QPc * q[2] - oq.sp.p[2]) \div 128, (QPc * q[3] - oq.sp.p[3]) \div 128>> IN
    IF (\E k1, k2 \in am : ~SameDir(FaceNormal(vp, fs, k1), FaceNormal(vp, fs, k2))) \/ VNorm1(os) < 12 THEN "free"
    ELSE LET nd == VDot(n, os) a1 == nd * nd b1 == VDot(n, n) * VDot(os, os) c == Cos2(a) IN
         IF RCmp(a1, b1, c[1] * 6, c[2] * 5) > 0 THEN "T"
         ELSE IF RCmp(a1, b1, c[1] * 4, c[2] * 5) < 0 THEN "F" ELSE "free"
Agree(v, b) == v = "free" \/ (v = "T" /\ b) \/ (v = "F" /\ ~b)

JMeshClosest(r, vp, j) ==
    LET q == r.qs[j] oq == r.out.q[j] IN
    /\ ProjectionOK(q, vp, r.faces, oq.pr) /\ SurfClosestOK(q, vp, r.faces, oq.sp)
    /\ D2Matches(oq.pc.dq2, MeshMinD2(q, vp, r.faces))
    \* the measured deviation: its reference point is a closest point and its magnitude the closest distance
    /\ D2Matches(oq.dev.dq2, MeshMinD2(q, vp, r.faces)) /\ D2Matches(oq.dev.a, MeshMinD2(q, vp, r.faces))
    /\ D2Matches(oq.dev.apl, MeshMinD2(q, vp, r.faces))          \* (plane mode: same reference point)
    \* plane mode measures along the normal of a face the closest point lies on (not a blend of the faces meeting there)
    /\ oq.dev.nplfin /\ \E k \in ArgMinFaces(q, vp, r.faces) : DirMatches(oq.dev.npl, FaceNormal(vp, r.faces, k))
JMeshCapped(r, vp, j) ==
    LET q == r.qs[j] oq == r.out.q[j] fs == r.faces m == MeshMinD2(q, vp, fs) IN
    /\ Len(oq.capped) = Len(r.caps)
    /\ \A c \in 1..Len(r.caps) :
          LET cv == CapVerdict(m, <<r.caps[c] * r.caps[c], 4>>) oc == oq.capped[c] IN
          /\ Agree(cv, oc.some)
          /\ oc.some => /\ oc.fid + 1 \in ArgMinFaces(q, vp, fs) /\ D2Matches(oc.dq2, m)
JMeshAngle(r, vp, j) ==
    LET q == r.qs[j] oq == r.out.q[j] fs == r.faces m == MeshMinD2(q, vp, fs) IN
    /\ Len(oq.tol) = Len(r.caps)
    /\ \A c \in 1..Len(r.caps) :
          LET cv == CapVerdict(m, <<r.caps[c] * r.caps[c], 4>>) IN
          /\ Len(oq.tol[c]) = Len(r.angles)
          /\ \A a \in 1..Len(r.angles) :
                LET av == AngleVerdict(q, vp, fs, oq, r.angles[a]) b == oq.tol[c][a] IN
                IF cv = "F" THEN ~b
                ELSE IF cv = "T" /\ av = "T" THEN b
                ELSE IF cv = "T" /\ av = "F" THEN ~b
                ELSE TRUE

JMesh(r) ==
    LET o == r.out vp == DblSeq(r.vpos) IN
    /\ Clause(i, "C02.mesh.finite", o.finite)
    /\ Clause(i, "C02.mesh.shape", Len(o.q) = Len(r.qs) /\ Len(o.in_tol) = Len(r.angles))
    /\ (Len(o.q) = Len(r.qs) /\ Len(o.in_tol) = Len(r.angles)) =>
         /\ Clause(i, "C02.mesh.fid_range", \A j \in 1..Len(r.qs) : o.q[j].pr.fid >= 0 /\ o.q[j].pr.fid < Len(r.faces))
         /\ (\A j \in 1..Len(r.qs) : o.q[j].pr.fid >= 0 /\ o.q[j].pr.fid < Len(r.faces)) =>
              /\ ClauseAll(i, "C02.mesh.global_optimum", 1..Len(r.qs), LAMBDA j : JMeshClosest(r, vp, j))
              /\ ClauseAll(i, "C02.mesh.distance_cap", 1..Len(r.qs), LAMBDA j : JMeshCapped(r, vp, j))
              /\ ClauseAll(i, "C02.mesh.angle_filter", 1..Len(r.qs), LAMBDA j : JMeshAngle(r, vp, j))
              /\ Clause(i, "C02.mesh.indices_in_tol", \A a \in 1..Len(r.angles) :
                    {o.in_tol[a][k] : k \in 1..Len(o.in_tol[a])} = {j - 1 : j \in {x \in 1..Len(r.qs) : o.q[x].tol[1][a]}})

Judge(r) ==
    /\ Sane(i, r)
    /\ Ran(r) =>
        CASE r.op = "curve" -> JCurve(r)
          [] r.op = "mesh"  -> JMesh(r)
          [] r.op = "reset" -> TRUE
          [] OTHER          -> Clause(i, "unknown-op", FALSE)

Init == i = 1
Next == i <= Len(Rec) /\ Judge(Rec[i]) /\ i' = i + 1
Spec == Init /\ [][Next]_i
Post == TLCGet("stats").diameter - 1 = Len(Rec)
=============================================================================
