-------------------------- MODULE Trace_Metrology --------------------------
(* Judge for C16: every observation recorded from the real library must be   *)
(* allowed by the L1 semantics of module Metrology.  Stateless records       *)
(* (tolerance maps, distances, deviations) are judged on their own; the      *)
(* deviation-set and point-cloud histories are judged against an abstract    *)
(* state that advances by the specification's own transition (never by       *)
(* copying the log); after a rejection the rest of that behaviour is skipped.*)
EXTENDS Metrology, JudgeBase

VARIABLES i, ds, cl, skip

Small(x, b) == x >= -b /\ x <= b



\* ------------------------------------------------------------------ tolerance map
TolClass(bps, x) == IF Len(bps) = 0 THEN "empty" ELSE IF XLt(x, bps[1]) THEN "below"
                    ELSE IF XGt(x, bps[Len(bps)]) THEN "beyond" ELSE "inside"
\* a table built by offering values to push one at a time: a value is accepted exactly when it is not below the last accepted
\* one (the table stays ascending; a rejected push changes nothing)
RECURSIVE PushTableFrom(_, _, _)
PushTableFrom(ps, k, acc) == IF k > Len(ps) THEN acc
                             ELSE IF acc # <<>> /\ ps[k] < acc[Len(acc)] THEN PushTableFrom(ps, k + 1, acc)
                             ELSE PushTableFrom(ps, k + 1, Append(acc, ps[k]))
PushTable(ps) == PushTableFrom(ps, 1, <<>>)
RECURSIVE PushFlagsFrom(_, _, _, _)
PushFlagsFrom(ps, k, last, fl) == IF k > Len(ps) THEN fl
                                  ELSE IF last # <<>> /\ ps[k] < last[1] THEN PushFlagsFrom(ps, k + 1, last, Append(fl, FALSE))
                                  ELSE PushFlagsFrom(ps, k + 1, <<ps[k]>>, Append(fl, TRUE))
JTol(r) ==
    LET o == r.out n == Len(r.xs)
        pushed == "pushes" \in DOMAIN r
        bps == IF pushed THEN PushTable(r.pushes) ELSE r.bps
        Good(cls) == \A j \in 1..n : TolClass(bps, r.xs[j]) = cls => o.z[j] \in TolAllowed(bps, r.xs[j]) IN
    /\ Clause(i, "C16.tolmap.constructed", o.ok)
    /\ (o.ok /\ pushed) => /\ Clause(i, "C16.tolmap.push_accepts_exactly_not_below_last", o.acc = PushFlagsFrom(r.pushes, 1, <<>>, <<>>))
                           /\ Clause(i, "C16.tolmap.rejected_push_changes_nothing", o.table = bps)
    /\ o.ok => /\ Clause(i, "C16.tolmap.shape", Len(o.z) = n)
               /\ Len(o.z) = n =>
                    /\ Clause(i, "C16.tolmap.empty_is_none", Good("empty"))
                    /\ Clause(i, "C16.tolmap.below_start_is_none", Good("below"))
                    /\ Clause(i, "C16.tolmap.beyond_end_is_last", Good("beyond"))
                    /\ Clause(i, "C16.tolmap.greatest_breakpoint_not_above", Good("inside"))

\* ------------------------------------------------------------------ directed distance
JDist(r) ==
    LET o == r.out IN
    /\ Clause(i, "C16.dist.finite", o.finite /\ Small(o.val, 10000000) /\ Small(o.rval, 10000000) /\ Small(o.v2, 100000000)
                                    /\ \A a \in 1..3 : Small(o.dir[a], 20000) /\ Small(o.cpt[a], 10000000))
    /\ (o.finite /\ Small(o.val, 10000000) /\ Small(o.rval, 10000000) /\ Small(o.v2, 100000000)
          /\ \A a \in 1..3 : Small(o.dir[a], 20000) /\ Small(o.cpt[a], 10000000)) =>
        /\ Clause(i, "C16.dist.value_is_projection", DistValueOK(r.a, r.b, r.dir, r.h, o))
        /\ Clause(i, "C16.dist.direction", DistDirOK(r.a, r.b, r.dir, r.h, o))
        /\ Clause(i, "C16.dist.reversed_keeps_value", DistReversedOK(r.a, r.b, o))
        /\ Clause(i, "C16.dist.center", DistCenterOK(r.a, r.b, o))

\* ------------------------------------------------------------------ deviation from a curve
\* shape and range of the projected fields (keeps every product of the clauses inside TLC's integers
\* even when a broken library returns garbage)
DevFields(d) == /\ Len(d.sp) = 3 /\ Len(d.act) = 3 /\ Small(d.v2, 2000000) /\ d.sg \in {-1, 0, 1}
                /\ \A a \in 1..3 : Small(d.sp[a], 1000000) /\ Small(d.act[a], 1000000)
JDevList(tag, v, closed, qs, L) ==
    LET n == Len(qs) IN
    /\ Clause(i, "C16." \o tag \o ".shape", Len(L) = n /\ \A j \in 1..Len(L) : DevFields(L[j]))
    /\ (Len(L) = n /\ \A j \in 1..Len(L) : DevFields(L[j])) =>
        /\ Clause(i, "C16." \o tag \o ".magnitude", \A j \in 1..n : DevMagnitudeOK(v, qs[j], L[j]))
        /\ Clause(i, "C16." \o tag \o ".sign", \A j \in 1..n : DevSignOK(v, closed, qs[j], L[j]))
        /\ Clause(i, "C16." \o tag \o ".reference_is_closest", \A j \in 1..n : DevReferenceOK(v, qs[j], L[j]))
        /\ Clause(i, "C16." \o tag \o ".reconstructs", \A j \in 1..n : DevReconstructsOK(qs[j], L[j]))
\* the set built by line_surface_deviations: one element per measured point, in any order
JLsd(v, closed, qs, L) ==
    LET n == Len(qs) fields == \A j \in 1..Len(L) : DevFields(L[j]) IN
    /\ Clause(i, "C16.lsd.shape", fields)
    /\ fields =>
        /\ Clause(i, "C16.lsd.item_is_deviation_of_a_point", \A k \in 1..Len(L) : DevItemOK(v, closed, qs, L[k]))
        /\ Clause(i, "C16.lsd.holds_every_point",
                  Len(L) = n /\ \A j \in 1..n : \E k \in 1..Len(L) : DevReconstructsOK(qs[j], L[k]))
JCDev(r) ==
    LET o == r.out b == Built(r.pts, 0, r.fc, 2) v == Double(b) closed == IsClosedV(b, 0, 2) IN
    /\ Clause(i, "C16.cdev.curve_built", o.ok)
    /\ o.ok =>
        /\ Clause(i, "C16.cdev.finite", o.finite)
        /\ JDevList("cdev", v, closed, r.qs, o.ind)
        /\ JLsd(v, closed, r.qs, o.set.items)
        /\ Clause(i, "C16.lsd.len", o.set.len = Len(o.set.items))
        /\ LET it == o.set.items n == Len(it)
               vals == {it[j].val : j \in 1..n} IN
           /\ Clause(i, "C16.lsd.max", IF n = 0 THEN ~o.set.max.some ELSE o.set.max.some /\ o.set.max.val = MaxSet(vals))
           /\ Clause(i, "C16.lsd.min", IF n = 0 THEN ~o.set.min.some ELSE o.set.min.some /\ o.set.min.val = MinSet(vals))
           /\ Clause(i, "C16.lsd.zone", IF n = 0 THEN o.set.zone = 0
                                         ELSE AbsC(o.set.zone - 2 * Max2(AbsC(MaxSet(vals)), AbsC(MinSet(vals)))) <= 2)

\* ------------------------------------------------------------------ deviation from a mesh
MFields(d) == /\ Len(d.a) = 3 /\ Len(d.dir) = 3 /\ Len(d.rec) = 3 /\ Len(d.bq) = 3
              /\ Small(d.v2, 2000000) /\ Small(d.da2, 2000000) /\ d.sg \in {-1, 0, 1}
              /\ \A a \in 1..3 : Small(d.a[a], 100000) /\ Small(d.rec[a], 100000) /\ Small(d.dir[a], 20000)
JMDev(r) ==
    LET o == r.out vp == Double(r.vp) n == Len(r.qs)
        shape == Len(o.pt) = n /\ Len(o.pl) = n /\ (\A j \in 1..Len(o.pt) : MFields(o.pt[j])) /\ (\A j \in 1..Len(o.pl) : MFields(o.pl[j])) IN
    /\ Clause(i, "C16.mdev.finite", o.finite)
    /\ Clause(i, "C16.mdev.shape", shape)
    /\ shape =>
        LET convex == ClosedConvex(vp, r.fs) IN
        /\ Clause(i, "C16.mdev.point.measured_point_kept", \A j \in 1..n : o.pt[j].bq = VScale(QM, r.qs[j]))
        /\ Clause(i, "C16.mdev.point.reference_on_surface", \A j \in 1..n : MeshRefOnSurface(vp, r.fs, o.pt[j]))
        /\ Clause(i, "C16.mdev.point.reference_is_closest", \A j \in 1..n : MeshRefClosest(r.qs[j], vp, r.fs, o.pt[j]))
        /\ Clause(i, "C16.mdev.point.magnitude", \A j \in 1..n : MeshPointMagnitudeOK(r.qs[j], vp, r.fs, o.pt[j]))
        /\ Clause(i, "C16.mdev.point.sign", \A j \in 1..n : MeshPointSignOK(r.qs[j], vp, r.fs, convex, o.pt[j]))
        /\ Clause(i, "C16.mdev.point.reconstructs", \A j \in 1..n : MeshReconstructsOK(r.qs[j], o.pt[j]))
        /\ Clause(i, "C16.mdev.plane.measured_point_kept", \A j \in 1..n : o.pl[j].bq = VScale(QM, r.qs[j]))
        /\ Clause(i, "C16.mdev.plane.reference_is_closest", \A j \in 1..n : MeshRefClosest(r.qs[j], vp, r.fs, o.pl[j]))
        /\ Clause(i, "C16.mdev.plane.normal_component", \A j \in 1..n : MeshPlaneOK(r.qs[j], vp, r.fs, o.pl[j]))

Stateless(r) == r.op \in {"tolmap", "dist", "cdev", "mdev"}
Judge(r) ==
    /\ Sane(i, r)
    /\ Ran(r) =>
        CASE r.op = "tolmap" -> JTol(r)
          [] r.op = "dist"   -> JDist(r)
          [] r.op = "cdev"   -> JCDev(r)
          [] r.op = "mdev"   -> JMDev(r)

\* ------------------------------------------------------------------ deviation set history
QS == 16
DevOps == {"ddefault", "dnew", "dpush"}
NextVals(r) == CASE r.op = "ddefault" -> <<>> [] r.op = "dnew" -> r.vs [] OTHER -> Append(ds, r.x)
\* returns TRUE iff every clause holds (all clauses are evaluated and reported)
JDevSet(r, vals) ==
    LET o == r.out n == Len(vals)
        shape == o.len = n /\ Len(o.vals) = n /\ Len(o.tags) = n
        c1 == shape /\ \A k \in 1..n : o.vals[k] = QS * vals[k] /\ o.tags[k] = k
        c2 == IF n = 0 THEN ~o.max.some
              ELSE o.max.some /\ o.max.val = QS * DevMax(vals) /\ o.max.tag \in DevArgs(vals, DevMax(vals))
        c3 == IF n = 0 THEN ~o.min.some
              ELSE o.min.some /\ o.min.val = QS * DevMin(vals) /\ o.min.tag \in DevArgs(vals, DevMin(vals))
        c4 == o.zone = QS * DevZone(vals) IN
    /\ Clause(i, "C16.devset.finite", o.finite)
    /\ Clause(i, "C16.devset.holds_everything_pushed", c1)
    /\ Clause(i, "C16.devset.max_is_true_maximum", c2)
    /\ Clause(i, "C16.devset.min_is_true_minimum", c3)
    /\ Clause(i, "C16.devset.symmetrical_zone", c4)
    /\ o.finite /\ c1 /\ c2 /\ c3 /\ c4

\* ------------------------------------------------------------------ point cloud history
QCL == 1024
CloudOps == {"pnew", "pempty", "pappend", "pmerge", "pselect", "ptransform"}
SeqNear(a, b, k, t) == Len(a) = Len(b) /\ \A j \in 1..Len(a) : Len(a[j]) = 3 /\ \A x \in 1..3 : AbsC(a[j][x] - k * b[j][x]) <= t
CloudMatches(o, c) ==
    /\ o.live = c.live
    /\ c.live => /\ o.hn = c.hn /\ o.hc = c.hc /\ o.len = Len(c.p)
                 /\ SeqNear(o.p, c.p, QCL, 1) /\ SeqNear(o.nrm, c.n, QCL, 1) /\ SeqNear(o.col, c.c, 1, 0)
JCloud(r) ==
    LET o == r.out st == CloudStep(cl, r) ok == st[1] nc == st[2]
        c0 == CloudInDomain(cl, r)
        c1 == o.ok = ok
        c2 == o.live => /\ o.len = Len(o.p) /\ o.empty = (Len(o.p) = 0)
                        /\ (IF o.hn THEN Len(o.nrm) = Len(o.p) ELSE Len(o.nrm) = 0)
                        /\ (IF o.hc THEN Len(o.col) = Len(o.p) ELSE Len(o.col) = 0)
        c3 == ok \/ CloudMatches(o, cl)
        c4 == ~ok \/ CloudMatches(o, nc)
        tag == CASE r.op \in {"pappend", "pmerge"} -> "accepted_appends_in_order" [] r.op = "pselect" -> "selection_keeps_all_arrays"
                 [] r.op = "ptransform" -> "transform_keeps_arrays" [] OTHER -> "constructed_as_given" IN
    /\ Clause(i, "C16.generator.cloud_input_out_of_domain", c0)
    /\ c0 => /\ Clause(i, "C16.cloud.finite", o.finite)
             /\ Clause(i, "C16.cloud.accepts_iff_consistent", c1)
             /\ Clause(i, "C16.cloud.arrays_same_length", c2)
             /\ Clause(i, "C16.cloud.rejected_changes_nothing", c3)
             /\ Clause(i, "C16.cloud." \o tag, c4)
    /\ c0 /\ o.finite /\ c1 /\ c2 /\ c3 /\ c4

Init == i = 1 /\ ds = <<>> /\ cl = NoCloud /\ skip = FALSE
Next ==
    /\ i <= Len(Rec)
    /\ i' = i + 1
    /\ LET r == Rec[i] IN
       IF r.op = "reset" THEN ds' = <<>> /\ cl' = NoCloud /\ skip' = FALSE
       ELSE IF Stateless(r) THEN Judge(r) /\ UNCHANGED <<ds, cl, skip>>
       ELSE IF r.op \notin (DevOps \cup CloudOps) THEN Clause(i, "unknown-op", FALSE) /\ UNCHANGED <<ds, cl, skip>>
       ELSE IF skip THEN UNCHANGED <<ds, cl, skip>>
       ELSE IF ~Ran(r) \/ "no_state" \in DOMAIN r.out THEN Sane(i, r) /\ skip' = TRUE /\ UNCHANGED <<ds, cl>>
       ELSE IF r.op \in DevOps THEN
            LET nv == NextVals(r) ok == JDevSet(r, nv) IN
            /\ skip' = ~ok /\ ds' = nv /\ UNCHANGED cl
       ELSE LET ok == JCloud(r) IN
            /\ skip' = ~ok /\ cl' = (IF CloudInDomain(cl, r) THEN CloudStep(cl, r)[2] ELSE cl) /\ UNCHANGED ds
Spec == Init /\ [][Next]_<<i, ds, cl, skip>>
Post == TLCGet("stats").diameter - 1 = Len(Rec)
=============================================================================
