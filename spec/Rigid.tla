------------------------------- MODULE Rigid -------------------------------
(* C03: exact rigid motions.  A motion is T(p) = (M p)/H + t with M an integer *)
(* 3x3 matrix, H > 0 its common denominator (M/H is a proper rotation built    *)
(* from Pythagorean angles) and t an integer translation.  2D motions are the  *)
(* rotations about z.  Observations are quantised vectors; the relations       *)
(* below state that results commute with T (points) or with the rotation only  *)
(* (directions), and that scalars are unchanged.                               *)
EXTENDS RayCast

MRow(M, a) == M[a]
MApply(M, w) == <<VDot(M[1], w), VDot(M[2], w), VDot(M[3], w)>>
MMul(A, B) == LET col(j) == <<B[1][j], B[2][j], B[3][j]>> IN
    [a \in 1..3 |-> <<VDot(A[a], col(1)), VDot(A[a], col(2)), VDot(A[a], col(3))>>]
MTrans(M) == [a \in 1..3 |-> <<M[1][a], M[2][a], M[3][a]>>]
Ident == << <<1,0,0>>, <<0,1,0>>, <<0,0,1>> >>
Rz(c, s) == << <<c, -s, 0>>, <<s, c, 0>>, <<0, 0, 1>> >>      \* times 1/h
Ry(c, s, h) == << <<c, 0, s>>, <<0, h, 0>>, <<-s, 0, c>> >>
Rx(c, s, h) == << <<h, 0, 0>>, <<0, c, -s>>, <<0, s, c>> >>
RzH(c, s, h) == << <<c, -s, 0>>, <<s, c, 0>>, <<0, 0, h>> >>

\* M/H is a proper rotation
IsRotation(M, H) ==
    /\ MMul(M, MTrans(M)) = << <<H*H,0,0>>, <<0,H*H,0>>, <<0,0,H*H>> >>
    /\ VDot(M[1], VCross(M[2], M[3])) = H * H * H

QX == 4096       \* points, per lattice unit
QNr == 8192      \* unit vectors
QSc == 4096      \* scalars (lengths, distances), per lattice unit

\* r1 (quantised point) is T applied to r0 (quantised point)
PointMoved(T, r0, r1, tol) == LET w == MApply(T.M, r0) IN
    \A a \in 1..3 : AbsC(T.H * (r1[a] - QX * T.t[a]) - w[a]) <= T.H * tol
\* r1 (quantised direction) is the rotation of r0
DirRotated(T, r0, r1, tol) == LET w == MApply(T.M, r0) IN
    \A a \in 1..3 : AbsC(T.H * r1[a] - w[a]) <= T.H * tol
ScalarSame(s0, s1, tol) == AbsC(s0 - s1) <= tol
SeqMoved(T, w0, w1, tol) == Len(w0) = Len(w1) /\ \A k \in 1..Len(w0) : PointMoved(T, w0[k], w1[k], tol)
SeqRotated(T, w0, w1, tol) == Len(w0) = Len(w1) /\ \A k \in 1..Len(w0) : DirRotated(T, w0[k], w1[k], tol)
SeqNear(w0, w1, tol) == Len(w0) = Len(w1) /\ \A k \in 1..Len(w0) : \A a \in 1..3 : AbsC(w0[k][a] - w1[k][a]) <= tol

\* exact integral motions (quarter turns about z and integer shifts) act on lattice data itself
Quarter(k) == IF k = 0 THEN Rz(1, 0) ELSE IF k = 1 THEN Rz(0, 1) ELSE IF k = 2 THEN Rz(-1, 0) ELSE Rz(0, -1)
LatticeMove(k, t, p) == VAdd(MApply(Quarter(k), p), t)
LatticeMoveSeq(k, t, s) == [j \in 1..Len(s) |-> LatticeMove(k, t, s[j])]
=============================================================================
