CONSTANTS
  Pyth = "all"
  NMulti = 12
SPECIFICATION Spec
INVARIANT Emit PoseLaws DerivativeLaws ExtractionLaws
CHECK_DEADLOCK FALSE
