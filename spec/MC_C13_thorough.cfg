CONSTANTS
  NPlanes = 7
  NMotions = 4
SPECIFICATION Spec
INVARIANT Emit Laws
CHECK_DEADLOCK FALSE
