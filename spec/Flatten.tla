------------------------------ MODULE Flatten ------------------------------
(* C20: conformal flattening of disk meshes and the UV round trip.            *)
(* Disk classification comes from MeshTopo (one boundary loop, one patch,     *)
(* Euler characteristic 1); the flattening of a planar disk must preserve     *)
(* every squared edge length and keep every triangle positively oriented;     *)
(* two poses of one mesh must give the same pairwise squared uv distances.    *)
EXTENDS Rigid, MeshTopo

UsedVerts(fs) == UNION {{fs[k][1], fs[k][2], fs[k][3]} : k \in 1..Len(fs)}
Euler(fs) == Cardinality(UsedVerts(fs)) - Cardinality(AllUE(fs)) + Len(fs)
IsDisk(fs) ==
    /\ Manifold(fs) /\ Consistent(fs)
    /\ Cardinality(PatchClasses(fs)) = 1
    /\ Cardinality(LoopsAsSets(BoundaryLoopsAlg(fs))) = 1
    /\ Euler(fs) = 1
\* the three classes the property lists as "must be rejected"
ClearlyNotDisk(fs) == ~Manifold(fs) \/ BoundaryUE(fs) = {} \/ Cardinality(LoopsAsSets(BoundaryLoopsAlg(fs))) >= 2

QU == 4096      \* uv coordinates per lattice unit
UVD2(uv, a, b) == (uv[a][1] - uv[b][1]) * (uv[a][1] - uv[b][1]) + (uv[a][2] - uv[b][2]) * (uv[a][2] - uv[b][2])
\* squared uv length of every edge equals its exact squared 3D length (vp lattice positions, 0-based ids)
EdgeIsometry(vp, fs, uv) == \A e \in AllUE(fs) :
    LET d2 == D2(vp[e[1] + 1], vp[e[2] + 1]) q2 == UVD2(uv, e[1] + 1, e[2] + 1) IN
    AbsC(q2 - QU * QU * d2) <= (QU * QU * d2) \div 2000 + 4 * QU
\* every triangle keeps positive orientation
Orient(uv, f) == (uv[f[2] + 1][1] - uv[f[1] + 1][1]) * (uv[f[3] + 1][2] - uv[f[1] + 1][2])
               - (uv[f[2] + 1][2] - uv[f[1] + 1][2]) * (uv[f[3] + 1][1] - uv[f[1] + 1][1])
NoFold(fs, uv) == \A k \in 1..Len(fs) : Orient(uv, fs[k]) > 0
\* exact doubled area of the planar lattice triangle = norm of the cross product (integer for axis-aligned planar disks)
\* two flattenings agree up to a planar rigid motion: all pairwise squared distances agree
\* (differences are halved before squaring so that disks of up to 20 units stay inside TLC's 32-bit integers)
UVD2h(uv, a, b) == LET dx == (uv[a][1] - uv[b][1]) \div 2 dy == (uv[a][2] - uv[b][2]) \div 2 IN dx * dx + dy * dy
SameShape(uv1, uv2) == Len(uv1) = Len(uv2) /\ \A a, b \in 1..Len(uv1) :
    AbsC(UVD2h(uv1, a, b) - UVD2h(uv2, a, b)) <= (UVD2h(uv1, a, b) \div 1000) + 4 * QU
=============================================================================
