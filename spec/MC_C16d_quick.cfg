CONSTANTS
  Vals <- ValsQuick
  MaxNew = 2
  Pushes = 3
  Scale = 0
SPECIFICATION Spec
INVARIANT Emit AlgCorrect AlgIndicesValid ZoneLaw
CHECK_DEADLOCK FALSE
