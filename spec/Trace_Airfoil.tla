---------------------------- MODULE Trace_Airfoil ----------------------------
(* Judge for C10.                                                              *)
EXTENDS Airfoil, JudgeBase
\* how far an edge point may be from the section: methods that place the point on the section itself (ExactClass) get the analysis
\* tolerance + cap sagitta + 20 (edge_tol_mc); the arc-based methods (const, ransac, converge) place it on an arc FITTED to the section
\* within the analysis tolerance and may evaluate that arc beyond the span it was fitted on, where it leaves the section faster
ETol(r, kind) == IF kind \in ExactClass THEN r.edge_tol_mc ELSE 5 * r.edge_tol_mc
VARIABLE i

GLen(r) == LET c == r.camber IN 0   \* (unused)
PNear2(p, q, t) == AbsF(p[1] - q[1]) <= t /\ AbsF(p[2] - q[2]) <= t

\* arc length of the generating camber in micro-chords: largest closest-point coordinate any station can report
GenLen(v) == LET S == {v.stations[k][14] : k \in 1..Len(v.stations)} IN CHOOSE m \in S : \A x \in S : x <= m

JVariant(r, v, tag) ==
    LET st == v.stations glen == r.glen_mc IN
    /\ Clause(i, "C10." \o tag \o ".finite", v.finite)
    /\ Clause(i, "C10." \o tag \o ".stations_present", Len(st) >= 5)
    /\ Len(st) >= 5 =>
        /\ Clause(i, "C10." \o tag \o ".inscribed", StationsInscribed(st, glen))
        /\ Clause(i, "C10." \o tag \o ".contacts_on_section_one_radius_away", ContactsOnSection(st))
        /\ Clause(i, "C10." \o tag \o ".contacts_on_opposite_sides", ContactsOppositeSides(st, glen))
        /\ Clause(i, "C10." \o tag \o ".stations_advance", Monotone(st))
        /\ Clause(i, "C10." \o tag \o ".leading_to_trailing", TrueSense(st, glen))
        /\ Clause(i, "C10." \o tag \o ".centres_on_camber_radii_on_law", FollowsLaw(st, glen))
        /\ Clause(i, "C10." \o tag \o ".max_thickness_recovered", AbsF(v.tmax.r - r.rmax_mc) <= 300
                                                                  /\ (v.upper.some => v.tmax.thk_ok /\ AbsF(v.tmax.thk - 2 * v.tmax.r) <= 40))
    \* (ConvergeTangentEdge documents "no edge" as a regular answer when no camber position meets its tolerance)
    /\ Clause(i, "C10." \o tag \o ".edges_found", (v.le.some \/ r.le.kind = "converge") /\ (v.te.some \/ r.te.kind = "converge"))
    /\ (v.le.some /\ v.te.some) =>
        /\ Clause(i, "C10." \o tag \o ".edge_points_finite", v.le.fin /\ v.te.fin)
        /\ (v.le.fin /\ v.te.fin) =>
            /\ Clause(i, "C10." \o tag \o ".edge_points_on_section",
                   (v.le.geom = "open" \/ v.le.dsec <= ETol(r, r.le.kind)) /\ (v.te.geom = "open" \/ v.te.dsec <= ETol(r, r.te.kind)))
            /\ Clause(i, "C10." \o tag \o ".edge_points_end_the_camber", PNear2(v.cam_first, v.le.p, 4) /\ PNear2(v.cam_last, v.te.p, 4))
            \* the located edges are the ends of the generating envelope (checked at the ends the section really has)
            /\ Clause(i, "C10." \o tag \o ".edge_points_at_true_ends",
                   /\ (r.le_chk => PNear2(v.le.p, r.out.le_true, ClassTol(r.le.kind, TEdgeTruthTight, TEdgeTruthMid)))
                   /\ (r.te_chk => PNear2(v.te.p, r.out.te_true, ClassTol(r.te.kind, TEdgeTruthTight, TEdgeTruthMid))))
            /\ Clause(i, "C10." \o tag \o ".surfaces_present", v.upper.some /\ v.lower.some)
            /\ (v.upper.some /\ v.lower.some) =>
                /\ Clause(i, "C10." \o tag \o ".surfaces_partition_perimeter", AbsF(v.upper.len + v.lower.len - v.perimeter) <= TPartition
                                                                               /\ v.upper.maxdev <= TPartition /\ v.lower.maxdev <= TPartition)
                /\ Clause(i, "C10." \o tag \o ".upper_on_requested_side", v.up_side = 1)
                /\ r.closed => Clause(i, "C10." \o tag \o ".surfaces_meet_at_edges",
                       LET tl == ETol(r, r.le.kind) + 40 tt == ETol(r, r.te.kind) + 40 IN
                       /\ (PNear2(v.upper.a, v.le.p, tl) \/ PNear2(v.upper.b, v.le.p, tl)) /\ (PNear2(v.upper.a, v.te.p, tt) \/ PNear2(v.upper.b, v.te.p, tt))
                       /\ (PNear2(v.lower.a, v.le.p, tl) \/ PNear2(v.lower.b, v.le.p, tl)) /\ (PNear2(v.lower.a, v.te.p, tt) \/ PNear2(v.lower.b, v.te.p, tt)))

JInvariance(r, base, v, tag) ==
    (base.ok /\ v.ok /\ base.le.some /\ v.le.some /\ base.te.some /\ v.te.some /\ base.le.fin /\ v.le.fin /\ base.te.fin /\ v.te.fin) =>
        Clause(i, "C10." \o tag \o ".same_result_as_unmoved_section",
               /\ AbsF(base.tmax.r - v.tmax.r) <= TInvR
               /\ AbsF(base.camber_len - v.camber_len) <= TInvLen
               /\ PNear2(base.le.p, v.le.p, ClassTol(r.le.kind, TInvEdgeTight, TInvEdgeMid))
               /\ PNear2(base.te.p, v.te.p, ClassTol(r.te.kind, TInvEdgeTight, TInvEdgeMid))
               /\ PNear2(base.tmax.c, v.tmax.c, TInvTmax))

Tags == <<"as_given", "moved", "reversed", "start_rotated", "start_rotated2">>
JAnalyze(r) ==
    LET vs == r.out.v IN
    /\ Clause(i, "C10.shape", Len(vs) = Len(r.variants) /\ Len(vs) <= 5)
    /\ (Len(vs) = Len(r.variants) /\ Len(vs) <= 5) =>
        /\ \A k \in 1..Len(vs) : Clause(i, "C10." \o Tags[k] \o ".accepted", vs[k].ok)
        /\ \A k \in 1..Len(vs) : vs[k].ok => JVariant(r, vs[k], Tags[k])
        /\ \A k \in 2..Len(vs) : JInvariance(r, vs[1], vs[k], Tags[k])

JLivelock(r) == Clause(i, "C10.refinement_terminates", r.out.setup /\ r.out.returned)

Judge(r) ==
    /\ IF r.op = "livelock" /\ r.out.timeout THEN Clause(i, "C10.refinement_terminates", FALSE) ELSE Sane(i, r)
    /\ Ran(r) => CASE r.op = "analyze" -> JAnalyze(r) [] r.op = "livelock" -> JLivelock(r) [] r.op = "reset" -> TRUE [] OTHER -> Clause(i, "unknown-op", FALSE)
Init == i = 1
Next == i <= Len(Rec) /\ Judge(Rec[i]) /\ i' = i + 1
Spec == Init /\ [][Next]_i
Post == TLCGet("stats").diameter - 1 = Len(Rec)
=============================================================================
