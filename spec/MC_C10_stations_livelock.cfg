CONSTANTS
  MaxCoord = 6
  Gap = 2
  MayFail = TRUE
SPECIFICATION Spec
PROPERTY Terminates
CHECK_DEADLOCK FALSE
