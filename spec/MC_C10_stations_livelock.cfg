CONSTANTS
  MaxCoord = 6
  Gap = 2
  MayFail = TRUE
  Guarded = FALSE
SPECIFICATION Spec
PROPERTY Terminates
CHECK_DEADLOCK FALSE
