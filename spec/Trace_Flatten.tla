---------------------------- MODULE Trace_Flatten ----------------------------
(* Judge for C20.                                                              *)
EXTENDS Flatten, JudgeBase
VARIABLE i

FlatOK(tag, r, o) ==
    LET fs == r.mesh.faces vp == r.mesh.vpos IN
    /\ Clause(i, "C20." \o tag \o ".accepts_disk", o.ok)
    /\ o.ok =>
        /\ Clause(i, "C20." \o tag \o ".one_finite_uv_per_vertex", o.finite /\ Len(o.uv) = Len(vp))
        /\ (o.finite /\ Len(o.uv) = Len(vp) /\ r.mesh.planar) =>
             /\ Clause(i, "C20." \o tag \o ".edge_lengths_kept", EdgeIsometry(vp, fs, o.uv))
             /\ Clause(i, "C20." \o tag \o ".no_fold", NoFold(fs, o.uv))

JFlatten(r) ==
    LET o == r.out IN
    IF r.disk THEN
        /\ FlatOK("pose1", r, o.a) /\ FlatOK("pose2", r, o.b)
        /\ (o.a.ok /\ o.b.ok /\ Len(o.a.uv) = Len(r.mesh.vpos) /\ Len(o.b.uv) = Len(r.mesh.vpos)) =>
             Clause(i, "C20.pose_independent", SameShape(o.a.uv, o.b.uv))
    ELSE Clause(i, "C20.rejects_non_disk", ~o.a.ok /\ ~o.b.ok)

\* uv round trip on a planar lattice disk posed by T with uv = lattice (x, y): probe = barycentric sixths
JUv(r) ==
    LET o == r.out T == r.T vp == r.mesh.vpos fs == r.mesh.faces
        Exact6(pr) == LET f == fs[pr.face + 1] IN     \* 6 * exact 3D (unposed) point
            VAdd(VAdd(VScale(pr.bc[1], vp[f[1] + 1]), VScale(pr.bc[2], vp[f[2] + 1])), VScale(pr.bc[3], vp[f[3] + 1]))
        To3OK(pr) == /\ pr.to3.some
                     \* 6 H (p - QX t) = QX M (6 exact)
                     /\ LET w == MApply(T.M, Exact6(pr)) IN
                        \A a \in 1..3 : AbsC(6 * T.H * (pr.to3.p[a] - QX * T.t[a]) - QX * w[a]) <= 6 * T.H * 6
                     \* normal = +- R (0,0,1)
                     /\ (DirRotated(T, <<0, 0, QNr>>, pr.to3.n, 6) \/ DirRotated(T, <<0, 0, -QNr>>, pr.to3.n, 6))
        BackIs(pr, b) == /\ b.some
                         /\ AbsC(6 * b.uv[1] - QU * Exact6(pr)[1]) <= 6 * 6 /\ AbsC(6 * b.uv[2] - QU * Exact6(pr)[2]) <= 6 * 6
                         /\ AbsC(b.depth) <= 6
        BackOK(pr) == BackIs(pr, pr.back) IN
    /\ Clause(i, "C20.uv.ok", o.ok)
    /\ o.ok =>
        /\ Clause(i, "C20.uv.finite", o.finite)
        /\ ClauseAll(i, "C20.uv.to_3d", 1..Len(o.probes), LAMBDA k : To3OK(o.probes[k]))
        /\ ClauseAll(i, "C20.uv.round_trip", 1..Len(o.probes), LAMBDA k : o.probes[k].to3.some => BackOK(o.probes[k]))
        \* the same round trip with the point given in the lattice frame and the pose handed over as `transform`
        /\ ClauseAll(i, "C20.uv.round_trip_with_transform", 1..Len(o.probes), LAMBDA k : o.probes[k].to3.some => BackIs(o.probes[k], o.probes[k].back_t))

Judge(r) ==
    /\ Sane(i, r)
    /\ Ran(r) => CASE r.op = "flatten" -> JFlatten(r) [] r.op = "uv" -> JUv(r) [] r.op = "reset" -> TRUE [] OTHER -> Clause(i, "unknown-op", FALSE)
Init == i = 1
Next == i <= Len(Rec) /\ Judge(Rec[i]) /\ i' = i + 1
Spec == Init /\ [][Next]_i
Post == TLCGet("stats").diameter - 1 = Len(Rec)
=============================================================================
