------------------------------ MODULE MC_C14alg ------------------------------
(* L2 for C14: transcription of TriangleFilter::{facing -> mutate,            *)
(* near_mesh -> to_check / MeshNearCheck::near_check / mutate_pass_list}      *)
(* (src/geom3/mesh/filtering.rs), one action per loop iteration, one action   *)
(* per near_check call (the critical section around the per-vertex memo),     *)
(* iteration over the HashSet `indices` as \E.  The geometry is abstracted    *)
(* into arbitrary truth tables chosen in Init:                                *)
(*    psat[f]    facing predicate of face f                                   *)
(*    vok[v]     vertex v projects onto the reference within the distance     *)
(*               (and planar) tolerance - depends on the vertex alone         *)
(*    aok[f][k]  the normal of face f is within the angle tolerance of the    *)
(*               reference triangle that the k-th vertex of f projects onto   *)
(* so the result covers every mesh with this connectivity, every reference    *)
(* mesh and every tolerance combination.  TLC checks L2 |= L1: whatever the   *)
(* hash order, the final selection is Apply(mode, start, {f : FaceSat(f)}).   *)
(*                                                                            *)
(* Memo = "vertex"  : the repaired library (memo holds the vertex-only part)  *)
(* Memo = "verdict" : the pinned library (memo holds the first verdict that   *)
(*                    was computed for the vertex, angle test of *that* face  *)
(*                    included) - negative configuration MC_C14alg_d17.cfg:   *)
(*                    TLC finds the order-dependent counterexample (D17).     *)
EXTENDS Selection, TLC
CONSTANTS Topo, Memo, AokPerVertex, Rotate

VARIABLES kind, psat, vok, aok, allp, mode, sel0, rot,      \* inputs, fixed in Init
          sel, todo, passes, memo, cur, k, pc               \* state of the algorithm
inputs == <<kind, psat, vok, aok, allp, mode, sel0, rot>>
vars == <<kind, psat, vok, aok, allp, mode, sel0, rot, sel, todo, passes, memo, cur, k, pc>>

BaseFaces == CASE Topo = "fold2"  -> << <<2, 3, 1>>, <<2, 4, 3>> >>                      \* two faces sharing an edge
               [] Topo = "fan3"   -> << <<1, 2, 3>>, <<1, 3, 4>>, <<1, 4, 5>> >>          \* three faces sharing a vertex
               [] Topo = "strip3" -> << <<1, 2, 3>>, <<3, 2, 4>>, <<3, 4, 5>> >>
NF == Len(BaseFaces)
NV == IF Topo = "fold2" THEN 4 ELSE 5
Fs == 1..NF
Vs == 1..NV
\* the order in which a face lists its vertices decides which near_check calls are short-circuited
Vtx(f, j) == BaseFaces[f][((j - 1 + rot[f]) % 3) + 1]

AllTrue(S) == [x \in S |-> TRUE]
AokSpace == IF AokPerVertex THEN [Fs -> [1..3 -> BOOLEAN]]
            ELSE {[f \in Fs |-> [j \in 1..3 |-> b[f]]] : b \in [Fs -> BOOLEAN]}

Init == /\ kind \in {"facing", "near"}
        /\ IF kind = "facing"
           THEN /\ psat \in [Fs -> BOOLEAN] /\ vok = AllTrue(Vs) /\ aok = [f \in Fs |-> AllTrue(1..3)] /\ allp = TRUE
                /\ rot = [f \in Fs |-> 0]
           ELSE /\ psat = AllTrue(Fs) /\ vok \in [Vs -> BOOLEAN] /\ aok \in AokSpace /\ allp \in BOOLEAN
                /\ rot \in (IF Rotate THEN [Fs -> 0..2] ELSE {[f \in Fs |-> 0]})
        /\ mode \in {"add", "remove", "keep"}
        /\ sel0 \in SUBSET Fs
        /\ sel = sel0 /\ todo = {} /\ passes = {} /\ memo = [v \in Vs |-> "none"] /\ cur = 0 /\ k = 0 /\ pc = "start"

\* ---------------------------------------------------------------- L1
VertexSat(f, j) == vok[Vtx(f, j)] /\ aok[f][j]
FaceSat(f) == IF kind = "facing" THEN psat[f]
              ELSE IF allp THEN \A j \in 1..3 : VertexSat(f, j) ELSE \E j \in 1..3 : VertexSat(f, j)
Expected == Apply(mode, sel0, {f \in Fs : FaceSat(f)})

MinOf(S) == CHOOSE x \in S : \A y \in S : x <= y
\* Add walks 0..n in index order; Remove / Keep walk the HashSet in an arbitrary order
Candidates == IF mode = "add" THEN {MinOf(todo)} ELSE todo

\* ---------------------------------------------------------------- facing -> mutate(mode, predicate)
FStart == /\ pc = "start" /\ kind = "facing"
          /\ todo' = (IF mode = "add" THEN Fs ELSE sel) /\ pc' = "floop"
          /\ UNCHANGED <<inputs, sel, passes, memo, cur, k>>
FIter == /\ pc = "floop" /\ todo # {}
         /\ \E f \in Candidates :
              /\ todo' = todo \ {f}
              /\ sel' = CASE mode = "add"    -> (IF f \notin sel /\ psat[f] THEN sel \cup {f} ELSE sel)
                          [] mode = "remove" -> (IF psat[f] THEN sel \ {f} ELSE sel)          \* retain(!pred)
                          [] OTHER           -> (IF psat[f] THEN sel ELSE sel \ {f})          \* retain(pred)
         /\ UNCHANGED <<inputs, passes, memo, cur, k, pc>>
FDone == /\ pc = "floop" /\ todo = {} /\ pc' = "done" /\ UNCHANGED <<inputs, sel, todo, passes, memo, cur, k>>

\* ---------------------------------------------------------------- near_mesh
ToCheck == /\ pc = "start" /\ kind = "near"
           /\ todo' = (IF mode = "add" THEN Fs \ sel ELSE sel) /\ pc' = "pick"
           /\ UNCHANGED <<inputs, sel, passes, memo, cur, k>>
PickFace == /\ pc = "pick" /\ todo # {}
            /\ \E f \in Candidates : /\ todo' = todo \ {f} /\ cur' = f /\ k' = 1 /\ pc' = "vertex"
            /\ UNCHANGED <<inputs, sel, passes, memo>>
\* one call of MeshNearCheck::near_check(tri[k], face.normal())
NearCheck ==
    /\ pc = "vertex"
    /\ LET v == Vtx(cur, k)
           hit == memo[v] # "none"
           fresh == IF Memo = "verdict" THEN vok[v] /\ aok[cur][k] ELSE vok[v]       \* what gets stored on a miss
           stored == IF hit THEN memo[v] = "T" ELSE fresh
           res == IF Memo = "verdict" THEN stored ELSE stored /\ aok[cur][k]
           decided == IF allp THEN ~res \/ k = 3 ELSE res \/ k = 3                    \* && / || short circuit
       IN /\ memo' = IF hit THEN memo ELSE [memo EXCEPT ![v] = IF fresh THEN "T" ELSE "F"]
          /\ IF decided THEN /\ passes' = (IF res THEN passes \cup {cur} ELSE passes)
                             /\ pc' = "pick" /\ k' = 0 /\ cur' = 0
             ELSE /\ k' = k + 1 /\ UNCHANGED <<passes, pc, cur>>
    /\ UNCHANGED <<inputs, sel, todo>>
\* mutate_pass_list (its loops insert / remove / retain element-wise; the outcome does not depend on their order)
PassList == /\ pc = "pick" /\ todo = {}
            /\ sel' = CASE mode = "add" -> sel \cup passes [] mode = "remove" -> sel \ passes [] OTHER -> sel \cap passes
            /\ pc' = "done" /\ UNCHANGED <<inputs, todo, passes, memo, cur, k>>

Next == FStart \/ FIter \/ FDone \/ ToCheck \/ PickFace \/ NearCheck \/ PassList
Spec == Init /\ [][Next]_vars /\ WF_vars(Next)

\* ---------------------------------------------------------------- L2 |= L1
Refines == pc = "done" => sel = Expected
\* the memo only ever holds the vertex-only answer (inductive reason why the repaired algorithm is order independent)
MemoSound == Memo = "vertex" => \A v \in Vs : memo[v] # "none" => (memo[v] = "T") = vok[v]
\* faces judged so far are judged by the per-face predicate alone
Visited == (IF mode = "add" THEN Fs \ sel0 ELSE sel0) \ (todo \cup (IF cur = 0 THEN {} ELSE {cur}))
PassesExact == (Memo = "vertex" /\ kind = "near" /\ pc \in {"pick", "vertex"}) => passes = {f \in Visited : FaceSat(f)}
FacingExact == (kind = "facing" /\ pc = "floop") =>
                   LET seen == (IF mode = "add" THEN Fs ELSE sel0) \ todo IN
                   sel = {f \in Fs : IF f \in seen THEN f \in Expected ELSE f \in sel0}
\* bounded work: every face is taken at most once, at most three near_check calls per face
Bounded == /\ todo \subseteq Fs /\ passes \subseteq Fs /\ sel \subseteq Fs /\ k \in 0..3
           /\ pc = "vertex" => (cur \in Fs /\ cur \notin todo /\ k \in 1..3)
Terminates == <>(pc = "done")
=============================================================================
