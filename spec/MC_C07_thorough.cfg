CONSTANTS
  NRot = 6
  NShift = 4
SPECIFICATION Spec
INVARIANT Emit Proper
CHECK_DEADLOCK FALSE
