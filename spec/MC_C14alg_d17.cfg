CONSTANTS
  Topo = "fold2"
  Memo = "verdict"
  AokPerVertex = FALSE
  Rotate = FALSE
SPECIFICATION Spec
INVARIANT Refines
CHECK_DEADLOCK FALSE
