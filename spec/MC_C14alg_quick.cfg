CONSTANTS
  Topo = "fold2"
  Memo = "vertex"
  AokPerVertex = FALSE
  Rotate = TRUE
SPECIFICATION Spec
INVARIANT Refines MemoSound PassesExact FacingExact Bounded
PROPERTY Terminates
CHECK_DEADLOCK FALSE
