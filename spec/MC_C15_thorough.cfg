CONSTANTS
  G2 = 4
  N2 = 3
  G3 = 3
  N3 = 2
  QStep2 = 1
  QStep3 = 2
  SubAll = TRUE
  NH = 5
  GH = 3
  NP = 4
  Reps = 3
SPECIFICATION Spec
INVARIANT Emit Laws
CHECK_DEADLOCK FALSE
