---------------------------- MODULE Trace_Circles ----------------------------
(* Judge for C11: every observation recorded from the real library must be  *)
(* allowed by the L1 relations of module Circles.  The expected side of     *)
(* every relation is computed here from the exact integer inputs.           *)
EXTENDS Circles, JudgeBase

VARIABLE i

IsPt(p) == Len(p) = 2
IsPts(ps) == \A j \in 1..Len(ps) : IsPt(ps[j])
Sub(o) == ~o.panic                       \* a guarded sub-call of the harness ran to completion
\* which L1 branch a record exercises (summed into the evidence file by the runner: vacuity check)
Note(name) == PrintT(<<"NOTE", name, 1>>)

-----------------------------------------------------------------------------
\* intersections of two circles, in one direction
JInter(r, c0, c1, o, tag) ==
    /\ Clause(i, "C11.cc." \o tag \o ".panic", Sub(o))
    /\ Sub(o) =>
         /\ Clause(i, "C11.cc." \o tag \o ".finite", o.finite)
         /\ Clause(i, "C11.cc." \o tag \o ".count", Len(o.pts) = CCCount(c0, c1))
         /\ (o.finite /\ IsPts(o.pts)) =>
              /\ Clause(i, "C11.cc." \o tag \o ".on_both", CCOnBoth(c0, c1, o.pts, r.q))
              /\ Clause(i, "C11.cc." \o tag \o ".distinct", CCDistinct(c0, c1, o.pts, r.q))

JInterval(r, c0, c1, o) ==
    /\ Clause(i, "C11.interval.panic", Sub(o))
    /\ Sub(o) =>
         /\ Clause(i, "C11.interval.finite", o.finite)
         /\ Clause(i, "C11.interval.some", o.some = (CCCount(c0, c1) > 0))
         /\ (o.finite /\ o.some /\ CCCount(c0, c1) > 0) =>
              /\ Clause(i, "C11.interval.ends_on_both", IsPt(o.s) /\ IsPt(o.e) /\ IvEndsOK(c0, c1, o.s, o.e, r.q))
              /\ Clause(i, "C11.interval.contains_other_centre", IsPt(o.m) /\ IvMidOK(c0, c1, o.m, r.q))

JOuter(r, c0, c1, o) ==
    LET cls == OuterClass(c0, c1) IN
    /\ Clause(i, "C11.outer.panic", Sub(o))
    /\ Sub(o) =>
         /\ Clause(i, "C11.outer.finite", o.finite)
         /\ Clause(i, "C11.outer.none", cls = "none" => ~o.some)
         /\ Clause(i, "C11.outer.some", cls = "two" => o.some)
         /\ (cls = "two" /\ o.some /\ o.finite /\ Len(o.s0) = 4 /\ Len(o.s1) = 4) =>
              /\ Clause(i, "C11.outer.first_touches_both", OuterSegOK(c0, c1, o.s0, r.q))
              /\ Clause(i, "C11.outer.second_touches_both", OuterSegOK(c0, c1, o.s1, r.q))
              /\ (SegBounded(c0, c1, o.s0, r.q) /\ SegBounded(c0, c1, o.s1, r.q)) =>
                    Clause(i, "C11.outer.order", OuterOrderOK(c0, c1, o.s0, o.s1, r.q))

\* the cached box of a circle is centre -+ radius (contains the circle and touches it on all four sides)
CircleBoxOK(bb, c, q) == /\ Len(bb) = 4
                         /\ AbsC(bb[1] - (c[1] - c[3]) * q) <= 1 /\ AbsC(bb[2] - (c[2] - c[3]) * q) <= 1
                         /\ AbsC(bb[3] - (c[1] + c[3]) * q) <= 1 /\ AbsC(bb[4] - (c[2] + c[3]) * q) <= 1

\* two large circles of nearly equal radii, far apart: two outer tangents, each touching both circles tangentially on the same
\* side (relative residuals in units of 2^-30, bound 2^-24), left one first
JCCNear(r) ==
    LET o == r.out IN
    /\ Clause(i, "C11.outer.panic", Sub(o))
    /\ Sub(o) =>
        /\ Clause(i, "C11.outer.some", o.some /\ Len(o.segs) = 2)
        /\ (o.some /\ Len(o.segs) = 2) =>
            /\ Clause(i, "C11.outer.finite", o.finite)
            /\ Clause(i, "C11.outer.near_equal_radii_touch_both", \A k \in 1..2 : LET g == o.segs[k] IN
                   AbsC(g.on0) <= 64 /\ AbsC(g.on1) <= 64 /\ AbsC(g.perp0) <= 64 /\ AbsC(g.perp1) <= 64 /\ AbsC(g.same) <= 64)
            /\ Clause(i, "C11.outer.order", o.segs[1].side > 0 /\ o.segs[2].side < 0)

\* tangent points from a point d/r = 1e3 .. 1e8 radii away (derived observations, unit 2^-30): both exist, lie on the circle, the
\* tangent is perpendicular to the radius, left one first
JTanFar(r) ==
    LET o == r.out IN
    /\ Clause(i, "C11.tangent.panic", Sub(o))
    /\ Sub(o) =>
        /\ Clause(i, "C11.tangent.some", o.some /\ Len(o.pts) = 2)
        /\ (o.some /\ Len(o.pts) = 2) =>
            /\ Clause(i, "C11.tangent.finite", o.finite)
            /\ Clause(i, "C11.tangent.far_point_on_circle_and_perpendicular", \A k \in 1..2 : AbsC(o.pts[k].on) <= 64 /\ AbsC(o.pts[k].perp) <= 64)
            /\ Clause(i, "C11.tangent.far_order", o.pts[1].side * o.pts[2].side < 0)
\* three points that turn by an angle whose sine is at least 1e-4 (the generator guarantees it; the library's own collinearity threshold is
\* 1e-6): a circle exists, passes through them (relative residuals), and the arc starts and ends on the outer two
JArc3Far(r) ==
    LET o == r.out IN
    /\ Clause(i, "C11.arc3.panic", Sub(o.circ) /\ Sub(o.arc))
    /\ (Sub(o.circ) /\ Sub(o.arc)) =>
        /\ Clause(i, "C11.arc3.gently_curved_triple_accepted", o.circ.ok)
        /\ o.circ.ok => Clause(i, "C11.arc3.gently_curved_triple_on_circle", o.circ.finite /\ \A k \in 1..3 : AbsC(o.circ.res[k]) <= 64)
        /\ Clause(i, "C11.arc3.gently_curved_ends", o.arc.finite /\ AbsC(o.arc.start) <= 64 /\ AbsC(o.arc.end) <= 64)

\* circle centred on the origin (radius R), segment on the line y = lvl from x = -far (hundreds of millions of units away)
\* to x = xe: the crossings are (-h, lvl) and (h, lvl) with h^2 = R^2 - lvl^2 (h is given and verified), as far as they lie
\* on the segment; a tangent line touches at (0, lvl)
JSegFar(r) ==
    LET o == r.out R == r.c[3] l == r.lvl h == r.h
        want == IF l * l > R * R THEN {}
                ELSE IF l * l = R * R THEN (IF r.xe >= 0 THEN {<<0, l>>} ELSE {})
                ELSE {p \in {<<-h, l>>, <<h, l>>} : p[1] <= r.xe}
        near(pq, p) == AbsC(pq[1] - p[1] * r.q) <= 2 /\ AbsC(pq[2] - p[2] * r.q) <= 2 IN
    /\ Clause(i, "C11.segment.far.well_formed", r.c[1] = 0 /\ r.c[2] = 0 /\ (l * l >= R * R \/ h * h = R * R - l * l) /\ r.far > R)
    /\ Clause(i, "C11.segment.panic", Sub(o))
    /\ Sub(o) =>
        /\ Clause(i, "C11.segment.finite", o.finite)
        /\ (o.finite /\ IsPts(o.pts)) =>
            /\ Clause(i, "C11.segment.count", Len(o.pts) = Cardinality(want))
            /\ Clause(i, "C11.segment.on_both", \A j \in 1..Len(o.pts) : \E p \in want : near(o.pts[j], p))
            /\ Clause(i, "C11.segment.complete", \A p \in want : \E j \in 1..Len(o.pts) : near(o.pts[j], p))

JCC(r) ==
    LET o == r.out IN
    /\ Note("cc." \o PairClass(r.c0, r.c1))
    /\ JInter(r, r.c0, r.c1, o.fwd, "fwd")
    /\ JInter(r, r.c1, r.c0, o.rev, "rev")
    /\ JInterval(r, r.c0, r.c1, o.iv)
    /\ JOuter(r, r.c0, r.c1, o.outer)
    /\ Clause(i, "C11.circle.box", o.finite /\ CircleBoxOK(o.bb0, r.c0, r.q) /\ CircleBoxOK(o.bb1, r.c1, r.q))

-----------------------------------------------------------------------------
JTan(r) ==
    LET o == r.out  c == r.c  p == r.p  t == o.tan  ms == o.misc IN
    /\ Note(IF External(c, p) THEN "tan.external" ELSE IF PD2(c, p) = Sq(c[3]) THEN "tan.on_circle" ELSE "tan.inside")
    /\ Clause(i, "C11.tangent.panic", Sub(t))
    /\ Sub(t) =>
         /\ Clause(i, "C11.tangent.finite", t.finite)
         /\ Clause(i, "C11.tangent.some", External(c, p) => t.some)
         /\ Clause(i, "C11.tangent.none_inside", PD2(c, p) < Sq(c[3]) => ~t.some)
         /\ (External(c, p) /\ t.some /\ t.finite /\ IsPt(t.t0) /\ IsPt(t.t1)) =>
              /\ Clause(i, "C11.tangent.on_circle", OnCircleQ(t.t0, c, r.q) /\ OnCircleQ(t.t1, c, r.q))
              /\ (OnCircleQ(t.t0, c, r.q) /\ OnCircleQ(t.t1, c, r.q)) =>
                    /\ Clause(i, "C11.tangent.perpendicular", TanPointOK(c, p, t.t0, r.q) /\ TanPointOK(c, p, t.t1, r.q))
                    /\ Clause(i, "C11.tangent.left_first", TanSide(c, p, t.t0, r.q) > 0 /\ TanSide(c, p, t.t1, r.q) < 0)
    /\ Clause(i, "C11.point.panic", Sub(ms))
    /\ Sub(ms) =>
         /\ Clause(i, "C11.point.finite", ms.finite)
         /\ ms.finite =>
              /\ Clause(i, "C11.point.distance", DistOK(c, p, ms.dist, r.q))
              /\ Clause(i, "C11.point.projection", IsPt(ms.proj) /\ ProjOK(c, p, ms.proj_some, ms.proj, r.q))

-----------------------------------------------------------------------------
JSeg(r) ==
    LET o == r.out
        a == <<r.a[1] - r.ext * (r.b[1] - r.a[1]), r.a[2] - r.ext * (r.b[2] - r.a[2])>>
        b == <<r.b[1] + r.ext * (r.b[1] - r.a[1]), r.b[2] + r.ext * (r.b[2] - r.a[2])>>
        rs == Roots(r.c, a, b)
    IN
    /\ Note("seg.in" \o ToString(NumPos(rs, "in")) \o ".end" \o ToString(NumPos(rs, "edge")) \o ".out" \o ToString(NumPos(rs, "out")))
    /\ Clause(i, "C11.segment.finite", o.finite)
    /\ (o.finite /\ IsPts(o.pts)) =>
         /\ Clause(i, "C11.segment.count", /\ Len(o.pts) <= Len(rs) - NumPos(rs, "out")
                                            /\ Len(o.pts) >= NumPos(rs, "in"))
         /\ Clause(i, "C11.segment.on_both", \A j \in 1..Len(o.pts) : PointOnSegCircle(r.c, a, b, o.pts[j], r.q))
         /\ (\A j \in 1..Len(o.pts) : OnLineQ(o.pts[j], a, b, r.q)) =>
               Clause(i, "C11.segment.complete", SegOK(r.c, a, b, o.pts, r.q))

JCurve(r) ==
    LET o == r.out
        vs == IF r.fc /\ r.pts[1] # r.pts[Len(r.pts)] THEN Append(r.pts, r.pts[1]) ELSE r.pts
    IN
    /\ Note("curve.max" \o ToString(CurveMax(r.c, vs)))
    /\ Clause(i, "C11.curve.finite", o.finite)
    /\ Clause(i, "C11.curve.built", o.nv = Len(vs))
    /\ (o.finite /\ IsPts(o.pts) /\ o.nv = Len(vs)) =>
         /\ Clause(i, "C11.curve.count", Len(o.pts) <= CurveMax(r.c, vs))
         /\ Clause(i, "C11.curve.on_both", \A j \in 1..Len(o.pts) :
                       \E e \in EdgesOf(vs) : PointOnSegCircle(r.c, vs[e], vs[e + 1], o.pts[j], r.q))
         /\ Clause(i, "C11.curve.complete", CurveOK(r.c, vs, o.pts, r.q))

-----------------------------------------------------------------------------
\* shape of the projection of an arc
ArcShape(r, o) == /\ IsPt(o.start) /\ IsPt(o.end) /\ IsPt(o.c) /\ Len(o.bb) = 4
                  /\ Len(o.pf) = Len(r.fr) /\ Len(o.pl) = Len(r.fr) /\ IsPts(o.pf) /\ IsPts(o.pl)
\* point-at-fraction and point-at-length of the same parameter are the same point; 0 and 1 are the ends
ArcAgree(r, o) ==
    \A j \in 1..Len(r.fr) :
        /\ NearPt(o.pf[j], <<0, 0>>, 1, 1000000) /\ NearPt(o.pl[j], <<0, 0>>, 1, 1000000)
        /\ AbsC(o.pf[j][1] - o.pl[j][1]) <= 2 /\ AbsC(o.pf[j][2] - o.pl[j][2]) <= 2
        /\ r.fr[j][1] = 0 => AbsC(o.pf[j][1] - o.start[1]) <= 2 /\ AbsC(o.pf[j][2] - o.start[2]) <= 2
        /\ r.fr[j][1] = r.fr[j][2] => AbsC(o.pf[j][1] - o.end[1]) <= 2 /\ AbsC(o.pf[j][2] - o.end[2]) <= 2
SweepRange(o) == o.ahi \in {-1, 0}          \* |sweep| <= 2 pi

JArc16(r) ==
    LET o == r.out  c == r.c  s == r.s  x == r.x
        last == s + Ext16(x) * SgnC(x)
    IN
    /\ Note("arc16." \o r.via)
    /\ Clause(i, "C11.arc.finite", o.finite)
    /\ Clause(i, "C11.arc.shape", ArcShape(r, o))
    /\ (o.finite /\ ArcShape(r, o)) =>
         /\ Clause(i, "C11.arc.centre_radius", NearPt(o.c, c, r.q, 1) /\ AbsC(o.r - c[3] * r.q) <= 1)
         /\ Clause(i, "C11.arc.start", NearPt16(o.start, c, s, r.q))
         /\ Clause(i, "C11.arc.end", NearPt16(o.end, c, last, r.q))
         /\ Clause(i, "C11.arc.sweep", AbsC(o.a - x * U20) <= 2 /\ o.asg = SgnC(x) /\ SweepRange(o))
         /\ Clause(i, "C11.arc.length", AbsC(o.len - c[3] * AbsC(x) * U20) <= c[3] + 2)
         /\ Clause(i, "C11.arc.length_consistent", LenOK(o.len, o.r, o.a, r.q))
         /\ Clause(i, "C11.arc.box", BoxNear16(o.bb, Box16(c, s, x), c, r.q))
         /\ Clause(i, "C11.arc.point_at_fraction", \A j \in 1..Len(r.fr) : NearPt16(o.pf[j], c, s + (j - 1) * SgnC(x), r.q))
         /\ Clause(i, "C11.arc.point_at_length", \A j \in 1..Len(r.fr) : NearPt16(o.pl[j], c, s + (j - 1) * SgnC(x), r.q))
         /\ Clause(i, "C11.arc.agree", ArcAgree(r, o))

JArcP(r) ==
    LET o == r.out  c == r.c  u == r.u  ph == r.phi
        w == EndDir(u, r.qt, ph, r.sg)
        hw == u[3] * ph[3]
    IN
    /\ Note("arcp.axes" \o ToString(Cardinality(AxesSwept(u, r.qt, ph, r.sg))))
    /\ Clause(i, "C11.arc.finite", o.finite)
    /\ Clause(i, "C11.arc.shape", ArcShape(r, o))
    /\ (o.finite /\ ArcShape(r, o)) =>
         /\ Clause(i, "C11.arc.centre_radius", NearPt(o.c, c, r.q, 1) /\ AbsC(o.r - c[3] * r.q) <= 1)
         /\ Clause(i, "C11.arc.start", NearDirPt(o.start, c, u, u[3], r.q))
         /\ Clause(i, "C11.arc.end", NearDirPt(o.end, c, w, hw, r.q))
         /\ Clause(i, "C11.arc.sweep", (o.asg = r.sg \/ (r.qt = 0 /\ ph[2] = 0 /\ o.asg = 0)) /\ SweepRange(o)
                                       /\ AbsC(o.a) >= 4 * r.qt * U20 - 2 /\ AbsC(o.a) <= 4 * (r.qt + 1) * U20 + 2)
         /\ Clause(i, "C11.arc.length_consistent", LenOK(o.len, o.r, o.a, r.q))
         /\ Clause(i, "C11.arc.box", BoxNearP(o.bb, BoxP(c, u, r.qt, ph, r.sg), hw, r.q))
         /\ Clause(i, "C11.arc.on_circle", \A j \in 1..Len(r.fr) : OnCircleQ(o.pf[j], c, r.q) /\ OnCircleQ(o.pl[j], c, r.q))
         /\ Clause(i, "C11.arc.agree", ArcAgree(r, o))

JArc3(r) ==
    LET o == r.out  p0 == r.p0  p1 == r.p1  p2 == r.p2
        or == Orient(p0, p1, p2)
    IN
    /\ Note("arc3.axes" \o ToString(Cardinality(Axes3(p0, p1, p2))) \o (IF or > 0 THEN ".ccw" ELSE ".cw"))
    /\ Clause(i, "C11.arc3.finite", o.finite)
    /\ Clause(i, "C11.arc3.shape", ArcShape(r, o))
    /\ (o.finite /\ ArcShape(r, o)) =>
         /\ Clause(i, "C11.arc3.starts_at_first", NearPt(o.start, p0, r.q, 2))
         /\ Clause(i, "C11.arc3.ends_at_third", NearPt(o.end, p2, r.q, 2))
         /\ Clause(i, "C11.arc3.centre", CentreOK(p0, p1, p2, o.c, r.q))
         /\ Clause(i, "C11.arc3.through_second", EquiQ(p1, o.c, o.r, r.q) /\ EquiQ(p0, o.c, o.r, r.q) /\ EquiQ(p2, o.c, o.r, r.q))
         /\ Clause(i, "C11.arc3.sweep_sign", o.asg = SgnC(or) /\ SweepRange(o))
         /\ Clause(i, "C11.arc.length_consistent", LenOK(o.len, o.r, o.a, r.q))
         /\ Clause(i, "C11.arc.agree", ArcAgree(r, o))
         /\ (CentreOK(p0, p1, p2, o.c, r.q) /\ EquiQ(p0, o.c, o.r, r.q)) =>
               Clause(i, "C11.arc3.box", \A j \in 1..4 : AbsC(o.bb[j]) <= 1000000 /\ AbsC(o.bb[j] - Box3(p0, p1, p2, o.c, o.r, r.q)[j]) <= 3)
         /\ Clause(i, "C11.arc3.box_contains_points", /\ o.bb[1] <= MinC(p0[1], MinC(p1[1], p2[1])) * r.q + 2
                                                      /\ o.bb[2] <= MinC(p0[2], MinC(p1[2], p2[2])) * r.q + 2
                                                      /\ o.bb[3] >= MaxC(p0[1], MaxC(p1[1], p2[1])) * r.q - 2
                                                      /\ o.bb[4] >= MaxC(p0[2], MaxC(p1[2], p2[2])) * r.q - 2)

Judge(r) ==
    /\ Sane(i, r)
    /\ Ran(r) =>
        CASE r.op = "cc"    -> JCC(r)
          [] r.op = "ccnear" -> JCCNear(r)
          [] r.op = "tan"   -> JTan(r)
          [] r.op = "tanfar" -> JTanFar(r)
          [] r.op = "arc3far" -> JArc3Far(r)
          [] r.op = "seg"   -> JSeg(r)
          [] r.op = "segfar" -> JSegFar(r)
          [] r.op = "curve" -> JCurve(r)
          [] r.op = "arc16" -> JArc16(r)
          [] r.op = "arcp"  -> JArcP(r)
          [] r.op = "arc3"  -> JArc3(r)
          [] r.op = "reset" -> TRUE
          [] OTHER          -> Clause(i, "C11.unknown-op", FALSE)

Init == i = 1
Next == i <= Len(Rec) /\ Judge(Rec[i]) /\ i' = i + 1
Spec == Init /\ [][Next]_i
Post == TLCGet("stats").diameter - 1 = Len(Rec)
=============================================================================
