------------------------------- MODULE MC_C05 -------------------------------
(* Bounded instance for C05: resampling (by count / spacing / max spacing)   *)
(* of curated lattice curves in 2D and 3D at several scales; simplification  *)
(* and gap filling of every short lattice point sequence plus curated ones.  *)
(* Checks the arithmetic laws of the spacing rules on every instance.        *)
EXTENDS Curve, TLC, Json
CONSTANTS G, MaxN, NScales

VARIABLE case
P(x, y) == <<x, y, 0>>
ScaleExp == <<0, -10, 4, -3, 7>>

Open == { <<P(0,0), P(1,0)>>, <<P(0,0), P(3,0)>>, <<P(0,0), P(2,0), P(2,3)>>, <<P(0,0), P(3,4), P(3,0)>>,
          <<P(0,0), P(1,0), P(3,0), P(3,2)>>, <<P(1,1), P(1,3), P(4,3), P(4,0), P(0,0)>> }
Closed == { <<P(0,0), P(1,0), P(1,1), P(0,1)>>, <<P(0,0), P(4,0), P(4,3)>>, <<P(0,0), P(2,0), P(2,1), P(0,1)>> }
Lift(p, lift) == IF lift = 0 THEN p ELSE IF lift = 1 THEN <<0, p[1], p[2]>> ELSE <<p[2], 0, p[1]>>
LiftSeq(s, lift) == [k \in 1..Len(s) |-> Lift(s[k], lift)]

L2of(pts, fc) == 2 * TotalLen(Built(pts, 0, fc, 2))
Resamples ==
    {[m |-> "curve", op |-> "resample", dim |-> 2, pts |-> r, fc |-> FALSE, sc |-> ScaleExp[si], tolU |-> 0, mode |-> md, n |-> n]
        : r \in Open, si \in 1..NScales, md \in {"count"}, n \in 2..MaxN} \cup
    {[m |-> "curve", op |-> "resample", dim |-> 2, pts |-> r, fc |-> TRUE, sc |-> ScaleExp[si], tolU |-> 0, mode |-> md, n |-> n]
        : r \in Closed, si \in 1..NScales, md \in {"count"}, n \in 2..MaxN} \cup
    {[m |-> "curve", op |-> "resample", dim |-> 3, pts |-> LiftSeq(r, lf), fc |-> FALSE, sc |-> ScaleExp[si], tolU |-> 0, mode |-> md, n |-> n]
        : r \in Open, lf \in 0..2, si \in 1..NScales, md \in {"count"}, n \in 2..MaxN} \cup
    UNION {{[m |-> "curve", op |-> "resample", dim |-> 2, pts |-> r, fc |-> FALSE, sc |-> ScaleExp[si], tolU |-> 0, mode |-> md, n |-> s2]
        : si \in 1..NScales, md \in {"spacing", "maxspacing"},
          s2 \in {1, 2, 3, 5, L2of(r, FALSE) - 1, L2of(r, FALSE)} \cup {L2of(r, FALSE) + 3, 2 * L2of(r, FALSE)}} : r \in Open} \cup
    UNION {{[m |-> "curve", op |-> "resample", dim |-> 2, pts |-> r, fc |-> TRUE, sc |-> ScaleExp[si], tolU |-> 0, mode |-> md, n |-> s2]
        : si \in 1..NScales, md \in {"spacing", "maxspacing"},
          s2 \in {1, 2, 3, 5, L2of(r, TRUE) - 1, L2of(r, TRUE)} \cup {L2of(r, TRUE) + 3}} : r \in Closed} \cup
    UNION {{[m |-> "curve", op |-> "resample", dim |-> 3, pts |-> LiftSeq(r, lf), fc |-> FALSE, sc |-> ScaleExp[si], tolU |-> 0, mode |-> md, n |-> s2]
        : lf \in 1..2, si \in 1..NScales, md \in {"spacing", "maxspacing"},
          s2 \in {1, 3, 5, L2of(r, FALSE) - 1, L2of(r, FALSE)}} : r \in Open}

Grid == {P(x, y) : x \in 0..G, y \in 0..G}
Seq3 == {s \in [1..3 -> Grid] : s[1] # s[2] /\ s[2] # s[3]}
SimpCurated == { <<P(0,0), P(1,0), P(2,0), P(3,0), P(3,2)>>, <<P(0,0), P(2,1), P(4,0)>>, <<P(0,0), P(4,0), P(1,0)>>,
                 <<P(0,0), P(1,1), P(2,0), P(3,1), P(4,0)>>, <<P(0,0), P(2,0), P(4,0), P(4,2), P(4,4), P(2,4), P(0,4), P(0,2)>>,
                 <<P(0,0), P(1,0), P(1,4), P(2,4), P(2,0), P(3,0)>> }
Simplifies ==
    {[m |-> "curve", op |-> "simplify", dim |-> dim, pts |-> IF dim = 3 THEN LiftSeq(r, 1) ELSE r, fc |-> fc, sc |-> 0, tolU |-> 0, e4 |-> e]
        : r \in Seq3 \cup SimpCurated, dim \in {2, 3}, fc \in BOOLEAN, e \in {0, 1, 4, 8}}
Fills ==
    {[m |-> "curve", op |-> "fill_gaps", dim |-> dim, pts |-> IF dim = 3 THEN LiftSeq(r, 2) ELSE r, sc |-> 0, m2 |-> m]
        : r \in Seq3 \cup SimpCurated, dim \in {2, 3}, m \in {1, 2, 3, 5, 8}}

WellFormed(c) == IF c.op = "resample" THEN (c.dim = 3 /\ c.mode = "spacing") => c.n < 2 * TotalLen(Built(c.pts, 0, FALSE, 3))
                 ELSE IF c.op = "simplify" THEN (c.dim = 2 \/ ~c.fc) /\ (c.fc => c.pts[1] # c.pts[Len(c.pts)]) ELSE TRUE
Cases == {c \in Resamples \cup Simplifies \cup Fills : WellFormed(c)}

Init == case \in Cases
Next == UNCHANGED case
Spec == Init /\ [][Next]_case
Emit == PrintT(<<"CASE", ToJson(case)>>)

\* laws of the spacing rules
Laws == case.op = "resample" =>
    LET v == Built(case.pts, 0, case.fc, case.dim) L2 == 2 * TotalLen(v) IN
    /\ IntegerEdges(v)
    /\ (case.mode = "spacing") =>
          \A m1 \in SpacingIntervals(v, case.n) :
              LET margin2 == L2 - m1 * case.n IN margin2 >= 0 /\ margin2 < 2 * case.n   \* margin = margin2/4 units... in [0, s)
    /\ case.mode = "maxspacing" =>
          LET nmin == Max2(2, CeilDiv(L2, case.n) + 1) IN (nmin - 1) * case.n >= L2 /\ (nmin = 2 \/ (nmin - 2) * case.n < L2)
=============================================================================
