------------------------------- MODULE MC_C11 -------------------------------
(* Bounded instance for C11.  TLC (a) checks laws of the Circles module on  *)
(* every enumerated configuration: the classification is symmetric and is   *)
(* refined by the branch structure of the code (L2), the L1 relations       *)
(* accept the exact rational answer of every Pythagorean configuration and  *)
(* reject the swapped / duplicated one, the root classification agrees with  *)
(* the signs at the segment ends, the two formulations of the arc box       *)
(* agree and do not depend on how axis directions exactly at an arc end are *)
(* treated, the orientation determinant is the cyclic order on the circle;  *)
(* and (b) emits every configuration as a case for the real library.        *)
EXTENDS Circles, TLC, Json

CONSTANTS WCC,      \* centre offsets -WCC..WCC of the second circle
          WCCS,     \* same for the scaled sub-family
          WTan,     \* offsets of the external point
          WSeg,     \* window of the segment start
          WLine,    \* window of the start of extended segments ("lines")
          WCurve,   \* polyline vertices in 0..WCurve squared
          RMax,     \* radii 1..RMax
          Scales,   \* exponents of the power-of-two scales of the scaled sub-families
          PRad      \* radii of the Pythagorean circles for three-point arcs

VARIABLE case
vars == <<case>>

LF == 16     \* the laws evaluate the L1 relations on exact rational points scaled to integers, times LF

-----------------------------------------------------------------------------
\* circle pairs
C0Main == {<<0, 0, r>> : r \in 1..RMax} \cup {<<3, -2, 2>>, <<3, -2, 5>>}
CCMain == {[m |-> "circles", op |-> "cc", q |-> 1024, sc |-> 0, c0 |-> c0, c1 |-> <<c0[1] + dx, c0[2] + dy, r1>>] :
              c0 \in C0Main, dx \in -WCC..WCC, dy \in -WCC..WCC, r1 \in 1..RMax}
CCScaled == {[m |-> "circles", op |-> "cc", q |-> 1024, sc |-> sc, c0 |-> <<-7, 5, r0>>, c1 |-> <<-7 + dx, 5 + dy, r1>>] :
              r0 \in {2, 3}, dx \in -WCCS..WCCS, dy \in -WCCS..WCCS, r1 \in 1..RMax, sc \in Scales}

-----------------------------------------------------------------------------
\* circle and point
TanMain == {[m |-> "circles", op |-> "tan", q |-> 1024, sc |-> 0, c |-> c, p |-> <<c[1] + dx, c[2] + dy>>] :
              c \in {<<0, 0, r>> : r \in 1..RMax} \cup {<<3, -2, 1>>, <<3, -2, 3>>}, dx \in -WTan..WTan, dy \in -WTan..WTan}
TanScaled == {[m |-> "circles", op |-> "tan", q |-> 1024, sc |-> sc, c |-> <<-7, 5, 3>>, p |-> <<-7 + dx, 5 + dy>>] :
              dx \in -5..5, dy \in -5..5, sc \in Scales}

-----------------------------------------------------------------------------
\* circle and segment / line / polyline
Dirs == {<<1, 0>>, <<0, 1>>, <<1, 1>>, <<2, -1>>, <<-3, 4>>, <<4, 3>>, <<-1, -2>>, <<6, 8>>, <<0, -7>>, <<-5, 0>>}
SegCircles == {<<0, 0, 5>>, <<1, -2, 2>>}
SegMain == {[m |-> "circles", op |-> "seg", q |-> 1024, sc |-> 0, c |-> c, a |-> <<ax, ay>>, b |-> <<ax + d[1], ay + d[2]>>, ext |-> 0] :
              c \in SegCircles, ax \in -WSeg..WSeg, ay \in -WSeg..WSeg, d \in Dirs}
LineDirs == {<<1, 0>>, <<0, 1>>, <<1, 1>>, <<2, -1>>, <<-3, 4>>, <<4, 3>>, <<-1, -2>>, <<0, -5>>}
SegLines == {[m |-> "circles", op |-> "seg", q |-> 1024, sc |-> sc, c |-> c, a |-> <<ax, ay>>, b |-> <<ax + d[1], ay + d[2]>>, ext |-> 6] :
              c \in SegCircles, ax \in -WLine..WLine, ay \in -WLine..WLine, d \in LineDirs, sc \in {0} \cup Scales}
\* end points of the segment that is actually built: [a - ext (b - a), b + ext (b - a)]
SegA(r) == <<r.a[1] - r.ext * (r.b[1] - r.a[1]), r.a[2] - r.ext * (r.b[2] - r.a[2])>>
SegB(r) == <<r.b[1] + r.ext * (r.b[1] - r.a[1]), r.b[2] + r.ext * (r.b[2] - r.a[2])>>

CV == (0..WCurve) \X (0..WCurve)
Curves == {[m |-> "circles", op |-> "curve", q |-> 1024, sc |-> 0, c |-> c, pts |-> <<p0, p1, p2>>, fc |-> fc] :
              c \in {<<1, 1, 1>>, <<0, 0, 2>>}, p0 \in CV, p1 \in CV, p2 \in CV, fc \in BOOLEAN}
CurveCases == {r \in Curves : /\ r.pts[1] # r.pts[2] /\ r.pts[2] # r.pts[3] /\ r.pts[1] # r.pts[3]
                              /\ (r.fc => r.c = <<1, 1, 1>>)}
\* vertex list of the curve that is built (closing vertex appended when forced closed)
CurveVerts(r) == IF r.fc /\ r.pts[1] # r.pts[Len(r.pts)] THEN Append(r.pts, r.pts[1]) ELSE r.pts

-----------------------------------------------------------------------------
\* arcs
Via(k) == IF k % 3 = 0 THEN "angles" ELSE IF k % 3 = 1 THEN "point" ELSE "partial"
Fr16(x) == IF x = 0 THEN <<>> ELSE [j \in 1..(Ext16(x) + 1) |-> <<j - 1, Ext16(x)>>]
Arc16Main == {[m |-> "circles", op |-> "arc16", q |-> 1024, sc |-> 0, c |-> c, s |-> s, x |-> x, via |-> Via(s + x + c[3]), fr |-> Fr16(x)] :
              c \in {<<0, 0, 1>>, <<3, -2, 2>>, <<-7, 5, 5>>}, s \in 0..15, x \in -16..16}
Arc16Extra == {[m |-> "circles", op |-> "arc16", q |-> 1024, sc |-> sc, c |-> <<3, -2, 2>>, s |-> s, x |-> x, via |-> Via(s + x), fr |-> Fr16(x)] :
              s \in {-21, -8, -3, 16, 29}, x \in -16..16, sc \in {0} \cup Scales}
           \cup {[m |-> "circles", op |-> "arc16", q |-> 1024, sc |-> sc, c |-> c, s |-> 0, x |-> 16, via |-> "full", fr |-> Fr16(16)] :
              c \in {<<0, 0, 1>>, <<3, -2, 2>>, <<-7, 5, 5>>}, sc \in {0} \cup Scales}

PBase == {<<3, 4, 5>>, <<4, 3, 5>>, <<5, 12, 13>>, <<12, 5, 13>>}
PDirs == {<<sx * b[1], sy * b[2], b[3]>> : b \in PBase, sx \in {-1, 1}, sy \in {-1, 1}}
            \cup {<<1, 0, 1>>, <<0, 1, 1>>, <<-1, 0, 1>>, <<0, -1, 1>>}
Phis == {<<1, 0, 1>>, <<4, 3, 5>>, <<3, 4, 5>>, <<12, 5, 13>>, <<5, 12, 13>>, <<15, 8, 17>>}
FrP == << <<0, 1>>, <<1, 1>>, <<1, 2>>, <<1, 3>> >>
ArcPCases == {[m |-> "circles", op |-> "arcp", q |-> 1024, sc |-> 0, c |-> <<3, -2, 5>>, u |-> u, qt |-> qt, phi |-> ph, sg |-> sg,
               via |-> Via(u[1] + qt + ph[2]), fr |-> IF qt = 0 /\ ph[2] = 0 THEN <<>> ELSE FrP] :
              u \in PDirs, qt \in 0..4, ph \in Phis, sg \in {-1, 1}}
ArcPValid == {r \in ArcPCases : r.qt = 4 => r.phi = <<1, 0, 1>>}

\* lattice points on the circle of radius h around the origin, h in PRad
OnRad(h) == {p \in (-h..h) \X (-h..h) : Sq(p[1]) + Sq(p[2]) = Sq(h)}
Arc3On(cc, h, scs) == {[m |-> "circles", op |-> "arc3", q |-> 1024, sc |-> sc, cc |-> cc, cr |-> h,
                   p0 |-> <<cc[1] + a[1], cc[2] + a[2]>>, p1 |-> <<cc[1] + b[1], cc[2] + b[2]>>, p2 |-> <<cc[1] + c[1], cc[2] + c[2]>>, fr |-> FrP] :
                   a \in OnRad(h), b \in OnRad(h), c \in OnRad(h), sc \in scs}
Arc3Cases == {r \in UNION {Arc3On(<<2, -1>>, h, {0}) : h \in PRad} : r.p0 # r.p1 /\ r.p1 # r.p2 /\ r.p0 # r.p2}
             \cup {r \in Arc3On(<<0, 0>>, 5, Scales) : r.p0 = <<5, 0>> /\ r.p0 # r.p1 /\ r.p1 # r.p2 /\ r.p0 # r.p2}

\* small triangles (rational centres), at every scale: collinearity must not be judged in absolute units
SmallPts == (0..2) \X (0..2)
Arc3Small == {r \in {[m |-> "circles", op |-> "arc3", q |-> 1024, sc |-> sc, p0 |-> a, p1 |-> b, p2 |-> c, fr |-> FrP] :
                        a \in SmallPts, b \in SmallPts, c \in SmallPts, sc \in {0} \cup Scales} : Orient(r.p0, r.p1, r.p2) # 0}

Cases == CCMain \cup CCScaled \cup TanMain \cup TanScaled \cup SegMain \cup SegLines \cup CurveCases
         \cup Arc16Main \cup Arc16Extra \cup ArcPValid \cup Arc3Cases \cup Arc3Small

Init == case \in Cases
Next == UNCHANGED case
Spec == Init /\ [][Next]_vars

Emit == PrintT(<<"CASE", ToJson(case)>>)

-----------------------------------------------------------------------------
\* laws
\* the trigonometric table of the Z_16 lattice: unit length and the double angle formula, at 2^-15
TableLaw == \A k \in 0..15 :
    LET c == Cos16(k) \div 32  s == Sin16(k) \div 32 IN
    /\ AbsC(Sq(c) + Sq(s) - 1073741824) <= 140000
    /\ AbsC((Sq(c) \div 16384) - 32768 - (Cos16(2 * k) \div 32)) <= 8
    /\ Cos16(k + 8) = -Cos16(k) /\ Cos16(-k) = Cos16(k) /\ Sin16(-k) = -Sin16(k)

LawCC(r) ==
    LET c0 == r.c0  c1 == r.c1
        dx == c1[1] - c0[1]  dy == c1[2] - c0[2]
        D == Dist2(c0, c1)
        n == CCCount(c0, c1)
        \* lattice points on both circles (brute force over the box of c0)
        W == {p \in ((c0[1] - c0[3])..(c0[1] + c0[3])) \X ((c0[2] - c0[3])..(c0[2] + c0[3])) :
                 Sq(p[1] - c0[1]) + Sq(p[2] - c0[2]) = Sq(c0[3]) /\ Sq(p[1] - c1[1]) + Sq(p[2] - c1[2]) = Sq(c1[3])}
        \* exact intersection points c0 + (a2 (dx,dy) +- k (-dy,dx)) / 2D when k = sqrt(K) is an integer
        a2 == Sq(c0[3]) - Sq(c1[3]) + D
        K == 4 * D * Sq(c0[3]) - Sq(a2)
        k == ISqrt(K)
        q == 2 * D * LF
        PP == <<c0[1] * q + (a2 * dx - k * dy) * LF, c0[2] * q + (a2 * dy + k * dx) * LF>>
        PM == <<c0[1] * q + (a2 * dx + k * dy) * LF, c0[2] * q + (a2 * dy - k * dx) * LF>>
        d == ISqrt(D)
        MidP == <<c0[1] * q + c0[3] * dx * d * 2 * LF, c0[2] * q + c0[3] * dy * d * 2 * LF>>
        MidM == <<c0[1] * q - c0[3] * dx * d * 2 * LF, c0[2] * q - c0[3] * dy * d * 2 * LF>>
        \* exact outer tangents c + r ((r0 - r1)(dx,dy) +- L (-dy,dx)) / D when their length L is an integer
        M == RDif2(c0, c1)
        L == ISqrt(D - M)
        e == c0[3] - c1[3]
        qo == D * LF
        GL == <<c0[1] * qo + c0[3] * (e * dx - L * dy) * LF, c0[2] * qo + c0[3] * (e * dy + L * dx) * LF,
                c1[1] * qo + c1[3] * (e * dx - L * dy) * LF, c1[2] * qo + c1[3] * (e * dy + L * dx) * LF>>
        GR == <<c0[1] * qo + c0[3] * (e * dx + L * dy) * LF, c0[2] * qo + c0[3] * (e * dy - L * dx) * LF,
                c1[1] * qo + c1[3] * (e * dx + L * dy) * LF, c1[2] * qo + c1[3] * (e * dy - L * dx) * LF>>
    IN /\ n = CCCount(c1, c0)
       /\ n = L2CCCount(c0, c1)
       /\ OuterClass(c0, c1) = OuterClass(c1, c0)
       /\ D > 0 => Cardinality(W) <= n        \* (coincident circles share every point; the property counts none)
       /\ (n = 2 /\ IsSquare(K)) => /\ CCPointsOK(c0, c1, <<PP, PM>>, q) /\ CCPointsOK(c0, c1, <<PM, PP>>, q)
                                    /\ ~CCPointsOK(c0, c1, <<PP, PP>>, q) /\ ~CCPointsOK(c0, c1, <<PP>>, q)
                                    /\ ~CCPointsOK(c0, c1, <<>>, q)
       /\ (n = 2 /\ IsSquare(K) /\ IsSquare(D)) => /\ IvOK(c0, c1, TRUE, PM, PP, MidP, q) /\ IvOK(c0, c1, TRUE, PP, PM, MidP, q)
                                                   /\ ~IvOK(c0, c1, TRUE, PM, PP, MidM, q) /\ ~IvOK(c0, c1, FALSE, PM, PP, MidP, q)
                                                   /\ ~IvOK(c0, c1, TRUE, PP, PP, MidP, q)
       /\ n = 1 => /\ K = 0 /\ CCPointsOK(c0, c1, <<PP>>, q) /\ ~CCPointsOK(c0, c1, <<PP, PM>>, q) /\ ~CCPointsOK(c0, c1, <<>>, q)
                   /\ IvOK(c0, c1, TRUE, PP, PP, PP, q) /\ ~IvOK(c0, c1, FALSE, PP, PP, PP, q)
       /\ n = 0 => CCPointsOK(c0, c1, <<>>, 1024) /\ IvOK(c0, c1, FALSE, <<0, 0>>, <<0, 0>>, <<0, 0>>, 1024)
       /\ (OuterClass(c0, c1) = "two" /\ IsSquare(D - M)) =>
             /\ OuterSegOK(c0, c1, GL, qo) /\ OuterSegOK(c0, c1, GR, qo)
             /\ OuterOrderOK(c0, c1, GL, GR, qo) /\ ~OuterOrderOK(c0, c1, GR, GL, qo)
             \* a segment ending at the mirrored point of the other circle is not an outer tangent
             /\ ~OuterSegOK(c0, c1, <<GL[1], GL[2], GR[3], GR[4]>>, qo)

LawTan(r) ==
    LET c == r.c  p == r.p
        dx == p[1] - c[1]  dy == p[2] - c[2]
        D == PD2(c, p)
        L == ISqrt(D - Sq(c[3]))
        q == D * LF
        \* exact tangent points c + (r^2 (dx,dy) +- r L (-dy,dx)) / D when the tangent length L is an integer
        T1 == <<c[1] * q + (Sq(c[3]) * dx - c[3] * L * dy) * LF, c[2] * q + (Sq(c[3]) * dy + c[3] * L * dx) * LF>>
        T2 == <<c[1] * q + (Sq(c[3]) * dx + c[3] * L * dy) * LF, c[2] * q + (Sq(c[3]) * dy - c[3] * L * dx) * LF>>
        d == ISqrt(D)
    IN /\ (External(c, p) /\ IsSquare(D - Sq(c[3]))) =>
             /\ TanOK(c, p, T1, T2, q) # TanOK(c, p, T2, T1, q)          \* exactly one order is the documented one
             /\ ~TanOK(c, p, T1, T1, q) /\ ~TanOK(c, p, T2, T2, q)
       /\ IsSquare(D) => /\ DistOK(c, p, (d - c[3]) * 1024, 1024)
                         /\ ~DistOK(c, p, (d - c[3]) * 1024 + 700, 1024)
                         /\ D > 0 => /\ ProjOK(c, p, TRUE, <<((c[1] * d + c[3] * dx) * 1024) \div d, ((c[2] * d + c[3] * dy) * 1024) \div d>>, 1024)
                                     /\ ~ProjOK(c, p, TRUE, <<((c[1] * d - c[3] * dx) * 1024) \div d, ((c[2] * d - c[3] * dy) * 1024) \div d>>, 1024)
       /\ D = 0 => ProjOK(c, p, FALSE, <<0, 0>>, 1024)

LawSeg(r) ==
    LET c == r.c  a == SegA(r)  b == SegB(r)
        A == QA(a, b)  B == QB(c, a, b)  C == QC(c, a)
        f0 == C  f1 == A + 2 * B + C
        dc == Disc(c, a, b)
        rs == Roots(c, a, b)
        nin == NumPos(rs, "in")  ned == NumPos(rs, "edge")
        s == ISqrt(dc)
        RootPt(sigma) == <<a[1] * A + (-B + sigma * s) * (b[1] - a[1]), a[2] * A + (-B + sigma * s) * (b[2] - a[2])>>
        InPts == IF Len(rs) = 2 THEN (IF rs[1][2] = "in" THEN <<RootPt(-1)>> ELSE <<>>) \o (IF rs[2][2] = "in" THEN <<RootPt(1)>> ELSE <<>>)
                 ELSE IF Len(rs) = 1 /\ rs[1][2] = "in" THEN <<RootPt(0)>> ELSE <<>>
        NotOut == IF Len(rs) = 2 THEN (IF rs[1][2] # "out" THEN <<RootPt(-1)>> ELSE <<>>) \o (IF rs[2][2] # "out" THEN <<RootPt(1)>> ELSE <<>>)
                 ELSE IF Len(rs) = 1 /\ rs[1][2] # "out" THEN <<RootPt(0)>> ELSE <<>>
    IN /\ A > 0
       /\ (f0 < 0 /\ f1 < 0) => nin = 0 /\ ned = 0
       /\ (f0 * f1 < 0) => nin = 1 /\ ned = 0
       /\ (f0 # 0 /\ f1 # 0) => ned = 0
       /\ (f0 = 0 \/ f1 = 0) => ned >= 1
       /\ (f0 > 0 /\ f1 > 0) => nin \in {0, 2} \/ (dc = 0 /\ nin \in {0, 1})
       /\ dc < 0 => f0 > 0 /\ f1 > 0
       /\ (dc >= 0 /\ Sq(s) = dc /\ (c[3] + 1) * A <= 32000) =>
             /\ SegOK(c, a, b, InPts, A) /\ SegOK(c, a, b, NotOut, A)
             /\ nin > 0 => ~SegOK(c, a, b, <<>>, A)
             /\ nin = 1 => ~SegOK(c, a, b, InPts \o InPts, A)

LawArc16(r) ==
    LET c == r.c  s == r.s  x == r.x IN
    /\ Box16(c, s, x) = Box16Alt(c, s, x, {})
    /\ \A ch \in SUBSET EndAxes16(s, x) : Box16L2(c, s, x, ch) = Box16(c, s, x)
    /\ Box16(c, s + x, -x) = Box16(c, s, x)
    /\ AbsC(x) = 16 => Box16(c, s, x) = <<(c[1] - c[3]) * U20, (c[2] - c[3]) * U20, (c[1] + c[3]) * U20, (c[2] + c[3]) * U20>>
    /\ Box16(c, s + 16, x) = Box16(c, s, x)

LawArcP(r) ==
    LET u == r.u  ph == r.phi  w == EndDir(u, r.qt, ph, r.sg)  hw == u[3] * ph[3]
        bx == BoxP(r.c, u, r.qt, ph, r.sg)
        rv == BoxP(r.c, <<w[1], w[2], hw>>, r.qt, ph, -r.sg)
    IN /\ Sq(u[1]) + Sq(u[2]) = Sq(u[3]) /\ Sq(ph[1]) + Sq(ph[2]) = Sq(ph[3]) /\ ph[1] > 0 /\ ph[2] >= 0
       /\ Sq(w[1]) + Sq(w[2]) = Sq(hw)
       /\ AxesCCW(u, r.qt, ph) = AxesCCWAlt(u, r.qt, ph)
       /\ \A j \in 1..4 : rv[j] = bx[j] * ph[3]                       \* the reversed arc has the same box
       /\ r.qt = 4 => AxesSwept(u, r.qt, ph, r.sg) = 0..3

\* cyclic order of three directions by quadrant and cross product (independent of the determinant)
Less(v, w) == Quad(v) < Quad(w) \/ (Quad(v) = Quad(w) /\ Cross2(v[1], v[2], w[1], w[2]) > 0)
CCWOrder(a, b, c) == (Less(a, b) /\ Less(b, c)) \/ (Less(b, c) /\ Less(c, a)) \/ (Less(c, a) /\ Less(a, b))
LawArc3(r) ==
    LET p0 == r.p0  p1 == r.p1  p2 == r.p2  d == CDen(p0, p1, p2)
        \* exact centre and squared radius times d^2
        ex == p0[1] * d + CNumX(p0, p1, p2)  ey == p0[2] * d + CNumY(p0, p1, p2)
        R2(p) == Sq(p[1] * d - ex) + Sq(p[2] * d - ey)
    IN /\ d # 0
       /\ R2(p0) = R2(p1) /\ R2(p1) = R2(p2)                      \* the rational centre is equidistant
       /\ Axes3(p2, p1, p0) = Axes3(p0, p1, p2)                  \* the reversed arc meets the same axis directions
       /\ "cc" \in DOMAIN r =>
            \* on a lattice circle the axis points are lattice points: brute-force cyclic order
            LET cc == r.cc  V(p) == <<p[1] - cc[1], p[2] - cc[2]>>
                Swept(e) == IF Orient(p0, p1, p2) > 0 THEN e = V(p0) \/ e = V(p2) \/ CCWOrder(V(p0), e, V(p2))
                            ELSE e = V(p0) \/ e = V(p2) \/ CCWOrder(V(p2), e, V(p0))
            IN Axes3(p0, p1, p2) = {j \in 0..3 : Swept(<<r.cr * Axis(j)[1], r.cr * Axis(j)[2]>>)}
       /\ "cc" \in DOMAIN r =>
            LET cc == r.cc  V(p) == <<p[1] - cc[1], p[2] - cc[2]>> IN
            /\ ex = cc[1] * d /\ ey = cc[2] * d
            /\ (Orient(p0, p1, p2) > 0) = CCWOrder(V(p0), V(p1), V(p2))
            /\ CentreOK(p0, p1, p2, <<cc[1] * 1024, cc[2] * 1024>>, 1024)
            /\ EquiQ(p1, <<cc[1] * 1024, cc[2] * 1024>>, r.cr * 1024, 1024)

Laws ==
    /\ case.op = "cc" => LawCC(case)
    /\ case.op = "tan" => LawTan(case)
    /\ case.op = "seg" => LawSeg(case)
    /\ case.op = "arc16" => LawArc16(case)
    /\ case.op = "arcp" => LawArcP(case)
    /\ case.op = "arc3" => LawArc3(case)

ASSUME TableLaw

ScalesQuick == {-10, 4}
ScalesThorough == {-10, -3, 4, 7}
PRadQuick == {5}
PRadThorough == {5, 13}
=============================================================================
