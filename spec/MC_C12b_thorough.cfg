CONSTANTS
  NL = 5
  MaxP = 4
  NBX = 3
  NBY = 2
  NBZ = 2
  MaxSteps = 24
SPECIFICATION Spec
INVARIANT Emit Laws ChainAlgCorrect
CHECK_DEADLOCK FALSE
