---------------------------- MODULE Trace_Collide ----------------------------
(* Judge for the MeshCollisionSet extension (an `extra` stage: its rejections  *)
(* are reported as EXTRA-SPEC-NOTE and never decide a listed property).  One   *)
(* record = one behaviour: the list of operations and what the real object     *)
(* answered to each; the abstract state is folded over the list.               *)
EXTENDS Collide, JudgeBase
VARIABLE i

RECURSIVE StateAt(_, _)
StateAt(ops, k) == IF k = 0 THEN Empty ELSE Apply(StateAt(ops, k - 1), ops[k])

JHistory(r) ==
    LET ops == r.ops outs == r.out.outs IN
    /\ Clause(i, "X.collide.shape", Len(outs) = Len(ops))
    /\ Len(outs) = Len(ops) =>
        /\ ClauseAll(i, "X.collide.ids_in_order_of_insertion", {k \in 1..Len(ops) : ops[k].k = "add"},
                     LAMBDA k : outs[k].id = N(StateAt(ops, k - 1)))
        /\ ClauseAll(i, "X.collide.check_all", {k \in 1..Len(ops) : ops[k].k = "check"},
                     LAMBDA k : CheckOK(StateAt(ops, k - 1), ops[k], outs[k]))

Judge(r) ==
    /\ Sane(i, r)
    /\ Ran(r) => CASE r.op = "history" -> JHistory(r) [] r.op = "reset" -> TRUE [] OTHER -> Clause(i, "unknown-op", FALSE)
Init == i = 1
Next == i <= Len(Rec) /\ Judge(Rec[i]) /\ i' = i + 1
Spec == Init /\ [][Next]_i
Post == TLCGet("stats").diameter - 1 = Len(Rec)
=============================================================================
