------------------------------- MODULE MC_C04 -------------------------------
(* History machine for C04: a root curve, then up to MaxDepth portioning     *)
(* operations each applied to the result of the previous one.  TLC either    *)
(* enumerates every behaviour (MaxDepth = 1: every parameter combination on  *)
(* the half-lattice) or samples deeper histories in simulation mode.  The    *)
(* abstract current curve advances by the L1 operators of module Curve; the  *)
(* conservation laws are invariants of this machine.                         *)
EXTENDS Curve, TLC, Json
CONSTANTS MaxDepth, RootSet, AllControl, Sim

VARIABLES root, d, hist, phase
vars == <<root, d, hist, phase>>

P(x, y) == <<x, y, 0>>
Curated == {
    [pts |-> <<P(0,0), P(1,0), P(1,1), P(0,1)>>, fc |-> TRUE],
    [pts |-> <<P(0,0), P(2,0), P(2,1), P(0,1), P(0,0)>>, fc |-> FALSE],
    [pts |-> <<P(0,0), P(4,0), P(4,3)>>, fc |-> TRUE],
    [pts |-> <<P(0,0), P(2,0), P(2,3)>>, fc |-> FALSE],
    [pts |-> <<P(0,0), P(1,0), P(3,0), P(3,2)>>, fc |-> FALSE],
    [pts |-> <<P(0,0), P(3,0), P(1,0)>>, fc |-> FALSE],
    [pts |-> <<P(0,0), P(3,4), P(3,0)>>, fc |-> FALSE],
    [pts |-> <<P(0,1), P(3,1), P(3,3), P(1,3), P(1,0)>>, fc |-> FALSE],
    [pts |-> <<P(0,0), P(3,0)>>, fc |-> FALSE],
    [pts |-> <<P(1,0), P(2,0), P(2,2), P(0,2), P(0,0), P(1,0)>>, fc |-> FALSE] }
Small == {
    [pts |-> <<P(0,0), P(2,0)>>, fc |-> FALSE],
    [pts |-> <<P(0,0), P(1,0), P(1,1), P(0,1)>>, fc |-> TRUE],
    [pts |-> <<P(0,0), P(2,0), P(2,3)>>, fc |-> FALSE],
    [pts |-> <<P(0,0), P(4,0), P(4,3)>>, fc |-> TRUE] }
\* tolerance variant: long edges, tolerance = one lattice unit, requests on the half lattice (i.e. differing by
\* half, exactly one, and one and a half tolerances); only depth-1 behaviours (the free zone would make states diverge)
TolRoots == { [pts |-> <<P(0,0), P(4,0), P(4,4), P(0,4)>>, fc |-> TRUE, tolU |-> 1],
              [pts |-> <<P(0,0), P(8,0), P(8,6)>>, fc |-> FALSE, tolU |-> 1],
              [pts |-> <<P(0,0), P(3,4), P(3,8)>>, fc |-> FALSE, tolU |-> 1] }
WithTol(S) == {[pts |-> x.pts, fc |-> x.fc, tolU |-> 0] : x \in S}
Roots == IF RootSet = "small" THEN WithTol(Small) \cup TolRoots ELSE IF RootSet = "tol" THEN TolRoots ELSE WithTol(Curated) \cup TolRoots

V == Built(root.pts, 0, root.fc, 2)
RC == IsClosedV(V, 0, 2)

\* encode a half-length for the harness: <<n, 0>> = n/2 from the start, <<n, 1>> = n/2 back from the actual end
Enc(l2) == IF l2 >= d.T THEN <<d.T - l2, 1>> ELSE <<l2, 0>>
Ls == -1..(d.T + 1)
\* in simulation mode every nondeterministic draw is a single random element (one successor per step)
Pick(S) == IF Sim THEN {RandomElement(S)} ELSE S

\* power-of-two scale of the whole history (a micrometre, a unit, a few kilometres): portions do not depend on the unit
RootScale(rt) == << 0, -20, 12, -3 >>[((Len(rt.pts) + (IF rt.fc THEN 1 ELSE 0) + rt.tolU) % 4) + 1]

\* ... and its position: some histories live far from the origin (the harness translates the root and translates every reported point back)
RootOff(rt) == << <<0, 0, 0>>, <<65536, -100000, 0>>, <<-4096, 1000, 0>> >>[((Len(rt.pts) + 2 * rt.tolU + (IF rt.fc THEN 0 ELSE 1)) % 3) + 1]

Init == /\ root \in Roots /\ d = WholeRoot(Built(root.pts, 0, root.fc, 2)) /\ phase = "run"
        /\ hist = <<[m |-> "curve", op |-> "root", pts |-> root.pts, fc |-> root.fc, sc |-> RootScale(root), tolU |-> root.tolU, off |-> RootOff(root),
                   nz |-> (Len(root.pts) % 2)]>>        \* nz = 1: every zero arc length of the history is handed over as -0.0

\* a derived curve that is closed only because an open root touches itself is left out of the histories
Tame(nd) == nd = NoCurve \/ (DClosed(V, RC, nd) => (RC /\ nd.T = RootLen2(V)))
Advance(rec, nd) == /\ Tame(nd)
                    /\ hist' = Append(hist, rec)
                    /\ d' = IF nd = NoCurve THEN d ELSE nd
                    /\ UNCHANGED <<root, phase>>

Between == \E l0 \in Pick(Ls), l1 \in Pick(Ls) :
    Advance([m |-> "curve", op |-> "between", l0 |-> Enc(l0), l1 |-> Enc(l1)], DBetween(V, RC, d, l0, l1))

ByControl == \E a \in Pick(0..d.T), b \in Pick(0..d.T), c \in Pick(0..(d.T + 1)) :
    /\ AllControl \/ (a < b /\ c \in {0, a - 1, a + 1, b - 1, b + 1, d.T, d.T + 1})
    /\ LET r == DByControl(V, RC, d, a, b, c) IN
       /\ r.verdict # "free"
       /\ Advance([m |-> "curve", op |-> "bycontrol", a |-> Enc(a), b |-> Enc(b), c |-> Enc(c)], r.piece)

SplitOpen == \E l \in Pick(Ls), keep \in Pick({1, 2}) :
    LET pa == DBetween(V, RC, d, 0, l) pb == DBetween(V, RC, d, l, d.T)
        ok == ~DClosed(V, RC, d) /\ pa # NoCurve /\ pb # NoCurve IN
    Advance([m |-> "curve", op |-> "split_open", l |-> Enc(l), keep |-> keep],
            IF ok THEN (IF keep = 1 THEN pa ELSE pb) ELSE NoCurve)

SplitClosed == \E l0 \in Pick(Ls), l1 \in Pick(Ls), keep \in Pick({1, 2}) :
    LET pa == DBetween(V, RC, d, l0, l1) pb == DBetween(V, RC, d, l1, l0)
        ok == DClosed(V, RC, d) /\ pa # NoCurve /\ pb # NoCurve IN
    Advance([m |-> "curve", op |-> "split_closed", l0 |-> Enc(l0), l1 |-> Enc(l1), keep |-> keep],
            IF ok THEN (IF keep = 1 THEN pa ELSE pb) ELSE NoCurve)

TrimFront == \E x \in Pick(Ls) :
    Advance([m |-> "curve", op |-> "trim_front", x |-> Enc(x)], DBetween(V, RC, d, x, d.T))
TrimBack == \E x \in Pick(Ls) :
    Advance([m |-> "curve", op |-> "trim_back", x |-> Enc(x)], DBetween(V, RC, d, 0, d.T - x))
Reverse == Advance([m |-> "curve", op |-> "reversed"], DReversed(d))

Step == /\ phase = "run" /\ Len(hist) <= (IF root.tolU > 0 THEN 1 ELSE MaxDepth)
        /\ IF Sim THEN LET k == RandomElement(1..9) IN
                          CASE k \in {1, 2} -> Between [] k = 3 -> ByControl [] k = 4 -> SplitOpen [] k = 5 -> SplitClosed
                            [] k = 6 -> TrimFront [] k = 7 -> TrimBack [] k = 8 -> Reverse [] OTHER -> Between
           ELSE (Between \/ ByControl \/ SplitOpen \/ SplitClosed \/ TrimFront \/ TrimBack \/ Reverse)
Stop == /\ phase = "run" /\ Len(hist) >= 2 /\ (Sim => Len(hist) > (IF root.tolU > 0 THEN 1 ELSE MaxDepth)) /\ phase' = "done" /\ UNCHANGED <<root, d, hist>>
Next == Step \/ Stop
Spec == Init /\ [][Next]_vars

Emit == phase = "done" => PrintT(<<"CASE", ToJson(hist)>>)

\* conservation laws of the machine itself
Laws == phase = "run" =>
    /\ d.T > 0 /\ d.T <= RootLen2(V) /\ d.dir \in {-1, 1}
    /\ ~RC => (DPos(d, 0) \in 0..RootLen2(V) /\ DPos(d, d.T) \in 0..RootLen2(V))
    /\ ExactQ(DPoint(V, RC, d, 0)) /\ ExactQ(DPoint(V, RC, d, d.T))
    \* reversal is an involution and keeps the ends swapped
    /\ DReversed(DReversed(d)) = d
    /\ RPtEq(DPoint(V, RC, DReversed(d), 0), DPoint(V, RC, d, d.T))
    \* a split's pieces meet and add up
    /\ \A l \in 1..(d.T - 1) :
          LET pa == DBetween(V, RC, d, 0, l) pb == DBetween(V, RC, d, l, d.T) IN
          pa.T + pb.T = d.T /\ RPtEq(DPoint(V, RC, pa, pa.T), DPoint(V, RC, pb, 0))
    \* the traced vertex list has the right ends and its polyline length is T
    /\ LET w == DVerts(V, RC, d) IN Len(w) >= 2
=============================================================================
