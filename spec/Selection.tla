----------------------------- MODULE Selection -----------------------------
(* L1 semantics for C14: mesh face selection is set algebra over a per-face   *)
(* predicate.                                                                 *)
(*   - Apply: Add = union, Remove = difference, Keep = intersection with the  *)
(*     set of faces that satisfy the criterion.                               *)
(*   - Verdict operators: whether a face satisfies a criterion, computed      *)
(*     exactly on the lattice (integer cross / dot products, squared          *)
(*     comparisons) as "T", "F" or "free"; "free" is returned exactly where   *)
(*     the compared quantities are equal in exact arithmetic (the statement   *)
(*     does not say whether "within" is strict, and rounding decides there).  *)
(*   - MeshOK: the mesh built from a selection.                               *)
(* Faces are 1-based in the specification (0-based in the records, see Fc).   *)
(* No variables here; the L2 transcription of the library's algorithm lives   *)
(* in MC_C14alg, the history machine in MC_C14, the judge in Trace_Selection. *)
EXTENDS Integers, FiniteSets, Sequences

\* ------------------------------------------------------------------ set algebra
Apply(mode, sel, sat) ==
    CASE mode = "add"    -> sel \cup sat
      [] mode = "remove" -> sel \ sat
      [] mode = "keep"   -> sel \cap sat

SeqSet(s) == {s[j] : j \in 1..Len(s)}
StartSel(start, nf) ==
    CASE start.kind = "none" -> {}
      [] start.kind = "all"  -> 1..nf
      [] OTHER               -> {start.idx[j] + 1 : j \in 1..Len(start.idx)}

\* laws of the algebra (checked by TLC on every state of the history machine)
LawMonotone(sel, sat) == /\ sel \subseteq Apply("add", sel, sat)
                         /\ Apply("remove", sel, sat) \subseteq sel
                         /\ Apply("keep", sel, sat) \subseteq sel
LawPartition(sel, sat) == /\ Apply("keep", sel, sat) \cup Apply("remove", sel, sat) = sel
                          /\ Apply("keep", sel, sat) \cap Apply("remove", sel, sat) = {}
LawIdempotent(sel, sat) == \A m \in {"add", "remove", "keep"} : Apply(m, Apply(m, sel, sat), sat) = Apply(m, sel, sat)
LawAbsorb(sel, sat) == /\ Apply("keep", Apply("add", sel, sat), sat) = sat
                       /\ Apply("remove", Apply("add", sel, sat), sat) = sel \ sat
                       /\ Apply("add", Apply("remove", sel, sat), sat) = sel \cup sat

\* ------------------------------------------------------------------ three-valued verdicts
And3(a, b) == IF a = "F" \/ b = "F" THEN "F" ELSE IF a = "T" /\ b = "T" THEN "T" ELSE "free"
Or3(a, b)  == IF a = "T" \/ b = "T" THEN "T" ELSE IF a = "F" /\ b = "F" THEN "F" ELSE "free"
Agrees(verdict, b) == \/ verdict = "free" \/ (verdict = "T" /\ b) \/ (verdict = "F" /\ ~b)
\* sign of (a - b) as a verdict for "a is within b": smaller -> T, equal -> free, larger -> F
Within(a, b) == IF a < b THEN "T" ELSE IF a = b THEN "free" ELSE "F"

\* ------------------------------------------------------------------ exact lattice geometry
Sub(p, q)   == <<p[1] - q[1], p[2] - q[2], p[3] - q[3]>>
Dot(p, q)   == p[1] * q[1] + p[2] * q[2] + p[3] * q[3]
Cross(p, q) == <<p[2] * q[3] - p[3] * q[2], p[3] * q[1] - p[1] * q[3], p[1] * q[2] - p[2] * q[1]>>
N2(p)       == Dot(p, p)
Sg(x)       == IF x < 0 THEN -1 ELSE IF x > 0 THEN 1 ELSE 0

Fc(faces, f)      == <<faces[f][1] + 1, faces[f][2] + 1, faces[f][3] + 1>>     \* 1-based vertex ids of face f
FaceNormal(vpos, faces, f) ==                                                  \* unnormalised, right-hand rule
    LET t == Fc(faces, f) IN Cross(Sub(vpos[t[2]], vpos[t[1]]), Sub(vpos[t[3]], vpos[t[1]]))

\* cos^2 of the lattice angles (degrees) as <<sign, num, den>>
CosSq(deg) == CASE deg = 0   -> <<1, 1, 1>>  [] deg = 30  -> <<1, 3, 4>>  [] deg = 45  -> <<1, 1, 2>>
                [] deg = 60  -> <<1, 1, 4>>  [] deg = 90  -> <<0, 0, 1>>  [] deg = 120 -> <<-1, 1, 4>>
                [] deg = 135 -> <<-1, 1, 2>> [] deg = 150 -> <<-1, 3, 4>> [] deg = 180 -> <<-1, 1, 1>>
Degs == {0, 30, 45, 60, 90, 120, 135, 150, 180}

\* "the angle between vectors a and b is within deg": cos(angle) = x / sqrt(y) against cos(deg);
\* t |-> sgn(t) t^2 is monotone, so the comparison is one of signed squares
AngleWithin(a, b, deg) ==
    LET x == Dot(a, b) y == N2(a) * N2(b) c == CosSq(deg)
        lhs == Sg(x) * x * x * c[3]           \* cos(angle), signed square, times y * den
        rhs == c[1] * c[2] * y                \* cos(deg),   signed square, times y * den
    IN IF y = 0 THEN "free" ELSE Within(rhs, lhs)      \* angle smaller <=> cosine larger
\* an angle beyond 180 degrees includes every direction (used to mean "any orientation")
AngleWithinAny(a, b, deg) == IF deg > 180 THEN (IF N2(a) * N2(b) = 0 THEN "free" ELSE "T") ELSE AngleWithin(a, b, deg)

\* ---- criterion "facing": angle between the face normal and direction d within deg
\* (a zero-area face has no normal: it satisfies no facing criterion - in particular never both d and -d)
FacingVerdict(vpos, faces, f, c) == IF N2(FaceNormal(vpos, faces, f)) = 0 /\ N2(c.d) # 0 /\ c.deg <= 180 THEN "F"
                                    ELSE AngleWithinAny(FaceNormal(vpos, faces, f), c.d, c.deg)

\* ---- criterion "near": reference = axis-aligned rectangle, normal axis ax (1..3), offset h, in-plane range
\* lo..hi along the two cyclically following axes, normal +axis if up.  (u, v, w) = in-plane, in-plane, normal.
Uvw(ax, p) == CASE ax = 1 -> <<p[2], p[3], p[1]>> [] ax = 2 -> <<p[3], p[1], p[2]>> [] OTHER -> p
Axis(ax, up) == LET s == IF up THEN 1 ELSE -1 IN
                CASE ax = 1 -> <<s, 0, 0>> [] ax = 2 -> <<0, s, 0>> [] OTHER -> <<0, 0, s>>
Excess(x, lo, hi) == IF x < lo THEN x - lo ELSE IF x > hi THEN x - hi ELSE 0    \* x minus its clamp
\* offset from the closest point of the rectangle to p, split into in-plane and normal parts (squared lengths)
Planar2(rf, p) == LET q == Uvw(rf.ax, p) du == Excess(q[1], rf.lo[1], rf.hi[1]) dv == Excess(q[2], rf.lo[2], rf.hi[2])
                  IN du * du + dv * dv
Dist2(rf, p)   == LET q == Uvw(rf.ax, p) IN Planar2(rf, p) + (q[3] - rf.h) * (q[3] - rf.h)

\* optional sliver: a zero-area reference triangle (a segment of that length) sticking out of the corner `hi` along the
\* first in-plane axis.  It counts for the distance; it has no normal, so where it is the closest part of the reference
\* the planar and angle tolerances have no defined meaning (free unless the distance already fails)
Sliver(rf) == IF "sliver" \in DOMAIN rf THEN rf.sliver ELSE 0
SliverD2(rf, p) == LET q == Uvw(rf.ax, p) du == Excess(q[1], rf.hi[1], rf.hi[1] + Sliver(rf)) dv == q[2] - rf.hi[2]
                   IN du * du + dv * dv + (q[3] - rf.h) * (q[3] - rf.h)
\* tolerances are given in half lattice units (dt2, pt2): d <= t/2  <=>  4 d^2 <= t^2
\* optional wall: a second rectangle hanging from the edge u = hi[1] of the plate, perpendicular to it (in the plane u = hi[1],
\* over the same v range, from the plate down to `wall` units below it), normal +u when wup.  The reference then has a crease:
\* distance is to the nearer part, the planar and angle tolerances are judged against the plane / normal of that part; where
\* both parts are equally near (the crease itself) either may be reported.
Wall(rf) == IF "wall" \in DOMAIN rf THEN rf.wall ELSE 0
WallPlanar2(rf, p) == LET q == Uvw(rf.ax, p) dv == Excess(q[2], rf.lo[2], rf.hi[2]) dw == Excess(q[3], rf.h - Wall(rf), rf.h)
                      IN dv * dv + dw * dw
WallD2(rf, p) == LET q == Uvw(rf.ax, p) IN WallPlanar2(rf, p) + (q[1] - rf.hi[1]) * (q[1] - rf.hi[1])
WallAxis(rf) == Axis((rf.ax % 3) + 1, rf.wup)
PartVerdict(c, d2, pl2, n, fnormal) ==
    And3(Within(4 * d2, c.dt2 * c.dt2),
         And3(IF c.hpt THEN Within(4 * pl2, c.pt2 * c.pt2) ELSE "T", IF c.had THEN AngleWithin(fnormal, n, c.adeg) ELSE "T"))
VertexVerdict(rf, c, p, fnormal) ==
    LET onSliver == Sliver(rf) > 0 /\ SliverD2(rf, p) <= Dist2(rf, p)
        d2     == IF onSliver THEN SliverD2(rf, p) ELSE Dist2(rf, p)
        near   == Within(4 * d2, c.dt2 * c.dt2)
        planar == IF c.hpt THEN Within(4 * Planar2(rf, p), c.pt2 * c.pt2) ELSE "T"
        angle  == IF c.had THEN AngleWithin(fnormal, Axis(rf.ax, rf.up), c.adeg) ELSE "T"
    IN IF Wall(rf) > 0 THEN
            LET pv == PartVerdict(c, Dist2(rf, p), Planar2(rf, p), Axis(rf.ax, rf.up), fnormal)
                wv == PartVerdict(c, WallD2(rf, p), WallPlanar2(rf, p), WallAxis(rf), fnormal) IN
            IF Dist2(rf, p) < WallD2(rf, p) THEN pv ELSE IF Dist2(rf, p) > WallD2(rf, p) THEN wv
            ELSE IF pv = wv THEN pv ELSE "free"
       ELSE IF onSliver /\ (c.hpt \/ c.had) THEN (IF near = "F" THEN "F" ELSE "free")
       ELSE And3(near, And3(planar, angle))
NearVerdict(vpos, faces, f, c) ==
    LET t == Fc(faces, f) n == FaceNormal(vpos, faces, f)
        v(k) == VertexVerdict(c.ref, c, vpos[t[k]], n)
    IN IF c.allv THEN And3(v(1), And3(v(2), v(3))) ELSE Or3(v(1), Or3(v(2), v(3)))

Verdict(vpos, faces, f, c) == IF c.kind = "facing" THEN FacingVerdict(vpos, faces, f, c) ELSE NearVerdict(vpos, faces, f, c)
Determined(vpos, faces, c) == \A f \in 1..Len(faces) : Verdict(vpos, faces, f, c) # "free"
SatSet(vpos, faces, c) == {f \in 1..Len(faces) : Verdict(vpos, faces, f, c) = "T"}

\* ------------------------------------------------------------------ the mesh built from a selection
\* vpos: lattice vertices, faces: 0-based triples, sel: set of 1-based face ids, q: coordinate quantum of the log,
\* o = [ok, verts (quantised), faces (0-based)].  Exactly the selected triangles (as a bag, face order free, each
\* triple free up to rotation = same winding) with identical coordinates, every vertex of the result used, and no
\* more vertices than the selected faces reference.
Rot(t) == {t, <<t[2], t[3], t[1]>>, <<t[3], t[1], t[2]>>}
QPt(q, p) == <<q * p[1], q * p[2], q * p[3]>>
SrcTri(vpos, faces, q, f) == LET t == Fc(faces, f) IN <<QPt(q, vpos[t[1]]), QPt(q, vpos[t[2]]), QPt(q, vpos[t[3]])>>
MeshIndexOK(o) == \A k \in 1..Len(o.faces) : /\ Len(o.faces[k]) = 3
                                            /\ \A a \in 1..3 : o.faces[k][a] \in 0..(Len(o.verts) - 1)
ResTri(o, k) == <<o.verts[o.faces[k][1] + 1], o.verts[o.faces[k][2] + 1], o.verts[o.faces[k][3] + 1]>>
MeshTriangles(vpos, faces, sel, q, o) ==
    LET res == {Rot(ResTri(o, k)) : k \in 1..Len(o.faces)}
        src == {Rot(SrcTri(vpos, faces, q, f)) : f \in sel} IN
    /\ Len(o.faces) = Cardinality(sel)
    /\ res = src
    \* equal as bags: immediate when the selected triangles are pairwise different, else by counting
    /\ Cardinality(src) # Cardinality(sel) =>
         \A k \in 1..Len(o.faces) :
            Cardinality({j \in 1..Len(o.faces) : ResTri(o, j) \in Rot(ResTri(o, k))}) =
            Cardinality({f \in sel : SrcTri(vpos, faces, q, f) \in Rot(ResTri(o, k))})
MeshVertices(faces, sel, o) ==
    /\ UNION {{o.faces[k][1], o.faces[k][2], o.faces[k][3]} : k \in 1..Len(o.faces)} = 0..(Len(o.verts) - 1)
    /\ Len(o.verts) <= Cardinality(UNION {{faces[f][1], faces[f][2], faces[f][3]} : f \in sel})
=============================================================================
