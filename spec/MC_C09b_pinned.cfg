CONSTANTS
  SkipOffset = 1
  XHi = 2
  NMax = 3
SPECIFICATION Spec
INVARIANT Refines
CHECK_DEADLOCK FALSE
