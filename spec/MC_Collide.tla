------------------------------ MODULE MC_Collide ------------------------------
(* The MeshCollisionSet machine explored exhaustively by TLC: laws of the L1.  *)
EXTENDS Collide, TLC
\* ---- the machine explored by TLC (laws of the L1 itself)
CONSTANTS MaxMesh, MaxExc
VARIABLES st, lastFull     \* lastFull: answer of the last check_all while the state is unchanged ({} after a change)
Xs == {0, 2, 8}
Shifts == {0, 2, -6}
Init == st = Empty /\ lastFull = {}
Add == N(st) < MaxMesh /\ \E m \in BOOLEAN, x \in Xs : st' = AddMesh(st, m, x) /\ lastFull' = {}
Exc == Cardinality(st.excs) < MaxExc /\ \E a, b \in 0..(MaxMesh - 1) : a # b /\ st' = AddExc(st, a, b) /\ lastFull' = {}
Chk == N(st) > 0 /\ \E s \in Shifts : LET tx == [k \in 1..N(st) |-> <<k - 1, IF Moving(st, k - 1) THEN s ELSE 0>>] IN
            lastFull' = Full(st, tx) /\ UNCHANGED st
Next == Add \/ Exc \/ Chk
Spec == Init /\ [][Next]_<<st, lastFull>>
\* no pair is reported in both orientations, a stationary mesh never starts a pair, an excepted pair never appears
Laws == /\ \A p \in lastFull : <<p[2], p[1]>> \notin lastFull
        /\ \A p \in lastFull : Moving(st, p[1])
        /\ \A p \in lastFull : Pair(p[1], p[2]) \notin st.excs
\* exceptions only remove pairs: the answer with an extra exception is a subset, and differs at most by that pair
ExcMonotone == \A a, b \in Ids(st) : a # b =>
    LET tx == [k \in 1..N(st) |-> <<k - 1, 0>>] f0 == Full(st, tx) f1 == Full(AddExc(st, a, b), tx) IN
    f1 \subseteq f0 /\ (f0 \ f1) \subseteq {<<a, b>>, <<b, a>>}
=============================================================================
