CONSTANTS
  Thorough = FALSE
SPECIFICATION Spec
INVARIANT Emit Laws
CHECK_DEADLOCK FALSE
