--------------------------- MODULE Trace_RcParams ---------------------------
(* Judge for C08.  Observations recorded from the real library (RcParams2,     *)
(* RcParams3, ParamHandler, iso*_from_param / param_from_iso*, RotationMatrices,*)
(* the four Jacobian row functions) are compared with the exact rational L1     *)
(* values of module RcParams.  The abstract object state advances by the        *)
(* specification's own transition (L1Init / L1Set), never by copying the log.   *)
(* Finite differences taken by the harness through the library's own            *)
(* set()/transform() are derived observations: the clauses *.matches_fd relate  *)
(* two recorded values.                                                          *)
EXTENDS RcParams, JudgeBase
VARIABLES i, st, prev, skip

KQP == 131072      \* points: 2^17 per unit
KQN == 1048576     \* unit-size values (matrix entries, cos / sin): 2^20
KQJ == 131072      \* Jacobian entries: 2^17
TP == 2            \* points: 1.5e-5
TN == 2            \* matrix entries: 2e-6
TJ == 2            \* exact Jacobian entries: 1.5e-5
TFJ == 16          \* analytic row against central finite difference: 1.2e-4 (entries reach a few thousand)
TFD == 8           \* derivative matrix against central finite difference of the rotation matrix: 8e-6
TRES == 20         \* derived residual |rd R - d| in 1e-9

CB(name, cond) == IF cond THEN TRUE ELSE (PrintT(<<"REJECT", i, name>>) /\ FALSE)
\* (a tuple is built eagerly, so every clause of a record is evaluated and reported)
AllOf(cs) == \A k \in DOMAIN cs : cs[k]

\* quantised value q (quantum 1/Q) equals the rational n/d within tol quanta; never overflows 31 bits
NearRat(q, n, d, Q, tol) ==
    LET a == n \div d b == n % d IN
    /\ AbsV(a) < 16000 /\ d <= 1000000000 \div (Q + tol + 1)
    /\ AbsV((q \div Q) - a) <= 1 + (tol \div Q)              \* coarse test first: keeps the exact one inside 31 bits
    /\ LET e == q - Q * a IN AbsV(e * d - Q * b) <= tol * d
IsVec(v) == Len(v) = 3
VecNear(qv, pt, Q, tol) == LET p == pt IN IsVec(qv) /\ \A a \in 1..3 : NearRat(qv[a], p.n[a], p.d, Q, tol)
MatNear(q9, M, H, Q, tol) == LET m == M IN Len(q9) = 9 /\ \A a \in 1..3 : \A b \in 1..3 : NearRat(q9[3 * (a - 1) + b], m[a][b], H, Q, tol)
SeqClose(a, b, tol) == Len(a) = Len(b) /\ \A k \in 1..Len(a) : AbsV(a[k] - b[k]) <= tol
CosSin(q2, a, tol) == Len(q2) = 2 /\ NearRat(q2[1], a[1], a[3], KQN, tol) /\ NearRat(q2[2], a[2], a[3], KQN, tol)

NoState == [none |-> TRUE]

\* ---------------------------------------------------------------- Jacobian rows
\* generator of parameter 3 + k in state s: known for every k once the Euler triple is known; after from_initial only
\* the representative-independent ones (x: P_X, z: R P_Z R^T)
GenKnown(s, k) == s.e # <<>> \/ k \in {1, 3}
GenM(s, k) == IF s.e # <<>> THEN EulerRD(s.e, k) ELSE IF k = 1 THEN GenX ELSE GenZ(s.M)
GenD(s, k) == IF s.e # <<>> THEN s.H * s.H ELSE IF k = 1 THEN 1 ELSE s.H * s.H
\* all three, evaluated once per record (tuples are built eagerly)
GenT(s) == <<GenM(s, 1), GenM(s, 2), GenM(s, 3)>>
DerT(s) == IF s.e # <<>> THEN <<EulerD(s.e, 1), EulerD(s.e, 2), EulerD(s.e, 3)>> ELSE <<KMul(KPX, s.M), Ident, KMul(s.M, KPZ)>>
Jac3Clauses(gt, s, J, o) ==
    LET ok == Len(o.row) = 6 /\ Len(o.fd) = 6 /\ JacPosed(J.k, J.p, J.c, J.n)
        sg == JacSign(J.k, J.p, J.c, J.n)
        q == JacMoving(J.k, J.p, J.c)
        nm == "C08.jac3." \o J.k IN
    AllOf(<< CB(nm \o ".shape", ok),
             ok => CB(nm \o ".translation_entries", \A k \in 1..3 : LET v == KTransEntry(J.n, J.nh, sg, k) IN NearRat(o.row[k], v[1], v[2], KQJ, TJ)),
             ok => CB(nm \o ".rotation_entries", \A k \in 1..3 : GenKnown(s, k) =>
                          LET v == KRotEntry(s, gt[k], GenD(s, k), J.n, J.nh, sg, q) IN NearRat(o.row[3 + k], v[1], v[2], KQJ, TJ)),
             ok => CB(nm \o ".matches_fd", SeqClose(o.row, o.fd, TFJ)) >>)
Jac2Clauses(s, J, o) ==
    LET ok == Len(o.row) = 3 /\ Len(o.fd) = 3
        v == Jac2Row(s, J.p, J.n, J.nh) IN
    AllOf(<< CB("C08.jac2.shape", ok),
             ok => CB("C08.jac2.row_exact", \A k \in 1..3 : NearRat(o.row[k], v[k][1], v[k][2], KQJ, TJ)),
             ok => CB("C08.jac2.matches_fd", SeqClose(o.row, o.fd, TFJ)) >>)

\* ---------------------------------------------------------------- RotationMatrices {q, d, rd}
RotClauses(tag, s, ro) ==
    LET shp == Len(ro.d) = 3 /\ Len(ro.rd) = 3 gt == GenT(s) dt == DerT(s) IN
    AllOf(<< CB(tag \o ".rotation_matrix", MatNear(ro.rm, s.M, s.H, KQN, TN)),
             CB(tag \o ".shape", shp),
             shp => CB(tag \o ".d_is_derivative", \A k \in 1..3 : GenKnown(s, k) => MatNear(ro.d[k], dt[k], s.H, KQN, TN)),
             shp => CB(tag \o ".rd_is_generator", \A k \in 1..3 : GenKnown(s, k) => MatNear(ro.rd[k], gt[k], GenD(s, k), KQN, TN)),
             CB(tag \o ".rd_times_r_is_d", AbsV(ro.rd_res) <= TRES),
             s.e # <<>> => CB(tag \o ".euler_angles_kept", Len(ro.re) = 3 /\ \A k \in 1..3 : CosSin(ro.re[k], s.e[k], TN)) >>)

\* ---------------------------------------------------------------- the rotation-centred object after from_initial / set
ObjClauses(r, o, s, dim, init, pure, dt) ==
    LET n == Len(r.pr)
        tag == IF dim = 2 THEN "C08.rc2" ELSE "C08.rc3"
        shp == Len(o.img) = n /\ Len(o.back) = n /\ Len(o.inv) = n /\ Len(o.jac) = Len(r.jac) IN
    AllOf(<<
        CB(tag \o ".finite", o.finite),
        CB(tag \o ".shape", shp),
        shp => CB(tag \o (IF init THEN ".initial_reproduced" ELSE ".transform_exact"), \A k \in 1..n : VecNear(o.img[k], L1Img(s, r.pr[k]), KQP, TP)),
        shp => CB(tag \o ".inverse_undoes_transform", \A k \in 1..n : VecNear(o.back[k], KInt(r.pr[k]), KQP, TP)),
        shp => CB(tag \o ".inverse_exact", \A k \in 1..n : VecNear(o.inv[k], L1Pre(s, r.pr[k]), KQP, TP)),
        CB(tag \o ".current_rc_is_moved_centre", VecNear(o.crc, s.crc, KQP, TP)),
        CB(tag \o ".rc_kept", VecNear(o.rcq, KInt(s.rc), KQP, TP)),
        (shp /\ pure /\ Len(prev) = n) => CB(tag \o ".pure_translation_translates", \A k \in 1..n : IsVec(prev[k]) /\
              \A a \in 1..3 : AbsV(o.img[k][a] - prev[k][a] - KQP * dt[a]) <= 2 * TP),
        IF dim = 2 THEN AllOf(<<
            CB("C08.rc2.parameters", VecNear(o.x, KPt(VSub(s.crc.n, VScale(s.crc.d, s.rc)), s.crc.d), KQP, TP)
                                     /\ CosSin(o.xa, <<s.M[1][1], s.M[2][1], s.H>>, TN)),
            CB("C08.rc2.rotation_only", o.rot0 = <<0, 0, 0>> /\ CosSin(o.rotv, <<s.M[1][1], s.M[2][1], s.H>>, TN)
                                        /\ CosSin(o.tv, <<s.M[1][1], s.M[2][1], s.H>>, TN)),
            shp => \A j \in 1..Len(r.jac) : Jac2Clauses(s, r.jac[j], o.jac[j]) >>)
        ELSE AllOf(<<
            RotClauses("C08.rot3", s, o.rot),
            CB("C08.rc3.transform_rotation", MatNear(o.tm, s.M, s.H, KQN, TN)),
            (s.e # <<>>) => CB("C08.rc3.euler_parameters", Len(o.xe) = 3 /\ \A k \in 1..3 : CosSin(o.xe[k], s.e[k], TN)),
            CB("C08.rot3.d_matches_fd", Len(o.dfd) = 3 /\ Len(o.rot.d) = 3 /\ \A k \in 1..3 : SeqClose(o.rot.d[k], o.dfd[k], TFD)),
            shp => LET gt == GenT(s) IN \A j \in 1..Len(r.jac) : Jac3Clauses(gt, s, r.jac[j], o.jac[j]) >>)
    >>)

PoseOf(r, dim) == IF dim = 2 THEN Aff(KRz(r.a), r.a[3], r.t, 1) ELSE Aff(r.R.M, r.R.H, r.t, 1)
SetState(r, dim) == IF dim = 2 THEN L1Set(st, r.dt, r.rot, KRz(r.a), r.a[3], <<>>)
                    ELSE L1Set(st, r.dt, r.rot, EulerM(r.e), EulerH(r.e), r.e)

\* ---------------------------------------------------------------- stateless: parameter <-> isometry round trips
JRt2(r) == LET o == r.out T == Aff(KRz(r.a), r.a[3], r.t, 1) n == Len(r.pr) shp == Len(o.img) = n /\ Len(o.pimg) = n IN
    AllOf(<< CB("C08.rt2.finite", o.finite), CB("C08.rt2.shape", shp),
             shp => CB("C08.rt2.iso_param_iso_is_identity", \A k \in 1..n : VecNear(o.img[k], AApply(T, r.pr[k]), KQP, TP)),
             shp => CB("C08.rt2.params_give_translation_times_rotation", \A k \in 1..n : VecNear(o.pimg[k], AApply(T, r.pr[k]), KQP, TP)),
             CB("C08.rt2.params_of_iso", VecNear(o.x, KInt(r.t), KQP, TP) /\ CosSin(o.xa, r.a, TN)),
             CB("C08.rt2.param_iso_param_is_identity", VecNear(o.x2, KInt(r.t), KQP, TP) /\ CosSin(o.x2a, r.a, TN)) >>)
JRt3(r) == LET o == r.out T == Aff(r.R.M, r.R.H, r.t, 1) n == Len(r.pr) shp == Len(o.img) = n /\ Len(o.pimg) = n /\ Len(o.pimg2) = n
               s == [rc |-> KZero, crc |-> KInt(KZero), M |-> r.R.M, H |-> r.R.H, e |-> <<>>] IN
    AllOf(<< CB("C08.rt3.finite", o.finite), CB("C08.rt3.shape", shp),
             shp => CB("C08.rt3.iso_param_iso_is_identity", \A k \in 1..n : VecNear(o.img[k], AApply(T, r.pr[k]), KQP, TP)),
             shp => CB("C08.rt3.param_iso_param_iso_is_identity", \A k \in 1..n : IsVec(o.pimg[k]) /\ IsVec(o.pimg2[k]) /\ SeqClose(o.pimg[k], o.pimg2[k], 2 * TP)),
             CB("C08.rt3.translation_params", VecNear(o.x, KInt(r.t), KQP, TP)),
             RotClauses("C08.rot3.from_rotation", s, o.rot) >>)
JRote(r) == LET o == r.out s == [rc |-> KZero, crc |-> KInt(KZero), M |-> EulerM(r.e), H |-> EulerH(r.e), e |-> r.e] IN
    AllOf(<< CB("C08.rot3.finite", o.finite), RotClauses("C08.rot3.from_euler", s, o.rot) >>)

\* ---------------------------------------------------------------- stateless: multi-body parameter handler
L1PreK(s, Q) == \* inverse image of a rational point
    KPt(VAdd(VScale(s.H * Q.d * s.crc.d, s.rc), KApp(KTr(s.M), VSub(VScale(s.crc.d, Q.n), VScale(Q.d, s.crc.n)))), s.H * Q.d * s.crc.d)
RECURSIVE MultiStates(_, _, _, _)
\* body states after the first k parameter updates
MultiStates(r, b, k, s0) == IF k = 0 THEN s0
    ELSE LET s == MultiStates(r, b, k - 1, s0) c == r.sets[k][b] IN
         IF b - 1 = r.static THEN s ELSE L1Set(s, c.dt, c.rot, EulerM(c.e), EulerH(c.e), c.e)
JMulti(r) ==
    LET o == r.out nb == Len(r.bodies) np == Len(r.pr)
        S0(b) == L1Init(IF r.noinit THEN AId ELSE Aff(r.bodies[b].R.M, r.bodies[b].R.H, r.bodies[b].t, 1), r.bodies[b].rc)
        S(b, k) == MultiStates(r, b, k, S0(b))
        ImgOK(im, k) == Len(im) = nb /\ \A b \in 1..nb : Len(im[b]) = np /\ \A j \in 1..np : VecNear(im[b][j], L1Img(S(b, k), r.pr[j]), KQP, TP)
        RelOK(rel, k) == Len(rel) = nb * (nb - 1) /\ \A x \in 1..Len(rel) :
            LET a == rel[x].test + 1 b == rel[x].refb + 1 IN
            a \in 1..nb /\ b \in 1..nb /\ Len(rel[x].img) = np /\
            \A j \in 1..np : VecNear(rel[x].img[j], L1PreK(S(b, k), L1Img(S(a, k), r.pr[j])), KQP, TP)
        moving == {b \in 1..nb : b - 1 # r.static}
        shp == Len(o.pidx) = nb /\ Len(o.jcols) = nb /\ Len(o.steps) = Len(r.sets) IN
    AllOf(<< CB("C08.multi.finite", o.finite), CB("C08.multi.shape", shp),
             CB("C08.multi.parameter_count", o.np = 6 * (nb - 1)),
             shp => CB("C08.multi.parameter_blocks_distinct", \A a, b \in moving : o.pidx[a] \in 0..(nb - 2) /\ (a # b => o.pidx[a] # o.pidx[b])),
             CB("C08.multi.initial_reproduced", ImgOK(o.init, 0)),
             CB("C08.multi.relative_initial", RelOK(o.rel0, 0)),
             shp => CB("C08.multi.transform_after_set", \A k \in 1..Len(r.sets) : ImgOK(o.steps[k].img, k)),
             shp => CB("C08.multi.relative_after_set", \A k \in 1..Len(r.sets) : RelOK(o.steps[k].rel, k)),
             shp => CB("C08.multi.jacobian_columns", \A b \in 1..nb : Len(o.jcols[b]) = 6 * (nb - 1) + 1 /\ o.jcols[b][6 * (nb - 1) + 1] = 0 /\
                          \A c \in 1..(6 * (nb - 1)) :
                              o.jcols[b][c] = (IF b \in moving /\ c - 1 >= 6 * o.pidx[b] /\ c - 1 < 6 * o.pidx[b] + 6 THEN c - 6 * o.pidx[b] ELSE 0)),
             \* a second fill of the same matrix (0, 7, 0, 8, -0, 9) replaces the first one entry by entry, zeros included
             shp => CB("C08.multi.jacobian_refill", Len(o.jrefill) = nb /\ \A b \in 1..nb : Len(o.jrefill[b]) = 6 * (nb - 1) /\
                          \A c \in 1..(6 * (nb - 1)) :
                              o.jrefill[b][c] = (IF b \in moving /\ c - 1 >= 6 * o.pidx[b] /\ c - 1 < 6 * o.pidx[b] + 6
                                                 THEN <<0, 7, 0, 8, 0, 9>>[c - 6 * o.pidx[b]] ELSE 0)) >>)

\* ---------------------------------------------------------------- stateless: general-position floats (derived residuals only)
TRT == 2000        \* 2e-6 on points within ~20 units of the centre (units of 1e-9)
TMAT == 200        \* 2e-7 on rotation matrix entries
TFDJ == 200        \* 2e-4 analytic row vs finite difference (units of 1e-6), entries reach ~1e3
JFloat(r) ==
    LET o == r.out tag == IF r.op = "float3" THEN "C08.float3" ELSE "C08.float2" IN
    AllOf(<< CB(tag \o ".finite", o.finite),
             CB(tag \o ".iso_param_iso_is_identity", AbsV(o.rt_res) <= TRT),
             r.op = "float3" => CB(tag \o ".from_rotation_reproduces", AbsV(o.rotm_res) <= TMAT),
             CB(tag \o ".initial_reproduced", AbsV(o.init_res) <= TRT),
             CB(tag \o ".steps", \A k \in 1..Len(o.steps) : LET s == o.steps[k] IN
                    IF "pure" \in DOMAIN s THEN
                        AllOf(<< CB(tag \o ".pure_translation_translates", AbsV(s.trans_res) <= TRT),
                                 CB(tag \o ".transform_closed_form", AbsV(s.xf_res) <= TRT) >>)
                    ELSE
                        AllOf(<< CB(tag \o ".inverse_undoes_transform", AbsV(s.inv_res) <= TRT),
                                 CB(tag \o ".current_rc_is_moved_centre", AbsV(s.crc_res) <= TRT),
                                 r.op = "float3" => CB(tag \o ".d_matches_fd", AbsV(s.d_res) <= 20),
                                 r.op = "float3" => CB(tag \o ".rd_times_r_is_d", AbsV(s.rd_res) <= TRES),
                                 r.op = "float3" => CB(tag \o ".rotations_match_transform", AbsV(s.q_res) <= TRES),
                                 CB(tag \o ".jacobian_matches_fd", \A j \in 1..Len(s.jfd) : AbsV(s.jfd[j]) <= TFDJ) >>)) >>)

Stateful(r) == r.op \in {"init2", "set2", "init3", "set3"}
JudgeStateless(r) ==
    /\ Sane(i, r)
    /\ Ran(r) => (CASE r.op = "rt2" -> JRt2(r) [] r.op = "rt3" -> JRt3(r) [] r.op = "rote" -> JRote(r)
                    [] r.op = "multi" -> JMulti(r) [] r.op \in {"float2", "float3"} -> JFloat(r)
                    [] OTHER -> CB("unknown-op", FALSE)) \in BOOLEAN

Init == i = 1 /\ st = NoState /\ prev = <<>> /\ skip = FALSE
Next ==
    /\ i <= Len(Rec)
    /\ i' = i + 1
    /\ LET r == Rec[i] IN
       IF r.op = "reset" THEN st' = NoState /\ prev' = <<>> /\ skip' = FALSE
       ELSE IF ~Stateful(r) THEN JudgeStateless(r) /\ UNCHANGED <<st, prev, skip>>
       ELSE IF skip THEN UNCHANGED <<st, prev, skip>>
       ELSE IF ~Ran(r) THEN Sane(i, r) /\ skip' = TRUE /\ UNCHANGED <<st, prev>>
       ELSE IF "nostate" \in DOMAIN r.out THEN Clause(i, "C08.harness.no_object", FALSE) /\ skip' = TRUE /\ UNCHANGED <<st, prev>>
       ELSE LET dim == IF r.op \in {"init2", "set2"} THEN 2 ELSE 3
                init == r.op \in {"init2", "init3"} IN
            IF ~init /\ st = NoState THEN Clause(i, "C08.harness.set_before_init", FALSE) /\ skip' = TRUE /\ UNCHANGED <<st, prev>>
            ELSE LET s == IF init THEN L1Init(PoseOf(r, dim), r.rc) ELSE SetState(r, dim)
                     ok == ObjClauses(r, r.out, s, dim, init, ~init /\ ~r.rot, IF init THEN KZero ELSE r.dt) IN
                 /\ skip' = ~ok /\ st' = s /\ prev' = r.out.img
Spec == Init /\ [][Next]_<<i, st, prev, skip>>
Post == TLCGet("stats").diameter - 1 = Len(Rec)
=============================================================================
