------------------------------- MODULE Angles -------------------------------
(* L1 semantics for C18: angles on the cyclic lattice Z_16 (k * TAU/16,     *)
(* optionally shifted by one ulp: e in {-1,0,1}), quantised observations in  *)
(* units of TAU/(16*2^20); angular intervals as sets of lattice angles and   *)
(* open lattice gaps; scalar intervals over {-inf,-2..2,+inf} coded -3..3.   *)
EXTENDS Integers, FiniteSets, Sequences

N  == 16
U  == 1048576
FT == N * U                      \* a full turn in quantum units
HT == FT \div 2

AbsA(x) == IF x < 0 THEN -x ELSE x
SgnA(x) == IF x < 0 THEN -1 ELSE IF x > 0 THEN 1 ELSE 0

\* cyclic distance between two quantised angles
CycDist(q, t) == LET d == (q - t) % FT IN IF d > HT THEN FT - d ELSE d

-----------------------------------------------------------------------------
(* Angular intervals.  An arc from lattice angle s through extent x is the  *)
(* set of "half-lattice" cells it covers: cell 2j is the lattice angle j,   *)
(* cell 2j+1 the open gap between j and j+1.  A negative extent sweeps the   *)
(* same set backwards.                                                      *)
Full(x) == x >= N \/ x <= -N
Lo(s, x) == IF x >= 0 THEN s ELSE s + x          \* ccw-first end (unnormalised)
Ext(x)   == IF Full(x) THEN N ELSE AbsA(x)
ArcCells(s, x) ==
    IF Full(x) THEN 0..(2*N - 1)
    ELSE {(2*(Lo(s,x) + j)) % (2*N) : j \in 0..Ext(x)} \cup
         {(2*(Lo(s,x) + j) + 1) % (2*N) : j \in 0..(Ext(x) - 1)}
EndCells(s, x) == IF Full(x) THEN {} ELSE {(2*Lo(s,x)) % (2*N), (2*(Lo(s,x) + Ext(x))) % (2*N)}

\* verdict of contains for test lattice angle t (any ulp shift): "T", "F" or "free"
ContainsVerdict(s, x, t) ==
    LET c == (2*t) % (2*N) IN
    IF c \in EndCells(s, x) THEN "free"
    ELSE IF c \in ArcCells(s, x) THEN "T" ELSE "F"

\* verdict of intersects
IntersectsVerdict(s1, x1, s2, x2) ==
    LET sh == ArcCells(s1, x1) \cap ArcCells(s2, x2) IN
    IF sh = {} THEN "F"
    ELSE IF \E c \in sh : ~(c \in EndCells(s1, x1) /\ c \in EndCells(s2, x2)) THEN "T"
    ELSE "free"

Agrees(verdict, b) == \/ verdict = "free" \/ (verdict = "T" /\ b) \/ (verdict = "F" /\ ~b)

\* laws of the arc algebra itself (checked by TLC in MC_C18)
LawBackwards(s, x) == ArcCells(s, -x) = ArcCells(s - x, x)
LawSymmetric(s1, x1, s2, x2) == IntersectsVerdict(s1, x1, s2, x2) = IntersectsVerdict(s2, x2, s1, x1)
LawContainsStart(s, x) == (2*Lo(s,x)) % (2*N) \in ArcCells(s, x)

-----------------------------------------------------------------------------
(* Scalar intervals over the coded values -3 (= -inf) .. 3 (= +inf).        *)
Codes == -3..3
IvMin(a, b) == IF a < b THEN a ELSE b
IvMax(a, b) == IF a > b THEN a ELSE b
IvSet(a, b) == IvMin(a, b)..IvMax(a, b)            \* as a set of codes (order-isomorphic to the reals involved)
IvContains(a, b, x) == IvMin(a,b) <= x /\ x <= IvMax(a,b)
IvOverlaps(a, b, c, d) == IvMax(IvMin(a,b), IvMin(c,d)) <= IvMin(IvMax(a,b), IvMax(c,d))
IvClamp(a, b, x) == IF x < IvMin(a,b) THEN IvMin(a,b) ELSE IF x > IvMax(a,b) THEN IvMax(a,b) ELSE x

LawInterComm(a, b, c, d) == IvOverlaps(a,b,c,d) = IvOverlaps(c,d,a,b)
LawInterInside(a, b, c, d) ==
    IvOverlaps(a,b,c,d) =>
       LET lo == IvMax(IvMin(a,b), IvMin(c,d)) hi == IvMin(IvMax(a,b), IvMax(c,d)) IN
       /\ IvContains(a,b,lo) /\ IvContains(a,b,hi) /\ IvContains(c,d,lo) /\ IvContains(c,d,hi)
=============================================================================
