----------------------------- MODULE StationNav -----------------------------
(* Growth beyond the listed properties: vertex-to-vertex navigation of         *)
(* CurveStation2 (at_index, at_next_index, previous, next) as a state machine  *)
(* over abstract positions.  A curve with n vertices has positions 0 .. 2(n-1):*)
(* even = vertex k/2, odd = strictly inside the edge after vertex (k-1)/2.     *)
(* Documented meaning (doc comments of the four methods):                      *)
(*   at_index       the vertex which is or directly precedes the station       *)
(*   at_next_index  the vertex which directly follows; at the last vertex the  *)
(*                  station itself                                             *)
(*   previous       inside an edge: its start vertex; on a vertex: the vertex  *)
(*                  before; at the first vertex: None                          *)
(*   next           the vertex which directly follows; at the end of the       *)
(*                  curve: None                                                *)
(* None is written -1.  Walking with next (previous) therefore visits every    *)
(* following (preceding) vertex once and then stops: termination is the law    *)
(* model-checked below.                                                        *)
EXTENDS Integers, Sequences

Last(n) == 2 * (n - 1)
IsVertex(p) == p % 2 = 0
AtIndex(n, p) == IF IsVertex(p) THEN p ELSE p - 1
AtNextIndex(n, p) == IF p = Last(n) THEN p ELSE IF IsVertex(p) THEN p + 2 ELSE p + 1
Previous(n, p) == IF ~IsVertex(p) THEN p - 1 ELSE IF p > 0 THEN p - 2 ELSE -1
NextOf(n, p) == IF p = Last(n) THEN -1 ELSE IF IsVertex(p) THEN p + 2 ELSE p + 1

\* expected walks (including the final -1)
RECURSIVE Fwd(_, _)
Fwd(n, p) == IF NextOf(n, p) = -1 THEN <<-1>> ELSE <<NextOf(n, p)>> \o Fwd(n, NextOf(n, p))
RECURSIVE Bwd(_, _)
Bwd(n, p) == IF Previous(n, p) = -1 THEN <<-1>> ELSE <<Previous(n, p)>> \o Bwd(n, Previous(n, p))
=============================================================================
