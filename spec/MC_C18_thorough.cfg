CONSTANTS
  KMax = 64
  KPair = 17
  SNeg = 8
  SHi = 23
  XS <- XSThorough
  S2 <- S2Thorough
SPECIFICATION Spec
INVARIANT Emit Laws
CHECK_DEADLOCK FALSE
