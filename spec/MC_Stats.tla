------------------------------ MODULE MC_Stats ------------------------------
(* every integer list of length 0..MaxLen over Vals: laws of the L1, one case per list *)
EXTENDS Stats, TLC, Json
CONSTANTS MaxLen, Vals
VARIABLE case
ValSet == {-3, -1, 0, 2, 3}
Lists == UNION {[1..n -> Vals] : n \in 0..MaxLen}
\* scale and place of the data handed to the library (the harness scales by 2^sc and adds `off`; results are brought back)
Sc(v) == << 0, -20, 12 >>[((Len(v) + (IF Len(v) > 0 THEN v[1] ELSE 0)) % 3) + 1]
Off(v) == << 0, 1000000, -65536 >>[((Len(v) + (IF Len(v) > 1 THEN v[2] ELSE 0)) % 3) + 1]
Cases == {[m |-> "stats", op |-> "stats", vals |-> v, sc |-> Sc(v), off |-> Off(v)] : v \in Lists} \cup
         {[m |-> "stats", op |-> "unflatten", vals |-> v, d |-> d] : v \in Lists, d \in {2, 3}}
Init == case \in Cases
Next == UNCHANGED case
Spec == Init /\ [][Next]_case
Emit == PrintT(<<"CASE", ToJson(case)>>)
LawsHold == case.op = "stats" => \A c \in {-2, 5} : Laws(case.vals, c)
RoundTrip == case.op = "unflatten" /\ UnflattenDefined(case.vals, case.d) => Flatten(Unflatten(case.vals, case.d)) = case.vals
=============================================================================
