------------------------------- MODULE MC_C03 -------------------------------
(* Bounded instance for C03.  (a) Model-checks, on the specification's own    *)
(* exact semantics, that the measurement operators used as oracles elsewhere  *)
(* (total length, minimum distance to a polyline, number of line crossings)   *)
(* are invariant under every exact lattice motion - which guards the oracles  *)
(* against frame-dependent mistakes; (b) enumerates exact rational motions     *)
(* (Pythagorean rotations about one or two axes, translations up to 1000) and  *)
(* entity/query combinations, emitted as cases for the real library.           *)
EXTENDS Rigid, TLC, Json, SequencesExt
CONSTANTS NAngles, NTrans, TwoAxis

VARIABLE case
P(x, y) == <<x, y, 0>>
Pyth == << <<1,0,1>>, <<0,1,1>>, <<3,4,5>>, <<-4,3,5>>, <<-5,-12,13>>, <<12,-5,13>>, <<-1,0,1>>, <<0,-1,1>>, <<4,3,5>>, <<-3,-4,5>>, <<5,12,13>>, <<8,15,17>> >>
Trans == << <<0,0,0>>, <<3,-2,5>>, <<-1000,999,-998>>, <<250,-125,60>> >>
Trans2 == << <<0,0,0>>, <<3,-2,0>>, <<-1000,999,0>>, <<250,-125,0>> >>

Mot2(a, t) == [M |-> RzH(Pyth[a][1], Pyth[a][2], Pyth[a][3]), H |-> Pyth[a][3], t |-> Trans2[t], planar |-> TRUE]
Mot3(a, b, t) == LET A == Pyth[a] B == Pyth[b] IN
    [M |-> MMul(RzH(A[1], A[2], A[3]), Rx(B[1], B[2], B[3])), H |-> A[3] * B[3], t |-> Trans[t], planar |-> FALSE]
Mot3y(a, b, t) == LET A == Pyth[a] B == Pyth[b] IN
    [M |-> MMul(Ry(A[1], A[2], A[3]), RzH(B[1], B[2], B[3])), H |-> A[3] * B[3], t |-> Trans[t], planar |-> FALSE]

Motions2 == {Mot2(a, t) : a \in 1..NAngles, t \in 1..NTrans}
Motions3 == {Mot3(a, b, t) : a \in 1..NAngles, b \in IF TwoAxis THEN 1..NAngles ELSE {1}, t \in 1..NTrans} \cup
            {Mot3y(a, b, t) : a \in IF TwoAxis THEN 2..NAngles ELSE {3}, b \in {1, 3}, t \in 1..NTrans}

Curves2 == { <<P(0,0), P(2,0), P(2,3)>>, <<P(0,0), P(3,4), P(3,0), P(6,0)>>, <<P(0,0), P(2,0), P(2,2), P(0,2), P(0,0)>> }
Curves3 == { <<<<0,0,0>>, <<2,0,0>>, <<2,0,3>>>>, <<<<0,0,0>>, <<0,3,4>>, <<2,3,4>>, <<2,0,0>>>> }
Queries2 == << <<1,1,0>>, <<3,-1,0>>, <<-2,5,0>>, <<2,3,0>> >>
Queries3 == << <<1,1,1>>, <<3,-1,2>>, <<-2,5,-1>>, <<0,0,2>> >>
BoxV == << <<0,0,0>>, <<2,0,0>>, <<0,0,2>>, <<2,0,2>>, <<0,2,0>>, <<2,2,0>>, <<0,2,2>>, <<2,2,2>> >>
BoxF == << <<4,7,5>>, <<4,6,7>>, <<0,2,4>>, <<2,6,4>>, <<0,1,2>>, <<1,3,2>>, <<1,5,7>>, <<1,7,3>>, <<2,3,7>>, <<2,7,6>>, <<0,4,1>>, <<1,4,5>> >>
MeshQ == << <<3,1,1>>, <<1,1,5>>, <<-1,-2,1>>, <<1,4,1>> >>
Normals == << <<1,0,0>>, <<0,0,1>>, <<1,2,2>>, <<-3,0,4>>, <<2,-1,2>> >>
Normals2 == << <<1,0,0>>, <<0,1,0>>, <<3,4,0>>, <<-1,1,0>> >>

\* a folded sheet (floor z = 0 and wall x = 2) with its unfolded uv map; queries on the half lattice (doubled)
FoldV == << <<0,0,0>>, <<2,0,0>>, <<0,2,0>>, <<2,2,0>>, <<2,0,2>>, <<2,2,2>> >>
FoldF == << <<0,1,3>>, <<0,3,2>>, <<1,4,5>>, <<1,5,3>> >>
FoldUV == << <<0,0,0>>, <<2,0,0>>, <<0,2,0>>, <<2,2,0>>, <<4,0,0>>, <<4,2,0>> >>
FoldQ == << <<2,1,1>>, <<1,3,2>>, <<3,2,3>>, <<-2,1,1>>, <<2,1,-2>>, <<6,2,2>>, <<3,1,0>>, <<1,2,7>> >>
\* (max distance, max angle) in sixteenths: no cap / distance cap 3/4 / angle cap 1/2 rad
Caps == << <<800, 48>>, <<12, 48>>, <<800, 8>> >>
\* outlines for from_points_ccw: counter-clockwise and clockwise triangles, a dart (three hull vertices), a pentagon, a clockwise square
Outlines == << <<P(0,0), P(4,0), P(0,3)>>, <<P(0,0), P(0,3), P(4,0)>>, <<P(0,0), P(2,1), P(4,0), P(2,4)>>, <<P(2,4), P(4,0), P(2,1), P(0,0)>>,
               <<P(1,0), P(3,0), P(4,2), P(2,4), P(0,2)>>, <<P(0,0), P(0,2), P(2,2), P(2,0)>> >>

\* a roof ridge plus a large oblique face far above it (plane x + z = 12) whose bounding box covers the ridge in some frames
\* only: the side of the surface a point lies on may not depend on such a face.  All queries have a unique closest point.
RoofV == << <<2,0,2>>, <<2,4,2>>, <<0,2,0>>, <<4,2,0>>, <<14,-2,-2>>, <<-2,-2,14>>, <<6,10,6>> >>
RoofF == << <<0,1,2>>, <<1,0,3>>, <<4,5,6>> >>
RoofUV == << <<2,0,0>>, <<2,4,0>>, <<0,2,0>>, <<4,2,0>>, <<14,-2,0>>, <<-2,-2,0>>, <<6,10,0>> >>
RoofQ == << <<6,4,8>>, <<2,4,8>>, <<5,3,7>>, <<3,5,6>>, <<3,4,2>> >>
\* a curve that is closed only within its tolerance (closing gap 1, tolerance 1.5): the closing vertex is a vertex of its own
TolClosed == <<P(0,0), P(4,0), P(4,4), P(0,4), P(0,1)>>

Cases ==
    {[m |-> "rigid", op |-> "meshopt", dim |-> 3, T |-> T, vpos |-> RoofV, faces |-> RoofF, uv |-> RoofUV, qs |-> RoofQ, md16 |-> 800, ang16 |-> 48, devall |-> TRUE] : T \in Motions3} \cup
    {[m |-> "rigid", op |-> "curve", dim |-> 2, T |-> T, T2 |-> Mot2(3, 2), tol16 |-> 24, pts |-> TolClosed, fc |-> FALSE, ls |-> <<1, 9, 17, 29>>, qs |-> Queries2] : T \in Motions2} \cup
    {[m |-> "rigid", op |-> "meshopt", dim |-> 3, T |-> T, vpos |-> FoldV, faces |-> FoldF, uv |-> FoldUV, qs |-> FoldQ, md16 |-> Caps[c][1], ang16 |-> Caps[c][2]] : T \in Motions3, c \in 1..3} \cup
    {[m |-> "rigid", op |-> "ccw", dim |-> 2, T |-> T, pts |-> Outlines[k], fc |-> fc] : T \in Motions2, k \in 1..6, fc \in BOOLEAN} \cup
    {[m |-> "rigid", op |-> "sp", dim |-> 2, T |-> T, p |-> <<1,2,0>>, n |-> Normals2[k], qs |-> Queries2] : T \in Motions2, k \in 1..4} \cup
    {[m |-> "rigid", op |-> "sp", dim |-> 3, T |-> T, p |-> <<1,2,-1>>, n |-> Normals[k], qs |-> Queries3] : T \in Motions3, k \in 1..5} \cup
    {[m |-> "rigid", op |-> "curve", dim |-> 2, T |-> T, T2 |-> Mot2(3, 2), pts |-> c, fc |-> FALSE, ls |-> <<0, 1, 3, 4, 7>>, qs |-> Queries2] : T \in Motions2, c \in Curves2} \cup
    \* vertex spacing between tol and tol*sqrt(2): construction (de-duplication) must not depend on the frame
    {[m |-> "rigid", op |-> "curve", dim |-> 2, T |-> T, T2 |-> Mot2(3, 2), tol16 |-> 13, pts |-> <<P(0,0), P(1,0), P(1,1), P(3,1)>>, fc |-> FALSE, ls |-> <<1, 3, 5>>, qs |-> Queries2] : T \in Motions2} \cup
    {[m |-> "rigid", op |-> "curve", dim |-> 3, T |-> T, T2 |-> Mot3(3, 4, 2), tol16 |-> 13, pts |-> <<<<0,0,0>>, <<1,0,0>>, <<1,0,1>>, <<1,2,1>>>>, fc |-> FALSE, ls |-> <<1, 3, 5>>, qs |-> Queries3] : T \in Motions3} \cup
    {[m |-> "rigid", op |-> "curve", dim |-> 3, T |-> T, T2 |-> Mot3(3, 4, 2), pts |-> c, fc |-> FALSE, ls |-> <<0, 1, 3, 4, 7>>, qs |-> Queries3] : T \in Motions3, c \in Curves3} \cup
    {[m |-> "rigid", op |-> "seg", dim |-> 2, T |-> T, a |-> <<1,1,0>>, b |-> <<4,5,0>>, qs |-> Queries2] : T \in Motions2} \cup
    {[m |-> "rigid", op |-> "mesh", dim |-> 3, T |-> T, vpos |-> BoxV, faces |-> BoxF, qs |-> MeshQ] : T \in Motions3} \cup
    {[m |-> "rigid", op |-> "cloud", dim |-> 3, T |-> T, pts |-> Queries3, ns |-> SubSeq(Normals, 1, 4)] : T \in Motions3} \cup
    {[m |-> "rigid", op |-> "dist", dim |-> 3, T |-> T, a |-> <<1,1,0>>, b |-> <<4,5,0>>, n |-> Normals2[k]] : T \in Motions2, k \in 1..4}

Init == case \in Cases
Next == UNCHANGED case
Spec == Init /\ [][Next]_case
Emit == PrintT(<<"CASE", ToJson(case)>>)

\* every emitted motion is a proper rotation plus translation
Proper == IsRotation(case.T.M, case.T.H)
\* the oracle operators are frame independent under every exact lattice motion
Shifts == {<<0,0,0>>, <<3,-2,0>>, <<-7,5,0>>}
OracleInvariant == (case.op = "curve" /\ case.dim = 2) =>
    \A k \in 0..3, t \in Shifts :
        LET v == case.pts w == LatticeMoveSeq(k, t, v) IN
        /\ TotalLen(w) = TotalLen(v)
        /\ \A j \in 1..Len(case.qs) :
              /\ REq(CurveMinD2(LatticeMove(k, t, case.qs[j]), w), CurveMinD2(case.qs[j], v))
              /\ NumCross(w, LatticeMove(k, t, case.qs[j]), MApply(Quarter(k), <<1, 2, 0>>)) = NumCross(v, case.qs[j], <<1, 2, 0>>)
=============================================================================
