CONSTANTS
  Topo = "fold2"
  Memo = "vertex"
  AokPerVertex = TRUE
  Rotate = TRUE
SPECIFICATION Spec
INVARIANT Refines MemoSound PassesExact FacingExact Bounded
CHECK_DEADLOCK FALSE
