----------------------------- MODULE MC_C04alg -----------------------------
(* Model check: the transcription of Curve2::between_lengths refines the L1   *)
(* portion semantics for every curated root curve and every pair of           *)
(* half-lattice arc lengths (in range, out of range, on vertices, on the      *)
(* seam, same edge, last edge, reversed).                                     *)
EXTENDS CurveAlg, TLC
VARIABLE root
P(x, y) == <<x, y, 0>>
Roots == {
    [pts |-> <<P(0,0), P(1,0), P(1,1), P(0,1)>>, fc |-> TRUE],
    [pts |-> <<P(0,0), P(2,0), P(2,1), P(0,1), P(0,0)>>, fc |-> FALSE],
    [pts |-> <<P(0,0), P(4,0), P(4,3)>>, fc |-> TRUE],
    [pts |-> <<P(0,0), P(2,0), P(2,3)>>, fc |-> FALSE],
    [pts |-> <<P(0,0), P(1,0), P(3,0), P(3,2)>>, fc |-> FALSE],
    [pts |-> <<P(0,0), P(3,0), P(1,0)>>, fc |-> FALSE],
    [pts |-> <<P(0,0), P(3,4), P(3,0)>>, fc |-> FALSE],
    [pts |-> <<P(0,1), P(3,1), P(3,3), P(1,3), P(1,0)>>, fc |-> FALSE],
    [pts |-> <<P(0,0), P(3,0)>>, fc |-> FALSE],
    [pts |-> <<P(1,0), P(2,0), P(2,2), P(0,2), P(0,0), P(1,0)>>, fc |-> FALSE] }
Init == root \in Roots
Next == UNCHANGED root
Spec == Init /\ [][Next]_root
V == Built(root.pts, 0, root.fc, 2)
RC == IsClosedV(V, 0, 2)
Refines == \A l0, l1 \in -1..(RootLen2(V) + 1) : AlgRefinesL1(V, RC, l0, l1)
=============================================================================
