------------------------------- MODULE MC_C20 -------------------------------
(* Bounded instance for C20: planar lattice disks (triangle, quads with both   *)
(* diagonals, strip, L-shape, 2x2 grid with every diagonal choice, hexagonal    *)
(* fan with an interior vertex) under vertex renumberings and face rotations,   *)
(* in exact 3D poses; curved disks (pyramid fans, bent strip) in two poses;     *)
(* non-disk inputs (closed, two loops, annulus, non-manifold edge, vertex-only   *)
(* contact).  Model-checks that the disk classification of the specification    *)
(* agrees with the hand labels of the instances.                                *)
EXTENDS Flatten, TLC, Json, SequencesExt
CONSTANTS NPerm, NPose, AllDiagonals
VARIABLE case
V3(x, y, z) == <<x, y, z>>
\* grid of w x h unit squares; diag[k] in {0,1} chooses the diagonal of square k (row-major)
GridV(w, h) == [k \in 1..((w + 1) * (h + 1)) |-> V3((k - 1) % (w + 1), (k - 1) \div (w + 1), 0)]
\* sheared grid: same connectivity, vertices (x + k*y, y): obtuse triangles, non-Delaunay diagonals, negative cotangent weights
ShearV(w, h, k) == [j \in 1..((w + 1) * (h + 1)) |-> V3(((j - 1) % (w + 1)) + k * ((j - 1) \div (w + 1)), (j - 1) \div (w + 1), 0)]
Vid(w, x, y) == y * (w + 1) + x
SquareF(w, x, y, dg) == LET a == Vid(w, x, y) b == Vid(w, x + 1, y) c == Vid(w, x + 1, y + 1) d == Vid(w, x, y + 1) IN
    IF dg = 0 THEN << <<a, b, c>>, <<a, c, d>> >> ELSE << <<a, b, d>>, <<b, c, d>> >>
GridF(w, h, diag, holes) == LET RECURSIVE G(_) G(k) == IF k > w * h THEN <<>> ELSE
        (IF k \in holes THEN <<>> ELSE SquareF(w, (k - 1) % w, (k - 1) \div w, diag[k])) \o G(k + 1) IN G(1)
Diags(n) == IF AllDiagonals THEN [1..n -> {0, 1}] ELSE {[k \in 1..n |-> 0], [k \in 1..n |-> k % 2], [k \in 1..n |-> 1]}
HexV == <<V3(2,2,0), V3(4,2,0), V3(3,4,0), V3(1,4,0), V3(0,2,0), V3(1,0,0), V3(3,0,0)>>
HexF == << <<0,1,2>>, <<0,2,3>>, <<0,3,4>>, <<0,4,5>>, <<0,5,6>>, <<0,6,1>> >>
PyrV(hh) == <<V3(2,2,hh), V3(4,2,0), V3(3,4,0), V3(1,4,0), V3(0,2,0), V3(1,0,0), V3(3,0,0)>>

Disks ==
    {[name |-> "tri", vpos |-> <<V3(0,0,0), V3(3,0,0), V3(0,4,0)>>, faces |-> << <<0,1,2>> >>, planar |-> TRUE]} \cup
    {[name |-> "quad", vpos |-> GridV(1, 1), faces |-> GridF(1, 1, d, {}), planar |-> TRUE] : d \in [1..1 -> {0, 1}]} \cup
    {[name |-> "strip", vpos |-> GridV(3, 1), faces |-> GridF(3, 1, d, {}), planar |-> TRUE] : d \in Diags(3)} \cup
    {[name |-> "ell", vpos |-> GridV(2, 2), faces |-> GridF(2, 2, d, {4}), planar |-> TRUE] : d \in Diags(4)} \cup
    {[name |-> "grid22", vpos |-> GridV(2, 2), faces |-> GridF(2, 2, d, {}), planar |-> TRUE] : d \in Diags(4)} \cup
    {[name |-> "hex", vpos |-> HexV, faces |-> HexF, planar |-> TRUE]} \cup
    {[name |-> "shear", vpos |-> ShearV(2, 2, k), faces |-> GridF(2, 2, d, {}), planar |-> TRUE] : k \in {1, 2}, d \in Diags(4)} \cup
    {[name |-> "shearstrip", vpos |-> ShearV(3, 1, 2), faces |-> GridF(3, 1, d, {}), planar |-> TRUE] : d \in Diags(3)} \cup
    {[name |-> "pyramid", vpos |-> PyrV(hh), faces |-> HexF, planar |-> FALSE] : hh \in {1, 3}}
NonDisks ==
    {[name |-> "tetra", vpos |-> <<V3(0,0,0), V3(3,0,0), V3(0,3,0), V3(0,0,3)>>, faces |-> << <<0,2,1>>, <<0,1,3>>, <<1,2,3>>, <<0,3,2>> >>, planar |-> FALSE],
     [name |-> "twotri", vpos |-> <<V3(0,0,0), V3(1,0,0), V3(0,1,0), V3(3,0,0), V3(4,0,0), V3(3,1,0)>>, faces |-> << <<0,1,2>>, <<3,4,5>> >>, planar |-> TRUE],
     [name |-> "annulus", vpos |-> GridV(3, 3), faces |-> GridF(3, 3, [k \in 1..9 |-> 0], {5}), planar |-> TRUE],
     [name |-> "fin", vpos |-> <<V3(0,0,0), V3(2,0,0), V3(1,2,0), V3(1,-2,0), V3(1,0,2)>>, faces |-> << <<0,1,2>>, <<1,0,3>>, <<0,1,4>> >>, planar |-> FALSE],
     \* a disk with a closed pocket (a tetrahedron) glued on one of its interior edges: that edge is used by four faces, and the
     \* only boundary is still the outline of the disk (so neither the loop count nor a face/edge count gives it away)
     [name |-> "pocket", vpos |-> GridV(2, 2) \o <<V3(1,1,2), V3(2,2,2)>>,
      faces |-> GridF(2, 2, [k \in 1..4 |-> 0], {}) \o << <<4,5,9>>, <<4,10,5>>, <<4,9,10>>, <<5,10,9>> >>, planar |-> FALSE],
     [name |-> "hexpocket", vpos |-> HexV \o <<V3(2,2,2), V3(4,3,2)>>,
      faces |-> HexF \o << <<0,1,7>>, <<0,8,1>>, <<0,7,8>>, <<1,8,7>> >>, planar |-> FALSE],
     [name |-> "bowtie", vpos |-> <<V3(2,2,0), V3(0,0,0), V3(2,0,0), V3(4,4,0), V3(2,4,0)>>, faces |-> << <<0,1,2>>, <<0,3,4>> >>, planar |-> TRUE]}

\* vertex renumberings: identity, reversal, cyclic shifts, an interleaving
Perm(n, j) == IF j = 1 THEN [k \in 0..(n - 1) |-> k]
              ELSE IF j = 2 THEN [k \in 0..(n - 1) |-> n - 1 - k]
              ELSE IF j = 3 THEN [k \in 0..(n - 1) |-> (k + 1) % n]
              ELSE IF j = 4 THEN [k \in 0..(n - 1) |-> ((k * 2) % n) + (IF 2 * k >= n /\ (n % 2) = 0 THEN 1 ELSE 0)]
              ELSE [k \in 0..(n - 1) |-> (k + n \div 2) % n]
IsPerm(p, n) == {p[k] : k \in 0..(n - 1)} = 0..(n - 1)
Renumber(ms, p, rot) ==
    LET n == Len(ms.vpos)
        inv == [k \in 0..(n - 1) |-> CHOOSE j \in 0..(n - 1) : p[j] = k] IN
    [name |-> ms.name, planar |-> ms.planar,
     vpos |-> [k \in 1..n |-> ms.vpos[inv[k - 1] + 1]],
     faces |-> [k \in 1..Len(ms.faces) |-> LET f == ms.faces[k] g == <<p[f[1]], p[f[2]], p[f[3]]>> IN
                    IF (k + rot) % 3 = 0 THEN g ELSE IF (k + rot) % 3 = 1 THEN <<g[2], g[3], g[1]>> ELSE <<g[3], g[1], g[2]>>]]
Motions == << [M |-> Ident, H |-> 1, t |-> V3(0,0,0)],
              [M |-> MMul(Rx(-4,3,5), RzH(3,4,5)), H |-> 25, t |-> V3(-10,20,7)],
              [M |-> MMul(RzH(0,1,1), Ry(3,4,5)), H |-> 5, t |-> V3(1,1,1)] >>

Cases ==
    UNION {{[m |-> "flatten", op |-> "flatten", wd |-> 5000, mesh |-> Renumber(ms, Perm(Len(ms.vpos), j), j), T |-> Motions[t], T2 |-> Motions[(t % 3) + 1], disk |-> TRUE]
              : j \in {x \in 1..NPerm : IsPerm(Perm(Len(ms.vpos), x), Len(ms.vpos))}, t \in 1..NPose} : ms \in Disks} \cup
    {[m |-> "flatten", op |-> "flatten", wd |-> 5000, mesh |-> ms, T |-> Motions[t], T2 |-> Motions[(t % 3) + 1], disk |-> FALSE] : ms \in NonDisks, t \in 1..NPose} \cup
    \* the same disks at part sizes of 1e-5 and 1e3 units: acceptance and shape may not depend on the size
    UNION {{[m |-> "flatten", op |-> "flatten", wd |-> 5000, mesh |-> ms, T |-> Motions[1], T2 |-> Motions[2], disk |-> TRUE, sc |-> k] : k \in {-17, 10}} : ms \in Disks} \cup
    \* the same disks far from the origin (2^20 and 2^24 lattice units: six and seven digits between position and feature size; the
    \* second pose lies on the opposite side of the origin): acceptance and shape may not depend on the place
    UNION {{[m |-> "flatten", op |-> "flatten", wd |-> 5000, mesh |-> ms, T |-> Motions[2], T2 |-> Motions[3], disk |-> TRUE, far |-> f]
              : f \in {V3(1048576, -524288, 262144), V3(16777216, -8388608, 4194304)}} : ms \in Disks} \cup
    {[m |-> "flatten", op |-> "uv", wd |-> 5000, mesh |-> ms, T |-> Motions[t], disk |-> TRUE] : ms \in {x \in Disks : x.planar}, t \in 1..NPose} \cup
    \* the same maps stored with v pointing down (all uv triangles clockwise)
    {[m |-> "flatten", op |-> "uv", wd |-> 5000, mesh |-> ms, T |-> Motions[1], disk |-> TRUE, uvflip |-> 1] : ms \in {x \in Disks : x.planar}} \cup
    \* the uv map attached through Mesh::new_with_options instead of Mesh::new_with_uv
    {[m |-> "flatten", op |-> "uv", wd |-> 5000, mesh |-> ms, T |-> Motions[2], disk |-> TRUE, ctor |-> 1] : ms \in {x \in Disks : x.planar}}

Init == case \in Cases
Next == UNCHANGED case
Spec == Init /\ [][Next]_case
Emit == PrintT(<<"CASE", ToJson(case)>>)
\* the specification's disk classification agrees with the labels, and renumbering does not change it
Laws == /\ case.disk = IsDisk(case.mesh.faces)
        /\ ~case.disk => ClearlyNotDisk(case.mesh.faces)
        /\ IsRotation(case.T.M, case.T.H)
=============================================================================
