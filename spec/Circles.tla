------------------------------- MODULE Circles -------------------------------
(* L1 semantics for C11: circles with lattice centres and integer radii     *)
(* <<x, y, r>>, lattice points <<x, y>>, Z_16 angles and Pythagorean        *)
(* (exactly rational) directions <<dx, dy, h>> with dx^2 + dy^2 = h^2.      *)
(* Observed coordinates are integers in units of 1/q of a lattice unit (q   *)
(* is the record's quantum); every relation below is the defining           *)
(* constraint of the property written with integer arithmetic on those      *)
(* (all products stay below 2^31 as long as (r+1)*q <= 32000 and centres    *)
(* stay within +-60).  Where the statement leaves something open (order of  *)
(* the two intersection points, inclusion of a point exactly at a segment   *)
(* end, a tangent construction for circles touching from the inside) the    *)
(* operators leave it open too.                                             *)
EXTENDS Integers, Sequences, FiniteSets

AbsC(x) == IF x < 0 THEN -x ELSE x
SgnC(x) == IF x < 0 THEN -1 ELSE IF x > 0 THEN 1 ELSE 0
MinC(a, b) == IF a < b THEN a ELSE b
MaxC(a, b) == IF a > b THEN a ELSE b
Sq(x) == x * x
Dot2(ax, ay, bx, by) == ax * bx + ay * by
Cross2(ax, ay, bx, by) == ax * by - ay * bx

RECURSIVE ISqrtR(_, _, _)
ISqrtR(n, lo, hi) == IF lo = hi THEN lo
                     ELSE LET mid == (lo + hi + 1) \div 2
                          IN IF mid * mid <= n THEN ISqrtR(n, mid, hi) ELSE ISqrtR(n, lo, mid - 1)
ISqrt(n) == ISqrtR(n, 0, 46340)                      \* floor(sqrt(n)) for 0 <= n < 2^31
IsSquare(n) == n >= 0 /\ Sq(ISqrt(n)) = n
\* sign of (sqrt(n) - k) for an integer n >= 0 and any integer k
SqrtCmp(n, k) == IF k < 0 THEN 1 ELSE IF k > 46340 THEN -1 ELSE SgnC(n - k * k)

SetMin(S) == CHOOSE x \in S : \A y \in S : x <= y
SetMax(S) == CHOOSE x \in S : \A y \in S : x >= y

-----------------------------------------------------------------------------
(* Two circles.                                                             *)
Dist2(c0, c1) == Sq(c1[1] - c0[1]) + Sq(c1[2] - c0[2])
RSum2(c0, c1) == Sq(c0[3] + c1[3])
RDif2(c0, c1) == Sq(c0[3] - c1[3])

PairClass(c0, c1) ==
    LET d == Dist2(c0, c1) IN
    IF d = 0 THEN "concentric"
    ELSE IF d > RSum2(c0, c1) THEN "separate"
    ELSE IF d = RSum2(c0, c1) THEN "ext_tangent"
    ELSE IF d > RDif2(c0, c1) THEN "crossing"
    ELSE IF d = RDif2(c0, c1) THEN "int_tangent"
    ELSE "nested"

\* the number of intersection points the property demands
CCCount(c0, c1) ==
    CASE PairClass(c0, c1) \in {"concentric", "separate", "nested"} -> 0
      [] PairClass(c0, c1) \in {"ext_tangent", "int_tangent"} -> 1
      [] OTHER -> 2

\* L2: the branch structure of (the repaired) Circle2::intersections_with: guards in program order
\* on the real distance d = sqrt(D), compared through squares (all quantities are non-negative)
L2CCCount(c0, c1) ==
    LET D == Dist2(c0, c1) IN
    IF D = 0 THEN 0                                    \* d < TOL
    ELSE IF D > RSum2(c0, c1) THEN 0                   \* d > r_sum
    ELSE IF D < RDif2(c0, c1) THEN 0                   \* d < r_diff
    ELSE IF D = RSum2(c0, c1) \/ D = RDif2(c0, c1) THEN 1
    ELSE 2

\* guard: the observed point is near enough to the circle for the squares to fit in 31 bits
Within(p, c, q) == /\ AbsC(p[1] - c[1] * q) <= (c[3] + 1) * q
                   /\ AbsC(p[2] - c[2] * q) <= (c[3] + 1) * q
\* |p - c|^2 = r^2 up to the rounding of p to whole quanta
OnCircleQ(p, c, q) == /\ Within(p, c, q)
                      /\ AbsC(Sq(p[1] - c[1] * q) + Sq(p[2] - c[2] * q) - Sq(c[3] * q)) <= 2 * c[3] * q + 2
\* which side of the directed line c0 -> c1 the point lies on (positive = left)
SideQ(c0, c1, p, q) == Cross2(c1[1] - c0[1], c1[2] - c0[2], p[1] - c0[1] * q, p[2] - c0[2] * q)
AlongQ(c0, c1, p, q) == Dot2(c1[1] - c0[1], c1[2] - c0[2], p[1] - c0[1] * q, p[2] - c0[2] * q)
Span(c0, c1) == AbsC(c1[1] - c0[1]) + AbsC(c1[2] - c0[2])

\* every returned point lies on both circles
CCOnBoth(c0, c1, pts, q) == \A j \in 1..Len(pts) : OnCircleQ(pts[j], c0, q) /\ OnCircleQ(pts[j], c1, q)
\* two crossing points are mirror images in the line of centres, a tangent point lies on it
CCDistinct(c0, c1, pts, q) ==
    /\ Len(pts) = 2 => SgnC(SideQ(c0, c1, pts[1], q)) * SgnC(SideQ(c0, c1, pts[2], q)) = -1
    /\ (Len(pts) = 1 /\ CCCount(c0, c1) = 1) => AbsC(SideQ(c0, c1, pts[1], q)) <= Span(c0, c1) + 1
CCPointsOK(c0, c1, pts, q) ==
    /\ Len(pts) = CCCount(c0, c1)
    /\ CCOnBoth(c0, c1, pts, q)
    /\ CCDistinct(c0, c1, pts, q)

\* intersection_interval of c0 with c1, observed as the points of c0 at its start, end and middle:
\* the part of c0's perimeter inside c1, hence its ends are the crossing points and its middle points at c1
IvEndsOK(c0, c1, ps, pe, q) ==
    /\ OnCircleQ(ps, c0, q) /\ OnCircleQ(ps, c1, q)
    /\ CCCount(c0, c1) = 2 => /\ OnCircleQ(pe, c0, q) /\ OnCircleQ(pe, c1, q)
                              /\ SgnC(SideQ(c0, c1, ps, q)) * SgnC(SideQ(c0, c1, pe, q)) = -1
IvMidOK(c0, c1, pm, q) ==
    CCCount(c0, c1) = 2 => /\ OnCircleQ(pm, c0, q)
                           /\ AbsC(SideQ(c0, c1, pm, q)) <= Span(c0, c1) + 1
                           /\ AlongQ(c0, c1, pm, q) > 0
IvOK(c0, c1, some, ps, pe, pm, q) ==
    IF CCCount(c0, c1) = 0 THEN ~some
    ELSE some /\ IvEndsOK(c0, c1, ps, pe, q) /\ IvMidOK(c0, c1, pm, q)

-----------------------------------------------------------------------------
(* Outer tangents of c0 and c1: they exist iff neither circle lies inside   *)
(* the other.  A segment is <<ax, ay, bx, by>> from c0's to c1's tangency.  *)
OuterClass(c0, c1) ==
    LET d == Dist2(c0, c1) IN
    IF d = 0 THEN "none"
    ELSE IF d < RDif2(c0, c1) THEN "none"
    ELSE IF d = RDif2(c0, c1) THEN "degenerate"      \* touching from the inside: one common tangent, zero length
    ELSE "two"

SegBounded(c0, c1, g, q) == /\ Within(<<g[1], g[2]>>, c0, q) /\ Within(<<g[3], g[4]>>, c1, q)
OuterSegOK(c0, c1, g, q) ==
    LET ax == g[1] - c0[1] * q   ay == g[2] - c0[2] * q        \* radius vector at a
        bx == g[3] - c1[1] * q   by == g[4] - c1[2] * q        \* radius vector at b
        tx == g[3] - g[1]        ty == g[4] - g[2]             \* the segment
        tol == (Span(c0, c1) + 2 * c0[3] + 2 * c1[3] + 2) * q
    IN /\ SegBounded(c0, c1, g, q)
       /\ OnCircleQ(<<g[1], g[2]>>, c0, q)                     \* starts on this circle
       /\ OnCircleQ(<<g[3], g[4]>>, c1, q)                     \* ends on the other
       /\ AbsC(Dot2(ax, ay, tx, ty)) <= tol                    \* perpendicular to the radius at a
       /\ AbsC(Dot2(bx, by, tx, ty)) <= tol                    \* perpendicular to the radius at b
       /\ AbsC(ax * c1[3] - bx * c0[3]) <= c0[3] + c1[3] + 1   \* radii parallel, same sense: outer, not inner
       /\ AbsC(ay * c1[3] - by * c0[3]) <= c0[3] + c1[3] + 1
OuterOrderOK(c0, c1, g0, g1, q) ==
    /\ SideQ(c0, c1, <<g0[1], g0[2]>>, q) > 0                  \* first segment on the left of c0 -> c1
    /\ SideQ(c0, c1, <<g1[1], g1[2]>>, q) < 0

-----------------------------------------------------------------------------
(* A circle c and a lattice point p.                                        *)
PD2(c, p) == Sq(p[1] - c[1]) + Sq(p[2] - c[2])
External(c, p) == PD2(c, p) > Sq(c[3])
TanPointOK(c, p, t, q) ==
    /\ OnCircleQ(t, c, q)
    /\ AbsC(Dot2(t[1] - c[1] * q, t[2] - c[2] * q, p[1] * q - t[1], p[2] * q - t[2]))
          <= (AbsC(p[1] - c[1]) + AbsC(p[2] - c[2]) + 2 * c[3] + 1) * q
\* looking from p towards the centre: positive = left
TanSide(c, p, t, q) == Cross2(c[1] - p[1], c[2] - p[2], t[1] - p[1] * q, t[2] - p[2] * q)
TanOK(c, p, t0, t1, q) ==
    /\ TanPointOK(c, p, t0, q) /\ TanPointOK(c, p, t1, q)
    /\ TanSide(c, p, t0, q) > 0 /\ TanSide(c, p, t1, q) < 0

\* signed distance d - r (observed, quantised) and the projection to the perimeter
DistOK(c, p, dq, q) ==
    /\ dq + c[3] * q >= 0
    /\ dq + c[3] * q <= (AbsC(p[1] - c[1]) + AbsC(p[2] - c[2]) + 1) * q
    /\ AbsC(Sq(dq + c[3] * q) - PD2(c, p) * q * q) <= (AbsC(p[1] - c[1]) + AbsC(p[2] - c[2])) * q + 1
ProjOK(c, p, some, pp, q) ==
    IF PD2(c, p) = 0 THEN ~some
    ELSE /\ some
         /\ OnCircleQ(pp, c, q)
         /\ AbsC(Cross2(p[1] - c[1], p[2] - c[2], pp[1] - c[1] * q, pp[2] - c[2] * q))
               <= AbsC(p[1] - c[1]) + AbsC(p[2] - c[2]) + 1
         /\ Dot2(p[1] - c[1], p[2] - c[2], pp[1] - c[1] * q, pp[2] - c[2] * q) > 0

-----------------------------------------------------------------------------
(* A circle c and the closed segment from a to b (lattice points).  The     *)
(* points of the line a + t (b - a) on the circle are the roots of          *)
(*   A t^2 + 2 B t + C = 0.                                                 *)
QA(a, b) == Sq(b[1] - a[1]) + Sq(b[2] - a[2])
QB(c, a, b) == Dot2(b[1] - a[1], b[2] - a[2], a[1] - c[1], a[2] - c[2])
QC(c, a) == Sq(a[1] - c[1]) + Sq(a[2] - c[2]) - Sq(c[3])
Disc(c, a, b) == Sq(QB(c, a, b)) - QA(a, b) * QC(c, a)

Pos(s0, s1) == IF s0 = 0 \/ s1 = 0 THEN "edge" ELSE IF s0 > 0 /\ s1 < 0 THEN "in" ELSE "out"
\* roots as <<sigma, position>>: sigma = -1 / +1 for (-B -/+ sqrt(disc))/A, 0 for the double root
Roots(c, a, b) ==
    LET A == QA(a, b)  B == QB(c, a, b)  dc == Disc(c, a, b) IN
    IF dc < 0 THEN <<>>
    ELSE IF dc = 0 THEN << <<0, Pos(SgnC(-B), SgnC(-B - A))>> >>
    ELSE << <<-1, Pos(-SqrtCmp(dc, -B), -SqrtCmp(dc, -B - A))>>,
            <<1, Pos(SqrtCmp(dc, B), SqrtCmp(dc, A + B))>> >>
NumPos(rs, what) == Cardinality({j \in 1..Len(rs) : rs[j][2] = what})

SegSpan(a, b) == AbsC(b[1] - a[1]) + AbsC(b[2] - a[2])
\* p lies on the line through a and b
OnLineQ(p, a, b, q) == AbsC(Cross2(b[1] - a[1], b[2] - a[2], p[1] - a[1] * q, p[2] - a[2] * q)) <= SegSpan(a, b) + 1
\* t * A of the point, in quanta
ParamQ(p, a, b, q) == Dot2(b[1] - a[1], b[2] - a[2], p[1] - a[1] * q, p[2] - a[2] * q)
\* the observed point is the root sigma
MatchRoot(c, a, b, p, sigma, q) ==
    LET B == QB(c, a, b)  dc == Disc(c, a, b)  s == ISqrt(dc)
        w == ParamQ(p, a, b, q) + B * q
        tol == SegSpan(a, b) + 1
    IN IF sigma = 0 THEN AbsC(w) <= tol
       ELSE /\ sigma * w >= s * q - tol
            /\ sigma * w <= (IF Sq(s) = dc THEN s ELSE s + 1) * q + tol
PointOnSegCircle(c, a, b, p, q) ==
    /\ OnCircleQ(p, c, q) /\ OnLineQ(p, a, b, q)
    /\ LET rs == Roots(c, a, b) IN \E j \in 1..Len(rs) : rs[j][2] # "out" /\ MatchRoot(c, a, b, p, rs[j][1], q)
SegOK(c, a, b, pts, q) ==
    LET rs == Roots(c, a, b) IN
    /\ Len(pts) <= Len(rs) - NumPos(rs, "out")                         \* no more than there are
    /\ \A j \in 1..Len(pts) : PointOnSegCircle(c, a, b, pts[j], q)     \* on the circle and on the segment
    /\ \A j \in 1..Len(rs) : rs[j][2] = "in" =>                        \* every crossing is reported
          \E k \in 1..Len(pts) : MatchRoot(c, a, b, pts[k], rs[j][1], q)
    /\ Len(pts) = 2 => ~ \E j \in 1..Len(rs) :                          \* and not twice
          MatchRoot(c, a, b, pts[1], rs[j][1], q) /\ MatchRoot(c, a, b, pts[2], rs[j][1], q)

\* polyline with vertices vs (closed: the last equals the first): union over its edges; a crossing
\* exactly at an inner vertex may be reported once or twice, at the two free ends of an open curve or not
EdgesOf(vs) == 1..(Len(vs) - 1)
CurveMax(c, vs) == LET Cnt[i \in 0..(Len(vs) - 1)] ==
                          IF i = 0 THEN 0
                          ELSE Cnt[i - 1] + Len(Roots(c, vs[i], vs[i + 1])) - NumPos(Roots(c, vs[i], vs[i + 1]), "out")
                   IN Cnt[Len(vs) - 1]
InnerVertices(vs) == IF vs[1] = vs[Len(vs)] THEN 1..(Len(vs) - 1) ELSE 2..(Len(vs) - 1)
NearPt(p, v, q, tol) == AbsC(p[1] - v[1] * q) <= tol /\ AbsC(p[2] - v[2] * q) <= tol
CurveOK(c, vs, pts, q) ==
    /\ Len(pts) <= CurveMax(c, vs)
    /\ \A j \in 1..Len(pts) : \E i \in EdgesOf(vs) : PointOnSegCircle(c, vs[i], vs[i + 1], pts[j], q)
    /\ \A i \in EdgesOf(vs) : LET rs == Roots(c, vs[i], vs[i + 1]) IN
          \A j \in 1..Len(rs) : rs[j][2] = "in" =>
              \E k \in 1..Len(pts) : /\ OnLineQ(pts[k], vs[i], vs[i + 1], q)
                                     /\ MatchRoot(c, vs[i], vs[i + 1], pts[k], rs[j][1], q)
    /\ \A i \in InnerVertices(vs) : QC(c, vs[i]) = 0 => \E k \in 1..Len(pts) : NearPt(pts[k], vs[i], q, 1)

-----------------------------------------------------------------------------
(* Arcs on the Z_16 angle lattice: start s/16 turn, signed sweep x/16 turn. *)
U20 == 1048576
C16T == <<1048576, 968758, 741455, 401273, 0>>        \* cos(k TAU/16) * 2^20 for k = 0..4
Cos16(k) == LET j == k % 16 IN
            IF j <= 4 THEN C16T[j + 1]
            ELSE IF j <= 8 THEN -C16T[9 - j]
            ELSE IF j <= 12 THEN -C16T[j - 7]
            ELSE C16T[17 - j]
Sin16(k) == Cos16(k - 4)
\* the point of circle c at lattice angle k, in units of 2^-20
Pt16(c, k) == <<c[1] * U20 + c[3] * Cos16(k), c[2] * U20 + c[3] * Sin16(k)>>
NearPt16(p, c, k, q) == LET f == U20 \div q  e == Pt16(c, k) IN
                        /\ AbsC(p[1]) <= 1000000 /\ AbsC(p[2]) <= 1000000
                        /\ AbsC(p[1] * f - e[1]) <= f + c[3]
                        /\ AbsC(p[2] * f - e[2]) <= f + c[3]
Ext16(x) == MinC(AbsC(x), 16)
Covered16(s, x) == {s + j * SgnC(x) : j \in 0..Ext16(x)}          \* lattice angles on the arc
Box16(c, s, x) == LET P == {Pt16(c, k) : k \in Covered16(s, x)} IN
                  <<SetMin({p[1] : p \in P}), SetMin({p[2] : p \in P}),
                    SetMax({p[1] : p \in P}), SetMax({p[2] : p \in P})>>
\* the formulation of the design: extreme points are the two ends and the axis directions inside the sweep
AxesInside16(s, x) == {k \in Covered16(s, x) : k % 4 = 0}
Box16Alt(c, s, x, extra) == LET K == {s, s + Ext16(x) * SgnC(x)} \cup AxesInside16(s, x) \cup extra
                                P == {Pt16(c, k) : k \in K} IN
                  <<SetMin({p[1] : p \in P}), SetMin({p[2] : p \in P}),
                    SetMax({p[1] : p \in P}), SetMax({p[2] : p \in P})>>
\* L2: arc_aabb2 asks AngleInterval::contains for each axis; an axis exactly at an end of the sweep may or may
\* not be reported (tolerance): whatever subset of those is added, the box is the same
EndAxes16(s, x) == {k \in {s, s + Ext16(x) * SgnC(x)} : k % 4 = 0}
StrictAxes16(s, x) == AxesInside16(s, x) \ EndAxes16(s, x)
Box16L2(c, s, x, chosen) == LET K == {s, s + Ext16(x) * SgnC(x)} \cup StrictAxes16(s, x) \cup chosen
                                P == {Pt16(c, k) : k \in K} IN
                  <<SetMin({p[1] : p \in P}), SetMin({p[2] : p \in P}),
                    SetMax({p[1] : p \in P}), SetMax({p[2] : p \in P})>>
BoxNear16(bb, box, c, q) == LET f == U20 \div q IN
                            /\ \A j \in 1..4 : AbsC(bb[j]) <= 1000000
                            /\ \A j \in 1..4 : AbsC(bb[j] * f - box[j]) <= f + c[3]

-----------------------------------------------------------------------------
(* Arcs with Pythagorean directions.  u = <<ux, uy, hu>> is the start       *)
(* direction, the sweep is sg * (qt * 90 deg + phi), phi = <<pc, ps, hp>>    *)
(* with pc > 0, ps >= 0, at most a full turn.                               *)
Rot90(v) == <<-v[2], v[1]>>
RotQ(v, n) == IF n % 4 = 0 THEN v ELSE IF n % 4 = 1 THEN Rot90(v) ELSE IF n % 4 = 2 THEN <<-v[1], -v[2]>> ELSE <<v[2], -v[1]>>
RotPhi(v, ph) == <<v[1] * ph[1] - v[2] * ph[2], v[1] * ph[2] + v[2] * ph[1]>>      \* scaled by ph[3]
\* end direction, of norm u[3] * ph[3]
EndDir(u, qt, ph, sg) == IF sg > 0 THEN RotQ(RotPhi(u, ph), qt)
                         ELSE RotQ(RotPhi(u, <<ph[1], -ph[2]>>), 4 - (qt % 4))
Quad(v) == IF v[1] > 0 /\ v[2] >= 0 THEN 0 ELSE IF v[1] <= 0 /\ v[2] > 0 THEN 1
           ELSE IF v[1] < 0 /\ v[2] <= 0 THEN 2 ELSE 3
Axis(j) == RotQ(<<1, 0>>, j)
\* axis directions j (0 = +x, 1 = +y, 2 = -x, 3 = -y) met by the counter-clockwise sweep from u
AxesCCW(u, qt, ph) ==
    LET qu == Quad(u)
        b == RotQ(u, 4 - qu)                                  \* u turned back into the first quadrant
        KEff(j) == LET k == (j - qu) % 4 IN IF k = 0 /\ b[2] > 0 THEN 4 ELSE k
    IN {j \in 0..3 : \/ KEff(j) <= qt
                     \/ KEff(j) = qt + 1 /\ b[1] * ph[1] - b[2] * ph[2] <= 0}
AxesSwept(u, qt, ph, sg) == IF sg > 0 THEN AxesCCW(u, qt, ph)
                            ELSE {(4 - j) % 4 : j \in AxesCCW(<<u[1], -u[2]>>, qt, ph)}
\* the same set by cyclic order tests with cross products (an independent formulation, checked equal in MC_C11)
AxesCCWAlt(u, qt, ph) ==
    LET w == EndDir(u, qt, ph, 1)
        In(e) == IF qt = 4 THEN TRUE
                 ELSE IF qt = 0 /\ ph[2] = 0 THEN Cross2(u[1], u[2], e[1], e[2]) = 0 /\ Dot2(u[1], u[2], e[1], e[2]) > 0
                 ELSE IF qt <= 1 THEN Cross2(u[1], u[2], e[1], e[2]) >= 0 /\ Cross2(e[1], e[2], w[1], w[2]) >= 0
                 ELSE IF qt = 2 /\ ph[2] = 0 THEN Cross2(u[1], u[2], e[1], e[2]) >= 0
                 ELSE ~(Cross2(w[1], w[2], e[1], e[2]) > 0 /\ Cross2(e[1], e[2], u[1], u[2]) > 0)
    IN {j \in 0..3 : In(Axis(j))}
\* numerators over the common denominator hw = u[3] * ph[3] of the points that can be extreme
PCand(c, u, qt, ph, sg) ==
    LET hw == u[3] * ph[3]  w == EndDir(u, qt, ph, sg) IN
    {<<c[1] * hw + c[3] * u[1] * ph[3], c[2] * hw + c[3] * u[2] * ph[3]>>,
     <<c[1] * hw + c[3] * w[1], c[2] * hw + c[3] * w[2]>>}
    \cup {<<c[1] * hw + c[3] * hw * Axis(j)[1], c[2] * hw + c[3] * hw * Axis(j)[2]>> : j \in AxesSwept(u, qt, ph, sg)}
BoxP(c, u, qt, ph, sg) == LET P == PCand(c, u, qt, ph, sg) IN
                  <<SetMin({p[1] : p \in P}), SetMin({p[2] : p \in P}),
                    SetMax({p[1] : p \in P}), SetMax({p[2] : p \in P})>>
\* observed point p equals c + r * d / h
NearDirPt(p, c, d, h, q) == /\ AbsC(p[1]) <= 1000000 /\ AbsC(p[2]) <= 1000000
                            /\ AbsC(p[1] * h - (c[1] * h + c[3] * d[1]) * q) <= h + 1
                            /\ AbsC(p[2] * h - (c[2] * h + c[3] * d[2]) * q) <= h + 1
BoxNearP(bb, box, h, q) == /\ \A j \in 1..4 : AbsC(bb[j]) <= 1000000
                           /\ \A j \in 1..4 : AbsC(bb[j] * h - box[j] * q) <= h + 1

-----------------------------------------------------------------------------
(* Arc through three lattice points.                                        *)
Orient(p0, p1, p2) == Cross2(p1[1] - p0[1], p1[2] - p0[2], p2[1] - p0[1], p2[2] - p0[2])
\* circumcentre = p0 + <<CNumX, CNumY>> / CDen
CDen(p0, p1, p2) == 2 * Orient(p0, p1, p2)
CNumX(p0, p1, p2) == LET bx == p1[1] - p0[1] by == p1[2] - p0[2] cx == p2[1] - p0[1] cy == p2[2] - p0[2]
                     IN cy * (Sq(bx) + Sq(by)) - by * (Sq(cx) + Sq(cy))
CNumY(p0, p1, p2) == LET bx == p1[1] - p0[1] by == p1[2] - p0[2] cx == p2[1] - p0[1] cy == p2[2] - p0[2]
                     IN bx * (Sq(cx) + Sq(cy)) - cx * (Sq(bx) + Sq(by))
CentreOK(p0, p1, p2, cq, q) ==
    LET d == CDen(p0, p1, p2) IN
    /\ AbsC(cq[1]) <= 1000000 /\ AbsC(cq[2]) <= 1000000
    /\ AbsC(cq[1] * d - (p0[1] * d + CNumX(p0, p1, p2)) * q) <= AbsC(d) + 1
    /\ AbsC(cq[2] * d - (p0[2] * d + CNumY(p0, p1, p2)) * q) <= AbsC(d) + 1
\* axis directions met by the arc from p0 through p1 to p2.  u = p0 - centre and w = p2 - centre (both times |CDen|);
\* the sweep from u to w is below / equal to / above a half turn according to the sign of u x (p2 - p0)
AxesCCW3(u, w, ch) ==
    LET cr == SgnC(Cross2(u[1], u[2], ch[1], ch[2]))
        In(e) == IF cr > 0 THEN Cross2(u[1], u[2], e[1], e[2]) >= 0 /\ Cross2(e[1], e[2], w[1], w[2]) >= 0
                 ELSE IF cr = 0 THEN Cross2(u[1], u[2], e[1], e[2]) >= 0
                 ELSE ~(Cross2(w[1], w[2], e[1], e[2]) > 0 /\ Cross2(e[1], e[2], u[1], u[2]) > 0)
    IN {j \in 0..3 : In(Axis(j))}
Axes3(p0, p1, p2) ==
    LET d == CDen(p0, p1, p2)  sg == SgnC(d)
        u == <<-CNumX(p0, p1, p2) * sg, -CNumY(p0, p1, p2) * sg>>
        ch == <<p2[1] - p0[1], p2[2] - p0[2]>>
        w == <<ch[1] * AbsC(d) + u[1], ch[2] * AbsC(d) + u[2]>>
    IN IF sg > 0 THEN AxesCCW3(u, w, ch)
       ELSE {(4 - j) % 4 : j \in AxesCCW3(<<u[1], -u[2]>>, <<w[1], -w[2]>>, <<ch[1], -ch[2]>>)}
\* exact box from the two ends and the swept axis points (centre and radius as observed, checked separately)
Box3(p0, p1, p2, cq, rq, q) ==
    LET ax == Axes3(p0, p1, p2) IN
    <<IF 2 \in ax THEN cq[1] - rq ELSE MinC(p0[1], p2[1]) * q,
      IF 3 \in ax THEN cq[2] - rq ELSE MinC(p0[2], p2[2]) * q,
      IF 0 \in ax THEN cq[1] + rq ELSE MaxC(p0[1], p2[1]) * q,
      IF 1 \in ax THEN cq[2] + rq ELSE MaxC(p0[2], p2[2]) * q>>
\* the lattice point p is at the observed distance rq from the observed centre cq
EquiQ(p, cq, rq, q) == /\ rq >= 0 /\ rq <= 32000
                       /\ AbsC(p[1] * q - cq[1]) <= rq + 2 /\ AbsC(p[2] * q - cq[2]) <= rq + 2
                       /\ AbsC(Sq(p[1] * q - cq[1]) + Sq(p[2] * q - cq[2]) - Sq(rq)) <= 3 * rq + 3
\* length = radius * |sweep|; len and sweep in 2^-20 sixteenths of a turn, radius observed in quanta
LenOK(len, rq, a, q) ==
    LET g == 1024 \div q  ak == AbsC(a) \div 1024 IN
    /\ rq >= 0 /\ rq * g <= 32000 /\ AbsC(a) <= 16 * U20 + 4 /\ len >= 0 /\ len <= 1200000000
    /\ AbsC(len - rq * g * ak) <= rq * g + g * ak + g + 2
=============================================================================
