------------------------------- MODULE MC_C07 -------------------------------
(* Case generation for C07: reference shapes with enough features to fix all  *)
(* degrees of freedom, lattice sample points on them, exact displacements      *)
(* (small Pythagorean rotations, translations in eighths) inside and outside   *)
(* the stated basin, initial guesses, both distance modes.                     *)
EXTENDS Rigid, TLC, Json, SequencesExt
CONSTANTS NRot, NShift
VARIABLE case
P(x, y) == <<x, y, 0>>
\* 2D reference: L-shaped closed polygon and a notched rectangle; samples in edge interiors (half lattice -> doubled coords)
Ell == <<P(0,0), P(6,0), P(6,2), P(2,2), P(2,5), P(0,5)>>
EllS == <<P(2,0), P(6,0), P(10,0), P(12,2), P(10,4), P(6,4), P(4,6), P(4,8), P(2,10), P(0,8), P(0,4), P(0,1), P(9,0), P(12,3)>>
Notch == <<P(0,0), P(8,0), P(8,4), P(5,4), P(5,3), P(3,3), P(3,4), P(0,4)>>
NotchS == <<P(3,0), P(8,0), P(13,0), P(16,3), P(16,6), P(13,8), P(10,7), P(8,6), P(6,7), P(3,8), P(0,5), P(0,2)>>
\* small exact rotations: (c, s, h)
Rots == << <<1,0,1>>, <<63,16,65>>, <<63,-16,65>>, <<35,12,37>>, <<399,-40,401>>, <<3,4,5>> >>
Shifts == << <<0,0,0>>, <<2,-1,0>>, <<-3,2,0>>, <<1,3,0>> >>         \* eighths
Shifts3 == << <<0,0,0>>, <<2,-1,1>>, <<-2,2,-1>>, <<1,1,2>> >>       \* eighths
Disp2(a, t) == [M |-> RzH(Rots[a][1], Rots[a][2], Rots[a][3]), H |-> Rots[a][3], t |-> Shifts[t], tden |-> 8]
\* 3D reference: lattice box 4 x 3 x 2 and samples on its faces (doubled coordinates)
BoxV == << <<0,0,0>>, <<4,0,0>>, <<0,0,2>>, <<4,0,2>>, <<0,3,0>>, <<4,3,0>>, <<0,3,2>>, <<4,3,2>> >>
BoxF == << <<4,7,5>>, <<4,6,7>>, <<0,2,4>>, <<2,6,4>>, <<0,1,2>>, <<1,3,2>>, <<1,5,7>>, <<1,7,3>>, <<2,3,7>>, <<2,7,6>>, <<0,4,1>>, <<1,4,5>> >>
BoxS == << <<2,2,0>>, <<6,4,0>>, <<4,1,0>>, <<2,2,4>>, <<6,4,4>>, <<5,5,4>>, <<0,2,2>>, <<0,4,1>>, <<0,5,3>>, <<8,2,2>>, <<8,4,3>>, <<8,1,1>>,
           <<2,0,2>>, <<6,0,1>>, <<3,0,3>>, <<2,6,2>>, <<6,6,3>>, <<5,6,1>> >>
Rots3 == << <<1,0,1>>, <<399,40,401>>, <<899,-60,901>>, <<63,16,65>> >>
Disp3(a, ax, t) == LET r == Rots3[a] IN
    [M |-> IF ax = 1 THEN RzH(r[1], r[2], r[3]) ELSE IF ax = 2 THEN Rx(r[1], r[2], r[3]) ELSE Ry(r[1], r[2], r[3]),
     H |-> r[3], t |-> Shifts3[t], tden |-> 8]
Cases ==
    {[m |-> "align", op |-> "curve", ref |-> rf[1], samples |-> rf[2], off |-> off, D |-> Disp2(a, t), guess |-> g, basin |-> a < 6]
        : rf \in {<<Ell, EllS>>, <<Notch, NotchS>>}, a \in 1..NRot, t \in 1..NShift, g \in {0, 1, 2}, off \in {<<0,0,0>>, <<150,-90,0>>}} \cup
    {[m |-> "align", op |-> "mesh", vpos |-> BoxV, faces |-> BoxF, samples |-> BoxS, off |-> off, D |-> Disp3(a, ax, t), mode |-> md, guess |-> 0, basin |-> a < 4]
        : a \in 1..(IF NRot > 4 THEN 4 ELSE NRot), ax \in 1..3, t \in 1..NShift, md \in {"plane"}, off \in {<<0,0,0>>, <<150,-90,60>>}} \cup
    \* point mode: |p - c| is not differentiable where it is exactly 0 (rows vanish and the problem is rank deficient), so
    \* displacements that leave whole faces at distance 0 (no shift) are outside the basin clause for this mode
    {[m |-> "align", op |-> "mesh", vpos |-> BoxV, faces |-> BoxF, samples |-> BoxS, off |-> off, D |-> Disp3(a, ax, t), mode |-> "point", guess |-> 0, basin |-> a < 4]
        : a \in 1..(IF NRot > 4 THEN 4 ELSE NRot), ax \in 1..3, t \in 2..NShift, off \in {<<0,0,0>>, <<150,-90,60>>}}
Init == case \in Cases
Next == UNCHANGED case
Spec == Init /\ [][Next]_case
Emit == PrintT(<<"CASE", ToJson(case)>>)
Proper == IsRotation(case.D.M, case.D.H)
=============================================================================
