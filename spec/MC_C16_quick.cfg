CONSTANTS
  BpVals <- BpQuick
  MaxBp = 3
  Margin = 1
  Scales <- ScalesQuick
  MeshSet = "quick"
  Full = FALSE
SPECIFICATION Spec
INVARIANT Emit Laws
CHECK_DEADLOCK FALSE
