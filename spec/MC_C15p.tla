------------------------------- MODULE MC_C15p -------------------------------
(* C15, Poisson-disk selection: L2 transcription of the greedy mask sweep of   *)
(* common/poisson_disk.rs as a state machine, model-checked against the L1     *)
(* statement PoissonOK for EVERY multiset of up to NPts lattice points, every  *)
(* subset of their indices, every visiting order and three radii.  One action  *)
(* per loop iteration; the radius query is only known to return the open ball  *)
(* and to stay inside the closed ball, so the set of positions exactly at the  *)
(* radius that get masked is chosen by \E.  Emits every (points, order, radii) *)
(* once as a case for the real library.                                        *)
EXTENDS Spatial, TLC, Json, SequencesExt
CONSTANTS GP, NPts, Dim3

VARIABLES pts, order, h, m, masked, res, pc
vars == <<pts, order, h, m, masked, res, pc>>

NonDec(s) == \A t \in 1..(Len(s) - 1) : s[t] <= s[t + 1]
Codes == IF Dim3 THEN 0..(GP * GP * GP - 1) ELSE 0..(GP * GP - 1)
Pt(c) == IF Dim3 THEN <<c % GP, (c \div GP) % GP, c \div (GP * GP)>> ELSE <<c % GP, c \div GP, 0>>
PointSeqs == UNION {{[t \in 1..n |-> Pt(s[t])] : s \in {x \in [1..n -> Codes] : NonDec(x)}} : n \in 1..NPts}
\* every non-empty sequence of distinct indices 0..n-1 (= every subset in every order)
Orders(n) == UNION {{s \in [1..k -> 0..(n - 1)] : \A a, b \in 1..k : a < b => s[a] # s[b]} : k \in 1..n}
Radii == <<2, 3, 4>>

Init == /\ pts \in PointSeqs /\ order \in Orders(Len(pts)) /\ h \in {Radii[t] : t \in 1..Len(Radii)}
        /\ m = 1 /\ masked = {} /\ res = <<>> /\ pc = "sweep"

\* for (m, &i) in working_indices.iter().enumerate()
Skip == /\ pc = "sweep" /\ m <= Len(order) /\ m \in masked
        /\ m' = m + 1 /\ UNCHANGED <<pts, order, h, masked, res, pc>>
Keep == /\ pc = "sweep" /\ m <= Len(order) /\ m \notin masked
        /\ res' = Append(res, order[m])
        /\ \E B \in SUBSET SweepEdge(pts, order, h, m) : masked' = masked \cup SweepHits(pts, order, h, m) \cup B
        /\ m' = m + 1 /\ UNCHANGED <<pts, order, h, pc>>
Done == /\ pc = "sweep" /\ m > Len(order) /\ pc' = "done" /\ UNCHANGED <<pts, order, h, m, masked, res>>
Next == Skip \/ Keep \/ Done
Spec == Init /\ [][Next]_vars /\ WF_vars(Next)

\* L2 refines L1: whatever the radius query does on its boundary, the sweep ends in an allowed selection
SweepCorrect == pc = "done" => PoissonOK(pts, order, h, res)
\* ... and in every intermediate state the kept points are pairwise separated and explain every masked position
SweepInv ==
    /\ Len(res) <= Len(order) /\ m <= Len(order) + 1
    /\ \A t \in masked : \E k \in 1..Len(res) : SD2(SDbl(pts[order[t] + 1]), SDbl(pts[res[k] + 1])) <= h * h
    /\ \A t \in 1..(m - 1) : t \in masked
Terminates == <>(pc = "done")

\* the L1 statement itself is not vacuous: repeating a kept index, keeping a point strictly inside the disk of a
\* kept one, and (when no two points are exactly one radius apart) dropping a kept point are all rejected
NoEdge == \A a, b \in 1..Len(pts) : SD2(SDbl(pts[a]), SDbl(pts[b])) # h * h
L1Sharp == pc = "done" =>
    /\ Len(res) >= 1
    /\ ~PoissonOK(pts, order, h, Append(res, res[1]))
    /\ NoEdge => ~PoissonOK(pts, order, h, Tail(res))
    /\ \A t \in 1..Len(order) :
          ((\A k \in 1..Len(res) : res[k] # order[t]) /\
           (\E k \in 1..Len(res) : SD2(SDbl(pts[order[t] + 1]), SDbl(pts[res[k] + 1])) < h * h))
              => ~PoissonOK(pts, order, h, Append(res, order[t]))

Case == [m |-> "spatial", op |-> "poisson", dim |-> IF Dim3 THEN 3 ELSE 2, pts |-> pts, order |-> order, rs |-> Radii,
         sc |-> <<0, 4, -3>>[((Len(pts) + Len(order) + order[1]) % 3) + 1]]
Emit == (pc = "sweep" /\ m = 1 /\ h = Radii[1]) => PrintT(<<"CASE", ToJson(Case)>>)
=============================================================================
