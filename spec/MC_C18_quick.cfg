CONSTANTS
  KMax = 40
  KPair = 9
  SNeg = 4
  SHi = 19
  XS <- XSQuick
  S2 <- S2Quick
SPECIFICATION Spec
INVARIANT Emit Laws
CHECK_DEADLOCK FALSE
