CONSTANTS
  Margin = 3
  Step = 1
SPECIFICATION Spec
INVARIANT Emit Laws
CHECK_DEADLOCK FALSE
