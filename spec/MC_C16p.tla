------------------------------- MODULE MC_C16p -------------------------------
(* History machine for PointCloud (C16) with an L2 transcription of           *)
(* point_cloud.rs: every library call is a sequence of micro-steps            *)
(* (presence / length checks first, then one mutation per parallel array).    *)
(* The abstract cloud `ab` advances atomically by the L1 operator CloudStep.  *)
(* Invariants: when a call returns, verdict and concrete cloud are exactly    *)
(* the L1 result (so a rejected call changed nothing and an accepted one      *)
(* appended to all arrays in order); no mutation happens before all checks    *)
(* have passed; the unwrap in create_from_indices cannot fail; between calls  *)
(* the three arrays have the same length (or are absent).                     *)
(* Complete behaviours are emitted and replayed into the real library.        *)
(* `Broken` selects a deliberately wrong transcription (negative              *)
(* configurations that TLC must reject).                                      *)
EXTENDS Metrology, TLC, Json
CONSTANTS MaxPts,        \* points in a constructor / merged cloud: 0..MaxPts
          Depth,         \* calls after the constructor
          Broken

VARIABLES cc, ab, pc, cur, exp, pre, res, tmp, hist, phase
vars == <<cc, ab, pc, cur, exp, pre, res, tmp, hist, phase>>

\* ---- deterministic payloads: values depend only on the position in the history
Axis(j) == CASE j % 6 = 0 -> <<1,0,0>> [] j % 6 = 1 -> <<0,1,0>> [] j % 6 = 2 -> <<0,0,1>>
             [] j % 6 = 3 -> <<-1,0,0>> [] j % 6 = 4 -> <<0,-1,0>> [] OTHER -> <<0,0,-1>>
PtAt(d, k) == <<d, k, d - k>>
ColAt(d, k) == <<d, k, 200 + d>>
PtsN(d, n) == [k \in 1..n |-> PtAt(d, k)]
NrmN(d, n) == [k \in 1..n |-> Axis(d + k)]
ColN(d, n) == [k \in 1..n |-> ColAt(d, k)]
R(op) == [m |-> "metro", op |-> op]
D == Len(hist) + 1

Ctors == {R("pempty") @@ [hn |-> a, hc |-> b] : a \in BOOLEAN, b \in BOOLEAN} \cup
         {R("pnew") @@ [p |-> PtsN(1, np), hn |-> nl >= 0, n |-> NrmN(1, IF nl >= 0 THEN np + nl ELSE 0),
                        hc |-> cl >= 0, c |-> ColN(1, IF cl >= 0 THEN np + cl ELSE 0)] :
              np \in 0..MaxPts, nl \in -1..1, cl \in -1..1}      \* -1: absent, 0: right length, 1: one too many
SelLists(n) == {<<>>} \cup (IF n = 0 THEN {} ELSE {<<0>>, <<n - 1, 0>>, <<0, 0>>, [j \in 1..n |-> n - j]})
Calls(c) ==
    {R("pappend") @@ [p |-> PtAt(D, 1), hn |-> a, n |-> Axis(D), hc |-> b, c |-> ColAt(D, 1)] : a \in BOOLEAN, b \in BOOLEAN} \cup
    {R("pmerge") @@ [p |-> PtsN(D, np), hn |-> a, n |-> NrmN(D, IF a THEN np ELSE 0), hc |-> b, c |-> ColN(D, IF b THEN np ELSE 0)] :
        np \in {0, MaxPts}, a \in BOOLEAN, b \in BOOLEAN} \cup
    {R("pselect") @@ [idx |-> s] : s \in SelLists(Len(c.p))} \cup
    {R("ptransform") @@ [k |-> 1, t |-> <<1, -2, 3>>]}

First(op) == CASE op = "pnew" -> "new.chkN" [] op = "pempty" -> "empty" [] op = "pappend" -> "app.chkN"
               [] op = "pmerge" -> (IF Broken = "merge_points_first" THEN "mrg.extP" ELSE "mrg.chkN")
               [] op = "pselect" -> "sel.pts" [] OTHER -> "tr.pts"

Init == /\ cc = NoCloud /\ ab = NoCloud /\ pc = "idle" /\ cur = R("none") /\ exp = <<TRUE, NoCloud>> /\ pre = NoCloud
        /\ res = TRUE /\ tmp = NoCloud /\ hist = <<>> /\ phase = "run"

Begin == /\ pc = "idle" /\ phase = "run" /\ Len(hist) <= Depth
         /\ (Len(hist) > 0 => ab.live)
         /\ \E r \in (IF Len(hist) = 0 THEN Ctors ELSE Calls(ab)) :
               /\ cur' = r /\ hist' = Append(hist, r) /\ exp' = CloudStep(ab, r) /\ pre' = cc
               /\ pc' = First(r.op)
         /\ UNCHANGED <<cc, ab, res, tmp, phase>>

Ret(ok) == pc' = "ret" /\ res' = ok
Same == UNCHANGED <<ab, cur, exp, pre, hist, phase>>
\* ---- PointCloud::try_new (also the tail of create_from_indices, which unwraps the result)
Src == IF cur.op = "pselect" THEN tmp ELSE cur
NewFail == IF cur.op = "pselect" THEN pc' = "panic" /\ res' = FALSE ELSE Ret(FALSE)
NewChkN == /\ pc = "new.chkN"
           /\ IF Src.hn /\ Len(Src.n) # Len(Src.p) THEN NewFail ELSE pc' = "new.chkC" /\ UNCHANGED res
           /\ UNCHANGED <<cc, tmp>> /\ Same
NewChkC == /\ pc = "new.chkC"
           /\ IF Src.hc /\ Len(Src.c) # Len(Src.p) THEN NewFail ELSE pc' = "new.build" /\ UNCHANGED res
           /\ UNCHANGED <<cc, tmp>> /\ Same
NewBuild == /\ pc = "new.build"
            /\ cc' = MkCloud(Src.p, Src.hn, IF Src.hn THEN Src.n ELSE <<>>, Src.hc, IF Src.hc THEN Src.c ELSE <<>>)
            /\ Ret(TRUE) /\ UNCHANGED tmp /\ Same
Empty == /\ pc = "empty" /\ cc' = MkCloud(<<>>, cur.hn, <<>>, cur.hc, <<>>) /\ Ret(TRUE) /\ UNCHANGED tmp /\ Same
\* ---- PointCloud::append
AppChkN == /\ pc = "app.chkN" /\ (IF cc.hn # cur.hn THEN Ret(FALSE) ELSE pc' = "app.chkC" /\ UNCHANGED res)
           /\ UNCHANGED <<cc, tmp>> /\ Same
AppChkC == /\ pc = "app.chkC" /\ (IF cc.hc # cur.hc THEN Ret(FALSE) ELSE pc' = "app.pushP" /\ UNCHANGED res)
           /\ UNCHANGED <<cc, tmp>> /\ Same
AppPushP == /\ pc = "app.pushP" /\ cc' = [cc EXCEPT !.p = Append(@, cur.p)] /\ pc' = "app.pushN" /\ UNCHANGED <<res, tmp>> /\ Same
AppPushN == /\ pc = "app.pushN" /\ cc' = (IF cur.hn THEN [cc EXCEPT !.n = Append(@, cur.n)] ELSE cc) /\ pc' = "app.pushC"
            /\ UNCHANGED <<res, tmp>> /\ Same
AppPushC == /\ pc = "app.pushC" /\ cc' = (IF cur.hc THEN [cc EXCEPT !.c = Append(@, cur.c)] ELSE cc) /\ Ret(TRUE)
            /\ UNCHANGED tmp /\ Same
\* ---- PointCloud::merge
MrgChkN == /\ pc = "mrg.chkN" /\ (IF cc.hn # cur.hn THEN Ret(FALSE) ELSE pc' = "mrg.chkC" /\ UNCHANGED res)
           /\ UNCHANGED <<cc, tmp>> /\ Same
MrgChkC == /\ pc = "mrg.chkC"
           /\ (IF cc.hc # cur.hc THEN Ret(FALSE)
               ELSE pc' = (IF Broken = "merge_points_first" THEN "mrg.extN" ELSE "mrg.extP") /\ UNCHANGED res)
           /\ UNCHANGED <<cc, tmp>> /\ Same
MrgExtP == /\ pc = "mrg.extP" /\ cc' = [cc EXCEPT !.p = @ \o cur.p]
           /\ pc' = (IF Broken = "merge_points_first" THEN "mrg.chkN" ELSE "mrg.extN") /\ UNCHANGED <<res, tmp>> /\ Same
MrgExtN == /\ pc = "mrg.extN" /\ cc' = (IF cur.hn THEN [cc EXCEPT !.n = @ \o cur.n] ELSE cc) /\ pc' = "mrg.extC"
           /\ UNCHANGED <<res, tmp>> /\ Same
MrgExtC == /\ pc = "mrg.extC" /\ cc' = (IF cur.hc THEN [cc EXCEPT !.c = @ \o cur.c] ELSE cc) /\ Ret(TRUE)
           /\ UNCHANGED tmp /\ Same
\* ---- PointCloudFeatures::create_from_indices: three collects, then try_new(..).unwrap()
SelPts == /\ pc = "sel.pts" /\ tmp' = [NoCloud EXCEPT !.p = Pick(cc.p, cur.idx)] /\ pc' = "sel.nrm" /\ UNCHANGED <<cc, res>> /\ Same
SelNrm == /\ pc = "sel.nrm" /\ tmp' = [tmp EXCEPT !.hn = cc.hn, !.n = IF cc.hn THEN Pick(cc.n, cur.idx) ELSE <<>>]
          /\ pc' = "sel.col" /\ UNCHANGED <<cc, res>> /\ Same
SelCol == /\ pc = "sel.col"
          /\ tmp' = (IF Broken = "select_skips_colours" THEN [tmp EXCEPT !.hc = cc.hc, !.c = IF cc.hc THEN cc.c ELSE <<>>]
                     ELSE [tmp EXCEPT !.hc = cc.hc, !.c = IF cc.hc THEN Pick(cc.c, cur.idx) ELSE <<>>])
          /\ pc' = "new.chkN" /\ UNCHANGED <<cc, res>> /\ Same
\* ---- PointCloud::transform: one loop over the points, one over the normals
TrPts == /\ pc = "tr.pts" /\ cc' = [cc EXCEPT !.p = [j \in 1..Len(@) |-> VAdd(Rot(cur.k, @[j]), cur.t)]] /\ pc' = "tr.nrm"
         /\ UNCHANGED <<res, tmp>> /\ Same
TrNrm == /\ pc = "tr.nrm" /\ cc' = (IF cc.hn THEN [cc EXCEPT !.n = [j \in 1..Len(@) |-> Rot(cur.k, @[j])]] ELSE cc) /\ Ret(TRUE)
         /\ UNCHANGED tmp /\ Same

Return == /\ pc = "ret" /\ pc' = "idle" /\ ab' = exp[2]
          /\ phase' = (IF Len(hist) > Depth \/ ~exp[2].live THEN "done" ELSE "run")
          /\ UNCHANGED <<cc, cur, exp, pre, res, tmp, hist>>

Next == Begin \/ NewChkN \/ NewChkC \/ NewBuild \/ Empty \/ AppChkN \/ AppChkC \/ AppPushP \/ AppPushN \/ AppPushC
        \/ MrgChkN \/ MrgChkC \/ MrgExtP \/ MrgExtN \/ MrgExtC \/ SelPts \/ SelNrm \/ SelCol \/ TrPts \/ TrNrm \/ Return
Spec == Init /\ [][Next]_vars

Emit == (phase = "done" /\ pc = "idle") => PrintT(<<"CASE", ToJson(hist)>>)

\* ---- L2 refines L1
Atomic == pc = "ret" => /\ res = exp[1]
                        /\ cc = exp[2]
                        /\ (~res => cc = pre)
ChecksBeforeMutation == pc \in {"new.chkN", "new.chkC", "app.chkN", "app.chkC", "mrg.chkN", "mrg.chkC", "sel.pts", "sel.nrm", "sel.col"}
                           => cc = pre
ParallelArrays == pc = "idle" => cc = ab /\ CloudWellFormed(cc)
NoPanic == pc # "panic"
InDomain == pc = "idle" \/ CloudInDomain(pre, cur)
=============================================================================
