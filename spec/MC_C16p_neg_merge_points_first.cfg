CONSTANTS
  MaxPts = 2
  Depth = 2
  Broken = "merge_points_first"
SPECIFICATION Spec
INVARIANT Atomic ChecksBeforeMutation ParallelArrays NoPanic InDomain
CHECK_DEADLOCK FALSE
