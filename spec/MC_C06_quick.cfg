CONSTANTS
  Margin = 2
  Step = 3
SPECIFICATION Spec
INVARIANT Emit Laws
CHECK_DEADLOCK FALSE
