CONSTANTS
  Margin = 4
  Step = 1
  MaxCurveV = 6
SPECIFICATION Spec
INVARIANT Emit Laws
CHECK_DEADLOCK FALSE
