CONSTANTS
  SkipOffset = 0
  XHi = 3
  NMax = 4
SPECIFICATION Spec
INVARIANT Refines InBounds PartialSums
CHECK_DEADLOCK FALSE
