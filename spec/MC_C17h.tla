------------------------------- MODULE MC_C17h ------------------------------
(* History machine for C17: a root series, then up to MaxDepth derived       *)
(* operations, each applied to the result of the previous one (scale incl.   *)
(* negative and zero factors, shift, abs, NaN removal, between, in_interval, *)
(* split keeping either piece, resampling by count and by spacing).  The     *)
(* abstract state is the SET of series the previous steps may have produced  *)
(* (searches may land on any of several equal abscissae); it advances by the *)
(* L1 operators of module Series.  Only steps that stay inside the exact     *)
(* discrete domain (results representable in 1/240 x 1/5040 units, inside    *)
(* the window) are taken.  The invariant of the property - sorted, finite,   *)
(* one ordinate per abscissa - must hold in every reachable state, slices    *)
(* must evaluate like their parent and resampled series must lie on the      *)
(* parent's graph.  TLC enumerates all histories (Sim = FALSE) or samples    *)
(* them in simulation mode (Sim = TRUE, one random successor per step);      *)
(* each finished history is emitted for replay into the real library.        *)
EXTENDS Series, TLC, Json, SequencesExt
CONSTANTS MaxDepth, RootSet, Sim, Levels

VARIABLES root, curs, prev, hist, phase
vars == <<root, curs, prev, hist, phase>>

Curated == {
    [xs |-> <<-4, 0, 2, 8>>, ys |-> <<-1, 2, 2, 0>>],
    [xs |-> <<0, 4, 4, 12>>, ys |-> <<0, 2, -2, 1>>],
    [xs |-> <<-8, -2, 6>>, ys |-> <<2, -1, 1>>],
    [xs |-> <<0, 6>>, ys |-> <<-2, 2>>],
    [xs |-> <<2, 2, 2>>, ys |-> <<0, 1, 2>>],
    [xs |-> <<0, 2, 4, 6>>, ys |-> <<1, 99, 0, 2>>],
    [xs |-> <<-4, -2, 0, 2, 4, 8>>, ys |-> <<0, 1, -1, 2, -2, 0>>],
    [xs |-> <<-2, -2, 4, 10, 10>>, ys |-> <<1, -1, 0, 0, 2>>],
    [xs |-> <<6>>, ys |-> <<1>>] }
Small == {
    [xs |-> <<-4, 0, 2, 8>>, ys |-> <<-1, 2, 2, 0>>],
    [xs |-> <<0, 4, 4, 12>>, ys |-> <<0, 2, -2, 1>>],
    [xs |-> <<0, 6>>, ys |-> <<-2, 2>>] }
Tiny == {[xs |-> <<0, 4, 4, 12>>, ys |-> <<0, 2, -2, 1>>]}
Roots == IF RootSet = "tiny" THEN Tiny ELSE IF RootSet = "small" THEN Small ELSE Curated
AsSeries(R) == Mk([k \in 1..Len(R.xs) |-> R.xs[k] * X4], [k \in 1..Len(R.ys) |-> IF R.ys[k] = 99 THEN NAN ELSE R.ys[k] * DY])

Pick(S) == IF Sim THEN {RandomElement(S)} ELSE S
\* range of the possible current series on the quarter lattice (rounded outwards)
CeilDiv(a, b) == -((-a) \div b)
Lo4 == CHOOSE m \in {XMin(c) \div X4 : c \in curs} : \A c \in curs : m <= XMin(c) \div X4
Hi4 == CHOOSE m \in {CeilDiv(XMax(c), X4) : c \in curs} : \A c \in curs : m >= CeilDiv(XMax(c), X4)
\* probes recorded with every step: the quarter lattice over the range, one ulp around its ends
Probes(lo, hi) == SetToSortSeq({<<p, 0>> : p \in (lo - 1)..(hi + 1)} \cup {<<p, e>> : p \in {lo, hi}, e \in {-1, 1}},
                               LAMBDA a, b : a[1] < b[1] \/ (a[1] = b[1] /\ a[2] < b[2]))
LevelSeq == SetToSortSeq(Levels, LAMBDA a, b : a < b)

WellPosed(L) == ~L.free /\ ~L.unrep /\ ~L.fail /\ L.cands # {}
Good(cs) == (cs # {} /\ Cardinality(cs) <= 8 /\ \A c \in cs : InDom(c) /\ N(c) >= 1) = TRUE
NewRange(cs) == <<CHOOSE m \in {XMin(c) \div X4 : c \in cs} : \A c \in cs : m <= XMin(c) \div X4,
                  CHOOSE m \in {CeilDiv(XMax(c), X4) : c \in cs} : \A c \in cs : m >= CeilDiv(XMax(c), X4)>>
PlateauSeq(lo, hi) == [k \in 1..(hi - lo + 1) |-> <<lo + k - 1, IF k % 2 = 0 THEN 1 ELSE 5>>]
Rec(f, rg) == f @@ [m |-> "series", on |-> "cur", ts |-> Probes(rg[1], rg[2]), lv |-> LevelSeq, pl |-> PlateauSeq(rg[1], rg[2])]
\* (values are bound through singleton quantifiers so that TLC evaluates them once)
Advance(f, cs) == \E rg \in {NewRange(cs)} :
                  /\ hist' = Append(hist, Rec(f, rg))
                  /\ prev' = curs /\ curs' = cs /\ UNCHANGED <<root, phase>>

Init == /\ root \in Roots /\ curs = {AsSeries(root)} /\ prev = {} /\ phase = "run"
        /\ hist = <<[m |-> "series", op |-> "root", xs |-> root.xs, ys |-> root.ys, sc |-> 0,
                     ts |-> Probes(root.xs[1], root.xs[Len(root.xs)]), lv |-> LevelSeq,
                     pl |-> PlateauSeq(root.xs[1], root.xs[Len(root.xs)])]>>

\* the operations that can be tried on the current state, by kind
Kinds == {"scale", "shift", "abs", "remove_nan", "between", "interval", "split", "resample_n", "resample_x"}
OpsOfKind(k) ==
    CASE k = "scale" -> {[op |-> "scale", sx2 |-> sx, sy |-> sy] : sx \in {-4, -2, -1, 0, 1, 4}, sy \in {-1, 2}}
      [] k = "shift" -> {[op |-> "shift", dx4 |-> dx, dy |-> dy] : dx \in {-6, 2}, dy \in {-1, 1}}
      [] k = "abs" -> {[op |-> "abs"]}
      [] k = "remove_nan" -> {[op |-> "remove_nan"]}
      [] k = "between" -> {[op |-> "between", a4 |-> a, b4 |-> b] : a \in Lo4..Hi4, b \in Lo4..Hi4}
      [] k = "interval" -> {[op |-> "interval", a4 |-> a, b4 |-> b] : a \in Lo4..Hi4, b \in Lo4..Hi4}
      [] k = "split" -> {[op |-> "split", x4 |-> x, keep |-> kp] : x \in Lo4..Hi4, kp \in {1, 2}}
      [] k = "resample_n" -> {[op |-> "resample_n", n |-> n] : n \in {2, 3, 4, 5, 7}}
      [] k = "resample_x" -> {[op |-> "resample_x", s4 |-> sp] : sp \in {1, 2, 3, 6, 10}}
L1Of(c, f) ==
    CASE f.op = "scale" -> ScaleL1(c, f.sx2, f.sy)
      [] f.op = "shift" -> ShiftL1(c, f.dx4 * X4, f.dy * DY)
      [] f.op = "abs" -> AbsL1(c)
      [] f.op = "remove_nan" -> RemoveNanL1(c)
      [] f.op = "between" -> BetweenL1(c, f.a4 * X4, f.b4 * X4)
      [] f.op = "interval" -> BetweenL1(c, MinS(f.a4, f.b4) * X4, MaxS(f.a4, f.b4) * X4)
      [] f.op = "resample_n" -> ResampleNL1(c, f.n)
      [] f.op = "resample_x" -> ResampleXL1(c, f.s4 * X4)
PieceSet(c, f) == LET L == SplitL1(c, f.x4 * X4) IN IF f.keep = 1 THEN L.a ELSE L.b
\* the possible results of f on the possible current series; {} when f is not well-posed on all of them
\* (a failure or anything-goes result is allowed there: such steps belong to the fans of MC_C17)
Result(f) ==
    IF f.op = "split"
    THEN IF \A c \in curs : LET L == SplitL1(c, f.x4 * X4) IN ~L.free /\ ~L.unrep /\ NoPiece \notin PieceSet(c, f)
         THEN UNION {PieceSet(c, f) : c \in curs} ELSE {}
    ELSE IF f.op = "between" /\ f.a4 > f.b4 THEN {}
    \* resampling a series collapsed onto one abscissa may pick any stored ordinate for every point:
    \* exponentially many candidates, covered by the fans instead
    ELSE IF f.op \in {"resample_n", "resample_x"} /\ \E c \in curs : N(c) > 1 /\ XMin(c) = XMax(c) THEN {}
    ELSE IF \A c \in curs : WellPosed(L1Of(c, f)) THEN UNION {L1Of(c, f).cands : c \in curs} ELSE {}

Try(f) == \E cs \in {Result(f)} :
          IF Good(cs) THEN Advance(f, cs)
          ELSE /\ Sim /\ Len(hist) >= 2          \* simulation: close the history when the drawn step does not apply
               /\ phase' = "done" /\ UNCHANGED <<root, curs, prev, hist>>
Step == /\ phase = "run" /\ Len(hist) <= MaxDepth
        /\ IF Sim THEN LET k == RandomElement(Kinds) IN Try(RandomElement(OpsOfKind(k)))
           ELSE \E k \in Kinds : \E f \in OpsOfKind(k) : Try(f)
Stop == /\ phase = "run" /\ Len(hist) > MaxDepth
        /\ phase' = "done" /\ UNCHANGED <<root, curs, prev, hist>>
Next == Step \/ Stop
Spec == Init /\ [][Next]_vars

Emit == phase = "done" => PrintT(<<"CASE", ToJson(hist)>>)

\* ------------------------------------------------------------------ invariants
\* the property's invariant in every reachable state
SortedFiniteSameLength == \A c \in curs : Sorted(c) /\ Finite(c) /\ SameLen(c)
LastOp == hist[Len(hist)].op
\* every value a derived series takes on the lattice is a value its parent takes there
LikeParent(p, c) ==
    \A q \in (XMin(c) \div X4)..CeilDiv(XMax(c), X4) :
        LET X == q * X4 IN
        (XMin(c) <= X /\ X <= XMax(c) /\ XMin(p) <= X /\ X <= XMax(p) /\ FRep(c, X) /\ FRep(p, X)) =>
            FVals(c, X) \subseteq FVals(p, X)
FunctionPreserved ==
    (Len(hist) >= 2 /\ LastOp \in {"between", "interval", "split"}) =>
        \A c \in curs : \E p \in prev : LikeParent(p, c)
ResampledOnGraph ==
    (Len(hist) >= 2 /\ LastOp \in {"resample_n", "resample_x"}) =>
        \A c \in curs : \E p \in prev :
            /\ XMin(c) = XMin(p) /\ XMax(c) = XMax(p)
            /\ \A k \in 1..N(c) : c.ys[k] \in FVals(p, c.xs[k])

LevelsQuick == {-4, 0, 2, 8}
LevelsThorough == {-8, -4, -3, 0, 2, 4, 8}
=============================================================================
