------------------------------ MODULE AlignLM ------------------------------
(* C07: the Levenberg-Marquardt alignment problems (points to curve, points   *)
(* to mesh) as a protocol state machine.  The optimiser may call set_params,  *)
(* residuals and jacobian in any order; the problem keeps a cache (moved      *)
(* points and their closest reference points) that must always belong to the  *)
(* current parameters, so that residuals, Jacobian and the final transform    *)
(* describe the same state.                                                    *)
EXTENDS Integers, Sequences, FiniteSets
CONSTANTS ParamIds,          \* abstract parameter vectors the optimiser may try
          Refresh            \* TRUE: set_params refreshes the cache (the implementation); FALSE: negative model

VARIABLES phase, params, cacheOf, reported
vars == <<phase, params, cacheOf, reported>>

Init == phase = "new" /\ params \in ParamIds /\ cacheOf = params /\ reported = <<>>     \* constructor moves the points

SetParams(x) == /\ phase \in {"new", "run"} /\ phase' = "run"
                /\ params' = x
                /\ cacheOf' = IF Refresh THEN x ELSE cacheOf
                /\ UNCHANGED reported
Residuals == /\ phase \in {"new", "run"} /\ phase' = "run"
             /\ reported' = Append(reported, [call |-> "res", at |-> params, from |-> cacheOf])
             /\ UNCHANGED <<params, cacheOf>>
Jacobian ==  /\ phase \in {"new", "run"} /\ phase' = "run"
             /\ reported' = Append(reported, [call |-> "jac", at |-> params, from |-> cacheOf])
             /\ UNCHANGED <<params, cacheOf>>
Finish ==    /\ phase = "run" /\ phase' = "done"
             /\ reported' = Append(reported, [call |-> "result", at |-> params, from |-> cacheOf])
             /\ UNCHANGED <<params, cacheOf>>
Next == (\E x \in ParamIds : SetParams(x)) \/ Residuals \/ Jacobian \/ Finish
Spec == Init /\ [][Next]_vars

\* everything ever handed out was computed from the cache of the parameters in force
Honest == \A k \in 1..Len(reported) : reported[k].from = reported[k].at
CacheCoherent == cacheOf = params
Bound == Len(reported) <= 4
=============================================================================
