CONSTANTS
  GP = 2
  NPts = 3
  Dim3 = TRUE
SPECIFICATION Spec
INVARIANT Emit SweepCorrect SweepInv L1Sharp
PROPERTY Terminates
CHECK_DEADLOCK FALSE
