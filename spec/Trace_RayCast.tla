---------------------------- MODULE Trace_RayCast ----------------------------
(* Judge for C06.                                                              *)
EXTENDS RayCast, JudgeBase
VARIABLE i

JDir(r, j) ==
    LET v == r.pts o == r.o d == r.dirs[j] c == r.out.c[j]
        nd == ISqrt(d[1] * d[1] + d[2] * d[2]) IN
    /\ IntersectionsOK(v, o, d, c.ints, 1)
    /\ IntersectionsOK(v, o, d, c.cints, 1)
    /\ SpanningOK(v, o, d, c.span) /\ SpanningOK(v, o, d, c.cspan)
    /\ MaxIntersectionOK(v, o, d, c.max)
    /\ FarthestOK(v, o, d, c.far)
    \* normal line of a surface point: same crossings, parameters measured in units of length (|d| integral only)
    \* (the direction is normalised, hence inexact: the count is demanded only where every vertex on the
    \*  line is a proper crossing - touches, open ends and edges along the line are free)
    /\ RobustCount(v, o, d) => Len(c.sints) = NumCross(v, o, d)
    /\ (nd > 0 /\ RobustCount(v, o, d)) => \A a \in 1..Len(c.sints) : Len(c.sints) = Len(c.ints) /\ AbsV(c.sints[a] - nd * c.ints[a][1]) <= 2 * nd + 2

JCast(r) ==
    /\ Clause(i, "C06.finite", r.out.finite)
    /\ Clause(i, "C06.shape", Len(r.out.c) = Len(r.dirs))
    /\ Len(r.out.c) = Len(r.dirs) =>
        /\ ClauseAll(i, "C06.intersections", 1..Len(r.dirs), LAMBDA j : IntersectionsOK(r.pts, r.o, r.dirs[j], r.out.c[j].ints, 1) /\ IntersectionsOK(r.pts, r.o, r.dirs[j], r.out.c[j].cints, 1))
        /\ ClauseAll(i, "C06.spanning_ray", 1..Len(r.dirs), LAMBDA j : SpanningOK(r.pts, r.o, r.dirs[j], r.out.c[j].span) /\ SpanningOK(r.pts, r.o, r.dirs[j], r.out.c[j].cspan))
        /\ ClauseAll(i, "C06.derived_answers", 1..Len(r.dirs), LAMBDA j : JDir(r, j))

Judge(r) ==
    /\ Sane(i, r)
    /\ Ran(r) => CASE r.op = "cast" -> JCast(r) [] r.op = "reset" -> TRUE [] OTHER -> Clause(i, "unknown-op", FALSE)
Init == i = 1
Next == i <= Len(Rec) /\ Judge(Rec[i]) /\ i' = i + 1
Spec == Init /\ [][Next]_i
Post == TLCGet("stats").diameter - 1 = Len(Rec)
=============================================================================
