---------------------------- MODULE Trace_RayCast ----------------------------
(* Judge for C06.                                                              *)
EXTENDS RayCast, JudgeBase
VARIABLE i

\* one line (direction j) of a record: the hit set and its representatives are computed once and shared by the clauses
ClauseAt(name, j, P) == IF P THEN TRUE ELSE PrintT(<<"REJECT", i, name>>) /\ PrintT(<<"DETAIL", i, name, j>>)
JDir(r, j) ==
    LET v == r.pts o == r.o d == r.dirs[j] c == r.out.c[j]
        nd == ISqrt(d[1] * d[1] + d[2] * d[2])
        H == HitEdges(v, o, d)
        R == RepsIn(H, v, o, d)
        robust == RobustCount(v, o, d) IN
    /\ ClauseAt("C06.intersections", j, IntersectionsOKh(H, R, v, o, d, c.ints, 1) /\ IntersectionsOKh(H, R, v, o, d, c.cints, 1))
    /\ ClauseAt("C06.spanning_ray", j, SpanningOKh(R, v, o, d, c.span) /\ SpanningOKh(R, v, o, d, c.cspan))
    /\ ClauseAt("C06.derived_answers", j,
          /\ MaxIntersectionOKh(R, v, o, d, c.max)
          /\ FarthestOK(v, o, d, c.far)
          /\ FarthestOK(v, o, d, c.far_c) /\ FarthestOK(v, o, d, c.far_p)        \* the Curve2 routes to the same answer
          \* normal line of a surface point: same crossings, parameters measured in units of length (|d| integral only)
          \* (the direction is normalised, hence inexact: the count is demanded only where every vertex on the
          \*  line is a proper crossing - touches, open ends and edges along the line are free)
          \* the direction after a float quarter turn (errors of 1e-17 in its components): same crossings at the same parameters
          /\ robust => (Len(c.rints) = Cardinality(R) /\ \A a \in 1..Len(c.rints) : Len(c.rints) = Len(c.ints) /\ AbsV(c.rints[a][1] - c.ints[a][1]) <= 2)
          /\ robust => Len(c.sints) = Cardinality(R)
          /\ (nd > 0 /\ robust) => \A a \in 1..Len(c.sints) : Len(c.sints) = Len(c.ints) /\ AbsV(c.sints[a] - nd * c.ints[a][1]) <= 2 * nd + 2)

JCast(r) ==
    /\ Clause(i, "C06.finite", r.out.finite)
    /\ Clause(i, "C06.shape", Len(r.out.c) = Len(r.dirs))
    /\ Len(r.out.c) = Len(r.dirs) => \A j \in 1..Len(r.dirs) : JDir(r, j)

\* nearly parallel lines against very long edges: only the intersection lists are judged (big-number path of RayCast.tla)
JShallow(r) ==
    /\ Clause(i, "C06.finite", r.out.finite)
    /\ Clause(i, "C06.shape", Len(r.out.c) = Len(r.dirs))
    /\ Len(r.out.c) = Len(r.dirs) => \A j \in 1..Len(r.dirs) :
          ClauseAt("C06.intersections", j, IntersectionsBigOK(r.pts, r.o, r.dirs[j], r.out.c[j].ints, r.qt)
                                           /\ IntersectionsBigOK(r.pts, r.o, r.dirs[j], r.out.c[j].cints, r.qt))

Judge(r) ==
    /\ Sane(i, r)
    /\ Ran(r) => CASE r.op = "cast" -> JCast(r) [] r.op = "shallow" -> JShallow(r) [] r.op = "reset" -> TRUE [] OTHER -> Clause(i, "unknown-op", FALSE)
Init == i = 1
Next == i <= Len(Rec) /\ Judge(Rec[i]) /\ i' = i + 1
Spec == Init /\ [][Next]_i
Post == TLCGet("stats").diameter - 1 = Len(Rec)
=============================================================================
