------------------------------- MODULE MC_C09 -------------------------------
(* Bounded instance for C09.  TLC (i) checks the laws of the L1 operators of  *)
(* Fit.tla on every enumerated case (the generating polynomial is the unique  *)
(* solution of the normal equations, Cramer's solution is orthogonal and      *)
(* strictly better than every neighbouring coefficient vector, the exact      *)
(* circumcentre satisfies both bisector equations and is equidistant, arcs    *)
(* have the stated extent, guesses lie in the stated neighbourhood, the       *)
(* contamination bound holds) and (ii) emits the cases that are replayed      *)
(* into the real library.                                                     *)
EXTENDS Fit, TLC, Json, SequencesExt
CONSTANTS Thorough      \* BOOLEAN: tier

VARIABLE case

\* ---------------------------------------------------------------- polynomial abscissae: subsets of -3..5 as bit masks
XW == <<-3, -2, -1, 0, 1, 2, 3, 4, 5>>
Bit(mk, j) == (mk \div Pow(2, j)) % 2
PopTable == [mk \in 1..511 |-> SumSeq([j \in 1..9 |-> Bit(mk, j - 1)])]
PopCount(mk) == PopTable[mk]
MaskTable == [mk \in 1..511 |-> SelectSeq(XW, LAMBDA x : Bit(mk, x + 3) = 1)]
MaskSeq(mk) == MaskTable[mk]
Masks(lo, hi, step) == {mk \in 1..511 : PopCount(mk) >= lo /\ PopCount(mk) <= hi /\ (mk * 37 + mk \div 8) % step = 0}

\* weight patterns (0 = no weights argument)
WPat(p, n) == [i \in 1..n |-> CASE p = 1 -> ((i - 1) % 3) + 1
                                [] p = 2 -> 3 - ((i - 1) % 3)
                                [] p = 3 -> 2
                                [] p = 4 -> IF i = 1 THEN 3 ELSE 1
                                [] OTHER -> 1]
Unit(K, k) == [j \in 1..K |-> IF j = k THEN 1 ELSE 0]
MixA == <<1, -2, 3, -1, 2, -3>>
MixB == <<-3, 2, 0, 1, -1, 3>>
MixC == <<2, 3, -3, -2, 1, 1>>
\* coefficient vectors: the monomials (the fit is linear in y) and dense mixed-sign vectors
CsFor(K) == LET extra == IF Thorough THEN 3 ELSE 2 IN
            [j \in 1..(K + extra) |-> IF j <= K THEN Unit(K, j)
                                      ELSE IF j = K + 1 THEN SubSeq(MixA, 1, K)
                                      ELSE IF j = K + 2 THEN SubSeq(MixB, 1, K) ELSE SubSeq(MixC, 1, K)]
\* all coefficient vectors over -3..3 for lines (thorough)
Code7(v) == SumSeq([i \in 1..Len(v) |-> (v[i] + 3) * Pow(7, i - 1)])
AllCs2 == SetToSortSeq([1..2 -> -3..3], LAMBDA a, b : Code7(a) < Code7(b))
YsOf(cs, xs) == [j \in 1..Len(cs) |-> [i \in 1..Len(xs) |-> PolyVal(cs[j], xs[i])]]

PSx == {0, -2, 1}
ExactCombos == IF Thorough THEN {<<p, sx>> : p \in 0..4, sx \in PSx}
               ELSE {<<0, 0>>, <<1, 0>>, <<2, -2>>, <<4, 1>>, <<3, 0>>}
PolyExactOf(K) ==
    {[m |-> "fit", op |-> "poly", kind |-> "exact", K |-> K, xs |-> MaskSeq(mk), w |-> cb[1] # 0,
      ws |-> WPat(cb[1], PopCount(mk)), sx |-> cb[2], ex |-> 0,
      cs |-> IF Thorough /\ K = 2 THEN AllCs2 ELSE CsFor(K),
      ys |-> YsOf(IF Thorough /\ K = 2 THEN AllCs2 ELSE CsFor(K), MaskSeq(mk))]
        : mk \in Masks(K, K + 2, IF Thorough THEN 1 ELSE 2), cb \in ExactCombos}

\* ---------------------------------------------------------------- arbitrary integer data, sizes 2 and 3 (exact rational solution)
Sorted(s) == \A i \in 1..(Len(s) - 1) : s[i] <= s[i + 1]
XSeqs(n, lo, hi, K) == {s \in [1..n -> lo..hi] : Sorted(s) /\ Cardinality(SeqSetF(s)) >= K}
YV == IF Thorough THEN {-2, -1, 0, 1, 2} ELSE {-2, 0, 1}
Code5(v) == SumSeq([i \in 1..Len(v) |-> (v[i] + 2) * Pow(5, i - 1)])
YBatchTable == [n \in 2..4 |-> SetToSortSeq([1..n -> YV], LAMBDA a, b : Code5(a) < Code5(b))]
YBatch(n) == YBatchTable[n]
DataPats == IF Thorough THEN 0..4 ELSE {0, 1, 4}
PolyDataOf(K, p) ==
    IF K = 2 THEN
    {[m |-> "fit", op |-> "poly", kind |-> "data", K |-> 2, xs |-> xs, w |-> p # 0, ws |-> WPat(p, Len(xs)), sx |-> 0, ex |-> 2,
      ys |-> YBatch(Len(xs))] : xs \in XSeqs(3, -2, 3, 2) \cup (IF Thorough THEN XSeqs(2, -2, 3, 2) \cup XSeqs(4, -1, 3, 2) ELSE {})}
    ELSE
    {[m |-> "fit", op |-> "poly", kind |-> "data", K |-> 3, xs |-> xs, w |-> p # 0, ws |-> WPat(p, Len(xs)), sx |-> 0, ex |-> 2,
      ys |-> YBatch(Len(xs))] : xs \in XSeqs(4, -1, 2, 3) \cup (IF Thorough THEN XSeqs(3, -1, 2, 3) ELSE {})}

\* ---------------------------------------------------------------- Series1::best_fit_line against the degree-1 fit
Code6(v) == SumSeq([i \in 1..Len(v) |-> (v[i] + 2) * Pow(6, i - 1)])
LineYsTable == [n \in 2..4 |-> SetToSortSeq([1..n -> {-2, 0, 3}], LAMBDA a, b : Code6(a) < Code6(b))]
LineYs(n) == LineYsTable[n]
Lines ==
    {[m |-> "fit", op |-> "line", xs |-> MaskSeq(mk), sx |-> sx, ys |-> LineYs(PopCount(mk))]
        : mk \in Masks(2, 4, IF Thorough THEN 1 ELSE 7), sx \in IF Thorough THEN {0, -3, 2} ELSE {0, -3}}

\* ---------------------------------------------------------------- three-point circles: every ordered triple of a lattice window
G == IF Thorough THEN 5 ELSE 4
WinN == (G + 1) * (G + 1)
WinPt(j) == <<(j - 1) % (G + 1), (j - 1) \div (G + 1)>>
PairSeq == [j \in 1..(WinN * WinN) |-> LET a == WinPt(((j - 1) % WinN) + 1) b == WinPt(((j - 1) \div WinN) + 1)
                                       IN <<a[1], a[2], b[1], b[2]>>]
C3Scales == IF Thorough THEN {0, -10, -3, 4, 10} ELSE {0, -10, 4}
ThreePointOf(j) == {[m |-> "fit", op |-> "c3", p0 |-> WinPt(j), sc |-> sc, prs |-> PairSeq] : sc \in C3Scales}

\* ---------------------------------------------------------------- circle fit: exact lattice arcs x guesses of the stated neighbourhood
Radii == {5, 13, 25, 65}
ArcExtentOK(R, a, n) == LET ap == ArcPts(R, <<0, 0>>, a, n) IN
                        n = RingSize(R) \/ (n >= 3 /\ \E j, k \in 1..n : Apart60(ap[j], ap[k], <<0, 0>>, R))
MinNTable == [R \in Radii |-> [a \in 1..RingSize(R) |->
                CHOOSE n \in 3..RingSize(R) : ArcExtentOK(R, a, n) /\ \A n2 \in 3..(n - 1) : ~ArcExtentOK(R, a, n2)]]
MinN(R, a) == MinNTable[R][a]
GuessSeq(ctr, R) ==
    LET g == R \div 3 h == R \div 5
        offs == << <<0, 0>>, <<g, 0>>, <<-g, 0>>, <<0, g>>, <<0, -g>>, <<h, h>>, <<-h, h>>, <<h, -h>>, <<-h, -h>> >>
    IN [j \in 1..27 |-> LET o == offs[((j - 1) % 9) + 1] dr == (((j - 1) \div 9) - 1) * g
                        IN <<ctr[1] + o[1], ctr[2] + o[2], R + dr>>]
CtrOf(a) == IF (a \div 2) % 2 = 0 THEN <<0, 0>> ELSE <<7, -3>>
FitModes == <<0, 6, 4>>                  \* sg2: 0 = All, otherwise Gaussian(sg2 / 2)
FitScales == <<0, -10, 4>>
ArcLens(R, a) == {n \in {MinN(R, a), MinN(R, a) + 2} \cup (IF a = 1 THEN {RingSize(R), RingSize(R) \div 2} ELSE {}) : n <= RingSize(R)}
Starts(R) == {x \in 1..RingSize(R) : Thorough \/ x % (RingSize(R) \div 6) = 1}
CircleFitExactOf(R) ==
    UNION {{[m |-> "fit", op |-> "cfit", kind |-> "exact", R |-> R, ctr |-> CtrOf(a), pts |-> ArcPts(R, CtrOf(a), a, n),
             sc |-> sc, sg2 |-> md, gs |-> GuessSeq(CtrOf(a), R)]
               : n \in ArcLens(R, a),
                 md \in IF Thorough THEN {0, 6, 4} ELSE {FitModes[(a % 3) + 1]},
                 sc \in IF Thorough THEN {0, -10, 4} ELSE {FitScales[((a \div 3) % 3) + 1]}}
           : a \in Starts(R)}

\* inexact data: one ring point displaced by one lattice unit (stationarity only)
Displace(pts, j, d) == [k \in 1..Len(pts) |-> IF k = j THEN PAdd(pts[k], d) ELSE pts[k]]
CircleFitNoisy ==
    {[m |-> "fit", op |-> "cfit", kind |-> "noisy", R |-> R, ctr |-> <<1, 2>>, pts |-> Displace(ArcPts(R, <<1, 2>>, 1, n), j, d),
      sc |-> sc, sg2 |-> 0, gs |-> << <<1, 2, R>>, <<2, 1, R + 1>>, <<0, 3, R - 1>> >>]
        : R \in {5, 13}, n \in {7, 12}, j \in IF Thorough THEN 1..7 ELSE {2, 5},
          d \in {<<1, 0>>, <<0, 1>>, <<-1, 0>>, <<0, -1>>}, sc \in IF Thorough THEN {0, -10, 4} ELSE {0}}

\* ---------------------------------------------------------------- seeded RANSAC on contaminated lattice rings
Outliers(k) == CASE k = 0 -> <<>>
                 [] k = 1 -> << <<0, 0>>, <<7, 7>>, <<-9, 2>> >>
                 [] k = 2 -> << <<1, 1>>, <<-2, 3>>, <<7, 6>>, <<-9, 2>>, <<3, -8>>, <<10, 1>>, <<-6, -6>>, <<2, 9>> >>
Shifted(s, ctr) == [j \in 1..Len(s) |-> PAdd(s[j], ctr)]
Perm7(s) == [j \in 1..Len(s) |-> s[((j * 7) % Len(s)) + 1]]
Arrange(ring, outl, ord) == CASE ord = 0 -> ring \o outl [] ord = 1 -> outl \o ring [] OTHER -> Perm7(ring \o outl)
RMin(R, rbm) == IF rbm = 1 THEN R - 2 ELSE IF rbm = 2 THEN R - 1 ELSE -1
RMax(R, rbm) == IF rbm = 1 THEN R + 2 ELSE IF rbm = 3 THEN R + 1 ELSE -1
RansacOf(R) ==
    LET all ==
      {[m |-> "fit", op |-> "ransac", R |-> R, ctr |-> ctr, pts |-> Arrange(ArcPts(R, ctr, 1, RingSize(R)), Shifted(Outliers(k), ctr), ord),
        sc |-> sc, tolN |-> 1, tolD |-> td, iters |-> it, rmin |-> RMin(R, rbm), rmax |-> RMax(R, rbm)]
          : ctr \in {<<0, 0>>, <<-4, 6>>}, k \in 0..2, ord \in 0..2, td \in {2, 4},
            it \in IF Thorough THEN {0, 200, 50} ELSE {0, 200}, rbm \in IF Thorough THEN 0..3 ELSE 0..1,
            sc \in IF Thorough THEN {0, -10, 4} ELSE {0, -10}}
    IN IF Thorough THEN all ELSE {c \in all : (Len(c.pts) + c.tolD + c.iters \div 100 + c.rmin + c.sc + c.ctr[1]) % 3 = 0}

\* the case set is explored in chunks (one initial state per chunk) so that TLC's workers share the evaluation of the laws
ChunkIds == {<<"pe", K>> : K \in 2..6} \cup {<<"pd", K * 10 + p>> : K \in 2..3, p \in DataPats} \cup {<<"ln", 0>>, <<"cn", 0>>}
            \cup {<<"c3", j>> : j \in 1..WinN} \cup {<<"cf", R>> : R \in Radii} \cup {<<"rs", R>> : R \in {5, 13}}
CasesOf(id) ==
    CASE id[1] = "pe" -> PolyExactOf(id[2])
      [] id[1] = "pd" -> PolyDataOf(id[2] \div 10, id[2] % 10)
      [] id[1] = "ln" -> Lines
      [] id[1] = "cn" -> CircleFitNoisy
      [] id[1] = "c3" -> ThreePointOf(id[2])
      [] id[1] = "cf" -> CircleFitExactOf(id[2])
      [] id[1] = "rs" -> RansacOf(id[2])

Init == case \in {[op |-> "chunk", id |-> id] : id \in ChunkIds}
Next == case.op = "chunk" /\ case' \in CasesOf(case.id)
Spec == Init /\ [][Next]_case
Emit == IF case.op = "chunk" THEN TRUE ELSE PrintT(<<"CASE", ToJson(case)>>)

\* ---------------------------------------------------------------- laws of the specification, on every enumerated case
LawPolyExact(c) ==
    /\ WellPosed(c.K, c.xs, c.ws, c.w)
    /\ \A j \in 1..Len(c.cs) :
         /\ SolvesNormalEq(c.cs[j], 1, c.xs, c.ws, c.w, c.ys[j])              \* the generating polynomial is the L1 answer
         /\ c.K = 2 => LET sol == Solve2(c.xs, c.ws, c.w, c.ys[j]) IN          \* ... and Cramer's rule finds it
                       sol[2] > 0 /\ \A k \in 1..2 : sol[1][k] = c.cs[j][k] * sol[2]
Nbrs(K) == {d \in [1..K -> -1..1] : \E k \in 1..K : d[k] # 0}
LawPolyData(c) ==
    /\ WellPosed(c.K, c.xs, c.ws, c.w)
    /\ \A j \in 1..Len(c.ys) :
         LET sol == Solve(c.K, c.xs, c.ws, c.w, c.ys[j]) ms == MinSSE(c.K, c.xs, c.ws, c.w, c.ys[j]) IN
         /\ sol[2] > 0
         /\ SolvesNormalEq(sol[1], sol[2], c.xs, c.ws, c.w, c.ys[j])          \* Cramer's solution is orthogonal to every column
         /\ ms[1] >= 0
         /\ c.K = 2 =>
              /\ ms[1] * sol[2] = ScaledSSE(sol[1], sol[2], c.xs, c.ws, c.w, c.ys[j])   \* the closed form of the minimum is right
              /\ \A d \in Nbrs(2) :                                                      \* and no neighbouring vector is as good
                    ScaledSSE([k \in 1..2 |-> sol[1][k] + d[k]], sol[2], c.xs, c.ws, c.w, c.ys[j])
                      > ScaledSSE(sol[1], sol[2], c.xs, c.ws, c.w, c.ys[j])
LawLine(c) ==
    /\ WellPosed(2, c.xs, <<>>, FALSE) /\ \A i \in 1..(Len(c.xs) - 1) : c.xs[i] < c.xs[i + 1]
    /\ \A j \in 1..Len(c.ys) : LET sol == Solve2(c.xs, <<>>, FALSE, c.ys[j]) IN
         sol[2] > 0 /\ SolvesNormalEq(sol[1], sol[2], c.xs, <<>>, FALSE, c.ys[j])
LawThreePoint(c) ==
    \A j \in 1..Len(c.prs) :
        LET p1 == <<c.prs[j][1], c.prs[j][2]>> p2 == <<c.prs[j][3], c.prs[j][4]>> IN
        ~Collinear(c.p0, p1, p2) =>
            LET cc == Circumcentre(c.p0, p1, p2) IN
            /\ cc[3] # 0
            /\ BisectorDefect(<<cc[1], cc[2]>>, c.p0, p1, cc[3]) = 0
            /\ BisectorDefect(<<cc[1], cc[2]>>, c.p0, p2, cc[3]) = 0
            /\ CircumR2(c.p0, p1, p2) = CircumR2(p1, p2, c.p0)
            /\ CircumR2(c.p0, p1, p2)[1] > 0
LawCircleFit(c) ==
    IF c.kind = "exact"
    THEN /\ ExactArc(c.pts, c.ctr, c.R)
         /\ \A j \in 1..Len(c.gs) : GuessNear(c.gs[j], c.ctr, c.R)
    ELSE ~ExactArc(c.pts, c.ctr, c.R)
LawRansac(c) ==
    /\ FairContamination(c.pts, c.ctr, c.R)
    /\ Support(c.pts, c.ctr, c.R, c.tolN, c.tolD) >= OnCount(c.pts, c.ctr, c.R)
    /\ c.rmin < 0 \/ c.rmin < c.R
    /\ c.rmax < 0 \/ c.rmax > c.R
Laws ==
    CASE case.op = "chunk" -> TRUE
      [] case.op = "poly" /\ case.kind = "exact" -> LawPolyExact(case)
      [] case.op = "poly" /\ case.kind = "data"  -> LawPolyData(case)
      [] case.op = "line"   -> LawLine(case)
      [] case.op = "c3"     -> LawThreePoint(case)
      [] case.op = "cfit"   -> LawCircleFit(case)
      [] case.op = "ransac" -> LawRansac(case)
=============================================================================
