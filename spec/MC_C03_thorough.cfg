CONSTANTS
  NAngles = 12
  NTrans = 4
  TwoAxis = TRUE
SPECIFICATION Spec
INVARIANT Emit Proper OracleInvariant
CHECK_DEADLOCK FALSE
