//! C12: mesh connectivity (edge table, boundary loops, patches), index chaining, voxel clusters, primitives
use crate::util::*;
use crate::State;
use engeom::geom3::{Mesh, Point3};
use serde_json::{json, Value};
use std::collections::HashSet;

pub fn mesh_from(rec: &Value) -> Mesh {
    let s = (2.0f64).powi(gi_or(rec, "sc", 0) as i32);
    let verts: Vec<Point3> = gvvi(rec, "vpos").iter().map(|p| Point3::new(p[0] as f64 * s, p[1] as f64 * s, p[2] as f64 * s)).collect();
    let faces: Vec<[u32; 3]> = gvvi(rec, "faces").iter().map(|f| [f[0] as u32, f[1] as u32, f[2] as u32]).collect();
    Mesh::new(verts, faces, gi_or(rec, "solid", 0) == 1)
}

pub fn exec(rec: &Value, _st: &mut State) -> Value {
    let op = gs(rec, "op");
    let mut q = Q::new();
    match op {
        "mesh" => {
            let reps = gi(rec, "reps");
            let sc = (2.0f64).powi(gi_or(rec, "sc", 0) as i32);
            // optional `split` [vertices, faces]: the mesh is assembled in two steps - the first part is built and QUERIED
            // (patches, edge table), then the rest is appended to the same object - and observed after that
            // optional `vpad`: that many unused vertices are put in front of the described ones (all face indices shifted), so that
            // meshes with vertex indices beyond 65535 stay small records; reported vertex ids are shifted back
            let vpad = gi_or(rec, "vpad", 0) as usize;
            let mesh = match rec.get("split").and_then(|v| v.as_array()) {
                None if vpad > 0 => {
                    let mut verts: Vec<Point3> = (0..vpad).map(|k| Point3::new(-1.0 - k as f64, -5.0, -5.0)).collect();
                    verts.extend(gvvi(rec, "vpos").iter().map(|p| Point3::new(p[0] as f64 * sc, p[1] as f64 * sc, p[2] as f64 * sc)));
                    let faces: Vec<[u32; 3]> = gvvi(rec, "faces").iter().map(|f| [(f[0] as usize + vpad) as u32, (f[1] as usize + vpad) as u32, (f[2] as usize + vpad) as u32]).collect();
                    Mesh::new(verts, faces, false)
                }
                None => mesh_from(rec),
                Some(sp) => {
                    let (nv, nf) = (sp[0].as_u64().unwrap() as usize, sp[1].as_u64().unwrap() as usize);
                    let vp = gvvi(rec, "vpos");
                    let fs = gvvi(rec, "faces");
                    let pt = |p: &Vec<i64>| Point3::new(p[0] as f64 * sc, p[1] as f64 * sc, p[2] as f64 * sc);
                    let mut a = Mesh::new(vp[..nv].iter().map(pt).collect(), fs[..nf].iter().map(|f| [f[0] as u32, f[1] as u32, f[2] as u32]).collect(), false);
                    let b = Mesh::new(vp[nv..].iter().map(pt).collect(), fs[nf..].iter().map(|f| [(f[0] as usize - nv) as u32, (f[1] as usize - nv) as u32, (f[2] as usize - nv) as u32]).collect(), false);
                    let _ = a.get_patches();
                    let _ = a.calc_edges();
                    let _ = a.get_patch_boundary_points();
                    a.append(&b).expect("append");
                    a
                }
            };
            let mut loops_reps = vec![];
            let mut patches_reps = vec![];
            let mut first = json!(null);
            let mut edges_ok = true;
            for k in 0..reps {
                match mesh.calc_edges() {
                    Ok(e) => {
                        let unpad = |v: u32| -> i64 { v as i64 - vpad as i64 };
                        if k == 0 {
                            let ed: Vec<Vec<i64>> = e.edges.iter().map(|p| vec![unpad(p[0]), unpad(p[1])]).collect();
                            first = json!({"edges": ed, "elen": q.qv(&e.edge_lengths, 1024.0 / sc), "face_edges": e.face_edges});
                        }
                        let lp: Vec<Vec<i64>> = e.boundary_loops.iter().map(|l| l.iter().map(|v| unpad(*v)).collect()).collect();
                        loops_reps.push(json!(lp));
                    }
                    Err(_) => { edges_ok = false; }
                }
                patches_reps.push(json!(mesh.get_patches()));
            }
            if !edges_ok {
                first = json!({"edges": [], "elen": [], "face_edges": []});
            }
            json!({"edges_ok": edges_ok, "table": first, "loops": loops_reps, "patches": patches_reps, "finite": q.finite})
        }
        "chain" => {
            let pairs: Vec<[u32; 2]> = gvvi(rec, "pairs").iter().map(|p| [p[0] as u32, p[1] as u32]).collect();
            let chains = engeom::common::indices::chained_indices(&pairs);
            json!({"chains": chains})
        }
        "voxels" => {
            let reps = gi(rec, "reps");
            let mut out = vec![];
            for _ in 0..reps {
                let set: HashSet<(i32, i32, i32)> = gvvi(rec, "cells").iter().map(|c| (c[0] as i32, c[1] as i32, c[2] as i32)).collect();
                let cl = engeom::raster3::clusters_from_sparse(set);
                let v: Vec<Vec<Vec<i32>>> = cl.iter().map(|c| c.iter().map(|p| vec![p.0, p.1, p.2]).collect()).collect();
                out.push(json!(v));
            }
            json!({"clusters": out})
        }
        "prim" => {
            let mesh = if gs(rec, "kind") == "box" {
                Mesh::create_box(gi(rec, "a") as f64, gi(rec, "b") as f64, gi(rec, "c") as f64, false)
            } else {
                Mesh::create_cylinder(gi(rec, "a") as f64, gi(rec, "b") as f64, gi(rec, "c") as usize)
            };
            // body centre = mean of the vertices; outwardness = n . (face centroid - centre), quantised
            let n = mesh.vertices().len() as f64;
            let mut ctr = engeom::geom3::Vector3::zeros();
            for v in mesh.vertices() { ctr += v.coords / n; }
            let mut outward = vec![];
            for t in mesh.tri_mesh().triangles() {
                let c = (t.a.coords + t.b.coords + t.c.coords) / 3.0;
                match t.normal() {
                    Some(nm) => outward.push(q.q(nm.dot(&(c - ctr)), 1024.0)),
                    None => { q.finite = false; outward.push(0) }
                }
            }
            json!({"faces": mesh.faces(), "nv": mesh.vertices().len(), "outward": outward, "finite": q.finite})
        }
        _ => json!({"unknown_op": true}),
    }
}
