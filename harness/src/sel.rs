//! C14: mesh face selection (TriangleFilter: facing / near_mesh with Add / Remove / Keep), create_mesh and
//! create_from_indices.  Executes and projects only: selections are recorded as sorted index lists, meshes as
//! quantised vertex lists + face lists; the per-face "isolated" evaluations are library calls on a selection that
//! holds (or lacks) exactly one face.  All comparisons are made by the TLA+ judge (spec/Trace_Selection.tla).
use crate::util::*;
use crate::State;
use engeom::geom3::mesh::filtering::TriangleFilter;
use engeom::geom3::{Mesh, Point3, Vector3};
use engeom::{SelectOp, Selection};
use serde_json::{json, Value};
use std::panic::{catch_unwind, AssertUnwindSafe};

const QM: f64 = 1024.0; // vertex coordinates are logged in 1/1024 lattice unit

struct Ctx {
    root: Value,
    steps: Vec<Value>,
}

fn scale(rec: &Value) -> f64 {
    (2.0f64).powi(gi_or(rec, "sc", 0) as i32)
}

fn build_mesh(vpos: &[Vec<i64>], faces: &[Vec<i64>], s: f64) -> Mesh {
    let verts: Vec<Point3> = vpos.iter().map(|p| Point3::new(p[0] as f64 * s, p[1] as f64 * s, p[2] as f64 * s)).collect();
    let tris: Vec<[u32; 3]> = faces.iter().map(|f| [f[0] as u32, f[1] as u32, f[2] as u32]).collect();
    Mesh::new(verts, tris, false)
}

/// reference mesh: an axis-aligned rectangle (normal axis `ax`, offset `h`, in-plane range lo..hi in the two
/// cyclically following axes, wound so that its normal is +axis when `up`), optionally split into unit cells;
/// or an explicit lattice triangle list
fn build_ref(r: &Value, s: f64) -> Mesh {
    if gs(r, "kind") == "mesh" {
        return build_mesh(&gvvi(r, "vpos"), &gvvi(r, "faces"), s);
    }
    let ax = gi(r, "ax");
    let h = gi(r, "h");
    let lo = gvi(r, "lo");
    let hi = gvi(r, "hi");
    let up = gb(r, "up");
    let (us, vs): (Vec<i64>, Vec<i64>) = if gb(r, "cells") {
        ((lo[0]..=hi[0]).collect(), (lo[1]..=hi[1]).collect())
    } else {
        (vec![lo[0], hi[0]], vec![lo[1], hi[1]])
    };
    let xyz = |u: i64, v: i64, w: i64| -> Vec<i64> {
        match ax {
            1 => vec![w, u, v],
            2 => vec![v, w, u],
            _ => vec![u, v, w],
        }
    };
    let nu = us.len();
    let mut vpos = vec![];
    for v in &vs {
        for u in &us {
            vpos.push(xyz(*u, *v, h));
        }
    }
    let mut faces = vec![];
    for j in 0..vs.len() - 1 {
        for i in 0..nu - 1 {
            let a = (j * nu + i) as i64;
            let b = a + 1;
            let d = a + nu as i64;
            let c = d + 1;
            if up {
                faces.push(vec![a, b, c]);
                faces.push(vec![a, c, d]);
            } else {
                faces.push(vec![a, c, b]);
                faces.push(vec![a, d, c]);
            }
        }
    }
    // optional zero-area triangle (three collinear points) sticking out of the corner `hi` along the first in-plane axis
    let sl = gi_or(r, "sliver", 0);
    if sl > 0 {
        let k = vpos.len() as i64;
        vpos.push(xyz(hi[0], hi[1], h));
        vpos.push(xyz(hi[0] + 1, hi[1], h));
        vpos.push(xyz(hi[0] + sl, hi[1], h));
        faces.push(vec![k, k + 1, k + 2]);
    }
    // optional wall hanging from the edge u = hi[0] of the plate (see Selection.tla): the reference then has a crease
    let wall = gi_or(r, "wall", 0);
    if wall > 0 {
        let k = vpos.len() as i64;
        vpos.push(xyz(hi[0], lo[1], h - wall));
        vpos.push(xyz(hi[0], hi[1], h - wall));
        vpos.push(xyz(hi[0], hi[1], h));
        vpos.push(xyz(hi[0], lo[1], h));
        if r.get("wup").and_then(|b| b.as_bool()).unwrap_or(true) {
            faces.push(vec![k, k + 1, k + 2]);
            faces.push(vec![k, k + 2, k + 3]);
        } else {
            faces.push(vec![k, k + 2, k + 1]);
            faces.push(vec![k, k + 3, k + 2]);
        }
    }
    build_mesh(&vpos, &faces, s)
}

fn mode_of(step: &Value) -> SelectOp {
    match gs(step, "mode") {
        "add" => SelectOp::Add,
        "remove" => SelectOp::Remove,
        _ => SelectOp::Keep,
    }
}

fn deg(d: i64) -> f64 {
    d as f64 * std::f64::consts::PI / 180.0
}

fn apply<'a>(f: TriangleFilter<'a>, step: &Value, refm: Option<&Mesh>, s: f64, mode: SelectOp) -> TriangleFilter<'a> {
    let c = &step["crit"];
    if gs(c, "kind") == "facing" {
        let d = gvi(c, "d");
        f.facing(&Vector3::new(d[0] as f64, d[1] as f64, d[2] as f64), deg(gi(c, "deg")), mode)
    } else {
        let pt = if gb(c, "hpt") { Some(gi(c, "pt2") as f64 / 2.0 * s) } else { None };
        let ad = if gb(c, "had") { Some(deg(gi(c, "adeg"))) } else { None };
        f.near_mesh(refm.expect("reference mesh"), gb(c, "allv"), gi(c, "dt2") as f64 / 2.0 * s, pt, ad, mode)
    }
}

fn start_sel(root: &Value, map: Option<&[usize]>) -> Selection {
    let st = &root["start"];
    match gs(st, "kind") {
        "none" => Selection::None,
        "all" => Selection::All,
        _ => Selection::Indices(
            gvi(st, "idx").iter().map(|&i| match map { Some(m) => m[i as usize], None => i as usize }).collect(),
        ),
    }
}

fn sorted(mut v: Vec<usize>) -> Vec<usize> {
    v.sort_unstable();
    v
}

/// run the whole chain from the start selection; `map` renames start indices (face-permuted mesh)
fn run_chain(mesh: &Mesh, root: &Value, steps: &[Value], refs: &Refs, s: f64, map: Option<&[usize]>) -> Vec<usize> {
    let mut f = mesh.face_select(start_sel(root, map));
    for (k, st) in steps.iter().enumerate() {
        f = apply(f, st, refs.get(k), s, mode_of(st));
    }
    f.collect()
}

/// reference meshes of a chain: steps that describe the same reference share ONE mesh object (as a caller who keeps a
/// reference mesh around and filters against it several times would)
struct Refs { pool: Vec<Mesh>, idx: Vec<Option<usize>> }
impl Refs {
    fn get(&self, k: usize) -> Option<&Mesh> { self.idx[k].map(|j| &self.pool[j]) }
}

fn mesh_json(q: &mut Q, m: &Mesh, s: f64) -> Value {
    let verts: Vec<Vec<i64>> = m.vertices().iter().map(|p| vec![q.q(p.x / s, QM), q.q(p.y / s, QM), q.q(p.z / s, QM)]).collect();
    json!({"ok": true, "verts": verts, "faces": m.faces()})
}

fn no_mesh() -> Value {
    json!({"ok": false, "verts": [], "faces": []})
}

fn refs_of(steps: &[Value], s: f64) -> Refs {
    let mut keys: Vec<String> = vec![];
    let mut pool = vec![];
    let mut idx = vec![];
    for st in steps {
        if gs(&st["crit"], "kind") == "near" {
            let key = st["crit"]["ref"].to_string();
            let j = match keys.iter().position(|k| *k == key) { Some(j) => j, None => { keys.push(key); pool.push(build_ref(&st["crit"]["ref"], s)); pool.len() - 1 } };
            idx.push(Some(j));
        } else { idx.push(None); }
    }
    Refs { pool, idx }
}

/// observations common to the root record and every step record: the selection after the chain so far
/// (several repetitions = fresh hash seeds; face-permuted copies of the mesh) and the mesh built from it
fn observe(q: &mut Q, root: &Value, steps: &[Value]) -> Value {
    let s = scale(root);
    let vpos = gvvi(root, "vpos");
    let faces = gvvi(root, "faces");
    let mesh = build_mesh(&vpos, &faces, s);
    let refs = refs_of(steps, s);
    let reps = gi_or(root, "reps", 3);
    let mut sels = vec![];
    for _ in 0..reps {
        sels.push(sorted(run_chain(&mesh, root, steps, &refs, s, None)));
    }
    // the same mesh with its face list permuted: perms[k][new position] = original face index
    let mut perm_sels = vec![];
    if let Some(perms) = root.get("perms").and_then(|v| v.as_array()) {
        for p in perms {
            let p: Vec<usize> = p.as_array().unwrap().iter().map(|x| x.as_u64().unwrap() as usize).collect();
            let pf: Vec<Vec<i64>> = p.iter().map(|&o| faces[o].clone()).collect();
            let mut inv = vec![0usize; p.len()];
            for (newi, &o) in p.iter().enumerate() {
                inv[o] = newi;
            }
            let pm = build_mesh(&vpos, &pf, s);
            let r = run_chain(&pm, root, steps, &refs, s, Some(&inv));
            perm_sels.push(sorted(r.into_iter().map(|newi| p[newi]).collect()));
        }
    }
    // mesh built from the selection (the filter's own create_mesh); an empty selection cannot be represented
    let built = catch_unwind(AssertUnwindSafe(|| {
        let mut f = mesh.face_select(start_sel(root, None));
        for (k, st) in steps.iter().enumerate() {
            f = apply(f, st, refs.get(k), s, mode_of(st));
        }
        f.create_mesh()
    }));
    let bm = match built {
        Ok(m) => mesh_json(q, &m, s),
        Err(_) => no_mesh(),
    };
    json!({"nf": mesh.faces().len(), "nv": mesh.vertices().len(), "sels": sels, "perm_sels": perm_sels, "mesh": bm})
}

/// criterion of `step` evaluated on each face alone: through Keep and Remove on the selection {f} and through
/// Add on the selection lacking only f (each call evaluates exactly one face with a fresh filter)
fn isolated(root: &Value, step: &Value) -> (Vec<bool>, Vec<bool>, Vec<bool>) {
    let s = scale(root);
    let mesh = build_mesh(&gvvi(root, "vpos"), &gvvi(root, "faces"), s);
    let refs1 = refs_of(std::slice::from_ref(step), s);
    let refm = refs1.get(0);
    let nf = mesh.faces().len();
    let mut keep = vec![];
    let mut rem = vec![];
    let mut add = vec![];
    for f in 0..nf {
        let k = apply(mesh.face_select(Selection::Indices(vec![f])), step, refm, s, SelectOp::Keep).collect();
        keep.push(k.contains(&f));
        let r = apply(mesh.face_select(Selection::Indices(vec![f])), step, refm, s, SelectOp::Remove).collect();
        rem.push(!r.contains(&f));
        let others: Vec<usize> = (0..nf).filter(|&g| g != f).collect();
        let a = apply(mesh.face_select(Selection::Indices(others)), step, refm, s, SelectOp::Add).collect();
        add.push(a.contains(&f));
    }
    (keep, rem, add)
}

pub fn exec(rec: &Value, st: &mut State) -> Value {
    let op = gs(rec, "op");
    let mut q = Q::new();
    match op {
        "mesh" => {
            let mut o = observe(&mut q, rec, &[]);
            st.slots.insert("sel".into(), Box::new(Ctx { root: rec.clone(), steps: vec![] }));
            o["finite"] = json!(q.finite);
            o
        }
        "step" => {
            let ctx = match st.slots.get_mut("sel").and_then(|b| b.downcast_mut::<Ctx>()) {
                Some(c) => c,
                None => return json!({"no_root": true, "skipped": true}),
            };
            ctx.steps.push(rec.clone());
            let (keep, rem, add) = isolated(&ctx.root, rec);
            let mut o = observe(&mut q, &ctx.root, &ctx.steps);
            o["iso"] = json!(keep);
            o["iso_rem"] = json!(rem);
            o["iso_add"] = json!(add);
            o["finite"] = json!(q.finite);
            o
        }
        "cfi" => {
            // Mesh::create_from_indices with an explicit index list (distinct, any order)
            let s = scale(rec);
            let mesh = build_mesh(&gvvi(rec, "vpos"), &gvvi(rec, "faces"), s);
            let idx: Vec<usize> = gvi(rec, "idx").iter().map(|&i| i as usize).collect();
            let built = catch_unwind(AssertUnwindSafe(|| mesh.create_from_indices(&idx)));
            let bm = match built {
                Ok(m) => mesh_json(&mut q, &m, s),
                Err(_) => no_mesh(),
            };
            json!({"nf": mesh.faces().len(), "nv": mesh.vertices().len(), "mesh": bm, "finite": q.finite})
        }
        _ => json!({"unknown_op": true}),
    }
}
