//! Curve2 / Curve3 executor: builds curves from exact lattice descriptions and projects stations.
use crate::util::*;
use crate::State;
use engeom::geom2::{Curve2, CurveStation2, Point2};
use engeom::geom3::{Curve3, CurveStation3, Point3};
use serde_json::{json, Value};

pub const QP: f64 = 65536.0;
pub const QF: f64 = 65536.0;
pub const QD: f64 = 16384.0;

pub fn scale_of(rec: &Value) -> f64 {
    (2.0f64).powi(gi_or(rec, "sc", 0) as i32)
}
pub fn tol_of(rec: &Value, s: f64) -> f64 {
    // tolU = 0: "tiny" (2^-20 of a lattice unit); otherwise that many quarter... lattice units
    match gi_or(rec, "tolU", 0) {
        0 => s / 1048576.0,
        k => s * k as f64,
    }
}
// `off`: the whole input is translated by that lattice vector (geometry far from the origin); every point that is reported is
// translated back before it is quantised, so the judge sees the same numbers. (X + O) * s and x / s - O are exact in f64.
thread_local! { static OFF: std::cell::Cell<[f64; 3]> = std::cell::Cell::new([0.0; 3]); }
pub fn set_off(rec: &Value) {
    let o = match rec.get("off") { Some(_) => { let v = gvi(rec, "off"); [v[0] as f64, v[1] as f64, v[2] as f64] } None => [0.0; 3] };
    OFF.with(|c| c.set(o));
}
pub fn off() -> [f64; 3] { OFF.with(|c| c.get()) }
pub fn pts2(rec: &Value, key: &str, s: f64) -> Vec<Point2> {
    let o = off();
    gvvi(rec, key).iter().map(|p| Point2::new((p[0] as f64 + o[0]) * s, (p[1] as f64 + o[1]) * s)).collect()
}
pub fn pts3(rec: &Value, key: &str, s: f64) -> Vec<Point3> {
    let o = off();
    gvvi(rec, key).iter().map(|p| Point3::new((p[0] as f64 + o[0]) * s, (p[1] as f64 + o[1]) * s, (p[2] as f64 + o[2]) * s)).collect()
}
pub fn build2(rec: &Value) -> (f64, engeom::Result<Curve2>) {
    let s = scale_of(rec);
    set_off(rec);
    // `from`: the curve is DERIVED - built from that vertex listing and then reversed (the record's `pts` describe the result)
    if rec.get("from").is_some() {
        return (s, Curve2::from_points(&pts2(rec, "from", s), tol_of(rec, s), gb(rec, "fc")).map(|c| c.reversed()));
    }
    (s, Curve2::from_points(&pts2(rec, "pts", s), tol_of(rec, s), gb(rec, "fc")))
}
pub fn build3(rec: &Value) -> (f64, engeom::Result<Curve3>) {
    let s = scale_of(rec);
    set_off(rec);
    (s, Curve3::from_points(&pts3(rec, "pts", s), tol_of(rec, s)))
}

pub fn st2(q: &mut Q, st: Option<CurveStation2>, s: f64) -> Value {
    match st {
        None => json!({"some": false, "idx": 0, "fq": 0, "p": [0,0,0], "d": [0,0,0], "n": [0,0,0], "la": 0, "dfin": true}),
        Some(st) => {
            let p = st.point();
            let d = st.direction();
            let n = st.normal();
            let mut qd = Q::new();
            let o = off();
            json!({"some": true, "idx": st.index(), "fq": q.q(st.fraction(), QF),
                   "p": [q.q(p.x / s - o[0], QP), q.q(p.y / s - o[1], QP), 0],
                   "d": [qd.q(d.x, QD), qd.q(d.y, QD), 0],
                   "n": [qd.q(n.x, QD), qd.q(n.y, QD), 0], "dfin": qd.finite,
                   "la": q.q(st.length_along() / s, QP)})
        }
    }
}
pub fn st3(q: &mut Q, st: Option<CurveStation3>, s: f64) -> Value {
    match st {
        None => json!({"some": false, "idx": 0, "fq": 0, "p": [0,0,0], "d": [0,0,0], "n": [0,0,0], "la": 0, "dfin": true}),
        Some(st) => {
            let p = st.point();
            let d = st.direction();
            let mut qd = Q::new();
            let o = off();
            json!({"some": true, "idx": st.index(), "fq": q.q(st.fraction(), QF),
                   "p": [q.q(p.x / s - o[0], QP), q.q(p.y / s - o[1], QP), q.q(p.z / s - o[2], QP)],
                   "d": [qd.q(d.x, QD), qd.q(d.y, QD), qd.q(d.z, QD)], "dfin": qd.finite,
                   "n": [0,0,0],
                   "la": q.q(st.length_along() / s, QP)})
        }
    }
}
pub fn qpts2(q: &mut Q, pts: &[Point2], s: f64) -> Vec<Vec<i64>> {
    let o = off();
    pts.iter().map(|p| vec![q.q(p.x / s - o[0], QP), q.q(p.y / s - o[1], QP), 0]).collect()
}
pub fn qpts3(q: &mut Q, pts: &[Point3], s: f64) -> Vec<Vec<i64>> {
    let o = off();
    pts.iter().map(|p| vec![q.q(p.x / s - o[0], QP), q.q(p.y / s - o[1], QP), q.q(p.z / s - o[2], QP)]).collect()
}
pub const QC: f64 = 640.0;
/// projection of a curve used as a portion result: vertices (1/640 lattice unit), length, closedness
pub fn piece(q: &mut Q, c: &Curve2, s: f64) -> Value {
    let o = off();
    let verts: Vec<Vec<i64>> = c.points().iter().map(|p| vec![q.q(p.x / s - o[0], QC), q.q(p.y / s - o[1], QC), 0]).collect();
    json!({"some": true, "verts": verts, "len": q.q(c.length() / s, QC), "closed": c.is_closed(), "n": c.count()})
}
pub fn opt_piece(q: &mut Q, c: &Option<Curve2>, s: f64) -> Value {
    match c {
        None => json!({"some": false}),
        Some(c) => { let mut o = piece(q, c, s); o["some"] = json!(true); o }
    }
}
pub const QR: f64 = 16384.0;
pub fn qptsr2(q: &mut Q, pts: &[Point2], s: f64) -> Vec<Vec<i64>> {
    let o = off();
    pts.iter().map(|p| vec![q.q(p.x / s - o[0], QR), q.q(p.y / s - o[1], QR), 0]).collect()
}
pub fn qptsr3(q: &mut Q, pts: &[Point3], s: f64) -> Vec<Vec<i64>> {
    let o = off();
    pts.iter().map(|p| vec![q.q(p.x / s - o[0], QR), q.q(p.y / s - o[1], QR), q.q(p.z / s - o[2], QR)]).collect()
}
fn lval(l2: i64, e: i64, s: f64) -> f64 {
    nudge(l2 as f64 / 2.0 * s, e)
}
/// records flagged `nz` hand every arc length that is zero over as NEGATIVE zero (what `x.clamp(0.0, L)` or `0.0 * -k`
/// produce for "the front"): -0.0 == 0.0, so it is the same request
fn negz(nz: bool, x: f64) -> f64 { if nz && x == 0.0 { -0.0 } else { x } }

pub fn exec(rec: &Value, st: &mut State) -> Value {
    let op = gs(rec, "op");
    let mut q = Q::new();
    match op {
        "stations" => {
            let nzf = gi_or(rec, "nz", 0) == 1;
            let dim = gi(rec, "dim");
            let ls = gvvi(rec, "ls");
            let fs = gvi(rec, "fs");
            if dim == 2 {
                let (s, c) = build2(rec);
                let c = match c { Ok(c) => c, Err(_) => return json!({"ok": false}) };
                let qs: Vec<Value> = ls.iter().map(|l| st2(&mut q, c.at_length(negz(nzf, lval(l[0], l[1], s))), s)).collect();
                let total = c.length();
                let qf: Vec<Value> = fs.iter().map(|l2| st2(&mut q, c.at_fraction((*l2 as f64 / 2.0 * s) / total), s)).collect();
                let it: Vec<Value> = c.iter().map(|x| st2(&mut q, Some(x), s)).collect();
                let front = st2(&mut q, Some(c.at_front()), s);
                let back = st2(&mut q, Some(c.at_back()), s);
                json!({"ok": true, "n": c.count(), "closed": c.is_closed(), "verts": qpts2(&mut q, c.points(), s),
                       "lens": q.qv(&c.lengths().iter().map(|l| l / s).collect::<Vec<_>>(), QP), "len": q.q(c.length() / s, QP),
                       "q": qs, "qf": qf, "it": it, "front": front, "back": back, "finite": q.finite})
            } else {
                let (s, c) = build3(rec);
                let c = match c { Ok(c) => c, Err(_) => return json!({"ok": false}) };
                let qs: Vec<Value> = ls.iter().map(|l| st3(&mut q, c.at_length(negz(nzf, lval(l[0], l[1], s))), s)).collect();
                let total = c.length();
                let qf: Vec<Value> = fs.iter().map(|l2| st3(&mut q, c.at_fraction((*l2 as f64 / 2.0 * s) / total), s)).collect();
                let it: Vec<Value> = c.iter().map(|x| st3(&mut q, Some(x), s)).collect();
                let front = st3(&mut q, Some(c.at_front()), s);
                let back = st3(&mut q, Some(c.at_back()), s);
                json!({"ok": true, "n": c.count(), "closed": false, "verts": qpts3(&mut q, c.points(), s),
                       "lens": q.qv(&c.lengths().iter().map(|l| l / s).collect::<Vec<_>>(), QP), "len": q.q(c.length() / s, QP),
                       "q": qs, "qf": qf, "it": it, "front": front, "back": back, "finite": q.finite})
            }
        }
        // ---------------- C04: history of portioning operations on a current Curve2
        "nav" => {
            // extension beyond the listed properties: vertex-to-vertex navigation of 2D stations.
            // Positions are reported as (vertex index * 2 + (1 if strictly inside the following edge)), -1 for None.
            let (s, c) = build2(rec);
            let c = match c { Ok(c) => c, Err(_) => return json!({"built": false}) };
            let pos = |st: &CurveStation2| -> i64 {
                let (i, f) = (st.index() as i64, st.fraction());
                if f <= 0.0 { 2 * i } else if f >= 1.0 { 2 * (i + 1) } else { 2 * i + 1 }
            };
            let opt = |st: Option<CurveStation2>| -> i64 { match st { None => -1, Some(st) => pos(&st) } };
            let mut rows = vec![];
            for l2 in gvi(rec, "ls") {
                let st = match c.at_length(l2 as f64 / 2.0 * s) { Some(st) => st, None => { rows.push(json!({"some": false, "at": 0, "prev": 0, "next": 0, "ati": 0, "atn": 0, "fwd": [], "bwd": []})); continue } };
                // walk forward / backward until None, at most count + 3 steps
                let cap = c.count() + 3;
                let mut fwd = vec![];
                let mut cur = st.clone();
                for _ in 0..cap { match cur.next() { None => { fwd.push(-1); break } Some(n) => { fwd.push(pos(&n)); cur = n } } }
                let mut bwd = vec![];
                let mut cur = st.clone();
                for _ in 0..cap { match cur.previous() { None => { bwd.push(-1); break } Some(n) => { bwd.push(pos(&n)); cur = n } } }
                rows.push(json!({"some": true, "at": pos(&st), "prev": opt(st.previous()), "next": opt(st.next()),
                                 "ati": pos(&st.at_index()), "atn": pos(&st.at_next_index()), "fwd": fwd, "bwd": bwd}));
            }
            json!({"built": true, "n": c.count(), "rows": rows})
        }
        "root" => {
            let (s, c) = build2(rec);
            match c {
                Ok(c) => {
                    let o = piece(&mut q, &c, s);
                    st.slots.insert("cur".into(), Box::new((c, s)));
                    st.slots.insert("nz".into(), Box::new(gi_or(rec, "nz", 0) == 1));
                    json!({"ok": true, "piece": o, "finite": q.finite})
                }
                Err(_) => json!({"ok": false}),
            }
        }
        "between" | "bycontrol" | "trim_front" | "trim_back" | "reversed" | "split_open" | "split_closed" => {
            let (cur, s) = match st.slots.get("cur").and_then(|b| b.downcast_ref::<(Curve2, f64)>()) {
                Some(x) => (x.0.clone(), x.1),
                None => return json!({"no_current": true}),
            };
            let nz = st.slots.get("nz").and_then(|b| b.downcast_ref::<bool>()).copied().unwrap_or(false);
            let lv = |key: &str| -> f64 {
                let v = gvi(rec, key);
                negz(nz, if v[1] == 1 { cur.length() - v[0] as f64 / 2.0 * s } else { v[0] as f64 / 2.0 * s })
            };
            let mut next: Option<Curve2> = None;
            let out = match op {
                "between" => { let r = cur.between_lengths(lv("l0"), lv("l1")); let o = opt_piece(&mut q, &r, s); next = r; o }
                "bycontrol" => { let r = cur.between_lengths_by_control(lv("a"), lv("b"), lv("c")); let o = opt_piece(&mut q, &r, s); next = r; o }
                "trim_front" => { let x = lv("x"); let r = cur.trim_front(x); let o = opt_piece(&mut q, &r, s); next = r; o }
                "trim_back" => { let x = lv("x"); let r = cur.trim_back(x); let o = opt_piece(&mut q, &r, s); next = r; o }
                "reversed" => { let r = Some(cur.reversed()); let o = opt_piece(&mut q, &r, s); next = r; o }
                "split_open" => {
                    match cur.split_open_at_length(lv("l")) {
                        Ok((a, b)) => { let o = json!({"some": true, "a": piece(&mut q, &a, s), "b": piece(&mut q, &b, s)}); next = Some(if gi(rec, "keep") == 1 { a } else { b }); o }
                        Err(_) => json!({"some": false}),
                    }
                }
                _ => {
                    match cur.split_closed_at_lengths(lv("l0"), lv("l1")) {
                        Ok((a, b)) => { let o = json!({"some": true, "a": piece(&mut q, &a, s), "b": piece(&mut q, &b, s)}); next = Some(if gi(rec, "keep") == 1 { a } else { b }); o }
                        Err(_) => json!({"some": false}),
                    }
                }
            };
            if let Some(n) = next {
                st.slots.insert("cur".into(), Box::new((n, s)));
            }
            json!({"r": out, "finite": q.finite})
        }
        // ---------------- C05
        "resample" => {
            let dim = gi(rec, "dim");
            let n = gi(rec, "n");
            let s = scale_of(rec);
            // spacing_div: the spacing is (length of the built curve) / n as a float - it divides the length only up to rounding
            let div_len = if gs(rec, "mode") == "spacing_div" {
                if dim == 2 { build2(rec).1.map(|c| c.length()).unwrap_or(1.0) } else { build3(rec).1.map(|c| c.length()).unwrap_or(1.0) }
            } else { 1.0 };
            let mode = match gs(rec, "mode") {
                "spacing_div" => engeom::Resample::BySpacing(div_len / n as f64),
                "count" => engeom::Resample::ByCount(n as usize),
                "spacing" => engeom::Resample::BySpacing(n as f64 / 2.0 * s),
                _ => engeom::Resample::ByMaxSpacing(n as f64 / 2.0 * s),
            };
            if dim == 2 {
                let (_, c) = build2(rec);
                let c = c.expect("root curve");
                match c.resample(mode) {
                    Ok(r) => json!({"ok": true, "verts": qptsr2(&mut q, r.points(), s), "closed": r.is_closed(), "src_closed": c.is_closed(), "finite": q.finite}),
                    Err(_) => json!({"ok": false, "finite": true}),
                }
            } else {
                let (_, c) = build3(rec);
                let c = c.expect("root curve");
                let r = c.resample(mode);
                json!({"ok": true, "verts": qptsr3(&mut q, r.points(), s), "closed": false, "src_closed": false, "finite": q.finite})
            }
        }
        "simplify" => {
            let dim = gi(rec, "dim");
            let s = scale_of(rec);
            let e = gi(rec, "e4") as f64 / 4.0 * s;
            if dim == 2 {
                let (_, c) = build2(rec);
                let c = c.expect("root curve");
                let r = c.simplify(e);
                json!({"src": qptsr2(&mut q, c.points(), s), "src_closed": c.is_closed(), "verts": qptsr2(&mut q, r.points(), s), "closed": r.is_closed(), "finite": q.finite})
            } else {
                let (_, c) = build3(rec);
                let c = c.expect("root curve");
                let r = c.simplify(e);
                json!({"src": qptsr3(&mut q, c.points(), s), "src_closed": false, "verts": qptsr3(&mut q, r.points(), s), "closed": false, "finite": q.finite})
            }
        }
        "free" => {
            // general lattice polylines (irrational edge lengths): stations inside edge i at k/8 of the edge, requested by arc length
            // computed from the curve's own length table.  Besides the quantised point, DERIVED observations that need no exact
            // arc length: u = (|d|^2 - 1) * 2^50, par = |d x e| / |e| * 2^40 (e = the lattice edge), fwd = d.e > 0,
            // res = |p - (v[idx] + fraction * edge[idx])| * 2^30 in lattice units, lares = |length_along - (L[idx] + fraction * dL)| / total * 2^40,
            // and for 2D curves nu = (|n|^2 - 1) * 2^50, nd = n.d * 2^40
            let dim = gi(rec, "dim");
            let s = scale_of(rec);
            let raw = gvvi(rec, "pts");
            let req = gvvi(rec, "req");
            let clampq = |q: &mut Q, v: f64| q.q(v.clamp(-1.0e9, 1.0e9), 1.0);
            let p50 = (2.0f64).powi(50); let p40 = (2.0f64).powi(40); let p30 = (2.0f64).powi(30);
            if dim == 2 {
                let (_, c) = build2(rec);
                let c = match c { Ok(c) => c, Err(_) => return json!({"ok": false}) };
                if c.count() != raw.len() + (if c.is_closed() && gb(rec, "fc") { 1 } else { 0 }) { return json!({"ok": true, "n": c.count(), "rows": []}); }
                let lens = c.lengths().to_vec();
                let vs = c.points().to_vec();
                let total = c.length();
                let rows: Vec<Value> = req.iter().map(|r| {
                    let (i, k) = (r[0] as usize, r[1] as f64 / 8.0);
                    let l = lens[i] + k * (lens[i + 1] - lens[i]);
                    match c.at_length(l) {
                        None => json!({"some": false}),
                        Some(st) => {
                            let (d, n, p, idx, f) = (st.direction().into_inner(), st.normal().into_inner(), st.point(), st.index(), st.fraction());
                            let e = vs[i + 1] - vs[i];
                            let ei = vs[(idx + 1).min(vs.len() - 1)] - vs[idx];
                            let back = vs[idx] + ei * f;
                            json!({"some": true, "idx": idx, "p": [q.q(p.x / s - off()[0], QP), q.q(p.y / s - off()[1], QP), 0],
                                   "u": clampq(&mut q, (d.norm_squared() - 1.0) * p50), "par": clampq(&mut q, (d.x * e.y - d.y * e.x).abs() / e.norm() * p40),
                                   "fwd": d.dot(&e) > 0.0, "res": clampq(&mut q, (p - back).norm() / s * p30),
                                   "lares": clampq(&mut q, (st.length_along() - (lens[idx] + f * (lens[(idx + 1).min(lens.len() - 1)] - lens[idx]))).abs() / total * p40),
                                   "nu": clampq(&mut q, (n.norm_squared() - 1.0) * p50), "nd": clampq(&mut q, n.dot(&d) * p40)})
                        }
                    }
                }).collect();
                json!({"ok": true, "n": c.count(), "rows": rows, "finite": q.finite})
            } else {
                let (_, c) = build3(rec);
                let c = match c { Ok(c) => c, Err(_) => return json!({"ok": false}) };
                if c.count() != raw.len() { return json!({"ok": true, "n": c.count(), "rows": []}); }
                let lens = c.lengths().to_vec();
                let vs = c.points().to_vec();
                let total = c.length();
                let rows: Vec<Value> = req.iter().map(|r| {
                    let (i, k) = (r[0] as usize, r[1] as f64 / 8.0);
                    let l = lens[i] + k * (lens[i + 1] - lens[i]);
                    match c.at_length(l) {
                        None => json!({"some": false}),
                        Some(st) => {
                            let (d, p, idx, f) = (st.direction().into_inner(), st.point(), st.index(), st.fraction());
                            let e = vs[i + 1] - vs[i];
                            let ei = vs[(idx + 1).min(vs.len() - 1)] - vs[idx];
                            let back = vs[idx] + ei * f;
                            json!({"some": true, "idx": idx, "p": [q.q(p.x / s - off()[0], QP), q.q(p.y / s - off()[1], QP), q.q(p.z / s - off()[2], QP)],
                                   "u": clampq(&mut q, (d.norm_squared() - 1.0) * p50), "par": clampq(&mut q, d.cross(&e).norm() / e.norm() * p40),
                                   "fwd": d.dot(&e) > 0.0, "res": clampq(&mut q, (p - back).norm() / s * p30),
                                   "lares": clampq(&mut q, (st.length_along() - (lens[idx] + f * (lens[(idx + 1).min(lens.len() - 1)] - lens[idx]))).abs() / total * p40),
                                   "nu": 0, "nd": 0})
                        }
                    }
                }).collect();
                json!({"ok": true, "n": c.count(), "rows": rows, "finite": q.finite})
            }
        }
        "simplify_long" => {
            // long shallow polylines: x = X * 2^kx lattice units (strictly increasing), y / z a few units; the kept vertices are
            // reported by their (1-based) position in the source listing
            let dim = gi(rec, "dim");
            let s = scale_of(rec);
            let k = (2.0f64).powi(gi(rec, "kx") as i32);
            let e = gi(rec, "e4") as f64 / 4.0 * s;
            let raw = gvvi(rec, "pts");
            let find = |x: f64| -> i64 { raw.iter().position(|p| p[0] as f64 * k * s == x).map(|i| i as i64 + 1).unwrap_or(0) };
            if dim == 2 {
                let pts: Vec<Point2> = raw.iter().map(|p| Point2::new(p[0] as f64 * k * s, p[1] as f64 * s)).collect();
                let c = Curve2::from_points(&pts, tol_of(rec, s), false).expect("root curve");
                let r = c.simplify(e);
                let keep: Vec<i64> = r.points().iter().map(|p| find(p.x)).collect();
                let same = r.points().iter().all(|p| pts.iter().any(|o| o == p));
                json!({"n_src": c.count(), "n": r.count(), "keep": keep, "verbatim": same, "closed": r.is_closed()})
            } else {
                let pts: Vec<Point3> = raw.iter().map(|p| Point3::new(p[0] as f64 * k * s, p[1] as f64 * s, p[2] as f64 * s)).collect();
                let c = Curve3::from_points(&pts, tol_of(rec, s)).expect("root curve");
                let r = c.simplify(e);
                let keep: Vec<i64> = r.points().iter().map(|p| find(p.x)).collect();
                let same = r.points().iter().all(|p| pts.iter().any(|o| o == p));
                json!({"n_src": c.count(), "n": r.count(), "keep": keep, "verbatim": same, "closed": false})
            }
        }
        "fill_gaps" => {
            let dim = gi(rec, "dim");
            let s = scale_of(rec);
            set_off(rec);
            let m = gi(rec, "m2") as f64 / 2.0 * s;
            if dim == 2 {
                let r = engeom::common::points::fill_gaps(&pts2(rec, "pts", s), m);
                json!({"verts": qptsr2(&mut q, &r, s), "finite": q.finite})
            } else {
                let r = engeom::common::points::fill_gaps(&pts3(rec, "pts", s), m);
                json!({"verts": qptsr3(&mut q, &r, s), "finite": q.finite})
            }
        }
        _ => json!({"unknown_op": true}),
    }
}
