//! C06: line / polyline intersections, spanning rays and derived answers
use crate::util::*;
use crate::State;
use engeom::common::Intersection;
use engeom::geom2::polyline2::{farthest_point_direction_distance, max_intersection, polyline_intersections, spanning_ray};
use engeom::geom2::{Curve2, Point2, SurfacePoint2, Vector2};
use parry2d_f64::query::Ray;
use parry2d_f64::shape::Polyline;
use serde_json::{json, Value};

const QT: f64 = 16384.0;
const QS: f64 = 4096.0;

pub fn exec(rec: &Value, _st: &mut State) -> Value {
    let op = gs(rec, "op");
    let mut q = Q::new();
    match op {
        "cast" => {
            let s = (2.0f64).powi(gi_or(rec, "sc", 0) as i32);
            // `off`: polyline and line origin are translated by that lattice vector (geometry far from the origin); reported points are
            // translated back, line parameters are not affected
            let (ox, oy) = match rec.get("off") { Some(_) => { let v = gvi(rec, "off"); (v[0] as f64, v[1] as f64) } None => (0.0, 0.0) };
            let pts: Vec<Point2> = gvvi(rec, "pts").iter().map(|p| Point2::new((p[0] as f64 + ox) * s, (p[1] as f64 + oy) * s)).collect();
            let line = Polyline::new(pts.clone(), None);
            // optional curve tolerance (sixteenths of a lattice unit): crossings closer together than the tolerance are still two crossings
            let ctol = match gi_or(rec, "ctol16", 0) { 0 => s / 1048576.0, k => k as f64 / 16.0 * s };
            let curve = Curve2::from_points(&pts, ctol, false).expect("curve");
            let o = gvi(rec, "o");
            let origin = Point2::new((o[0] as f64 + ox) * s, (o[1] as f64 + oy) * s);
            let mut outs = vec![];
            // nzd = 1: a zero direction component is handed over as -0.0 (what `-v`, reversed() or a half-turn make of it): the same line
            let nzd = gi_or(rec, "nzd", 0) == 1;
            let comp = |x: i64| -> f64 { if nzd && x == 0 { -0.0 } else { x as f64 } };
            for d in gvvi(rec, "dirs") {
                // direction is used unscaled: the ray parameter is then in units of s
                let dir = Vector2::new(comp(d[0]), comp(d[1]));
                let ray = Ray::new(origin, dir);
                let ints: Vec<Vec<i64>> = polyline_intersections(&line, &ray).iter().map(|(t, i)| vec![q.q(*t / s, QT), *i as i64]).collect();
                let cints: Vec<Vec<i64>> = curve.ray_intersections(&ray).iter().map(|(t, i)| vec![q.q(*t / s, QT), *i as i64]).collect();
                let sp = match spanning_ray(&line, &ray) {
                    None => json!({"some": false, "o": [0, 0], "d": [0, 0]}),
                    Some(sr) => { let r = sr.ray(); json!({"some": true, "o": [q.q(r.origin.x / s - ox, QS), q.q(r.origin.y / s - oy, QS)], "d": [q.q(r.dir.x / s, QS), q.q(r.dir.y / s, QS)]}) }
                };
                let csp = match curve.try_create_spanning_ray(&ray) {
                    None => json!({"some": false, "o": [0, 0], "d": [0, 0]}),
                    Some(sr) => { let r = sr.ray(); json!({"some": true, "o": [q.q(r.origin.x / s - ox, QS), q.q(r.origin.y / s - oy, QS)], "d": [q.q(r.dir.x / s, QS), q.q(r.dir.y / s, QS)]}) }
                };
                let mx = match max_intersection(&line, &ray) { None => json!({"some": false, "tq": 0}), Some(t) => json!({"some": true, "tq": q.q(t / s, QT)}) };
                let far = q.q(farthest_point_direction_distance(&line, &ray) / s, QT);
                // the same answer through the Curve2 route: farthest vertex in the direction, as a projected distance from the origin
                let spn0 = SurfacePoint2::new_normalize(origin, dir);
                let far_c = q.q(curve.max_dist_in_direction(&spn0) / s, QT);
                let far_p = match curve.max_point_in_direction(&dir) { Some((_, p)) => q.q(spn0.scalar_projection(&p) / s, QT), None => q.q(f64::NAN, QT) };
                // intersection of a surface point's normal line with the curve: unit direction, parameters are distances
                let spn = SurfacePoint2::new_normalize(origin, dir);
                let sints: Vec<i64> = curve.intersection(&spn).iter().map(|t| q.q(*t / s, QT)).collect();
                // the same line with a direction that went through a float rotation (quarter turn of the lattice vector (dy, -dx)):
                // the components carry errors of ~1e-17 instead of exact zeros
                let rd = engeom::geom2::Iso2::rotation(std::f64::consts::FRAC_PI_2) * Vector2::new(d[1] as f64, -(d[0] as f64));
                let rray = Ray::new(origin, rd);
                let rints: Vec<Vec<i64>> = polyline_intersections(&line, &rray).iter().map(|(t, i)| vec![q.q(*t / s, QT), *i as i64]).collect();
                outs.push(json!({"ints": ints, "cints": cints, "span": sp, "cspan": csp, "max": mx, "far": far, "far_c": far_c, "far_p": far_p, "sints": sints, "rints": rints}));
            }
            json!({"c": outs, "finite": q.finite})
        }
        "shallow" => {
            // lines nearly parallel to edges millions of units long: only the two intersection lists, parameter quantum `qt`
            let pts: Vec<Point2> = gvvi(rec, "pts").iter().map(|p| Point2::new(p[0] as f64, p[1] as f64)).collect();
            let line = Polyline::new(pts.clone(), None);
            let curve = Curve2::from_points(&pts, 1.0e-6, false).expect("curve");
            let o = gvi(rec, "o");
            let origin = Point2::new(o[0] as f64, o[1] as f64);
            let qt = gi(rec, "qt") as f64;
            let mut outs = vec![];
            for d in gvvi(rec, "dirs") {
                let ray = Ray::new(origin, Vector2::new(d[0] as f64, d[1] as f64));
                let ints: Vec<Vec<i64>> = polyline_intersections(&line, &ray).iter().map(|(t, i)| vec![q.q(*t, qt), *i as i64]).collect();
                let cints: Vec<Vec<i64>> = curve.ray_intersections(&ray).iter().map(|(t, i)| vec![q.q(*t, qt), *i as i64]).collect();
                outs.push(json!({"ints": ints, "cints": cints}));
            }
            json!({"c": outs, "finite": q.finite})
        }
        _ => json!({"unknown_op": true}),
    }
}
