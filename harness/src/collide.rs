//! Extension beyond the listed properties: geom3::MeshCollisionSet driven through a history of operations
use crate::util::*;
use crate::State;
use engeom::geom3::{Iso3, Mesh, MeshCollisionSet, Point3};
use serde_json::{json, Value};

const W: f64 = 4.0;
const BOXF: [[u32; 3]; 12] = [[4, 7, 5], [4, 6, 7], [0, 2, 4], [2, 6, 4], [0, 1, 2], [1, 3, 2], [1, 5, 7], [1, 7, 3], [2, 3, 7], [2, 7, 6], [0, 4, 1], [1, 4, 5]];

fn box_at(x: f64, o: f64) -> Mesh {
    let mut v = vec![];
    for k in 0..8 {
        let (dx, dz, dy) = ((k & 1) as f64, ((k >> 1) & 1) as f64, ((k >> 2) & 1) as f64);
        v.push(Point3::new(x + dx * W, o + dy * W, o + dz * W));
    }
    Mesh::new(v, BOXF.to_vec(), false)
}

pub fn exec(rec: &Value, _st: &mut State) -> Value {
    if gs(rec, "op") != "history" { return json!({"unknown_op": true}); }
    let mut set = MeshCollisionSet::new();
    let mut n = 0usize;
    let mut outs = vec![];
    for op in rec["ops"].as_array().unwrap() {
        match gs(op, "k") {
            "add" => {
                let m = box_at(gi(op, "x") as f64, n as f64);
                let id = if gb(op, "moving") { set.add_moving(m) } else { set.add_stationary(m) };
                n += 1;
                outs.push(json!({"id": id, "ok": true, "pairs": []}));
            }
            "exc" => { set.add_exception(gi(op, "a") as usize, gi(op, "b") as usize); outs.push(json!({"id": 0, "ok": true, "pairs": []})); }
            _ => {
                let tx: Vec<(usize, Iso3)> = gvvi(op, "tx").iter().map(|t| (t[0] as usize, Iso3::translation(t[1] as f64, 0.0, 0.0))).collect();
                match set.check_all(&tx, gb(op, "first")) {
                    Ok(p) => outs.push(json!({"id": 0, "ok": true, "pairs": p.iter().map(|(a, b)| vec![*a, *b]).collect::<Vec<_>>()})),
                    Err(_) => outs.push(json!({"id": 0, "ok": false, "pairs": []})),
                }
            }
        }
    }
    json!({"outs": outs})
}
