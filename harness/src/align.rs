//! C07: rigid alignment (points to curve / points to mesh): final result + protocol events from the cfg(engeom_verif) hooks
use crate::util::*;
use crate::State;
use engeom::common::points::mean_point;
use engeom::common::DistMode;
use engeom::geom2::align2::{points_to_curve, RcParams2};
use engeom::geom2::{Curve2, Iso2, Point2};
use engeom::geom3::align3::{points_to_mesh, RcParams3};
use engeom::geom3::{Iso3, Mesh, Point3, Vector3};
use parry3d_f64::na::{Matrix3, Rotation3, Translation3, UnitQuaternion, Vector6};
use parry2d_f64::na::{Complex, Translation2, Unit as Unit2, UnitComplex, Vector3 as V3};
use serde_json::{json, Value};

const QX: f64 = 4096.0;
const QR: f64 = 1048576.0;
const MAX_EVENTS: usize = 80;

fn disp3(t: &Value) -> Iso3 {
    let m = gvvi(t, "M");
    let h = gi(t, "H") as f64;
    let tr = gvi(t, "t");
    let td = gi(t, "tden") as f64;
    let mat = Matrix3::new(
        m[0][0] as f64 / h, m[0][1] as f64 / h, m[0][2] as f64 / h,
        m[1][0] as f64 / h, m[1][1] as f64 / h, m[1][2] as f64 / h,
        m[2][0] as f64 / h, m[2][1] as f64 / h, m[2][2] as f64 / h);
    let rot = UnitQuaternion::from_rotation_matrix(&Rotation3::from_matrix_unchecked(mat));
    Iso3::from_parts(Translation3::new(tr[0] as f64 / td, tr[1] as f64 / td, tr[2] as f64 / td), rot)
}
fn disp2(t: &Value) -> Iso2 {
    let m = gvvi(t, "M");
    let h = gi(t, "H") as f64;
    let tr = gvi(t, "t");
    let td = gi(t, "tden") as f64;
    let rot: UnitComplex<f64> = Unit2::new_unchecked(Complex::new(m[0][0] as f64 / h, m[1][0] as f64 / h));
    Iso2::from_parts(Translation2::new(tr[0] as f64 / td, tr[1] as f64 / td), rot)
}
fn floats(v: &Value) -> Vec<f64> {
    v.as_array().map(|a| a.iter().map(|x| x.as_f64().unwrap_or(f64::NAN)).collect()).unwrap_or_default()
}

pub fn exec(rec: &Value, _st: &mut State) -> Value {
    let op = gs(rec, "op");
    let mut q = Q::new();
    match op {
        "curve" => {
            let off = gvi(rec, "off");
            let pts: Vec<Point2> = gvvi(rec, "ref").iter().map(|p| Point2::new((p[0] + off[0]) as f64, (p[1] + off[1]) as f64)).collect();
            let curve = Curve2::from_points(&pts, 1e-8, true).expect("reference curve");
            let d = disp2(&rec["D"]);
            // sample coordinates are integers over `sden` (half lattice units unless stated otherwise)
            let sden = gi_or(rec, "sden", 2) as f64;
            let samples: Vec<Point2> = gvvi(rec, "samples").iter().map(|p| Point2::new(p[0] as f64 / sden + off[0] as f64, p[1] as f64 / sden + off[1] as f64)).collect();
            // the displacement acts about the part (its offset), not about the far-away origin
            let o2 = parry2d_f64::na::Vector2::new(off[0] as f64, off[1] as f64);
            let points: Vec<Point2> = samples.iter().map(|s| Point2::from(o2) + (d * Point2::from(s.coords - o2)).coords).collect();
            let guess = match gi(rec, "guess") {
                0 => Iso2::identity(),
                1 => Iso2::translation(o2.x, o2.y) * Iso2::new(parry2d_f64::na::Vector2::new(0.05, -0.03), 0.02) * Iso2::translation(-o2.x, -o2.y),
                // a pure rotation about the (possibly far away) origin: zero translation part, non-zero angle. The measured
                // points are handed over turned back by the same rotation (below), so the start is as close as with guess 0
                3 => Iso2::rotation(0.3),
                // a rotated guess about the part itself (rotation 0.05 rad about the offset point)
                _ => Iso2::translation(o2.x, o2.y) * Iso2::new(parry2d_f64::na::Vector2::new(0.02, 0.04), 0.05) * Iso2::translation(-o2.x, -o2.y),
            };
            let points: Vec<Point2> = if gi(rec, "guess") == 3 { let inv = guess.inverse(); points.iter().map(|p| inv * p).collect() } else { points };
            let derived = |t: &Iso2| -> Vec<f64> { points.iter().map(|p| { let m = t * p; curve.at_closest_to_point(&m).surface_point().scalar_projection(&m) }).collect() };
            let r0 = derived(&guess);
            let _ = engeom::verif_trace::take();
            let result = points_to_curve(&points, &curve, &guess);
            let events = engeom::verif_trace::take();
            let mp = mean_point(&points);
            let mut evs = vec![];
            let mut hook_ok = true;
            for line in events.iter().take(MAX_EVENTS) {
                let v: Value = match serde_json::from_str(line) { Ok(v) => v, Err(_) => { hook_ok = false; continue } };
                let x = floats(&v["x"]);
                let xq: Vec<i64> = x.iter().map(|a| q.q(*a, QR)).collect();
                if v["ev"] == "res" {
                    let mut prm = RcParams2::from_initial(&guess, &mp);
                    prm.set(&V3::new(x[0], x[1], x[2]));
                    let dv = derived(prm.transform());
                    let r = floats(&v["r"]);
                    evs.push(json!({"ev": "res", "x": xq, "r": q.qv(&r, QR), "d": q.qv(&dv, QR)}));
                } else {
                    evs.push(json!({"ev": v["ev"], "x": xq, "r": [], "d": []}));
                }
            }
            match result {
                Err(_) => json!({"ok": false, "nevents": events.len(), "events": evs, "hook_ok": hook_ok, "finite": q.finite}),
                Ok(al) => {
                    let t = *al.transform();
                    let moved: Vec<Vec<i64>> = points.iter().map(|p| { let m = t * p; vec![q.q(m.x, QX), q.q(m.y, QX), 0] }).collect();
                    let rep = al.residuals().to_vec();
                    let dv = derived(&t);
                    let ssq = |v: &[f64]| v.iter().map(|x| x * x).sum::<f64>();
                    json!({"ok": true, "moved": moved, "rep": q.qv(&rep, QR), "der": q.qv(&dv, QR), "ssq0": q.q(ssq(&r0), QR), "ssq1": q.q(ssq(&rep), QR),
                           "avg": q.q(al.avg_residual(), QR), "nevents": events.len(), "events": evs, "hook_ok": hook_ok, "finite": q.finite})
                }
            }
        }
        "mesh" => {
            // optional power-of-two scale `msc` of the whole problem (mesh, samples, displacement, offset); every length that is
            // reported is divided by it again, so the judge works in lattice units
            let ms = (2.0f64).powi(gi_or(rec, "msc", 0) as i32);
            let off = gvi(rec, "off");
            let o3 = Vector3::new(off[0] as f64, off[1] as f64, off[2] as f64) * ms;
            let verts: Vec<Point3> = gvvi(rec, "vpos").iter().map(|p| Point3::new(p[0] as f64 * ms, p[1] as f64 * ms, p[2] as f64 * ms) + o3).collect();
            let faces: Vec<[u32; 3]> = gvvi(rec, "faces").iter().map(|f| [f[0] as u32, f[1] as u32, f[2] as u32]).collect();
            let mesh = Mesh::new(verts, faces, false);
            let mut d = disp3(&rec["D"]);
            d.translation.vector *= ms;
            let samples: Vec<Point3> = gvvi(rec, "samples").iter().map(|p| Point3::new(p[0] as f64 / 2.0 * ms, p[1] as f64 / 2.0 * ms, p[2] as f64 / 2.0 * ms) + o3).collect();
            let points: Vec<Point3> = samples.iter().map(|s| Point3::from(o3) + (d * Point3::from(s.coords - o3)).coords).collect();
            let plane = gs(rec, "mode") == "plane";
            // optional large pre-rotation S about the part (axis swaps, incl. pitch of -90 / +90 degrees): the measured points
            // are handed over in a frame turned by S^-1 and S is the starting guess, so the start is as close as without it
            let swap = {
                use parry3d_f64::na::{Matrix3, Rotation3, UnitQuaternion, Translation3};
                let m = match gi_or(rec, "swap", 0) {
                    1 => Some(Matrix3::new(0.0, 0.0, -1.0, 1.0, 0.0, 0.0, 0.0, -1.0, 0.0)),
                    2 => Some(Matrix3::new(0.0, 0.0, 1.0, 1.0, 0.0, 0.0, 0.0, 1.0, 0.0)),
                    3 => Some(Matrix3::new(1.0, 0.0, 0.0, 0.0, -1.0, 0.0, 0.0, 0.0, -1.0)),
                    4 => Some(Matrix3::new(0.0, -1.0, 0.0, 1.0, 0.0, 0.0, 0.0, 0.0, 1.0)),
                    _ => None,
                };
                m.map(|m| { let r = UnitQuaternion::from_rotation_matrix(&Rotation3::from_matrix_unchecked(m));
                    Iso3::from_parts(Translation3::from(o3), parry3d_f64::na::UnitQuaternion::identity()) * Iso3::from_parts(Translation3::identity(), r) * Iso3::translation(-o3.x, -o3.y, -o3.z) })
            };
            let points: Vec<Point3> = match &swap { None => points, Some(sw) => { let inv = sw.inverse(); points.iter().map(|p| inv * p).collect() } };
            let guess = swap.unwrap_or(Iso3::identity());
            let derived = |t: &Iso3| -> Vec<f64> { points.iter().map(|p| { let m = t * p; let sp = mesh.surf_closest_to(&m);
                (if plane { sp.scalar_projection(&m).abs() } else { (m - sp.point).norm() }) / ms }).collect() };
            let r0 = derived(&guess);
            let _ = engeom::verif_trace::take();
            let result = points_to_mesh(&points, &mesh, &guess, if plane { DistMode::ToPlane } else { DistMode::ToPoint });
            let events = engeom::verif_trace::take();
            let mp = mean_point(&points);
            let mut evs = vec![];
            let mut hook_ok = true;
            for line in events.iter().take(MAX_EVENTS) {
                let v: Value = match serde_json::from_str(line) { Ok(v) => v, Err(_) => { hook_ok = false; continue } };
                let x = floats(&v["x"]);
                let xq: Vec<i64> = x.iter().map(|a| q.q(*a, QR)).collect();
                if v["ev"] == "res" {
                    let mut prm = RcParams3::from_initial(&guess, &mp);
                    prm.set(&Vector6::new(x[0], x[1], x[2], x[3], x[4], x[5]));
                    let dv = derived(prm.transform());
                    let r: Vec<f64> = floats(&v["r"]).iter().map(|x| x / ms).collect();
                    evs.push(json!({"ev": "res", "x": xq, "r": q.qv(&r, QR), "d": q.qv(&dv, QR)}));
                } else {
                    evs.push(json!({"ev": v["ev"], "x": xq, "r": [], "d": []}));
                }
            }
            let _ = Vector3::zeros();
            match result {
                Err(_) => json!({"ok": false, "nevents": events.len(), "events": evs, "hook_ok": hook_ok, "finite": q.finite}),
                Ok(al) => {
                    let t = *al.transform();
                    let moved: Vec<Vec<i64>> = points.iter().map(|p| { let m = t * p; vec![q.q(m.x / ms, QX), q.q(m.y / ms, QX), q.q(m.z / ms, QX)] }).collect();
                    let rep: Vec<f64> = al.residuals().iter().map(|x| x / ms).collect();
                    let dv = derived(&t);
                    let ssq = |v: &[f64]| v.iter().map(|x| x * x).sum::<f64>();
                    json!({"ok": true, "moved": moved, "rep": q.qv(&rep, QR), "der": q.qv(&dv, QR), "ssq0": q.q(ssq(&r0), QR), "ssq1": q.q(ssq(&rep), QR),
                           "avg": q.q(al.avg_residual() / ms, QR), "nevents": events.len(), "events": evs, "hook_ok": hook_ok, "finite": q.finite})
                }
            }
        }
        _ => json!({"unknown_op": true}),
    }
}
