//! C03: the same measurement before and after an exact rigid motion T (projection only)
use crate::util::*;
use crate::State;
use engeom::common::TransformBy;
use engeom::geom2::{Curve2, Iso2, Line2, Point2, Segment2, SurfacePoint2, Vector2};
use engeom::geom3::{Curve3, Iso3, Mesh, Plane3, Point3, PointCloud, PointCloudFeatures, SurfacePoint3, UnitVec3, Vector3};
use engeom::metrology::{Distance2, Distance3, Measurement};
use parry3d_f64::na::{Matrix3, Rotation3, Translation3, UnitQuaternion};
use parry2d_f64::na::{Complex, Translation2, Unit as Unit2, UnitComplex};
use serde_json::{json, Value};

const QX: f64 = 4096.0;
const QN: f64 = 8192.0;
const QS: f64 = 4096.0;

fn iso3(t: &Value) -> Iso3 {
    let m = gvvi(t, "M");
    let h = gi(t, "H") as f64;
    let tr = gvi(t, "t");
    let mat = Matrix3::new(
        m[0][0] as f64 / h, m[0][1] as f64 / h, m[0][2] as f64 / h,
        m[1][0] as f64 / h, m[1][1] as f64 / h, m[1][2] as f64 / h,
        m[2][0] as f64 / h, m[2][1] as f64 / h, m[2][2] as f64 / h);
    let rot = UnitQuaternion::from_rotation_matrix(&Rotation3::from_matrix_unchecked(mat));
    Iso3::from_parts(Translation3::new(tr[0] as f64, tr[1] as f64, tr[2] as f64), rot)
}
fn iso2(t: &Value) -> Iso2 {
    let m = gvvi(t, "M");
    let h = gi(t, "H") as f64;
    let tr = gvi(t, "t");
    let rot: UnitComplex<f64> = Unit2::new_unchecked(Complex::new(m[0][0] as f64 / h, m[1][0] as f64 / h));
    Iso2::from_parts(Translation2::new(tr[0] as f64, tr[1] as f64), rot)
}
fn p2(v: &[i64]) -> Point2 { Point2::new(v[0] as f64, v[1] as f64) }
fn p3(v: &[i64]) -> Point3 { Point3::new(v[0] as f64, v[1] as f64, v[2] as f64) }
fn qp2(q: &mut Q, p: &Point2) -> Vec<i64> { vec![q.q(p.x, QX), q.q(p.y, QX), 0] }
fn qp3(q: &mut Q, p: &Point3) -> Vec<i64> { vec![q.q(p.x, QX), q.q(p.y, QX), q.q(p.z, QX)] }
fn qn2(q: &mut Q, v: &Vector2) -> Vec<i64> { vec![q.q(v.x, QN), q.q(v.y, QN), 0] }
fn qn3(q: &mut Q, v: &Vector3) -> Vec<i64> { vec![q.q(v.x, QN), q.q(v.y, QN), q.q(v.z, QN)] }

/// relative difference of two scalars, times 2^30, clamped (1e9 when the first is zero and the second is not)
fn rel30(a: f64, b: f64) -> i64 {
    if !(a.is_finite() && b.is_finite()) { return 2_000_000_000; }
    if a == b { return 0; }
    if a == 0.0 { return 1_000_000_000; }
    (((b - a) / a.abs()) * 1073741824.0).round().clamp(-1.0e9, 1.0e9) as i64
}
fn sp2_meas(q: &mut Q, sp: &SurfacePoint2, p: &Point2) -> Value {
    json!({"proj": q.q(sp.scalar_projection(p), QS), "planar": q.q(sp.planar_distance(p), QS),
           "pp": qp2(q, &sp.projection(p)), "at": qp2(q, &sp.at_distance(2.0))})
}
fn sp3_meas(q: &mut Q, sp: &SurfacePoint3, pl: &Plane3, p: &Point3) -> Value {
    json!({"proj": q.q(sp.scalar_projection(p), QS), "planar": q.q(sp.planar_distance(p), QS),
           "pp": qp3(q, &sp.projection(p)), "at": qp3(q, &sp.at_distance(2.0)),
           "sd": q.q(pl.signed_distance_to_point(p), QS), "pd": q.q(pl.distance_to_point(p), QS), "plp": qp3(q, &pl.project_point(p))})
}

pub fn exec(rec: &Value, _st: &mut State) -> Value {
    let op = gs(rec, "op");
    let dim = gi(rec, "dim");
    let mut q = Q::new();
    let tv = &rec["T"];
    match (op, dim) {
        ("sp", 2) => {
            let t = iso2(tv);
            let sp = SurfacePoint2::new_normalize(p2(&gvi(rec, "p")), Vector2::new(gvi(rec, "n")[0] as f64, gvi(rec, "n")[1] as f64));
            let a = &t * sp;
            let b = sp.transformed(&t);
            let qs = gvvi(rec, "qs");
            let m0: Vec<Value> = qs.iter().map(|x| sp2_meas(&mut q, &sp, &p2(x))).collect();
            let m1: Vec<Value> = qs.iter().map(|x| sp2_meas(&mut q, &a, &(t * p2(x)))).collect();
            // far queries [k, ex, ey, _]: the point p + k * n + e, far along the normal and barely off it; the two scalars are compared
            // between the frames as RELATIVE differences * 2^30 (derived observation: the absolute quantum would hide them)
            let nv = Vector2::new(gvi(rec, "n")[0] as f64, gvi(rec, "n")[1] as f64);
            let far: Vec<Value> = match rec.get("far") { None => vec![], Some(_) => gvvi(rec, "far").iter().map(|f| {
                let x = sp.point + nv * f[0] as f64 + Vector2::new(f[1] as f64, f[2] as f64) * 0.5;
                let y = t * x;
                json!({"planar": rel30(sp.planar_distance(&x), a.planar_distance(&y)), "proj": rel30(sp.scalar_projection(&x), a.scalar_projection(&y))})
            }).collect() };
            json!({"e0": {"p": qp2(&mut q, &sp.point), "n": qn2(&mut q, &sp.normal)},
                   "e1": {"p": qp2(&mut q, &a.point), "n": qn2(&mut q, &a.normal)},
                   "e1b": {"p": qp2(&mut q, &b.point), "n": qn2(&mut q, &b.normal)}, "m0": m0, "m1": m1, "far": far, "finite": q.finite})
        }
        ("sp", 3) => {
            let t = iso3(tv);
            let n = gvi(rec, "n");
            let sp = SurfacePoint3::new_normalize(p3(&gvi(rec, "p")), Vector3::new(n[0] as f64, n[1] as f64, n[2] as f64));
            let a = &t * sp;
            let b = sp.transformed(&t);
            let pl0 = Plane3::from(&sp);
            let pl1 = pl0.transform_by(&t);
            let qs = gvvi(rec, "qs");
            let m0: Vec<Value> = qs.iter().map(|x| sp3_meas(&mut q, &sp, &pl0, &p3(x))).collect();
            let m1: Vec<Value> = qs.iter().map(|x| sp3_meas(&mut q, &a, &pl1, &(t * p3(x)))).collect();
            let nv = Vector3::new(n[0] as f64, n[1] as f64, n[2] as f64);
            let far: Vec<Value> = match rec.get("far") { None => vec![], Some(_) => gvvi(rec, "far").iter().map(|f| {
                let x = sp.point + nv * f[0] as f64 + Vector3::new(f[1] as f64, f[2] as f64, f[3] as f64) * 0.5;
                let y = t * x;
                json!({"planar": rel30(sp.planar_distance(&x), a.planar_distance(&y)), "proj": rel30(sp.scalar_projection(&x), a.scalar_projection(&y))})
            }).collect() };
            json!({"e0": {"p": qp3(&mut q, &sp.point), "n": qn3(&mut q, &sp.normal)},
                   "e1": {"p": qp3(&mut q, &a.point), "n": qn3(&mut q, &a.normal)},
                   "e1b": {"p": qp3(&mut q, &b.point), "n": qn3(&mut q, &b.normal)},
                   "pl0": {"n": qn3(&mut q, &pl0.normal), "d": q.q(pl0.d, QS)}, "pl1": {"n": qn3(&mut q, &pl1.normal), "d": q.q(pl1.d, QS)},
                   "m0": m0, "m1": m1, "far": far, "finite": q.finite})
        }
        ("curve", 2) => {
            let t = iso2(tv);
            let t2 = iso2(&rec["T2"]);
            let pts: Vec<Point2> = gvvi(rec, "pts").iter().map(|x| p2(x)).collect();
            let tol = match gi_or(rec, "tol16", 0) { 0 => 1e-6, k => k as f64 / 16.0 };
            let c = Curve2::from_points(&pts, tol, gb(rec, "fc")).expect("curve");
            let c1 = c.transformed_by(&t);
            let back = c1.transformed_by(&t.inverse());
            let seq = c1.transformed_by(&t2);
            let comp = c.transformed_by(&(t2 * t));
            let desc = |q: &mut Q, c: &Curve2| json!({"verts": c.points().iter().map(|p| qp2(q, p)).collect::<Vec<_>>(), "len": q.q(c.length(), QS), "closed": c.is_closed(), "n": c.count(), "tolq": q.q(c.tol(), 1.0e9)});
            let st = |q: &mut Q, c: &Curve2, l2: i64| match c.at_length((l2 as f64 / 2.0).min(c.length())) { None => json!({"some": false, "p": [0,0,0], "d": [0,0,0]}), Some(s) => json!({"some": true, "p": qp2(q, &s.point()), "d": qn2(q, &s.direction())}) };
            let ls = gvi(rec, "ls");
            let qs = gvvi(rec, "qs");
            let s0: Vec<Value> = ls.iter().map(|l| st(&mut q, &c, *l)).collect();
            let s1: Vec<Value> = ls.iter().map(|l| st(&mut q, &c1, *l)).collect();
            let cl = |q: &mut Q, c: &Curve2, p: &Point2| { let s = c.at_closest_to_point(p); json!({"p": qp2(q, &s.point()), "dist": q.q(c.dist_to_point(p), QS)}) };
            let c0: Vec<Value> = qs.iter().map(|x| cl(&mut q, &c, &p2(x))).collect();
            let cc1: Vec<Value> = qs.iter().map(|x| cl(&mut q, &c1, &(t * p2(x)))).collect();
            json!({"e0": desc(&mut q, &c), "e1": desc(&mut q, &c1), "back": desc(&mut q, &back), "seq": desc(&mut q, &seq), "comp": desc(&mut q, &comp),
                   "s0": s0, "s1": s1, "c0": c0, "c1": cc1, "finite": q.finite})
        }
        ("curve", 3) => {
            let t = iso3(tv);
            let t2 = iso3(&rec["T2"]);
            let pts: Vec<Point3> = gvvi(rec, "pts").iter().map(|x| p3(x)).collect();
            let tol = match gi_or(rec, "tol16", 0) { 0 => 1e-6, k => k as f64 / 16.0 };
            let c = Curve3::from_points(&pts, tol).expect("curve");
            let c1 = c.transformed_by(&t);
            let back = c1.transformed_by(&t.inverse());
            let seq = c1.transformed_by(&t2);
            let comp = c.transformed_by(&(t2 * t));
            let desc = |q: &mut Q, c: &Curve3| json!({"verts": c.points().iter().map(|p| qp3(q, p)).collect::<Vec<_>>(), "len": q.q(c.length(), QS), "closed": false, "n": c.count(), "tolq": q.q(c.tol(), 1.0e9)});
            let st = |q: &mut Q, c: &Curve3, l2: i64| match c.at_length((l2 as f64 / 2.0).min(c.length())) { None => json!({"some": false, "p": [0,0,0], "d": [0,0,0]}), Some(s) => json!({"some": true, "p": qp3(q, &s.point()), "d": qn3(q, &s.direction())}) };
            let ls = gvi(rec, "ls");
            let qs = gvvi(rec, "qs");
            let s0: Vec<Value> = ls.iter().map(|l| st(&mut q, &c, *l)).collect();
            let s1: Vec<Value> = ls.iter().map(|l| st(&mut q, &c1, *l)).collect();
            let cl = |q: &mut Q, c: &Curve3, p: &Point3| { let s = c.at_closest_to_point(p); json!({"p": qp3(q, &s.point()), "dist": q.q(c.dist_to_point(p), QS)}) };
            let c0: Vec<Value> = qs.iter().map(|x| cl(&mut q, &c, &p3(x))).collect();
            let cc1: Vec<Value> = qs.iter().map(|x| cl(&mut q, &c1, &(t * p3(x)))).collect();
            json!({"e0": desc(&mut q, &c), "e1": desc(&mut q, &c1), "back": desc(&mut q, &back), "seq": desc(&mut q, &seq), "comp": desc(&mut q, &comp),
                   "s0": s0, "s1": s1, "c0": c0, "c1": cc1, "finite": q.finite})
        }
        ("dev2", _) => {
            // signed 2D profile deviations (metrology::line_profiles) of measured points, in three frames: as given, moved by T,
            // moved by T2 * T (the nominal curve is moved by the library, the measured points by nalgebra)
            let t = iso2(tv);
            let t2 = iso2(&rec["T2"]);
            let pts: Vec<Point2> = gvvi(rec, "pts").iter().map(|x| p2(x)).collect();
            let c = Curve2::from_points(&pts, 1e-6, gb(rec, "fc")).expect("curve");
            let c1 = c.transformed_by(&t);
            let c2 = c1.transformed_by(&t2);
            let ms: Vec<Point2> = gvvi(rec, "qs").iter().map(|x| p2(x) * 0.5).collect();
            let devs = |q: &mut Q, c: &Curve2, ms: &[Point2]| -> Vec<Value> {
                let set = engeom::metrology::line_profiles::line_surface_deviations(c, ms, None);
                set.iter().map(|d| json!({"v": q.q(d.deviation, QS), "p": qp2(q, &d.surface.point), "n": qn2(q, &d.surface.normal.into_inner())})).collect()
            };
            let m1: Vec<Point2> = ms.iter().map(|p| t * p).collect();
            let m2: Vec<Point2> = m1.iter().map(|p| t2 * p).collect();
            let f0 = devs(&mut q, &c, &ms);
            let f1 = devs(&mut q, &c1, &m1);
            let f2 = devs(&mut q, &c2, &m2);
            json!({"f0": f0, "f1": f1, "f2": f2, "finite": q.finite})
        }
        ("seg", _) => {
            let t = iso2(tv);
            let s0 = Segment2::try_new(p2(&gvi(rec, "a")), p2(&gvi(rec, "b"))).expect("segment");
            let s1 = s0.transform_by(&t);
            let qs = gvvi(rec, "qs");
            let m0: Vec<Value> = qs.iter().map(|x| { let p = p2(x); json!({"par": q.q(s0.projected_parameter(&p), QS), "pp": qp2(&mut q, &s0.projected_point(&p)), "on": s0.is_on(&s0.projected_point(&p))}) }).collect();
            let m1: Vec<Value> = qs.iter().map(|x| { let p = t * p2(x); json!({"par": q.q(s1.projected_parameter(&p), QS), "pp": qp2(&mut q, &s1.projected_point(&p)), "on": s1.is_on(&s1.projected_point(&p))}) }).collect();
            json!({"a0": qp2(&mut q, &s0.a), "b0": qp2(&mut q, &s0.b), "a1": qp2(&mut q, &s1.a), "b1": qp2(&mut q, &s1.b), "m0": m0, "m1": m1, "finite": q.finite})
        }
        ("mesh", _) => {
            let t = iso3(tv);
            let verts: Vec<Point3> = gvvi(rec, "vpos").iter().map(|x| p3(x)).collect();
            let faces: Vec<[u32; 3]> = gvvi(rec, "faces").iter().map(|f| [f[0] as u32, f[1] as u32, f[2] as u32]).collect();
            let m0 = Mesh::new(verts, faces, false);
            // derived data of the mesh is queried BEFORE the copy is made and moved (the same object is queried again afterwards)
            let vn0: Vec<Vec<i64>> = m0.get_vertex_normals().iter().map(|n| qn3(&mut q, n)).collect();
            let fn0: Vec<Vec<i64>> = m0.get_face_normals().map(|v| v.iter().map(|n| qn3(&mut q, &n.into_inner())).collect()).unwrap_or_default();
            let mut m1 = m0.clone();
            m1.transform(&t);
            let vn1: Vec<Vec<i64>> = m1.get_vertex_normals().iter().map(|n| qn3(&mut q, n)).collect();
            let fn1: Vec<Vec<i64>> = m1.get_face_normals().map(|v| v.iter().map(|n| qn3(&mut q, &n.into_inner())).collect()).unwrap_or_default();
            let qs = gvvi(rec, "qs");
            // queries on the half lattice (doubled coordinates)
            let cl = |q: &mut Q, m: &Mesh, p: &Point3| { let s = m.surf_closest_to(p); json!({"p": qp3(q, &s.point), "n": qn3(q, &s.normal), "dist": q.q((p - s.point).norm(), QS)}) };
            let c0: Vec<Value> = qs.iter().map(|x| cl(&mut q, &m0, &(p3(x) * 0.5))).collect();
            let c1: Vec<Value> = qs.iter().map(|x| cl(&mut q, &m1, &(t * (p3(x) * 0.5)))).collect();
            json!({"v0": m0.vertices().iter().map(|p| qp3(&mut q, p)).collect::<Vec<_>>(), "v1": m1.vertices().iter().map(|p| qp3(&mut q, p)).collect::<Vec<_>>(),
                   "f0": m0.faces(), "f1": m1.faces(), "c0": c0, "c1": c1, "vn0": vn0, "vn1": vn1, "fn0": fn0, "fn1": fn1, "finite": q.finite})
        }
        ("meshopt", _) => {
            // the optional `transform` argument of the tolerance queries, and deviations, against moving query and mesh by hand
            let t = iso3(tv);
            let verts: Vec<Point3> = gvvi(rec, "vpos").iter().map(|x| p3(x)).collect();
            let faces: Vec<[u32; 3]> = gvvi(rec, "faces").iter().map(|f| [f[0] as u32, f[1] as u32, f[2] as u32]).collect();
            let uvp: Vec<Point2> = gvvi(rec, "uv").iter().map(|x| p2(x)).collect();
            let uv = engeom::geom3::UvMapping::new(uvp, faces.clone()).expect("uv");
            let m0 = Mesh::new_with_uv(verts, faces, false, Some(uv));
            let mut m1 = m0.clone();
            m1.transform(&t);
            let md = gi(rec, "md16") as f64 / 16.0;
            let ang = gi(rec, "ang16") as f64 / 16.0;
            let qs: Vec<Point3> = gvvi(rec, "qs").iter().map(|x| p3(x) * 0.5).collect();
            let tinv = t.inverse();
            let qb: Vec<Point3> = qs.iter().map(|x| tinv * x).collect();     // the queries expressed in the other frame
            let qm: Vec<Point3> = qs.iter().map(|x| t * x).collect();        // the queries moved along with the mesh
            let uvd = |q: &mut Q, r: Option<(Point2, f64)>| match r { None => json!({"some": false, "uv": [0,0,0], "depth": 0}), Some((u, d)) => json!({"some": true, "uv": qp2(q, &u), "depth": q.q(d, QS)}) };
            let prj = |q: &mut Q, r: Option<(parry3d_f64::query::PointProjection, u32, parry3d_f64::shape::TrianglePointLocation)>| match r { None => json!({"some": false, "p": [0,0,0], "id": 0}), Some((pp, id, _)) => json!({"some": true, "p": qp3(q, &pp.point), "id": id}) };
            let dv = |q: &mut Q, m: &Mesh, p: &Point3| { let a = m.measure_point_deviation(p, engeom::common::DistMode::ToPoint); let b = m.measure_point_deviation(p, engeom::common::DistMode::ToPlane); json!({"pt": q.q(a.value(), QS), "pl": q.q(b.value(), QS), "a": qp3(q, &a.a), "b": qp3(q, &a.b)}) };
            let mut rows = vec![];
            for j in 0..qs.len() {
                rows.push(json!({
                    "u0": uvd(&mut q, m0.uv_with_tol(&qs[j], md, ang, None)),
                    "u1": uvd(&mut q, m0.uv_with_tol(&qb[j], md, ang, Some(&t))),
                    "u2": uvd(&mut q, m1.uv_with_tol(&qm[j], md, ang, None)),
                    "p0": prj(&mut q, m0.project_with_tol(&qs[j], md, ang, None)),
                    "p1": prj(&mut q, m0.project_with_tol(&qb[j], md, ang, Some(&t))),
                    "p2": prj(&mut q, m1.project_with_tol(&qm[j], md, ang, None)),
                    "d0": dv(&mut q, &m0, &qs[j]), "d2": dv(&mut q, &m1, &qm[j]),
                }));
            }
            let i0 = m0.indices_in_tol(&qs, md, ang, None);
            let i1 = m0.indices_in_tol(&qb, md, ang, Some(&t));
            let i2 = m1.indices_in_tol(&qm, md, ang, None);
            json!({"rows": rows, "i0": i0, "i1": i1, "i2": i2, "finite": q.finite})
        }
        ("ccw", _) => {
            // a counter-clockwise outline built from moved points is the moved outline
            let t = iso2(tv);
            let pts: Vec<Point2> = gvvi(rec, "pts").iter().map(|x| p2(x)).collect();
            let moved: Vec<Point2> = pts.iter().map(|p| t * p).collect();
            let fc = gb(rec, "fc");
            let desc = |q: &mut Q, c: &engeom::Result<Curve2>| match c { Err(_) => json!({"ok": false, "verts": [], "closed": false}), Ok(c) => json!({"ok": true, "verts": c.points().iter().map(|p| qp2(q, p)).collect::<Vec<_>>(), "closed": c.is_closed()}) };
            let c0 = Curve2::from_points_ccw(&pts, 1e-6, fc);
            let c1 = Curve2::from_points_ccw(&moved, 1e-6, fc);
            let g0 = engeom::common::points::transform_points(&pts, &t);
            json!({"e0": desc(&mut q, &c0), "e1": desc(&mut q, &c1), "g0": g0.iter().map(|p| qp2(&mut q, p)).collect::<Vec<_>>(),
                   "in": pts.iter().map(|p| qp2(&mut q, p)).collect::<Vec<_>>(), "finite": q.finite})
        }
        ("cloud", _) => {
            let t = iso3(tv);
            let pts: Vec<Point3> = gvvi(rec, "pts").iter().map(|x| p3(x)).collect();
            let ns: Vec<UnitVec3> = gvvi(rec, "ns").iter().map(|n| UnitVec3::new_normalize(Vector3::new(n[0] as f64, n[1] as f64, n[2] as f64))).collect();
            let c0 = PointCloud::try_new(pts.clone(), Some(ns), None).expect("cloud");
            let mut c1 = PointCloud::try_new(c0.points().to_vec(), c0.normals().map(|n| n.to_vec()), None).expect("cloud");
            c1.transform(&t);
            let moved: Vec<Point3> = (&pts).transform_by(&t);
            json!({"p0": c0.points().iter().map(|p| qp3(&mut q, p)).collect::<Vec<_>>(), "n0": c0.normals().unwrap().iter().map(|n| qn3(&mut q, n)).collect::<Vec<_>>(),
                   "p1": c1.points().iter().map(|p| qp3(&mut q, p)).collect::<Vec<_>>(), "n1": c1.normals().unwrap().iter().map(|n| qn3(&mut q, n)).collect::<Vec<_>>(),
                   "pm": moved.iter().map(|p| qp3(&mut q, p)).collect::<Vec<_>>(), "finite": q.finite})
        }
        ("dist", _) => {
            let t3 = iso3(tv);
            let n = gvi(rec, "n");
            let d2 = Distance2::new(p2(&gvi(rec, "a")), p2(&gvi(rec, "b")), Some(engeom::geom2::UnitVec2::new_normalize(Vector2::new(n[0] as f64, n[1] as f64))));
            let d3 = d2.to_3d(&t3);
            let a = gvi(rec, "a"); let b = gvi(rec, "b");
            let d3flat = Distance3::new(Point3::new(a[0] as f64, a[1] as f64, 0.0), Point3::new(b[0] as f64, b[1] as f64, 0.0), Some(UnitVec3::new_normalize(Vector3::new(n[0] as f64, n[1] as f64, 0.0))));
            let back = d3flat.to_2d(&t3);
            let r = d2.reversed();
            json!({"v2": q.q(d2.value(), QS), "a2": qp2(&mut q, &d2.a), "b2": qp2(&mut q, &d2.b), "n2": qn2(&mut q, &d2.direction),
                   "v3": q.q(d3.value(), QS), "a3": qp3(&mut q, &d3.a), "b3": qp3(&mut q, &d3.b), "n3": qn3(&mut q, &d3.direction),
                   "vb": q.q(back.value(), QS), "ab": qp2(&mut q, &back.a), "bb": qp2(&mut q, &back.b), "nb": qn2(&mut q, &back.direction),
                   "vr": q.q(r.value(), QS), "finite": q.finite})
        }
        _ => json!({"unknown_op": true}),
    }
}
