//! C20: conformal flattening (boundary_first_flatten) and the UV round trip (watchdog records)
use crate::util::*;
use crate::State;
use engeom::geom2::Point2;
use engeom::geom3::{Iso3, Mesh, Point3, UvMapping};
use parry3d_f64::na::{Matrix3, Rotation3, Translation3, UnitQuaternion};
use serde_json::{json, Value};

const QU: f64 = 4096.0;
const QX: f64 = 4096.0;
const QN: f64 = 8192.0;

fn iso3(t: &Value) -> Iso3 {
    let m = gvvi(t, "M");
    let h = gi(t, "H") as f64;
    let tr = gvi(t, "t");
    let mat = Matrix3::new(
        m[0][0] as f64 / h, m[0][1] as f64 / h, m[0][2] as f64 / h,
        m[1][0] as f64 / h, m[1][1] as f64 / h, m[1][2] as f64 / h,
        m[2][0] as f64 / h, m[2][1] as f64 / h, m[2][2] as f64 / h);
    let rot = UnitQuaternion::from_rotation_matrix(&Rotation3::from_matrix_unchecked(mat));
    Iso3::from_parts(Translation3::new(tr[0] as f64, tr[1] as f64, tr[2] as f64), rot)
}

fn flatten(q: &mut Q, verts: &[Point3], faces: &[[u32; 3]], t: &Iso3, s: f64, far: &parry3d_f64::na::Vector3<f64>) -> Value {
    // the posed disk, carried `far` lattice units further from the origin, scaled by the power of two s; uv is reported in lattice units
    let moved: Vec<Point3> = verts.iter().map(|p| Point3::from(((t * p).coords + far) * s)).collect();
    let mesh = Mesh::new(moved, faces.to_vec(), false);
    let edges = match mesh.calc_edges() { Ok(e) => e, Err(_) => return json!({"ok": false, "stage": "edges", "uv": []}) };
    match edges.boundary_first_flatten() {
        Err(_) => json!({"ok": false, "stage": "flatten", "uv": []}),
        Ok(uv) => {
            let mut qq = Q::new();
            let v: Vec<Vec<i64>> = uv.iter().map(|p| vec![qq.q(p.x / s, QU), qq.q(p.y / s, QU)]).collect();
            if !qq.finite { q.finite = false; }
            json!({"ok": true, "stage": "done", "uv": v, "finite": qq.finite})
        }
    }
}

pub fn exec(rec: &Value, _st: &mut State) -> Value {
    let op = gs(rec, "op");
    let mut q = Q::new();
    let ms = &rec["mesh"];
    let verts: Vec<Point3> = gvvi(ms, "vpos").iter().map(|p| Point3::new(p[0] as f64, p[1] as f64, p[2] as f64)).collect();
    let faces: Vec<[u32; 3]> = gvvi(ms, "faces").iter().map(|f| [f[0] as u32, f[1] as u32, f[2] as u32]).collect();
    let t = iso3(&rec["T"]);
    match op {
        "flatten" => {
            let t2 = iso3(&rec["T2"]);
            let s = (2.0f64).powi(gi_or(rec, "sc", 0) as i32);
            let far = match rec.get("far") { Some(_) => { let f = gvi(rec, "far"); parry3d_f64::na::Vector3::new(f[0] as f64, f[1] as f64, f[2] as f64) } None => parry3d_f64::na::Vector3::zeros() };
            let a = flatten(&mut q, &verts, &faces, &t, s, &far);
            let b = flatten(&mut q, &verts, &faces, &t2, s, &(-far));
            json!({"a": a, "b": b})
        }
        "uv" => {
            // planar lattice disk posed by T; its uv map is the lattice (x, y) itself
            // `uvflip`: the map is stored with v pointing down, (x, -y) - every uv triangle is then clockwise; the
            // observations are reported with v turned back so that the judge sees the same relation
            let fl = if gi_or(rec, "uvflip", 0) == 1 { -1.0 } else { 1.0 };
            let uvv: Vec<Point2> = verts.iter().map(|p| Point2::new(p.x, fl * p.y)).collect();
            let map = match UvMapping::new(uvv.clone(), faces.clone()) { Ok(m) => m, Err(_) => return json!({"ok": false}) };
            let moved: Vec<Point3> = verts.iter().map(|p| t * p).collect();
            // `ctor` = 1: the other constructor that accepts a uv map (no merging, no deletion of degenerate faces)
            let mesh = if gi_or(rec, "ctor", 0) == 1 {
                match Mesh::new_with_options(moved.clone(), faces.clone(), false, false, false, Some(map)) { Ok(m) => m, Err(_) => return json!({"ok": false}) }
            } else {
                Mesh::new_with_uv(moved.clone(), faces.clone(), false, Some(map))
            };
            // probe points: rational barycentric combinations on every face (sixths)
            // (edge points off the midpoints as well: a midpoint hides an exchange of the two end weights)
            let bcs: [[i64; 3]; 13] = [[2, 2, 2], [3, 3, 0], [0, 3, 3], [3, 0, 3], [6, 0, 0], [4, 1, 1], [1, 1, 4],
                                       [4, 2, 0], [1, 5, 0], [0, 4, 2], [0, 1, 5], [2, 0, 4], [5, 0, 1]];
            let mut probes = vec![];
            for (k, f) in faces.iter().enumerate() {
                for bc in bcs.iter() {
                    let w = [bc[0] as f64 / 6.0, bc[1] as f64 / 6.0, bc[2] as f64 / 6.0];
                    let uv = Point2::from(uvv[f[0] as usize].coords * w[0] + uvv[f[1] as usize].coords * w[1] + uvv[f[2] as usize].coords * w[2]);
                    let p3 = mesh.uv_to_3d(&uv);
                    let mut back_t = json!({"some": false, "uv": [0,0], "depth": 0});
                    let (to3, back) = match p3 {
                        None => (json!({"some": false, "p": [0,0,0], "n": [0,0,0]}), json!({"some": false, "uv": [0,0], "depth": 0})),
                        Some(sp) => {
                            let b = match mesh.uv_with_tol(&sp.point, 0.5, std::f64::consts::FRAC_PI_4, None) {
                                None => json!({"some": false, "uv": [0,0], "depth": 0}),
                                Some((u, d)) => json!({"some": true, "uv": [q.q(u.x, QU), q.q(fl * u.y, QU)], "depth": q.q(d, QU)}),
                            };
                            // the same point given in the lattice frame together with the pose as `transform`
                            let pl = t.inverse() * sp.point;
                            let bt = match mesh.uv_with_tol(&pl, 0.5, std::f64::consts::FRAC_PI_4, Some(&t)) {
                                None => json!({"some": false, "uv": [0,0], "depth": 0}),
                                Some((u, d)) => json!({"some": true, "uv": [q.q(u.x, QU), q.q(fl * u.y, QU)], "depth": q.q(d, QU)}),
                            };
                            back_t = bt;
                            (json!({"some": true, "p": [q.q(sp.point.x, QX), q.q(sp.point.y, QX), q.q(sp.point.z, QX)],
                                    "n": [q.q(sp.normal.x, QN), q.q(sp.normal.y, QN), q.q(sp.normal.z, QN)]}), b)
                        }
                    };
                    // a point lifted off the surface along the normal by 1/4: still maps back to the same uv with that depth
                    probes.push(json!({"face": k, "bc": bc, "uv6": [ (uv.x * 6.0).round() as i64, (fl * uv.y * 6.0).round() as i64 ], "to3": to3, "back": back, "back_t": back_t}));
                }
            }
            json!({"ok": true, "probes": probes, "finite": q.finite})
        }
        _ => json!({"unknown_op": true}),
    }
}
