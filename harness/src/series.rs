//! C17: DiscreteDomain / Series1 executor.  Inputs are exact: abscissae on the quarter lattice
//! (`x4` = 4*x) times a power-of-two scale, ordinates small integers (99 = NaN), infinitesimals as
//! one-ulp nudges.  Outputs are projections only (quantised values, classes, exact comparisons).
use crate::util::*;
use crate::State;
use engeom::common::{linear_space, DiscreteDomain, Interval};
use engeom::Series1;
use serde_json::{json, Value};
use std::panic::{catch_unwind, AssertUnwindSafe};

pub const QX: f64 = 61440.0; // 240 * 256 quanta per abscissa unit
pub const QY: f64 = 20160.0; // 5040 * 4 quanta per ordinate unit
pub const QA: f64 = 10080.0; // area quanta per unit

fn scale_of(rec: &Value) -> f64 {
    (2.0f64).powi(gi_or(rec, "sc", 0) as i32)
}
/// class of a float: 0 finite, 1 NaN, 2 +inf, 3 -inf; value quantised when finite
fn qc(v: f64, scale: f64) -> Value {
    if v.is_nan() {
        json!([0, 1])
    } else if v == f64::INFINITY {
        json!([0, 2])
    } else if v == f64::NEG_INFINITY {
        json!([0, 3])
    } else {
        let mut q = Q::new();
        json!([q.q(v, scale), 0])
    }
}
/// coded abscissa: quarter-lattice integer, or 9001 NaN / 9002 +inf / 9003 -inf
fn xcode(c: i64, s: f64) -> f64 {
    match c {
        9001 => f64::NAN,
        9002 => f64::INFINITY,
        9003 => f64::NEG_INFINITY,
        v => v as f64 / 4.0 * s,
    }
}
/// coded ordinate: integer, 99 = NaN
fn ycode(c: i64) -> f64 {
    if c == 99 {
        f64::NAN
    } else {
        c as f64
    }
}
fn xq(rec: &Value, key: &str, s: f64) -> f64 {
    gi(rec, key) as f64 / 4.0 * s
}
fn asc_flags(v: &[f64]) -> Vec<i64> {
    v.windows(2).map(|w| cmp3(w[0], w[1])).collect()
}

fn dom_obs(d: &DiscreteDomain, s: f64) -> Value {
    let v = d.values();
    let xs: Vec<Value> = v.iter().map(|x| qc(*x / s, QX)).collect();
    json!({"n": v.len(), "len": d.len(), "xs": xs, "asc": asc_flags(v), "fin": v.iter().all(|x| x.is_finite())})
}

/// projection of a series: structure, plus (when structurally sound) the answers to the standard queries
fn series_obs(sr: &Series1, rec: &Value, s: f64) -> Value {
    let xv = sr.x.values();
    let n = xv.len();
    let xs: Vec<Value> = xv.iter().map(|x| qc(*x / s, QX)).collect();
    let ys: Vec<Value> = sr.y.iter().map(|y| qc(*y, QY)).collect();
    let asc = asc_flags(xv);
    let fin = xv.iter().all(|x| x.is_finite());
    let sound = fin && n == sr.y.len() && n >= 1 && asc.iter().all(|c| *c <= 0);
    let mut o = json!({"n": n, "ylen": sr.y.len(), "xs": xs, "ys": ys, "asc": asc, "fin": fin, "queried": sound});
    if !sound {
        return o;
    }
    let guard = |f: &dyn Fn() -> Value| -> Value {
        match catch_unwind(AssertUnwindSafe(f)) {
            Ok(v) => v,
            Err(_) => json!({"p": true}),
        }
    };
    // interpolation at the series' own knots, at segment mid points and one ulp outside both ends
    o["knots"] = guard(&|| json!({"p": false, "v": xv.iter().map(|x| qc(sr.interpolate(*x), QY)).collect::<Vec<_>>()}));
    o["mids"] = guard(&|| json!({"p": false, "v": xv.windows(2).map(|w| qc(sr.interpolate(w[0] + (w[1] - w[0]) * 0.5), QY)).collect::<Vec<_>>()}));
    o["below"] = guard(&|| json!({"p": false, "v": qc(sr.interpolate(next_down(xv[0])), QY)}));
    o["above"] = guard(&|| json!({"p": false, "v": qc(sr.interpolate(next_up(xv[n - 1])), QY)}));
    // the vectorised evaluation (Func1::fs over a whole domain) must agree bit for bit with the pointwise one, NaN included:
    // domain = one ulp below, every knot and segment mid point, one ulp above
    o["fs"] = guard(&|| {
        use engeom::func1::Func1;
        let mut d = vec![next_down(xv[0])];
        for k in 0..n { d.push(xv[k]); if k + 1 < n && xv[k + 1] > xv[k] { d.push(xv[k] + (xv[k + 1] - xv[k]) * 0.5); } }
        d.push(next_up(xv[n - 1]));
        d.dedup();
        match DiscreteDomain::try_from(d.clone()) {
            Err(_) => json!({"p": false, "agree": true, "n": 0}),
            Ok(dom) => {
                let v = sr.fs(&dom);
                let agree = v.len() == d.len() && d.iter().zip(v.iter()).all(|(x, y)| { let f = sr.f(*x); (f.is_nan() && y.is_nan()) || f == *y });
                json!({"p": false, "agree": agree, "n": d.len()})
            }
        }
    });
    o["xmin"] = qc(sr.x_min() / s, QX);
    o["xmax"] = qc(sr.x_max() / s, QX);
    // absolute probes
    let ts = rec.get("ts").map(|_| gvvi(rec, "ts")).unwrap_or_default();
    let at: Vec<Value> = ts
        .iter()
        .map(|t| {
            let x = nudge(t[0] as f64 / 4.0 * s, t[1]);
            guard(&|| {
                json!({"p": false, "v": qc(sr.interpolate(x), QY),
                       "io": sr.x.index_of(x).map(|k| k as i64).unwrap_or(-1),
                       "ia": sr.index_of_x_after(x) as i64})
            })
        })
        .collect();
    o["at"] = json!(at);
    o["area"] = guard(&|| json!({"p": false, "v": qc(sr.area_under() / s, QA)}));
    let lv = rec.get("lv").map(|_| gvi(rec, "lv")).unwrap_or_default();
    let cross: Vec<Value> = lv
        .iter()
        .map(|l| {
            let level = *l as f64 / 4.0;
            guard(&|| {
                let c = sr.y_crossings(level);
                json!({"p": false, "xs": c.iter().map(|x| qc(*x / s, QX)).collect::<Vec<_>>(), "asc": asc_flags(&c)})
            })
        })
        .collect();
    o["cross"] = json!(cross);
    // plateau_at_maxima(x, tol) for requested [x4, tol4] pairs
    let pl = rec.get("pl").map(|_| gvvi(rec, "pl")).unwrap_or_default();
    let plateau: Vec<Value> = pl
        .iter()
        .map(|p| {
            let (x, tol) = (p[0] as f64 / 4.0 * s, p[1] as f64 / 4.0);
            guard(&|| match sr.plateau_at_maxima(x, tol) {
                None => json!({"p": false, "some": false}),
                Some(iv) => json!({"p": false, "some": true, "lo": qc(iv.min / s, QX), "hi": qc(iv.max / s, QX)}),
            })
        })
        .collect();
    o["plateau"] = json!(plateau);
    o["b0"] = guard(&|| {
        let b = sr.bounds_at_y0();
        json!({"p": false, "iv": b.iter().map(|i| json!([qc(i.min / s, QX), qc(i.max / s, QX)])).collect::<Vec<_>>(),
               "ord": b.iter().map(|i| cmp3(i.min, i.max)).collect::<Vec<_>>(),
               "link": b.windows(2).map(|w| cmp3(w[0].max, w[1].min)).collect::<Vec<_>>()})
    });
    o
}

fn opt_obs(sr: &Option<Series1>, rec: &Value, s: f64) -> Value {
    match sr {
        None => json!({"some": false}),
        Some(x) => {
            let mut o = series_obs(x, rec, s);
            o["some"] = json!(true);
            o
        }
    }
}

pub fn exec(rec: &Value, st: &mut State) -> Value {
    let op = gs(rec, "op");
    let s = scale_of(rec);
    match op {
        // ------------------------------------------------------------ discrete domains (stateless)
        "dom_linear" => {
            let (a, b, n) = (xq(rec, "a4", s), xq(rec, "b4", s), gi(rec, "n") as usize);
            let d = if gs(rec, "kind") == "space" { linear_space(a, b, n) } else { DiscreteDomain::linear(a, b, n) };
            let v = d.values();
            let (lo, hi) = (a.min(b), a.max(b));
            let ends = if v.is_empty() { json!([9, 9]) } else { json!([cmp3(v[0], lo), cmp3(v[v.len() - 1], hi)]) };
            json!({"dom": dom_obs(&d, s), "ends": ends})
        }
        "dom_try" => {
            let vals: Vec<f64> = gvi(rec, "vals").iter().map(|c| xcode(*c, s)).collect();
            match DiscreteDomain::try_from(vals) {
                Err(_) => json!({"ok": false}),
                Ok(d) => {
                    let ts = rec.get("ts").map(|_| gvvi(rec, "ts")).unwrap_or_default();
                    let idx: Vec<i64> = ts.iter().map(|t| d.index_of(nudge(t[0] as f64 / 4.0 * s, t[1])).map(|k| k as i64).unwrap_or(-1)).collect();
                    let bounds = match d.bounds() {
                        None => json!({"some": false}),
                        Some(b) => json!({"some": true, "lo": qc(b.min / s, QX), "hi": qc(b.max / s, QX)}),
                    };
                    json!({"ok": true, "dom": dom_obs(&d, s), "idx": idx, "bounds": bounds, "empty": d.is_empty()})
                }
            }
        }
        "dom_push" => {
            let init: Vec<f64> = gvi(rec, "init").iter().map(|c| xcode(*c, s)).collect();
            let mut d = match DiscreteDomain::try_from(init) {
                Ok(d) => d,
                Err(_) => return json!({"ok": false}),
            };
            let oks: Vec<bool> = gvi(rec, "vals").iter().map(|c| d.push(xcode(*c, s)).is_ok()).collect();
            json!({"ok": true, "oks": oks, "dom": dom_obs(&d, s)})
        }
        "ser_try" => {
            let xs: Vec<f64> = gvi(rec, "xs").iter().map(|c| xcode(*c, s)).collect();
            let ys: Vec<f64> = gvi(rec, "ys").iter().map(|c| ycode(*c)).collect();
            match Series1::try_new(xs, ys) {
                Err(_) => json!({"ok": false}),
                Ok(sr) => json!({"ok": true, "s": series_obs(&sr, rec, s)}),
            }
        }
        "ser_new" => {
            // Series1::new from an already validated domain and an ordinate vector of a given length
            let xs: Vec<f64> = gvi(rec, "xs").iter().map(|c| xcode(*c, s)).collect();
            let d = DiscreteDomain::try_from(xs).expect("valid domain");
            let sr = Series1::new(d, vec![1.0; gi(rec, "ny") as usize]);
            json!({"n": sr.x.len(), "ylen": sr.y.len()})
        }
        // ------------------------------------------------------------ series histories
        "root" => {
            let xs: Vec<f64> = gvi(rec, "xs").iter().map(|c| xcode(*c, s)).collect();
            let ys: Vec<f64> = gvi(rec, "ys").iter().map(|c| ycode(*c)).collect();
            match Series1::try_new(xs, ys) {
                Err(_) => json!({"ok": false}),
                Ok(sr) => {
                    let o = series_obs(&sr, rec, s);
                    st.slots.insert("sroot".into(), Box::new((sr.clone(), s)));
                    st.slots.insert("scur".into(), Box::new((sr, s)));
                    json!({"ok": true, "s": o})
                }
            }
        }
        "scale" | "shift" | "abs" | "remove_nan" | "between" | "interval" | "split" | "resample_n" | "resample_x" => {
            let slot = if rec.get("on").and_then(|v| v.as_str()) == Some("root") { "sroot" } else { "scur" };
            let (base, s) = match st.slots.get(slot).and_then(|b| b.downcast_ref::<(Series1, f64)>()) {
                Some(x) => (x.0.clone(), x.1),
                None => return json!({"no_current": true}),
            };
            let mut next: Option<Series1> = None;
            let out = match op {
                "scale" => {
                    let r = base.scaled_by(gi(rec, "sx2") as f64 / 2.0, gi(rec, "sy") as f64);
                    let o = series_obs(&r, rec, s);
                    next = Some(r);
                    json!({"s": o})
                }
                "shift" => {
                    let r = base.shift_by(xq(rec, "dx4", s), gi(rec, "dy") as f64);
                    let o = series_obs(&r, rec, s);
                    next = Some(r);
                    json!({"s": o})
                }
                "abs" => {
                    let r = base.abs();
                    let o = series_obs(&r, rec, s);
                    next = Some(r);
                    json!({"s": o})
                }
                "remove_nan" => {
                    let r = base.remove_nan();
                    let o = series_obs(&r, rec, s);
                    next = Some(r);
                    json!({"s": o})
                }
                "between" | "interval" => {
                    let (x0, x1) = (xq(rec, "a4", s), xq(rec, "b4", s));
                    let r = if op == "between" { base.between(x0, x1) } else { base.in_interval(Interval::new(x0, x1)) };
                    let o = series_obs(&r, rec, s);
                    let ends = if r.x.is_empty() { json!([9, 9]) } else { json!([cmp3(r.x[0], x0.min(x1)), cmp3(r.x[r.x.len() - 1], x0.max(x1))]) };
                    next = Some(r);
                    json!({"s": o, "ends": ends})
                }
                "split" => {
                    let x = xq(rec, "x4", s);
                    let whole = match catch_unwind(AssertUnwindSafe(|| base.area_under())) {
                        Ok(a) => qc(a / s, QA),
                        Err(_) => json!([0, 9]),
                    };
                    let (a, b) = base.split_at_x(x);
                    let oa = opt_obs(&a, rec, s);
                    let ob = opt_obs(&b, rec, s);
                    // exact comparisons of the cut ends with the cut abscissa and of the outer ends with the parent's ends
                    let cut = json!([a.as_ref().filter(|p| !p.x.is_empty()).map(|p| cmp3(p.x[p.x.len() - 1], x)).unwrap_or(9),
                                     b.as_ref().filter(|p| !p.x.is_empty()).map(|p| cmp3(p.x[0], x)).unwrap_or(9)]);
                    let outer = json!([a.as_ref().filter(|p| !p.x.is_empty()).map(|p| cmp3(p.x[0], base.x[0])).unwrap_or(9),
                                       b.as_ref().filter(|p| !p.x.is_empty()).map(|p| cmp3(p.x[p.x.len() - 1], base.x[base.x.len() - 1])).unwrap_or(9)]);
                    next = if gi_or(rec, "keep", 1) == 1 { a } else { b };
                    json!({"a": oa, "b": ob, "cut": cut, "outer": outer, "whole": whole})
                }
                "resample_n" | "resample_x" => {
                    let r = if op == "resample_n" { base.resampled_n(gi(rec, "n") as usize) } else { base.resampled_x(xq(rec, "s4", s)) };
                    let o = series_obs(&r, rec, s);
                    let ends = if r.x.is_empty() || base.x.is_empty() { json!([9, 9]) } else { json!([cmp3(r.x[0], base.x[0]), cmp3(r.x[r.x.len() - 1], base.x[base.x.len() - 1])]) };
                    next = Some(r);
                    json!({"s": o, "ends": ends})
                }
                _ => unreachable!(),
            };
            if let Some(nx) = next {
                st.slots.insert("scur".into(), Box::new((nx, s)));
            }
            out
        }
        _ => json!({"unknown_op": true}),
    }
}
