//! C10: airfoil section analysis (watchdog records). Projects stations, edges, surfaces and derived distances.
use crate::util::*;
use crate::State;
use engeom::airfoil::{AirfoilGeometry, ConstRadiusEdge, ConvergeTangentEdge, DirectionFwd, EdgeLocate, FaceOrient, FitRadiusEdge,
    IntersectEdge, OpenEdge, OpenIntersectGap, RansacRadiusEdge, TMaxFwd, TraceToMaxCurvature, CamberOrient};
use engeom::geom2::{Curve2, Iso2, Point2, Vector2};
use parry2d_f64::na::{Complex, Translation2, Unit as Unit2, UnitComplex};
use serde_json::{json, Value};

fn edge(v: &Value, tol: f64) -> Box<dyn EdgeLocate> {
    match gs(v, "kind") {
        "fit" => FitRadiusEdge::make(None),
        "trace" => TraceToMaxCurvature::make(None),
        "converge" => ConvergeTangentEdge::make(None),
        "const" => ConstRadiusEdge::make(None),
        "ransac" => RansacRadiusEdge::make(tol * 2.0, 500),
        "intersect" => IntersectEdge::make(),
        "open" => OpenEdge::make(),
        _ => OpenIntersectGap::make(50),
    }
}
fn iso2(t: &Value) -> Iso2 {
    let m = gvvi(t, "M");
    let h = gi(t, "H") as f64;
    let tr = gvi(t, "t");
    let td = gi_or(t, "tden", 1) as f64;
    let rot: UnitComplex<f64> = Unit2::new_unchecked(Complex::new(m[0][0] as f64 / h, m[1][0] as f64 / h));
    Iso2::from_parts(Translation2::new(tr[0] as f64 / td, tr[1] as f64 / td), rot)
}

pub fn exec(rec: &Value, _st: &mut State) -> Value {
    let op = gs(rec, "op");
    if op == "livelock" {
        // direct call of the public refinement helper on a section whose quarter ray cannot be spanned (see Stations.tla)
        use engeom::airfoil::helpers::{inscribed_from_spanning_ray, refine_stations, OrientedCircles};
        use parry2d_f64::query::Ray;
        let pts: Vec<Point2> = gvvi(rec, "pts").iter().map(|p| Point2::new(p[0] as f64 / 10.0, p[1] as f64 / 10.0)).collect();
        let section = Curve2::from_points(&pts, 1e-8, true).expect("section");
        let xl = gi(rec, "xl") as f64 / 10.0;
        let xn = gi(rec, "xn") as f64 / 10.0;
        let ray_l = section.try_create_spanning_ray(&Ray::new(Point2::new(xl, 0.3), Vector2::new(0.0, 1.0)));
        let ray_n = section.try_create_spanning_ray(&Ray::new(Point2::new(xn, 0.3), Vector2::new(0.0, 1.0)));
        let (ray_l, ray_n) = match (ray_l, ray_n) { (Some(a), Some(b)) => (a, b), _ => return json!({"setup": false}) };
        let l = inscribed_from_spanning_ray(&section, &ray_l, 1e-6);
        let n = inscribed_from_spanning_ray(&section, &ray_n, 1e-6);
        let mut dest = OrientedCircles::create(false);
        dest.push(l);
        let mut stack = vec![n];
        refine_stations(&section, &mut dest, &mut stack, 1e-4, 1e-6);
        return json!({"setup": true, "returned": true, "n": dest.take_circles().len()});
    }
    if op != "analyze" { return json!({"unknown_op": true}); }
    let unit = gi(rec, "unit") as f64;           // integer coordinates per length unit
    let chord = gi(rec, "chord") as f64 / unit;
    let qc = 1.0e6 / chord;                       // observations in micro-chords
    let base: Vec<Point2> = gvvi(rec, "pts").iter().map(|p| Point2::new(p[0] as f64 / unit, p[1] as f64 / unit)).collect();
    let cam: Vec<Point2> = gvvi(rec, "camber").iter().map(|p| Point2::new(p[0] as f64 / unit, p[1] as f64 / unit)).collect();
    let radii: Vec<f64> = gvi(rec, "radii").iter().map(|r| *r as f64 / unit).collect();
    let gen_camber = Curve2::from_points(&cam, chord * 1e-9, false).expect("generating camber");
    let closed = gb(rec, "closed");
    let tol = gi(rec, "tolq") as f64 / 1.0e6 * chord;
    let ctol = chord * 1.0e-7;
    let base_curve = Curve2::from_points(&base, ctol, closed).expect("base section");
    let mut vars = vec![];
    for v in rec["variants"].as_array().unwrap() {
        let mut q = Q::new();
        let t = iso2(&v["T"]);
        let ti = t.inverse();
        let mut pts: Vec<Point2> = base.iter().map(|p| t * p).collect();
        if closed {
            let k = gi(v, "shift") as usize % pts.len();
            pts.rotate_left(k);
        }
        if gb(v, "rev") { pts.reverse(); }
        let section = match Curve2::from_points(&pts, ctol, closed) { Ok(c) => c, Err(_) => { vars.push(json!({"ok": false, "stage": "section"})); continue } };
        let orient: Box<dyn CamberOrient> = if gs(&rec["orient"], "kind") == "tmax" { TMaxFwd::make() } else {
            let d = gvi(&rec["orient"], "d"); let dv = t * Vector2::new(d[0] as f64, d[1] as f64); DirectionFwd::make(dv) };
        let face = if gs(&rec["face"], "kind") == "detect" { FaceOrient::Detect } else {
            let d = gvi(&rec["face"], "d"); FaceOrient::UpperDir(t * Vector2::new(d[0] as f64, d[1] as f64)) };
        let res = AirfoilGeometry::try_analyze(&section, tol, orient, edge(&rec["le"], tol), edge(&rec["te"], tol), face);
        let g = match res { Ok(g) => g, Err(e) => { vars.push(json!({"ok": false, "stage": "analyze", "err": e.to_string()})); continue } };
        // everything is reported in the base frame (un-moved by T^-1) and in micro-chords
        let mut stations = vec![];
        let n = g.stations.len();
        for (k, s) in g.stations.iter().enumerate() {
            let c = ti * s.circle.center;
            let r = s.radius();
            let cp = ti * s.contact_pos;
            let cn = ti * s.contact_neg;
            // camber direction at this station from its neighbours
            let a = ti * g.stations[if k > 0 { k - 1 } else { k }].circle.center;
            let b = ti * g.stations[if k + 1 < n { k + 1 } else { k }].circle.center;
            let dir = b - a;
            let side = |p: &Point2| -> i64 { let w = p - c; cmp3(dir.x * w.y - dir.y * w.x, 0.0) };
            let gs_ = gen_camber.at_closest_to_point(&c);
            let la = gs_.length_along();
            // radius law interpolated at the closest point of the generating camber
            let (i, f) = (gs_.index(), gs_.fraction());
            let rexp = radii[i] + (radii[(i + 1).min(radii.len() - 1)] - radii[i]) * f;
            stations.push(json!([q.q(c.x, qc), q.q(c.y, qc), q.q(r, qc),
                q.q(base_curve.dist_to_point(&c) - r, qc),
                q.q(base_curve.dist_to_point(&cp), qc), q.q(base_curve.dist_to_point(&cn), qc),
                q.q((cp - c).norm() - r, qc), q.q((cn - c).norm() - r, qc), side(&cp), side(&cn),
                q.q(g.camber.at_closest_to_point(&s.circle.center).length_along(), qc),
                q.q((gs_.point() - c).norm(), qc), q.q(r - rexp, qc), q.q(la, qc)]));
        }
        let edge_out = |q: &mut Q, e: &Option<engeom::airfoil::AirfoilEdge>| match e {
            None => json!({"some": false, "p": [0, 0], "dsec": 0, "geom": "none", "fin": true}),
            Some(e) => { let p = ti * e.point; let mut qe = Q::new();
                let g = match e.geometry { engeom::airfoil::EdgeGeometry::Open => "open", engeom::airfoil::EdgeGeometry::Closed => "closed", _ => "arc" };
                let o = json!({"some": true, "p": [qe.q(p.x, qc), qe.q(p.y, qc)], "dsec": qe.q(base_curve.dist_to_point(&p), qc), "geom": g, "fin": qe.finite});
                let _ = q; o }
        };
        let le = edge_out(&mut q, &g.leading_edge);
        let te = edge_out(&mut q, &g.trailing_edge);
        let cam_first = ti * g.camber.at_front().point();
        let cam_last = ti * g.camber.at_back().point();
        let surf = |q: &mut Q, c: &Option<Curve2>| match c {
            None => json!({"some": false, "len": 0, "a": [0, 0], "b": [0, 0], "maxdev": 0}),
            Some(c) => { let a = ti * c.at_front().point(); let b = ti * c.at_back().point();
                let maxdev = c.points().iter().map(|p| base_curve.dist_to_point(&(ti * p))).fold(0.0, f64::max);
                json!({"some": true, "len": q.q(c.length(), qc), "a": [q.q(a.x, qc), q.q(a.y, qc)], "b": [q.q(b.x, qc), q.q(b.y, qc)], "maxdev": q.q(maxdev, qc)}) }
        };
        let upper = surf(&mut q, &g.upper);
        let lower = surf(&mut q, &g.lower);
        // which side of the camber the upper surface lies on: sign of (upper midpoint - camber midpoint) . requested direction (base frame)
        let up_side = match (&g.upper, g.camber.at_fraction(0.5)) {
            (Some(u), Some(cm)) => { let um = u.at_fraction(0.5).map(|s| s.point()).unwrap_or(cm.point()); let w = ti * (um - cm.point());
                let d = if gs(&rec["face"], "kind") == "detect" { Vector2::new(0.0, if rec.get("mirror").and_then(|m| m.as_bool()).unwrap_or(false) { -1.0 } else { 1.0 }) } else { let d = gvi(&rec["face"], "d"); Vector2::new(d[0] as f64, d[1] as f64) };
                cmp3(w.dot(&d), 0.0) }
            _ => 2,
        };
        let tmax = g.find_tmax();
        let tc = ti * tmax.circle.center;
        let thk = g.get_thickness_max().map(|d| { use engeom::metrology::Measurement; d.value() }).unwrap_or(f64::NAN);
        let mut qt = Q::new();
        vars.push(json!({"ok": true, "stage": "done", "stations": stations, "le": le, "te": te,
            "cam_first": [q.q(cam_first.x, qc), q.q(cam_first.y, qc)], "cam_last": [q.q(cam_last.x, qc), q.q(cam_last.y, qc)],
            "camber_len": q.q(g.camber.length(), qc), "upper": upper, "lower": lower, "perimeter": q.q(base_curve.length(), qc), "up_side": up_side,
            "tmax": {"r": q.q(tmax.radius(), qc), "c": [q.q(tc.x, qc), q.q(tc.y, qc)], "thk": qt.q(thk, qc), "thk_ok": qt.finite},
            "finite": q.finite}));
    }
    let mut qq = Q::new();
    let lt = gvi(rec, "le_true"); let tt = gvi(rec, "te_true");
    json!({"v": vars, "le_true": [qq.q(lt[0] as f64 / unit, qc), qq.q(lt[1] as f64 / unit, qc)], "te_true": [qq.q(tt[0] as f64 / unit, qc), qq.q(tt[1] as f64 / unit, qc)]})
}
