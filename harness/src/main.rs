//! engeom-verif: executes cases (NDJSON) against the real engeom library and records
//! projected, quantised observations. No oracle logic lives here: this program only
//! builds inputs from exact integer descriptions, calls the library and projects results.
use serde_json::{json, Value};
use std::io::{BufRead, BufReader, BufWriter, Read, Write};
use std::panic::{catch_unwind, AssertUnwindSafe};

mod util;
mod angles;
mod collide;
mod stats;
mod series;
mod frames;
mod spatial;
mod rcp;
mod fit;
mod sel;
mod circles;
mod metro;
mod curve;
mod topo;
mod closest;
mod ray;
mod rigid;
mod section;
mod flatten;
mod align;
mod airfoil;

pub struct State {
    pub slots: std::collections::HashMap<String, Box<dyn std::any::Any>>,
}

impl State {
    fn new() -> Self {
        State { slots: Default::default() }
    }
}

fn dispatch(rec: &Value, st: &mut State) -> Value {
    let m = rec["m"].as_str().unwrap_or("");
    match m {
        "angles" => angles::exec(rec, st),
        "collide" => collide::exec(rec, st),
        "stats" => stats::exec(rec, st),
        "series" => series::exec(rec, st),
        "frames" => frames::exec(rec, st),
        "spatial" => spatial::exec(rec, st),
        "rcp" => rcp::exec(rec, st),
        "fit" => fit::exec(rec, st),
        "sel" => sel::exec(rec, st),
        "circles" => circles::exec(rec, st),
        "metro" => metro::exec(rec, st),
        "curve" => curve::exec(rec, st),
        "topo" => topo::exec(rec, st),
        "closest" => closest::exec(rec, st),
        "ray" => ray::exec(rec, st),
        "rigid" => rigid::exec(rec, st),
        "section" => section::exec(rec, st),
        "flatten" => flatten::exec(rec, st),
        "align" => align::exec(rec, st),
        "airfoil" => airfoil::exec(rec, st),
        _ => json!({"unknown_module": true}),
    }
}

fn run_one(rec: &Value, st: &mut State) -> Value {
    let r = catch_unwind(AssertUnwindSafe(|| dispatch(rec, st)));
    let mut out = match r {
        Ok(v) => v,
        Err(_) => json!({"panic": true}),
    };
    if let Some(o) = out.as_object_mut() {
        if !o.contains_key("panic") {
            o.insert("panic".into(), json!(false));
        }
        if !o.contains_key("timeout") {
            o.insert("timeout".into(), json!(false));
        }
    }
    out
}

/// run a single stateless record in a child process with a wall clock and memory limit
fn run_isolated(rec: &Value, ms: u64) -> Value {
    use std::process::{Command, Stdio};
    let exe = std::env::current_exe().unwrap();
    let memkb = std::env::var("VERIF_CHILD_MEM_KB").unwrap_or("2000000".into());
    let mut child = Command::new("sh")
        .arg("-c")
        .arg(format!("ulimit -v {}; exec \"$0\" child", memkb))
        .arg(&exe)
        .stdin(Stdio::piped())
        .stdout(Stdio::piped())
        .stderr(Stdio::null())
        .spawn()
        .expect("spawn child");
    {
        let mut si = child.stdin.take().unwrap();
        let _ = writeln!(si, "{}", rec);
    }
    // read the child's answer concurrently: an answer larger than the pipe buffer would otherwise block the child
    // for ever and look like a time-out of the library
    let mut so = child.stdout.take().unwrap();
    let reader = std::thread::spawn(move || { let mut s = String::new(); let _ = so.read_to_string(&mut s); s });
    let start = std::time::Instant::now();
    loop {
        match child.try_wait() {
            Ok(Some(status)) => {
                let s = reader.join().unwrap_or_default();
                if let Ok(v) = serde_json::from_str::<Value>(s.trim()) {
                    return v;
                }
                // abnormal exit (abort, OOM kill, stack overflow): report as crash
                return json!({"panic": true, "timeout": false, "crash": true, "status": status.code().unwrap_or(-1)});
            }
            Ok(None) => {
                if start.elapsed().as_millis() as u64 > ms {
                    let _ = child.kill();
                    let _ = child.wait();
                    let _ = reader.join();
                    return json!({"panic": false, "timeout": true});
                }
                std::thread::sleep(std::time::Duration::from_millis(2));
            }
            Err(_) => return json!({"panic": true, "timeout": false, "crash": true}),
        }
    }
}

fn main() {
    std::panic::set_hook(Box::new(|_| {}));
    let args: Vec<String> = std::env::args().collect();
    if args.len() >= 2 && args[1] == "child" {
        let mut line = String::new();
        std::io::stdin().read_line(&mut line).unwrap();
        let rec: Value = serde_json::from_str(&line).unwrap();
        let mut st = State::new();
        let out = run_one(&rec, &mut st);
        println!("{}", out);
        return;
    }
    if args.len() < 4 || args[1] != "exec" {
        eprintln!("usage: engeom-verif exec <cases.ndjson> <obs.ndjson>");
        std::process::exit(2);
    }
    let fin = BufReader::new(std::fs::File::open(&args[2]).expect("open cases"));
    let mut fout = BufWriter::new(std::fs::File::create(&args[3]).expect("create obs"));
    let mut recs: Vec<Value> = Vec::new();
    for line in fin.lines() {
        let line = line.unwrap();
        if line.trim().is_empty() {
            continue;
        }
        recs.push(serde_json::from_str(&line).expect("bad case json"));
    }
    let mut outs: Vec<Option<Value>> = vec![None; recs.len()];
    // watchdog cases are stateless: run them in child processes, several at a time; once too many have
    // timed out the rest are skipped (no verdict) so that a hanging library cannot stall the whole run
    {
        let wd_idx: Vec<usize> = (0..recs.len()).filter(|&k| recs[k].get("wd").and_then(|v| v.as_u64()).is_some()).collect();
        let next = std::sync::atomic::AtomicUsize::new(0);
        let timeouts = std::sync::atomic::AtomicUsize::new(0);
        let max_timeouts: usize = std::env::var("VERIF_MAX_TIMEOUTS").ok().and_then(|s| s.parse().ok()).unwrap_or(24);
        let results = std::sync::Mutex::new(Vec::<(usize, Value)>::new());
        let nthreads = 8;
        std::thread::scope(|sc| {
            for _ in 0..nthreads {
                sc.spawn(|| loop {
                    let j = next.fetch_add(1, std::sync::atomic::Ordering::SeqCst);
                    if j >= wd_idx.len() {
                        break;
                    }
                    let k = wd_idx[j];
                    let out = if timeouts.load(std::sync::atomic::Ordering::SeqCst) >= max_timeouts {
                        json!({"panic": false, "timeout": false, "skipped": true})
                    } else {
                        let ms = recs[k]["wd"].as_u64().unwrap();
                        let o = run_isolated(&recs[k], ms);
                        if o["timeout"].as_bool().unwrap_or(false) {
                            timeouts.fetch_add(1, std::sync::atomic::Ordering::SeqCst);
                        }
                        o
                    };
                    results.lock().unwrap().push((k, out));
                });
            }
        });
        for (k, o) in results.into_inner().unwrap() {
            outs[k] = Some(o);
        }
    }
    let mut st = State::new();
    let mut n = 0usize;
    for (k, rec) in recs.iter_mut().enumerate() {
        let op = rec["op"].as_str().unwrap_or("").to_string();
        let mut out = if op == "reset" {
            st = State::new();
            json!({"panic": false, "timeout": false})
        } else if let Some(o) = outs[k].take() {
            o
        } else {
            run_one(rec, &mut st)
        };
        if let Some(o) = out.as_object_mut() {
            if !o.contains_key("skipped") {
                o.insert("skipped".into(), json!(false));
            }
        }
        rec.as_object_mut().unwrap().insert("out".into(), out);
        writeln!(fout, "{}", rec).unwrap();
        n += 1;
    }
    fout.flush().unwrap();
    eprintln!("executed {} records", n);
}
