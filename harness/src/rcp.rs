//! C08: rotation-centred alignment parameters (RcParams2 / RcParams3 / ParamHandler), parameter <-> isometry
//! round trips, Euler derivative matrices and Jacobian rows.  Projection only: inputs are built from exact
//! integers (Pythagorean angles [c,s,h], integer points), outputs are quantised.  Finite differences are
//! *derived observations* taken through the library's own set()/transform(); no comparison happens here.
use crate::util::*;
use crate::State;
use engeom::geom2::align2::{iso2_from_param, param_from_iso2, point_surface_jacobian, RcParams2};
use engeom::geom2::{Iso2, Point2, SurfacePoint2, Vector2};
use engeom::geom3::align3::jacobian::{point_plane_jacobian, point_plane_jacobian_rev, point_point_jacobian};
use engeom::geom3::align3::multi_param::ParamHandler;
use engeom::geom3::align3::{iso3_from_param, param_from_iso3, RcParams3, RotationMatrices};
use engeom::geom3::{Iso3, Point3, SurfacePoint3, Vector3};
use parry2d_f64::na::{Translation2, UnitComplex};
use parry3d_f64::na::{DMatrix, DVector, Matrix3, Rotation3, Translation3, UnitQuaternion, Vector3 as NV3, Vector6};
use serde_json::{json, Value};

const QP: f64 = 131072.0; // points, per unit (2^17)
const QN: f64 = 1048576.0; // unit-size quantities: matrix entries, cos/sin (2^20)
const QJ: f64 = 131072.0; // Jacobian entries and their finite differences (2^17)
const QR: f64 = 1.0e9; // derived residuals
const EPS: f64 = 1.0e-6; // central finite difference step

fn ang(v: &Value) -> f64 {
    let a = v.as_array().expect("angle");
    (a[1].as_i64().unwrap() as f64).atan2(a[0].as_i64().unwrap() as f64)
}
fn vi(v: &Value) -> Vec<i64> {
    v.as_array().expect("int array").iter().map(|x| x.as_i64().unwrap()).collect()
}
fn p2(v: &[i64]) -> Point2 {
    Point2::new(v[0] as f64, v[1] as f64)
}
fn p3(v: &[i64]) -> Point3 {
    Point3::new(v[0] as f64, v[1] as f64, v[2] as f64)
}
fn qp2(q: &mut Q, p: &Point2) -> Vec<i64> {
    vec![q.q(p.x, QP), q.q(p.y, QP), 0]
}
fn qp3(q: &mut Q, p: &Point3) -> Vec<i64> {
    vec![q.q(p.x, QP), q.q(p.y, QP), q.q(p.z, QP)]
}
fn qm3(q: &mut Q, m: &Matrix3<f64>) -> Vec<i64> {
    let mut o = Vec::with_capacity(9);
    for r in 0..3 {
        for c in 0..3 {
            o.push(q.q(m[(r, c)], QN));
        }
    }
    o
}
fn rot3(t: &Value) -> UnitQuaternion<f64> {
    let m = gvvi(t, "M");
    let h = gi(t, "H") as f64;
    let mat = Matrix3::new(
        m[0][0] as f64 / h, m[0][1] as f64 / h, m[0][2] as f64 / h,
        m[1][0] as f64 / h, m[1][1] as f64 / h, m[1][2] as f64 / h,
        m[2][0] as f64 / h, m[2][1] as f64 / h, m[2][2] as f64 / h);
    UnitQuaternion::from_rotation_matrix(&Rotation3::from_matrix_unchecked(mat))
}
fn iso3_of(r: &Value, t: &[i64]) -> Iso3 {
    Iso3::from_parts(Translation3::new(t[0] as f64, t[1] as f64, t[2] as f64), rot3(r))
}
fn iso2_of(a: &Value, t: &[i64]) -> Iso2 {
    Iso2::from_parts(Translation2::new(t[0] as f64, t[1] as f64), UnitComplex::new(ang(a)))
}
fn qmat(q: &UnitQuaternion<f64>) -> Matrix3<f64> {
    *q.to_rotation_matrix().matrix()
}
fn maxabs(m: &Matrix3<f64>) -> f64 {
    m.iter().fold(0.0_f64, |a, b| a.max(b.abs()))
}

// ------------------------------------------------------------------------------------------------ 2D
fn fd2(params: &RcParams2, p: &Point2, s: &SurfacePoint2, k: usize) -> f64 {
    let t_i = params.transform().inverse();
    let f = |e: f64| {
        let mut c = params.clone();
        let mut x = *c.x();
        x[k] += e;
        c.set(&x);
        let t = c.transform() * t_i;
        s.scalar_projection(&(t * *p))
    };
    (f(EPS) - f(-EPS)) / (2.0 * EPS)
}

fn jac2(q: &mut Q, params: &RcParams2, rec: &Value) -> Vec<Value> {
    let mut out = Vec::new();
    if let Some(js) = rec.get("jac").and_then(|v| v.as_array()) {
        for j in js {
            let p = p2(&vi(&j["p"]));
            let n = vi(&j["n"]);
            let s = SurfacePoint2::new_normalize(p2(&vi(&j["c"])), Vector2::new(n[0] as f64, n[1] as f64));
            let row = point_surface_jacobian(&p, &s, params);
            let fd: Vec<i64> = (0..3).map(|k| q.q(fd2(params, &p, &s, k), QJ)).collect();
            out.push(json!({"row": [q.q(row[0], QJ), q.q(row[1], QJ), q.q(row[2], QJ)], "fd": fd}));
        }
    }
    out
}

fn obs2(params: &RcParams2, rec: &Value) -> Value {
    let mut q = Q::new();
    let pr = gvvi(rec, "pr");
    let t = params.transform();
    let ti = params.inverse();
    let img: Vec<Vec<i64>> = pr.iter().map(|p| qp2(&mut q, &(t * p2(p)))).collect();
    let back: Vec<Vec<i64>> = pr.iter().map(|p| qp2(&mut q, &(ti * (t * p2(p))))).collect();
    let inv: Vec<Vec<i64>> = pr.iter().map(|p| qp2(&mut q, &(ti * p2(p)))).collect();
    let x = *params.x();
    let r = params.rotation();
    let r0 = r * Point2::new(0.0, 0.0);
    let rv = r * Point2::new(1.0, 0.0);
    let tv = t * Point2::new(1.0, 0.0) - t * Point2::new(0.0, 0.0);
    let jac = jac2(&mut q, params, rec);
    json!({"x": [q.q(x[0], QP), q.q(x[1], QP), 0], "xa": [q.q(x[2].cos(), QN), q.q(x[2].sin(), QN)],
           "img": img, "back": back, "inv": inv, "crc": qp2(&mut q, params.current_rc()), "rcq": qp2(&mut q, params.rc()),
           "rot0": qp2(&mut q, &r0), "rotv": [q.q(rv.x, QN), q.q(rv.y, QN)], "tv": [q.q(tv.x, QN), q.q(tv.y, QN)],
           "jac": jac, "finite": q.finite})
}

// ------------------------------------------------------------------------------------------------ 3D
fn resid3(kind: &str, t: &Iso3, p: &Point3, c: &SurfacePoint3) -> f64 {
    match kind {
        "pp" => c.scalar_projection(&(t * p)).abs(),
        "rev" => c.transformed(t).scalar_projection(p).abs(),
        _ => ((t * p) - c.point).norm(),
    }
}
fn fd3(params: &RcParams3, kind: &str, p: &Point3, c: &SurfacePoint3, k: usize) -> f64 {
    let t_i = params.transform().inverse();
    let f = |e: f64| {
        let mut cl = params.clone();
        let mut x = *cl.x();
        x[k] += e;
        cl.set(&x);
        let t = cl.transform() * t_i;
        resid3(kind, &t, p, c)
    };
    (f(EPS) - f(-EPS)) / (2.0 * EPS)
}
fn jrow3(params: &RcParams3, kind: &str, p: &Point3, c: &SurfacePoint3) -> Vector6<f64> {
    match kind {
        "pp" => point_plane_jacobian(p, c, params),
        "rev" => point_plane_jacobian_rev(p, c, params),
        _ => point_point_jacobian(p, &c.point, params),
    }
}
fn jac3(q: &mut Q, params: &RcParams3, rec: &Value) -> Vec<Value> {
    let mut out = Vec::new();
    if let Some(js) = rec.get("jac").and_then(|v| v.as_array()) {
        for j in js {
            let kind = gs(j, "k");
            let p = p3(&vi(&j["p"]));
            let n = vi(&j["n"]);
            let c = SurfacePoint3::new_normalize(p3(&vi(&j["c"])), Vector3::new(n[0] as f64, n[1] as f64, n[2] as f64));
            let row = jrow3(params, kind, &p, &c);
            let rq: Vec<i64> = (0..6).map(|k| q.q(row[k], QJ)).collect();
            let fd: Vec<i64> = (0..6).map(|k| q.q(fd3(params, kind, &p, &c, k), QJ)).collect();
            out.push(json!({"row": rq, "fd": fd}));
        }
    }
    out
}
/// central finite difference of the rotation matrix of the active transform with respect to x[3+k]
fn dfd3(params: &RcParams3, k: usize) -> Matrix3<f64> {
    let f = |e: f64| {
        let mut cl = params.clone();
        let mut x = *cl.x();
        x[3 + k] += e;
        cl.set(&x);
        qmat(&cl.transform().rotation)
    };
    (f(EPS) - f(-EPS)) / (2.0 * EPS)
}
fn rotobs(q: &mut Q, rm: &RotationMatrices) -> Value {
    let r = qmat(&rm.q);
    let res = maxabs(&(rm.rd.x * r - rm.d.x)).max(maxabs(&(rm.rd.y * r - rm.d.y))).max(maxabs(&(rm.rd.z * r - rm.d.z)));
    json!({"rm": qm3(q, &r), "d": [qm3(q, &rm.d.x), qm3(q, &rm.d.y), qm3(q, &rm.d.z)],
           "rd": [qm3(q, &rm.rd.x), qm3(q, &rm.rd.y), qm3(q, &rm.rd.z)], "rd_res": q.q(res, QR),
           "re": [[q.q(rm.r.x.cos(), QN), q.q(rm.r.x.sin(), QN)], [q.q(rm.r.y.cos(), QN), q.q(rm.r.y.sin(), QN)], [q.q(rm.r.z.cos(), QN), q.q(rm.r.z.sin(), QN)]]})
}

fn obs3(params: &RcParams3, rec: &Value) -> Value {
    let mut q = Q::new();
    let pr = gvvi(rec, "pr");
    let t = params.transform();
    let ti = params.inverse();
    let img: Vec<Vec<i64>> = pr.iter().map(|p| qp3(&mut q, &(t * p3(p)))).collect();
    let back: Vec<Vec<i64>> = pr.iter().map(|p| qp3(&mut q, &(ti * (t * p3(p))))).collect();
    let inv: Vec<Vec<i64>> = pr.iter().map(|p| qp3(&mut q, &(ti * p3(p)))).collect();
    let x = *params.x();
    let ro = rotobs(&mut q, params.rotations());
    let tm = qm3(&mut q, &qmat(&t.rotation));
    let dfd = [qm3(&mut q, &dfd3(params, 0)), qm3(&mut q, &dfd3(params, 1)), qm3(&mut q, &dfd3(params, 2))];
    let jac = jac3(&mut q, params, rec);
    json!({"x": [q.q(x[0], QP), q.q(x[1], QP), q.q(x[2], QP)],
           "xe": [[q.q(x[3].cos(), QN), q.q(x[3].sin(), QN)], [q.q(x[4].cos(), QN), q.q(x[4].sin(), QN)], [q.q(x[5].cos(), QN), q.q(x[5].sin(), QN)]],
           "img": img, "back": back, "inv": inv, "crc": qp3(&mut q, params.current_rc()), "rcq": qp3(&mut q, &params.rc),
           "rot": ro, "tm": tm, "dfd": dfd, "jac": jac, "finite": q.finite})
}

fn set3_x(x0: &Vector6<f64>, s: &Value) -> Vector6<f64> {
    let mut x = *x0;
    let dt = vi(&s["dt"]);
    x[0] += dt[0] as f64;
    x[1] += dt[1] as f64;
    x[2] += dt[2] as f64;
    if gb(s, "rot") {
        let e = s["e"].as_array().expect("euler");
        x[3] = ang(&e[0]);
        x[4] = ang(&e[1]);
        x[5] = ang(&e[2]);
    }
    x
}

// ------------------------------------------------------------------------------------------------ multi body
fn multi(rec: &Value) -> Value {
    let mut q = Q::new();
    let bodies = rec["bodies"].as_array().expect("bodies");
    let n = bodies.len();
    let st = gi(rec, "static") as usize;
    let means: Vec<Point3> = bodies.iter().map(|b| p3(&vi(&b["rc"]))).collect();
    let inits: Vec<Iso3> = bodies.iter().map(|b| iso3_of(&b["R"], &vi(&b["t"]))).collect();
    let pr = gvvi(rec, "pr");
    let mut h = if gb(rec, "noinit") { ParamHandler::new(st, means, None) } else { ParamHandler::new(st, means, Some(&inits)) };
    let pidx: Vec<i64> = (0..n).map(|k| h.p_index(k) as i64).collect();
    let imgs = |q: &mut Q, h: &ParamHandler| -> Vec<Vec<Vec<i64>>> {
        (0..n).map(|b| { let t = h.get_transform(b); pr.iter().map(|p| qp3(q, &(t * p3(p)))).collect() }).collect()
    };
    let rels = |q: &mut Q, h: &ParamHandler| -> Vec<Value> {
        let mut o = Vec::new();
        for a in 0..n {
            for b in 0..n {
                if a != b {
                    let t = h.relative_transform(a, b);
                    let im: Vec<Vec<i64>> = pr.iter().map(|p| qp3(q, &(t * p3(p)))).collect();
                    o.push(json!({"test": a, "refb": b, "img": im}));
                }
            }
        }
        o
    };
    let init = imgs(&mut q, &h);
    let rel0 = rels(&mut q, &h);
    let np0 = h.params().len();
    let mut steps = Vec::new();
    if let Some(sets) = rec.get("sets").and_then(|v| v.as_array()) {
        for s in sets {
            let per = s.as_array().expect("set list");
            let mut x: DVector<f64> = h.params().clone();
            for b in 0..n {
                if b == st {
                    continue;
                }
                let col = 6 * h.p_index(b);
                let blk = Vector6::new(x[col], x[col + 1], x[col + 2], x[col + 3], x[col + 4], x[col + 5]);
                let nb = set3_x(&blk, &per[b]);
                for k in 0..6 {
                    x[col + k] = nb[k];
                }
            }
            h.set_param(&x);
            steps.push(json!({"img": imgs(&mut q, &h), "rel": rels(&mut q, &h)}));
        }
    }
    // which columns does set_jacobian write for each cloud index
    let cols = 6 * (n - 1);
    let vals = Vector6::new(1.0, 2.0, 3.0, 4.0, 5.0, 6.0);
    let jcols: Vec<Vec<i64>> = (0..n).map(|b| {
        let mut m = DMatrix::<f64>::zeros(2, cols);
        h.set_jacobian(&mut m, 1, b, &vals);
        let mut row: Vec<i64> = (0..cols).map(|c| q.q(m[(1, c)], 1.0)).collect();
        row.push((0..cols).map(|c| m[(0, c)].abs()).sum::<f64>() as i64);
        row
    }).collect();
    // the same caller-owned matrix refilled (what an optimiser callback does on every iteration): partials that have become
    // exactly zero must overwrite the values of the previous fill
    let vals2 = Vector6::new(0.0, 7.0, 0.0, 8.0, -0.0, 9.0);
    let jrefill: Vec<Vec<i64>> = (0..n).map(|b| {
        let mut m = DMatrix::<f64>::zeros(2, cols);
        h.set_jacobian(&mut m, 1, b, &vals);
        h.set_jacobian(&mut m, 1, b, &vals2);
        (0..cols).map(|c| q.q(m[(1, c)], 1.0)).collect()
    }).collect();
    json!({"pidx": pidx, "np": np0, "init": init, "rel0": rel0, "steps": steps, "jcols": jcols, "jrefill": jrefill, "finite": q.finite})
}

// ------------------------------------------------------------------------------------------------ float classes
/// near-gimbal offsets (index `gd`): pitch = sign * (pi/2 - delta)
const DELTAS: [f64; 10] = [0.0, 1.0e-12, 1.0e-10, 1.0e-9, 1.0e-8, 1.0e-7, 1.0e-6, 1.0e-5, 1.0e-4, 1.0e-3];

fn axis_rot(k: usize, a: f64) -> UnitQuaternion<f64> {
    let ax = match k { 0 => NV3::x_axis(), 1 => NV3::y_axis(), _ => NV3::z_axis() };
    UnitQuaternion::from_axis_angle(&ax, a)
}
fn fangles(rec: &Value, key: &str) -> [f64; 3] {
    let a = gvi(rec, key);
    let mut e = [a[0] as f64 * 1.0e-6, a[1] as f64 * 1.0e-6, a[2] as f64 * 1.0e-6];
    let g = gi_or(rec, "gim", 0);
    if g != 0 {
        let d = DELTAS[gi_or(rec, "gd", 0) as usize];
        e[1] = (g as f64) * (std::f64::consts::FRAC_PI_2 - d);
    }
    e
}
fn fpt3(v: &[i64]) -> Point3 {
    Point3::new(v[0] as f64 / 1000.0, v[1] as f64 / 1000.0, v[2] as f64 / 1000.0)
}
fn dist3(a: &Point3, b: &Point3) -> f64 {
    (a - b).amax()
}

fn float3(rec: &Value) -> Value {
    let mut q = Q::new();
    let e = fangles(rec, "ang");
    let rot = if gs(rec, "ord") == "zyx" { axis_rot(2, e[2]) * axis_rot(1, e[1]) * axis_rot(0, e[0]) } else { axis_rot(0, e[0]) * axis_rot(1, e[1]) * axis_rot(2, e[2]) };
    let tv = fpt3(&gvi(rec, "t"));
    let t0 = Iso3::from_parts(Translation3::new(tv.x, tv.y, tv.z), rot);
    let rc = fpt3(&gvi(rec, "rc"));
    let pr: Vec<Point3> = gvvi(rec, "pr").iter().map(|v| { let o = fpt3(v); Point3::new(rc.x + o.x, rc.y + o.y, rc.z + o.z) }).collect();
    // isometry -> parameters -> isometry
    // (probes near the origin: the plain round trip has no rotation centre, an angular error of the
    //  Euler extraction would otherwise be magnified by the distance of the centre from the origin)
    let t1 = iso3_from_param(&param_from_iso3(&t0));
    let pro: Vec<Point3> = gvvi(rec, "pr").iter().map(|v| fpt3(v)).collect();
    let rt_res = pro.iter().map(|p| dist3(&(t1 * p), &(t0 * p))).fold(0.0, f64::max);
    // RotationMatrices::from_rotation reproduces the rotation
    let rm = RotationMatrices::from_rotation(&rot);
    let rotm_res = maxabs(&(qmat(&rm.q) - qmat(&rot)));
    // rotation-centred parameters
    let mut params = RcParams3::from_initial(&t0, &rc);
    let mut stepv = Vec::new();
    let mut prev: Vec<Point3> = pr.iter().map(|p| params.transform() * p).collect();
    let init_res = pr.iter().zip(prev.iter()).map(|(p, m)| dist3(m, &(t0 * p))).fold(0.0, f64::max);
    let n_steps = rec.get("sets").and_then(|v| v.as_array()).map(|a| a.len()).unwrap_or(0);
    for k in 0..=n_steps {
        if k > 0 {
            let s = &rec["sets"][k - 1];
            let dt = gvi(s, "dt");
            let da = gvi(s, "da");
            let mut x = *params.x();
            for j in 0..3 {
                x[j] += dt[j] as f64 / 1000.0;
                x[3 + j] += da[j] as f64 * 1.0e-6;
            }
            let crc_before = *params.current_rc();
            params.set(&x);
            let now: Vec<Point3> = pr.iter().map(|p| params.transform() * p).collect();
            let dv = Vector3::new(dt[0] as f64 / 1000.0, dt[1] as f64 / 1000.0, dt[2] as f64 / 1000.0);
            let pure = da.iter().all(|v| *v == 0);
            let trans_res = if pure { now.iter().zip(prev.iter()).map(|(a, b)| dist3(a, &(b + dv))).fold(0.0, f64::max) } else { 0.0 };
            // closed form with independently composed axis rotations: crc' + Rx Ry Rz (P - rc)
            let r = axis_rot(0, x[3]) * axis_rot(1, x[4]) * axis_rot(2, x[5]);
            let c1 = crc_before + dv;
            let xf_res = pr.iter().zip(now.iter()).map(|(p, m)| dist3(m, &(c1 + r * (p - rc)))).fold(0.0, f64::max);
            stepv.push(json!({"pure": pure, "trans_res": q.q(trans_res, QR), "xf_res": q.q(xf_res, QR)}));
            prev = now;
        }
        let t = *params.transform();
        let ti = *params.inverse();
        let inv_res = pr.iter().map(|p| dist3(&(ti * (t * p)), p)).fold(0.0, f64::max);
        let crc_res = dist3(params.current_rc(), &(t * rc));
        let rmx = params.rotations();
        let rr = qmat(&rmx.q);
        let d_res = maxabs(&(rmx.d.x - dfd3(&params, 0))).max(maxabs(&(rmx.d.y - dfd3(&params, 1)))).max(maxabs(&(rmx.d.z - dfd3(&params, 2))));
        let rd_res = maxabs(&(rmx.rd.x * rr - rmx.d.x)).max(maxabs(&(rmx.rd.y * rr - rmx.d.y))).max(maxabs(&(rmx.rd.z * rr - rmx.d.z)));
        let qres = maxabs(&(rr - qmat(&t.rotation)));
        let mut jres = Vec::new();
        if let Some(js) = rec.get("jac").and_then(|v| v.as_array()) {
            for j in js {
                let kind = gs(j, "k");
                let o = fpt3(&vi(&j["p"]));
                let p = Point3::new(params.current_rc().x + o.x, params.current_rc().y + o.y, params.current_rc().z + o.z);
                let n = vi(&j["n"]);
                let nv = Vector3::new(n[0] as f64, n[1] as f64, n[2] as f64).normalize();
                let off = gi(j, "off") as f64 / 1000.0;
                // reference point: on the normal line through p (rev / pt need it), offset `off` along the normal
                let c = SurfacePoint3::new_normalize(p - nv * off, nv);
                let row = jrow3(&params, kind, &p, &c);
                let mut m = 0.0_f64;
                for k2 in 0..6 {
                    m = m.max((row[k2] - fd3(&params, kind, &p, &c, k2)).abs());
                }
                jres.push(q.q(m, 1.0e6));
            }
        }
        stepv.push(json!({"state": k, "inv_res": q.q(inv_res, QR), "crc_res": q.q(crc_res, QR), "d_res": q.q(d_res, 1.0e6),
                          "rd_res": q.q(rd_res, QR), "q_res": q.q(qres, QR), "jfd": jres}));
    }
    json!({"rt_res": q.q(rt_res, QR), "rotm_res": q.q(rotm_res, QR), "init_res": q.q(init_res, QR), "steps": stepv, "finite": q.finite})
}

fn fpt2(v: &[i64]) -> Point2 {
    Point2::new(v[0] as f64 / 1000.0, v[1] as f64 / 1000.0)
}
fn dist2(a: &Point2, b: &Point2) -> f64 {
    (a - b).amax()
}
fn float2(rec: &Value) -> Value {
    let mut q = Q::new();
    let a = gi(rec, "ang") as f64 * 1.0e-6;
    let tv = fpt2(&gvi(rec, "t"));
    let t0 = Iso2::from_parts(Translation2::new(tv.x, tv.y), UnitComplex::new(a));
    let rc = fpt2(&gvi(rec, "rc"));
    let pr: Vec<Point2> = gvvi(rec, "pr").iter().map(|v| { let o = fpt2(v); Point2::new(rc.x + o.x, rc.y + o.y) }).collect();
    let t1 = iso2_from_param(&param_from_iso2(&t0));
    let pro: Vec<Point2> = gvvi(rec, "pr").iter().map(|v| fpt2(v)).collect();
    let rt_res = pro.iter().map(|p| dist2(&(t1 * p), &(t0 * p))).fold(0.0, f64::max);
    let mut params = RcParams2::from_initial(&t0, &rc);
    let mut prev: Vec<Point2> = pr.iter().map(|p| params.transform() * p).collect();
    let init_res = pr.iter().zip(prev.iter()).map(|(p, m)| dist2(m, &(t0 * p))).fold(0.0, f64::max);
    let mut stepv = Vec::new();
    let n_steps = rec.get("sets").and_then(|v| v.as_array()).map(|a| a.len()).unwrap_or(0);
    for k in 0..=n_steps {
        if k > 0 {
            let s = &rec["sets"][k - 1];
            let dt = gvi(s, "dt");
            let da = gi(s, "da");
            let mut x = *params.x();
            x[0] += dt[0] as f64 / 1000.0;
            x[1] += dt[1] as f64 / 1000.0;
            x[2] += da as f64 * 1.0e-6;
            params.set(&x);
            let now: Vec<Point2> = pr.iter().map(|p| params.transform() * p).collect();
            let dv = Vector2::new(dt[0] as f64 / 1000.0, dt[1] as f64 / 1000.0);
            let pure = da == 0;
            let trans_res = if pure { now.iter().zip(prev.iter()).map(|(a, b)| dist2(a, &(b + dv))).fold(0.0, f64::max) } else { 0.0 };
            // closed form: rc + t + R(theta)(P - rc) with an independently built rotation
            let r = UnitComplex::new(x[2]);
            let xf_res = pr.iter().zip(now.iter()).map(|(p, m)| dist2(m, &(rc + Vector2::new(x[0], x[1]) + r * (p - rc)))).fold(0.0, f64::max);
            stepv.push(json!({"pure": pure, "trans_res": q.q(trans_res, QR), "xf_res": q.q(xf_res, QR)}));
            prev = now;
        }
        let t = *params.transform();
        let ti = *params.inverse();
        let inv_res = pr.iter().map(|p| dist2(&(ti * (t * p)), p)).fold(0.0, f64::max);
        let crc_res = dist2(params.current_rc(), &(t * rc));
        let mut jres = Vec::new();
        if let Some(js) = rec.get("jac").and_then(|v| v.as_array()) {
            for j in js {
                let o = fpt2(&vi(&j["p"]));
                let p = Point2::new(params.current_rc().x + o.x, params.current_rc().y + o.y);
                let n = vi(&j["n"]);
                let so = fpt2(&vi(&j["c"]));
                let s = SurfacePoint2::new_normalize(Point2::new(p.x + so.x, p.y + so.y), Vector2::new(n[0] as f64, n[1] as f64));
                let row = point_surface_jacobian(&p, &s, &params);
                let mut m = 0.0_f64;
                for k2 in 0..3 {
                    m = m.max((row[k2] - fd2(&params, &p, &s, k2)).abs());
                }
                jres.push(q.q(m, 1.0e6));
            }
        }
        stepv.push(json!({"state": k, "inv_res": q.q(inv_res, QR), "crc_res": q.q(crc_res, QR), "jfd": jres}));
    }
    json!({"rt_res": q.q(rt_res, QR), "init_res": q.q(init_res, QR), "steps": stepv, "finite": q.finite})
}

// ------------------------------------------------------------------------------------------------ dispatch
pub fn exec(rec: &Value, st: &mut State) -> Value {
    let op = gs(rec, "op");
    match op {
        "init2" => {
            let t0 = iso2_of(&rec["a"], &vi(&rec["t"]));
            let params = RcParams2::from_initial(&t0, &p2(&vi(&rec["rc"])));
            let o = obs2(&params, rec);
            st.slots.insert("rcp2".into(), Box::new(params));
            o
        }
        "set2" => {
            let mut params = match st.slots.get("rcp2").and_then(|b| b.downcast_ref::<RcParams2>()) {
                Some(p) => p.clone(),
                None => return json!({"nostate": true}),
            };
            let mut x = *params.x();
            let dt = vi(&rec["dt"]);
            x[0] += dt[0] as f64;
            x[1] += dt[1] as f64;
            if gb(rec, "rot") {
                x[2] = ang(&rec["a"]);
            }
            params.set(&x);
            let o = obs2(&params, rec);
            st.slots.insert("rcp2".into(), Box::new(params));
            o
        }
        "init3" => {
            let t0 = iso3_of(&rec["R"], &vi(&rec["t"]));
            let params = RcParams3::from_initial(&t0, &p3(&vi(&rec["rc"])));
            let o = obs3(&params, rec);
            st.slots.insert("rcp3".into(), Box::new(params));
            o
        }
        "set3" => {
            let mut params = match st.slots.get("rcp3").and_then(|b| b.downcast_ref::<RcParams3>()) {
                Some(p) => p.clone(),
                None => return json!({"nostate": true}),
            };
            let x = set3_x(params.x(), rec);
            params.set(&x);
            let o = obs3(&params, rec);
            st.slots.insert("rcp3".into(), Box::new(params));
            o
        }
        "rt2" => {
            let mut q = Q::new();
            let t0 = iso2_of(&rec["a"], &vi(&rec["t"]));
            let pr = gvvi(rec, "pr");
            let x = param_from_iso2(&t0);
            let t1 = iso2_from_param(&x);
            let img: Vec<Vec<i64>> = pr.iter().map(|p| qp2(&mut q, &(t1 * p2(p)))).collect();
            // parameters -> isometry, straight from the exact parameter values
            let tv = vi(&rec["t"]);
            let xs = parry2d_f64::na::Vector3::new(tv[0] as f64, tv[1] as f64, ang(&rec["a"]));
            let t2 = iso2_from_param(&xs);
            let pimg: Vec<Vec<i64>> = pr.iter().map(|p| qp2(&mut q, &(t2 * p2(p)))).collect();
            let x2 = param_from_iso2(&t2);
            json!({"img": img, "pimg": pimg, "x": [q.q(x[0], QP), q.q(x[1], QP), 0], "xa": [q.q(x[2].cos(), QN), q.q(x[2].sin(), QN)],
                   "x2": [q.q(x2[0], QP), q.q(x2[1], QP), 0], "x2a": [q.q(x2[2].cos(), QN), q.q(x2[2].sin(), QN)], "finite": q.finite})
        }
        "rt3" => {
            let mut q = Q::new();
            let t0 = iso3_of(&rec["R"], &vi(&rec["t"]));
            let pr = gvvi(rec, "pr");
            let x = param_from_iso3(&t0);
            let t1 = iso3_from_param(&x);
            let img: Vec<Vec<i64>> = pr.iter().map(|p| qp3(&mut q, &(t1 * p3(p)))).collect();
            // parameters (exact Euler triple in the parameter convention) -> isometry -> parameters -> isometry
            let tv = vi(&rec["t"]);
            let e = rec["e"].as_array().expect("euler");
            let xs = Vector6::new(tv[0] as f64, tv[1] as f64, tv[2] as f64, ang(&e[0]), ang(&e[1]), ang(&e[2]));
            let t2 = iso3_from_param(&xs);
            let t3 = iso3_from_param(&param_from_iso3(&t2));
            let pimg: Vec<Vec<i64>> = pr.iter().map(|p| qp3(&mut q, &(t2 * p3(p)))).collect();
            let pimg2: Vec<Vec<i64>> = pr.iter().map(|p| qp3(&mut q, &(t3 * p3(p)))).collect();
            let rm = RotationMatrices::from_rotation(&t0.rotation);
            let ro = rotobs(&mut q, &rm);
            json!({"img": img, "pimg": pimg, "pimg2": pimg2, "x": [q.q(x[0], QP), q.q(x[1], QP), q.q(x[2], QP)], "rot": ro, "finite": q.finite})
        }
        "rote" => {
            let mut q = Q::new();
            let e = rec["e"].as_array().expect("euler");
            let rm = RotationMatrices::from_euler(ang(&e[0]), ang(&e[1]), ang(&e[2]));
            let ro = rotobs(&mut q, &rm);
            json!({"rot": ro, "finite": q.finite})
        }
        "multi" => multi(rec),
        "float3" => float3(rec),
        "float2" => float2(rec),
        _ => json!({"unknown_op": true}),
    }
}
