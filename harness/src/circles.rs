//! C11: Circle2 / Arc2 / tangent constructions and circle intersections.
//! Inputs are exact integers (lattice centres, integer radii, Z_16 and Pythagorean angles, a power-of-two
//! scale `sc`); outputs are divided by the scale again and quantised with the record's quantum `q`.
//! Nothing is compared here: every sub-call is executed inside its own catch_unwind and projected.
use crate::util::*;
use crate::State;
use engeom::common::Intersection;
use engeom::geom2::{Arc2, Circle2, Curve2, HasBounds2, Point2, Segment2};
use serde_json::{json, Value};
use std::f64::consts::TAU;
use std::panic::{catch_unwind, AssertUnwindSafe};

const N: f64 = 16.0;
const U: f64 = 1048576.0;

fn scale_of(rec: &Value) -> f64 {
    (2.0f64).powi(gi_or(rec, "sc", 0) as i32)
}
fn quantum(rec: &Value) -> f64 {
    gi_or(rec, "q", 1024) as f64
}
// `off`: every centre and point of the record is translated by that lattice vector (constructions far from the origin) and every
// reported coordinate is translated back before it is quantised; lengths, radii and angles are not affected
thread_local! { static OFF: std::cell::Cell<[f64; 2]> = std::cell::Cell::new([0.0; 2]); }
fn set_off(rec: &Value) {
    let o = match rec.get("off") { Some(_) => { let v = gvi(rec, "off"); [v[0] as f64, v[1] as f64] } None => [0.0; 2] };
    OFF.with(|c| c.set(o));
}
fn off() -> [f64; 2] { OFF.with(|c| c.get()) }
fn circle(v: &[i64], s: f64) -> Circle2 {
    let o = off();
    Circle2::new((v[0] as f64 + o[0]) * s, (v[1] as f64 + o[1]) * s, v[2] as f64 * s)
}
fn pt(v: &[i64], s: f64) -> Point2 {
    let o = off();
    Point2::new((v[0] as f64 + o[0]) * s, (v[1] as f64 + o[1]) * s)
}
fn ang16(k: i64) -> f64 {
    k as f64 / N * TAU
}
/// an angle as 16ths of a turn, in units of 2^-20
fn qa(q: &mut Q, r: f64) -> i64 {
    q.q(r / TAU * N, U)
}

struct P {
    q: Q,
    s: f64,
    k: f64,
}
impl P {
    fn new(rec: &Value) -> Self {
        P { q: Q::new(), s: scale_of(rec), k: quantum(rec) }
    }
    fn p(&mut self, p: &Point2) -> Vec<i64> {
        let o = off();
        vec![self.q.q(p.x / self.s - o[0], self.k), self.q.q(p.y / self.s - o[1], self.k)]
    }
    fn ps(&mut self, ps: &[Point2]) -> Vec<Vec<i64>> {
        ps.iter().map(|p| self.p(p)).collect()
    }
    fn l(&mut self, v: f64) -> i64 {
        self.q.q(v / self.s, self.k)
    }
}

/// run one library sub-call; a panic becomes {"panic": true}
fn guarded<F: FnOnce() -> Value>(f: F) -> Value {
    match catch_unwind(AssertUnwindSafe(f)) {
        Ok(mut v) => {
            if let Some(o) = v.as_object_mut() {
                o.insert("panic".into(), json!(false));
            }
            v
        }
        Err(_) => json!({"panic": true}),
    }
}

fn bb(pr: &mut P, b: &engeom::geom2::Aabb2) -> Vec<i64> {
    let lo = pr.p(&b.mins);
    let hi = pr.p(&b.maxs);
    vec![lo[0], lo[1], hi[0], hi[1]]
}

/// projection of an arc: ends, box, length (in 16ths of a turn times the radius unit), samples
fn arc_out(rec: &Value, arc: &Arc2) -> Value {
    let mut pr = P::new(rec);
    let s = pr.s;
    let fr = if rec.get("fr").is_some() { gvvi(rec, "fr") } else { vec![] };
    let len = arc.length();
    let pf: Vec<Vec<i64>> = fr.iter().map(|f| pr.p(&arc.point_at_fraction(f[0] as f64 / f[1] as f64))).collect();
    let pl: Vec<Vec<i64>> = fr.iter().map(|f| pr.p(&arc.point_at_length(len * (f[0] as f64 / f[1] as f64)))).collect();
    let start = pr.p(&arc.start());
    let end = pr.p(&arc.end());
    let b = bb(&mut pr, arc.aabb());
    let c = pr.p(&arc.center());
    let r = pr.l(arc.radius());
    let mut qq = Q::new();
    let o = json!({
        "start": start, "end": end, "bb": b, "c": c, "r": r,
        "len": qq.q(len / s / TAU * N, U),
        "a0": qa(&mut qq, arc.angle0), "a": qa(&mut qq, arc.angle),
        "asg": cmp3(arc.angle, 0.0), "ahi": cmp3(arc.angle.abs(), TAU),
        "pf": pf, "pl": pl,
        "finite": pr.q.finite && qq.finite });
    o
}

pub fn exec(rec: &Value, _st: &mut State) -> Value {
    let op = gs(rec, "op");
    let s = scale_of(rec);
    set_off(rec);
    match op {
        // ---- a circle and a segment that starts hundreds of millions of radii... units away (2^27 + 1): the intersection
        //      points themselves are small numbers, only the far end of the segment is large
        "segfar" => {
            let c = circle(&gvi(rec, "c"), s);
            let far = (gi(rec, "far") as f64) * s;
            let lvl = gi(rec, "lvl") as f64 * s;
            let xe = gi(rec, "xe") as f64 * s;
            let swap = gi_or(rec, "swap", 0) == 1;
            let mk = |x: f64, y: f64| if swap { Point2::new(y, x) } else { Point2::new(x, y) };
            let seg = Segment2::try_new(mk(-far, lvl), mk(xe, lvl)).expect("segment");
            guarded(|| {
                let mut pr = P::new(rec);
                let r = c.intersection(&seg);
                let pts: Vec<Point2> = r.iter().map(|p| if swap { Point2::new(p.y, p.x) } else { *p }).collect();
                json!({"pts": pr.ps(&pts), "finite": pr.q.finite})
            })
        }
        // ---- outer tangents of two large circles whose radii differ by a few units in millions: the exact integer clauses
        //      would overflow, so the harness reports relative residuals (derived observations, unit 2^-30)
        "ccnear" => {
            let v0 = gvi(rec, "c0");
            let v1 = gvi(rec, "c1");
            let c0 = circle(&v0, s);
            let c1 = circle(&v1, s);
            let u = 1073741824.0;
            guarded(|| {
                match c0.outer_tangents_to(&c1) {
                    None => json!({"some": false, "segs": []}),
                    Some((a, b)) => {
                        let mut qq = Q::new();
                        let (o0, o1) = (Point2::new(c0.x(), c0.y()), Point2::new(c1.x(), c1.y()));
                        let axis = o1 - o0;
                        let mut segs = vec![];
                        for g in [&a, &b] {
                            let (ra, rb, t) = (g.a - o0, g.b - o1, g.b - g.a);
                            segs.push(json!({
                                "on0": qq.q((ra.norm() - c0.r()) / c0.r(), u), "on1": qq.q((rb.norm() - c1.r()) / c1.r(), u),
                                "perp0": qq.q(ra.dot(&t) / (ra.norm() * t.norm()), u), "perp1": qq.q(rb.dot(&t) / (rb.norm() * t.norm()), u),
                                "same": qq.q(ra.normalize().dot(&rb.normalize()) - 1.0, u),
                                "side": cmp3(axis.x * ra.y - axis.y * ra.x, 0.0)}));
                        }
                        json!({"some": true, "segs": segs, "finite": qq.finite})
                    }
                }
            })
        }
        // ---- two circles: intersections both ways, intersection interval, outer tangents, cached boxes
        "cc" => {
            let v0 = gvi(rec, "c0");
            let v1 = gvi(rec, "c1");
            let c0 = circle(&v0, s);
            let c1 = circle(&v1, s);
            let fwd = guarded(|| {
                let mut pr = P::new(rec);
                let r = c0.intersections_with(&c1);
                json!({"pts": pr.ps(&r), "finite": pr.q.finite})
            });
            let rev = guarded(|| {
                let mut pr = P::new(rec);
                let r = c1.intersections_with(&c0);
                json!({"pts": pr.ps(&r), "finite": pr.q.finite})
            });
            let iv = guarded(|| {
                let mut pr = P::new(rec);
                match c0.intersection_interval(c1) {
                    None => json!({"some": false, "s": [0, 0], "e": [0, 0], "m": [0, 0], "ext": 0, "finite": true}),
                    Some(i) => {
                        let at = |a: f64| Point2::new(c0.x() + c0.r() * a.cos(), c0.y() + c0.r() * a.sin());
                        let ps = at(i.start());
                        let pe = at(i.start() + i.angle());
                        let pm = at(i.start() + i.angle() / 2.0);
                        let mut qq = Q::new();
                        let ext = qa(&mut qq, i.angle());
                        json!({"some": true, "s": pr.p(&ps), "e": pr.p(&pe), "m": pr.p(&pm), "ext": ext,
                               "finite": pr.q.finite && qq.finite})
                    }
                }
            });
            let outer = guarded(|| {
                let mut pr = P::new(rec);
                match c0.outer_tangents_to(&c1) {
                    None => json!({"some": false, "s0": [0, 0, 0, 0], "s1": [0, 0, 0, 0], "finite": true}),
                    Some((a, b)) => {
                        let f = |pr: &mut P, g: &Segment2| -> Vec<i64> {
                            let mut v = pr.p(&g.a);
                            v.extend(pr.p(&g.b));
                            v
                        };
                        json!({"some": true, "s0": f(&mut pr, &a), "s1": f(&mut pr, &b), "finite": pr.q.finite})
                    }
                }
            });
            let mut pr = P::new(rec);
            json!({"fwd": fwd, "rev": rev, "iv": iv, "outer": outer,
                   "bb0": bb(&mut pr, c0.aabb()), "bb1": bb(&mut pr, c1.aabb()), "finite": pr.q.finite})
        }
        // ---- a circle and a point: tangent points, signed distance, projection to the perimeter
        "tan" => {
            let c = circle(&gvi(rec, "c"), s);
            let p = pt(&gvi(rec, "p"), s);
            let tan = guarded(|| {
                let mut pr = P::new(rec);
                match c.tangent_points_to(&p) {
                    None => json!({"some": false, "t0": [0, 0], "t1": [0, 0], "finite": true}),
                    Some((a, b)) => json!({"some": true, "t0": pr.p(&a), "t1": pr.p(&b), "finite": pr.q.finite}),
                }
            });
            let misc = guarded(|| {
                let mut pr = P::new(rec);
                let d = pr.l(c.distance_to(&p));
                let (ps, pp) = match c.project_point_to_perimeter(&p) {
                    None => (false, vec![0, 0]),
                    Some(x) => (true, pr.p(&x)),
                };
                json!({"dist": d, "proj_some": ps, "proj": pp, "finite": pr.q.finite})
            });
            json!({"tan": tan, "misc": misc})
        }
        // ---- tangent points from a point thousands to hundreds of millions of radii away: the exact clauses would overflow, so the
        //      harness reports relative residuals (derived observations, unit 2^-30): on the circle, tangent perpendicular to the
        //      radius, the two points on opposite sides of the line from the point to the centre (left one first)
        "tanfar" => {
            let c = circle(&gvi(rec, "c"), s);
            let p = pt(&gvi(rec, "p"), s);
            let u = 1073741824.0;
            guarded(|| match c.tangent_points_to(&p) {
                None => json!({"some": false, "pts": []}),
                Some((a, b)) => {
                    let mut qq = Q::new();
                    let o = Point2::new(c.x(), c.y());
                    let axis = o - p;
                    let pts: Vec<Value> = [a, b].iter().map(|t| {
                        let (rv, tv) = (t - o, t - p);
                        json!({"on": qq.q((rv.norm() - c.r()) / c.r(), u), "perp": qq.q(rv.dot(&tv) / (rv.norm() * tv.norm()), u),
                               "side": cmp3(axis.x * rv.y - axis.y * rv.x, 0.0)})
                    }).collect();
                    json!({"some": true, "pts": pts, "finite": qq.finite})
                }
            })
        }
        // ---- circle / arc through three points that are nearly in line (the sine of the turn is given by the generator): accepted, and
        //      the three points lie on it - relative residuals (unit 2^-30) of the distances to the centre against the radius
        "arc3far" => {
            let p0 = pt(&gvi(rec, "p0"), s);
            let p1 = pt(&gvi(rec, "p1"), s);
            let p2 = pt(&gvi(rec, "p2"), s);
            let u = 1073741824.0;
            let circ = guarded(|| match Circle2::from_3_points(p0, p1, p2) {
                Err(_) => json!({"ok": false, "res": []}),
                Ok(c) => {
                    let mut qq = Q::new();
                    let o = Point2::new(c.x(), c.y());
                    let res: Vec<i64> = [p0, p1, p2].iter().map(|p| qq.q(((p - o).norm() - c.r()) / c.r(), u)).collect();
                    json!({"ok": true, "res": res, "finite": qq.finite})
                }
            });
            let arc = guarded(|| {
                let a = Arc2::three_points(p0, p1, p2);
                let mut qq = Q::new();
                let rel = |x: &Point2, y: &Point2| (x - y).norm() / a.radius();
                json!({"start": qq.q(rel(&a.start(), &p0), u), "end": qq.q(rel(&a.end(), &p2), u), "finite": qq.finite})
            });
            json!({"circ": circ, "arc": arc})
        }
        // ---- a circle and a segment a'b' = [a - ext*(b-a), b + ext*(b-a)]
        "seg" => {
            let c = circle(&gvi(rec, "c"), s);
            let a = gvi(rec, "a");
            let b = gvi(rec, "b");
            let e = gi_or(rec, "ext", 0);
            let a2 = [a[0] - e * (b[0] - a[0]), a[1] - e * (b[1] - a[1])];
            let b2 = [b[0] + e * (b[0] - a[0]), b[1] + e * (b[1] - a[1])];
            let seg = Segment2::try_new(pt(&a2, s), pt(&b2, s)).expect("segment");
            let mut pr = P::new(rec);
            let r = c.intersection(&seg);
            json!({"pts": pr.ps(&r), "finite": pr.q.finite})
        }
        // ---- a circle and a polyline
        "curve" => {
            let c = circle(&gvi(rec, "c"), s);
            let pts: Vec<Point2> = gvvi(rec, "pts").iter().map(|p| pt(p, s)).collect();
            let cv = Curve2::from_points(&pts, s / 1048576.0, gb(rec, "fc")).expect("curve");
            let mut pr = P::new(rec);
            let r = cv.intersection(&c);
            json!({"pts": pr.ps(&r), "nv": cv.count(), "finite": pr.q.finite})
        }
        // ---- arcs on the Z_16 angle lattice, through each constructor
        "arc16" => {
            let v = gvi(rec, "c");
            let c = circle(&v, s);
            let a0 = ang16(gi(rec, "s"));
            let a = ang16(gi(rec, "x"));
            let arc = match gs(rec, "via") {
                "angles" => Arc2::circle_angles(c.center, c.r(), a0, a),
                "partial" => c.to_partial_arc(a0, a),
                "full" => c.to_arc(),
                _ => {
                    // circle_point_angle: the start is given by a point in the start direction
                    let p = Point2::new(c.x() + c.r() * a0.cos(), c.y() + c.r() * a0.sin());
                    Arc2::circle_point_angle(c.center, c.r(), p, a)
                }
            };
            arc_out(rec, &arc)
        }
        // ---- arcs with Pythagorean (exactly rational) start direction and sweep
        "arcp" => {
            let v = gvi(rec, "c");
            let c = circle(&v, s);
            let u = gvi(rec, "u");
            let ph = gvi(rec, "phi");
            let m = gi(rec, "qt");
            let sg = gi(rec, "sg") as f64;
            let a0 = (u[1] as f64).atan2(u[0] as f64);
            let a = sg * (m as f64 * std::f64::consts::FRAC_PI_2 + (ph[1] as f64).atan2(ph[0] as f64));
            let arc = match gs(rec, "via") {
                "angles" => Arc2::circle_angles(c.center, c.r(), a0, a),
                "partial" => c.to_partial_arc(a0, a),
                _ => {
                    // the start point is the lattice-rational point c + r*u/|u| (any point in that direction will do)
                    let p = Point2::new(c.x() + u[0] as f64 * s, c.y() + u[1] as f64 * s);
                    Arc2::circle_point_angle(c.center, c.r(), p, a)
                }
            };
            arc_out(rec, &arc)
        }
        // ---- arc through three lattice points
        "arc3" => {
            let p0 = pt(&gvi(rec, "p0"), s);
            let p1 = pt(&gvi(rec, "p1"), s);
            let p2 = pt(&gvi(rec, "p2"), s);
            let arc = Arc2::three_points(p0, p1, p2);
            arc_out(rec, &arc)
        }
        _ => json!({"unknown_op": true}),
    }
}
