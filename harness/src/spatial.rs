//! C15: k-d tree queries (full and index-remapped partial tree), Poisson-disk selection, mesh sampling,
//! convex hull / farthest pair / order direction, 2D ball pivoting.
//! Projection only: inputs are built from exact integers, results are quantised; all judging is TLA+.
use crate::util::*;
use crate::State;
use engeom::common::kd_tree::{KdTree, KdTreeSearch, PartialKdTree};
use engeom::common::poisson_disk::sample_poisson_disk;
use engeom::common::AngleDir;
use engeom::geom2::hull::{
    ball_pivot_fill_gaps_2d, ball_pivot_with_centers_2d, convex_hull_2d, farthest_pair_indices, point_order_direction,
    BallPivotEnd, BallPivotStart,
};
use engeom::geom2::{Curve2, Point2, Vector2};
use engeom::geom3::{Mesh, Point3};
use parry2d_f64::shape::ConvexPolygon;
use serde_json::{json, Value};
use std::num::NonZero;

const QC: f64 = 1024.0; // coordinates of computed points, per lattice unit
const QN: f64 = 16384.0; // unit normals
const QD2: f64 = 8.0; // squared distances, per squared half lattice unit

fn scale(rec: &Value) -> f64 {
    (2.0f64).powi(gi_or(rec, "sc", 0) as i32)
}
fn p2(v: &[i64], s: f64) -> Point2 {
    Point2::new(v[0] as f64 * s, v[1] as f64 * s)
}
fn p3(v: &[i64], s: f64) -> Point3 {
    Point3::new(v[0] as f64 * s, v[1] as f64 * s, v[2] as f64 * s)
}
/// (index, distance) pairs -> [index, round(8 * (2 d / s)^2)]
fn pairs(q: &mut Q, v: &[(usize, f64)], s: f64) -> Vec<Value> {
    v.iter().map(|(i, d)| { let dd = 2.0 * d / s; json!([i, q.q(dd * dd, QD2)]) }).collect()
}

fn kd_queries<const D: usize, T: KdTreeSearch<D>>(tree: &T, rec: &Value, s: f64, q: &mut Q, mk: impl Fn(&[i64]) -> parry3d_f64::na::Point<f64, D>) -> Value {
    let ks = gvi(rec, "ks");
    let rs = gvi(rec, "rs");
    let mut outs = vec![];
    for qq in gvvi(rec, "qs") {
        let p = mk(&qq);
        let n1 = if tree.is_empty() { json!([]) } else { json!(pairs(q, &[tree.nearest_one(&p)], s)) };
        let nk: Vec<Value> = ks.iter().map(|k| json!(pairs(q, &tree.nearest(&p, NonZero::new(*k as usize).unwrap()), s))).collect();
        let w: Vec<Value> = rs.iter().map(|h| json!(pairs(q, &tree.within(&p, *h as f64 / 2.0 * s), s))).collect();
        outs.push(json!({"n1": n1, "nk": nk, "w": w}));
    }
    json!({"len": tree.len(), "q": outs, "finite": q.finite})
}

fn dir_of(d: i64) -> AngleDir {
    if d >= 0 { AngleDir::Ccw } else { AngleDir::Cw }
}
fn dir_code(d: AngleDir) -> i64 {
    match d { AngleDir::Ccw => 1, AngleDir::Cw => -1 }
}

pub fn exec(rec: &Value, _st: &mut State) -> Value {
    let op = gs(rec, "op");
    let mut q = Q::new();
    let s = scale(rec);
    match op {
        "kd" => {
            let dim = gi(rec, "dim");
            let pts = gvvi(rec, "pts");
            let part = gb(rec, "part");
            let sub: Vec<usize> = gvi(rec, "sub").iter().map(|i| *i as usize).collect();
            if dim == 2 {
                let all: Vec<Point2> = pts.iter().map(|p| p2(p, s)).collect();
                let mk = |v: &[i64]| Point2::new(v[0] as f64 / 2.0 * s, v[1] as f64 / 2.0 * s);
                if part { kd_queries(&PartialKdTree::<2>::new(&all, &sub), rec, s, &mut q, mk) } else { kd_queries(&KdTree::<2>::new(&all), rec, s, &mut q, mk) }
            } else {
                let all: Vec<Point3> = pts.iter().map(|p| p3(p, s)).collect();
                let mk = |v: &[i64]| Point3::new(v[0] as f64 / 2.0 * s, v[1] as f64 / 2.0 * s, v[2] as f64 / 2.0 * s);
                if part { kd_queries(&PartialKdTree::<3>::new(&all, &sub), rec, s, &mut q, mk) } else { kd_queries(&KdTree::<3>::new(&all), rec, s, &mut q, mk) }
            }
        }
        "poisson" => {
            let dim = gi(rec, "dim");
            let pts = gvvi(rec, "pts");
            let order: Vec<usize> = gvi(rec, "order").iter().map(|i| *i as usize).collect();
            let rs = gvi(rec, "rs");
            let res: Vec<Vec<usize>> = if dim == 2 {
                let all: Vec<Point2> = pts.iter().map(|p| p2(p, s)).collect();
                rs.iter().map(|h| sample_poisson_disk(&all, &order, *h as f64 / 2.0 * s)).collect()
            } else {
                let all: Vec<Point3> = pts.iter().map(|p| p3(p, s)).collect();
                rs.iter().map(|h| sample_poisson_disk(&all, &order, *h as f64 / 2.0 * s)).collect()
            };
            json!({"res": res})
        }
        "hull" => {
            let pts: Vec<Point2> = gvvi(rec, "pts").iter().map(|p| p2(p, s)).collect();
            let hull = convex_hull_2d(&pts);
            let far = match ConvexPolygon::from_convex_hull(&pts) {
                Some(poly) => {
                    let (a, b) = farthest_pair_indices(&poly);
                    let n = poly.points().len();
                    if a < n && b < n {
                        let (pa, pb) = (poly.points()[a], poly.points()[b]);
                        json!({"some": true, "i": a, "j": b, "np": n,
                               "pi": [q.q(pa.x / s, 1.0), q.q(pa.y / s, 1.0)], "pj": [q.q(pb.x / s, 1.0), q.q(pb.y / s, 1.0)]})
                    } else {
                        json!({"some": true, "i": a, "j": b, "np": n, "pi": [-1, -1], "pj": [-1, -1]})
                    }
                }
                None => json!({"some": false, "i": 0, "j": 0, "np": 0, "pi": [0, 0], "pj": [0, 0]}),
            };
            let dir = dir_code(point_order_direction(&pts));
            let (cok, cv, closed) = match Curve2::from_points_ccw(&pts, 1.0e-9 * s, gb(rec, "fc")) {
                Ok(c) => (true, c.points().iter().map(|p| json!([q.q(p.x / s, QC), q.q(p.y / s, QC)])).collect::<Vec<_>>(), c.is_closed()),
                Err(_) => (false, vec![], false),
            };
            json!({"hull": hull, "far": far, "dir": dir, "ccw": {"ok": cok, "v": cv, "closed": closed}, "finite": q.finite})
        }
        "pivot" => {
            let pts: Vec<Point2> = gvvi(rec, "pts").iter().map(|p| p2(p, s)).collect();
            let st = &rec["start"];
            let start = match gs(st, "kind") {
                "convex" => BallPivotStart::StartOnConvex,
                "index" => BallPivotStart::StartOnIndex(gi(st, "i") as usize),
                _ => { let v = gvi(st, "v"); BallPivotStart::StartOnIndexDir(gi(st, "i") as usize, Vector2::new(v[0] as f64, v[1] as f64)) }
            };
            let en = &rec["end"];
            let end = match gs(en, "kind") {
                "index" => BallPivotEnd::EndOnIndex(gi(en, "i") as usize),
                _ => BallPivotEnd::EndOnRepeat,
            };
            let dir = dir_of(gi(rec, "dir"));
            let r = gi(rec, "rh") as f64 / 2.0 * s;
            let (ok, idx, ctr) = match ball_pivot_with_centers_2d(&pts, start, end, dir, r) {
                Ok((i, c)) => (true, i, c.iter().map(|p| json!([q.q(p.x / s, QC), q.q(p.y / s, QC)])).collect::<Vec<_>>()),
                Err(_) => (false, vec![], vec![]),
            };
            // gap filling with the same arguments (maximum spacing = gh half units)
            let gh = gi_or(rec, "gh", 0);
            let (fok, fill) = if gh > 0 {
                match ball_pivot_fill_gaps_2d(&pts, start, end, dir, r, gh as f64 / 2.0 * s) {
                    Ok(v) => (true, v.iter().map(|p| json!([q.q(p.x / s, QC), q.q(p.y / s, QC)])).collect::<Vec<_>>()),
                    Err(_) => (false, vec![]),
                }
            } else { (false, vec![]) };
            json!({"ok": ok, "idx": idx, "ctr": ctr, "fok": fok, "fill": fill, "finite": q.finite})
        }
        "msample" => {
            let verts: Vec<Point3> = gvvi(rec, "vpos").iter().map(|p| p3(p, s)).collect();
            let faces: Vec<[u32; 3]> = gvvi(rec, "faces").iter().map(|f| [f[0] as u32, f[1] as u32, f[2] as u32]).collect();
            // optional `split` [vertices, faces]: the mesh is assembled in two steps - the first part is built and SAMPLED (same kind,
            // result discarded), then the rest is appended to the same object - and sampled after that
            let mesh = match rec.get("split").and_then(|v| v.as_array()) {
                None => Mesh::new(verts, faces, false),
                Some(sp) => {
                    let (nv, nf) = (sp[0].as_u64().unwrap() as usize, sp[1].as_u64().unwrap() as usize);
                    let mut a = Mesh::new(verts[..nv].to_vec(), faces[..nf].to_vec(), false);
                    let b = Mesh::new(verts[nv..].to_vec(), faces[nf..].iter().map(|f| [f[0] - nv as u32, f[1] - nv as u32, f[2] - nv as u32]).collect(), false);
                    let _ = match gs(rec, "kind") {
                        "uniform" => a.sample_uniform(50),
                        "dense" => a.sample_dense(gi(rec, "h") as f64 / 2.0 * s),
                        _ => a.sample_poisson(gi(rec, "h") as f64 / 2.0 * s),
                    };
                    a.append(&b).expect("append");
                    a
                }
            };
            // nd: how many candidates sample_poisson starts from (its documented first step: dense sampling at half the radius)
            let mut nd = 0usize;
            let mut dense_ties = false;
            let sp = match gs(rec, "kind") {
                "uniform" => mesh.sample_uniform(gi(rec, "n") as usize),
                "dense" => mesh.sample_dense(gi(rec, "h") as f64 / 2.0 * s),
                _ => {
                    let cand = mesh.sample_dense(gi(rec, "h") as f64 / 4.0 * s);
                    nd = cand.len();
                    for a in 0..3 {
                        let mut v: Vec<u64> = cand.iter().map(|x| (x.point[a] + 0.0).to_bits()).collect();
                        v.sort_unstable();
                        v.dedup();
                        if v.len() < nd { dense_ties = true; }
                    }
                    mesh.sample_poisson(gi(rec, "h") as f64 / 2.0 * s)
                }
            };
            let p: Vec<Value> = sp.iter().map(|x| json!([q.q(x.point.x / s, QC), q.q(x.point.y / s, QC), q.q(x.point.z / s, QC)])).collect();
            let n: Vec<Value> = sp.iter().map(|x| json!([q.q(x.normal.x, QN), q.q(x.normal.y, QN), q.q(x.normal.z, QN)])).collect();
            json!({"p": p, "n": n, "nd": nd, "dense_ties": dense_ties, "finite": q.finite})
        }
        _ => json!({"unknown_op": true}),
    }
}
